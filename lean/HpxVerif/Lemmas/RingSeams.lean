/-
RING scheme (C11), the two loose ends of `RingReal*.lean`.

Part 1 (this file, first half): the hypothesis `RingIndexExact n` is a theorem (`ringIndexExact_holds`) for every
`1 ≤ n < 2^30` (in fact `n < 2^31`), and the unconditional forms (`…_uncond`) of all the theorems of `Props/C11.lean` and
`RingReal*.lean` that carried it.

Part 2 (this file, second half): the integer tail of `hash_with_dldh` on the *phantom diamonds* next to the north-cap
seams, and the exact behaviour of the plane function `hashPlane` on the eight north-cap seams, both profiles, every `n`.
-/
import HpxVerif.Lemmas.RingReal4
import HpxVerif.Lemmas.SqrtApprox5

namespace Hpx.RingSeams
open Hpx Hpx.Ring Hpx.Proj Hpx.RingReal Real

/-! ## T1: `RingIndexExact` holds

`RingIndexExact n` says: for every `x < tri4 n = 2n(n+1)`, `tri4 (polarRingIndex x) ≤ x < tri4 (polarRingIndex x + 1)`,
where `polarRingIndex x` = 4 correction steps applied to the `f64` estimate `polarRingApprox x = (isqrtF64 (2x+1) − 1)/2`.
`RingReal.ringIndexExact_of_approx` reduces it to "the estimate is within 4 of the exact index for `x < tri4 n`".
`SqrtApprox.polarRingApprox_sharp` (`SqrtApprox5`, = `Props/C11.ring_index_exact`) proves that for `x < 2^60`, which
discharges `RingIndexExact n` exactly for `n ≤ 759250124` (`tri4 n ≤ 2^60`; every `n ≤ 2^29 = nside_max` included) — but
not for every `n < 2^30` (`tri4 n` up to `2^61`), the bound of the theorems of `Props/C11.lean`.  The accuracy proof is
therefore redone here on the whole `u64` range (`isqrtF64_bounds64`: within `−1 … +2` of `⌊√y⌋` for every `y < 2^64`,
reusing the model-level lemmas of `SqrtApprox2/3`), which gives `RingIndexExact n` for every `n < 2^31`. -/

section Sqrt64
open Float.Model Float.Model.UnpackedFloat
open Hpx.Layer Hpx.SqrtApprox

/-- `SqrtApprox.sqrt_perturb` for every `y < 2^64`: perturbing `y` by at most `y / 2^52 < 2^12` moves the integer square
    root by at most one -/
theorem sqrt_perturb64 (y v : Nat) (hy : y < 2 ^ 64) (h1 : v ≤ y + y / 2 ^ 52) (h2 : y ≤ v + y / 2 ^ 52) :
    y.sqrt ≤ v.sqrt + 1 ∧ v.sqrt ≤ y.sqrt + 1 := by
  by_cases hs : y < 2 ^ 52
  · have : y / 2 ^ 52 = 0 := Nat.div_eq_of_lt hs
    have : v = y := by omega
    subst this; omega
  · have hd : y / 2 ^ 52 < 2 ^ 12 := by omega
    have a := Nat.sqrt_le y
    have b := Nat.lt_succ_sqrt y
    simp only [Nat.succ_eq_add_one] at b
    have hS : 2 ^ 26 ≤ y.sqrt := by
      by_contra hc
      have : (y.sqrt + 1) * (y.sqrt + 1) ≤ 2 ^ 26 * 2 ^ 26 := Nat.mul_le_mul (by omega) (by omega)
      omega
    constructor
    · have : (y.sqrt - 1) * (y.sqrt - 1) ≤ v := by
        obtain ⟨s, hs⟩ : ∃ s, y.sqrt = s + 1 := ⟨y.sqrt - 1, by omega⟩
        rw [hs] at a hS ⊢
        have : (s + 1) * (s + 1) = s * s + 2 * s + 1 := by ring
        simp only [Nat.add_sub_cancel]
        omega
      have := nat_sqrt_mono this
      rw [(nat_sqrt_eq_iff _ (y.sqrt - 1)).2 ⟨Nat.le_refl _, Nat.mul_self_lt_mul_self (by omega)⟩] at this
      omega
    · have : v < (y.sqrt + 2) * (y.sqrt + 2) := by
        have : (y.sqrt + 2) * (y.sqrt + 2) = (y.sqrt + 1) * (y.sqrt + 1) + 2 * y.sqrt + 3 := by ring
        omega
      have : v.sqrt < y.sqrt + 2 := Nat.mul_self_lt_mul_self_iff.1 (by have := Nat.sqrt_le v; omega)
      omega

/-- **`⌊√y⌋ − 1 ≤ isqrtF64 y ≤ ⌊√y⌋ + 2` for every `0 < y < 2^64`** (the whole `u64` range; `SqrtApprox.isqrtF64_sharp`
    has the sharp bound below `2^61`) -/
theorem isqrtF64_bounds64 (y : Nat) (h0 : 0 < y) (hy : y < 2 ^ 64) :
    y.sqrt ≤ isqrtF64 y + 1 ∧ isqrtF64 y ≤ y.sqrt + 2 := by
  obtain ⟨m, e, h, v, hun, hm1, hm2, he1, he2, hv, hv1, hv2⟩ := float_ofNat_spec y h0 hy
  obtain ⟨m2, e2, h2, hsq, hb1, hb2, hcase⟩ := sqrt_spec m e h hm1 hm2 (by omega) (by omega)
  obtain ⟨hp1, hp2⟩ := sqrt_perturb64 y v hy hv1 hv2
  obtain ⟨k, hk⟩ : ∃ k : Nat, e / 2 - 26 = -(k : Int) := ⟨(26 - e / 2).toNat, by omega⟩
  have hk20 : 20 ≤ k := by omega
  have hM : m * 2 ^ (e - 2 * (e / 2 - 26)).toNat = v * 4 ^ k := by
    have h4 : (4 : Nat) ^ k = 2 ^ (2 * k) := by rw [Nat.pow_mul]
    have hs : (e - 2 * (e / 2 - 26)).toNat + 52 = (e + 52).toNat + 2 * k := by omega
    have : m * 2 ^ (e - 2 * (e / 2 - 26)).toNat * 2 ^ 52 = v * 4 ^ k * 2 ^ 52 := by
      rw [Nat.mul_assoc, ← Nat.pow_add, hs, Nat.pow_add, ← Nat.mul_assoc, hv, h4]; ring
    exact Nat.eq_of_mul_eq_mul_right (by decide) this
  rw [hM, hk] at hcase
  have hval : ∃ r, (r = (v * 4 ^ k).sqrt ∨ r = (v * 4 ^ k).sqrt + 1) ∧ isqrtF64 y = r / 2 ^ k := by
    unfold isqrtF64
    rw [toUInt64_eq, toModel_sqrt, hun, hsq, model_unpack_pack m2 e2 h2 hb1 hb2 (by omega) (by omega)]
    rcases hcase with ⟨rfl, rfl⟩ | ⟨rfl, rfl⟩ | ⟨h53, rfl, rfl⟩
    · exact ⟨_, Or.inl rfl, toUInt64_spec _ _ _ k rfl (Nat.lt_of_le_of_lt (Nat.div_le_self _ _) (by omega))⟩
    · exact ⟨_, Or.inr rfl, toUInt64_spec _ _ _ k rfl (Nat.lt_of_le_of_lt (Nat.div_le_self _ _) (by omega))⟩
    · refine ⟨_, Or.inr rfl, ?_⟩
      obtain ⟨j, rfl⟩ : ∃ j, k = j + 1 := ⟨k - 1, by omega⟩
      rw [toUInt64_spec _ _ _ j (by omega) (Nat.lt_of_le_of_lt (Nat.div_le_self _ _) (by decide)), h53, Nat.pow_succ 2 j, Nat.mul_comm (2 ^ j),
        ← Nat.div_div_eq_div_mul]
      rfl
  obtain ⟨r, hr, hres⟩ := hval
  obtain ⟨hd1, hd2⟩ := sqrt_scale_div v k r hr
  omega

/-- the `f64` estimate of the polar ring index is within 2 of the exact index for every `x < 2^63` -/
theorem polarRingApprox_within_two (x t : Nat) (hx : x < 2 ^ 63) (h1 : Ring.tri4 t ≤ x) (h2 : x < Ring.tri4 (t + 1)) :
    polarRingApprox x ≤ t + 2 ∧ t ≤ polarRingApprox x + 2 := by
  rw [RingReal.tri4_eq] at h1 h2
  have hy : 1 + x <<< 1 = 2 * x + 1 := by rw [Nat.shiftLeft_eq]; omega
  obtain ⟨hb1, hb2⟩ := isqrtF64_bounds64 (2 * x + 1) (by omega) (by omega)
  have a := Nat.sqrt_le (2 * x + 1)
  have b := Nat.lt_succ_sqrt (2 * x + 1)
  simp only [Nat.succ_eq_add_one] at b
  have e1 : (2 * t + 1) * (2 * t + 1) = 4 * (t * t) + 4 * t + 1 := by ring
  have e2 : (2 * t + 3) * (2 * t + 3) = 4 * ((t + 1) * (t + 1)) + 4 * (t + 1) + 1 := by ring
  have e3 : t * (t + 1) = t * t + t := by ring
  have e4 : (t + 1) * (t + 1 + 1) = (t + 1) * (t + 1) + (t + 1) := by ring
  have c1 : 2 * t + 1 < (2 * x + 1).sqrt + 1 := Nat.mul_self_lt_mul_self_iff.1 (by omega)
  have c2 : (2 * x + 1).sqrt < 2 * t + 3 := Nat.mul_self_lt_mul_self_iff.1 (by omega)
  unfold polarRingApprox
  rw [hy, Nat.shiftRight_eq_div_pow]
  omega

end Sqrt64

/-- `RingIndexExact n` holds as soon as `tri4 n = 2n(n+1) ≤ 2^63` -/
theorem ringIndexExact_of_tri4 (n : Nat) (h : tri4 n ≤ 2 ^ 63) : RingIndexExact n := by
  apply ringIndexExact_of_approx
  intro x t hx h1 h2
  obtain ⟨a, b⟩ := polarRingApprox_within_two x t (by omega) h1 h2
  exact ⟨by omega, by omega⟩

/-- `tri4 n ≤ 2^63` is exactly `n < 2^31` -/
theorem tri4_le_2_63_iff (n : Nat) : tri4 n ≤ 2 ^ 63 ↔ n < 2 ^ 31 := by
  constructor
  · intro h
    have : tri4 (2 ^ 31) = 9223372041149743104 := by decide
    exact tri4_lt_of_lt (by omega)
  · intro h
    have := tri4_mono (show n ≤ 2 ^ 31 - 1 by omega)
    have e : tri4 (2 ^ 31 - 1) = 9223372032559808512 := by decide
    omega

/-- the polar ring index computed by the code is exact below `tri4 n` for every `n < 2^31` -/
theorem ringIndexExact_holds_31 (n : Nat) (hn' : n < 2 ^ 31) : RingIndexExact n :=
  ringIndexExact_of_tri4 n ((tri4_le_2_63_iff n).mpr hn')

/-- **T1**: the polar ring index computed by the code (`f64` square-root estimate + integer correction loops) is the
    exact one below `tri4 n`, for every `1 ≤ n < 2^30` (power of two or not) — the hypothesis `hRI` of the theorems of
    `Props/C11.lean`, on their whole range -/
theorem ringIndexExact_holds (n : Nat) (_hn : 1 ≤ n) (hn' : n < 2 ^ 30) : RingIndexExact n :=
  ringIndexExact_holds_31 n (by omega)

/-- the part that `SqrtApprox5.polarRingApprox_sharp` (`x < 2^60`) discharges: exactly `n ≤ 759250124` -/
theorem tri4_le_2_60_iff (n : Nat) : tri4 n ≤ 2 ^ 60 ↔ n ≤ 759250124 := by
  constructor
  · intro h
    have : tri4 759250125 = 1152921506143531500 := by decide
    have h' : n < 759250125 := tri4_lt_of_lt (by omega)
    omega
  · intro h
    have := tri4_mono h
    have e : tri4 759250124 = 1152921503106531000 := by decide
    omega

/-! ### unconditional forms of the theorems of `Props/C11.lean` -/

theorem ring_center_plane_uncond (debug : Bool) {n : Nat} (hn : 1 ≤ n) (hN : n < 2 ^ 30)
    (h : Nat) (hh : h < 12 * n * n) :
    ∃ r i, r < 4 * n - 1 ∧ i < 4 * perFacet n r ∧ h = ringStart n r + i ∧
      centerOfProjectedCell (α := ℝ) debug n h = some ((cxI n r i : ℝ) / n, (cyI n r : ℝ) / n) ∧
      0 ≤ (cxI n r i : ℝ) / n ∧ (cxI n r i : ℝ) / n < 8 ∧ -2 < (cyI n r : ℝ) / n ∧ (cyI n r : ℝ) / n < 2 ∧
      (cyI n r : ℝ) / n * n = ((2 * (n : ℤ) - 1 - r : ℤ) : ℝ) :=
  ring_center_plane debug hn hN (ringIndexExact_holds n hn hN) h hh

theorem center_eq_uncond (debug : Bool) {n r i : Nat} (hn : 1 ≤ n) (hN : n < 2 ^ 30)
    (hr : r < 4 * n - 1) (hi : i < 4 * perFacet n r) :
    centerOfProjectedCell (α := ℝ) debug n (ringStart n r + i) = some ((cxI n r i : ℝ) / n, (cyI n r : ℝ) / n) :=
  center_eq debug hn hN (ringIndexExact_holds n hn hN) hr hi

theorem ring_center_north_uncond (debug : Bool) {n r q j : Nat} (hN : n < 2 ^ 30)
    (hr : r + 1 < n) (hq : q < 4) (hj : j < r + 1) :
    centerOfProjectedCell (α := ℝ) debug n (tri4 r + (q * (r + 1) + j))
      = some (2 * (q : ℝ) + (2 * j + (n - r : ℕ) : ℝ) / n, ((2 * n - 1 - r : ℕ) : ℝ) / n) :=
  ring_center_north debug hN (ringIndexExact_holds n (by omega) hN) hr hq hj

theorem ring_center_south_uncond (debug : Bool) {n t q j : Nat} (hN : n < 2 ^ 30)
    (ht : t + 1 < n) (hq : q < 4) (hj : j < t + 1) :
    centerOfProjectedCell (α := ℝ) debug n (12 * n * n - tri4 (t + 1) + (q * (t + 1) + j))
      = some (2 * (q : ℝ) + (2 * j + (n - t : ℕ) : ℝ) / n, -(((2 * n - 1 - t : ℕ) : ℝ) / n)) :=
  ring_center_south debug hN (ringIndexExact_holds n (by omega) hN) ht hq hj

theorem ring_order_uncond (debug : Bool) {n : Nat} (hn : 1 ≤ n) (hN : n < 2 ^ 30)
    (h h' : Nat) (hlt : h < h') (hh' : h' < 12 * n * n) :
    ∃ cx cy cx' cy' : ℝ, centerOfProjectedCell (α := ℝ) debug n h = some (cx, cy) ∧
      centerOfProjectedCell (α := ℝ) debug n h' = some (cx', cy') ∧ (cy' < cy ∨ (cy' = cy ∧ cx < cx')) :=
  ring_order debug hn hN (ringIndexExact_holds n hn hN) h h' hlt hh'

theorem ring_hash_center_uncond (debug : Bool) {n : Nat} (hn : 1 ≤ n) (hN : n < 2 ^ 30)
    (h : Nat) (hh : h < 12 * n * n) :
    ∃ cx cy dl dh : ℝ, centerOfProjectedCell (α := ℝ) debug n h = some (cx, cy) ∧
      hashPlane debug n cx cy = some (h, dl, dh) ∧ ((dl, dh) = (1 / 2, 0) ∨ (dl, dh) = (0, 1 / 2)) ∧
      dldhToDxDy dl dh = (1 / 2, 1 / 2) :=
  ring_hash_center debug hn hN (ringIndexExact_holds n hn hN) h hh

theorem ring_hash_contains_partial_uncond (debug : Bool) {n : Nat} (hn : 1 ≤ n) (hN : n < 2 ^ 30)
    {X Y : ℝ} (hg : GoodPoint X Y) :
    ∃ (h : ℕ) (dl dh cx cy : ℝ), hashPlane debug n X Y = some (h, dl, dh) ∧ h < 12 * n * n ∧
      0 ≤ dl ∧ dl < 1 ∧ 0 ≤ dh ∧ dh < 1 ∧ centerOfProjectedCell (α := ℝ) debug n h = some (cx, cy) ∧
      (|X - cx| + |Y - cy| ≤ 1 / n ∨ |X - 8 - cx| + |Y - cy| ≤ 1 / n) :=
  ring_hash_contains_partial debug hn hN (ringIndexExact_holds n hn hN) hg

theorem ring_sph_coo_inverts_uncond (debug : Bool) {n : Nat} (hn : 1 ≤ n) (hN : n < 2 ^ 30)
    {X Y : ℝ} (hg : GoodPoint X Y) (h : ℕ) (dx dy : ℝ) (hh : hashPlaneDxDy debug n X Y = some (h, dx, dy)) :
    sphCoo debug n h dx dy = unproj X Y ∧ 0 ≤ dx ∧ dx < 1 ∧ 0 ≤ dy ∧ dy < 1 :=
  ring_sph_coo_inverts debug hn hN (ringIndexExact_holds n hn hN) hg h dx dy hh

theorem ring_sph_coo_inverts_sphere_uncond (debug : Bool) {n : Nat} (hn : 1 ≤ n) (hN : n < 2 ^ 30)
    (lon lat X Y : ℝ) (hp : proj lon lat = some (X, Y)) (hg : GoodPoint (ensuresXIsPositive X) Y)
    (h : ℕ) (dx dy : ℝ) (hh : hashWithDxDy debug n lon lat = some (h, dx, dy)) :
    sphCoo debug n h dx dy = unproj (ensuresXIsPositive X) Y :=
  ring_sph_coo_inverts_sphere debug hn hN (ringIndexExact_holds n hn hN) lon lat X Y hp hg h dx dy hh

theorem ring_hash_contains_sphere_partial_uncond (debug : Bool) {n : Nat} (hn : 1 ≤ n) (hN : n < 2 ^ 30)
    (lon lat X Y : ℝ) (hp : proj lon lat = some (X, Y)) (hg : GoodPoint (ensuresXIsPositive X) Y) :
    ∃ (h : ℕ) (cx cy : ℝ), Ring.hash debug n lon lat = some h ∧ h < 12 * n * n ∧
      centerOfProjectedCell (α := ℝ) debug n h = some (cx, cy) ∧
      (|ensuresXIsPositive X - cx| + |Y - cy| ≤ 1 / n ∨ |ensuresXIsPositive X - 8 - cx| + |Y - cy| ≤ 1 / n) :=
  ring_hash_contains_sphere_partial debug hn hN (ringIndexExact_holds n hn hN) lon lat X Y hp hg

theorem ring_hash_sphere_partial_uncond (debug : Bool) {n : Nat} (hn : 1 ≤ n) (hN : n < 2 ^ 30)
    (lon lat : ℝ) (hlon0 : 0 ≤ lon) (hlon1 : lon < 2 * π) (hlat0 : -(π / 2) ≤ lat) (hlat1 : lat ≤ π / 2)
    (hseam : lat < Real.arcsin (2 / 3) ∨ (lat < π / 2 ∧ ∀ k : ℕ, lon ≠ k * (π / 2))) :
    ∃ (X Y : ℝ) (h : ℕ) (cx cy : ℝ), proj (α := ℝ) lon lat = some (X, Y) ∧ Ring.hash debug n lon lat = some h ∧
      h < 12 * n * n ∧ centerOfProjectedCell (α := ℝ) debug n h = some (cx, cy) ∧
      (|X - cx| + |Y - cy| ≤ 1 / n ∨ |X - 8 - cx| + |Y - cy| ≤ 1 / n) :=
  ring_hash_sphere_partial debug hn hN (ringIndexExact_holds n hn hN) lon lat hlon0 hlon1 hlat0 hlat1 hseam

theorem ring_sph_coo_sphere_partial_uncond (debug : Bool) {n : Nat} (hn : 1 ≤ n) (hN : n < 2 ^ 30)
    (lon lat : ℝ) (hlon0 : 0 ≤ lon) (hlon1 : lon < 2 * π) (hlat0 : -(π / 2) ≤ lat) (hlat1 : lat ≤ π / 2)
    (hseam : lat < Real.arcsin (2 / 3) ∨ (lat < π / 2 ∧ ∀ k : ℕ, lon ≠ k * (π / 2))) :
    ∃ (X Y : ℝ) (h : ℕ) (dx dy : ℝ), proj (α := ℝ) lon lat = some (X, Y) ∧
      hashWithDxDy debug n lon lat = some (h, dx, dy) ∧ h < 12 * n * n ∧ 0 ≤ dx ∧ dx < 1 ∧ 0 ≤ dy ∧ dy < 1 ∧
      sphCoo debug n h dx dy = unproj X Y :=
  ring_sph_coo_sphere_partial debug hn hN (ringIndexExact_holds n hn hN) lon lat hlon0 hlon1 hlat0 hlat1 hseam

theorem ring_sph_coo_roundtrip_north_uncond (debug : Bool) {n : Nat} (hn : 1 ≤ n) (hN : n < 2 ^ 30)
    (lon lat : ℝ) (hlon0 : 0 ≤ lon) (hlon1 : lon < 2 * π) (hlat0 : 0 ≤ lat) (hlat1 : lat ≤ π / 2)
    (hpole : (Num.epsPole : ℝ) < Real.sqrt 6 * Real.cos (1 / 2 * lat + π / 4))
    (hseam : lat < Real.arcsin (2 / 3) ∨ (lat < π / 2 ∧ ∀ k : ℕ, lon ≠ k * (π / 2))) :
    ∃ (h : ℕ) (dx dy : ℝ), hashWithDxDy debug n lon lat = some (h, dx, dy) ∧ sphCoo debug n h dx dy = some (lon, lat) :=
  ring_sph_coo_roundtrip_north debug hn hN (ringIndexExact_holds n hn hN) lon lat hlon0 hlon1 hlat0 hlat1
    hpole hseam

/-- the unconditional theorems are not vacuous: the largest NSIDE of the statements (not a power of two, beyond
    `nside_max`), a cell far beyond enumeration -/
example : ∃ cx cy dl dh : ℝ, centerOfProjectedCell (α := ℝ) true 1073741823 13000000000000000000 = some (cx, cy) ∧
      hashPlane true 1073741823 cx cy = some (13000000000000000000, dl, dh) ∧
      ((dl, dh) = (1 / 2, 0) ∨ (dl, dh) = (0, 1 / 2)) ∧ dldhToDxDy dl dh = (1 / 2, 1 / 2) :=
  ring_hash_center_uncond true (n := 1073741823) (by norm_num) (by norm_num) _ (by norm_num)

/-! ## T2: the phantom diamonds next to the north-cap seams

Vocabulary.  In units of `1/n` the plane point is `(U, V) = (n·x, n·(y+3))`.  `hashPlane_general` sends it to the diamond
`(K, I')` (ring `K`, centre abscissa `A = 2I' + (K+1) mod 2`) such that `U − A = dx − dy`, `V − K = dx + dy − 1` with
`(dx, dy) ∈ [0,1)²`: a diamond owns its two southern edges.  On the north cap (`V = 4n + w`, `0 ≤ w < n`):
* a point of the WEST edge of triangle `q`, `U = 2nq + w`, lies on the NW edge of the first cell of its ring, which is the
  SE edge (`dy = 0`) of the phantom diamond `K = 4n + ⌊w⌋ + 1`, `A = 2nq + ⌊w⌋`, one cell WEST of the first cell of ring `K`;
* a point of the EAST edge, `U = 2n(q+1) − w`, lies on the NE edge of the last cell of its ring, which is the SW edge
  (`dx = 0`) of the phantom diamond `K = 4n + ⌊w⌋ + 1`, `A = 2n(q+1) − ⌊w⌋`, one cell EAST of the last cell of ring `K`. -/

/-- the diamond that owns a point of the west edge of the north triangle `q` -/
theorem locate_west {n q K I' m A : ℕ} {w dx dy : ℝ} (hA : A = 2 * I' + (K + 1) % 2)
    (eu : 2 * (n : ℝ) * q + w - (A : ℝ) = dx - dy)
    (ev : w + 4 * n - (K : ℝ) = dx + dy - 1)
    (x0 : 0 ≤ dx) (x1 : dx < 1) (y0 : 0 ≤ dy) (y1 : dy < 1) (hm1 : (m : ℝ) ≤ w) (hm2 : w < m + 1) :
    K = 4 * n + m + 1 ∧ I' = n * q + m / 2 := by
  obtain ⟨z, hzdef⟩ : ∃ z : ℤ, z = 1 + (A : ℤ) + 4 * n - K - 2 * ((n * q : ℕ) : ℤ) := ⟨_, rfl⟩
  have hz : (z : ℝ) = 2 * dy := by rw [hzdef]; push_cast; linarith
  have hz0 : 0 ≤ z := by
    have : (0 : ℝ) ≤ (z : ℝ) := by rw [hz]; linarith
    exact_mod_cast this
  have hz2 : z < 2 := by
    have : (z : ℝ) < 2 := by rw [hz]; linarith
    exact_mod_cast this
  have hz' : z = 0 := by omega
  have hdy : dy = 0 := by rw [hz'] at hz; push_cast at hz; linarith
  have h3 : (K : ℝ) < ((4 * n + m + 2 : ℕ) : ℝ) := by push_cast; linarith
  have h4 : ((4 * n + m : ℕ) : ℝ) < (K : ℝ) := by push_cast; linarith
  have h3' : K < 4 * n + m + 2 := by exact_mod_cast h3
  have h4' : 4 * n + m < K := by exact_mod_cast h4
  have hK : K = 4 * n + m + 1 := by omega
  refine ⟨hK, ?_⟩
  omega

/-- the diamond that owns a point of the east edge of the north triangle `q` -/
theorem locate_east {n q K I' m A : ℕ} {w dx dy : ℝ} (hA : A = 2 * I' + (K + 1) % 2)
    (eu : 2 * (n : ℝ) * (q + 1) - w - (A : ℝ) = dx - dy)
    (ev : w + 4 * n - (K : ℝ) = dx + dy - 1)
    (x0 : 0 ≤ dx) (x1 : dx < 1) (y0 : 0 ≤ dy) (y1 : dy < 1) (hm1 : (m : ℝ) ≤ w) (hm2 : w < m + 1) :
    K = 4 * n + m + 1 ∧ I' + (m + 1) / 2 = n * (q + 1) := by
  obtain ⟨z, hzdef⟩ : ∃ z : ℤ, z = 1 + 2 * ((n * (q + 1) : ℕ) : ℤ) + 4 * n - A - K := ⟨_, rfl⟩
  have hz : (z : ℝ) = 2 * dx := by rw [hzdef]; push_cast; linarith
  have hz0 : 0 ≤ z := by
    have : (0 : ℝ) ≤ (z : ℝ) := by rw [hz]; linarith
    exact_mod_cast this
  have hz2 : z < 2 := by
    have : (z : ℝ) < 2 := by rw [hz]; linarith
    exact_mod_cast this
  have hz' : z = 0 := by omega
  have hdx : dx = 0 := by rw [hz'] at hz; push_cast at hz; linarith
  have h3 : (K : ℝ) < ((4 * n + m + 2 : ℕ) : ℝ) := by push_cast; linarith
  have h4 : ((4 * n + m : ℕ) : ℝ) < (K : ℝ) := by push_cast; linarith
  have h3' : K < 4 * n + m + 2 := by exact_mod_cast h3
  have h4' : 4 * n + m < K := by exact_mod_cast h4
  have hK : K = 4 * n + m + 1 := by omega
  refine ⟨hK, ?_⟩
  omega

/-- **the plane function on the west edge of the north triangle `q`** (`x = 2q + (y − 1)`, `1 ≤ y < 2`), every `n ≥ 1`:
    with `m = ⌊n(y − 1)⌋`, the integer tail is entered with the phantom diamond `(4n + m + 1, nq + ⌊m/2⌋)` -/
theorem hashPlane_west_tail (debug : Bool) {n q m : ℕ} (hn : 1 ≤ n) (hn30 : n < 2 ^ 30) (hq : q < 4) {Y : ℝ}
    (h1 : 1 ≤ Y) (h2 : Y < 2) (hm1 : (m : ℝ) ≤ n * (Y - 1)) (hm2 : (n : ℝ) * (Y - 1) < m + 1) :
    ∃ dl dh : ℝ, 0 ≤ dl ∧ dl < 1 ∧ 0 ≤ dh ∧ dh < 1 ∧
      hashPlane debug n (2 * q + (Y - 1)) Y = hashTail debug n dl dh (4 * n + m + 1) (n * q + m / 2) := by
  have hqr : (q : ℝ) ≤ 3 := by
    have : q ≤ 3 := by omega
    exact_mod_cast this
  have hq0 : (0 : ℝ) ≤ q := Nat.cast_nonneg q
  obtain ⟨K, I', dl, dh, hP, l0, l1, g0, g1, eu, ev, x0, x1, y0, y1, -, -⟩ :=
    hashPlane_general debug hn hn30 (X := 2 * q + (Y - 1)) (Y := Y) (by linarith) (by linarith) (by linarith) (by linarith)
  obtain ⟨hK, hI⟩ := locate_west (n := n) (q := q) (K := K) (I' := I') (m := m) (w := n * (Y - 1)) rfl
    (by rw [← eu]; ring) (by rw [← ev]; ring) x0 x1 y0 y1 hm1 hm2
  exact ⟨dl, dh, l0, l1, g0, g1, by rw [hP, hK, hI]⟩

/-- **the plane function on the east edge of the north triangle `q`** (`x = 2q + 2 − (y − 1)`, `1 ≤ y < 2`, and `x < 8`,
    i.e. `1 < y` when `q = 3`), every `n ≥ 1`: with `m = ⌊n(y − 1)⌋`, the integer tail is entered with the phantom diamond
    `(4n + m + 1, n(q+1) − ⌊(m+1)/2⌋)` -/
theorem hashPlane_east_tail (debug : Bool) {n q m : ℕ} (hn : 1 ≤ n) (hn30 : n < 2 ^ 30) {Y : ℝ}
    (h1 : 1 ≤ Y) (h2 : Y < 2) (hX8 : 2 * (q : ℝ) + 2 - (Y - 1) < 8)
    (hm1 : (m : ℝ) ≤ n * (Y - 1)) (hm2 : (n : ℝ) * (Y - 1) < m + 1) :
    ∃ dl dh : ℝ, 0 ≤ dl ∧ dl < 1 ∧ 0 ≤ dh ∧ dh < 1 ∧
      hashPlane debug n (2 * q + 2 - (Y - 1)) Y = hashTail debug n dl dh (4 * n + m + 1) (n * (q + 1) - (m + 1) / 2) := by
  have hq0 : (0 : ℝ) ≤ q := Nat.cast_nonneg q
  obtain ⟨K, I', dl, dh, hP, l0, l1, g0, g1, eu, ev, x0, x1, y0, y1, -, -⟩ :=
    hashPlane_general debug hn hn30 (X := 2 * q + 2 - (Y - 1)) (Y := Y) (by linarith) hX8 (by linarith) (by linarith)
  obtain ⟨hK, hI⟩ := locate_east (n := n) (q := q) (K := K) (I' := I') (m := m) (w := n * (Y - 1)) rfl
    (by rw [← eu]; ring) (by rw [← ev]; ring) x0 x1 y0 y1 hm1 hm2
  have hI' : I' = n * (q + 1) - (m + 1) / 2 := by omega
  exact ⟨dl, dh, l0, l1, g0, g1, by rw [hP, hK, hI']⟩

/-! ### the integer tail on the phantom diamonds -/

/-- release profile, phantom diamond WEST of the first cell of facet 0 (ring `K = 4n + off`, `1 ≤ off < n`, ring index
    `r = n − 1 − off` from the pole): the index correction `i_in_ring − ((off+1)/2 + off·0)` wraps to `2^64 − 1`, and the
    cell number `(tri4 r + 2^64 − 1) mod 2^64` is `2^64 − 1` for the first ring (`r = 0`), the LAST cell of the previous
    ring (`tri4 r − 1`) otherwise -/
theorem hashTail_phantom0_release {α : Type} [Num α] {n off I' : Nat} (dl dh : α) (hn30 : n < 2 ^ 30) (ho1 : 1 ≤ off)
    (ho2 : off < n) (hI : I' + 1 = (off + 1) / 2) :
    hashTail false n dl dh (4 * n + off) I'
      = some (if n - 1 - off = 0 then 2 ^ 64 - 1 else tri4 (n - 1 - off) - 1, dl, dh) := by
  have hlt : tri4 (n - 1 - off) < 2 ^ 63 := by
    have h1 : tri4 (n - 1 - off) ≤ tri4 n := tri4_mono (by omega)
    have h2 := tri4_eq n
    have h3 : n * (n + 1) ≤ 2 ^ 30 * (2 ^ 30 + 1) := Nat.mul_le_mul (by omega) (by omega)
    omega
  unfold hashTail
  rw [if_neg (by omega), sub64_of_le (by omega : 1 ≤ 5 * n)]
  simp only []
  rw [sub64_of_le (by omega : 4 * n + off ≤ 5 * n - 1)]
  simp only []
  have er : 5 * n - 1 - (4 * n + off) = n - 1 - off := by omega
  rw [er, if_neg (by omega), if_pos (by omega), sub64_of_le (by omega : 1 ≤ n)]
  simp only []
  rw [sub64_of_le (by omega : n - 1 - off ≤ n - 1)]
  simp only []
  rw [shr_and_one]
  have e : n - 1 - (n - 1 - off) = off := by omega
  rw [e]
  have hdiv : I' / n = 0 := Nat.div_eq_of_lt (by omega)
  rw [hdiv, Nat.mul_zero, Nat.add_zero]
  have hs : sub64 false I' ((off + 1) / 2) = some (2 ^ 64 - 1) := by
    unfold sub64
    rw [if_neg (by omega)]
    simp only [Bool.false_eq_true, if_false]
    congr 1; omega
  rw [hs]
  simp only []
  by_cases h0 : n - 1 - off = 0
  · rw [if_pos h0, h0, tri4_zero]; rfl
  · rw [if_neg h0]
    have hpos : 1 ≤ tri4 (n - 1 - off) := by
      have := tri4_mono (show 1 ≤ n - 1 - off by omega)
      have e1 : tri4 1 = 4 := by decide
      omega
    have : (tri4 (n - 1 - off) + (2 ^ 64 - 1)) % 2 ^ 64 = tri4 (n - 1 - off) - 1 := by
      generalize tri4 (n - 1 - off) = T at *
      omega
    rw [this]

/-- phantom diamond EAST of the last cell of facet `q` (ring `K = 4n + off`, `1 ≤ off < n`, `r = n − 1 − off`,
    `I' = n(q+1) − ⌊off/2⌋`), both profiles, no underflow: for `off ≥ 2` the index correction lands on index
    `(q+1)(n − off)` of the ring — the FIRST cell of facet `q + 1` (of the next ring to the south when `q = 3`); for
    `off = 1`, `I'/n = q + 1` already and it lands on `(q+1)(n−1) − 1`, the LAST cell of facet `q` (one cell west of the
    phantom) -/
theorem hashTail_phantom_east {α : Type} [Num α] (debug : Bool) {n off q I' : Nat} (dl dh : α) (hn30 : n < 2 ^ 30)
    (ho1 : 1 ≤ off) (ho2 : off < n) (hq : q < 4) (hI : I' + off / 2 = n * (q + 1)) :
    hashTail debug n dl dh (4 * n + off) I'
      = some (tri4 (n - 1 - off) + (if off = 1 then (q + 1) * (n - 1) - 1 else (q + 1) * (n - off)), dl, dh) := by
  have hlt : tri4 (n - 1 - off) + 4 * n < 2 ^ 63 := by
    have h1 : tri4 (n - 1 - off) ≤ tri4 n := tri4_mono (by omega)
    have h2 := tri4_eq n
    have h3 : n * (n + 1) ≤ 2 ^ 30 * (2 ^ 30 + 1) := Nat.mul_le_mul (by omega) (by omega)
    omega
  unfold hashTail
  rw [if_neg (by omega), sub64_of_le (by omega : 1 ≤ 5 * n)]
  simp only []
  rw [sub64_of_le (by omega : 4 * n + off ≤ 5 * n - 1)]
  simp only []
  have er : 5 * n - 1 - (4 * n + off) = n - 1 - off := by omega
  rw [er, if_neg (by omega), if_pos (by omega), sub64_of_le (by omega : 1 ≤ n)]
  simp only []
  rw [sub64_of_le (by omega : n - 1 - off ≤ n - 1)]
  simp only []
  rw [shr_and_one]
  have e : n - 1 - (n - 1 - off) = off := by omega
  rw [e]
  have e1 : n * (q + 1) = n * q + n := by ring
  have e2 : (q + 1) * (n - off) = q * (n - off) + (n - off) := by ring
  have hnq : n * q = off * q + q * (n - off) := by
    have : n = off + (n - off) := by omega
    calc n * q = (off + (n - off)) * q := by rw [← this]
      _ = off * q + q * (n - off) := by ring
  by_cases h1 : off = 1
  · subst h1
    rw [if_pos rfl]
    have hdiv : I' / n = q + 1 := by
      apply Nat.div_eq_of_lt_le
      · rw [Nat.mul_comm]; omega
      · rw [Nat.mul_comm, Nat.mul_add n (q + 1) 1]; omega
    rw [hdiv]
    have hpos : 1 ≤ n - 1 := by omega
    have hle : q * (n - 1) ≤ 3 * (n - 1) := Nat.mul_le_mul_right _ (by omega)
    rw [sub64_of_le (by omega)]
    simp only []
    rw [Nat.mod_eq_of_lt (by omega)]
    congr 2; omega
  · rw [if_neg h1]
    have hdiv : I' / n = q := by
      apply Nat.div_eq_of_lt_le
      · rw [Nat.mul_comm]; omega
      · rw [Nat.mul_comm]; omega
    rw [hdiv]
    have hle : q * (n - off) ≤ 3 * (n - off) := Nat.mul_le_mul_right _ (by omega)
    rw [sub64_of_le (by omega)]
    simp only []
    rw [Nat.mod_eq_of_lt (by omega)]
    congr 2; omega

/-! ### what the plane function returns on the eight north-cap seams -/

theorem natCast_pred {n : ℕ} (hn : 1 ≤ n) : ((n - 1 : ℕ) : ℝ) = (n : ℝ) - 1 := by
  rw [Nat.cast_sub hn]; simp

/-- **west seam, last ring** (`2 − 1/n ≤ y < 2`; the whole seam when `n = 1`): the phantom diamond is in the row
    `K = 5n` of the code's "north pole" exit, which returns cell `q` of the first ring with the conventional offsets
    `(1, 1)`, in both profiles.  Cell `q` is the right answer (the point is on its NW edge). -/
theorem hashPlane_seam_west_top (debug : Bool) {n q : ℕ} (hn : 1 ≤ n) (hn30 : n < 2 ^ 30) (hq : q < 4) {Y : ℝ}
    (h1 : 2 * (n : ℝ) - 1 ≤ n * Y) (h2 : Y < 2) : hashPlane debug n (2 * q + (Y - 1)) Y = some (q, 1, 1) := by
  have hn0 : (1 : ℝ) ≤ n := by exact_mod_cast hn
  have hY1 : 1 ≤ Y := by nlinarith
  obtain ⟨dl, dh, -, -, -, -, hP⟩ := hashPlane_west_tail debug (m := n - 1) hn hn30 hq hY1 h2
    (by rw [natCast_pred hn]; linarith) (by rw [natCast_pred hn]; nlinarith)
  rw [hP, hashTail_pole debug _ _ hn (by omega), r_one]
  have : (n * q + (n - 1) / 2) / n = q := by
    apply Nat.div_eq_of_lt_le
    · rw [Nat.mul_comm]; omega
    · rw [Nat.add_mul, Nat.mul_comm q n]; omega
  rw [this]

/-- **east seam, last ring** (`2 − 1/n ≤ y < 2`, `1 < y`): "north pole" exit again; it returns cell `q` (right: the point
    is on its NE edge) for every `n ≥ 2`, but cell `q + 1` when `n = 1` (`i_in_ring / nside` with `i_in_ring = q + 1`):
    wrong, and for `q = 3` it is cell 4, an equatorial cell -/
theorem hashPlane_seam_east_top (debug : Bool) {n q : ℕ} (hn : 1 ≤ n) (hn30 : n < 2 ^ 30) (hq : q < 4) {Y : ℝ}
    (h1 : 2 * (n : ℝ) - 1 ≤ n * Y) (hY1 : 1 < Y) (h2 : Y < 2) :
    hashPlane debug n (2 * q + 2 - (Y - 1)) Y = some (if n = 1 then q + 1 else q, 1, 1) := by
  have hn0 : (1 : ℝ) ≤ n := by exact_mod_cast hn
  have hqr : (q : ℝ) ≤ 3 := by
    have : q ≤ 3 := by omega
    exact_mod_cast this
  obtain ⟨dl, dh, -, -, -, -, hP⟩ := hashPlane_east_tail debug (q := q) (m := n - 1) hn hn30 (le_of_lt hY1) h2
    (by linarith) (by rw [natCast_pred hn]; linarith) (by rw [natCast_pred hn]; nlinarith)
  rw [hP, hashTail_pole debug _ _ hn (by omega), r_one]
  have e1 : n * (q + 1) = n * q + n := by ring
  by_cases hone : n = 1
  · subst hone; simp
  · rw [if_neg hone]
    have : (n * (q + 1) - (n - 1 + 1) / 2) / n = q := by
      apply Nat.div_eq_of_lt_le
      · rw [Nat.mul_comm]; omega
      · rw [Nat.add_mul, Nat.mul_comm q n]; omega
    rw [this]

/-- **west seam of facet 0 below the last ring, release profile** (`n ≥ 2`, `1 ≤ y < 2 − 1/n`, `m = ⌊n(y−1)⌋ ≤ n − 2`;
    the dev profile panics: `RingReal.hashPlane_seam_north_west`): the wrapped subtraction yields the cell number
    `2^64 − 1` in the ring next to the last one (`m = n − 2`), the LAST cell `tri4 (n−2−m) − 1` of the ring
    `n − 3 − m` (one ring further north, facet 3) otherwise -/
theorem hashPlane_seam_west0_release {n m : ℕ} (hn2 : 2 ≤ n) (hn30 : n < 2 ^ 30) {Y : ℝ} (h1 : 1 ≤ Y)
    (hm1 : (m : ℝ) ≤ n * (Y - 1)) (hm2 : (n : ℝ) * (Y - 1) < m + 1) (hm : m + 2 ≤ n) :
    ∃ dl dh : ℝ, hashPlane false n (Y - 1) Y
      = some (if n - 2 - m = 0 then 2 ^ 64 - 1 else tri4 (n - 2 - m) - 1, dl, dh) := by
  have hn0 : (2 : ℝ) ≤ n := by exact_mod_cast hn2
  have hmr : (m : ℝ) + 2 ≤ n := by exact_mod_cast hm
  have h2 : Y < 2 := by nlinarith
  obtain ⟨dl, dh, -, -, -, -, hP⟩ := hashPlane_west_tail false (q := 0) (m := m) (by omega) hn30 (by omega) h1 h2 hm1 hm2
  refine ⟨dl, dh, ?_⟩
  have e0 : (2 : ℝ) * ((0 : ℕ) : ℝ) + (Y - 1) = Y - 1 := by simp
  rw [e0] at hP
  rw [hP, show 4 * n + m + 1 = 4 * n + (m + 1) by omega,
    hashTail_phantom0_release dl dh hn30 (by omega) (by omega) (by omega)]
  have : n - 1 - (m + 1) = n - 2 - m := by omega
  rw [this]

/-- **west seam of facet `q ≥ 1` below the last ring** (`n ≥ 2`, `m = ⌊n(y−1)⌋ ≤ n − 2`), both profiles, no panic: the
    LAST cell of facet `q − 1` of the ring `r = n − 2 − m` (on the other side of the gap between the two triangles) -/
theorem hashPlane_seam_west_low (debug : Bool) {n q m : ℕ} (hn2 : 2 ≤ n) (hn30 : n < 2 ^ 30) (hq1 : 1 ≤ q) (hq : q < 4)
    {Y : ℝ} (h1 : 1 ≤ Y) (hm1 : (m : ℝ) ≤ n * (Y - 1)) (hm2 : (n : ℝ) * (Y - 1) < m + 1) (hm : m + 2 ≤ n) :
    ∃ dl dh : ℝ, hashPlane debug n (2 * q + (Y - 1)) Y
      = some (tri4 (n - 2 - m) + (q * (n - 1 - m) - 1), dl, dh) := by
  have hn0 : (2 : ℝ) ≤ n := by exact_mod_cast hn2
  have hmr : (m : ℝ) + 2 ≤ n := by exact_mod_cast hm
  have h2 : Y < 2 := by nlinarith
  obtain ⟨dl, dh, -, -, -, -, hP⟩ := hashPlane_west_tail debug (q := q) (m := m) (by omega) hn30 hq h1 h2 hm1 hm2
  refine ⟨dl, dh, ?_⟩
  have hI : n * q + m / 2 = n * q + (4 * n + m + 1 - 4 * n + 1) / 2 - 1 := by omega
  rw [hP, hI, hashTail_phantom_west debug dl dh hn30 (by omega) (by omega) hq1 hq]
  have e1 : 5 * n - 1 - (4 * n + m + 1) = n - 2 - m := by omega
  have e2 : 5 * n - (4 * n + m + 1) = n - 1 - m := by omega
  rw [e1, e2]

/-- **east seam of facet `q` below the last ring** (`n ≥ 2`, `1 < y < 2 − 1/n`, `m = ⌊n(y−1)⌋ ≤ n − 2`), both profiles, no
    panic: in the ring `r = n − 2 − m`, the LAST cell of facet `q` when `m = 0` (`y < 1 + 1/n`: one cell west of the
    phantom, one ring north of the cell that owns the point), index `(q+1)(n−1−m)` otherwise — the FIRST cell of facet
    `q + 1`, on the other side of the gap (for `q = 3`: the first cell of the next ring to the south) -/
theorem hashPlane_seam_east_low (debug : Bool) {n q m : ℕ} (hn2 : 2 ≤ n) (hn30 : n < 2 ^ 30) (hq : q < 4)
    {Y : ℝ} (h1 : 1 < Y) (hm1 : (m : ℝ) ≤ n * (Y - 1)) (hm2 : (n : ℝ) * (Y - 1) < m + 1) (hm : m + 2 ≤ n) :
    ∃ dl dh : ℝ, hashPlane debug n (2 * q + 2 - (Y - 1)) Y
      = some (tri4 (n - 2 - m) + (if m = 0 then (q + 1) * (n - 1) - 1 else (q + 1) * (n - 1 - m)), dl, dh) := by
  have hn0 : (2 : ℝ) ≤ n := by exact_mod_cast hn2
  have hmr : (m : ℝ) + 2 ≤ n := by exact_mod_cast hm
  have h2 : Y < 2 := by nlinarith
  have hqr : (q : ℝ) ≤ 3 := by
    have : q ≤ 3 := by omega
    exact_mod_cast this
  obtain ⟨dl, dh, -, -, -, -, hP⟩ := hashPlane_east_tail debug (q := q) (m := m) (by omega) hn30 (le_of_lt h1) h2
    (by linarith) hm1 hm2
  refine ⟨dl, dh, ?_⟩
  have hle : n ≤ n * (q + 1) := Nat.le_mul_of_pos_right n (by omega)
  rw [hP, show 4 * n + m + 1 = 4 * n + (m + 1) by omega,
    hashTail_phantom_east debug dl dh hn30 (by omega) (by omega) hq (by omega)]
  have e1 : n - 1 - (m + 1) = n - 2 - m := by omega
  have e2 : n - (m + 1) = n - 1 - m := by omega
  rw [e1, e2]
  by_cases h0 : m = 0
  · rw [if_pos h0, if_pos (by omega)]
  · rw [if_neg h0, if_neg (by omega)]

end Hpx.RingSeams

#print axioms Hpx.RingSeams.ringIndexExact_holds
#print axioms Hpx.RingSeams.ring_hash_sphere_partial_uncond
#print axioms Hpx.RingSeams.hashPlane_seam_east_low
#print axioms Hpx.RingSeams.hashPlane_seam_west0_release
