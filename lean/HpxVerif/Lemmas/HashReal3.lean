/-
C01 over the reals, third part: containment with respect to the HEALPix projection written independently of the code
(Calabretta & Roukema, `H = 4`, `K = 3`), and the behaviour on the cap seams for negative longitudes.
-/
import HpxVerif.Lemmas.HashReal2
import Mathlib.Data.Real.Sign

namespace Hpx.HashReal
open Real Hpx.Proj Hpx.Hash

/-- **HEALPix projection (Calabretta & Roukema 2007, `H = 4`, `K = 3`)** scaled by `4/π`: equatorial zone
    `(lon·4/π, (3/2) sin lat)`; polar caps with `σ = √(3(1 − |sin lat|))` and `xc = 2⌊lon·2/π⌋ + 1` the centre of the
    facet: `(xc + (lon·4/π − xc)·σ, ±(2 − σ))`.  Same text as `Hpx.Proj.projSpec` of `ProjReal2.lean`. -/
noncomputable def projSpecXY (lon lat : ℝ) : ℝ × ℝ :=
  let z := Real.sin lat
  if |z| ≤ 2 / 3 then (lon * 4 / π, 3 / 2 * z)
  else
    let σ := Real.sqrt (3 * (1 - |z|))
    let xc : ℝ := 2 * (⌊lon * 2 / π⌋ : ℝ) + 1
    (xc + (lon * 4 / π - xc) * σ, Real.sign lat * (2 - σ))

/-- half-angle identity: `√6 cos(t/2 + π/4) = √(3(1 − sin t))` on `[−3π/2, π/2]` -/
theorem half_angle (t : ℝ) (h1 : -(3 * π / 2) ≤ t) (h2 : t ≤ π / 2) :
    Real.sqrt 6 * Real.cos (t / 2 + π / 4) = Real.sqrt (3 * (1 - Real.sin t)) := by
  have hc : 0 ≤ Real.cos (t / 2 + π / 4) :=
    Real.cos_nonneg_of_neg_pi_div_two_le_of_le (by linarith) (by linarith)
  have h0 : 0 ≤ Real.sqrt 6 * Real.cos (t / 2 + π / 4) := mul_nonneg (Real.sqrt_nonneg 6) hc
  have hsq : (Real.sqrt 6 * Real.cos (t / 2 + π / 4)) ^ 2 = 3 * (1 - Real.sin t) := by
    rw [mul_pow, Real.sq_sqrt (by norm_num : (0 : ℝ) ≤ 6), Real.cos_sq,
      show 2 * (t / 2 + π / 4) = t + π / 2 by ring, Real.cos_add_pi_div_two]
    ring
  rw [← hsq, Real.sqrt_sq h0]

theorem sin_asin23 : Real.sin (Real.arcsin (2 / 3)) = 2 / 3 := Real.sin_arcsin (by norm_num) (by norm_num)

/-- the code's `σ` and ordinate (branches on `lat` against `±asin(2/3)`, `√6 cos`) are the specification's
    (branch on `|sin lat| ≤ 2/3`, `√(3(1 − |sin lat|))`) -/
theorem sigma_planeY_spec (lat : ℝ) (hl1 : -(π / 2) ≤ lat) (hl2 : lat ≤ π / 2) :
    (if |Real.sin lat| ≤ 2 / 3 then ((1 : ℝ), 3 / 2 * Real.sin lat)
      else (Real.sqrt (3 * (1 - |Real.sin lat|)), Real.sign lat * (2 - Real.sqrt (3 * (1 - |Real.sin lat|)))))
      = (sigma lat, planeY lat) := by
  have hA := asin23_nonneg
  have hAu := Real.arcsin_le_pi_div_two (2 / 3)
  have hpi := Real.pi_pos
  unfold sigma planeY
  by_cases hN : Real.arcsin (2 / 3) < lat
  · have hs : 2 / 3 < Real.sin lat := by
      have := Real.sin_lt_sin_of_lt_of_le_pi_div_two (by linarith) hl2 hN
      rwa [sin_asin23] at this
    have habs : |Real.sin lat| = Real.sin lat := abs_of_nonneg (by linarith)
    have hne : ¬ |Real.sin lat| ≤ 2 / 3 := by rw [habs]; linarith
    rw [if_neg hne, if_pos hN, if_pos hN, habs, half_angle lat (by linarith) hl2, Real.sign_of_pos (by linarith), one_mul]
  · by_cases hS : lat < -Real.arcsin (2 / 3)
    · have hs : Real.sin lat < -(2 / 3) := by
        have := Real.sin_lt_sin_of_lt_of_le_pi_div_two hl1 (by linarith) hS
        rwa [Real.sin_neg, sin_asin23] at this
      have habs : |Real.sin lat| = -Real.sin lat := abs_of_neg (by linarith)
      have hne : ¬ |Real.sin lat| ≤ 2 / 3 := by rw [habs]; linarith
      have hc : Real.sqrt 6 * Real.cos (lat / 2 - π / 4) = Real.sqrt (3 * (1 - -Real.sin lat)) := by
        have := half_angle (-lat) (by linarith) (by linarith)
        rwa [show -lat / 2 + π / 4 = -(lat / 2 - π / 4) by ring, Real.cos_neg, Real.sin_neg] at this
      rw [if_neg hne, if_neg hN, if_neg hN, if_pos hS, if_pos hS, habs, hc, Real.sign_of_neg (by linarith)]
      congr 1; ring
    · obtain ⟨b1, b2⟩ := cea_y_bounds lat (by linarith) (by linarith)
      have he : |Real.sin lat| ≤ 2 / 3 := abs_le.mpr ⟨by linarith, by linarith⟩
      simp only [hN, hS, he, if_true, if_false]
      congr 1; ring

/-- the specification in terms of `σ` and the ordinate: in the equatorial zone `σ = 1` and the facet centre cancels -/
theorem projSpecXY_eq (lon lat : ℝ) (hl1 : -(π / 2) ≤ lat) (hl2 : lat ≤ π / 2) :
    projSpecXY lon lat =
      (2 * (⌊lon * 2 / π⌋ : ℝ) + 1 + (lon * 4 / π - (2 * (⌊lon * 2 / π⌋ : ℝ) + 1)) * sigma lat, planeY lat) := by
  have h := sigma_planeY_spec lat hl1 hl2
  unfold projSpecXY
  simp only []
  by_cases he : |Real.sin lat| ≤ 2 / 3
  · simp only [he, if_true] at h ⊢
    obtain ⟨h1, h2⟩ := Prod.mk.inj h
    rw [← h1, ← h2]; congr 1; ring
  · simp only [he, if_false] at h ⊢
    obtain ⟨h1, h2⟩ := Prod.mk.inj h
    rw [← h1, ← h2]

/-- core of the containment argument for any plane point `P` congruent (abscissa modulo 8) to the point described by
    `xpm1_and_q` and the latitude -/
theorem contains_of_plane (d : ℕ) (hd : d ≤ 32) (lon lat : ℝ) (hlon : |lon| * (4 / π) < 256)
    (hl1 : -(π / 2) ≤ lat) (hl2 : lat ≤ π / 2) (P : ℝ × ℝ) (hP2 : P.2 = planeY lat)
    (hP1 : ∃ m : ℤ, P.1 + 8 * (m : ℝ) =
      (xpm1AndQ (α := ℝ) lon).1 * sigma lat + (2 * ((xpm1AndQ (α := ℝ) lon).2 : ℝ) + 1)) :
    (d0hLhInD0c (α := ℝ) lon lat).1 < 12 ∧
      gridCoord d ((d0hLhInD0c (α := ℝ) lon lat).2.2 + (d0hLhInD0c (α := ℝ) lon lat).2.1) < 2 ^ d ∧
      gridCoord d ((d0hLhInD0c (α := ℝ) lon lat).2.2 - (d0hLhInD0c (α := ℝ) lon lat).2.1) < 2 ^ d ∧
      ∃ m : ℤ, InDiamond d (d0hLhInD0c (α := ℝ) lon lat).1
        (gridCoord d ((d0hLhInD0c (α := ℝ) lon lat).2.2 + (d0hLhInD0c (α := ℝ) lon lat).2.1))
        (gridCoord d ((d0hLhInD0c (α := ℝ) lon lat).2.2 - (d0hLhInD0c (α := ℝ) lon lat).2.1))
        (P.1 + 8 * (m : ℝ)) P.2 := by
  obtain ⟨hx1, hx2, hq, -⟩ := proj_plane lon lat hlon hl1 hl2
  obtain ⟨m0, hX⟩ := hP1
  rw [d0hLhInD0c_eq lon lat hq]
  obtain ⟨hb, ha0, ha2, hb0, hb2, hh, m1, hl⟩ :=
    parts_geom (xpm1AndQ (α := ℝ) lon).1 (xpm1AndQ (α := ℝ) lon).2 lat hx1 hx2 hq hl1 hl2
  rw [planeOf_eq] at hh hl
  simp only [] at hh hl
  generalize d0hLhOf (xpm1AndQ (α := ℝ) lon).1 (xpm1AndQ (α := ℝ) lon).2 lat = p at *
  obtain ⟨b, l, h⟩ := p
  simp only [] at *
  obtain ⟨hi, hi1, hi2⟩ := gridCoord_spec d hd (h + l) ha0 ha2
  obtain ⟨hj, hj1, hj2⟩ := gridCoord_spec d hd (h - l) hb0 hb2
  refine ⟨hb, hi, hj, m0 + m1, ?_⟩
  unfold InDiamond
  have e1 : P.2 - (baseCentre b).2 + (P.1 + 8 * ((m0 + m1 : ℤ) : ℝ) - (baseCentre b).1) + 1 = h + l := by
    rw [hh, hl, ← hX, hP2]; push_cast; ring
  have e2 : P.2 - (baseCentre b).2 - (P.1 + 8 * ((m0 + m1 : ℤ) : ℝ) - (baseCentre b).1) + 1 = h - l := by
    rw [hh, hl, ← hX, hP2]; push_cast; ring
  rw [e1, e2]
  exact ⟨hi1, hi2, hj1, hj2⟩

theorem cast_mod4 (k : ℕ) : ((k % 4 : ℕ) : ℝ) = (k : ℝ) - 4 * ((k / 4 : ℕ) : ℝ) := by
  have : ((4 * (k / 4) + k % 4 : ℕ) : ℝ) = (k : ℝ) := by rw [Nat.div_add_mod]
  push_cast at this; linarith

/-- abscissa of the specification vs `xpm1_and_q`, modulo 8.  Excluded: negative longitudes exactly on a cap seam
    (`lon = −kπ/2`, `|sin lat| > 2/3`), where the code takes the facet west of the seam (`xpm1 = +1`) and the
    specification the facet east of it. -/
theorem spec_abscissa (lon lat : ℝ) (hlon : |lon| * (4 / π) < 256) (hl1 : -(π / 2) ≤ lat) (hl2 : lat ≤ π / 2)
    (hseam : 0 ≤ lon ∨ |Real.sin lat| ≤ 2 / 3 ∨ ∀ z : ℤ, lon ≠ (z : ℝ) * (π / 2)) :
    ∃ m : ℤ, (projSpecXY lon lat).1 + 8 * (m : ℝ) =
      (xpm1AndQ (α := ℝ) lon).1 * sigma lat + (2 * ((xpm1AndQ (α := ℝ) lon).2 : ℝ) + 1) := by
  have hpi := Real.pi_pos
  obtain ⟨k, hk, h1, h2, hxq, -⟩ := xpm1AndQ_real lon hlon
  rw [hxq, projSpecXY_eq lon lat hl1 hl2]
  simp only []
  have hm4 := cast_mod4 k
  generalize k / 4 = c at hm4
  rcases lt_or_ge lon 0 with hneg | hpos
  · simp only [hneg, if_true]
    rw [abs_of_neg hneg] at h1 h2 ⊢
    have ht : lon * 4 / π = -(-lon * (4 / π)) := by ring
    have ht2 : lon * 2 / π = -(-lon * (4 / π)) / 2 := by ring
    rw [Nat.cast_sub (by omega : k % 4 ≤ 3), hm4]
    by_cases hsig : sigma lat = 1
    · refine ⟨1 + (c : ℤ), ?_⟩
      rw [hsig, ht]; push_cast; ring
    · have hns : (2 * k : ℝ) ≠ -lon * (4 / π) := by
        intro he
        rcases hseam with h | h | h
        · linarith
        · have := sigma_planeY_spec lat hl1 hl2
          rw [if_pos h] at this
          exact hsig (Prod.mk.inj this).1.symm
        · apply h (-(k : ℤ))
          have : -lon = (2 * k : ℝ) / (4 / π) := by rw [he]; field_simp
          have : lon = -((2 * k : ℝ) / (4 / π)) := by linarith
          rw [this]; push_cast; field_simp; ring
      have hlt : (2 * k : ℝ) < -lon * (4 / π) := lt_of_le_of_ne h1 hns
      have hfl : ⌊lon * 2 / π⌋ = -(k : ℤ) - 1 := by
        rw [Int.floor_eq_iff, ht2]; push_cast; constructor <;> linarith
      refine ⟨1 + (c : ℤ), ?_⟩
      rw [hfl, ht]; push_cast; ring
  · simp only [not_lt.mpr hpos, if_false]
    rw [abs_of_nonneg hpos] at h1 h2 ⊢
    have ht : lon * 4 / π = lon * (4 / π) := by ring
    have ht2 : lon * 2 / π = lon * (4 / π) / 2 := by ring
    have hfl : ⌊lon * 2 / π⌋ = (k : ℤ) := by
      rw [Int.floor_eq_iff, ht2]; push_cast; constructor <;> linarith
    refine ⟨-(c : ℤ), ?_⟩
    rw [hfl, ht, hm4]; push_cast; ring

/-- **C01 against the independent projection, non-negative longitudes** (`0 ≤ lon < 64π`, in particular
    `0 ≤ lon < 2π`): the closed diamond of the cell `(d0h, i, j)` computed by `hash_v2` contains the
    Calabretta–Roukema projection of the point, abscissa modulo 8.  No seam is excluded. -/
theorem hash_real_contains_spec (d : ℕ) (hd : d ≤ 32) (lon lat : ℝ) (hlon0 : 0 ≤ lon) (hlon : lon < 64 * π)
    (hl1 : -(π / 2) ≤ lat) (hl2 : lat ≤ π / 2) :
    (d0hLhInD0c (α := ℝ) lon lat).1 < 12 ∧
      gridCoord d ((d0hLhInD0c (α := ℝ) lon lat).2.2 + (d0hLhInD0c (α := ℝ) lon lat).2.1) < 2 ^ d ∧
      gridCoord d ((d0hLhInD0c (α := ℝ) lon lat).2.2 - (d0hLhInD0c (α := ℝ) lon lat).2.1) < 2 ^ d ∧
      ∃ m : ℤ, InDiamond d (d0hLhInD0c (α := ℝ) lon lat).1
        (gridCoord d ((d0hLhInD0c (α := ℝ) lon lat).2.2 + (d0hLhInD0c (α := ℝ) lon lat).2.1))
        (gridCoord d ((d0hLhInD0c (α := ℝ) lon lat).2.2 - (d0hLhInD0c (α := ℝ) lon lat).2.1))
        ((projSpecXY lon lat).1 + 8 * (m : ℝ)) (projSpecXY lon lat).2 := by
  have hb := lon_bound lon (by rw [abs_of_nonneg hlon0]; exact hlon)
  exact contains_of_plane d hd lon lat hb hl1 hl2 _ (by rw [projSpecXY_eq lon lat hl1 hl2])
    (spec_abscissa lon lat hb hl1 hl2 (Or.inl hlon0))

/-- **C01 against the independent projection, any sign of the longitude** (`|lon| < 64π`).
    Partial: negative longitudes exactly on a cap seam (`lon = −kπ/2` with `|sin lat| > 2/3`) are excluded; there the
    statement is false in the plane (`seam_counterexample`): the code returns the cell west of the seam, whose closed
    diamond contains the point on the sphere but lies across the gap of the interrupted projection. -/
theorem hash_real_contains_spec_partial (d : ℕ) (hd : d ≤ 32) (lon lat : ℝ) (hlon : |lon| < 64 * π)
    (hl1 : -(π / 2) ≤ lat) (hl2 : lat ≤ π / 2)
    (hseam : 0 ≤ lon ∨ |Real.sin lat| ≤ 2 / 3 ∨ ∀ z : ℤ, lon ≠ (z : ℝ) * (π / 2)) :
    (d0hLhInD0c (α := ℝ) lon lat).1 < 12 ∧
      gridCoord d ((d0hLhInD0c (α := ℝ) lon lat).2.2 + (d0hLhInD0c (α := ℝ) lon lat).2.1) < 2 ^ d ∧
      gridCoord d ((d0hLhInD0c (α := ℝ) lon lat).2.2 - (d0hLhInD0c (α := ℝ) lon lat).2.1) < 2 ^ d ∧
      ∃ m : ℤ, InDiamond d (d0hLhInD0c (α := ℝ) lon lat).1
        (gridCoord d ((d0hLhInD0c (α := ℝ) lon lat).2.2 + (d0hLhInD0c (α := ℝ) lon lat).2.1))
        (gridCoord d ((d0hLhInD0c (α := ℝ) lon lat).2.2 - (d0hLhInD0c (α := ℝ) lon lat).2.1))
        ((projSpecXY lon lat).1 + 8 * (m : ℝ)) (projSpecXY lon lat).2 := by
  have hb := lon_bound lon hlon
  exact contains_of_plane d hd lon lat hb hl1 hl2 _ (by rw [projSpecXY_eq lon lat hl1 hl2])
    (spec_abscissa lon lat hb hl1 hl2 hseam)

/-! ## the excluded set: negative longitudes on a cap seam -/

theorem xpm1AndQ_neg_half_pi : xpm1AndQ (α := ℝ) (-(π / 2)) = (1, 2) := by
  have hpi := Real.pi_pos
  have hx : |-(π / 2)| * (4 / π) = 2 := by
    rw [abs_neg, abs_of_pos (by positivity)]; field_simp; ring
  obtain ⟨k, hk, h1, h2, hxq, -⟩ := xpm1AndQ_real (-(π / 2)) (by rw [hx]; norm_num)
  rw [hx] at h1 h2 hxq
  have hk1 : k = 1 := by
    have a : (k : ℝ) ≤ 1 := by linarith
    have b : (0 : ℝ) < (k : ℝ) := by linarith
    have a' : k ≤ 1 := by exact_mod_cast a
    have b' : 0 < k := by exact_mod_cast b
    omega
  subst hk1
  rw [hxq, if_pos (by linarith)]
  norm_num

theorem xpm1AndQ_three_half_pi : xpm1AndQ (α := ℝ) (3 * π / 2) = (-1, 3) := by
  have hpi := Real.pi_pos
  have hx : |3 * π / 2| * (4 / π) = 6 := by
    rw [abs_of_pos (by positivity)]; field_simp; ring
  obtain ⟨k, hk, h1, h2, hxq, -⟩ := xpm1AndQ_real (3 * π / 2) (by rw [hx]; norm_num)
  rw [hx] at h1 h2 hxq
  have hk1 : k = 3 := by
    have a : (k : ℝ) ≤ 3 := by linarith
    have b : (2 : ℝ) < (k : ℝ) := by linarith
    have a' : k ≤ 3 := by exact_mod_cast a
    have b' : 2 < k := by exact_mod_cast b
    omega
  subst hk1
  rw [hxq, if_neg (by linarith)]
  norm_num

/-- **`hash` is not `2π`-periodic on the cap seams**: `lon = −π/2` and `lon = 3π/2` are the same meridian; in the north
    cap the first is sent to base cell 2 (east border, `xpm1 = +1`), the second to base cell 3 (west border,
    `xpm1 = −1`).  Both closed cells contain the point on the sphere. -/
theorem seam_not_periodic (lat : ℝ) (hN : Real.arcsin (2 / 3) < lat) :
    (d0hLhInD0c (α := ℝ) (-(π / 2)) lat).1 = 2 ∧ (d0hLhInD0c (α := ℝ) (3 * π / 2) lat).1 = 3 := by
  rw [d0hLhInD0c_eq _ _ (by rw [xpm1AndQ_neg_half_pi]; norm_num),
    d0hLhInD0c_eq _ _ (by rw [xpm1AndQ_three_half_pi]; norm_num), xpm1AndQ_neg_half_pi, xpm1AndQ_three_half_pi]
  unfold d0hLhOf
  simp only [hN, if_true, and_self]

/-- **Counter-example to the plane statement without the seam exclusion.**  For `lon = −π/2` and every latitude of the
    north cap (`asin(2/3) < lat ≤ π/2`, e.g. `lat = π/2` where `σ = 0`), the code answers base cell 2 while the
    Calabretta–Roukema point `(−1 − σ, 2 − σ)` is in no closed diamond of base cell 2, whatever the shift by a multiple
    of 8: it lies on the other side of the gap between the facets (in the closed diamond of base cell 3's west border). -/
theorem seam_counterexample (d i j : ℕ) (hi : i < 2 ^ d) (hj : j < 2 ^ d) (lat : ℝ)
    (hN : Real.arcsin (2 / 3) < lat) (hl2 : lat ≤ π / 2) :
    (d0hLhInD0c (α := ℝ) (-(π / 2)) lat).1 = 2 ∧
    ¬ ∃ m : ℤ, InDiamond d 2 i j ((projSpecXY (-(π / 2)) lat).1 + 8 * (m : ℝ)) (projSpecXY (-(π / 2)) lat).2 := by
  have hpi := Real.pi_pos
  have hA := asin23_nonneg
  refine ⟨(seam_not_periodic lat hN).1, ?_⟩
  rintro ⟨m, h1, h2, h3, h4⟩
  rw [projSpecXY_eq _ _ (by linarith) hl2] at h1 h2 h3 h4
  have hfl : ⌊-(π / 2) * 2 / π⌋ = -1 := by
    rw [show -(π / 2) * 2 / π = -1 by field_simp]; norm_num
  have ht : -(π / 2) * 4 / π = -2 := by field_simp; ring
  have hc : baseCentre 2 = (5, 1) := by norm_num [baseCentre]
  obtain ⟨hs0, hs1⟩ := collignon_y_lt_one lat hN hl2
  rw [show 1 / 2 * lat + π / 4 = lat / 2 + π / 4 by ring] at hs0 hs1
  have hsig : sigma lat = Real.sqrt 6 * Real.cos (lat / 2 + π / 4) := by unfold sigma; rw [if_pos hN]
  have hY : planeY lat = 2 - Real.sqrt 6 * Real.cos (lat / 2 + π / 4) := by unfold planeY; rw [if_pos hN]
  simp only [hfl, ht, hc, hsig, hY] at h1 h2 h3 h4
  generalize Real.sqrt 6 * Real.cos (lat / 2 + π / 4) = s at *
  have hn : (0 : ℝ) < (2 : ℝ) ^ d := by positivity
  have hiR : (i : ℝ) + 1 ≤ (2 : ℝ) ^ d := by
    have : i + 1 ≤ 2 ^ d := hi
    exact_mod_cast this
  have hjR : (j : ℝ) + 1 ≤ (2 : ℝ) ^ d := by
    have : j + 1 ≤ 2 ^ d := hj
    exact_mod_cast this
  have hj0 : (0 : ℝ) ≤ (j : ℝ) := Nat.cast_nonneg j
  push_cast at h1 h2 h3 h4
  -- second coordinate: 8 − 8m ∈ [0, 2] forces m = 1
  have hB : 2 - s - 1 - (2 * (-1 : ℝ) + 1 + (-2 - (2 * (-1 : ℝ) + 1)) * s + 8 * (m : ℝ) - 5) + 1 = 8 - 8 * (m : ℝ) := by ring
  have hAe : 2 - s - 1 + (2 * (-1 : ℝ) + 1 + (-2 - (2 * (-1 : ℝ) + 1)) * s + 8 * (m : ℝ) - 5) + 1 = 8 * (m : ℝ) - 4 - 2 * s := by ring
  rw [hB] at h3 h4
  rw [hAe] at h1 h2
  have hm_le : (m : ℝ) ≤ 1 := by
    by_contra hcon
    rw [not_le] at hcon
    have : (2 : ℝ) ^ d / 2 * (8 - 8 * (m : ℝ)) < 0 := mul_neg_of_pos_of_neg (by positivity) (by linarith)
    linarith
  have hm_gt : (0 : ℝ) < (m : ℝ) := by
    by_contra hcon
    rw [not_lt] at hcon
    have : (2 : ℝ) ^ d / 2 * 8 ≤ (2 : ℝ) ^ d / 2 * (8 - 8 * (m : ℝ)) :=
      mul_le_mul_of_nonneg_left (by linarith) (by positivity)
    linarith
  have hm1 : m = 1 := by
    have a : m ≤ 1 := by exact_mod_cast hm_le
    have b : 0 < m := by exact_mod_cast hm_gt
    omega
  subst hm1
  have : (2 : ℝ) ^ d / 2 * 2 < (2 : ℝ) ^ d / 2 * (8 * ((1 : ℤ) : ℝ) - 4 - 2 * s) :=
    mul_lt_mul_of_pos_left (by push_cast; linarith) (by positivity)
  linarith

/-- the seam exclusion is satisfiable on both sides: a generic negative longitude in the cap, and a seam in the
    equatorial zone -/
example : (∀ z : ℤ, (-(1 / 2) : ℝ) ≠ (z : ℝ) * (π / 2)) ∧ |Real.sin 0| ≤ 2 / 3 := by
  refine ⟨fun z hz => ?_, by simp; norm_num⟩
  have hpi := Real.two_le_pi
  rcases le_or_gt 0 z with h | h
  · have : (0 : ℝ) ≤ (z : ℝ) := by exact_mod_cast h
    have : 0 ≤ (z : ℝ) * (π / 2) := by positivity
    linarith
  · have h' : z ≤ -1 := by omega
    have : (z : ℝ) ≤ -1 := by exact_mod_cast h'
    nlinarith

/-! ## the longitude bound is needed: saturation of the `as u8` cast -/

theorem xpm1AndQ_saturated : xpm1AndQ (α := ℝ) (129 * π / 2) = (3, 3) := by
  have hpi := Real.pi_pos
  have hx : |129 * π / 2| * (4 / π) = 258 := by
    rw [abs_of_pos (by positivity)]; field_simp; ring
  unfold xpm1AndQ
  simp only [r_abs, r_signBit, r_fourOverPi, r_truncU8, r_ofNat, hx]
  have hfl : ⌊max (258 : ℝ) 0⌋₊ = 258 := by
    rw [max_eq_left (by norm_num)]
    exact_mod_cast Nat.floor_natCast (R := ℝ) 258
  rw [hfl]
  have hneg : ¬ (129 * π / 2 < 0) := by
    have : 0 < 129 * π / 2 := by positivity
    linarith
  have e1 : (min 258 255 ||| 1) = 255 := by decide
  have e2 : ((255 &&& 7) >>> 1) = 3 := by decide
  simp only [hneg, decide_false, Bool.not_false, if_true, e1, e2]
  norm_num

/-- **Beyond `|lon| = 64π` the front end is wrong**: at `lon = 64π + π/2` (same meridian as `π/2`), `lat = 0`,
    `|lon|·4/π = 258` saturates the `u8` cast at 255; `xpm1 = 3`, `h + l = 3` and the first grid coordinate is
    `3·nside/2 ≥ nside` (debug builds: assertion of `build_hash_from_parts`; release: bits spill into the base cell). -/
theorem lon_saturation_counterexample (d : ℕ) (hd1 : 1 ≤ d) (hd : d ≤ 31) :
    ¬ gridCoord d ((d0hLhInD0c (α := ℝ) (129 * π / 2) 0).2.2 + (d0hLhInD0c (α := ℝ) (129 * π / 2) 0).2.1) < 2 ^ d := by
  have hA := asin23_nonneg
  rw [d0hLhInD0c_eq _ _ (by rw [xpm1AndQ_saturated]; norm_num), xpm1AndQ_saturated]
  have hp : d0hLhOf 3 3 0 = (4, 2, 1) := by
    unfold d0hLhOf
    rw [if_neg (by linarith), if_neg (by linarith), Real.sin_zero]
    norm_num
  rw [hp]
  simp only []
  obtain ⟨e, rfl⟩ : ∃ e, d = e + 1 := ⟨d - 1, by omega⟩
  unfold gridCoord
  simp only [r_truncScaleU32, zpow_timeHalfNside, nside_eq]
  have hw : ((1 : ℝ) + 2) * ((2 : ℝ) ^ (e + 1) / 2) = ((3 * 2 ^ e : ℕ) : ℝ) := by push_cast; ring
  rw [hw, max_eq_left (Nat.cast_nonneg _), Nat.floor_natCast]
  have he : 2 ^ e ≤ 2 ^ 30 := Nat.pow_le_pow_right (by norm_num) (by omega)
  have h2 : 2 ^ (e + 1) = 2 * 2 ^ e := by rw [pow_succ]; ring
  have hpos : 1 ≤ 2 ^ e := Nat.one_le_two_pow
  rw [h2]
  generalize 2 ^ e = N at *
  have e1 : min (3 * N) (2 ^ 32 - 1) = 3 * N := min_eq_left (by omega)
  have e2 : (3 * N == 2 * N) = false := by simp; omega
  rw [e1, e2]
  simp only [Bool.false_eq_true, if_false]
  omega

/-! ## the diamond is the cell of `centerXY` -/

/-- the closed diamond as an `L¹` ball of radius `1/nside` around the cell centre
    `(Xb + (i − j)/n, Yb + (i + j + 1 − n)/n)` (in units of `1/n`) -/
theorem inDiamond_iff_l1 (d b i j : ℕ) (X Y : ℝ) :
    InDiamond d b i j X Y ↔
      |(2 : ℝ) ^ d * (X - (baseCentre b).1) - ((i : ℝ) - (j : ℝ))| +
        |(2 : ℝ) ^ d * (Y - (baseCentre b).2) - ((i : ℝ) + (j : ℝ) + 1 - (2 : ℝ) ^ d)| ≤ 1 := by
  unfold InDiamond
  generalize (baseCentre b).1 = xb
  generalize (baseCentre b).2 = yb
  generalize (2 : ℝ) ^ d = n
  set a := n * (X - xb) - ((i : ℝ) - (j : ℝ)) with ha
  set c := n * (Y - yb) - ((i : ℝ) + (j : ℝ) + 1 - n) with hc
  have e1 : n / 2 * (Y - yb + (X - xb) + 1) = (i : ℝ) + (a + c + 1) / 2 := by rw [ha, hc]; ring
  have e2 : n / 2 * (Y - yb - (X - xb) + 1) = (j : ℝ) + (c - a + 1) / 2 := by rw [ha, hc]; ring
  rw [e1, e2]
  constructor
  · rintro ⟨h1, h2, h3, h4⟩
    rcases abs_cases a with ⟨h, _⟩ | ⟨h, _⟩ <;> rcases abs_cases c with ⟨h', _⟩ | ⟨h', _⟩ <;> rw [h, h'] <;> linarith
  · intro h
    have := le_abs_self a
    have := neg_abs_le a
    have := le_abs_self c
    have := neg_abs_le c
    refine ⟨by linarith, by linarith, by linarith, by linarith⟩

/-- `baseCentre` and the grid centre `(i − j, i + j + 1 − n)` are the integer centre `Layer.centerXY` of the model
    (abscissa up to the wrap by `8·nside` applied to negative values) -/
theorem centerXY_baseCentre (d b i j : ℕ) (hb : b < 12) :
    (((Layer.centerXY d ⟨b, i, j⟩).2 : ℤ) : ℝ) = (2 : ℝ) ^ d * (baseCentre b).2 + ((i : ℝ) + (j : ℝ) + 1 - (2 : ℝ) ^ d) ∧
    ∃ m : ℤ, (((Layer.centerXY d ⟨b, i, j⟩).1 : ℤ) : ℝ) =
      (2 : ℝ) ^ d * ((baseCentre b).1 + 8 * (m : ℝ)) + ((i : ℝ) - (j : ℝ)) := by
  have hq : b / 4 = 0 ∨ b / 4 = 1 ∨ b / 4 = 2 := by omega
  have hoff : ((((((b % 4) * 2 : ℕ) : ℤ) + (if b / 4 = 1 then 0 else 1) : ℤ)) : ℝ) = (baseCentre b).1 ∧
      (((1 - ((b / 4 : ℕ) : ℤ) : ℤ)) : ℝ) = (baseCentre b).2 := by
    unfold baseCentre
    generalize b % 4 = r
    rcases hq with h | h | h <;> simp [h] <;> ring
  obtain ⟨h1, h2⟩ := hoff
  simp only [Layer.centerXY, nside_eq]
  generalize ((((b % 4) * 2 : ℕ) : ℤ) + (if b / 4 = 1 then 0 else 1) : ℤ) = ox at h1 ⊢
  generalize ((1 - ((b / 4 : ℕ) : ℤ) : ℤ)) = oy at h2 ⊢
  rw [← h1, ← h2]
  constructor
  · push_cast; ring
  · by_cases hneg : (i : ℤ) - (j : ℤ) + ox * ((2 ^ d : ℕ) : ℤ) < 0
    · rw [if_pos hneg]; exact ⟨1, by push_cast; ring⟩
    · rw [if_neg hneg]; exact ⟨0, by push_cast; ring⟩

/-! ## half-open convention -/

/-- the upper inequality of `gridCoord_spec` is strict except at `v = 2`: inside a base cell the cell owns its two
    southern edges (`i ≤ … < i + 1`), and only the north-east / north-west border of the base cell (`h ± l = 2`) is
    attached by the clamp to the last row -/
theorem gridCoord_half_open (d : ℕ) (hd : d ≤ 32) (v : ℝ) (h0 : 0 ≤ v) (h2 : v < 2) :
    (2 : ℝ) ^ d / 2 * v < (gridCoord d v : ℝ) + 1 := by
  unfold gridCoord
  simp only [r_truncScaleU32, zpow_timeHalfNside, nside_eq]
  have hpow : (0 : ℝ) < (2 : ℝ) ^ d := by positivity
  set w := v * ((2 : ℝ) ^ d / 2) with hw
  have hw0 : 0 ≤ w := by positivity
  have hwN : w < ((2 ^ d : ℕ) : ℝ) := by push_cast; rw [hw]; nlinarith
  rw [max_eq_left hw0, show (2 : ℝ) ^ d / 2 * v = w by rw [hw]; ring]
  have hfN : ⌊w⌋₊ < 2 ^ d := (Nat.floor_lt hw0).mpr hwN
  have hlt : w < (⌊w⌋₊ : ℝ) + 1 := Nat.lt_floor_add_one w
  have hN32 : 2 ^ d ≤ 2 ^ 32 := Nat.pow_le_pow_right (by norm_num) hd
  generalize ⌊w⌋₊ = f at *
  generalize (2 : ℕ) ^ d = N at *
  have e1 : min f (2 ^ 32 - 1) = f := min_eq_left (by omega)
  have e2 : (f == N) = false := by simp; omega
  rw [e1, e2]
  simpa using hlt

end Hpx.HashReal

#print axioms Hpx.HashReal.hash_real_contains
#print axioms Hpx.HashReal.hash_real_contains_spec
#print axioms Hpx.HashReal.hash_real_contains_spec_partial
#print axioms Hpx.HashReal.seam_counterexample
#print axioms Hpx.HashReal.lon_saturation_counterexample
