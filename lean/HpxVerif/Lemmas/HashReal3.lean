/-
C01 over the reals, third part: containment with respect to the HEALPix projection written independently of the code
(Calabretta & Roukema, `H = 4`, `K = 3`), and the behaviour on the cap seams for negative longitudes.
-/
import HpxVerif.Lemmas.HashReal2
import Mathlib.Data.Real.Sign

namespace Hpx.HashReal
open Real Hpx.Proj Hpx.Hash

/-- **HEALPix projection (Calabretta & Roukema 2007, `H = 4`, `K = 3`)** scaled by `4/π`: equatorial zone
    `(lon·4/π, (3/2) sin lat)`; polar caps with `σ = √(3(1 − |sin lat|))` and `xc = 2⌊lon·2/π⌋ + 1` the centre of the
    facet: `(xc + (lon·4/π − xc)·σ, ±(2 − σ))`.  Same text as `Hpx.Proj.projSpec` of `ProjReal2.lean`. -/
noncomputable def projSpecXY (lon lat : ℝ) : ℝ × ℝ :=
  let z := Real.sin lat
  if |z| ≤ 2 / 3 then (lon * 4 / π, 3 / 2 * z)
  else
    let σ := Real.sqrt (3 * (1 - |z|))
    let xc : ℝ := 2 * (⌊lon * 2 / π⌋ : ℝ) + 1
    (xc + (lon * 4 / π - xc) * σ, Real.sign lat * (2 - σ))

/-- half-angle identity: `√6 cos(t/2 + π/4) = √(3(1 − sin t))` on `[−3π/2, π/2]` -/
theorem half_angle (t : ℝ) (h1 : -(3 * π / 2) ≤ t) (h2 : t ≤ π / 2) :
    Real.sqrt 6 * Real.cos (t / 2 + π / 4) = Real.sqrt (3 * (1 - Real.sin t)) := by
  have hc : 0 ≤ Real.cos (t / 2 + π / 4) :=
    Real.cos_nonneg_of_neg_pi_div_two_le_of_le (by linarith) (by linarith)
  have h0 : 0 ≤ Real.sqrt 6 * Real.cos (t / 2 + π / 4) := mul_nonneg (Real.sqrt_nonneg 6) hc
  have hsq : (Real.sqrt 6 * Real.cos (t / 2 + π / 4)) ^ 2 = 3 * (1 - Real.sin t) := by
    rw [mul_pow, Real.sq_sqrt (by norm_num : (0 : ℝ) ≤ 6), Real.cos_sq,
      show 2 * (t / 2 + π / 4) = t + π / 2 by ring, Real.cos_add_pi_div_two]
    ring
  rw [← hsq, Real.sqrt_sq h0]

theorem sin_asin23 : Real.sin (Real.arcsin (2 / 3)) = 2 / 3 := Real.sin_arcsin (by norm_num) (by norm_num)

/-- the code's `σ` and ordinate (branches on `lat` against `±asin(2/3)`, `√6 cos`) are the specification's
    (branch on `|sin lat| ≤ 2/3`, `√(3(1 − |sin lat|))`) -/
theorem sigma_planeY_spec (lat : ℝ) (hl1 : -(π / 2) ≤ lat) (hl2 : lat ≤ π / 2) :
    (if |Real.sin lat| ≤ 2 / 3 then ((1 : ℝ), 3 / 2 * Real.sin lat)
      else (Real.sqrt (3 * (1 - |Real.sin lat|)), Real.sign lat * (2 - Real.sqrt (3 * (1 - |Real.sin lat|)))))
      = (sigma lat, planeY lat) := by
  have hA := asin23_nonneg
  have hAu := Real.arcsin_le_pi_div_two (2 / 3)
  have hpi := Real.pi_pos
  unfold sigma planeY
  by_cases hN : Real.arcsin (2 / 3) < lat
  · have hs : 2 / 3 < Real.sin lat := by
      have := Real.sin_lt_sin_of_lt_of_le_pi_div_two (by linarith) hl2 hN
      rwa [sin_asin23] at this
    have habs : |Real.sin lat| = Real.sin lat := abs_of_nonneg (by linarith)
    have hne : ¬ |Real.sin lat| ≤ 2 / 3 := by rw [habs]; linarith
    rw [if_neg hne, if_pos hN, if_pos hN, habs, half_angle lat (by linarith) hl2, Real.sign_of_pos (by linarith), one_mul]
  · by_cases hS : lat < -Real.arcsin (2 / 3)
    · have hs : Real.sin lat < -(2 / 3) := by
        have := Real.sin_lt_sin_of_lt_of_le_pi_div_two hl1 (by linarith) hS
        rwa [Real.sin_neg, sin_asin23] at this
      have habs : |Real.sin lat| = -Real.sin lat := abs_of_neg (by linarith)
      have hne : ¬ |Real.sin lat| ≤ 2 / 3 := by rw [habs]; linarith
      have hc : Real.sqrt 6 * Real.cos (lat / 2 - π / 4) = Real.sqrt (3 * (1 - -Real.sin lat)) := by
        have := half_angle (-lat) (by linarith) (by linarith)
        rwa [show -lat / 2 + π / 4 = -(lat / 2 - π / 4) by ring, Real.cos_neg, Real.sin_neg] at this
      rw [if_neg hne, if_neg hN, if_neg hN, if_pos hS, if_pos hS, habs, hc, Real.sign_of_neg (by linarith)]
      congr 1; ring
    · obtain ⟨b1, b2⟩ := cea_y_bounds lat (by linarith) (by linarith)
      have he : |Real.sin lat| ≤ 2 / 3 := abs_le.mpr ⟨by linarith, by linarith⟩
      simp only [hN, hS, he, if_true, if_false]
      congr 1; ring

/-- the specification in terms of `σ` and the ordinate: in the equatorial zone `σ = 1` and the facet centre cancels -/
theorem projSpecXY_eq (lon lat : ℝ) (hl1 : -(π / 2) ≤ lat) (hl2 : lat ≤ π / 2) :
    projSpecXY lon lat =
      (2 * (⌊lon * 2 / π⌋ : ℝ) + 1 + (lon * 4 / π - (2 * (⌊lon * 2 / π⌋ : ℝ) + 1)) * sigma lat, planeY lat) := by
  have h := sigma_planeY_spec lat hl1 hl2
  unfold projSpecXY
  simp only []
  by_cases he : |Real.sin lat| ≤ 2 / 3
  · simp only [he, if_true] at h ⊢
    obtain ⟨h1, h2⟩ := Prod.mk.inj h
    rw [← h1, ← h2]; congr 1; ring
  · simp only [he, if_false] at h ⊢
    obtain ⟨h1, h2⟩ := Prod.mk.inj h
    rw [← h1, ← h2]

end Hpx.HashReal
