/-
RING scheme (C11), finding F3 characterised exactly, part 2: is the cell returned on a north-cap seam the right one?
`Contains` / `Misses` (closed diamond of the returned cell versus the point), the verdict on each piece of the eight
north-cap seams (`ring_hash_seam_north_spec`), the south-cap seams and the south pole (correct).
-/
import HpxVerif.Lemmas.RingSeams

namespace Hpx.RingSeams
open Hpx Hpx.Ring Hpx.Proj Hpx.RingReal Real

/-! ## right and wrong answers -/

/-- `h` is a cell of the RING scheme of `nside = n` and its closed diamond (half-diagonal `1/n` around
    `center_of_projected_cell`, modulo 8 in `x`) contains the plane point: the conclusion of `ring_hash_contains` -/
def Contains (debug : Bool) (n h : ℕ) (X Y : ℝ) : Prop :=
  h < 12 * n * n ∧ ∃ cx cy : ℝ, centerOfProjectedCell (α := ℝ) debug n h = some (cx, cy) ∧
    (|X - cx| + |Y - cy| ≤ 1 / n ∨ |X - 8 - cx| + |Y - cy| ≤ 1 / n)

/-- `h` is a wrong answer for the plane point: not a cell number at all, or a cell whose closed diamond — and every
    translate of it by a multiple of 8 in `x` — misses the point -/
def Misses (debug : Bool) (n h : ℕ) (X Y : ℝ) : Prop :=
  12 * n * n ≤ h ∨ ∃ cx cy : ℝ, centerOfProjectedCell (α := ℝ) debug n h = some (cx, cy) ∧
    ∀ k : ℤ, 1 / (n : ℝ) < |X + 8 * k - cx| + |Y - cy|

theorem misses_not_contains {debug : Bool} {n h : ℕ} {X Y : ℝ} (hm : Misses debug n h X Y) :
    ¬ Contains debug n h X Y := by
  rintro ⟨hlt, cx, cy, hc, hor⟩
  rcases hm with h1 | ⟨cx', cy', hc', hall⟩
  · omega
  · rw [hc] at hc'
    simp only [Option.some.injEq, Prod.mk.injEq] at hc'
    obtain ⟨rfl, rfl⟩ := hc'
    rcases hor with h | h
    · have := hall 0
      simp only [Int.cast_zero, mul_zero, add_zero] at this
      linarith
    · have := hall (-1)
      have e : X + 8 * ((-1 : ℤ) : ℝ) - cx = X - 8 - cx := by push_cast; ring
      rw [e] at this
      linarith

/-- a horizontal offset `D` with `1 < |D| < 8n − 1` stays larger than 1 after any shift by a multiple of `8n` -/
theorem far_x_all {n : ℕ} (hn : 1 ≤ n) {D : ℝ} (h0 : 1 < |D|) (h1 : |D| < 8 * n - 1) (k : ℤ) :
    1 < |D + 8 * n * k| := by
  have hn0 : (1 : ℝ) ≤ n := by exact_mod_cast hn
  have hD1 := le_abs_self D
  have hD2 := neg_abs_le D
  rcases lt_trichotomy k 0 with hk | hk | hk
  · have : (k : ℝ) ≤ -1 := by
      have : k ≤ -1 := by omega
      exact_mod_cast this
    rw [lt_abs]; right
    nlinarith
  · subst hk; simpa using h0
  · have : (1 : ℝ) ≤ k := by
      have : 1 ≤ k := by omega
      exact_mod_cast this
    rw [lt_abs]; left
    nlinarith

theorem misses_far_x (debug : Bool) {n r i : ℕ} (hn : 1 ≤ n) (hN : n < 2 ^ 30) (hr : r < 4 * n - 1)
    (hi : i < 4 * perFacet n r) {X Y : ℝ} (h : ∀ k : ℤ, 1 < |(n : ℝ) * X - cxI n r i + 8 * n * k|) :
    Misses debug n (ringStart n r + i) X Y := by
  have hn0 : (0 : ℝ) < n := by exact_mod_cast hn
  refine Or.inr ⟨_, _, center_eq_uncond debug hn hN hr hi, fun k => ?_⟩
  have e : X + 8 * (k : ℝ) - (cxI n r i : ℝ) / n = ((n : ℝ) * X - cxI n r i + 8 * n * k) / n := by
    field_simp; ring
  rw [e, abs_div, abs_of_pos hn0]
  have h1 : 1 / (n : ℝ) < |(n : ℝ) * X - cxI n r i + 8 * n * k| / n := div_lt_div_of_pos_right (h k) hn0
  linarith [abs_nonneg (Y - (cyI n r : ℝ) / n)]

theorem misses_far_y (debug : Bool) {n r i : ℕ} (hn : 1 ≤ n) (hN : n < 2 ^ 30) (hr : r < 4 * n - 1)
    (hi : i < 4 * perFacet n r) {X Y : ℝ} (h : 1 < |(n : ℝ) * Y - cyI n r|) :
    Misses debug n (ringStart n r + i) X Y := by
  have hn0 : (0 : ℝ) < n := by exact_mod_cast hn
  refine Or.inr ⟨_, _, center_eq_uncond debug hn hN hr hi, fun k => ?_⟩
  have e : Y - (cyI n r : ℝ) / n = ((n : ℝ) * Y - cyI n r) / n := by field_simp
  rw [e, abs_div (_ - _) (n : ℝ), abs_of_pos hn0]
  have h1 : 1 / (n : ℝ) < |(n : ℝ) * Y - cyI n r| / n := div_lt_div_of_pos_right h hn0
  linarith [abs_nonneg (X + 8 * (k : ℝ) - (cxI n r i : ℝ) / n)]

theorem contains_near (debug : Bool) {n r i : ℕ} (hn : 1 ≤ n) (hN : n < 2 ^ 30) (hr : r < 4 * n - 1)
    (hi : i < 4 * perFacet n r) {X Y : ℝ} (h : |(n : ℝ) * X - cxI n r i| + |(n : ℝ) * Y - cyI n r| ≤ 1) :
    Contains debug n (ringStart n r + i) X Y := by
  have hn0 : (0 : ℝ) < n := by exact_mod_cast hn
  refine ⟨ringStart_add_lt hn hr hi, _, _, center_eq_uncond debug hn hN hr hi, Or.inl ?_⟩
  have e1 : X - (cxI n r i : ℝ) / n = ((n : ℝ) * X - cxI n r i) / n := by field_simp
  have e2 : Y - (cyI n r : ℝ) / n = ((n : ℝ) * Y - cyI n r) / n := by field_simp
  rw [e1, e2, abs_div, abs_div, abs_of_pos hn0, ← add_div]
  exact div_le_div_of_nonneg_right h (le_of_lt hn0)

/-! ## rings of the north cap -/

theorem capRing {n r : ℕ} (hr : r + 1 < n) :
    perFacet n r = r + 1 ∧ cxOff n r = n - r ∧ ringStart n r = tri4 r ∧ cyI n r = 2 * (n : ℤ) - 1 - r := by
  refine ⟨by unfold perFacet; rw [if_pos hr], by unfold cxOff; rw [if_pos hr], by unfold ringStart; rw [if_pos hr], rfl⟩

/-- the first ring, for every `n ≥ 1` (`n = 1` included, where it is the transition ring) -/
theorem ring0 {n : ℕ} (hn : 1 ≤ n) :
    perFacet n 0 = 1 ∧ cxOff n 0 = n ∧ ringStart n 0 = 0 ∧ cyI n 0 = 2 * (n : ℤ) - 1 := by
  refine ⟨?_, ?_, ringStart_zero n hn, by unfold cyI; omega⟩
  · unfold perFacet; split
    · rfl
    · rw [if_pos (by omega)]; omega
  · unfold cxOff; split
    · omega
    · rw [if_pos (by omega)]; omega

theorem cxI_ring0 {n q : ℕ} (hn : 1 ≤ n) : cxI n 0 q = 2 * n * q + n := by
  obtain ⟨hp, hc, -, -⟩ := ring0 hn
  have := cxI_facet (n := n) (r := 0) (q := q) (j := 0) (by omega)
  rw [hp] at this
  simp only [Nat.mul_one, Nat.add_zero, Nat.mul_zero] at this
  rw [this, hc]

/-! ## verdicts -/

/-- cell `q` of the first ring contains the points of both edges of triangle `q` that lie in the last ring (the pole
    `y = 2` included) -/
theorem contains_top (debug : Bool) {n q : ℕ} (hn : 1 ≤ n) (hN : n < 2 ^ 30) (hq : q < 4) {X Y : ℝ}
    (h1 : 2 * (n : ℝ) - 1 ≤ n * Y) (h2 : Y ≤ 2) (hX : X = 2 * q + (Y - 1) ∨ X = 2 * q + 2 - (Y - 1)) :
    Contains debug n q X Y := by
  have hn0 : (0 : ℝ) < n := by exact_mod_cast hn
  obtain ⟨hp, -, hs, hy⟩ := ring0 hn
  have := contains_near debug (n := n) (r := 0) (i := q) hn hN (by omega) (by rw [hp]; omega) (X := X) (Y := Y) (by
    rw [cxI_ring0 hn, hy]
    push_cast
    have e2 : |(n : ℝ) * Y - (2 * n - 1)| = n * Y - (2 * n - 1) := abs_of_nonneg (by linarith)
    rw [e2]
    rcases hX with rfl | rfl
    · have e1 : |(n : ℝ) * (2 * q + (Y - 1)) - (2 * n * q + n)| = -((n : ℝ) * (2 * q + (Y - 1)) - (2 * n * q + n)) :=
        abs_of_nonpos (by nlinarith)
      rw [e1]; nlinarith
    · have e1 : |(n : ℝ) * (2 * q + 2 - (Y - 1)) - (2 * n * q + n)| = (n : ℝ) * (2 * q + 2 - (Y - 1)) - (2 * n * q + n) :=
        abs_of_nonneg (by nlinarith)
      rw [e1]; nlinarith)
  rwa [hs, Nat.zero_add] at this

/-- the floor `m = ⌊n(y−1)⌋` used by all the statements below -/
theorem floor_m {n : ℕ} {Y : ℝ} (h1 : 1 ≤ Y) :
    ∃ m : ℕ, (m : ℝ) ≤ n * (Y - 1) ∧ (n : ℝ) * (Y - 1) < m + 1 :=
  ⟨⌊(n : ℝ) * (Y - 1)⌋₊, Nat.floor_le (mul_nonneg (Nat.cast_nonneg n) (by linarith)), Nat.lt_floor_add_one _⟩

theorem m_le_of_low {n m : ℕ} {Y : ℝ} (hm1 : (m : ℝ) ≤ n * (Y - 1)) (h3 : (n : ℝ) * Y < 2 * n - 1) : m + 2 ≤ n := by
  have : (m : ℝ) + 1 < n := by linarith
  have : m + 1 < n := by exact_mod_cast this
  omega

/-- **west seam of facet 0 below the last ring** (`n ≥ 2`): panic in the dev profile, a wrong answer in the release
    profile (`2^64 − 1`, or the last cell of the ring two rows further north) -/
theorem seam_west0_wrong {n : ℕ} (hn2 : 2 ≤ n) (hN : n < 2 ^ 30) {Y : ℝ} (h1 : 1 ≤ Y) (h3 : (n : ℝ) * Y < 2 * n - 1) :
    hashPlane true n (Y - 1) Y = none ∧
    ∃ (h : ℕ) (dl dh : ℝ), hashPlane false n (Y - 1) Y = some (h, dl, dh) ∧ Misses false n h (Y - 1) Y := by
  have hn30 := hN
  refine ⟨hashPlane_seam_north_west hn2 hn30 h1 h3, ?_⟩
  obtain ⟨m, hm1, hm2⟩ := floor_m (n := n) h1
  have hm := m_le_of_low hm1 h3
  obtain ⟨dl, dh, hP⟩ := hashPlane_seam_west0_release hn2 hn30 h1 hm1 hm2 hm
  refine ⟨_, dl, dh, hP, ?_⟩
  by_cases h0 : n - 2 - m = 0
  · rw [if_pos h0]; left
    have : n * n ≤ 2 ^ 30 * 2 ^ 30 := Nat.mul_le_mul (by omega) (by omega)
    rw [Nat.mul_assoc]; omega
  · rw [if_neg h0]
    obtain ⟨ρ, hρ⟩ : ∃ ρ, n - 2 - m = ρ + 1 := ⟨n - 3 - m, by omega⟩
    obtain ⟨hp, -, hs, hy⟩ := capRing (n := n) (r := ρ) (by omega)
    have e : tri4 (n - 2 - m) - 1 = ringStart n ρ + (4 * (ρ + 1) - 1) := by
      rw [hρ, tri4_succ, hs]; omega
    rw [e]
    apply misses_far_y false (by omega) hN (by omega) (by rw [hp]; omega)
    rw [hy, lt_abs]; right
    have hc : (n : ℝ) = ρ + m + 3 := by
      have : n = ρ + m + 3 := by omega
      exact_mod_cast this
    push_cast
    linarith

/-- **west seam of facet `q ≥ 1` below the last ring** (`n ≥ 2`): no panic, a wrong cell in both profiles -/
theorem seam_west_low_wrong (debug : Bool) {n q : ℕ} (hn2 : 2 ≤ n) (hN : n < 2 ^ 30) (hq1 : 1 ≤ q) (hq : q < 4) {Y : ℝ}
    (h1 : 1 ≤ Y) (h3 : (n : ℝ) * Y < 2 * n - 1) :
    ∃ (h : ℕ) (dl dh : ℝ), hashPlane debug n (2 * q + (Y - 1)) Y = some (h, dl, dh) ∧ h < 12 * n * n ∧
      Misses debug n h (2 * q + (Y - 1)) Y := by
  have hn30 := hN
  obtain ⟨m, hm1, hm2⟩ := floor_m (n := n) h1
  have hm := m_le_of_low hm1 h3
  obtain ⟨dl, dh, hP⟩ := hashPlane_seam_west_low debug hn2 hn30 hq1 hq h1 hm1 hm2 hm
  obtain ⟨hp, hc, hs, -⟩ := capRing (n := n) (r := n - 2 - m) (by omega)
  obtain ⟨q', rfl⟩ : ∃ q', q = q' + 1 := ⟨q - 1, by omega⟩
  have hr1 : n - 1 - m = n - 2 - m + 1 := by omega
  have ei : (q' + 1) * (n - 1 - m) - 1 = q' * perFacet n (n - 2 - m) + (n - 2 - m) := by
    rw [hp, hr1, Nat.add_mul]; omega
  have hi : q' * perFacet n (n - 2 - m) + (n - 2 - m) < 4 * perFacet n (n - 2 - m) := by
    rw [hp]
    have : q' * (n - 2 - m + 1) ≤ 2 * (n - 2 - m + 1) := Nat.mul_le_mul_right _ (by omega)
    omega
  have hcx : cxI n (n - 2 - m) (q' * perFacet n (n - 2 - m) + (n - 2 - m)) + m + 2 = 2 * n * (q' + 1) := by
    rw [cxI_facet (by rw [hp]; omega), hc, Nat.mul_add]; omega
  have hcxr : (cxI n (n - 2 - m) (q' * perFacet n (n - 2 - m) + (n - 2 - m)) : ℝ) + m + 2 = 2 * n * (q' + 1) := by
    exact_mod_cast hcx
  rw [ei, ← hs] at hP
  refine ⟨_, dl, dh, hP, ringStart_add_lt (by omega) (by omega) hi, ?_⟩
  apply misses_far_x debug (by omega) hN (by omega) hi
  have hmr : (m : ℝ) + 2 ≤ n := by exact_mod_cast hm
  have hm0 : (0 : ℝ) ≤ m := Nat.cast_nonneg m
  apply far_x_all (by omega)
  · rw [lt_abs]; left; push_cast; nlinarith
  · rw [abs_lt]; push_cast; constructor <;> nlinarith

/-- **east seam of facet `q` below the last ring** (`n ≥ 2`, `1 < y`): no panic, a wrong cell in both profiles -/
theorem seam_east_low_wrong (debug : Bool) {n q : ℕ} (hn2 : 2 ≤ n) (hN : n < 2 ^ 30) (hq : q < 4) {Y : ℝ}
    (h1 : 1 < Y) (h3 : (n : ℝ) * Y < 2 * n - 1) :
    ∃ (h : ℕ) (dl dh : ℝ), hashPlane debug n (2 * q + 2 - (Y - 1)) Y = some (h, dl, dh) ∧ h < 12 * n * n ∧
      Misses debug n h (2 * q + 2 - (Y - 1)) Y := by
  have hn30 := hN
  have hn0 : (2 : ℝ) ≤ n := by exact_mod_cast hn2
  obtain ⟨m, hm1, hm2⟩ := floor_m (n := n) (le_of_lt h1)
  have hm := m_le_of_low hm1 h3
  have hmr : (m : ℝ) + 2 ≤ n := by exact_mod_cast hm
  have hm0 : (0 : ℝ) ≤ m := Nat.cast_nonneg m
  have hw0 : 0 < (n : ℝ) * (Y - 1) := mul_pos (by linarith) (by linarith)
  obtain ⟨dl, dh, hP⟩ := hashPlane_seam_east_low debug hn2 hn30 hq h1 hm1 hm2 hm
  obtain ⟨hp, hc, hs, hy⟩ := capRing (n := n) (r := n - 2 - m) (by omega)
  by_cases h0 : m = 0
  · -- the last cell of facet `q`, two half-steps west of the phantom
    subst h0
    rw [if_pos rfl] at hP
    simp only [Nat.sub_zero] at hP hp hc hs
    have ei : (q + 1) * (n - 1) - 1 = q * perFacet n (n - 2) + (n - 2) := by
      rw [hp, show n - 1 = n - 2 + 1 by omega, Nat.add_mul]; omega
    have hi : q * perFacet n (n - 2) + (n - 2) < 4 * perFacet n (n - 2) := by
      rw [hp]
      have : q * (n - 2 + 1) ≤ 3 * (n - 2 + 1) := Nat.mul_le_mul_right _ (by omega)
      omega
    have hcx : cxI n (n - 2) (q * perFacet n (n - 2) + (n - 2)) + 2 = 2 * n * (q + 1) := by
      rw [cxI_facet (by rw [hp]; omega), hc, Nat.mul_add]; omega
    have hcxr : (cxI n (n - 2) (q * perFacet n (n - 2) + (n - 2)) : ℝ) + 2 = 2 * n * (q + 1) := by exact_mod_cast hcx
    rw [ei, ← hs] at hP
    refine ⟨_, dl, dh, hP, ringStart_add_lt (by omega) (by omega) hi, ?_⟩
    apply misses_far_x debug (by omega) hN (by omega) hi
    push_cast at hm2
    apply far_x_all (by omega)
    · rw [lt_abs]; left; nlinarith
    · rw [abs_lt]; constructor <;> nlinarith
  · rw [if_neg h0] at hP
    have hr1 : n - 1 - m = n - 2 - m + 1 := by omega
    by_cases hq3 : q = 3
    · -- facet 3: the first cell of the next ring to the south
      subst hq3
      obtain ⟨hp', hc', hs', -⟩ := capRing (n := n) (r := n - 2 - m + 1) (by omega)
      have ei : tri4 (n - 2 - m) + (3 + 1) * (n - 1 - m) = ringStart n (n - 2 - m + 1) + 0 := by
        rw [hs', tri4_succ, hr1]; omega
      have hi : 0 < 4 * perFacet n (n - 2 - m + 1) := by rw [hp']; omega
      have hcx : cxI n (n - 2 - m + 1) 0 = m + 1 := by
        have := cxI_facet (n := n) (r := n - 2 - m + 1) (q := 0) (j := 0) (by rw [hp']; omega)
        simp only [Nat.zero_mul, Nat.add_zero, Nat.mul_zero] at this
        rw [this, hc']; omega
      rw [ei] at hP
      refine ⟨_, dl, dh, hP, ringStart_add_lt (by omega) (by omega) hi, ?_⟩
      apply misses_far_x debug (by omega) hN (by omega) hi
      intro k
      rw [hcx]
      have e : (n : ℝ) * (2 * ((3 : ℕ) : ℝ) + 2 - (Y - 1)) - ((m + 1 : ℕ) : ℝ) + 8 * n * k
          = (-((n : ℝ) * (Y - 1)) - m - 1) + 8 * n * ((k + 1 : ℤ) : ℝ) := by push_cast; ring
      rw [e]
      apply far_x_all (by omega)
      · rw [lt_abs]; right; linarith
      · rw [abs_lt]; constructor <;> linarith
    · -- facets 0–2: the first cell of facet `q + 1`, on the other side of the gap
      have ei : (q + 1) * (n - 1 - m) = (q + 1) * perFacet n (n - 2 - m) + 0 := by rw [hp, hr1]; omega
      have hi : (q + 1) * perFacet n (n - 2 - m) + 0 < 4 * perFacet n (n - 2 - m) := by
        rw [hp]
        have : (q + 1) * (n - 2 - m + 1) ≤ 3 * (n - 2 - m + 1) := Nat.mul_le_mul_right _ (by omega)
        omega
      have hcx : cxI n (n - 2 - m) ((q + 1) * perFacet n (n - 2 - m) + 0) = 2 * n * (q + 1) + m + 2 := by
        rw [cxI_facet (by rw [hp]; omega), hc]; omega
      rw [ei, ← hs] at hP
      refine ⟨_, dl, dh, hP, ringStart_add_lt (by omega) (by omega) hi, ?_⟩
      apply misses_far_x debug (by omega) hN (by omega) hi
      rw [hcx]
      apply far_x_all (by omega)
      · rw [lt_abs]; right; push_cast; nlinarith
      · rw [abs_lt]; push_cast; constructor <;> nlinarith

/-- **east seam, `n = 1`** (`1 < y < 2`): the "north pole" exit returns `q + 1`, a wrong cell (for `q = 3`: cell 4, in
    the equatorial ring) -/
theorem seam_east_one_wrong (debug : Bool) {q : ℕ} (hq : q < 4) {Y : ℝ} (h1 : 1 < Y) (h2 : Y < 2) :
    hashPlane debug 1 (2 * q + 2 - (Y - 1)) Y = some (q + 1, 1, 1) ∧ Misses debug 1 (q + 1) (2 * q + 2 - (Y - 1)) Y := by
  have hP := hashPlane_seam_east_top debug (n := 1) (q := q) (by norm_num) (by norm_num) hq (Y := Y)
    (by push_cast; linarith) h1 h2
  rw [if_pos rfl] at hP
  refine ⟨hP, ?_⟩
  by_cases hq3 : q = 3
  · subst hq3
    have e : 3 + 1 = ringStart 1 1 + 0 := by decide
    rw [e]
    apply misses_far_y debug (by norm_num) (by norm_num) (by norm_num) (by decide)
    have : cyI 1 1 = 0 := by decide
    rw [this, lt_abs]; left; push_cast; linarith
  · obtain ⟨hp, -, hs, -⟩ := ring0 (n := 1) (by norm_num)
    have e : q + 1 = ringStart 1 0 + (q + 1) := by rw [hs]; omega
    rw [e]
    apply misses_far_x debug (by norm_num) (by norm_num) (by norm_num) (by rw [hp]; omega)
    rw [cxI_ring0 (by norm_num)]
    apply far_x_all (by norm_num)
    · rw [lt_abs]; right; push_cast; linarith
    · rw [abs_lt]; push_cast; constructor <;> linarith

/-! ## the specification of `hash_with_dldh` on the north-cap seams -/

/-- **`ring_hash_seam_north_spec`** — the exact behaviour of the plane part of `ring::hash` on the two slanted edges of
    the north Collignon triangle `q` (`q = 0..3`, `1 ≤ y < 2`), for every `1 ≤ nside = n < 2^30`, in the dev profile
    (`debug = true`, `none` = panic) and in the release profile:

    WEST edge `x = 2q + (y − 1)` (on the sphere: `lon = q·π/2`):
    * last ring, `2 − 1/n ≤ y` (the whole edge when `n = 1`): cell `q`, offsets `(1,1)`, both profiles — CORRECT;
    * below, `q = 0`: dev profile PANICS; release returns a WRONG answer (`2^64 − 1` or a cell that misses the point);
    * below, `q ≥ 1`: both profiles return, silently, a WRONG cell (the last cell of facet `q − 1` of the ring).
    EAST edge `x = 2q + 2 − (y − 1)`, `1 < y` (on the sphere: `lon = −(3−q)·π/2`, not reached from `lon ∈ [0, 2π)`; at
    `y = 1` the point is the west-edge point of facet `q + 1`):
    * last ring, `n ≥ 2`: cell `q`, offsets `(1,1)`, both profiles — CORRECT;
    * `n = 1`: cell `q + 1` (4 for `q = 3`), both profiles — WRONG;
    * below the last ring: both profiles return, silently, a WRONG cell. -/
theorem ring_hash_seam_north_spec {n q : ℕ} (hn : 1 ≤ n) (hN : n < 2 ^ 30) (hq : q < 4) {Y : ℝ} (h1 : 1 ≤ Y) (h2 : Y < 2) :
    -- west edge
    ((2 * (n : ℝ) - 1 ≤ n * Y → ∀ debug, hashPlane debug n (2 * q + (Y - 1)) Y = some (q, 1, 1) ∧
        Contains debug n q (2 * q + (Y - 1)) Y) ∧
     ((n : ℝ) * Y < 2 * n - 1 → q = 0 → hashPlane true n (2 * q + (Y - 1)) Y = none ∧
        ∃ (h : ℕ) (dl dh : ℝ), hashPlane false n (2 * q + (Y - 1)) Y = some (h, dl, dh) ∧
          Misses false n h (2 * q + (Y - 1)) Y) ∧
     ((n : ℝ) * Y < 2 * n - 1 → 1 ≤ q → ∀ debug, ∃ (h : ℕ) (dl dh : ℝ),
        hashPlane debug n (2 * q + (Y - 1)) Y = some (h, dl, dh) ∧ h < 12 * n * n ∧
          Misses debug n h (2 * q + (Y - 1)) Y)) ∧
    -- east edge
    (1 < Y →
     (2 * (n : ℝ) - 1 ≤ n * Y → 2 ≤ n → ∀ debug, hashPlane debug n (2 * q + 2 - (Y - 1)) Y = some (q, 1, 1) ∧
        Contains debug n q (2 * q + 2 - (Y - 1)) Y) ∧
     (n = 1 → ∀ debug, hashPlane debug n (2 * q + 2 - (Y - 1)) Y = some (q + 1, 1, 1) ∧
        Misses debug n (q + 1) (2 * q + 2 - (Y - 1)) Y) ∧
     ((n : ℝ) * Y < 2 * n - 1 → ∀ debug, ∃ (h : ℕ) (dl dh : ℝ),
        hashPlane debug n (2 * q + 2 - (Y - 1)) Y = some (h, dl, dh) ∧ h < 12 * n * n ∧
          Misses debug n h (2 * q + 2 - (Y - 1)) Y)) := by
  have hn30 := hN
  have hn0 : (1 : ℝ) ≤ n := by exact_mod_cast hn
  have hn2_of_low : (n : ℝ) * Y < 2 * n - 1 → 2 ≤ n := by
    intro h3
    by_contra hc
    have : n = 1 := by omega
    subst this
    push_cast at h3; linarith
  refine ⟨⟨?_, ?_, ?_⟩, fun hY1 => ⟨?_, ?_, ?_⟩⟩
  · intro h3 debug
    exact ⟨hashPlane_seam_west_top debug hn hn30 hq h3 h2, contains_top debug hn hN hq h3 (le_of_lt h2) (Or.inl rfl)⟩
  · intro h3 hq0
    subst hq0
    have e0 : (2 : ℝ) * ((0 : ℕ) : ℝ) + (Y - 1) = Y - 1 := by simp
    rw [e0]
    exact seam_west0_wrong (hn2_of_low h3) hN h1 h3
  · intro h3 hq1 debug
    exact seam_west_low_wrong debug (hn2_of_low h3) hN hq1 hq h1 h3
  · intro h3 hn2 debug
    have := hashPlane_seam_east_top debug hn hn30 hq h3 hY1 h2
    rw [if_neg (by omega)] at this
    exact ⟨this, contains_top debug hn hN hq h3 (le_of_lt h2) (Or.inr rfl)⟩
  · intro h1n debug
    subst h1n
    exact seam_east_one_wrong debug hq hY1 h2
  · intro h3 debug
    exact seam_east_low_wrong debug (hn2_of_low h3) hN hq hY1 h3

/-! ### concrete instances (cross-checked against `#eval` of the model at `Float`, where these dyadic points are exact) -/

/-- `n = 4`, west seam of facet 0 at `y = 9/8`: the release profile returns cell 11 = `tri4 2 − 1` -/
example : ∃ dl dh : ℝ, hashPlane false 4 ((9 : ℝ) / 8 - 1) (9 / 8) = some (11, dl, dh) := by
  have := hashPlane_seam_west0_release (n := 4) (m := 0) (Y := 9 / 8) (by norm_num) (by norm_num) (by norm_num)
    (by norm_num) (by norm_num) (by norm_num)
  have e : (if 4 - 2 - 0 = 0 then 2 ^ 64 - 1 else tri4 (4 - 2 - 0) - 1) = 11 := by decide
  rwa [e] at this

/-- `n = 4`, east seam of facet 3 at `y = 11/8`: both profiles return cell 12, the first cell of the NEXT ring -/
example (debug : Bool) : ∃ dl dh : ℝ, hashPlane debug 4 (2 * ((3 : ℕ) : ℝ) + 2 - ((11 : ℝ) / 8 - 1)) (11 / 8) = some (12, dl, dh) := by
  have := hashPlane_seam_east_low debug (n := 4) (q := 3) (m := 1) (Y := 11 / 8) (by norm_num) (by norm_num) (by norm_num)
    (by norm_num) (by norm_num) (by norm_num) (by norm_num)
  have e : tri4 (4 - 2 - 1) + (if 1 = 0 then (3 + 1) * (4 - 1) - 1 else (3 + 1) * (4 - 1 - 1)) = 12 := by decide
  rwa [e] at this

/-- the hypotheses of the specification are satisfiable, and its clauses are not vacuous: `n = 3`, `q = 1`, `y = 5/4` is
    below the last ring (`3·5/4 < 5`) -/
example : ∀ debug, ∃ (h : ℕ) (dl dh : ℝ), hashPlane debug 3 (2 * ((1 : ℕ) : ℝ) + ((5 : ℝ) / 4 - 1)) (5 / 4) = some (h, dl, dh) ∧
    h < 12 * 3 * 3 ∧ Misses debug 3 h (2 * ((1 : ℕ) : ℝ) + ((5 : ℝ) / 4 - 1)) (5 / 4) :=
  (ring_hash_seam_north_spec (n := 3) (q := 1) (Y := 5 / 4) (by norm_num) (by norm_num) (by norm_num) (by norm_num)
    (by norm_num)).1.2.2 (by norm_num) (by norm_num)

end Hpx.RingSeams

#print axioms Hpx.RingSeams.ring_hash_seam_north_spec
#print axioms Hpx.RingSeams.misses_not_contains
