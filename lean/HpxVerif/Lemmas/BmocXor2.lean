/-
`xor`, layer 2: the 9-way merge loop.  Every step emits a piece that denotes `Tri.xor` of the two operands exactly over
the interval of the coarser current cell, and hands the rest to the loop with the lower bound moved to the end of that
cell.
-/
import HpxVerif.Lemmas.BmocXor

namespace Hpx.Bmoc.XorP

/-- hypotheses on an operand (what is still to be read of it): well formed, in range, not before `lb` -/
structure Ops (D lb : Nat) (A : List Cell) : Prop where
  wf : WF D A
  inr : ∀ c ∈ A, InR c
  lb : ∀ c ∈ A, lb ≤ lo D c

theorem Ops.nil (D lb : Nat) : Ops D lb [] :=
  ⟨trivial, fun c hc => by simp at hc, fun c hc => by simp at hc⟩

/-- after the head cell -/
theorem Ops.tail {D lb : Nat} {c : Cell} {l : List Cell} (h : Ops D lb (c :: l)) : Ops D (hi D c) l :=
  ⟨h.wf.tail, fun c' hc' => h.inr c' (List.mem_cons_of_mem _ hc'), fun c' hc' => h.wf.2.1 c' hc'⟩

/-- a well-formed sub-list with a new lower bound -/
theorem Ops.sub {D lb lb' : Nat} {A A' : List Cell} (h : Ops D lb A) (hw : WF D A') (hm : ∀ c ∈ A', c ∈ A)
    (hb : ∀ c ∈ A', lb' ≤ lo D c) : Ops D lb' A' :=
  ⟨hw, fun c hc => h.inr c (hm c hc), hb⟩

theorem Ops.newlb {D lb lb' : Nat} {A : List Cell} (h : Ops D lb A) (hb : ∀ c ∈ A, lb' ≤ lo D c) : Ops D lb' A :=
  ⟨h.wf, h.inr, hb⟩

/-- everything in a well-formed list starts at or after the start of its head -/
theorem lo_head_le {D : Nat} {c : Cell} {l : List Cell} (h : WF D (c :: l)) : ∀ c' ∈ c :: l, lo D c ≤ lo D c' := by
  intro c' hc'
  rcases List.mem_cons.1 hc' with rfl | hc'
  · exact Nat.le_refl _
  · have := h.2.1 c' hc'
    have := lo_lt_hi D c
    omega

theorem hi_le_of_inR {D : Nat} {c : Cell} (hd : c.depth ≤ D) (h : InR c) : hi D c ≤ 12 * 4 ^ D := by
  unfold hi
  unfold InR at h
  have e : 4 ^ D = 4 ^ c.depth * 4 ^ (D - c.depth) := by rw [← Nat.pow_add]; congr 1; omega
  rw [e, ← Nat.mul_assoc]
  exact Nat.mul_le_mul_right _ h

theorem stOf_abs_of_lb {D : Nat} {l : List Cell} {m x : Nat} (h : ∀ c ∈ l, m ≤ lo D c) (hx : x < m) :
    stOf D l x = .abs :=
  stOf_absent_of_lt (fun c hc => Nat.lt_of_lt_of_le hx (h c hc))

/-- a single cell as a segment with any denotation that agrees with its flag -/
theorem seg_cell {D : Nat} (c : Cell) (hc : c.depth ≤ D) (g : Nat → Tri)
    (hg : ∀ x, lo D c ≤ x → x < hi D c → g x = Tri.ofFlag c.full) : Seg D [c] (lo D c) (hi D c) g := by
  have hs := Seg.single D c.depth c.hash c.full hc
  exact hs.mono_g (fun x h1 h2 => (hg x h1 h2).symm)

/-- what the merge loop has to establish for the operands `A`, `B` still to be read -/
def XorGoal (D : Nat) (A B : List Cell) (res : Option (List Cell)) : Prop :=
  ∀ lb, Ops D lb A → Ops D lb B →
    ∃ out, res = some out ∧ Seg D out lb (12 * 4 ^ D) (fun x => Tri.xor (stOf D A x) (stOf D B x))

/-- **one step of the loop, left cell `l` first**: `piece` denotes the result over the interval of `l`; the other operand
    `B` does not start before `l`, and `B'` is what is left of it after `l` -/
theorem xor_over_left {D : Nat} (l : Cell) (lit B B' piece : List Cell) (res' : Option (List Cell)) (lb : Nat)
    (hA : Ops D lb (l :: lit))
    (hBlo : ∀ c ∈ B, lo D l ≤ lo D c)
    (hB' : ∀ x, hi D l ≤ x → stOf D B x = stOf D B' x)
    (hp : Seg D piece (lo D l) (hi D l) (fun x => Tri.xor (Tri.ofFlag l.full) (stOf D B x)))
    (ih : ∃ out, res' = some out ∧
      Seg D out (hi D l) (12 * 4 ^ D) (fun x => Tri.xor (stOf D lit x) (stOf D B' x))) :
    ∃ out, Option.map (fun t => piece ++ t) res' = some out ∧
      Seg D out lb (12 * 4 ^ D) (fun x => Tri.xor (stOf D (l :: lit) x) (stOf D B x)) := by
  obtain ⟨out, rfl, hs⟩ := ih
  refine ⟨piece ++ out, rfl, ?_⟩
  have hlh := lo_lt_hi D l
  have hU : hi D l ≤ 12 * 4 ^ D := hi_le_of_inR hA.wf.1 (hA.inr l (by simp))
  have hlb : lb ≤ lo D l := hA.lb l (by simp)
  have p0 : Seg D [] lb (lo D l) (fun x => Tri.xor (stOf D (l :: lit) x) (stOf D B x)) := by
    apply Seg.empty_abs
    intro x _ hx
    rw [(st_facts hA.wf x).1 hx, stOf_abs_of_lb hBlo hx]; rfl
  have p1 : Seg D piece (lo D l) (hi D l) (fun x => Tri.xor (stOf D (l :: lit) x) (stOf D B x)) :=
    hp.mono_g (fun x h1 h2 => by rw [stOf_in_cons h1 h2])
  have p2 : Seg D out (hi D l) (12 * 4 ^ D) (fun x => Tri.xor (stOf D (l :: lit) x) (stOf D B x)) :=
    hs.mono_g (fun x h1 _ => by rw [stOf_ge_cons h1, hB' x h1])
  have r1 := Seg.append hlb (Nat.le_of_lt hlh) p0 p1
  have r2 := Seg.append (Nat.le_trans hlb (Nat.le_of_lt hlh)) hU r1 p2
  simpa using r2

/-- the same with the right cell `r` first -/
theorem xor_over_right {D : Nat} (r : Cell) (rit A A' piece : List Cell) (res' : Option (List Cell)) (lb : Nat)
    (hB : Ops D lb (r :: rit))
    (hAlo : ∀ c ∈ A, lo D r ≤ lo D c)
    (hA' : ∀ x, hi D r ≤ x → stOf D A x = stOf D A' x)
    (hp : Seg D piece (lo D r) (hi D r) (fun x => Tri.xor (Tri.ofFlag r.full) (stOf D A x)))
    (ih : ∃ out, res' = some out ∧
      Seg D out (hi D r) (12 * 4 ^ D) (fun x => Tri.xor (stOf D A' x) (stOf D rit x))) :
    ∃ out, Option.map (fun t => piece ++ t) res' = some out ∧
      Seg D out lb (12 * 4 ^ D) (fun x => Tri.xor (stOf D A x) (stOf D (r :: rit) x)) := by
  obtain ⟨out, ho, hs⟩ := ih
  obtain ⟨out', ho', hs'⟩ := xor_over_left r rit A A' piece res' lb hB hAlo hA' hp
    ⟨out, ho, hs.mono_g (fun x _ _ => Tri.xor_comm _ _)⟩
  exact ⟨out', ho', hs'.mono_g (fun x _ _ => Tri.xor_comm _ _)⟩

/-- emit the left cell, which lies entirely before everything of `B` -/
theorem xor_emit_left {D : Nat} (l : Cell) (lit B : List Cell) (res' : Option (List Cell)) (lb : Nat)
    (hA : Ops D lb (l :: lit)) (hB : ∀ c ∈ B, hi D l ≤ lo D c)
    (ih : ∃ out, res' = some out ∧
      Seg D out (hi D l) (12 * 4 ^ D) (fun x => Tri.xor (stOf D lit x) (stOf D B x))) :
    ∃ out, Option.map (fun t => l :: t) res' = some out ∧
      Seg D out lb (12 * 4 ^ D) (fun x => Tri.xor (stOf D (l :: lit) x) (stOf D B x)) := by
  have hlh := lo_lt_hi D l
  refine xor_over_left l lit B B [l] res' lb hA (fun c hc => by have := hB c hc; omega) (fun _ _ => rfl) ?_ ih
  apply seg_cell l hA.wf.1
  intro x _ h2
  rw [stOf_abs_of_lb hB h2]; simp

theorem xor_emit_right {D : Nat} (r : Cell) (rit A : List Cell) (res' : Option (List Cell)) (lb : Nat)
    (hB : Ops D lb (r :: rit)) (hA : ∀ c ∈ A, hi D r ≤ lo D c)
    (ih : ∃ out, res' = some out ∧
      Seg D out (hi D r) (12 * 4 ^ D) (fun x => Tri.xor (stOf D A x) (stOf D rit x))) :
    ∃ out, Option.map (fun t => r :: t) res' = some out ∧
      Seg D out lb (12 * 4 ^ D) (fun x => Tri.xor (stOf D A x) (stOf D (r :: rit) x)) := by
  have hlh := lo_lt_hi D r
  refine xor_over_right r rit A A [r] res' lb hB (fun c hc => by have := hA c hc; omega) (fun _ _ => rfl) ?_ ih
  apply seg_cell r hB.wf.1
  intro x _ h2
  rw [stOf_abs_of_lb hA h2]; simp

/-- everything of `r :: rit` starts at or after `m` when `r` does -/
theorem all_ge_of_head {D m : Nat} {r : Cell} {rit : List Cell} (hw : WF D (r :: rit)) (h : m ≤ lo D r) :
    ∀ c ∈ r :: rit, m ≤ lo D c :=
  fun c hc => Nat.le_trans h (lo_head_le hw c hc)

theorem isIn_of {low c : Cell} (hd : low.depth ≤ c.depth) (he : low.hash = c.hash >>> ((c.depth - low.depth) <<< 1)) :
    isIn low c = true := by
  unfold isIn; simp only [Bool.and_eq_true, decide_eq_true_eq, beq_iff_eq]; exact ⟨hd, he⟩

/-- a partial coarse cell `l` over the cells of the other operand: the result is `l`, the covered cells are skipped -/
theorem xor_partial_left {D : Nat} (l r : Cell) (lit rit : List Cell) (res' : Option (List Cell)) (lb : Nat)
    (hA : Ops D lb (l :: lit)) (hB : Ops D lb (r :: rit)) (hin : isIn l r = true) (hf : l.full = false)
    (ih : XorGoal D lit (tl (consumeWhileOverlapped l rit).1 (consumeWhileOverlapped l rit).2) res') :
    ∃ out, Option.map (fun t => l :: t) res' = some out ∧
      Seg D out lb (12 * 4 ^ D) (fun x => Tri.xor (stOf D (l :: lit) x) (stOf D (r :: rit) x)) := by
  obtain ⟨k1, k2, k3, k4⟩ := isIn_spec (D := D) hB.wf.1 hin
  have hlr := lo_lt_hi D r
  obtain ⟨s1, s2, s3, s4, _⟩ := cwo_spec D l hA.wf.1 rit hB.wf.tail (fun c hc => by
    have := hB.wf.2.1 c hc; omega)
  have hB' : Ops D (hi D l) (tl (consumeWhileOverlapped l rit).1 (consumeWhileOverlapped l rit).2) :=
    hB.sub s1 (fun c hc => List.mem_cons_of_mem _ (s2 c hc)) s3
  refine xor_over_left l lit (r :: rit) _ [l] res' lb hA (all_ge_of_head hB.wf k3) ?_ ?_ (ih (hi D l) hA.tail hB')
  · intro x hx
    rw [stOf_ge_cons (by omega)]
    exact s4 x hx
  · apply seg_cell l hA.wf.1
    intro x _ _
    rw [hf]; simp [Tri.ofFlag]

theorem xor_partial_right {D : Nat} (l r : Cell) (lit rit : List Cell) (res' : Option (List Cell)) (lb : Nat)
    (hA : Ops D lb (l :: lit)) (hB : Ops D lb (r :: rit)) (hin : isIn r l = true) (hf : r.full = false)
    (ih : XorGoal D (tl (consumeWhileOverlapped r lit).1 (consumeWhileOverlapped r lit).2) rit res') :
    ∃ out, Option.map (fun t => r :: t) res' = some out ∧
      Seg D out lb (12 * 4 ^ D) (fun x => Tri.xor (stOf D (l :: lit) x) (stOf D (r :: rit) x)) := by
  obtain ⟨k1, k2, k3, k4⟩ := isIn_spec (D := D) hA.wf.1 hin
  have hll := lo_lt_hi D l
  obtain ⟨s1, s2, s3, s4, _⟩ := cwo_spec D r hB.wf.1 lit hA.wf.tail (fun c hc => by
    have := hA.wf.2.1 c hc; omega)
  have hA' : Ops D (hi D r) (tl (consumeWhileOverlapped r lit).1 (consumeWhileOverlapped r lit).2) :=
    hA.sub s1 (fun c hc => List.mem_cons_of_mem _ (s2 c hc)) s3
  refine xor_over_right r rit (l :: lit) _ [r] res' lb hB (all_ge_of_head hA.wf k3) ?_ ?_ (ih (hi D r) hA' hB.tail)
  · intro x hx
    rw [stOf_ge_cons (by omega)]
    exact s4 x hx
  · apply seg_cell r hB.wf.1
    intro x _ _
    rw [hf]; simp [Tri.ofFlag]

/-- a full coarse cell `l` over the cells of the other operand: the result is their complement inside `l` -/
theorem xor_full_left {D : Nat} (hD : D ≤ 29) (l r : Cell) (lit rit : List Cell) (res' : Option (List Cell)) (lb : Nat)
    (hA : Ops D lb (l :: lit)) (hB : Ops D lb (r :: rit)) (hin : isIn l r = true) (hf : l.full = true)
    (ih : XorGoal D lit (tl (notInCell4Xor l r rit).2.1 (notInCell4Xor l r rit).2.2) res') :
    ∃ out, Option.map (fun t => (notInCell4Xor l r rit).1 ++ t) res' = some out ∧
      Seg D out lb (12 * 4 ^ D) (fun x => Tri.xor (stOf D (l :: lit) x) (stOf D (r :: rit) x)) := by
  obtain ⟨k1, k2, k3, k4⟩ := isIn_spec (D := D) hB.wf.1 hin
  obtain ⟨s1, s2, s3, s4, _, s6⟩ := notInCell4Xor_spec D hD l r rit hA.wf.1 hB.wf hB.inr hin
  have hB' : Ops D (hi D l) (tl (notInCell4Xor l r rit).2.1 (notInCell4Xor l r rit).2.2) :=
    hB.sub s1 (fun c hc => List.mem_cons_of_mem _ (s2 c hc)) s3
  refine xor_over_left l lit (r :: rit) _ _ res' lb hA (all_ge_of_head hB.wf k3) s4 ?_ (ih (hi D l) hA.tail hB')
  refine s6.mono_g ?_
  intro x _ _
  rw [hf]; exact (Tri.xor_full_left _).symm

theorem xor_full_right {D : Nat} (hD : D ≤ 29) (l r : Cell) (lit rit : List Cell) (res' : Option (List Cell)) (lb : Nat)
    (hA : Ops D lb (l :: lit)) (hB : Ops D lb (r :: rit)) (hin : isIn r l = true) (hf : r.full = true)
    (ih : XorGoal D (tl (notInCell4Xor r l lit).2.1 (notInCell4Xor r l lit).2.2) rit res') :
    ∃ out, Option.map (fun t => (notInCell4Xor r l lit).1 ++ t) res' = some out ∧
      Seg D out lb (12 * 4 ^ D) (fun x => Tri.xor (stOf D (l :: lit) x) (stOf D (r :: rit) x)) := by
  obtain ⟨k1, k2, k3, k4⟩ := isIn_spec (D := D) hA.wf.1 hin
  obtain ⟨s1, s2, s3, s4, _, s6⟩ := notInCell4Xor_spec D hD r l lit hB.wf.1 hA.wf hA.inr hin
  have hA' : Ops D (hi D r) (tl (notInCell4Xor r l lit).2.1 (notInCell4Xor r l lit).2.2) :=
    hA.sub s1 (fun c hc => List.mem_cons_of_mem _ (s2 c hc)) s3
  refine xor_over_right r rit (l :: lit) _ _ res' lb hB (all_ge_of_head hA.wf k3) s4 ?_ (ih (hi D r) hA' hB.tail)
  refine s6.mono_g ?_
  intro x _ _
  rw [hf]; exact (Tri.xor_full_left _).symm

/-- the same cell in both operands -/
theorem xor_same {D : Nat} (l r : Cell) (lit rit : List Cell) (res' : Option (List Cell)) (lb : Nat)
    (hA : Ops D lb (l :: lit)) (hB : Ops D lb (r :: rit)) (hd : l.depth = r.depth) (hh : l.hash = r.hash)
    (ih : XorGoal D lit rit res') :
    ∃ out, Option.map (fun t => if (r.full && l.full) = true then t
        else ({ depth := l.depth, hash := l.hash, full := false } : Cell) :: t) res' = some out ∧
      Seg D out lb (12 * 4 ^ D) (fun x => Tri.xor (stOf D (l :: lit) x) (stOf D (r :: rit) x)) := by
  have e3 : hi D l = hi D r := by unfold hi; rw [hd, hh]
  have e4 : lo D l = lo D r := by unfold lo; rw [hd, hh]
  have hmap : (fun t : List Cell => if (r.full && l.full) = true then t
        else ({ depth := l.depth, hash := l.hash, full := false } : Cell) :: t) =
      (fun t => (if (r.full && l.full) = true then []
        else [({ depth := l.depth, hash := l.hash, full := false } : Cell)]) ++ t) := by
    funext t
    split <;> rfl
  rw [hmap]
  have hBt := hB.tail
  rw [← e3] at hBt
  refine xor_over_left l lit (r :: rit) rit _ res' lb hA (all_ge_of_head hB.wf (Nat.le_of_eq e4)) ?_ ?_
    (ih (hi D l) hA.tail hBt)
  · intro x hx
    rw [stOf_ge_cons (by omega)]
  · have hg : ∀ x, lo D l ≤ x → x < hi D l →
        Tri.xor (Tri.ofFlag l.full) (stOf D (r :: rit) x) = Tri.xor (Tri.ofFlag l.full) (Tri.ofFlag r.full) := by
      intro x h1 h2
      rw [stOf_in_cons (by omega) (by omega)]
    by_cases hb : (r.full && l.full) = true
    · simp only [hb, if_true]
      apply Seg.empty_abs
      intro x h1 h2
      rw [hg x h1 h2]
      simp only [Bool.and_eq_true] at hb
      rw [hb.1, hb.2]; rfl
    · simp only [hb]
      have := seg_cell (D := D) ({ depth := l.depth, hash := l.hash, full := false } : Cell) hA.wf.1
        (fun x => Tri.xor (Tri.ofFlag l.full) (stOf D (r :: rit) x)) (by
          intro x h1 h2
          rw [hg x h1 h2]
          revert hb
          cases l.full <;> cases r.full <;> simp [Tri.ofFlag, Tri.xor])
      exact this

theorem tl_ht_length (l : List Cell) : (tl l.head? l.tail).length = l.length := by rw [tl_head_tail]

/-- **the merge loop of `xor`**: with enough fuel it returns a well-formed list that denotes the pointwise `Tri.xor` of what
    is still to be read of the two operands, and that does not start before their common lower bound -/
theorem xorLoop_spec (D : Nat) (hD : D ≤ 29) (fuel : Nat) (left : Option Cell) (lit : List Cell) (right : Option Cell)
    (rit : List Cell) : (tl left lit).length + (tl right rit).length < fuel →
    XorGoal D (tl left lit) (tl right rit) (xorLoop fuel left lit right rit) := by
  fun_induction xorLoop fuel left lit right rit with
  | case1 => intro h; omega
  | case2 =>
    intro _ lb _ _
    exact ⟨[], rfl, Seg.empty_abs D _ _ _ (fun x _ _ => rfl)⟩
  | case3 fuel l lit _ ih =>
    intro hf lb hA _
    simp only [tl_some, tl_none, tl_head_tail, List.length_cons, List.length_nil] at hf ih ⊢
    exact xor_emit_left l lit [] _ lb hA (fun c hc => by simp at hc) (ih (by omega) (hi D l) hA.tail (Ops.nil _ _))
  | case4 fuel _ r rit ih =>
    intro hf lb _ hB
    simp only [tl_some, tl_none, tl_head_tail, List.length_cons, List.length_nil] at hf ih ⊢
    exact xor_emit_right r rit [] _ lb hB (fun c hc => by simp at hc) (ih (by omega) (hi D r) (Ops.nil _ _) hB.tail)
  | case5 fuel l lit r rit hd hr hlt ih =>
    intro hf lb hA hB
    simp only [tl_some, tl_head_tail, List.length_cons] at hf ih ⊢
    have h1 := (cmp_lt_iff (D := D) (Nat.le_of_lt hd) hB.wf.1).1 hlt
    have hBl := all_ge_of_head hB.wf h1
    exact xor_emit_left l lit (r :: rit) _ lb hA hBl (ih (by omega) (hi D l) hA.tail (hB.newlb hBl))
  | case6 fuel l lit r rit hd hr hlt hgt ih =>
    intro hf lb hA hB
    simp only [tl_some, tl_head_tail, List.length_cons] at hf ih ⊢
    have h1 := (cmp_gt_iff (D := D) (Nat.le_of_lt hd) hB.wf.1).1 hgt
    have hAl := all_ge_of_head hA.wf h1
    exact xor_emit_right r rit (l :: lit) _ lb hB hAl (ih (by omega) (hi D r) (hA.newlb hAl) hB.tail)
  | case7 fuel l lit r rit hd hr hlt hgt hfull pushed right rit' hx ih =>
    intro hf lb hA hB
    simp only [tl_some, tl_head_tail, List.length_cons] at hf ih ⊢
    have he : l.hash = r.hash >>> ((r.depth - l.depth) <<< 1) := by omega
    have hin := isIn_of (Nat.le_of_lt hd) he
    have hlen := (notInCell4Xor_spec D hD l r rit hA.wf.1 hB.wf hB.inr hin).2.2.2.2.1
    have := xor_full_left hD l r lit rit (xorLoop fuel lit.head? lit.tail right rit') lb hA hB hin hfull
    rw [hx] at this hlen
    exact this (ih (by simp only at hlen; omega))
  | case8 fuel l lit r rit hd hr hlt hgt hfull right rit' hx ih =>
    intro hf lb hA hB
    simp only [tl_some, tl_head_tail, List.length_cons] at hf ih ⊢
    have he : l.hash = r.hash >>> ((r.depth - l.depth) <<< 1) := by omega
    have hin := isIn_of (Nat.le_of_lt hd) he
    have hlen := (cwo_spec D l hA.wf.1 rit hB.wf.tail (fun c hc => by
      have := hB.wf.2.1 c hc; have := (isIn_spec (D := D) hB.wf.1 hin).2.2.1; have := lo_lt_hi D r; omega)).2.2.2.2
    have := xor_partial_left l r lit rit (xorLoop fuel lit.head? lit.tail right rit') lb hA hB hin (by simpa using hfull)
    rw [hx] at this hlen
    exact this (ih (by simp only at hlen; omega))
  | case9 fuel l lit r rit hd hd' hl hlt ih =>
    intro hf lb hA hB
    simp only [tl_some, tl_head_tail, List.length_cons] at hf ih ⊢
    have h1 := (cmp_gt_iff (D := D) (Nat.le_of_lt hd') hA.wf.1).1 hlt
    have hBl := all_ge_of_head hB.wf h1
    exact xor_emit_left l lit (r :: rit) _ lb hA hBl (ih (by omega) (hi D l) hA.tail (hB.newlb hBl))
  | case10 fuel l lit r rit hd hd' hl hlt hgt ih =>
    intro hf lb hA hB
    simp only [tl_some, tl_head_tail, List.length_cons] at hf ih ⊢
    have h1 := (cmp_lt_iff (D := D) (Nat.le_of_lt hd') hA.wf.1).1 hgt
    have hAl := all_ge_of_head hA.wf h1
    exact xor_emit_right r rit (l :: lit) _ lb hB hAl (ih (by omega) (hi D r) (hA.newlb hAl) hB.tail)
  | case11 fuel l lit r rit hd hd' hl hlt hgt hfull pushed left lit' hx ih =>
    intro hf lb hA hB
    simp only [tl_some, tl_head_tail, List.length_cons] at hf ih ⊢
    have he : r.hash = l.hash >>> ((l.depth - r.depth) <<< 1) := by omega
    have hin := isIn_of (Nat.le_of_lt hd') he
    have hlen := (notInCell4Xor_spec D hD r l lit hB.wf.1 hA.wf hA.inr hin).2.2.2.2.1
    have := xor_full_right hD l r lit rit (xorLoop fuel left lit' rit.head? rit.tail) lb hA hB hin hfull
    rw [hx] at this hlen
    exact this (ih (by simp only at hlen; omega))
  | case12 fuel l lit r rit hd hd' hl hlt hgt hfull left lit' hx ih =>
    intro hf lb hA hB
    simp only [tl_some, tl_head_tail, List.length_cons] at hf ih ⊢
    have he : r.hash = l.hash >>> ((l.depth - r.depth) <<< 1) := by omega
    have hin := isIn_of (Nat.le_of_lt hd') he
    have hlen := (cwo_spec D r hB.wf.1 lit hA.wf.tail (fun c hc => by
      have := hA.wf.2.1 c hc; have := (isIn_spec (D := D) hA.wf.1 hin).2.2.1; have := lo_lt_hi D l; omega)).2.2.2.2
    have := xor_partial_right l r lit rit (xorLoop fuel left lit' rit.head? rit.tail) lb hA hB hin (by simpa using hfull)
    rw [hx] at this hlen
    exact this (ih (by simp only at hlen; omega))
  | case13 fuel l lit r rit hd hd' hlt ih =>
    intro hf lb hA hB
    simp only [tl_some, tl_head_tail, List.length_cons] at hf ih ⊢
    have hde : l.depth = r.depth := by omega
    have h1 := (cmp_same (D := D) hde hB.wf.1).1.1 hlt
    have hBl := all_ge_of_head hB.wf h1
    exact xor_emit_left l lit (r :: rit) _ lb hA hBl (ih (by omega) (hi D l) hA.tail (hB.newlb hBl))
  | case14 fuel l lit r rit hd hd' hlt hgt ih =>
    intro hf lb hA hB
    simp only [tl_some, tl_head_tail, List.length_cons] at hf ih ⊢
    have hde : l.depth = r.depth := by omega
    have h1 := (cmp_same (D := D) hde hB.wf.1).2.1.1 hgt
    have hAl := all_ge_of_head hA.wf h1
    exact xor_emit_right r rit (l :: lit) _ lb hB hAl (ih (by omega) (hi D r) (hA.newlb hAl) hB.tail)
  | case15 fuel l lit r rit hd hd' hlt hgt both ih =>
    intro hf lb hA hB
    simp only [tl_some, tl_head_tail, List.length_cons] at hf ih ⊢
    have hde : l.depth = r.depth := by omega
    have he : l.hash = r.hash := by omega
    exact xor_same l r lit rit _ lb hA hB hde he (ih (by omega))

end Hpx.Bmoc.XorP

namespace Hpx.Bmoc
open XorP

/-- **`xor` on cell lists, packaged**: for well-formed in-range operands (reference depth `D ≤ 29`) the model returns a list
    (never `none` = panic, the fuel suffices) that is well formed, lies in `[0, 12·4^D)` and denotes the pointwise
    `Tri.xor` of the operands -/
theorem xorCells_seg (D : Nat) (hD : D ≤ 29) (a b : List Cell) (ha : WF D a) (hb : WF D b)
    (hra : ∀ c ∈ a, InR c) (hrb : ∀ c ∈ b, InR c) :
    ∃ l, xorCellsUnpacked a b = some l ∧
      Seg D l 0 (12 * 4 ^ D) (fun x => Tri.xor (stOf D a x) (stOf D b x)) := by
  have h := xorLoop_spec D hD (a.length + b.length + 2) a.head? a.tail b.head? b.tail
    (by rw [tl_head_tail, tl_head_tail]; omega) 0
  rw [tl_head_tail, tl_head_tail] at h
  exact h ⟨ha, hra, fun _ _ => Nat.zero_le _⟩ ⟨hb, hrb, fun _ _ => Nat.zero_le _⟩

/-- **the model of `xor` never panics on valid operands** (the fuel of the loop suffices) -/
theorem xorCells_some (D : Nat) (hD : D ≤ 29) (a b : List Cell) (ha : WF D a) (hb : WF D b)
    (hra : ∀ c ∈ a, InR c) (hrb : ∀ c ∈ b, InR c) : ∃ l, xorCellsUnpacked a b = some l := by
  obtain ⟨l, hl, _⟩ := xorCells_seg D hD a b ha hb hra hrb
  exact ⟨l, hl⟩

/-- **three-valued semantics of `xor`** (before `pack`): every cell `x` of depth `D` gets `Tri.xor` of its states in the
    operands (`abs,t ↦ t`; `full,full ↦ abs`; anything else `↦ part`) -/
theorem xor3_sem (D : Nat) (hD : D ≤ 29) (a b : List Cell) (ha : WF D a) (hb : WF D b)
    (hra : ∀ c ∈ a, InR c) (hrb : ∀ c ∈ b, InR c) (l : List Cell) (hl : xorCellsUnpacked a b = some l)
    (x : Nat) (hx : x < 12 * 4 ^ D) : stOf D l x = Tri.xor (stOf D a x) (stOf D b x) := by
  obtain ⟨l', hl', s⟩ := xorCells_seg D hD a b ha hb hra hrb
  rw [hl] at hl'
  cases hl'
  exact s.sem x (Nat.zero_le _) hx

/-- **`xor` hands out a well-formed, in-range list** (sorted, disjoint, depths `≤ D`, cell numbers `< 12·4^depth`) -/
theorem xor_wf (D : Nat) (hD : D ≤ 29) (a b : List Cell) (ha : WF D a) (hb : WF D b)
    (hra : ∀ c ∈ a, InR c) (hrb : ∀ c ∈ b, InR c) (l : List Cell) (hl : xorCellsUnpacked a b = some l) :
    WF D l ∧ ∀ c ∈ l, InR c := by
  obtain ⟨l', hl', s⟩ := xorCells_seg D hD a b ha hb hra hrb
  rw [hl] at hl'
  cases hl'
  exact ⟨s.wf, fun c hc => inR_of_hi D c (s.wf.depth_le c hc) (s.inside c hc).2⟩

/-- the semantics also holds outside the sphere (every state is `abs` there), i.e. for every `x` -/
theorem xor3_sem_all (D : Nat) (hD : D ≤ 29) (a b : List Cell) (ha : WF D a) (hb : WF D b)
    (hra : ∀ c ∈ a, InR c) (hrb : ∀ c ∈ b, InR c) (l : List Cell) (hl : xorCellsUnpacked a b = some l)
    (x : Nat) : stOf D l x = Tri.xor (stOf D a x) (stOf D b x) := by
  by_cases hx : x < 12 * 4 ^ D
  · exact xor3_sem D hD a b ha hb hra hrb l hl x hx
  · obtain ⟨w, r⟩ := xor_wf D hD a b ha hb hra hrb l hl
    have out : ∀ (m : List Cell), WF D m → (∀ c ∈ m, InR c) → stOf D m x = .abs := fun m hm hr =>
      stOf_absent_of_ge (fun c hc => Nat.le_trans (hi_le_of_inR (hm.depth_le c hc) (hr c hc)) (by omega))
    rw [out l w r, out a ha hra, out b hb hrb]; rfl

/-- **plain MOCs** (all flags full): the result has no partial cell and is the symmetric difference -/
theorem xor_moc (D : Nat) (hD : D ≤ 29) (a b : List Cell) (ha : WF D a) (hb : WF D b)
    (hra : ∀ c ∈ a, InR c) (hrb : ∀ c ∈ b, InR c) (hfa : ∀ c ∈ a, c.full = true) (hfb : ∀ c ∈ b, c.full = true)
    (l : List Cell) (hl : xorCellsUnpacked a b = some l) (x : Nat) :
    stOf D l x ≠ .part ∧ (stOf D l x = .full ↔ ¬ (stOf D a x = .full ↔ stOf D b x = .full)) := by
  have np : ∀ (m : List Cell), (∀ c ∈ m, c.full = true) → stOf D m x ≠ .part := by
    intro m
    induction m with
    | nil => intro _ h; cases h
    | cons c m ih =>
      intro hf
      rw [stOf_cons]
      split
      · rw [hf c (by simp)]; intro h; cases h
      · exact ih (fun c' hc' => hf c' (by simp [hc']))
  have h := xor3_sem_all D hD a b ha hb hra hrb l hl x
  have h1 := np a hfa
  have h2 := np b hfb
  rw [h]
  revert h1 h2
  cases stOf D a x <;> cases stOf D b x <;> simp [Tri.xor]

/-- the hypotheses are satisfiable by non-trivial operands: a full coarse cell over partial and full finer cells, a
    partial coarse cell over finer cells, equal cells, disjoint cells -/
example : WF 2 [⟨0, 0, true⟩, ⟨0, 1, false⟩, ⟨1, 8, true⟩, ⟨2, 48, false⟩] ∧
    WF 2 [⟨2, 5, false⟩, ⟨2, 15, true⟩, ⟨1, 5, true⟩, ⟨1, 8, true⟩, ⟨1, 13, false⟩] ∧
    (∀ c ∈ [(⟨0, 0, true⟩ : Cell), ⟨0, 1, false⟩, ⟨1, 8, true⟩, ⟨2, 48, false⟩], InR c) ∧
    (∀ c ∈ [(⟨2, 5, false⟩ : Cell), ⟨2, 15, true⟩, ⟨1, 5, true⟩, ⟨1, 8, true⟩, ⟨1, 13, false⟩], InR c) := by
  refine ⟨?_, ?_, ?_, ?_⟩
  · simp [WF, hi, lo]
  · simp [WF, hi, lo]
  · intro c hc; simp only [List.mem_cons, List.not_mem_nil, or_false] at hc
    rcases hc with rfl | rfl | rfl | rfl <;> simp [InR]
  · intro c hc; simp only [List.mem_cons, List.not_mem_nil, or_false] at hc
    rcases hc with rfl | rfl | rfl | rfl | rfl <;> simp [InR]

/-- the model on those operands (evaluated by the kernel) -/
example : xorCellsUnpacked [⟨0, 0, true⟩, ⟨0, 1, false⟩, ⟨1, 8, true⟩, ⟨2, 48, false⟩]
      [⟨2, 5, false⟩, ⟨2, 15, true⟩, ⟨1, 5, true⟩, ⟨1, 8, true⟩, ⟨1, 13, false⟩] =
    some [⟨1, 0, true⟩, ⟨2, 4, true⟩, ⟨2, 5, false⟩, ⟨2, 6, true⟩, ⟨2, 7, true⟩, ⟨1, 2, true⟩, ⟨2, 12, true⟩,
      ⟨2, 13, true⟩, ⟨2, 14, true⟩, ⟨0, 1, false⟩, ⟨2, 48, false⟩, ⟨1, 13, false⟩] := by decide

end Hpx.Bmoc
