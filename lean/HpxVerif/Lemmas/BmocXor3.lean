/-
`xor`, layer 3: the public operator `BMOC::xor` = merge loop, then `to_bmoc_packing` (encode with the larger `depth_max`,
`pack`).  `pack` preserves the state map and well-formedness (`BmocPack.lean`), so the result of the public operator has
the three-valued `xor` semantics and is a well-formed BMOC.
-/
import HpxVerif.Lemmas.BmocXor2
import HpxVerif.Lemmas.BmocPack
import HpxVerif.Lemmas.CoverWF

namespace Hpx.Bmoc
open XorP

namespace XorP

/-- change of reference depth: positions scale by `4^(D−d)` -/
theorem lo_scale {d D : Nat} {c : Cell} (hc : c.depth ≤ d) (hd : d ≤ D) : lo D c = lo d c * 4 ^ (D - d) := by
  unfold lo; rw [four_pow_split hc hd, Nat.mul_assoc]

theorem hi_scale {d D : Nat} {c : Cell} (hc : c.depth ≤ d) (hd : d ≤ D) : hi D c = hi d c * 4 ^ (D - d) := by
  unfold hi; rw [four_pow_split hc hd, Nat.mul_assoc]

/-- a list that is well formed w.r.t. depth `d` is well formed w.r.t. every deeper reference depth -/
theorem wf_mono_depth {d D : Nat} (hd : d ≤ D) : ∀ {l : List Cell}, WF d l → WF D l := by
  intro l
  induction l with
  | nil => intro _; trivial
  | cons c l ih =>
    intro h
    refine ⟨Nat.le_trans h.1 hd, ?_, ih h.tail⟩
    intro c' hc'
    rw [hi_scale h.1 hd, lo_scale (h.tail.depth_le c' hc') hd]
    exact Nat.mul_le_mul_right _ (h.2.1 c' hc')

/-- the cells of a BMOC with valid entries are in range and not deeper than `depth_max` -/
theorem cells_inR {b : BMOC} (hdm : b.dmax ≤ 29) (hv : ∀ r ∈ b.entries, ValidRaw b.dmax r) : ∀ c ∈ b.cells, InR c := by
  intro c hc
  obtain ⟨r, hr, rfl⟩ := List.mem_map.1 hc
  exact (raw_of_decode hdm (hv r hr) rfl).2.2

end XorP

/-- **`BMOC::xor`, the public operator**: for operands whose decoded cells are well formed w.r.t.
    `D = max depth_max` (`≤ 29`) and in range, the operator does not panic; its result has `depth_max = D`, valid strictly
    increasing raw entries, well-formed in-range cells, and every depth-`D` cell gets `Tri.xor` of its states in the
    operands -/
theorem bmoc_xor_spec (A B : BMOC) (hdm : max A.dmax B.dmax ≤ 29)
    (hwA : WF (max A.dmax B.dmax) A.cells) (hwB : WF (max A.dmax B.dmax) B.cells)
    (hrA : ∀ c ∈ A.cells, InR c) (hrB : ∀ c ∈ B.cells, InR c) :
    ∃ R, BMOC.xor A B = some R ∧ R.dmax = max A.dmax B.dmax ∧
      (∀ e ∈ R.entries, ValidRaw R.dmax e) ∧ R.entries.Pairwise (· < ·) ∧
      WF (max A.dmax B.dmax) R.cells ∧ (∀ c ∈ R.cells, InR c) ∧
      ∀ x, stOf (max A.dmax B.dmax) R.cells x =
        Tri.xor (stOf (max A.dmax B.dmax) A.cells x) (stOf (max A.dmax B.dmax) B.cells x) := by
  obtain ⟨l, hl, _⟩ := xorCells_seg _ hdm A.cells B.cells hwA hwB hrA hrB
  obtain ⟨w, r⟩ := xor_wf _ hdm A.cells B.cells hwA hwB hrA hrB l hl
  have hsem := xor3_sem_all _ hdm A.cells B.cells hwA hwB hrA hrB l hl
  obtain ⟨g1, g2, g3, g4⟩ := Hpx.Cover.packed_bmoc_wf (max A.dmax B.dmax) hdm l w r
  refine ⟨{ dmax := max A.dmax B.dmax, entries := pack (max A.dmax B.dmax) (l.map (encode (max A.dmax B.dmax))) },
    ?_, rfl, g1, g3, g2, ?_, ?_⟩
  · unfold BMOC.xor
    simp only [hl, Option.map_some]
  · exact cells_inR (b := ⟨_, _⟩) hdm g1
  · intro x
    exact (g4 x).trans (hsem x)

/-- the same for two valid BMOCs given by their own invariants (entries valid and cells well formed w.r.t. their own
    `depth_max`) -/
theorem bmoc_xor_valid (A B : BMOC) (hA : A.dmax ≤ 29) (hB : B.dmax ≤ 29)
    (hvA : ∀ e ∈ A.entries, ValidRaw A.dmax e) (hvB : ∀ e ∈ B.entries, ValidRaw B.dmax e)
    (hwA : WF A.dmax A.cells) (hwB : WF B.dmax B.cells) :
    ∃ R, BMOC.xor A B = some R ∧ R.dmax = max A.dmax B.dmax ∧
      (∀ e ∈ R.entries, ValidRaw R.dmax e) ∧ R.entries.Pairwise (· < ·) ∧
      WF (max A.dmax B.dmax) R.cells ∧ (∀ c ∈ R.cells, InR c) ∧
      ∀ x, stOf (max A.dmax B.dmax) R.cells x =
        Tri.xor (stOf (max A.dmax B.dmax) A.cells x) (stOf (max A.dmax B.dmax) B.cells x) :=
  bmoc_xor_spec A B (by omega) (wf_mono_depth (by omega) hwA) (wf_mono_depth (by omega) hwB)
    (cells_inR hA hvA) (cells_inR hB hvB)

/-- **plain MOCs** (every flag full): `xor` is the symmetric difference, and the result has no partial cell -/
theorem bmoc_xor_moc (A B : BMOC) (hdm : max A.dmax B.dmax ≤ 29)
    (hwA : WF (max A.dmax B.dmax) A.cells) (hwB : WF (max A.dmax B.dmax) B.cells)
    (hrA : ∀ c ∈ A.cells, InR c) (hrB : ∀ c ∈ B.cells, InR c)
    (hfA : ∀ c ∈ A.cells, c.full = true) (hfB : ∀ c ∈ B.cells, c.full = true) :
    ∃ R, BMOC.xor A B = some R ∧ ∀ x, stOf (max A.dmax B.dmax) R.cells x ≠ .part ∧
      (stOf (max A.dmax B.dmax) R.cells x = .full ↔
        ¬ (stOf (max A.dmax B.dmax) A.cells x = .full ↔ stOf (max A.dmax B.dmax) B.cells x = .full)) := by
  obtain ⟨R, hR, _, _, _, _, _, hs⟩ := bmoc_xor_spec A B hdm hwA hwB hrA hrB
  obtain ⟨l, hl⟩ := xorCells_some _ hdm A.cells B.cells hwA hwB hrA hrB
  refine ⟨R, hR, fun x => ?_⟩
  have := xor_moc _ hdm A.cells B.cells hwA hwB hrA hrB hfA hfB l hl x
  rw [xor3_sem_all _ hdm A.cells B.cells hwA hwB hrA hrB l hl x] at this
  rw [hs x]
  exact this

/-- non-trivial operands of different `depth_max` satisfying the hypotheses of `bmoc_xor_valid`, and the operator on them -/
example : BMOC.xor ⟨1, [encode 1 ⟨0, 0, true⟩, encode 1 ⟨1, 5, false⟩]⟩
      ⟨2, [encode 2 ⟨2, 0, true⟩, encode 2 ⟨2, 1, true⟩, encode 2 ⟨2, 2, true⟩, encode 2 ⟨2, 7, false⟩, encode 2 ⟨1, 5, true⟩]⟩ =
    some ⟨2, [encode 2 ⟨2, 3, true⟩, encode 2 ⟨2, 4, true⟩, encode 2 ⟨2, 5, true⟩, encode 2 ⟨2, 6, true⟩,
      encode 2 ⟨2, 7, false⟩, encode 2 ⟨1, 2, true⟩, encode 2 ⟨1, 3, true⟩, encode 2 ⟨1, 5, false⟩]⟩ := by decide +kernel

/-- ... and they satisfy the hypotheses of `bmoc_xor_valid` -/
example : (∀ e ∈ [encode 1 ⟨0, 0, true⟩, encode 1 ⟨1, 5, false⟩], ValidRaw 1 e) ∧
    WF 1 (BMOC.cells ⟨1, [encode 1 ⟨0, 0, true⟩, encode 1 ⟨1, 5, false⟩]⟩) ∧
    (∀ e ∈ [encode 2 ⟨2, 0, true⟩, encode 2 ⟨2, 1, true⟩, encode 2 ⟨2, 2, true⟩, encode 2 ⟨2, 7, false⟩,
      encode 2 ⟨1, 5, true⟩], ValidRaw 2 e) ∧
    WF 2 (BMOC.cells ⟨2, [encode 2 ⟨2, 0, true⟩, encode 2 ⟨2, 1, true⟩, encode 2 ⟨2, 2, true⟩, encode 2 ⟨2, 7, false⟩,
      encode 2 ⟨1, 5, true⟩]⟩) := by
  have e1 : BMOC.cells ⟨1, [encode 1 ⟨0, 0, true⟩, encode 1 ⟨1, 5, false⟩]⟩ = [⟨0, 0, true⟩, ⟨1, 5, false⟩] := by
    decide +kernel
  have e2 : BMOC.cells ⟨2, [encode 2 ⟨2, 0, true⟩, encode 2 ⟨2, 1, true⟩, encode 2 ⟨2, 2, true⟩, encode 2 ⟨2, 7, false⟩,
      encode 2 ⟨1, 5, true⟩]⟩ = [⟨2, 0, true⟩, ⟨2, 1, true⟩, ⟨2, 2, true⟩, ⟨2, 7, false⟩, ⟨1, 5, true⟩] := by
    decide +kernel
  rw [e1, e2]
  refine ⟨?_, by simp [WF, hi, lo], ?_, by simp [WF, hi, lo]⟩
  · intro e he
    simp only [List.mem_cons, List.not_mem_nil, or_false] at he
    rcases he with rfl | rfl <;> exact ⟨_, by decide, by decide, rfl⟩
  · intro e he
    simp only [List.mem_cons, List.not_mem_nil, or_false] at he
    rcases he with rfl | rfl | rfl | rfl | rfl <;> exact ⟨_, by decide, by decide, rfl⟩

#print axioms xorCells_some
#print axioms xor3_sem
#print axioms xor_wf
#print axioms xor_moc
#print axioms bmoc_xor_spec
#print axioms bmoc_xor_valid
#print axioms bmoc_xor_moc

end Hpx.Bmoc
