import HpxVerif.Model.Bmoc

/-!
Semantics of BMOCs and the cell-layer lemmas: a cell `(d, h)` denotes the interval
`[h·4^(D−d), (h+1)·4^(D−d))` of cells of a reference depth `D`; a cell list denotes a map from the cells of depth `D`
to `{absent, partial, full}`.
-/

namespace Hpx.Bmoc

inductive Tri | abs | part | full
  deriving DecidableEq, Repr

def Tri.ofFlag (f : Bool) : Tri := if f then .full else .part

/-- pointwise minimum / maximum for the order absent < partial < full -/
def Tri.min : Tri → Tri → Tri
  | .abs, _ => .abs | _, .abs => .abs
  | .part, _ => .part | _, .part => .part
  | .full, .full => .full
def Tri.max : Tri → Tri → Tri
  | .full, _ => .full | _, .full => .full
  | .part, _ => .part | _, .part => .part
  | .abs, .abs => .abs
/-- `not`: swap absent/full, keep partial -/
def Tri.not : Tri → Tri | .abs => .full | .full => .abs | .part => .part
/-- `xor` as documented -/
def Tri.xor : Tri → Tri → Tri
  | .abs, x => x | x, .abs => x
  | .full, .full => .abs
  | _, _ => .part

def lo (D : Nat) (c : Cell) : Nat := c.hash * 4 ^ (D - c.depth)
def hi (D : Nat) (c : Cell) : Nat := (c.hash + 1) * 4 ^ (D - c.depth)

def covers (D : Nat) (c : Cell) (x : Nat) : Bool := decide (lo D c ≤ x) && decide (x < hi D c)

/-- state of the depth-`D` cell `x` in a cell list (first covering cell) -/
def stOf (D : Nat) : List Cell → Nat → Tri
  | [], _ => .abs
  | c :: l, x => if covers D c x then Tri.ofFlag c.full else stOf D l x

/-- well-formed w.r.t. reference depth `D`: depths `≤ D`, intervals increasing and disjoint -/
def WF (D : Nat) : List Cell → Prop
  | [] => True
  | c :: l => c.depth ≤ D ∧ (∀ c' ∈ l, hi D c ≤ lo D c') ∧ WF D l

theorem lo_lt_hi (D : Nat) (c : Cell) : lo D c < hi D c := by
  unfold lo hi
  have : 0 < 4 ^ (D - c.depth) := Nat.pow_pos (by decide)
  rw [Nat.add_mul]; omega

theorem WF.tail {D c l} (h : WF D (c :: l)) : WF D l := h.2.2

theorem WF.depth_le {D : Nat} {l : List Cell} (h : WF D l) : ∀ c ∈ l, c.depth ≤ D := by
  induction l with
  | nil => intro c hc; simp at hc
  | cons a l ih =>
    intro c hc
    rcases List.mem_cons.1 hc with rfl | hm
    · exact h.1
    · exact ih h.tail c hm

theorem stOf_absent_of_lt {D : Nat} {l : List Cell} {x : Nat} (h : ∀ c ∈ l, x < lo D c) : stOf D l x = .abs := by
  induction l with
  | nil => rfl
  | cons c l ih =>
    have h1 : x < lo D c := h c (by simp)
    have : covers D c x = false := by simp [covers]; omega
    simp only [stOf, this]
    exact ih (fun c' hc' => h c' (by simp [hc']))

theorem stOf_absent_of_ge {D : Nat} {l : List Cell} {x : Nat} (h : ∀ c ∈ l, hi D c ≤ x) : stOf D l x = .abs := by
  induction l with
  | nil => rfl
  | cons c l ih =>
    have h1 : hi D c ≤ x := h c (by simp)
    have : covers D c x = false := by simp [covers]; omega
    simp only [stOf, this]
    exact ih (fun c' hc' => h c' (by simp [hc']))

/-- in a well-formed list everything after the head lies at or after `hi head` -/
theorem WF.lo_ge {D c l} (h : WF D (c :: l)) : ∀ c' ∈ l, hi D c ≤ lo D c' := h.2.1

/-! ### cell layer: the code's shift comparisons are interval relations -/

theorem four_pow_split {D a b : Nat} (hab : a ≤ b) (hb : b ≤ D) : 4 ^ (D - a) = 4 ^ (b - a) * 4 ^ (D - b) := by
  rw [← Nat.pow_add]; congr 1; omega

theorem shr_eq_div (h k : Nat) : h >>> (k <<< 1) = h / 4 ^ k := by
  rw [Nat.shiftRight_eq_div_pow, Nat.shiftLeft_eq, Nat.pow_one, Nat.pow_mul']

end Hpx.Bmoc

namespace Hpx.Bmoc

theorem lt_div_iff_scaled (a b m v : Nat) (hm : 0 < m) (hv : 0 < v) :
    a < b / m ↔ (a + 1) * (m * v) ≤ b * v := by
  rw [show a < b / m ↔ a + 1 ≤ b / m from Iff.rfl, Nat.le_div_iff_mul_le hm, ← Nat.mul_assoc]
  constructor
  · intro h; exact Nat.mul_le_mul_right v h
  · intro h; exact Nat.le_of_mul_le_mul_right h hv

theorem div_lt_iff_scaled (a b m v : Nat) (hm : 0 < m) (hv : 0 < v) :
    b / m < a ↔ (b + 1) * v ≤ a * (m * v) := by
  rw [Nat.div_lt_iff_lt_mul hm, ← Nat.mul_assoc]
  constructor
  · intro h; exact Nat.mul_le_mul_right v h
  · intro h; exact Nat.le_of_mul_le_mul_right h hv

theorem eq_div_iff_scaled (a b m v : Nat) (hm : 0 < m) (hv : 0 < v) :
    a = b / m ↔ a * (m * v) ≤ b * v ∧ (b + 1) * v ≤ (a + 1) * (m * v) := by
  have h1 := lt_div_iff_scaled a b m v hm hv
  have h2 := div_lt_iff_scaled a b m v hm hv
  have h3 := div_lt_iff_scaled (a + 1) b m v hm hv
  have h4 : a ≤ b / m ↔ a * (m * v) ≤ b * v := by
    rw [Nat.le_div_iff_mul_le hm, ← Nat.mul_assoc]
    constructor
    · intro h; exact Nat.mul_le_mul_right v h
    · intro h; exact Nat.le_of_mul_le_mul_right h hv
  constructor
  · intro e
    refine ⟨h4.1 (by omega), h3.1 (by omega)⟩
  · intro ⟨e1, e2⟩
    have := h4.2 e1
    have := h3.2 e2
    omega

/-- `l` coarser than (or as deep as) `r`: the code's comparison of `l.hash` with `r.hash >> 2(dr − dl)` -/
theorem cmp_lt_iff {D : Nat} {l r : Cell} (hd : l.depth ≤ r.depth) (hD : r.depth ≤ D) :
    l.hash < r.hash >>> ((r.depth - l.depth) <<< 1) ↔ hi D l ≤ lo D r := by
  rw [shr_eq_div]; unfold hi lo
  rw [four_pow_split hd hD]
  exact lt_div_iff_scaled _ _ _ _ (Nat.pow_pos (by decide)) (Nat.pow_pos (by decide))

theorem cmp_gt_iff {D : Nat} {l r : Cell} (hd : l.depth ≤ r.depth) (hD : r.depth ≤ D) :
    r.hash >>> ((r.depth - l.depth) <<< 1) < l.hash ↔ hi D r ≤ lo D l := by
  rw [shr_eq_div]; unfold hi lo
  rw [four_pow_split hd hD]
  exact div_lt_iff_scaled _ _ _ _ (Nat.pow_pos (by decide)) (Nat.pow_pos (by decide))

theorem cmp_eq_iff {D : Nat} {l r : Cell} (hd : l.depth ≤ r.depth) (hD : r.depth ≤ D) :
    l.hash = r.hash >>> ((r.depth - l.depth) <<< 1) ↔ lo D l ≤ lo D r ∧ hi D r ≤ hi D l := by
  rw [shr_eq_div]; unfold hi lo
  rw [four_pow_split hd hD]
  exact eq_div_iff_scaled _ _ _ _ (Nat.pow_pos (by decide)) (Nat.pow_pos (by decide))

theorem stOf_cons (D : Nat) (c : Cell) (l : List Cell) (x : Nat) :
    stOf D (c :: l) x = if lo D c ≤ x ∧ x < hi D c then Tri.ofFlag c.full else stOf D l x := by
  simp [stOf, covers]

end Hpx.Bmoc
