/-
C14 — external edges, part 2 (parts level): the neighbour relation commutes with the refinement of the grid.

* `nbAt_half`: one level (`n` ↔ `2n`), `nbAt_anc`: `k` levels (`n` ↔ `n·2^k`): the neighbour of the ancestor is the
  ancestor of the neighbour (`nbAt n b (X / 2^k) (Y / 2^k) = (nbAt (n·2^k) b X Y).map (anc k)`), holes included;
* `coarsen_dir`: in terms of directions: the block (the ancestor `k` levels up) of the neighbour of a fine cell `P` in
  direction `g` is the neighbour of the block of `P` in the direction of the block border crossed;
* `facing_sound` / `facing_complete` (the geometric fact behind the external edge): if `p` is the neighbour of `q` in
  direction `f`, the descendants of `q` (`k` levels down) having a neighbour among the descendants of `p` are exactly those
  lying on the side (ordinal `f`) / at the corner (cardinal `f`) `f` of `q` (`OnSide`).
-/
import HpxVerif.Lemmas.EdgeExternal

namespace Hpx.EdgeExternal
open Hpx Hpx.Topo Hpx.TopoSpec Hpx.TopoNeigh Hpx.TopoLift MW

/-- the parent cell, one level up -/
def half (P : HashParts) : HashParts := ⟨P.d0h, P.i / 2, P.j / 2⟩

/-- the ancestor `k` levels up -/
def anc (k : Nat) (P : HashParts) : HashParts := ⟨P.d0h, P.i / 2 ^ k, P.j / 2 ^ k⟩

theorem zone_half (n : Nat) (X : Int) : zone n (X / 2) = zone (2 * n) X := by
  unfold zone
  push_cast
  split <;> split <;> omega

set_option maxHeartbeats 400000 in
set_option linter.unusedSimpArgs false in
theorem nbZ_half (n b : Nat) (zi zj X Y : Int) (hb : b < 12) (hn : 1 ≤ n) (hn2 : 2 * n ≤ 4294967296)
    (hx : (X = -1 ∧ zi = -1) ∨ (0 ≤ X ∧ X < 2 * n ∧ zi = 0) ∨ (X = 2 * n ∧ zi = 1))
    (hy : (Y = -1 ∧ zj = -1) ∨ (0 ≤ Y ∧ Y < 2 * n ∧ zj = 0) ∨ (Y = 2 * n ∧ zj = 1)) :
    nbZ n b zi zj (X / 2) (Y / 2) = (nbZ (2 * n) b zi zj X Y).map half := by
  rcases hx with ⟨h1, e1⟩ | ⟨h1, h2, e1⟩ | ⟨h1, e1⟩ <;>
  rcases hy with ⟨h3, e2⟩ | ⟨h3, h4, e2⟩ | ⟨h3, e2⟩ <;>
  subst e1 e2 <;>
  refine b12 (P := fun b => nbZ n b _ _ (X / 2) (Y / 2) = (nbZ (2 * n) b _ _ X Y).map half) b hb
    ?_ ?_ ?_ ?_ ?_ ?_ ?_ ?_ ?_ ?_ ?_ ?_ <;>
  simp only [nbZ, ofOffsets, ofIndex, seamRule, ncpRule, eqrRule, spcRule, baseCell, next, prev, oppo, Src.eval] <;>
  simp [half] <;> omega

/-- **one level of refinement**: the neighbour of the parent is the parent of the neighbour (no neighbour for the parent
    iff no neighbour for the child), for shifted coordinates `−1 ≤ X, Y ≤ 2n` -/
theorem nbAt_half (n b : Nat) (X Y : Int) (hb : b < 12) (hn : 1 ≤ n) (hn2 : 2 * n ≤ 4294967296)
    (hx1 : -1 ≤ X) (hx2 : X ≤ 2 * n) (hy1 : -1 ≤ Y) (hy2 : Y ≤ 2 * n) :
    nbAt n b (X / 2) (Y / 2) = (nbAt (2 * n) b X Y).map half := by
  unfold nbAt
  rw [zone_half, zone_half]
  apply nbZ_half n b _ _ X Y hb hn hn2
  · rcases zone_cases (2 * n) X with ⟨h1, hz⟩ | ⟨h1, h2, hz⟩ | ⟨h1, h2, hz⟩
    · exact Or.inl ⟨by omega, hz⟩
    · exact Or.inr (Or.inl ⟨h1, by omega, hz⟩)
    · exact Or.inr (Or.inr ⟨by omega, hz⟩)
  · rcases zone_cases (2 * n) Y with ⟨h1, hz⟩ | ⟨h1, h2, hz⟩ | ⟨h1, h2, hz⟩
    · exact Or.inl ⟨by omega, hz⟩
    · exact Or.inr (Or.inl ⟨h1, by omega, hz⟩)
    · exact Or.inr (Or.inr ⟨by omega, hz⟩)

theorem anc_zero (P : HashParts) : anc 0 P = P := by
  obtain ⟨b, i, j⟩ := P
  simp [anc]

theorem anc_succ (k : Nat) (P : HashParts) : anc (k + 1) P = anc k (half P) := by
  simp only [anc, half, Nat.div_div_eq_div_mul, Nat.pow_succ, Nat.mul_comm]

/-- **`k` levels of refinement**: `nbAt n b (X / 2^k) (Y / 2^k) = (nbAt (n·2^k) b X Y).map (anc k)` -/
theorem nbAt_anc (n b : Nat) (hb : b < 12) (hn : 1 ≤ n) : ∀ (k M : Nat) (X Y : Int), M = n * 2 ^ k → M ≤ 4294967296 →
    -1 ≤ X → X ≤ M → -1 ≤ Y → Y ≤ M → nbAt n b (X / 2 ^ k) (Y / 2 ^ k) = (nbAt M b X Y).map (anc k) := by
  intro k
  induction k with
  | zero =>
    intro M X Y hM _ _ _ _ _
    have : M = n := by simpa using hM
    subst this
    simp only [Int.pow_zero, Int.ediv_one]
    cases nbAt M b X Y with
    | none => rfl
    | some Q => simp [anc_zero]
  | succ k ih =>
    intro M X Y hM hM2 hx1 hx2 hy1 hy2
    have e : M = 2 * (n * 2 ^ k) := by rw [hM, Nat.pow_succ, ← Nat.mul_assoc, Nat.mul_comm]
    have hpos : 1 ≤ n * 2 ^ k := Nat.mul_pos hn (Nat.two_pow_pos k)
    have h1 := nbAt_half (n * 2 ^ k) b X Y hb hpos (by omega) hx1 (by omega) hy1 (by omega)
    have h2 := ih (n * 2 ^ k) (X / 2) (Y / 2) rfl (by omega) (by omega) (by omega) (by omega) (by omega)
    have e3 : ∀ Z : Int, Z / 2 ^ (k + 1) = Z / 2 / 2 ^ k := by
      intro Z
      rw [Int.ediv_ediv_of_nonneg (by decide), Int.pow_succ, Int.mul_comm]
    rw [e3, e3, h2, h1, ← e, Option.map_map]
    congr 1
    funext P
    exact (anc_succ k P).symm

/-! ## the direction of the block border crossed -/

/-- moving by `e ∈ {−1, 0, 1}` changes the quotient by `N` by `−1` (from the first position of a block), `+1` (from the
    last position) or not at all -/
theorem shift_div (N : Int) (hN : 0 < N) (a e : Int) (he1 : -1 ≤ e) (he2 : e ≤ 1) :
    (a % N + e < 0 ∧ (a + e) / N = a / N - 1) ∨ (0 ≤ a % N + e ∧ a % N + e < N ∧ (a + e) / N = a / N) ∨
      (N ≤ a % N + e ∧ (a + e) / N = a / N + 1) := by
  have h0 := Int.emod_nonneg a (Int.ne_of_gt hN)
  have h1 := Int.emod_lt_of_pos a hN
  have h2 := Int.emod_add_mul_ediv a N
  by_cases c1 : a % N + e < 0
  · left
    refine ⟨c1, ?_⟩
    have := (Int.ediv_emod_unique (a := a + e) (r := N - 1) (q := a / N - 1) hN).2
      ⟨by rw [Int.mul_sub, Int.mul_one]; omega, by omega, by omega⟩
    exact this.1
  · by_cases c2 : a % N + e < N
    · right; left
      refine ⟨by omega, c2, ?_⟩
      have := (Int.ediv_emod_unique (a := a + e) (r := a % N + e) (q := a / N) hN).2 ⟨by omega, by omega, c2⟩
      exact this.1
    · right; right
      refine ⟨by omega, ?_⟩
      have := (Int.ediv_emod_unique (a := a + e) (r := 0) (q := a / N + 1) hN).2
        ⟨by rw [Int.mul_add, Int.mul_one]; omega, by omega, hN⟩
      exact this.1

/-- the sub-cell `(x, y)` of a block of side `N` lies on the side (ordinal `f`) / at the corner (cardinal `f`) `f` of
    the block: `SE`: `y = 0`, `SW`: `x = 0`, `NE`: `x = N − 1`, `NW`: `y = N − 1`; `S`: `(0, 0)`, `E`: `(N−1, 0)`,
    `W`: `(0, N−1)`, `N`: `(N−1, N−1)` -/
def OnSide (N : Nat) (f : MW) (x y : Nat) : Prop :=
  (f.offsetSe = -1 → x = 0) ∧ (f.offsetSe = 1 → x + 1 = N) ∧ (f.offsetSw = -1 → y = 0) ∧ (f.offsetSw = 1 → y + 1 = N)

instance (N : Nat) (f : MW) (x y : Nat) : Decidable (OnSide N f x y) := by unfold OnSide; infer_instance

theorem anc_valid (n k : Nat) (P : HashParts) (hP : Valid (n * 2 ^ k) P) : Valid n (anc k P) := by
  obtain ⟨hb, hi, hj⟩ := hP
  have hpos := Nat.two_pow_pos k
  exact ⟨hb, (Nat.div_lt_iff_lt_mul hpos).2 hi, (Nat.div_lt_iff_lt_mul hpos).2 hj⟩

/-- **`coarsen_dir`**: the block of the neighbour of `P` in direction `g` is the neighbour of the block of `P` in the
    direction `G` of the block border crossed (`G = C` when no border is crossed) -/
theorem coarsen_dir (n k : Nat) (P Q : HashParts) (g : MW) (hn : 1 ≤ n) (hn2 : n * 2 ^ k ≤ 4294967296)
    (hP : Valid (n * 2 ^ k) P) (h : neighbourParts (n * 2 ^ k) P g = some Q) :
    ∃ G, neighbourParts n (anc k P) G = some (anc k Q) ∧
      G.offsetSe = ((P.i : Int) + g.offsetSe) / 2 ^ k - (P.i : Int) / 2 ^ k ∧
      G.offsetSw = ((P.j : Int) + g.offsetSw) / 2 ^ k - (P.j : Int) / 2 ^ k := by
  obtain ⟨hb, hi, hj⟩ := hP
  obtain ⟨o1, o2, o3, o4⟩ := offsets_range g
  have hN : (0 : Int) < 2 ^ k := Int.pow_pos (by decide)
  rw [neighbourParts_eq_nbAt] at h
  have hc := nbAt_anc n P.d0h hb hn k (n * 2 ^ k) (P.i + g.offsetSe) (P.j + g.offsetSw) rfl hn2 (by omega) (by omega)
    (by omega) (by omega)
  rw [h, Option.map_some] at hc
  have r1 : -1 ≤ ((P.i : Int) + g.offsetSe) / 2 ^ k - (P.i : Int) / 2 ^ k ∧
      ((P.i : Int) + g.offsetSe) / 2 ^ k - (P.i : Int) / 2 ^ k ≤ 1 := by
    rcases shift_div (2 ^ k) hN P.i g.offsetSe o1 o2 with ⟨_, e⟩ | ⟨_, _, e⟩ | ⟨_, e⟩ <;> omega
  have r2 : -1 ≤ ((P.j : Int) + g.offsetSw) / 2 ^ k - (P.j : Int) / 2 ^ k ∧
      ((P.j : Int) + g.offsetSw) / 2 ^ k - (P.j : Int) / 2 ^ k ≤ 1 := by
    rcases shift_div (2 ^ k) hN P.j g.offsetSw o3 o4 with ⟨_, e⟩ | ⟨_, _, e⟩ | ⟨_, e⟩ <;> omega
  obtain ⟨G, e1, e2⟩ := dir_of_offsets _ _ r1.1 r1.2 r2.1 r2.2
  refine ⟨G, ?_, e1, e2⟩
  have c1 : ((2 ^ k : Nat) : Int) = 2 ^ k := by rw [Int.natCast_pow]; rfl
  rw [neighbourParts_eq_nbAt, e1, e2, ← hc]
  simp only [anc, Int.natCast_ediv, c1]
  congr 1 <;> omega

/-- position of a cell in its block -/
theorem natMod_cast (a k : Nat) : ((a % 2 ^ k : Nat) : Int) = (a : Int) % 2 ^ k := by
  rw [Int.natCast_emod, Int.natCast_pow]; rfl

/-- **soundness of the facing side**: if `p` is the neighbour of `q` in direction `f` (grid `n`) and the cell `Q` of the
    grid `n·2^k` is a descendant of `q` lying on the side / corner `f` of `q`, then `Q` has a neighbour in direction `f`,
    and it is a descendant of `p` -/
theorem facing_sound (n k : Nat) (p q Q : HashParts) (f : MW) (hn : 1 ≤ n) (hn2 : n * 2 ^ k ≤ 4294967296)
    (hQ : Valid (n * 2 ^ k) Q) (hq : anc k Q = q) (hf : neighbourParts n q f = some p)
    (hs : OnSide (2 ^ k) f (Q.i % 2 ^ k) (Q.j % 2 ^ k)) :
    ∃ P, neighbourParts (n * 2 ^ k) Q f = some P ∧ anc k P = p := by
  obtain ⟨hb, hi, hj⟩ := hQ
  obtain ⟨o1, o2, o3, o4⟩ := offsets_range f
  obtain ⟨s1, s2, s3, s4⟩ := hs
  have hN : (0 : Int) < 2 ^ k := Int.pow_pos (by decide)
  have hNn : (0 : Nat) < 2 ^ k := Nat.two_pow_pos k
  have hc := nbAt_anc n Q.d0h hb hn k (n * 2 ^ k) (Q.i + f.offsetSe) (Q.j + f.offsetSw) rfl hn2 (by omega) (by omega)
    (by omega) (by omega)
  have m1 := natMod_cast Q.i k
  have m2 := natMod_cast Q.j k
  have l1 := Nat.mod_lt Q.i hNn
  have l2 := Nat.mod_lt Q.j hNn
  have c1 : ((2 ^ k : Nat) : Int) = 2 ^ k := by rw [Int.natCast_pow]; rfl
  have e1 : ((Q.i : Int) + f.offsetSe) / 2 ^ k = ((Q.i / 2 ^ k : Nat) : Int) + f.offsetSe := by
    rw [Int.natCast_ediv, c1]
    rcases shift_div (2 ^ k) hN Q.i f.offsetSe o1 o2 with ⟨a, e⟩ | ⟨a, a', e⟩ | ⟨a, e⟩
    · have : f.offsetSe = -1 := by omega
      omega
    · have : f.offsetSe = 0 := by
        rcases (by omega : f.offsetSe = -1 ∨ f.offsetSe = 0 ∨ f.offsetSe = 1) with h | h | h
        · have := s1 h; omega
        · exact h
        · have := s2 h; omega
      omega
    · have : f.offsetSe = 1 := by omega
      omega
  have e2 : ((Q.j : Int) + f.offsetSw) / 2 ^ k = ((Q.j / 2 ^ k : Nat) : Int) + f.offsetSw := by
    rw [Int.natCast_ediv, c1]
    rcases shift_div (2 ^ k) hN Q.j f.offsetSw o3 o4 with ⟨a, e⟩ | ⟨a, a', e⟩ | ⟨a, e⟩
    · have : f.offsetSw = -1 := by omega
      omega
    · have : f.offsetSw = 0 := by
        rcases (by omega : f.offsetSw = -1 ∨ f.offsetSw = 0 ∨ f.offsetSw = 1) with h | h | h
        · have := s3 h; omega
        · exact h
        · have := s4 h; omega
      omega
    · have : f.offsetSw = 1 := by omega
      omega
  rw [e1, e2] at hc
  have hf' : nbAt n Q.d0h (((Q.i / 2 ^ k : Nat) : Int) + f.offsetSe) (((Q.j / 2 ^ k : Nat) : Int) + f.offsetSw) = some p := by
    rw [← hf, ← hq, neighbourParts_eq_nbAt]; rfl
  rw [hf'] at hc
  rw [neighbourParts_eq_nbAt]
  cases hP : nbAt (n * 2 ^ k) Q.d0h (Q.i + f.offsetSe) (Q.j + f.offsetSw) with
  | none => rw [hP] at hc; simp at hc
  | some P =>
    rw [hP, Option.map_some] at hc
    exact ⟨P, rfl, (Option.some.inj hc).symm⟩

/-- **completeness of the facing side**: if a descendant `P` of `p` (grid `n·2^k`) has a neighbour `Q` that is not a
    descendant of `p`, then the block `q` of `Q` is the neighbour of `p` in a direction `G ≠ C`, and `Q` lies on the
    side / corner `f` of `q` for the direction `f` from which `q` sees `p` -/
theorem facing_complete (n k : Nat) (p P Q : HashParts) (g : MW) (hn : 1 ≤ n) (hn2 : n * 2 ^ k ≤ 4294967296)
    (hP : Valid (n * 2 ^ k) P) (hp : anc k P = p) (h : neighbourParts (n * 2 ^ k) P g = some Q) (hne : anc k Q ≠ p) :
    (∃ G, G ≠ C ∧ neighbourParts n p G = some (anc k Q)) ∧
    ∀ f, neighbourParts n (anc k Q) f = some p → OnSide (2 ^ k) f (Q.i % 2 ^ k) (Q.j % 2 ^ k) := by
  have hM : 1 ≤ n * 2 ^ k := Nat.mul_pos hn (Nat.two_pow_pos k)
  have hpv : Valid n p := hp ▸ anc_valid n k P hP
  have hQ := neighbourParts_valid _ P Q g hM hn2 hP h
  have hqv : Valid n (anc k Q) := anc_valid n k Q hQ
  obtain ⟨G, hG, _, _⟩ := coarsen_dir n k P Q g hn hn2 hP h
  rw [hp] at hG
  have hGC : G ≠ C := by
    rintro rfl
    rw [neighbourParts_C n p hpv] at hG
    exact hne (Option.some.inj hG).symm
  refine ⟨⟨G, hGC, hG⟩, ?_⟩
  intro f hf
  have hg : g ≠ C := by
    rintro rfl
    rw [neighbourParts_C _ P hP] at h
    cases h
    exact hne hp
  obtain ⟨gr, _, hgr⟩ := neighbourParts_symmetric _ P Q g hM hn2 hP hg h
  obtain ⟨Gr, hGr, e1, e2⟩ := coarsen_dir n k Q P gr hn hn2 hQ hgr
  rw [hp] at hGr
  have : Gr = f := neighbours_distinct n (anc k Q) p Gr f hn (Nat.le_trans (Nat.le_mul_of_pos_right n (Nat.two_pow_pos k)) hn2)
    hqv hGr hf
  subst this
  obtain ⟨o1, o2, o3, o4⟩ := offsets_range gr
  have hN : (0 : Int) < 2 ^ k := Int.pow_pos (by decide)
  have hNn : (0 : Nat) < 2 ^ k := Nat.two_pow_pos k
  have m1 := natMod_cast Q.i k
  have m2 := natMod_cast Q.j k
  have l1 := Nat.mod_lt Q.i hNn
  have l2 := Nat.mod_lt Q.j hNn
  have c1 : ((2 ^ k : Nat) : Int) = 2 ^ k := by rw [Int.natCast_pow]; rfl
  refine ⟨?_, ?_, ?_, ?_⟩
  · intro hs
    rcases shift_div (2 ^ k) hN Q.i gr.offsetSe o1 o2 with ⟨a, e⟩ | ⟨a, a', e⟩ | ⟨a, e⟩ <;> omega
  · intro hs
    rcases shift_div (2 ^ k) hN Q.i gr.offsetSe o1 o2 with ⟨a, e⟩ | ⟨a, a', e⟩ | ⟨a, e⟩ <;> omega
  · intro hs
    rcases shift_div (2 ^ k) hN Q.j gr.offsetSw o3 o4 with ⟨a, e⟩ | ⟨a, a', e⟩ | ⟨a, e⟩ <;> omega
  · intro hs
    rcases shift_div (2 ^ k) hN Q.j gr.offsetSw o3 o4 with ⟨a, e⟩ | ⟨a, a', e⟩ | ⟨a, e⟩ <;> omega

/-- concrete instance (`n = 2`, `k = 1`): the sub-cells of `q = (1, 1, 1)` facing `p = (2, 0, 1)` (seen in direction `E`)
    are the single corner sub-cell `(3, 2)`, whose `E` neighbour `(2, 1, 3)` is a descendant of `p` -/
example : neighbourParts 2 ⟨1, 1, 1⟩ E = some ⟨2, 0, 1⟩ ∧ OnSide 2 E (3 % 2) (2 % 2) ∧
    neighbourParts 4 ⟨1, 3, 2⟩ E = some ⟨2, 1, 3⟩ ∧ anc 1 ⟨2, 1, 3⟩ = ⟨2, 0, 1⟩ := by decide

end Hpx.EdgeExternal

#print axioms Hpx.EdgeExternal.nbAt_anc
#print axioms Hpx.EdgeExternal.coarsen_dir
#print axioms Hpx.EdgeExternal.facing_sound
#print axioms Hpx.EdgeExternal.facing_complete
