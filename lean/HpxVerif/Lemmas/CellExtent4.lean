import HpxVerif.Lemmas.CellExtent3

/-!
# The cone descent on the strictly equatorial cells, every starting depth (part 4)

`CellExtent3.H1_equatorial` needs `ds ≥ 2`: at depth 1 the value of `largest_center_to_vertex_distance_with_radius` does
NOT bound the extent of every equatorial cell for every cone (`EnvelopeReal5.c2v_not_uniform_depth1`: the cells centred
on the equator have `dE = π/8 = 0.3927`, while the value tends to `dMax2(1/2) = 0.3899` when the latitude band of the cone
lies above `lsc` and approaches the transition latitude from below; but such a cone does not meet those cells).  The no-miss argument only uses `H1` for the
cells that contain a point of the cone: with `inCell d h q := InCellEq d h q ∧ q ∈ cone` the hypothesis holds at every
depth `0 … 29`:

* `inCellEq_extent`: every depth `≤ 29`: every position of a strictly equatorial cell is within `max(dN, dS, dE)` of
  `center`;
* `arcsin_third_lt_lsc`, `dE_half_half_le`, `cellCy_depth1`, `depth1_dE_le`: the facts needed at depth 1;
* **`H1_equatorial_cone`**: `H1` for `inCell d h q := InCellEq d h q ∧ adist (lon, lat) q ≤ r`, every `ds ≤ target ≤ 29`;
* **`cone_no_miss_equatorial_gen`**: the no-miss theorem without any geometric hypothesis for every starting depth.
-/

namespace Hpx.CellExtent
open Hpx Hpx.Hash Hpx.C2V Hpx.C2VReal Hpx.Proj Hpx.Cover Hpx.CellReal Hpx.EnvelopeReal Hpx.TopoLift Real

/-! ## the extent of a cell, every depth `≤ 29` -/

/-- **`inCellEq_extent`**: every position `q` of a strictly equatorial cell `(d, h)` (any depth `0 … 29`) is within
    `max(dN, dS, dE)` (at `δ = 1/2^d`, `y = cellCy`) of the position returned by `center(d, h)` -/
theorem inCellEq_extent (cfg : Cfg) (d h : ℕ) (c q : ℝ × ℝ) (hc : center (α := ℝ) cfg d h = some c)
    (hq : InCellEq d h q) :
    adist c q ≤ max (dN (1 / 2 ^ d) (cellCy d (partsOf d h).d0h (partsOf d h).i (partsOf d h).j))
      (max (dS (1 / 2 ^ d) (cellCy d (partsOf d h).d0h (partsOf d h).i (partsOf d h).j))
        (dE (1 / 2 ^ d) (cellCy d (partsOf d h).d0h (partsOf d h).i (partsOf d h).j))) := by
  obtain ⟨hd29, hh, hband, x', y', m, hin, rfl⟩ := hq
  obtain ⟨hb, hi, hj⟩ := partsOf_valid d h hh
  obtain ⟨hδ0, hδ1⟩ := distCw_range d
  have hy := cellCy_band d _ _ _ hband
  obtain ⟨mc, hc'⟩ := center_lonlat cfg d h (partsOf d h).d0h (partsOf d h).i (partsOf d h).j
    (by rw [nHash_eq]; exact hh) (decodeHash_spec cfg d hd29 h hh) hb hi hj hband.le
  rw [hc] at hc'
  rw [Option.some.inj hc']
  unfold InDiamond at hin
  set cx := cellCx d (partsOf d h).d0h (partsOf d h).i (partsOf d h).j with hcx
  set cy := cellCy d (partsOf d h).d0h (partsOf d h).i (partsOf d h).j with hcy
  have h := eqr_extent_lonlat (cx * (π / 4) + 2 * π * mc) (x' * (π / 4) + 2 * π * m) cy
    (1 / 2 ^ d) (cx - x') (y' - cy) (mc - m) hδ0 hδ1 hy
    (by rw [abs_sub_comm cx x']; exact hin) (by push_cast; ring)
  rw [show cy + (y' - cy) = y' by ring] at h
  exact h

/-! ## the list of distances, any starting depth -/

/-- the value of `largest_center_to_vertex_distance_with_radius` at depth `d ≤ 29` (release profile) -/
noncomputable def valR (d : ℕ) (lon lat r : ℝ) : ℝ := if d = 0 then π / 2 - tl else c2vR (Csts.new d) lon lat r

theorem valR_spec (d : ℕ) (hd : d ≤ 29) (lon lat r : ℝ) :
    largestC2VWithRadius false d lon lat r = some (valR d lon lat r) := by
  rw [c2v_with_radius_region_choice]
  unfold valR
  by_cases h0 : d = 0
  · rw [if_pos h0, if_pos h0]
  · rw [if_neg h0, if_neg h0, if_neg (by omega)]

theorem dists_getElem_gen (ds target : ℕ) (hdt : ds ≤ target) (ht : target ≤ 29) (lon lat r : ℝ) (dists : List ℝ)
    (hdists : largestC2VsWithRadius false ds (target + 1) lon lat r = some dists) (d : ℕ) (hd : ds ≤ d) (D : ℝ)
    (hD : dists[d - ds]? = some D) : d ≤ target ∧ D = valR d lon lat r := by
  rw [c2vs_with_radius_agree, depthsOf_eq_range' ds _ (by omega)] at hdists
  have hall : ∀ d' ∈ List.range' ds (target + 1 - ds),
      largestC2VWithRadius false d' lon lat r = some (valR d' lon lat r) := by
    intro d' hd'
    rw [List.mem_range'_1] at hd'
    exact valR_spec d' (by omega) lon lat r
  rw [mapM_congr' _ _ _ hall, mapM_some_eq] at hdists
  have hl := Option.some.inj hdists
  rw [← hl, List.getElem?_map] at hD
  cases hr : (List.range' ds (target + 1 - ds))[d - ds]? with
  | none => rw [hr] at hD; simp at hD
  | some a =>
    rw [hr] at hD
    simp only [Option.map_some, Option.some.injEq] at hD
    obtain ⟨hlt, ha⟩ := List.getElem?_eq_some_iff.mp hr
    rw [List.length_range'] at hlt
    rw [List.getElem_range'] at ha
    have : a = d := by omega
    subst this
    exact ⟨by omega, hD.symm⟩

theorem valR_nonneg (d : ℕ) (lon lat r : ℝ) (hA : |lat| + r < tl) : 0 ≤ valR d lon lat r := by
  unfold valR
  split_ifs with h0
  · have := tl_le
    have := Real.pi_gt_three
    linarith
  · obtain ⟨hδ0, hδ1⟩ := distCw_range d
    have h1 := c2vR_ge_dMax2 d lon lat r hA
    have h2 : 0 ≤ dMax2 (1 / 2 ^ d) := by rw [dMax2_eq_dN]; exact dN_nonneg _ _ hδ0.le
    linarith

theorem dists_nonneg_gen (ds target : ℕ) (hdt : ds ≤ target) (ht : target ≤ 29) (lon lat r : ℝ)
    (hA : |lat| + r < tl) (dists : List ℝ)
    (hdists : largestC2VsWithRadius false ds (target + 1) lon lat r = some dists) : ∀ D ∈ dists, 0 ≤ D := by
  intro D hD
  obtain ⟨k, hk⟩ := List.mem_iff_getElem?.mp hD
  obtain ⟨_, rfl⟩ := dists_getElem_gen ds target hdt ht lon lat r dists hdists (ds + k) (by omega) D
    (by rw [show ds + k - ds = k by omega]; exact hk)
  exact valR_nonneg _ lon lat r hA

/-! ## depth 1 -/

/-- `arcsin(1/3) < LAT_OF_SQUARE_CELL` (`sin²(lsc) = 1 − 8/(3π) > 1/9` because `π > 3`): the depth-1 cells centred on the
    equator (latitudes up to `arcsin(1/3)`) lie below `lsc` -/
theorem arcsin_third_lt_lsc : Real.arcsin (1 / 3) < lsc := by
  have hpi := Real.pi_gt_three
  have h0 := lsc_pos
  have h1 := lsc_lt_tl
  have h2 := tl_le_pi3
  rw [Real.arcsin_lt_iff_lt_sin ⟨by norm_num, by norm_num⟩ ⟨by linarith, by linarith⟩]
  have hs0 : 0 < sin lsc := Real.sin_pos_of_pos_of_lt_pi h0 (by linarith)
  have hsq : sin lsc ^ 2 = 1 - 8 / (3 * π) := by
    rw [Real.sin_sq, cos_lsc, sq, cosLsc_sq]
  have h89 : 8 / (3 * π) < 8 / 9 := by
    rw [div_lt_div_iff₀ (by positivity) (by norm_num)]; linarith
  nlinarith

/-- `dE(1/2, 1/2) ≤ dMax2(1/2)`: `√(8/9)·π/8 ≤ 0.3713 ≤ 0.3837` -/
theorem dE_half_half_le : dE (1 / 2) (1 / 2) ≤ dMax2 (1 / 2) := by
  have hpi := Real.pi_lt_d2
  have hpi0 := Real.pi_pos
  have h1 := dE_le (1 / 2) (1 / 2) (by norm_num) (by norm_num)
  have h2 := dMax2_half_ge
  have hc : cos (latOf (1 / 2)) ≤ 9429 / 10000 := by
    unfold latOf
    rw [Real.cos_arcsin, Real.sqrt_le_left (by norm_num)]
    norm_num
  have h3 : cos (latOf (1 / 2)) * (1 / 2 * (π / 4)) ≤ 9429 / 10000 * (1 / 2 * (π / 4)) :=
    mul_le_mul_of_nonneg_right hc (by positivity)
  nlinarith

/-- the ordinate of the centre of a strictly equatorial cell of depth 1 -/
theorem cellCy_depth1 (b i j : ℕ) (hb : b < 12) (hi : i < 2 ^ 1) (hj : j < 2 ^ 1) (h : |cellCy 1 b i j| < 1) :
    cellCy 1 b i j = 0 ∨ cellCy 1 b i j = 1 / 2 ∨ cellCy 1 b i j = -(1 / 2) := by
  have hi' : i < 2 := by simpa using hi
  have hj' : j < 2 := by simpa using hj
  rw [abs_lt] at h
  revert h
  interval_cases b <;> interval_cases i <;> interval_cases j <;> unfold cellCy baseY <;> norm_num

/-- depth 1: `dE` of a strictly equatorial cell that contains a position of latitude `≥ |lat| − r` in absolute value (a
    position of the cone) is below the value with radius -/
theorem depth1_dE_le (lon lat r y y' : ℝ) (hA : |lat| + r < tl) (hy : y = 0 ∨ y = 1 / 2 ∨ y = -(1 / 2))
    (hyy : |y' - y| ≤ 1 / 2) (hq : |lat| - r ≤ |latOf y'|) : dE (1 / 2) y ≤ c2vR (Csts.new 1) lon lat r := by
  by_cases hB : |lat| - r < lsc
  · have h1 := c2vR_ge_dMin2 1 lon lat r hA hB
    rw [pow_one_half] at h1
    exact (dE_le_dMin2 _ y (by norm_num) (by norm_num)).trans h1
  · have hl : lsc ≤ latOf |y'| := by rw [← abs_latOf]; linarith
    have h1 := c2vR_ge_dMax2 1 lon lat r hA
    rw [pow_one_half] at h1
    rcases hy with rfl | rfl | rfl
    · exfalso
      rw [sub_zero] at hyy
      have : latOf |y'| ≤ Real.arcsin (1 / 3) := by
        unfold latOf; exact Real.arcsin_le_arcsin (by linarith)
      have := arcsin_third_lt_lsc
      linarith
    · exact dE_half_half_le.trans h1
    · rw [dE_neg]; exact dE_half_half_le.trans h1

/-! ## `H1` for the cells that meet the cone, every depth -/

theorem pow_zero_one : (1 : ℝ) / 2 ^ 0 = 1 := by norm_num

/-- **`H1_equatorial_cone`**: the envelope hypothesis `H1` of `Cover.cone_scheme_no_miss` with
    `inCell d h q := InCellEq d h q ∧ adist (lon, lat) q ≤ r` (positions of strictly equatorial cells that are in the cone)
    and `dists` the list computed by `largest_center_to_vertex_distances_with_radius(ds, target + 1, lon, lat, r)`
    (release profile), for every cone with `|lat| + r < tl` and every `ds ≤ target ≤ 29` (depths 0 and 1 included). -/
theorem H1_equatorial_cone (cfg : Cfg) (lon lat r : ℝ) (hA : |lat| + r < tl) (ds target : ℕ) (hdt : ds ≤ target)
    (ht : target ≤ 29) (dists : List ℝ)
    (hdists : largestC2VsWithRadius false ds (target + 1) lon lat r = some dists) :
    ∀ d h c D q, ds ≤ d → Hash.center (α := ℝ) cfg d h = some c → dists[d - ds]? = some D →
      (InCellEq d h q ∧ adist (lon, lat) q ≤ r) → adist c q ≤ D := by
  intro d h c D q hd hc hD ⟨hq, hcone⟩
  obtain ⟨_, rfl⟩ := dists_getElem_gen ds target hdt ht lon lat r dists hdists d hd D hD
  have hext := inCellEq_extent cfg d h c q hc hq
  obtain ⟨hd29, hh, hband, x', y', m, hin, rfl⟩ := hq
  obtain ⟨hb, hi, hj⟩ := partsOf_valid d h hh
  have hy := cellCy_band d _ _ _ hband
  set cy := cellCy d (partsOf d h).d0h (partsOf d h).i (partsOf d h).j with hcy
  refine hext.trans ?_
  unfold valR
  rcases Nat.lt_or_ge d 2 with hd2 | hd2
  · rcases Nat.eq_zero_or_pos d with h0 | h0
    · -- depth 0
      subst h0
      rw [if_pos rfl]
      rw [pow_zero_one] at hy ⊢
      have : cy = 0 := by
        have := abs_nonneg cy
        exact abs_eq_zero.mp (by linarith)
      rw [this]
      exact base_cell_extent
    · -- depth 1
      have hd1 : d = 1 := by omega
      subst hd1
      rw [if_neg (by omega)]
      obtain ⟨hN, hS⟩ := dN_dS_le_dMax2 _ cy (by positivity) hy
      have h1 := c2vR_ge_dMax2 1 lon lat r hA
      refine max_le (hN.trans h1) (max_le (hS.trans h1) ?_)
      rw [pow_one_half]
      have hr0 : 0 ≤ r := (adist_nonneg _ _).trans hcone
      have hlat : |lat| ≤ π / 2 := by
        have := tl_le_pi3
        have := Real.pi_pos
        linarith
      have hdiff := adist_ge_lat_diff lon (x' * (π / 4) + 2 * π * m) lat (latOf y') hlat (latOf_abs_le y')
      have hq' : |lat| - r ≤ |latOf y'| := by
        have := abs_sub_abs_le_abs_sub lat (latOf y')
        linarith
      unfold InDiamond at hin
      rw [pow_one_half] at hin
      exact depth1_dE_le lon lat r cy y' hA (cellCy_depth1 _ _ _ hb hi hj hband)
        (by linarith [abs_nonneg (x' - cellCx 1 (partsOf 1 h).d0h (partsOf 1 h).i (partsOf 1 h).j)]) hq'
  · rw [if_neg (by omega)]
    exact c2vR_dominates_eqr d hd2 lon lat r hA cy hy

/-- **`cone_no_miss_equatorial_gen`** (ℝ, release profile): `cone_no_miss_equatorial` for EVERY starting depth
    `ds ≤ target ≤ 29` (large cones: `ds = 0, 1`).  Cone `(lon, lat, r)` with `0 ≤ r`, `|lat| + r < tl`; `dists` the list of
    `largest_center_to_vertex_distances_with_radius(ds, target + 1, lon, lat, r)`.  If the descent of the model from a
    start cell `root` returns `out`, every position `q` of the cone that lies in `root`, a strictly equatorial cell, lies
    in a cell of `out`. -/
theorem cone_no_miss_equatorial_gen (cfg : Cfg) (lon lat r : ℝ) (hr : 0 ≤ r) (hA : |lat| + r < tl) (ds target : ℕ)
    (hdt : ds ≤ target) (ht : target ≤ 29) (dists : List ℝ)
    (hdists : largestC2VsWithRadius false ds (target + 1) lon lat r = some dists) (fuel root : ℕ)
    (out : List Bmoc.Cell)
    (h : coverRec target (coneClassifier (α := ℝ) cfg lon lat (Num.cos lat) (dists.map (toShsMinMax r))) fuel ds root 0
      = some out)
    (q : ℝ × ℝ) (hq : InCellEq ds root q) (hin : adist (lon, lat) q ≤ r) :
    ∃ c ∈ out, InCellEq c.depth c.hash q := by
  obtain ⟨c, hc, _, hcq, _⟩ := cone_scheme_no_miss cfg lon lat r hr dists
    (dists_nonneg_gen ds target hdt ht lon lat r hA dists hdists)
    (fun d h q => d ≤ target ∧ InCellEq d h q ∧ adist (lon, lat) q ≤ r) target ds
    (fun d h q hne ⟨hle, hq, hcone⟩ => by
      have hd1 : d + 1 ≤ target := by omega
      rcases inCellEq_children d h q (by omega) hq with h0 | h1 | h2 | h3
      · exact Or.inl ⟨hd1, h0, hcone⟩
      · exact Or.inr (Or.inl ⟨hd1, h1, hcone⟩)
      · exact Or.inr (Or.inr (Or.inl ⟨hd1, h2, hcone⟩))
      · exact Or.inr (Or.inr (Or.inr ⟨hd1, h3, hcone⟩)))
    (fun d h c D q hd hc hD ⟨_, hq⟩ =>
      H1_equatorial_cone cfg lon lat r hA ds target hdt ht dists hdists d h c D q hd hc hD hq)
    fuel root out h q ⟨hdt, hq, hin⟩ hin
  exact ⟨c, hc, hcq⟩

/-! ## examples -/

/-- depth 0: the four equatorial base cells are strictly equatorial (base cell 5: centre `(2, 0)`) -/
example : ∃ c, center (α := ℝ) {} 0 5 = some c ∧ InCellEq 0 5 c :=
  center_inCellEq {} 0 5 (by decide) (by decide) (by
    have e : partsOf 0 5 = ⟨5, 0, 0⟩ := by decide +kernel
    rw [e]; unfold cellCy baseY; norm_num)

/-- a large cone of the equatorial band: `lat = 0.1`, `r = 0.5`, `ds = 0` -/
example : (0 : ℝ) ≤ 1 / 2 ∧ |(1 / 10 : ℝ)| + 1 / 2 < tl := by
  have := tl_ge
  rw [abs_of_pos (by norm_num)]
  constructor <;> linarith

end Hpx.CellExtent

#print axioms Hpx.CellExtent.inCellEq_extent
#print axioms Hpx.CellExtent.arcsin_third_lt_lsc
#print axioms Hpx.CellExtent.H1_equatorial_cone
#print axioms Hpx.CellExtent.cone_no_miss_equatorial_gen
