import HpxVerif.Lemmas.Tightness2

/-!
# C06 (tightness clause), part 4 — `largest_center_to_vertex_distance` for NEGATIVE longitudes

For `lon < 0` the folded longitude `|π/4 − lon % (π/2)|` of the crate lies in `[π/4, 3π/4)` (finding F7: `%` is the
remainder of the truncated division), so the polar-cap line is evaluated up to three times beyond its nominal range.  Even
there the value stays below `2·Mtrue d` (ratio `0.941` at depth 1, `0.920` at depth 2, `→ 0.9028`): `envelope_le_twice_true`
holds for EVERY longitude.

* `fold_le_all`: `fold lon ≤ 3π/4` for every real `lon`;
* `cos_dMaxP_exact`: `cos(dMaxP δ) = 2/3·(1 − (1−δ)²/3) + cos tl·cos(capLat(1+δ))·cos(πδ/4)`;
* depth 1: `dMinP_half_ge` (`≥ 0.427`), `dMaxP_half_le` (`≤ 0.486`); depth 2: `dMaxP_quarter_le` (`≤ 0.2585`);
  depth `≥ 3`: `dMaxP_le_small` (`≤ 1.073·δ`), `dMinP_ge_small` (`≥ 0.873·δ`);
* `npcEnv_three_le`: `npcEnv (3π/4) ≤ 2·Mtrue d` for every depth `≥ 1`;
* **`envelope_le_twice_true_all`**: no hypothesis on the longitude.
-/

namespace Hpx.Tightness
open Hpx Hpx.Hash Hpx.Proj Hpx.Cover Hpx.C2V Hpx.C2VReal Hpx.EnvelopeReal Hpx.EnvelopePolar Hpx.CellReal Hpx.TopoLift
  Hpx.CellExtent Real

/-! ## the folded longitude of any real longitude -/

theorem fold_le_all (lon : ℝ) : fold lon ≤ 3 * π / 4 := by
  have hpi := Real.pi_pos
  rcases le_or_gt 0 lon with h | h
  · exact (fold_le lon h).trans (by linarith)
  · have hy : 0 < π / 2 := by positivity
    have hq : lon / (π / 2) < 0 := div_neg_of_neg_of_pos h hy
    unfold fold
    rw [r_rem, if_neg (not_le.mpr hq)]
    have hc1 := Int.le_ceil (lon / (π / 2))
    have hc2 := Int.ceil_lt_add_one (lon / (π / 2))
    rw [div_le_iff₀ hy] at hc1
    have hc3 : ((⌈lon / (π / 2)⌉ : ℝ) - 1) < lon / (π / 2) := by linarith
    rw [lt_div_iff₀ hy] at hc3
    rw [abs_le]
    constructor <;> nlinarith

/-! ## `cos(dMaxP)` exactly -/

theorem sin_tl : sin tl = 2 / 3 := Real.sin_arcsin (by norm_num) (by norm_num)

theorem cos_dMaxP_exact (δ : ℝ) (h0 : 0 ≤ δ) (h1 : δ ≤ 1) :
    cos (dMaxP δ) = 2 / 3 * (1 - (1 - δ) ^ 2 / 3) + cos tl * cos (capLat (1 + δ)) * cos (π / 4 * δ) := by
  unfold dMaxP
  rw [cos_gcDist, sin_tl, sin_capLat' (1 + δ) (by linarith) (by linarith)]
  ring

/-- `C0² = 5/81·s²·(6 − s²)`, `s = 1 − δ` -/
theorem C0_sq (δ : ℝ) (h0 : 0 ≤ δ) (h1 : δ ≤ 1) :
    (cos tl * cos (capLat (1 + δ))) ^ 2 = 5 / 81 * ((1 - δ) ^ 2 * (6 - (1 - δ) ^ 2)) := by
  rw [mul_pow, cos_sq_tl, cos_sq_capLat _ (by linarith) (by linarith)]
  ring

theorem C0_nonneg (δ : ℝ) (h0 : 0 ≤ δ) (h1 : δ ≤ 1) : 0 ≤ cos tl * cos (capLat (1 + δ)) :=
  mul_nonneg cos_tl_nonneg (cos_capLat_nonneg _ (by linarith) (by linarith))

theorem dMaxP_le_of_cos (δ T : ℝ) (hT0 : 0 ≤ T) (h : cos T ≤ cos (dMaxP δ)) : dMaxP δ ≤ T := by
  by_contra hcon
  rw [not_le] at hcon
  have := Real.cos_lt_cos_of_nonneg_of_le_pi hT0 (show dMaxP δ ≤ π from gcDist_le_pi _ _ _) hcon
  linarith

/-- `cos x ≤ 1 − x²/2 + x⁴·5/96` for `0 ≤ x ≤ 1` -/
theorem cos_le_quartic (x : ℝ) (h0 : 0 ≤ x) (h1 : x ≤ 1) : cos x ≤ 1 - x ^ 2 / 2 + x ^ 4 * (5 / 96) := by
  have hb := Real.cos_bound (x := x) (by rw [abs_of_nonneg h0]; exact h1)
  rw [abs_of_nonneg h0] at hb
  linarith [(abs_le.mp hb).2]

theorem pi_bounds : 31415 / 10000 < π ∧ π < 31416 / 10000 := by
  have h1 := Real.pi_gt_d4
  have h2 := Real.pi_lt_d4
  constructor <;> [skip; skip] <;> norm_num at h1 h2 ⊢ <;> linarith

/-! ## depth 1 (`δ = 1/2`) -/

/-- `dMaxP(1/2) ≤ 0.486` (`≈ 0.48146`) -/
theorem dMaxP_half_le : dMaxP (1 / 2) ≤ 486 / 1000 := by
  obtain ⟨hp1, hp2⟩ := pi_bounds
  apply dMaxP_le_of_cos _ _ (by norm_num)
  have hq := cos_le_quartic (486 / 1000) (by norm_num) (by norm_num)
  rw [cos_dMaxP_exact (1 / 2) (by norm_num) (by norm_num)]
  set C := cos tl * cos (capLat (1 + 1 / 2)) with hCdef
  have hC2 : C ^ 2 = 115 / 1296 := by rw [hCdef, C0_sq _ (by norm_num) (by norm_num)]; norm_num
  have hC0 : 0 ≤ C := C0_nonneg _ (by norm_num) (by norm_num)
  have hC : 29788 / 100000 ≤ C := by
    apply le_of_sq_le_sq _ hC0
    rw [hC2]; norm_num
  have hx := Real.one_sub_sq_div_two_le_cos (x := π / 4 * (1 / 2))
  have hx2 : (π / 4 * (1 / 2)) ^ 2 ≤ 15421329 / 100000000 := by
    have : π / 4 * (1 / 2) ≤ 3927 / 10000 := by linarith
    have h0 : 0 ≤ π / 4 * (1 / 2) := by positivity
    calc (π / 4 * (1 / 2)) ^ 2 ≤ (3927 / 10000) ^ 2 := pow_le_pow_left₀ h0 this 2
      _ = _ := by norm_num
  have hcx : 9228933 / 10000000 ≤ cos (π / 4 * (1 / 2)) := by linarith
  have hprod : 29788 / 100000 * (9228933 / 10000000) ≤ C * cos (π / 4 * (1 / 2)) :=
    mul_le_mul hC hcx (by norm_num) hC0
  norm_num at hq hprod ⊢
  linarith

/-- `dMinP(1/2) ≥ 0.427` (`≈ 0.42993`) -/
theorem dMinP_half_ge : 427 / 1000 ≤ dMinP (1 / 2) := by
  obtain ⟨hp1, hp2⟩ := pi_bounds
  have hn := dMinP_nonneg (1 / 2) (by norm_num)
  have hle := dMinP_le_lin (1 / 2) (by norm_num) (by norm_num)
  -- `sin(dMinP) = sin(capLat)·cos(tl) − cos(capLat)·sin(tl)`
  have hs : sin (dMinP (1 / 2)) = 11 / 12 * cos tl - cos (capLat (1 + 1 / 2)) * (2 / 3) := by
    unfold dMinP
    rw [sin_sub, sin_tl, sin_capLat' _ (by norm_num) (by norm_num)]
    norm_num
  have hc1 : 745355 / 1000000 ≤ cos tl := by
    apply le_of_sq_le_sq _ cos_tl_nonneg
    rw [cos_sq_tl]; norm_num
  have hc2 : cos (capLat (1 + 1 / 2)) ≤ 39966 / 100000 := by
    apply le_of_sq_le_sq _ (by norm_num)
    rw [cos_sq_capLat _ (by norm_num) (by norm_num)]; norm_num
  have hsin : 41680 / 100000 ≤ sin (dMinP (1 / 2)) := by rw [hs]; linarith
  have hb := Real.sin_bound (x := 427 / 1000) (by rw [abs_of_pos] <;> norm_num)
  rw [abs_of_pos (by norm_num : (0 : ℝ) < 427 / 1000)] at hb
  have hb2 := (abs_le.mp hb).2
  by_contra hcon
  rw [not_le] at hcon
  have := Real.sin_lt_sin_of_lt_of_le_pi_div_two (by linarith) (by linarith) hcon
  norm_num at hb2
  linarith

/-! ## depth 2 (`δ = 1/4`) -/

/-- `dMaxP(1/4) ≤ 0.2585` (`≈ 0.25433`) -/
theorem dMaxP_quarter_le : dMaxP (1 / 4) ≤ 2585 / 10000 := by
  obtain ⟨hp1, hp2⟩ := pi_bounds
  apply dMaxP_le_of_cos _ _ (by norm_num)
  have hq := cos_le_quartic (2585 / 10000) (by norm_num) (by norm_num)
  rw [cos_dMaxP_exact (1 / 4) (by norm_num) (by norm_num)]
  set C := cos tl * cos (capLat (1 + 1 / 4)) with hCdef
  have hC2 : C ^ 2 = 3915 / 20736 := by rw [hCdef, C0_sq _ (by norm_num) (by norm_num)]; norm_num
  have hC0 : 0 ≤ C := C0_nonneg _ (by norm_num) (by norm_num)
  have hC : 434513 / 1000000 ≤ C := by
    apply le_of_sq_le_sq _ hC0
    rw [hC2]; norm_num
  have hx := Real.one_sub_sq_div_two_le_cos (x := π / 4 * (1 / 4))
  have hx2 : (π / 4 * (1 / 4)) ^ 2 ≤ 385533225 / 10000000000 := by
    have : π / 4 * (1 / 4) ≤ 19635 / 100000 := by linarith
    have h0 : 0 ≤ π / 4 * (1 / 4) := by positivity
    calc (π / 4 * (1 / 4)) ^ 2 ≤ (19635 / 100000) ^ 2 := pow_le_pow_left₀ h0 this 2
      _ = _ := by norm_num
  have hcx : 9807233 / 10000000 ≤ cos (π / 4 * (1 / 4)) := by linarith
  have hprod : 434513 / 1000000 * (9807233 / 10000000) ≤ C * cos (π / 4 * (1 / 4)) :=
    mul_le_mul hC hcx (by norm_num) hC0
  norm_num at hq hprod ⊢
  linarith

/-- `dMinP(1/4) ≥ 0.2144` (`≈ 0.21870`) -/
theorem dMinP_quarter_ge : 2144 / 10000 ≤ dMinP (1 / 4) := by
  have hge := dMinP_sq_ge (1 / 4) (by norm_num) (by norm_num)
  have hn := dMinP_nonneg (1 / 4) (by norm_num)
  apply le_of_sq_le_sq _ hn
  norm_num at hge ⊢
  linarith

/-! ## depths `≥ 3` (`δ ≤ 1/8`) -/

/-- `dMaxP δ ≤ 1.073·δ` for `0 < δ ≤ 1/8` (the limit of `dMaxP δ/δ` is `1.06897`) -/
theorem dMaxP_le_small (δ : ℝ) (h0 : 0 < δ) (h1 : δ ≤ 1 / 8) : dMaxP δ ≤ 1073 / 1000 * δ := by
  have hpi := Real.pi_gt_three
  by_contra hcon
  rw [not_le] at hcon
  have hM : cos (dMaxP δ) < cos (1073 / 1000 * δ) :=
    Real.cos_lt_cos_of_nonneg_of_le_pi (by positivity : 0 ≤ 1073 / 1000 * δ) (gcDist_le_pi _ _ _) hcon
  have hb := Real.cos_bound (x := 1073 / 1000 * δ) (by rw [abs_of_pos (by positivity)]; linarith)
  rw [abs_of_pos (by positivity : 0 < 1073 / 1000 * δ)] at hb
  have hb2 := (abs_le.mp hb).2
  obtain ⟨c1, c2⟩ := C0_bounds δ h0.le (by linarith)
  have ha := Real.one_sub_sq_div_two_le_cos (x := dMinP δ)
  have hx := Real.one_sub_sq_div_two_le_cos (x := π / 4 * δ)
  have ha2 := dMinP_sq_le δ h0.le (by linarith)
  have hC0 : 0 ≤ cos tl * cos (capLat (1 + δ)) := by nlinarith
  have hcos := cos_dMaxP δ
  have hx2 : (π / 4 * δ) ^ 2 = π ^ 2 * δ ^ 2 / 16 := by ring
  have hps := pi_sq_le
  have hδ2 : 0 < δ ^ 2 := by positivity
  have hδ2' : δ ^ 2 ≤ 1 / 64 := by nlinarith
  have h1c : 0 ≤ 1 - cos (π / 4 * δ) := by linarith [Real.cos_le_one (π / 4 * δ)]
  have hterm : cos tl * cos (capLat (1 + δ)) * (1 - cos (π / 4 * δ)) ≤ 5 / 9 * ((π / 4 * δ) ^ 2 / 2) :=
    mul_le_mul c2 (by linarith) h1c (by norm_num)
  have hxx : (π / 4 * δ) ^ 2 ≤ 99225 / 160000 * δ ^ 2 := by
    rw [hx2]; nlinarith
  have hδ4 : δ ^ 4 ≤ δ ^ 2 / 64 := by nlinarith
  have e4 : (1073 / 1000 * δ) ^ 4 = (1073 / 1000) ^ 4 * δ ^ 4 := by ring
  have e2 : (1073 / 1000 * δ) ^ 2 = (1073 / 1000) ^ 2 * δ ^ 2 := by ring
  rw [e4, e2] at hb2
  norm_num at hb2
  linarith

/-- `dMinP δ ≥ 0.873·δ` for `0 < δ ≤ 1/8` -/
theorem dMinP_ge_small (δ : ℝ) (h0 : 0 < δ) (h1 : δ ≤ 1 / 8) : 873 / 1000 * δ ≤ dMinP δ := by
  have hge := dMinP_sq_ge δ h0.le (by linarith)
  have hn := dMinP_nonneg δ h0.le
  have hδ2 : 0 < δ ^ 2 := by positivity
  have hs : 6 - (1 - δ) ^ 2 ≤ 335 / 64 := by nlinarith
  have ha2 : (873 / 1000 * δ) ^ 2 ≤ dMinP δ ^ 2 := by
    have : dMinP δ ^ 2 * (6 - (1 - δ) ^ 2) ≤ dMinP δ ^ 2 * (335 / 64) :=
      mul_le_mul_of_nonneg_left hs (by positivity)
    nlinarith
  exact le_of_sq_le_sq ha2 hn

/-! ## the polar-cap line at `3π/4` -/

theorem npcEnv_three (d : ℕ) (hd : 1 ≤ d) :
    npcEnv (Csts.new d) (3 * π / 4) =
      dMinP (1 / 2 ^ d) + 3 * (dMaxP (1 / 2 ^ d) - dMinP (1 / 2 ^ d)) / (1 - 1 / 2 ^ d) := by
  obtain ⟨h0, h1⟩ := half_pow_range d hd
  have hpi := Real.pi_pos
  unfold npcEnv
  rw [new_slopeNpc_eq, new_interceptNpc_eq]
  have : (1 : ℝ) - 1 / 2 ^ d ≠ 0 := by linarith
  field_simp
  ring

/-- **`npcEnv (3π/4) ≤ 2·Mtrue d`**, every depth `≥ 1` (ratios `0.941, 0.920, 0.911, … → 0.9028`) -/
theorem npcEnv_three_le (d : ℕ) (hd : 1 ≤ d) : npcEnv (Csts.new d) (3 * π / 4) ≤ 2 * Mtrue d := by
  obtain ⟨hp1, hp2⟩ := pi_bounds
  rw [npcEnv_three d hd, Mtrue_eq]
  obtain rfl | rfl | h3 : d = 1 ∨ d = 2 ∨ 3 ≤ d := by omega
  · have e : (1 : ℝ) / 2 ^ 1 = 1 / 2 := by norm_num
    rw [e]
    have h1 := dMaxP_half_le
    have h2 := dMinP_half_ge
    norm_num
    linarith
  · have e : (1 : ℝ) / 2 ^ 2 = 1 / 4 := by norm_num
    rw [e]
    have h1 := dMaxP_quarter_le
    have h2 := dMinP_quarter_ge
    norm_num
    linarith
  · have hδ0 : 0 < (1 : ℝ) / 2 ^ d := by positivity
    have hδ8 : (1 : ℝ) / 2 ^ d ≤ 1 / 8 := by
      have : (2 : ℝ) ^ 3 ≤ 2 ^ d := pow_le_pow_right₀ (by norm_num) h3
      rw [div_le_div_iff₀ (by positivity) (by norm_num)]; linarith
    generalize (1 : ℝ) / 2 ^ d = δ at *
    have hM := dMaxP_le_small δ hδ0 hδ8
    have ha := dMinP_ge_small δ hδ0 hδ8
    have h1δ : 0 < 1 - δ := by linarith
    rw [← sub_nonneg]
    have e : 2 * (π / 4 * δ) - (dMinP δ + 3 * (dMaxP δ - dMinP δ) / (1 - δ)) =
        (π / 2 * δ * (1 - δ) - (3 * dMaxP δ - (2 + δ) * dMinP δ)) / (1 - δ) := by
      field_simp; ring
    rw [e]
    apply div_nonneg _ h1δ.le
    have h5 : (2 + δ) * (873 / 1000 * δ) ≤ (2 + δ) * dMinP δ := mul_le_mul_of_nonneg_left ha (by linarith)
    have h6 : 31415 / 10000 * δ ≤ π * δ := mul_le_mul_of_nonneg_right hp1.le hδ0.le
    have h7 : π * (δ * δ) ≤ 31416 / 10000 * (δ * δ) := mul_le_mul_of_nonneg_right hp2.le (by positivity)
    have h8 : δ * δ ≤ δ * (1 / 8) := mul_le_mul_of_nonneg_left hδ8 hδ0.le
    have e1 : π / 2 * δ * (1 - δ) = π * δ / 2 - π * (δ * δ) / 2 := by ring
    have e2 : (2 + δ) * (873 / 1000 * δ) = 1746 / 1000 * δ + 873 / 1000 * (δ * δ) := by ring
    rw [e1]
    rw [e2] at h5
    linarith

/-! ## every longitude, both profiles -/

theorem npcEnv_le_all (d : ℕ) (hd : 1 ≤ d) (l : ℝ) (hl : l ≤ 3 * π / 4) : npcEnv (Csts.new d : Csts ℝ) l ≤ 2 * Mtrue d := by
  have hs := new_slopeNpc_nonneg d
  have h1 : npcEnv (Csts.new d : Csts ℝ) l ≤ npcEnv (Csts.new d : Csts ℝ) (3 * π / 4) := by
    unfold npcEnv; nlinarith
  exact h1.trans (npcEnv_three_le d hd)

theorem c2v_le_twice_all (d : ℕ) (hd : 1 ≤ d) (lon lat : ℝ) : c2v (Csts.new d) lon lat ≤ 2 * Mtrue d := by
  unfold c2v
  split_ifs with h1 h2
  · exact npcEnv_le_all d hd _ (fold_le_all lon)
  · exact (topEnv_le d _ h2).trans (dMax3_le_twice d)
  · exact (botEnv_le d _).trans (dMax3_le_twice d)

section
variable {α : Type} [Num α]

theorem npc_debug (lon : α) (c : Csts α) (v : α) (h : npc true lon c = some v) : npc false lon c = some v := by
  unfold npc at h ⊢
  dsimp only at h ⊢
  split at h
  · simp at h
  · simpa using h

/-- **`largest_center_to_vertex_distance`**: a value returned in the dev profile is the release value -/
theorem largestC2V_debug (d : Nat) (lon lat v : α) (h : largestC2V true d lon lat = some v) :
    largestC2V false d lon lat = some v := by
  unfold largestC2V at h ⊢
  split
  · rename_i h0; simpa [h0] using h
  · rename_i h0
    simp only [h0] at h
    split
    · rename_i h29; simp [h29] at h
    · rename_i h29
      simp only [h29, if_false] at h
      dsimp only at h ⊢
      split
      · rename_i hA; rw [if_pos hA] at h; exact npc_debug _ _ _ h
      · rename_i hA
        rw [if_neg hA] at h
        split
        · rename_i hB; rw [if_pos hB] at h; exact eqrTop_debug _ _ _ h
        · rename_i hB; rw [if_neg hB] at h; exact eqrBottom_debug _ _ _ h
end

/-- **`envelope_le_twice_true_all`** (ℝ, both profiles, NO hypothesis on the position): whenever
    `largest_center_to_vertex_distance(d, lon, lat)` returns a value `v` (every depth `0 … 29`; every real `lon`, negative
    ones included, every real `lat`), `v ≤ 2·Mtrue d`: twice the true centre-to-vertex distance `π/4·2^-d` of the cells of
    depth `d` centred on the equator. -/
theorem envelope_le_twice_true_all (dbg : Bool) (d : ℕ) (lon lat v : ℝ)
    (h : largestC2V dbg d lon lat = some v) : v ≤ 2 * Mtrue d := by
  have h' : largestC2V false d lon lat = some v := by
    cases dbg
    · exact h
    · exact largestC2V_debug d lon lat v h
  rw [c2v_region_choice] at h'
  split_ifs at h' with h0 h29
  · cases h'; rw [h0]; exact depth0_le_twice
  · cases h'; exact c2v_le_twice_all d (by omega) lon lat

/-- **`envelope_with_radius_le_twice_true_all`** (ℝ, both profiles): the same for
    `largest_center_to_vertex_distance_with_radius`, every position, every radius `r ≥ 0` -/
theorem envelope_with_radius_le_twice_true_all (dbg : Bool) (d : ℕ) (lon lat r v : ℝ) (hr : 0 ≤ r)
    (h : largestC2VWithRadius dbg d lon lat r = some v) : v ≤ 2 * Mtrue d := by
  have h' : largestC2VWithRadius false d lon lat r = some v := by
    cases dbg
    · exact h
    · exact largestC2VWithRadius_debug d lon lat r v h
  exact envelope_with_radius_le_twice_true d lon lat r v hr h'

/-- the radius must be non-negative: with `r < 0` the upper equatorial line is evaluated below `lsc`, where it is unbounded
    (`lat = 1/2`, `r = −R`: the value is `topEnv (1/2 − R)`, which exceeds any bound for `R` large) — the hypothesis `0 ≤ r`
    of `envelope_with_radius_le_twice_true` cannot be dropped.  Here: the branch taken and its value. -/
theorem with_radius_negative_branch (d : ℕ) (R : ℝ) (hR : 1 / 2 ≤ R) :
    c2vR (Csts.new d) 0 (1 / 2) (-R) = topEnv (Csts.new d) (1 / 2 - R) := by
  have h1 := EnvelopeReal.tl_ge
  have h3 := EnvelopeReal.tl_le
  have h2 := lsc_lt_tl
  unfold c2vR
  rw [abs_of_pos (by norm_num : (0 : ℝ) < 1 / 2)]
  rw [if_neg (by linarith), if_pos (by linarith), min_eq_left (by linarith)]
  ring_nf

/-- **the hypothesis `0 ≤ r` is necessary**: at every depth `1 … 29` there is a NEGATIVE radius for which
    `largest_center_to_vertex_distance_with_radius(d, 0, 1/2, r)` exceeds `2·Mtrue d` (the decreasing line of the upper
    equatorial region is extrapolated below `lsc`) -/
theorem with_radius_negative_unbounded (d : ℕ) (hd1 : 1 ≤ d) (hd2 : d ≤ 29) :
    ∃ r v : ℝ, r < 0 ∧ largestC2VWithRadius false d 0 (1 / 2) r = some v ∧ 2 * Mtrue d < v := by
  have hs := new_slopeEqr_neg d
  set s := (Csts.new d : Csts ℝ).slopeEqr with hsdef
  set i := (Csts.new d : Csts ℝ).interceptEqr with hidef
  set x := min 0 ((2 * Mtrue d + 1 - i) / s) with hx
  have hx0 : x ≤ 0 := min_le_left _ _
  have hx1 : x ≤ (2 * Mtrue d + 1 - i) / s := min_le_right _ _
  refine ⟨-(1 / 2 - x), c2vR (Csts.new d) 0 (1 / 2) (-(1 / 2 - x)), by linarith, ?_, ?_⟩
  · rw [c2v_with_radius_region_choice, if_neg (by omega), if_neg (by omega)]
  · rw [with_radius_negative_branch d (1 / 2 - x) (by linarith)]
    unfold topEnv
    rw [show (1 : ℝ) / 2 - (1 / 2 - x) = x by ring]
    have h1 : s * ((2 * Mtrue d + 1 - i) / s) ≤ s * x := mul_le_mul_of_nonpos_left hx1 hs.le
    rw [mul_div_cancel₀ _ hs.ne] at h1
    linarith

end Hpx.Tightness

#print axioms Hpx.Tightness.fold_le_all
#print axioms Hpx.Tightness.npcEnv_three_le
#print axioms Hpx.Tightness.envelope_le_twice_true_all
#print axioms Hpx.Tightness.envelope_with_radius_le_twice_true_all
#print axioms Hpx.Tightness.with_radius_negative_unbounded
