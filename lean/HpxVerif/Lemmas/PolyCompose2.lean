/-
C12, T3: the cells of the polygon vertices are kept by `polygon_coverage` (both modes).  The descent never loses a cell of
the sorted list (`vertex_cell_kept`); what remains is that the START CELLS contain the ancestors of the vertex cells.  The
start cells are named here (`startCells`) so that this remaining hypothesis is a visible, checkable statement.
-/
import HpxVerif.Lemmas.PolyCompose
import HpxVerif.Lemmas.HashReal2
import HpxVerif.Lemmas.RingBij5
import HpxVerif.Lemmas.LayerBmi

set_option autoImplicit false

namespace Hpx.PolyCompose
open Hpx Hpx.Cover Hpx.Bmoc Hpx.Sph Real Hpx.Proj

section Generic
variable {α : Type} [Num α]

/-- the start cells of `polygon_coverage`: `(depth_start, cells)` — the 12 base cells at depth 0 when the bounding cone is too
    large for a starting depth, otherwise the sorted neighbourhood (the cell and its neighbours) of the cell of the
    bounding-cone centre at depth `min(best_starting_depth(radius), depth)` -/
def startCells (cfg : Cfg) (depth : Nat) (poly : Polygon α) : Option (Nat × List Nat) :=
  match boundingCone poly.vertices with
  | none => none
  | some (centre, radius) =>
    if !C2V.hasBestStartingDepth radius then some (0, List.range 12)
    else
      match C2V.bestStartingDepth radius with
      | none => none
      | some ds0 =>
        let ds := min ds0 depth
        let ll := unitLonLat centre
        match Hash.hashV2 cfg ds ll.1 ll.2 with
        | none => none
        | some h0 => (Topo.neighbours cfg ds h0 true).map fun nm => (ds, sortNat (nm.map (·.2)))

/-- radius of `Cone::bounding_cone(poly.vertices())` -/
def boundingRadius (poly : Polygon α) : α :=
  match boundingCone poly.vertices with
  | some x => x.2
  | none => Num.zero

/-- `coverage_spec_modes` with the start cells named -/
theorem coverage_spec_start (cfg : Cfg) (depth : Nat) (vertices : List (α × α)) (exact : Bool) (b : BMOC)
    (h : polygonCoverage cfg depth vertices exact = some b) :
    depth ≤ 29 ∧ ∃ (poly : Polygon α) (hs ex : List Nat) (ds : Nat) (roots : List Nat) (cells : List Cell),
      Polygon.new cfg.debug vertices = some poly ∧
      poly.vertices.mapM (fun c => Hash.hashV2 cfg depth c.lon c.lat) = some hs ∧
      (if exact then specialHashes cfg depth poly else some []) = some ex ∧
      startCells cfg depth poly = some (ds, roots) ∧ ds ≤ depth ∧
      roots.foldlM (fun acc r =>
        (coverRec depth (polyClassifier cfg depth poly (dedupAdj (sortNat (hs ++ ex)))) (depth + 2) ds r 0).map (acc ++ ·)) [] = some cells ∧
      b = { dmax := depth, entries := cells.map (encode depth) } := by
  unfold polygonCoverage polygonCoverageWith at h
  split at h
  · simp at h
  · rename_i hd
    refine ⟨by omega, ?_⟩
    split at h
    · simp at h
    · rename_i poly hpoly
      split at h
      · simp at h
      · rename_i centre radius hbc
        simp only at h
        split at h
        · simp at h
        · rename_i ds roots hroots
          split at h
          · simp at h
          · rename_i hs hhs
            split at h
            · simp at h
            · rename_i ex hex
              simp only [Option.map_eq_some_iff] at h
              obtain ⟨cells, hcells, hb⟩ := h
              refine ⟨poly, hs, ex, ds, roots, cells, hpoly, hhs, ?_, ?_, ?_, hcells, hb.symm⟩
              · cases exact <;> simpa using hex
              · unfold startCells; rw [hbc]; exact hroots
              · split at hroots
                · cases hroots; omega
                · split at hroots
                  · simp at hroots
                  · split at hroots
                    · simp at hroots
                    · simp only [Option.map_eq_some_iff] at hroots
                      obtain ⟨nm, _, hnm⟩ := hroots
                      cases hnm
                      exact Nat.min_le_right _ _

/-- when the bounding cone is too large for a starting depth, the start cells are the 12 base cells -/
theorem startCells_allsky (cfg : Cfg) (depth : Nat) (poly : Polygon α) (ds : Nat) (roots : List Nat)
    (hs : startCells cfg depth poly = some (ds, roots))
    (hno : C2V.hasBestStartingDepth (boundingRadius poly) = false) :
    ds = 0 ∧ roots = List.range 12 := by
  unfold startCells at hs
  split at hs
  · simp at hs
  · rename_i centre radius hbc
    unfold boundingRadius at hno
    rw [hbc] at hno
    simp only at hno
    simp only [hno] at hs
    simp at hs
    exact ⟨hs.1.symm, hs.2.symm⟩

/-- `Props/C12.vertex_cell_kept` -/
theorem vertex_cell_kept' (cfg : Cfg) (target : Nat) (poly : Polygon α) (hs : List Nat)
    (fuel ds root level : Nat) (out : List Cell) (hds : ds ≤ target)
    (h : coverRec target (polyClassifier cfg target poly (dedupAdj (sortNat hs))) fuel ds root level = some out)
    (v : Nat) (hv : v ∈ hs) (hroot : v >>> ((target - ds) <<< 1) = root) :
    ∃ c ∈ out, c.depth ≤ target ∧ v >>> ((target - c.depth) <<< 1) = c.hash := by
  refine coverRec_no_miss (P := Nat) (fun d hh q => d ≤ target ∧ q >>> ((target - d) <<< 1) = hh) (fun q => q ∈ hs)
    target _ ?_ ?_ fuel ds root level out h v ⟨hds, hroot⟩ hv
  · intro d hh q hne ⟨hdt, hq⟩
    have hlt : d + 1 ≤ target := by omega
    have e : (target - d) <<< 1 = (target - (d + 1)) <<< 1 + 2 := by
      simp only [Nat.shiftLeft_eq]; omega
    rw [e, Nat.shiftRight_add] at hq
    generalize q >>> ((target - (d + 1)) <<< 1) = m at hq
    have hm : m = 4 * hh + m % 4 := by
      rw [Nat.shiftRight_eq_div_pow] at hq; omega
    have h4 : m % 4 < 4 := Nat.mod_lt _ (by omega)
    have c0 : hh <<< 2 = 4 * hh := by rw [Nat.shiftLeft_eq]; omega
    rcases (by omega : m % 4 = 0 ∨ m % 4 = 1 ∨ m % 4 = 2 ∨ m % 4 = 3) with k | k | k | k
    · exact Or.inl ⟨hlt, by omega⟩
    · exact Or.inr (Or.inl ⟨hlt, by rw [shl2_or hh 1 (by omega)]; omega⟩)
    · exact Or.inr (Or.inr (Or.inl ⟨hlt, by rw [shl2_or hh 2 (by omega)]; omega⟩))
    · exact Or.inr (Or.inr (Or.inr ⟨hlt, by rw [shl2_or hh 3 (by omega)]; omega⟩))
  · intro d hh l hk q ⟨_, hq⟩ hqs
    have := classifier_skip' cfg target poly _ d hh l hk
    rw [isInList_complete d hh target _ (pairwise_dedup_sort hs) q ((mem_dedup_sort q hs).mpr hqs) hq] at this
    exact absurd this (by simp)

/-- **T3, every numeric instance, both modes**: the cell of a polygon vertex (`hs`) — and in the exact mode the cell of a
    special point (`ex`) — lies under a cell of the returned BMOC **as soon as its ancestor at the starting depth is one of
    the start cells**.  That hypothesis (`v >>> 2(depth − ds) ∈ roots`: the neighbourhood of the bounding-cone centre cell
    at `best_starting_depth(radius)` contains the vertex) is the geometric fact this development does not prove; it is about
    `Cone::bounding_cone`, `best_starting_depth` and the size of the cells, not about the descent. -/
theorem vertex_cells_kept_modes (cfg : Cfg) (depth : Nat) (vertices : List (α × α)) (exact : Bool) (b : BMOC)
    (h : polygonCoverage cfg depth vertices exact = some b) :
    ∃ (poly : Polygon α) (hs ex : List Nat) (ds : Nat) (roots : List Nat) (cells : List Cell),
      Polygon.new cfg.debug vertices = some poly ∧
      poly.vertices.mapM (fun c => Hash.hashV2 cfg depth c.lon c.lat) = some hs ∧
      (if exact then specialHashes cfg depth poly else some []) = some ex ∧
      startCells cfg depth poly = some (ds, roots) ∧ ds ≤ depth ∧
      b = { dmax := depth, entries := cells.map (encode depth) } ∧
      ∀ v ∈ hs ++ ex, v >>> ((depth - ds) <<< 1) ∈ roots →
        ∃ c ∈ cells, c.depth ≤ depth ∧ v >>> ((depth - c.depth) <<< 1) = c.hash := by
  obtain ⟨_, poly, hs, ex, ds, roots, cells, h1, h2, h3, h4, hds, h5, h6⟩ := coverage_spec_start cfg depth vertices exact b h
  refine ⟨poly, hs, ex, ds, roots, cells, h1, h2, h3, h4, hds, h6, ?_⟩
  intro v hv hroot
  obtain ⟨_, g3, _⟩ := roots_fold_mem _ roots [] cells h5
  obtain ⟨o, ho, hsub⟩ := g3 _ hroot
  obtain ⟨c, hc, hcd⟩ := vertex_cell_kept' cfg depth poly (hs ++ ex) (depth + 2) ds _ 0 o hds ho v hv rfl
  exact ⟨c, hsub c hc, hcd⟩

theorem shr_lt_12 (v depth : Nat) (hlt : v < 12 * 4 ^ depth) : v >>> ((depth - 0) <<< 1) ∈ List.range 12 := by
  rw [List.mem_range, Nat.shiftRight_eq_div_pow, Nat.sub_zero, Nat.shiftLeft_eq]
  apply Nat.div_lt_of_lt_mul
  have e : (2 : Nat) ^ (depth * 2 ^ 1) = 4 ^ depth := by
    rw [show depth * 2 ^ 1 = 2 * depth by omega, Nat.pow_mul]
  rw [e]; omega

end Generic

/-! ## over the reals -/

/-- `hash` of a position in the canonical ranges is a cell number of the depth (ℝ, every build) -/
theorem hashV2_real_lt (cfg : Cfg) (d : ℕ) (hd : d ≤ 29) (lon lat : ℝ) (h0 : 0 ≤ lon) (h1 : lon < 2 * π)
    (hl1 : -(π / 2) ≤ lat) (hl2 : lat ≤ π / 2) (c : ℕ) (h : Hash.hashV2 (α := ℝ) cfg d lon lat = some c) :
    c < 12 * 4 ^ d := by
  have hpi := pi_pos
  have hlon : |lon| < 64 * π := by rw [abs_of_nonneg h0]; linarith
  obtain ⟨X, Y, hp, hb, hi, hj, _⟩ := Hpx.HashReal.hash_real_contains d (by omega) lon lat hlon hl1 hl2
  have hchk : Proj.checkLat (α := ℝ) lat = true := by
    cases hc : Proj.checkLat (α := ℝ) lat with
    | true => rfl
    | false => simp [Proj.proj, hc] at hp
  set b0 := (Hash.d0hLhInD0c (α := ℝ) lon lat).1 with hbdef
  set i0 := Hpx.HashReal.gridCoord d ((Hash.d0hLhInD0c (α := ℝ) lon lat).2.2 + (Hash.d0hLhInD0c (α := ℝ) lon lat).2.1) with hidef
  set j0 := Hpx.HashReal.gridCoord d ((Hash.d0hLhInD0c (α := ℝ) lon lat).2.2 - (Hash.d0hLhInD0c (α := ℝ) lon lat).2.1) with hjdef
  have hbs := Hpx.RingBij.build_spec (LayerBmi.noBmi cfg) (LayerBmi.noBmi_bmi cfg) d hd ⟨b0, i0, j0⟩ ⟨hb, hi, hj⟩
  rw [Hpx.HashReal.hashV2_real_eq cfg d lon lat hchk, LayerBmi.buildHashFromParts_eq, hbs.1] at h
  cases h
  exact hbs.2

/-- **T3 over the reals** (`vertex_cells_kept_real`), positions in the canonical ranges, both modes, every depth `≤ 29`: what
    `vertex_cells_kept_modes` says, plus: the vertex cells `hs` are cell numbers of the depth, and when the bounding cone is
    too large for a starting depth (start cells = the 12 base cells) **every vertex cell is kept, no hypothesis left**.
    In the other case the hypothesis that remains, per vertex cell `v`, is exactly `v >>> 2(depth − ds) ∈ roots`. -/
theorem vertex_cells_kept_real (cfg : Cfg) (depth : Nat) (lls : List (ℝ × ℝ)) (exact : Bool) (b : BMOC)
    (hne : lls ≠ []) (hr : ∀ ll ∈ lls, 0 ≤ ll.1 ∧ ll.1 < 2 * π ∧ -(π / 2) ≤ ll.2 ∧ ll.2 ≤ π / 2)
    (h : polygonCoverage cfg depth lls exact = some b) :
    ∃ (poly : Polygon ℝ) (hs ex : List Nat) (ds : Nat) (roots : List Nat) (cells : List Cell),
      Polygon.new cfg.debug lls = some poly ∧ poly.vertices = lls.map cooOf ∧
      (lls.map cooOf).mapM (fun c => Hash.hashV2 cfg depth c.lon c.lat) = some hs ∧ hs.length = lls.length ∧
      (∀ v ∈ hs, v < 12 * 4 ^ depth) ∧
      (if exact then specialHashes cfg depth poly else some []) = some ex ∧
      startCells cfg depth poly = some (ds, roots) ∧ ds ≤ depth ∧
      b = { dmax := depth, entries := cells.map (encode depth) } ∧
      (∀ v ∈ hs ++ ex, v >>> ((depth - ds) <<< 1) ∈ roots →
        ∃ c ∈ cells, c.depth ≤ depth ∧ v >>> ((depth - c.depth) <<< 1) = c.hash) ∧
      (C2V.hasBestStartingDepth (boundingRadius poly) = false →
        ∀ v ∈ hs, ∃ c ∈ cells, c.depth ≤ depth ∧ v >>> ((depth - c.depth) <<< 1) = c.hash) := by
  have hd : depth ≤ 29 := (coverage_spec_start cfg depth lls exact b h).1
  obtain ⟨poly, hs, ex, ds, roots, cells, h1, h2, h3, h4, hds, h6, h7⟩ := vertex_cells_kept_modes cfg depth lls exact b h
  obtain ⟨poly', hnew, hvs, _⟩ := polygon_new_real cfg.debug lls hne hr
  rw [h1] at hnew; cases hnew
  rw [hvs] at h2
  have hf := mapM_forall2 _ _ _ h2
  have hlen : hs.length = lls.length := by rw [← hf.length_eq]; simp
  have hlt : ∀ v ∈ hs, v < 12 * 4 ^ depth := by
    intro v hv
    obtain ⟨i, hi, rfl⟩ := List.mem_iff_getElem.mp hv
    have hi' : i < (lls.map cooOf).length := by rw [hf.length_eq]; exact hi
    have hget := hf.get hi' hi
    simp only [List.get_eq_getElem, List.getElem_map] at hget
    have hi'' : i < lls.length := by simpa using hi'
    obtain ⟨a1, a2, a3, a4⟩ := hr lls[i] (List.getElem_mem hi'')
    exact hashV2_real_lt cfg depth hd _ _ a1 a2 a3 a4 _ hget
  refine ⟨poly, hs, ex, ds, roots, cells, h1, hvs, h2, hlen, hlt, h3, h4, hds, h6, h7, ?_⟩
  intro hno v hv
  obtain ⟨rfl, rfl⟩ := startCells_allsky cfg depth poly ds roots h4 hno
  exact h7 v (List.mem_append_left _ hv) (shr_lt_12 v depth (hlt v hv))

#print axioms Hpx.PolyCompose.vertex_cells_kept_modes
#print axioms Hpx.PolyCompose.vertex_cells_kept_real

end Hpx.PolyCompose
