/-
C12, T2 (end): the centre of a cell centred on a transition latitude, and the statement for EVERY cell.

`centre_inside_of_vertices_inside`: for every cell of every depth `≤ 29`, the unit vector of the centre returned by `center` is
a positive combination of the unit vectors of three of the four vertices returned by `vertices` (S, N in the equatorial band —
one meridian; S, E, W in the north cap and on the north transition ring; N, E, W in the south): a region that is an
intersection of half-spaces through the centre of the sphere and contains the four vertices contains the centre.
`full_cells_vertices_and_centre_inside_convex`: C12's sentence "a cell is marked fully covered only if its four vertices and
its centre are inside the polygon", for convex polygons over ℝ, on the value returned by `polygon_coverage` (both modes).
-/
import HpxVerif.Lemmas.PolyCompose5

set_option autoImplicit false

namespace Hpx.PolyCompose
open Hpx Hpx.Sph Real Hpx.Proj Hpx.CellReal Hpx.EnvelopeReal Hpx.TopoLift Hpx.EnvelopePolar

/-! ## cells centred on a transition latitude (`cy = ±1`) -/

theorem PosCombo3.congr_third {p u v w v' : Coo ℝ} (h : PosCombo3 p u v w) (hx : v'.x = v.x) (hy : v'.y = v.y)
    (hz : v'.z = v.z) : PosCombo3 p u v' w := by
  obtain ⟨K, a, b, d, hK, ha, hb, hd, ex, ey, ez⟩ := h
  exact ⟨K, a, b, d, hK, ha, hb, hd, by rw [hx]; exact ex, by rw [hy]; exact ey, by rw [hz]; exact ez⟩

/-- plane points `C = (X, 1)`, `F = (X, 1 − o)`, `E = (X + o, 1)`, `W = (X − o, 1)`: the centre is a positive combination of
    `F`, `E`, `W` (`F` is on the meridian of `C`, nearer to the equator; `E` and `W` on the parallel of `C`) -/
theorem transition_cone (X o : ℝ) (ho : 0 < o) (ho1 : o ≤ 1) :
    PosCombo3 (cooOf (X * (π / 4), Real.arcsin (1 * (2 / 3)))) (cooOf (X * (π / 4), Real.arcsin ((1 - o) * (2 / 3))))
      (cooOf ((X + o) * (π / 4), Real.arcsin (1 * (2 / 3)))) (cooOf ((X - o) * (π / 4), Real.arcsin (1 * (2 / 3)))) := by
  have hpi := pi_pos
  have hpi4 : π < 4 := pi_lt_four
  set φc := Real.arcsin (1 * (2 / 3)) with hφc
  set φf := Real.arcsin ((1 - o) * (2 / 3)) with hφf
  have hf0 : 0 ≤ (1 - o) * (2 / 3) := by nlinarith
  have hf1 : (1 - o) * (2 / 3) < 1 * (2 / 3) := by nlinarith
  have hφf0 : 0 ≤ φf := Real.arcsin_nonneg.mpr hf0
  have hφfc : φf ≤ φc := Real.arcsin_le_arcsin hf1.le
  have hφc1 : φc < π / 2 := Real.arcsin_lt_pi_div_two.mpr (by norm_num)
  have zc : sin φc = 1 * (2 / 3) := Real.sin_arcsin (by norm_num) (by norm_num)
  have zf : sin φf = (1 - o) * (2 / 3) := Real.sin_arcsin (by linarith) (by linarith)
  have rc0 : 0 < cos φc := cos_pos_of_mem_Ioo ⟨by linarith, hφc1⟩
  have rf0 : 0 < cos φf := cos_pos_of_mem_Ioo ⟨by linarith, by linarith⟩
  have rcf : cos φc ≤ cos φf := Real.cos_le_cos_of_nonneg_of_le_pi hφf0 (by linarith) hφfc
  -- `rc·zf < rf·zc`
  have key : cos φc * sin φf < cos φf * sin φc := by
    rw [zc, zf]
    calc cos φc * ((1 - o) * (2 / 3)) ≤ cos φf * ((1 - o) * (2 / 3)) := mul_le_mul_of_nonneg_right rcf hf0
      _ < cos φf * (1 * (2 / 3)) := mul_lt_mul_of_pos_left hf1 rf0
  have hΔ0 : 0 < o * (π / 4) := by positivity
  have hΔ1 : o * (π / 4) ≤ π / 4 := by nlinarith
  have hsin : 0 < sin (o * (π / 4)) := sin_pos_of_pos_of_lt_pi hΔ0 (by linarith)
  have hcos : cos (o * (π / 4)) < 1 := by
    have := Real.cos_lt_cos_of_nonneg_of_le_pi (le_refl 0) (by linarith : o * (π / 4) ≤ π) hΔ0
    rwa [cos_zero] at this
  have hA0 : 0 ≤ cos φc * sin φf := by rw [zf]; positivity
  obtain ⟨K, a, b, d, hK, ha, hb, hd, hx, hy, hz⟩ := cone3 1 (X * (π / 4)) (o * (π / 4)) 0 (cos φc) (sin φc) (cos φf) (sin φf)
    rc0 (by rw [zc]; norm_num) hsin hcos
    (by rw [cos_zero, mul_one]
        calc cos φc * sin φf * cos (o * (π / 4)) ≤ cos φc * sin φf := by nlinarith [cos_le_one (o * (π / 4))]
          _ < cos φf * sin φc := key)
    (by rw [add_zero, sin_zero, sub_zero]; exact mul_lt_mul_of_pos_right key hsin)
    (by rw [sub_zero, sin_zero, add_zero]; exact mul_lt_mul_of_pos_right key hsin)
  refine ⟨K, a, b, d, hK, ha, hb, hd, ?_, ?_, ?_⟩
  · show K * (cos φc * cos (X * (π / 4))) = a * (cos φf * cos (X * (π / 4))) + b * (cos φc * cos ((X + o) * (π / 4)))
      + d * (cos φc * cos ((X - o) * (π / 4)))
    rw [add_zero] at hx
    rw [show (X + o) * (π / 4) = X * (π / 4) + o * (π / 4) by ring, show (X - o) * (π / 4) = X * (π / 4) - o * (π / 4) by ring]
    exact hx
  · show K * (cos φc * sin (X * (π / 4))) = a * (cos φf * sin (X * (π / 4))) + b * (cos φc * sin ((X + o) * (π / 4)))
      + d * (cos φc * sin ((X - o) * (π / 4)))
    rw [add_zero] at hy
    rw [show (X + o) * (π / 4) = X * (π / 4) + o * (π / 4) by ring, show (X - o) * (π / 4) = X * (π / 4) - o * (π / 4) by ring]
    exact hy
  · show K * sin φc = a * sin φf + b * sin φc + d * sin φc
    linarith


theorem transition_cone_south (X o : ℝ) (ho : 0 < o) (ho1 : o ≤ 1) :
    PosCombo3 (cooOf (X * (π / 4), Real.arcsin (-1 * (2 / 3)))) (cooOf (X * (π / 4), Real.arcsin ((-1 + o) * (2 / 3))))
      (cooOf ((X + o) * (π / 4), Real.arcsin (-1 * (2 / 3)))) (cooOf ((X - o) * (π / 4), Real.arcsin (-1 * (2 / 3)))) := by
  have h := (transition_cone X o ho ho1).mirror
  simp only [← Real.arcsin_neg] at h
  rw [show -((1 : ℝ) * (2 / 3)) = -1 * (2 / 3) by ring, show -((1 - o) * (2 / 3)) = (-1 + o) * (2 / 3) by ring] at h
  exact h

/-- the position returned for the plane point `(x, y)` of the closed equatorial band, up to a whole turn of the longitude -/
theorem band_position (x y : ℝ) (hx0 : 0 ≤ x) (hx8 : x ≤ 8) (hy : |y| ≤ 1) :
    ∃ q : ℝ × ℝ, unprojT x y = q ∧ (cooOf q).x = (cooOf (x * (π / 4), Real.arcsin (y * (2 / 3)))).x ∧
      (cooOf q).y = (cooOf (x * (π / 4), Real.arcsin (y * (2 / 3)))).y ∧
      (cooOf q).z = (cooOf (x * (π / 4), Real.arcsin (y * (2 / 3)))).z := by
  have h1 := unproj_band x y hx0 hx8 hy
  rw [unproj_eq x y (by linarith [(abs_le.mp hy).1]) (by linarith [(abs_le.mp hy).2])] at h1
  refine ⟨_, rfl, ?_⟩
  rw [Option.some.inj h1]
  by_cases h8 : x < 8
  · rw [if_pos h8]; exact ⟨rfl, rfl, rfl⟩
  · rw [if_neg h8, show (x - 8) * (π / 4) = x * (π / 4) - 2 * π by ring]
    exact cooOf_add_two_pi_xyz _ _

theorem PosCombo3.congr_all {p u v w p' u' v' w' : Coo ℝ} (h : PosCombo3 p u v w)
    (hp : p'.x = p.x ∧ p'.y = p.y ∧ p'.z = p.z) (hu : u'.x = u.x ∧ u'.y = u.y ∧ u'.z = u.z)
    (hv : v'.x = v.x ∧ v'.y = v.y ∧ v'.z = v.z) (hw : w'.x = w.x ∧ w'.y = w.y ∧ w'.z = w.z) : PosCombo3 p' u' v' w' := by
  obtain ⟨K, a, b, d, hK, ha, hb, hd, ex, ey, ez⟩ := h
  refine ⟨K, a, b, d, hK, ha, hb, hd, ?_, ?_, ?_⟩
  · rw [hp.1, hu.1, hv.1, hw.1]; exact ex
  · rw [hp.2.1, hu.2.1, hv.2.1, hw.2.1]; exact ey
  · rw [hp.2.2, hu.2.2, hv.2.2, hw.2.2]; exact ez

/-- **T2, the centre, cells centred on the north transition latitude** (`b < 4`, `cy = 1`, depth 0 included): the unit vector
    of the centre is a positive combination of those of the SOUTH, EAST and WEST vertices. -/
theorem centre_combo_north_transition (cfg : Cfg) (d h : ℕ) (hd : d ≤ 29) (hh : h < 12 * 4 ^ d)
    (hb : (partsOf d h).d0h < 4)
    (hcy : cellCy d (partsOf d h).d0h (partsOf d h).i (partsOf d h).j = 1) :
    ∃ (s e n w c : ℝ × ℝ), Hash.vertices (α := ℝ) cfg d h = some [s, e, n, w] ∧ Hash.center (α := ℝ) cfg d h = some c ∧
      PosCombo3 (cooOf c) (cooOf s) (cooOf e) (cooOf w) := by
  obtain ⟨hb12, hi, hj⟩ := partsOf_valid d h hh
  have hdec := decodeHash_spec cfg d hd h hh
  have hh' : h < Layer.nHash d := by rw [TopoLift.nHash_eq]; exact hh
  set b := (partsOf d h).d0h
  set i := (partsOf d h).i
  set j := (partsOf d h).j
  have hpar := north_cell_params d b i j hb hi hj
  rw [hcy] at hpar
  obtain ⟨ho0, ho1⟩ := Hpx.C2VReal.distCw_range d
  set cx := cellCx d b i j with hcx
  set o := 1 / (2 : ℝ) ^ d with hod
  have hb0 : (0 : ℝ) ≤ b := Nat.cast_nonneg b
  have hbr : (b : ℝ) ≤ 3 := by exact_mod_cast (show b ≤ 3 by omega)
  have hu := abs_nonneg (cx - (2 * (b : ℝ) + 1))
  obtain ⟨u1, u2⟩ := abs_le.mp (show |cx - (2 * (b : ℝ) + 1)| ≤ 2 - 1 - o by linarith)
  have n1 : norm8 cx = cx := norm8_of_nonneg _ (by linarith)
  have n3 : norm8 (cx - o) = cx - o := norm8_of_nonneg _ (by linarith)
  have hv := vertices_plane cfg d h b i j hh' hdec hb12 hi hj
  have hc := center_plane cfg d h b i j hh' hdec hb12 hi hj
  have v0 : vtx d b i j 0 = (norm8 cx, cellCy d b i j - o) := rfl
  have v1 : vtx d b i j 1 = (norm8 cx + o, cellCy d b i j) := rfl
  have v3 : vtx d b i j 3 = (norm8 (cx - o), cellCy d b i j) := rfl
  rw [v0, v1, v3, n1, n3, hcy] at hv
  rw [n1, hcy] at hc
  obtain ⟨qC, eC, xC⟩ := band_position cx 1 (by linarith) (by linarith) (by norm_num)
  obtain ⟨qS, eS, xS⟩ := band_position cx (1 - o) (by linarith) (by linarith) (abs_le.mpr ⟨by linarith, by linarith⟩)
  obtain ⟨qE, eE, xE⟩ := band_position (cx + o) 1 (by linarith) (by linarith) (by norm_num)
  obtain ⟨qW, eW, xW⟩ := band_position (cx - o) 1 (by linarith) (by linarith) (by norm_num)
  simp only [eS, eE, eW] at hv
  rw [eC] at hc
  exact ⟨_, _, _, _, _, hv, hc, (transition_cone cx o ho0 ho1).congr_all xC xS xE xW⟩

/-- **T2, the centre, cells centred on the south transition latitude** (`b ≥ 8`, `cy = −1`): positive combination of the
    NORTH, EAST and WEST vertices. -/
theorem centre_combo_south_transition (cfg : Cfg) (d h : ℕ) (hd : d ≤ 29) (hh : h < 12 * 4 ^ d)
    (hb : 8 ≤ (partsOf d h).d0h)
    (hcy : cellCy d (partsOf d h).d0h (partsOf d h).i (partsOf d h).j = -1) :
    ∃ (s e n w c : ℝ × ℝ), Hash.vertices (α := ℝ) cfg d h = some [s, e, n, w] ∧ Hash.center (α := ℝ) cfg d h = some c ∧
      PosCombo3 (cooOf c) (cooOf n) (cooOf e) (cooOf w) := by
  obtain ⟨hb12, hi, hj⟩ := partsOf_valid d h hh
  have hdec := decodeHash_spec cfg d hd h hh
  have hh' : h < Layer.nHash d := by rw [TopoLift.nHash_eq]; exact hh
  obtain ⟨k, hk, hbk⟩ : ∃ k, k < 4 ∧ (partsOf d h).d0h = k + 8 := ⟨(partsOf d h).d0h - 8, by omega, by omega⟩
  rw [hbk] at hb12 hcy
  have hdec' : Layer.decodeHash cfg d h = some ⟨k + 8, (partsOf d h).i, (partsOf d h).j⟩ := by rw [hdec, ← hbk]
  set i := (partsOf d h).i
  set j := (partsOf d h).j
  have hpar := south_cell_params d k i j hk
  rw [hcy] at hpar
  obtain ⟨ho0, ho1⟩ := Hpx.C2VReal.distCw_range d
  set cx := cellCx d (k + 8) i j with hcx
  set o := 1 / (2 : ℝ) ^ d with hod
  have hk0 : (0 : ℝ) ≤ k := Nat.cast_nonneg k
  have hkr : (k : ℝ) ≤ 3 := by exact_mod_cast (show k ≤ 3 by omega)
  have hu := abs_nonneg (cx - (2 * (k : ℝ) + 1))
  obtain ⟨u1, u2⟩ := abs_le.mp (show |cx - (2 * (k : ℝ) + 1)| ≤ 2 - 1 - o by linarith)
  have n1 : norm8 cx = cx := norm8_of_nonneg _ (by linarith)
  have n3 : norm8 (cx - o) = cx - o := norm8_of_nonneg _ (by linarith)
  have hv := vertices_plane cfg d h (k + 8) i j hh' hdec' hb12 hi hj
  have hc := center_plane cfg d h (k + 8) i j hh' hdec' hb12 hi hj
  have v1 : vtx d (k + 8) i j 1 = (norm8 cx + o, cellCy d (k + 8) i j) := rfl
  have v2 : vtx d (k + 8) i j 2 = (norm8 cx, cellCy d (k + 8) i j + o) := rfl
  have v3 : vtx d (k + 8) i j 3 = (norm8 (cx - o), cellCy d (k + 8) i j) := rfl
  rw [v1, v2, v3, n1, n3, hcy] at hv
  rw [n1, hcy] at hc
  obtain ⟨qC, eC, xC⟩ := band_position cx (-1) (by linarith) (by linarith) (by norm_num)
  obtain ⟨qN, eN, xN⟩ := band_position cx (-1 + o) (by linarith) (by linarith) (abs_le.mpr ⟨by linarith, by linarith⟩)
  obtain ⟨qE, eE, xE⟩ := band_position (cx + o) (-1) (by linarith) (by linarith) (by norm_num)
  obtain ⟨qW, eW, xW⟩ := band_position (cx - o) (-1) (by linarith) (by linarith) (by norm_num)
  simp only [eN, eE, eW] at hv
  rw [eC] at hc
  exact ⟨_, _, _, _, _, hv, hc, (transition_cone_south cx o ho0 ho1).congr_all xC xN xE xW⟩


/-! ## every cell -/

/-- the ordinate of the centre of a valid cell is in exactly one of the five classes -/
theorem cy_classes (d b i j : ℕ) (hb : b < 12) (hi : i < 2 ^ d) (hj : j < 2 ^ d) :
    |cellCy d b i j| < 1 ∨ (b < 4 ∧ cellCy d b i j = 1) ∨ (b < 4 ∧ 1 + 1 / 2 ^ d ≤ cellCy d b i j) ∨
      (8 ≤ b ∧ cellCy d b i j = -1) ∨ (8 ≤ b ∧ cellCy d b i j ≤ -1 - 1 / 2 ^ d) := by
  have hp := pow_pos' d
  have hi' := cast_lt_pow hi
  have hj' := cast_lt_pow hj
  have hi0 : (0 : ℝ) ≤ i := Nat.cast_nonneg i
  have hj0 : (0 : ℝ) ≤ j := Nat.cast_nonneg j
  have ho : 0 < 1 / (2 : ℝ) ^ d := by positivity
  have e1 : (1 : ℝ) / 2 ^ d * 2 ^ d = 1 := by field_simp
  -- the numerator `m = i + j + 1 − n` as a real number, and its three cases
  have hcases : (i : ℝ) + j + 1 - 2 ^ d ≤ -1 ∨ (i : ℝ) + j + 1 - 2 ^ d = 0 ∨ 1 ≤ (i : ℝ) + j + 1 - 2 ^ d := by
    rcases Nat.lt_trichotomy (i + j + 1) (2 ^ d) with h | h | h
    · left
      have : ((i + j + 1 + 1 : ℕ) : ℝ) ≤ ((2 ^ d : ℕ) : ℝ) := by exact_mod_cast h
      push_cast at this; linarith
    · right; left
      have : ((i + j + 1 : ℕ) : ℝ) = ((2 ^ d : ℕ) : ℝ) := by exact_mod_cast h
      push_cast at this; linarith
    · right; right
      have : ((2 ^ d + 1 : ℕ) : ℝ) ≤ ((i + j + 1 : ℕ) : ℝ) := by exact_mod_cast h
      push_cast at this; linarith
  have hfr : ∀ m : ℝ, m / 2 ^ d * 2 ^ d = m := fun m => by field_simp
  set m := (i : ℝ) + j + 1 - 2 ^ d with hm
  have hm1 : -((2 : ℝ) ^ d - 1) ≤ m := by rw [hm]; linarith
  have hm2 : m ≤ (2 : ℝ) ^ d - 1 := by rw [hm]; linarith
  obtain ⟨f1, f2⟩ := frac_bounds d m hm1 hm2
  have hy : cellCy d b i j = baseY b + m / 2 ^ d := rfl
  have hneg : m ≤ -1 → m / 2 ^ d ≤ -(1 / 2 ^ d) := by
    intro h
    have h2 : m / 2 ^ d ≤ -1 / 2 ^ d := div_le_div_of_nonneg_right h hp.le
    rwa [neg_div] at h2
  have hpos : 1 ≤ m → 1 / 2 ^ d ≤ m / 2 ^ d := by
    intro h; exact div_le_div_of_nonneg_right h hp.le
  have hbY : (b < 4 ∧ baseY b = 1) ∨ (4 ≤ b ∧ b < 8 ∧ baseY b = 0) ∨ (8 ≤ b ∧ baseY b = -1) := by
    unfold baseY; interval_cases b <;> norm_num
  rcases hbY with ⟨h4, hY⟩ | ⟨_, _, hY⟩ | ⟨h8, hY⟩
  · rcases hcases with h | h | h
    · left; rw [hy, hY, abs_lt]; have := hneg h; constructor <;> linarith
    · right; left; exact ⟨h4, by rw [hy, hY, h]; simp⟩
    · right; right; left; exact ⟨h4, by rw [hy, hY]; have := hpos h; linarith⟩
  · left; rw [hy, hY, abs_lt]; constructor <;> linarith
  · rcases hcases with h | h | h
    · right; right; right; right; exact ⟨h8, by rw [hy, hY]; have := hneg h; linarith⟩
    · right; right; right; left; exact ⟨h8, by rw [hy, hY, h]; simp⟩
    · left; rw [hy, hY, abs_lt]; have := hpos h; constructor <;> linarith

/-- **T2, the centre, EVERY cell** (every depth `≤ 29`, every cell number; equatorial band, both polar caps, both transition
    rings).  `vertices` and `center` succeed and, whatever the polygon (any vertex list `vs`, any winding `o` — no convexity
    is needed beyond the fact that a polygon "inside all the edge half-spaces" is an intersection of half-spaces): if the
    four vertices are strictly inside all the edge half-spaces, so is the centre.  The centre is always in the open cone
    spanned by three of the four vertices: S–N (one meridian) in the band, S–E–W in the north, N–E–W in the south. -/
theorem centre_inside_of_vertices_inside (cfg : Cfg) (d h : ℕ) (hd : d ≤ 29) (hh : h < 12 * 4 ^ d) :
    ∃ (s e n w c : ℝ × ℝ), Hash.vertices (α := ℝ) cfg d h = some [s, e, n, w] ∧ Hash.center (α := ℝ) cfg d h = some c ∧
      ∀ (o : ℝ) (vs : List (Coo ℝ)), (∀ v ∈ [s, e, n, w], InsideAll o vs (cooOf v)) → InsideAll o vs (cooOf c) := by
  obtain ⟨hb12, hi, hj⟩ := partsOf_valid d h hh
  rcases cy_classes d _ _ _ hb12 hi hj with hc | ⟨hb, hc⟩ | ⟨hb, hc⟩ | ⟨hb, hc⟩ | ⟨hb, hc⟩
  · obtain ⟨s, e, n, w, c, hv, hcen, hcomb⟩ := centre_inside_of_SN_inside cfg d h hd hh hc
    exact ⟨s, e, n, w, c, hv, hcen, fun o vs hall => hcomb o vs (hall s (by simp)) (hall n (by simp))⟩
  · obtain ⟨s, e, n, w, c, hv, hcen, hcomb⟩ := centre_combo_north_transition cfg d h hd hh hb hc
    exact ⟨s, e, n, w, c, hv, hcen, fun o vs hall => hcomb.insideAll o vs (hall s (by simp)) (hall e (by simp)) (hall w (by simp))⟩
  · obtain ⟨s, e, n, w, c, hv, hcen, hcomb⟩ := centre_combo_north_cap cfg d h hd hh hb hc
    exact ⟨s, e, n, w, c, hv, hcen, fun o vs hall => hcomb.insideAll o vs (hall s (by simp)) (hall e (by simp)) (hall w (by simp))⟩
  · obtain ⟨s, e, n, w, c, hv, hcen, hcomb⟩ := centre_combo_south_transition cfg d h hd hh hb hc
    exact ⟨s, e, n, w, c, hv, hcen, fun o vs hall => hcomb.insideAll o vs (hall n (by simp)) (hall e (by simp)) (hall w (by simp))⟩
  · obtain ⟨s, e, n, w, c, hv, hcen, hcomb⟩ := centre_combo_south_cap cfg d h hd hh hb hc
    exact ⟨s, e, n, w, c, hv, hcen, fun o vs hall => hcomb.insideAll o vs (hall n (by simp)) (hall e (by simp)) (hall w (by simp))⟩

/-- **T1 + T2: the property as stated, for convex polygons** (ℝ, both modes, every depth `≤ 29`).  Every cell of the BMOC
    returned by `polygon_coverage` that carries the full flag — wherever it is on the sphere — has `vertices` and `center`
    succeed, and if its four vertices are not on the boundary of the polygon then **its four vertices AND ITS CENTRE are
    strictly inside all the edge half-spaces**.  (The code tests the four vertices only; the centre follows.) -/
theorem full_cells_vertices_and_centre_inside_convex (cfg : Cfg) (depth : Nat) (lls : List (ℝ × ℝ)) (exact : Bool) (b : Bmoc.BMOC)
    (hr : ∀ ll ∈ lls, 0 ≤ ll.1 ∧ ll.1 < 2 * π ∧ -(π / 2) ≤ ll.2 ∧ ll.2 ≤ π / 2)
    (o : ℝ) (hcv : ConvexNoPole o (lls.map cooOf))
    (h : Sph.polygonCoverage cfg depth lls exact = some b) :
    ∃ cells : List Bmoc.Cell, b = { dmax := depth, entries := cells.map (Bmoc.encode depth) } ∧
      ∀ c ∈ cells, c.full = true →
        ∃ s e n w ctr : ℝ × ℝ, Hash.vertices (α := ℝ) cfg c.depth c.hash = some [s, e, n, w] ∧
          Hash.center (α := ℝ) cfg c.depth c.hash = some ctr ∧
          ((∀ v ∈ [s, e, n, w], OffBoundary o (lls.map cooOf) (cooOf v)) →
            (∀ v ∈ [s, e, n, w], InsideAll o (lls.map cooOf) (cooOf v)) ∧ InsideAll o (lls.map cooOf) (cooOf ctr)) := by
  obtain ⟨hd, _, _, _, cells, _, _, _, _, hb, hcells⟩ := full_cells_inside_convex cfg depth lls exact b hr o hcv h
  refine ⟨cells, hb, ?_⟩
  intro c hc hfull
  obtain ⟨hcd, _, s, e, n, w, hv, hin⟩ := hcells c hc hfull
  have hlt : c.hash < 12 * 4 ^ c.depth := by
    have := vertices_some_lt cfg c.depth c.hash _ hv
    rwa [TopoLift.nHash_eq] at this
  obtain ⟨s', e', n', w', ctr, hv', hctr, hcomb⟩ := centre_inside_of_vertices_inside cfg c.depth c.hash (by omega) hlt
  rw [hv] at hv'
  have hl := Option.some.inj hv'
  simp only [List.cons.injEq, and_true] at hl
  obtain ⟨rfl, rfl, rfl, rfl⟩ := hl
  refine ⟨s, e, n, w, ctr, hv, hctr, ?_⟩
  intro hoff
  have hall : ∀ v ∈ [s, e, n, w], InsideAll o (lls.map cooOf) (cooOf v) := fun v hv => hin v hv (hoff v hv)
  exact ⟨hall, hcomb o _ hall⟩

/-! ## examples: the hypotheses are satisfiable -/

theorem parts_2_15 : partsOf 2 15 = ⟨0, 3, 3⟩ := by decide
theorem parts_2_6 : partsOf 2 6 = ⟨0, 2, 1⟩ := by decide
theorem parts_2_137 : partsOf 2 137 = ⟨8, 1, 2⟩ := by decide

/-- depth 2, cell 15 = base cell 0, `(i, j) = (3, 3)`: the cell whose north vertex is the north pole (`cy = 7/4`) -/
example : ∃ (s e n w c : ℝ × ℝ), Hash.vertices (α := ℝ) {} 2 15 = some [s, e, n, w] ∧ Hash.center (α := ℝ) {} 2 15 = some c ∧
    PosCombo3 (cooOf c) (cooOf s) (cooOf e) (cooOf w) :=
  centre_combo_north_cap {} 2 15 (by decide) (by decide) (by rw [parts_2_15]; decide)
    (by rw [parts_2_15]; unfold cellCy baseY; norm_num)

/-- depth 2, cell 6 = base cell 0, `(i, j) = (2, 1)`: centred on the north transition latitude, off the base-cell meridian -/
example : ∃ (s e n w c : ℝ × ℝ), Hash.vertices (α := ℝ) {} 2 6 = some [s, e, n, w] ∧ Hash.center (α := ℝ) {} 2 6 = some c ∧
    PosCombo3 (cooOf c) (cooOf s) (cooOf e) (cooOf w) :=
  centre_combo_north_transition {} 2 6 (by decide) (by decide) (by rw [parts_2_6]; decide)
    (by rw [parts_2_6]; unfold cellCy baseY; norm_num)

/-- depth 2, cell 137 = base cell 8, `(i, j) = (1, 2)`: centred on the south transition latitude -/
example : ∃ (s e n w c : ℝ × ℝ), Hash.vertices (α := ℝ) {} 2 137 = some [s, e, n, w] ∧ Hash.center (α := ℝ) {} 2 137 = some c ∧
    PosCombo3 (cooOf c) (cooOf n) (cooOf e) (cooOf w) :=
  centre_combo_south_transition {} 2 137 (by decide) (by decide) (by rw [parts_2_137])
    (by rw [parts_2_137]; unfold cellCy baseY; norm_num)

#print axioms Hpx.PolyCompose.centre_inside_of_vertices_inside
#print axioms Hpx.PolyCompose.full_cells_vertices_and_centre_inside_convex

end Hpx.PolyCompose
