/-
C17 over the reals, part 3: `unproj ∘ proj = id` in the four sign quadrants, and what `unproj ∘ proj` is beyond the pole
threshold and at the poles.
-/
import HpxVerif.Lemmas.ProjReal2
namespace Hpx.Proj
open Real

/-! ## Sign transfer -/

theorem abs_sgn (s v : ℝ) : |sgn s v| = |v| := by unfold sgn; split <;> simp
theorem sgn_abs_self (s : ℝ) : sgn s |s| = s := by
  unfold sgn; split
  · next h => rw [abs_abs, abs_of_neg h]; ring
  · next h => exact abs_of_nonneg (not_lt.mp h)
theorem sgn_mul_pos (s v c : ℝ) (hc : 0 < c) : sgn s (v * c) = sgn s v * c := by
  unfold sgn; split
  · rw [abs_mul, abs_of_pos hc]; ring
  · rfl

/-- lifting a first-quadrant evaluation of `unproj` to the quadrant given by the signs of `s₁`, `s₂` -/
theorem unproj_sgn_lift (s₁ s₂ X Y L B : ℝ) (hX : 0 ≤ X) (hY : 0 ≤ Y) (h : unproj (α := ℝ) X Y = some (L, B))
    (hX' : s₁ < 0 → 0 < X) (hY' : s₂ < 0 → 0 < Y) :
    unproj (α := ℝ) (sgn s₁ X) (sgn s₂ Y) = some (sgn s₁ L, sgn s₂ B) := by
  rw [unproj_sym, abs_sgn, abs_sgn, abs_of_nonneg hX, abs_of_nonneg hY, h, Option.map_some]
  congr 2
  · by_cases hs : s₁ < 0
    · have : sgn s₁ X < 0 := by rw [sgn_of_neg hs, abs_of_nonneg hX]; linarith [hX' hs]
      rw [sgn_of_neg this, sgn_of_neg hs]
    · have : 0 ≤ sgn s₁ X := by rw [sgn_of_nonneg (not_lt.mp hs)]; exact hX
      rw [sgn_of_nonneg this, sgn_of_nonneg (not_lt.mp hs)]
  · by_cases hs : s₂ < 0
    · have : sgn s₂ Y < 0 := by rw [sgn_of_neg hs, abs_of_nonneg hY]; linarith [hY' hs]
      rw [sgn_of_neg this, sgn_of_neg hs]
    · have : 0 ≤ sgn s₂ Y := by rw [sgn_of_nonneg (not_lt.mp hs)]; exact hY
      rw [sgn_of_nonneg this, sgn_of_nonneg (not_lt.mp hs)]

/-! ## The first-quadrant projection in explicit form -/

/-- `proj` on non-negative arguments, `x = lon·4/π ∈ [2k, 2k+2)` -/
noncomputable def projQ (k : ℕ) (x lat : ℝ) : ℝ × ℝ :=
  if lat ≤ Real.arcsin (2 / 3) then (x - (2 * k + 1) + ((2 * k + 1) % 8 : ℕ), Real.sin lat * (3 / 2))
  else ((x - (2 * k + 1)) * sig lat + ((2 * k + 1) % 8 : ℕ), 2 - sig lat)

theorem proj_pos' (lon lat : ℝ) (k : ℕ) (hk : k < 128) (hlon : 0 ≤ lon) (h1 : (2 * k : ℝ) ≤ lon * (4 / π))
    (h2 : lon * (4 / π) < 2 * k + 2) (hlat0 : 0 ≤ lat) (hlat1 : lat ≤ π / 2) :
    proj (α := ℝ) lon lat = some (projQ k (lon * (4 / π)) lat) :=
  proj_pos lon lat k hk hlon h1 h2 hlat0 hlat1

theorem mod8_cast_bounds (k : ℕ) : (1 : ℝ) ≤ (((2 * k + 1) % 8 : ℕ) : ℝ) ∧ (((2 * k + 1) % 8 : ℕ) : ℝ) ≤ 7 := by
  have h1 : 1 ≤ (2 * k + 1) % 8 := by omega
  have h2 : (2 * k + 1) % 8 ≤ 7 := by omega
  exact ⟨by exact_mod_cast h1, by exact_mod_cast h2⟩

/-- range of the first-quadrant projection -/
theorem projQ_bounds (k : ℕ) (x lat : ℝ) (h1 : (2 * k : ℝ) ≤ x) (h2 : x < 2 * k + 2) (hlat0 : 0 ≤ lat) (hlat1 : lat ≤ π / 2) :
    0 ≤ (projQ k x lat).1 ∧ (projQ k x lat).1 < 8 ∧ 0 ≤ (projQ k x lat).2 ∧ (projQ k x lat).2 ≤ 2 ∧
    (0 < lat → 0 < (projQ k x lat).2) ∧ (k < 4 → 0 < x → 0 < (projQ k x lat).1) ∧
    (¬ lat ≤ Real.arcsin (2 / 3) → 0 < (projQ k x lat).1) := by
  obtain ⟨ho1, ho7⟩ := mod8_cast_bounds k
  unfold projQ
  split
  · next h =>
    have hs0 : 0 ≤ Real.sin lat := Real.sin_nonneg_of_nonneg_of_le_pi hlat0 (by linarith)
    have hs1 : Real.sin lat ≤ 2 / 3 := (le_transition_iff lat (by linarith) hlat1).mp h
    refine ⟨by simp only; linarith, by simp only; linarith, by simp only; positivity, by simp only; linarith, ?_, ?_, ?_⟩
    · intro hp; simp only
      have := Real.sin_pos_of_pos_of_lt_pi hp (by linarith [pi_pos]); positivity
    · intro hk hx; simp only
      rw [Nat.mod_eq_of_lt (by omega)]; push_cast; linarith
    · intro hn; exact absurd h hn
  · next h =>
    have hs0 : 0 ≤ sig lat := sig_nonneg lat (by linarith [pi_pos]) hlat1
    have hs1 : sig lat < 1 := (sig_lt_one_iff lat (by linarith [pi_pos]) hlat1).mpr h
    have hlat : 0 < lat := lt_of_le_of_lt (Real.arcsin_nonneg.mpr (by norm_num)) (not_le.mp h)
    have hp1 : -1 < (x - (2 * k + 1)) * sig lat := by nlinarith
    have hp2 : (x - (2 * k + 1)) * sig lat < 1 := by nlinarith
    refine ⟨by simp only; linarith, by simp only; linarith, by simp only; linarith, by simp only; linarith, ?_, ?_, ?_⟩
    · intro _; simp only; linarith
    · intro _ _; simp only; linarith
    · intro _; simp only; linarith

theorem lon_scaled_bounds (lon : ℝ) (h0 : 0 ≤ lon) (h1 : lon < 2 * π) :
    0 ≤ lon * (4 / π) ∧ lon * (4 / π) < 2 * (4 : ℕ) := by
  have hpi := pi_pos
  refine ⟨mul_nonneg h0 (by positivity), ?_⟩
  rw [← sub_pos]
  have : ((2 * (4 : ℕ) : ℝ)) - lon * (4 / π) = (2 * π - lon) * (4 / π) := by field_simp; ring
  rw [this]; exact mul_pos (by linarith) (by positivity)

/-- **`unproj ∘ proj = id` over ℝ, every sign quadrant**: `lat ∈ [-π/2, π/2]`, `lon ∈ (-2π, 2π)`, on the near side of the
    pole threshold of the code -/
theorem unproj_proj_full (lon lat : ℝ) (hlon : |lon| < 2 * π) (hlat0 : -(π / 2) ≤ lat) (hlat1 : lat ≤ π / 2)
    (hpole : (Num.epsPole : ℝ) < Real.sqrt 6 * Real.cos (|lat| / 2 + π / 4)) :
    ∃ X Y, proj (α := ℝ) lon lat = some (X, Y) ∧ unproj (α := ℝ) X Y = some (lon, lat) := by
  have ha0 := abs_nonneg lon
  have hb0 := abs_nonneg lat
  have hb1 : |lat| ≤ π / 2 := abs_le.mpr ⟨hlat0, hlat1⟩
  obtain ⟨hx0, hx8⟩ := lon_scaled_bounds |lon| ha0 hlon
  obtain ⟨k, hk, h1, h2⟩ := facet_exists _ hx0 4 hx8
  obtain ⟨X', Y', hp, hu⟩ := unproj_proj_real |lon| |lat| ha0 hlon hb0 hb1
    (by rw [show 1 / 2 * |lat| = |lat| / 2 by ring]; exact hpole)
  have hq := proj_pos' |lon| |lat| k (by omega) ha0 h1 h2 hb0 hb1
  rw [hp, Option.some.injEq] at hq
  obtain ⟨b1, b2, b3, b4, b5, b6, _⟩ := projQ_bounds k _ |lat| h1 h2 hb0 hb1
  rw [← hq] at b1 b2 b3 b4 b5 b6
  refine ⟨sgn lon X', sgn lat Y', ?_, ?_⟩
  · rw [proj_sym, hp, Option.map_some]
  · have := unproj_sgn_lift lon lat X' Y' |lon| |lat| b1 b3 hu
      (fun h => b6 hk (mul_pos (abs_pos.mpr (ne_of_lt h)) (by positivity)))
      (fun h => b5 (abs_pos.mpr (ne_of_lt h)))
    rw [this, sgn_abs_self, sgn_abs_self]

example : |(1 : ℝ)| < 2 * π ∧ -(π / 2) ≤ (1 / 2 : ℝ) ∧ (1 / 2 : ℝ) ≤ π / 2 := by
  have := Real.two_le_pi
  refine ⟨by rw [abs_one]; linarith, by linarith, by linarith⟩
example : |(-1 : ℝ)| < 2 * π ∧ -(π / 2) ≤ (-1 : ℝ) ∧ (-1 : ℝ) ≤ π / 2 := by
  have := Real.two_le_pi
  refine ⟨by rw [abs_neg, abs_one]; linarith, by linarith, by linarith⟩

theorem epsPole_lt_one : (Num.epsPole : ℝ) < 1 := by
  show ((F64.toRat Gen.cEpsPole : ℚ) : ℝ) < 1
  rw [show Gen.cEpsPole = 0x3D3C25C268497682 from rfl,
    toRat_of_fields _ 979 0xC25C268497682 (by decide) (by decide) (by decide) (by decide)]
  norm_num

/-- first quadrant, beyond the pole threshold (`√6·cos(lat/2 + π/4) ≤ EPS_POLE`, the pole included): `unproj` recovers the
    latitude exactly and returns the projected abscissa unchanged (times `π/4`) as longitude -/
theorem unproj_projQ_pole (k : ℕ) (hk : k < 4) (x lat : ℝ) (h1 : (2 * k : ℝ) ≤ x) (h2 : x < 2 * k + 2) (hlat0 : 0 ≤ lat)
    (hlat1 : lat ≤ π / 2) (hpole : sig lat ≤ (Num.epsPole : ℝ)) :
    unproj (α := ℝ) (projQ k x lat).1 (projQ k x lat).2 = some ((projQ k x lat).1 * (π / 4), lat) := by
  have hs0 : 0 ≤ sig lat := sig_nonneg lat (by linarith [pi_pos]) hlat1
  have hs1 : sig lat < 1 := lt_of_le_of_lt hpole epsPole_lt_one
  have hreg := (sig_lt_one_iff lat (by linarith [pi_pos]) hlat1).mp hs1
  have hmod : (2 * k + 1) % 8 = 2 * k + 1 := Nat.mod_eq_of_lt (by omega)
  have hX : (projQ k x lat).1 = (x - (2 * k + 1)) * sig lat + (2 * k + 1) := by
    unfold projQ; rw [if_neg hreg, hmod]; push_cast; ring
  have hY : (projQ k x lat).2 = 2 - sig lat := by unfold projQ; rw [if_neg hreg]
  have hp1 : -1 < (x - (2 * k + 1)) * sig lat := by nlinarith
  have hp2 : (x - (2 * k + 1)) * sig lat < 1 := by nlinarith
  rw [hX, hY, unproj_pos _ _ k (by omega) (by linarith) (by linarith) (by linarith) (by linarith),
    if_neg (by linarith), show (2 : ℝ) - (2 - sig lat) = sig lat by ring, if_neg (not_lt.mpr hpole), hmod]
  congr 2
  · push_cast; ring
  · have h6 : 0 < Real.sqrt 6 := Real.sqrt_pos.mpr (by norm_num)
    have : sig lat * (1 / Real.sqrt 6) = Real.cos (1 / 2 * lat + π / 4) := by unfold sig; field_simp
    rw [this, Real.arccos_cos (by linarith [pi_pos]) (by linarith)]; ring

/-- **beyond the pole threshold, the poles `lat = ±π/2` included**: `unproj (proj (lon, lat)) = (X·π/4, lat)` where `X` is the
    projected abscissa: the latitude is recovered exactly, the longitude is the one of a point of the same facet quarter
    at distance `|pm1|·σ·π/4 ≤ EPS_POLE·π/4` of the facet centre (on the sphere: within `EPS_POLE²` of the input) -/
theorem unproj_proj_pole (lon lat : ℝ) (hlon : |lon| < 2 * π) (hlat0 : -(π / 2) ≤ lat) (hlat1 : lat ≤ π / 2)
    (hpole : Real.sqrt 6 * Real.cos (|lat| / 2 + π / 4) ≤ (Num.epsPole : ℝ)) :
    ∃ X Y, proj (α := ℝ) lon lat = some (X, Y) ∧ unproj (α := ℝ) X Y = some (X * (π / 4), lat) := by
  have ha0 := abs_nonneg lon
  have hb0 := abs_nonneg lat
  have hb1 : |lat| ≤ π / 2 := abs_le.mpr ⟨hlat0, hlat1⟩
  obtain ⟨hx0, hx8⟩ := lon_scaled_bounds |lon| ha0 hlon
  obtain ⟨k, hk, h1, h2⟩ := facet_exists _ hx0 4 hx8
  have hq := proj_pos' |lon| |lat| k (by omega) ha0 h1 h2 hb0 hb1
  have hsig : sig |lat| ≤ (Num.epsPole : ℝ) := by
    unfold sig; rw [show 1 / 2 * |lat| = |lat| / 2 by ring]; exact hpole
  have hu := unproj_projQ_pole k hk _ |lat| h1 h2 hb0 hb1 hsig
  obtain ⟨b1, b2, b3, b4, b5, b6, b7⟩ := projQ_bounds k _ |lat| h1 h2 hb0 hb1
  have hreg := (sig_lt_one_iff |lat| (by linarith [pi_pos]) hb1).mp (lt_of_le_of_lt hsig epsPole_lt_one)
  set X' := (projQ k (|lon| * (4 / π)) |lat|).1
  set Y' := (projQ k (|lon| * (4 / π)) |lat|).2
  refine ⟨sgn lon X', sgn lat Y', ?_, ?_⟩
  · rw [proj_sym, hq, Option.map_some]
  · have hlatpos : 0 < |lat| := lt_of_le_of_lt (Real.arcsin_nonneg.mpr (by norm_num)) (not_le.mp hreg)
    have := unproj_sgn_lift lon lat X' Y' _ _ b1 b3 hu (fun _ => b7 hreg) (fun _ => b5 hlatpos)
    rw [this, sgn_abs_self, sgn_mul_pos _ _ _ (by positivity)]

/-- at the pole itself the projected abscissa is the facet centre: `proj (lon, ±π/2) = (±(2k+1), ±2)` with
    `k = ⌊|lon|·2/π⌋`, and `unproj` returns the longitude `±(2k+1)·π/4` of that centre — "at the pole any longitude is the
    same point" -/
theorem unproj_proj_at_pole (lon lat : ℝ) (hlon : |lon| < 2 * π) (hlat : |lat| = π / 2) :
    ∃ k : ℕ, k < 4 ∧ (k : ℝ) ≤ |lon| * 2 / π ∧ |lon| * 2 / π < k + 1 ∧
      proj (α := ℝ) lon lat = some (sgn lon (2 * k + 1), sgn lat 2) ∧
      unproj (α := ℝ) (sgn lon (2 * k + 1)) (sgn lat 2) = some (sgn lon ((2 * k + 1) * (π / 4)), lat) := by
  have hpi := pi_pos
  have ha0 := abs_nonneg lon
  have hb0 := abs_nonneg lat
  have hb1 : |lat| ≤ π / 2 := le_of_eq hlat
  have hl := abs_le.mp hb1
  obtain ⟨hx0, hx8⟩ := lon_scaled_bounds |lon| ha0 hlon
  obtain ⟨k, hk, h1, h2⟩ := facet_exists _ hx0 4 hx8
  have e : |lon| * 2 / π = |lon| * (4 / π) / 2 := by field_simp; ring
  refine ⟨k, hk, by rw [e]; linarith, by rw [e]; linarith, ?_⟩
  have hq := proj_pos' |lon| |lat| k (by omega) ha0 h1 h2 hb0 hb1
  have hsig0 : sig |lat| = 0 := by rw [hlat]; exact sig_half_pi
  have hreg := (sig_lt_one_iff |lat| (by linarith) hb1).mp (by rw [hsig0]; norm_num)
  have hmod : (2 * k + 1) % 8 = 2 * k + 1 := Nat.mod_eq_of_lt (by omega)
  have hQ : projQ k (|lon| * (4 / π)) |lat| = ((2 * k + 1 : ℝ), (2 : ℝ)) := by
    unfold projQ; rw [if_neg hreg, hsig0, hmod]; push_cast; simp
  have hP : proj (α := ℝ) lon lat = some (sgn lon (2 * k + 1), sgn lat 2) := by
    rw [proj_sym, hq, hQ, Option.map_some]
  refine ⟨hP, ?_⟩
  obtain ⟨X, Y, hp, hu⟩ := unproj_proj_pole lon lat hlon hl.1 hl.2 (by
    have : sig |lat| = 0 := hsig0
    unfold sig at this; rw [show |lat| / 2 = 1 / 2 * |lat| by ring, this]; exact le_of_lt epsPole_pos)
  rw [hP, Option.some.injEq, Prod.mk.injEq] at hp
  obtain ⟨rfl, rfl⟩ := hp
  rw [hu, sgn_mul_pos _ _ _ (by positivity)]

#print axioms unproj_proj_full
#print axioms unproj_proj_pole
#print axioms unproj_proj_at_pole
end Hpx.Proj
