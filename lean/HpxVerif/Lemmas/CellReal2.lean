/-
C03 over the reals, second part: the back end of `hash_with_dxdy` (everything after `proj`) in the projection plane.
-/
import HpxVerif.Lemmas.CellReal

namespace Hpx.CellReal
open Hpx Hpx.Hash Hpx.Proj

/-! ## the back end of `hash_with_dxdy` -/

/-- everything `hash_with_dxdy` does after `proj` -/
def hashBack {α : Type} [Num α] (cfg : Cfg) (d : Nat) (xy0 : α × α) : Option (Nat × α × α) :=
  let xy := shiftRotateScale d (ensuresXIsPositive xy0.1, xy0.2)
  let ij := (Num.truncU64 xy.1, Num.truncU64 xy.2)
  let dx := xy.1 - Num.ofNat ij.1
  let dy := xy.2 - Num.ofNat ij.2
  let i0 := (ij.1 >>> d) % 256
  let j0 := (ij.2 >>> d) % 256
  match depth0Bits d 3 i0 j0 ij xy with
  | none => none
  | some d0bits =>
    let ns := Layer.nside d
    let i := (ij.1 &&& (Layer.xyMask d >>> d)) % 2 ^ 32
    let j := (ij.2 &&& (Layer.xyMask d >>> d)) % 2 ^ 32
    match Layer.zoc cfg d with
    | none => none
    | some c =>
      if cfg.debug && !(i < ns && j < ns) then none
      else some (d0bits ||| Layer.ij2h cfg c i j, dx, dy)

/-- the model's `hash_with_dxdy` is `proj` followed by `hashBack` (for every numeric instance) -/
theorem hashWithDxDy_eq {α : Type} [Num α] (cfg : Cfg) (d : Nat) (lon lat : α) :
    hashWithDxDy cfg d lon lat = (proj lon lat).bind (hashBack cfg d) := by
  unfold hashWithDxDy hashBack
  cases proj lon lat <;> rfl

/-! ## `depth0_bits` on integers -/

/-- base cell of the unit square `[I, I+1] × [J, J+1]` of the rotated plane, `3 ≤ I + J ≤ 5` -/
def baseOf (I J : ℕ) : ℕ := ((5 - (I + J)) * 4) + (if I + J = 5 then (I + 3) % 4 else I % 4)

theorem depth0Bits_normal (d fuel I J : ℕ) (ij : ℕ × ℕ) (xy : ℝ × ℝ) (h3 : 3 ≤ I + J) (h5 : I + J ≤ 5) :
    depth0Bits (α := ℝ) d (fuel + 1) I J ij xy = some (baseOf I J <<< (d <<< 1)) := by
  unfold depth0Bits baseOf
  have hm : (I + J) % 256 = I + J := by omega
  simp only [hm]
  have hS : I + J = 3 ∨ I + J = 4 ∨ I + J = 5 := by omega
  rcases hS with h | h | h <;> simp only [h] <;> norm_num [Nat.shiftLeft_eq] <;> omega

example : baseOf 1 4 = 0 ∧ baseOf 4 1 = 3 ∧ baseOf 0 4 = 4 ∧ baseOf 4 0 = 4 ∧ baseOf 3 1 = 7 ∧ baseOf 0 3 = 8 ∧
    baseOf 3 0 = 11 := by decide

end Hpx.CellReal
