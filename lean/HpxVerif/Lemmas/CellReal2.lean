/-
C03 over the reals, second part: the back end of `hash_with_dxdy` (everything after `proj`) in the projection plane.
-/
import HpxVerif.Lemmas.CellReal

namespace Hpx.CellReal
open Hpx Hpx.Hash Hpx.Proj

/-! ## the back end of `hash_with_dxdy` -/

/-- everything `hash_with_dxdy` does after `proj` -/
def hashBack {α : Type} [Num α] (cfg : Cfg) (d : Nat) (xy0 : α × α) : Option (Nat × α × α) :=
  let xy := shiftRotateScale d (ensuresXIsPositive xy0.1, xy0.2)
  let ij := (Num.truncU64 xy.1, Num.truncU64 xy.2)
  let dx := xy.1 - Num.ofNat ij.1
  let dy := xy.2 - Num.ofNat ij.2
  let i0 := (ij.1 >>> d) % 256
  let j0 := (ij.2 >>> d) % 256
  match depth0Bits d 3 i0 j0 ij xy with
  | none => none
  | some d0bits =>
    let ns := Layer.nside d
    let i := (ij.1 &&& (Layer.xyMask d >>> d)) % 2 ^ 32
    let j := (ij.2 &&& (Layer.xyMask d >>> d)) % 2 ^ 32
    match Layer.zoc cfg d with
    | none => none
    | some c =>
      if cfg.debug && !(i < ns && j < ns) then none
      else some (d0bits ||| Layer.ij2h cfg c i j, dx, dy)

/-- the model's `hash_with_dxdy` is `proj` followed by `hashBack` (for every numeric instance) -/
theorem hashWithDxDy_eq {α : Type} [Num α] (cfg : Cfg) (d : Nat) (lon lat : α) :
    hashWithDxDy cfg d lon lat = (proj lon lat).bind (hashBack cfg d) := by
  unfold hashWithDxDy hashBack
  cases proj lon lat <;> rfl

/-! ## `depth0_bits` on integers -/

/-- base cell of the unit square `[I, I+1] × [J, J+1]` of the rotated plane, `3 ≤ I + J ≤ 5` -/
def baseOf (I J : ℕ) : ℕ := ((5 - (I + J)) * 4) + (if I + J = 5 then (I + 3) % 4 else I % 4)

theorem depth0Bits_normal (d fuel I J : ℕ) (ij : ℕ × ℕ) (xy : ℝ × ℝ) (h3 : 3 ≤ I + J) (h5 : I + J ≤ 5) :
    depth0Bits (α := ℝ) d (fuel + 1) I J ij xy = some (baseOf I J <<< (d <<< 1)) := by
  unfold depth0Bits baseOf
  have hm : (I + J) % 256 = I + J := by omega
  simp only [hm]
  have hS : I + J = 3 ∨ I + J = 4 ∨ I + J = 5 := by omega
  rcases hS with h | h | h <;> simp only [h] <;> norm_num [Nat.shiftLeft_eq] <;> omega

example : baseOf 1 4 = 0 ∧ baseOf 4 1 = 3 ∧ baseOf 0 4 = 4 ∧ baseOf 4 0 = 4 ∧ baseOf 3 1 = 7 ∧ baseOf 0 3 = 8 ∧
    baseOf 3 0 = 11 := by decide

/-! ## the real-valued front part: rotation, scaling, truncation -/

theorem r_scale2 (x : ℝ) (k : ℤ) : Num.scale2 x k = x * (2 : ℝ) ^ k := rfl
theorem r_truncU64 (x : ℝ) : Num.truncU64 x = min ⌊max x 0⌋₊ (2 ^ 64 - 1) := rfl
theorem r_gt' (x y : ℝ) : Num.gt x y = decide (y < x) := rfl

theorem zpow_thn (d : ℕ) : (2 : ℝ) ^ (timeHalfNside d) = (2 : ℝ) ^ d / 2 := by
  unfold timeHalfNside
  cases d with
  | zero => norm_num
  | succ k =>
    have : ((k + 1 : ℕ) : ℤ) - 1 = (k : ℤ) := by push_cast; ring
    simp only [Nat.succ_pos, gt_iff_lt, if_true, this, zpow_natCast]
    rw [pow_succ]; ring

/-- rotated and scaled coordinates: `u = (X + Y + 1)·n/2`, `v = (Y − X + 9)·n/2` -/
noncomputable def uOf (d : ℕ) (X Y : ℝ) : ℝ := (X + Y + 1) * 2 ^ d / 2
noncomputable def vOf (d : ℕ) (X Y : ℝ) : ℝ := (Y - X + 9) * 2 ^ d / 2

/-- over ℝ the depth-0 multiplication by `0.5` and the exponent increment are the same scaling -/
theorem scaleByHalfNside_real (d : ℕ) (v : ℝ) : scaleByHalfNside (α := ℝ) d v = v * 2 ^ d / 2 := by
  unfold scaleByHalfNside
  by_cases h : d = 0
  · subst h
    simp only [if_true, r_half]; ring
  · simp only [h, if_false, r_scale2, zpow_thn]; ring

theorem srs_real (d : ℕ) (X Y : ℝ) : shiftRotateScale (α := ℝ) d (X, Y) = (uOf d X Y, vOf d X Y) := by
  unfold shiftRotateScale uOf vOf
  simp only [scaleByHalfNside_real, r_ofNat, r_one]
  ext <;> simp only <;> push_cast <;> ring

theorem trunc_floor (x : ℝ) (h0 : 0 ≤ x) (h : x < 2 ^ 63) : Num.truncU64 x = ⌊x⌋₊ := by
  rw [r_truncU64, max_eq_left h0]
  apply min_eq_left
  have : ⌊x⌋₊ < 2 ^ 63 := (Nat.floor_lt h0).mpr (by exact_mod_cast h)
  omega

theorem and_mask (a d : ℕ) (hd : d ≤ 29) : (a &&& (Layer.xyMask d / 2 ^ d)) % 2 ^ 32 = a % 2 ^ d := by
  rw [← Nat.shiftRight_eq_div_pow, xyMask_shr, Nat.and_two_pow_sub_one_eq_mod]
  apply Nat.mod_eq_of_lt
  have h1 : a % 2 ^ d < 2 ^ d := Nat.mod_lt _ (Nat.pos_of_ne_zero (by simp))
  have h2 : 2 ^ d ≤ 2 ^ 29 := Nat.pow_le_pow_right (by decide) hd
  omega

/-- the back end over ℝ: floors of `u`, `v`; the base-cell bits come from `depth0_bits` on the quotients by `n`, the
    in-cell coordinates are the remainders, the offsets the fractional parts -/
theorem hashBack_real (cfg : Cfg) (d : ℕ) (c : ZocClass) (X Y : ℝ) (hz : Layer.zoc cfg d = some c) (hd : d ≤ 29)
    (hX0 : 0 ≤ X) (hu0 : 0 ≤ uOf d X Y) (hv0 : 0 ≤ vOf d X Y) (hu6 : uOf d X Y < 6 * 2 ^ d) (hv6 : vOf d X Y < 6 * 2 ^ d) :
    hashBack (α := ℝ) cfg d (X, Y) =
      (depth0Bits (α := ℝ) d 3 (⌊uOf d X Y⌋₊ / 2 ^ d) (⌊vOf d X Y⌋₊ / 2 ^ d) (⌊uOf d X Y⌋₊, ⌊vOf d X Y⌋₊)
          (uOf d X Y, vOf d X Y)).map fun d0 =>
        (d0 ||| Layer.ij2h cfg c (⌊uOf d X Y⌋₊ % 2 ^ d) (⌊vOf d X Y⌋₊ % 2 ^ d),
          uOf d X Y - (⌊uOf d X Y⌋₊ : ℝ), vOf d X Y - (⌊vOf d X Y⌋₊ : ℝ)) := by
  have hp : (2 : ℝ) ^ d ≤ 2 ^ 29 := pow_le_pow_right₀ (by norm_num) hd
  have hbig : (6 : ℝ) * 2 ^ 29 < 2 ^ 63 := by norm_num
  have tu := trunc_floor (uOf d X Y) hu0 (by linarith)
  have tv := trunc_floor (vOf d X Y) hv0 (by linarith)
  have hpn : 0 < 2 ^ d := Nat.pos_of_ne_zero (by simp)
  have fu : ⌊uOf d X Y⌋₊ / 2 ^ d < 6 := by
    rw [Nat.div_lt_iff_lt_mul hpn]
    have : ⌊uOf d X Y⌋₊ < 6 * 2 ^ d := (Nat.floor_lt hu0).mpr (by push_cast; exact hu6)
    exact this
  have fv : ⌊vOf d X Y⌋₊ / 2 ^ d < 6 := by
    rw [Nat.div_lt_iff_lt_mul hpn]
    have : ⌊vOf d X Y⌋₊ < 6 * 2 ^ d := (Nat.floor_lt hv0).mpr (by push_cast; exact hv6)
    exact this
  have mu : ⌊uOf d X Y⌋₊ % 2 ^ d < 2 ^ d := Nat.mod_lt _ hpn
  have mv : ⌊vOf d X Y⌋₊ % 2 ^ d < 2 ^ d := Nat.mod_lt _ hpn
  unfold hashBack
  simp only [r_ensures, norm8_of_nonneg X hX0, srs_real, tu, tv, hz, Nat.shiftRight_eq_div_pow, and_mask _ d hd,
    Nat.mod_eq_of_lt (Nat.lt_trans fu (by decide : 6 < 256)), Nat.mod_eq_of_lt (Nat.lt_trans fv (by decide : 6 < 256)),
    nside_eq, mu, mv, decide_true, Bool.and_self, Bool.not_true, Bool.and_false, Bool.false_eq_true, if_false,
    r_ofNat]
  cases depth0Bits (α := ℝ) d 3 (⌊uOf d X Y⌋₊ / 2 ^ d) (⌊vOf d X Y⌋₊ / 2 ^ d) (⌊uOf d X Y⌋₊, ⌊vOf d X Y⌋₊)
    (uOf d X Y, vOf d X Y) <;> rfl

/-! ## the regular branches `k ∈ {0, 1, 2}` -/

/-- quotients (base-cell square), remainders (in-cell coordinates) and fractional parts (offsets) -/
noncomputable def hbI (d : ℕ) (X Y : ℝ) : ℕ := ⌊uOf d X Y⌋₊ / 2 ^ d
noncomputable def hbJ (d : ℕ) (X Y : ℝ) : ℕ := ⌊vOf d X Y⌋₊ / 2 ^ d
noncomputable def hbi (d : ℕ) (X Y : ℝ) : ℕ := ⌊uOf d X Y⌋₊ % 2 ^ d
noncomputable def hbj (d : ℕ) (X Y : ℝ) : ℕ := ⌊vOf d X Y⌋₊ % 2 ^ d
noncomputable def hbdx (d : ℕ) (X Y : ℝ) : ℝ := uOf d X Y - (⌊uOf d X Y⌋₊ : ℝ)
noncomputable def hbdy (d : ℕ) (X Y : ℝ) : ℝ := vOf d X Y - (⌊vOf d X Y⌋₊ : ℝ)

theorem baseOf_table : ∀ I, I < 6 → ∀ J, J < 6 → 3 ≤ I + J → I + J ≤ 5 → I < J + 5 → J < I + 5 →
    baseOf I J < 12 ∧ baseOf I J / 4 + (I + J) = 5 ∧
    I + 4 = J + (2 * (baseOf I J % 4) + (if baseOf I J / 4 = 1 then 0 else 1)) + (if I = 4 ∧ J = 0 then 8 else 0) := by
  intro I hI J hJ h3 h5 h1 h2
  interval_cases I <;> interval_cases J <;> first | omega | decide

theorem uv_ranges (d : ℕ) (X Y : ℝ) (hX0 : 0 ≤ X) (hX8 : X < 8) (_hY1 : -2 ≤ Y) (hY2 : Y ≤ 2) :
    uOf d X Y < 6 * 2 ^ d ∧ vOf d X Y < 6 * 2 ^ d := by
  have hp := pow_pos' d
  unfold uOf vOf
  constructor <;> nlinarith

/-- decomposition `u = n·I + i + dx`, with `i < n`, `0 ≤ dx < 1` -/
theorem floor_decomp (d : ℕ) (u : ℝ) (h0 : 0 ≤ u) :
    u = (2 : ℝ) ^ d * ((⌊u⌋₊ / 2 ^ d : ℕ) : ℝ) + ((⌊u⌋₊ % 2 ^ d : ℕ) : ℝ) + (u - (⌊u⌋₊ : ℝ)) ∧
    0 ≤ u - (⌊u⌋₊ : ℝ) ∧ u - (⌊u⌋₊ : ℝ) < 1 ∧ ⌊u⌋₊ % 2 ^ d < 2 ^ d := by
  have h := Nat.div_add_mod ⌊u⌋₊ (2 ^ d)
  have hr : ((2 ^ d * (⌊u⌋₊ / 2 ^ d) + ⌊u⌋₊ % 2 ^ d : ℕ) : ℝ) = (⌊u⌋₊ : ℝ) := by rw [h]
  push_cast at hr
  refine ⟨by linarith, by linarith [Nat.floor_le h0], by linarith [Nat.lt_floor_add_one u],
    Nat.mod_lt _ (Nat.pos_of_ne_zero (by simp))⟩

noncomputable def hbb (d : ℕ) (X Y : ℝ) : ℕ := baseOf (hbI d X Y) (hbJ d X Y)
/-- `8` for the half `X ≥ 7` of base cell 4 (square `(4, 0)`), else `0` -/
noncomputable def hbs (d : ℕ) (X Y : ℝ) : ℝ := if hbI d X Y = 4 ∧ hbJ d X Y = 0 then 8 else 0

/-- hypotheses on the plane point shared by the theorems below -/
structure PlaneDom (X Y : ℝ) : Prop where
  hX0 : 0 ≤ X
  hX8 : X < 8
  hY1 : -2 ≤ Y
  hY2 : Y ≤ 2
  hu0 : 0 ≤ X + Y + 1
  hv0 : 0 ≤ Y - X + 9

theorem PlaneDom.u0 {X Y : ℝ} (h : PlaneDom X Y) (d : ℕ) : 0 ≤ uOf d X Y := by
  have := h.hu0; unfold uOf; positivity
theorem PlaneDom.v0 {X Y : ℝ} (h : PlaneDom X Y) (d : ℕ) : 0 ≤ vOf d X Y := by
  have := h.hv0; unfold vOf; positivity

/-- decomposition of the rotated coordinates and ranges of the pieces -/
theorem hb_facts (d : ℕ) (X Y : ℝ) (h : PlaneDom X Y) :
    uOf d X Y = 2 ^ d * (hbI d X Y : ℝ) + (hbi d X Y : ℝ) + hbdx d X Y ∧
    vOf d X Y = 2 ^ d * (hbJ d X Y : ℝ) + (hbj d X Y : ℝ) + hbdy d X Y ∧
    0 ≤ hbdx d X Y ∧ hbdx d X Y < 1 ∧ 0 ≤ hbdy d X Y ∧ hbdy d X Y < 1 ∧
    hbi d X Y < 2 ^ d ∧ hbj d X Y < 2 ^ d ∧ hbI d X Y < 6 ∧ hbJ d X Y < 6 ∧
    hbI d X Y < hbJ d X Y + 5 ∧ hbJ d X Y < hbI d X Y + 5 := by
  have hp := pow_pos' d
  have hu0' := h.u0 d
  have hv0' := h.v0 d
  obtain ⟨hu6, hv6⟩ := uv_ranges d X Y h.hX0 h.hX8 h.hY1 h.hY2
  obtain ⟨eu, dx0, dx1, hi⟩ := floor_decomp d (uOf d X Y) hu0'
  obtain ⟨ev, dy0, dy1, hj⟩ := floor_decomp d (vOf d X Y) hv0'
  have hpn : 0 < 2 ^ d := Nat.pos_of_ne_zero (by simp)
  have fI : hbI d X Y < 6 := by
    unfold hbI; rw [Nat.div_lt_iff_lt_mul hpn]
    exact (Nat.floor_lt hu0').mpr (by push_cast; exact hu6)
  have fJ : hbJ d X Y < 6 := by
    unfold hbJ; rw [Nat.div_lt_iff_lt_mul hpn]
    exact (Nat.floor_lt hv0').mpr (by push_cast; exact hv6)
  refine ⟨eu, ev, dx0, dx1, dy0, dy1, hi, hj, fI, fJ, ?_, ?_⟩
  all_goals
    have eu' : uOf d X Y = 2 ^ d * (hbI d X Y : ℝ) + (hbi d X Y : ℝ) + hbdx d X Y := eu
    have ev' : vOf d X Y = 2 ^ d * (hbJ d X Y : ℝ) + (hbj d X Y : ℝ) + hbdy d X Y := ev
    have dx0' : 0 ≤ hbdx d X Y := dx0
    have dx1' : hbdx d X Y < 1 := dx1
    have dy0' : 0 ≤ hbdy d X Y := dy0
    have dy1' : hbdy d X Y < 1 := dy1
    have hi0 : (0 : ℝ) ≤ hbi d X Y := Nat.cast_nonneg _
    have hj0 : (0 : ℝ) ≤ hbj d X Y := Nat.cast_nonneg _
    have hi1 : (hbi d X Y : ℝ) ≤ 2 ^ d - 1 := cast_lt_pow hi
    have hj1 : (hbj d X Y : ℝ) ≤ 2 ^ d - 1 := cast_lt_pow hj
    have huv : uOf d X Y - vOf d X Y = (X - 4) * 2 ^ d := by unfold uOf vOf; ring
    have hXN1 : (X - 4) * 2 ^ d < 4 * 2 ^ d := by nlinarith [h.hX8]
    have hXN2 : -(4 * 2 ^ d) ≤ (X - 4) * 2 ^ d := by nlinarith [h.hX0]
  · have : ((hbI d X Y : ℝ) - hbJ d X Y) * 2 ^ d < 5 * 2 ^ d := by linarith
    have : (hbI d X Y : ℝ) - hbJ d X Y < 5 := lt_of_mul_lt_mul_right this hp.le
    have : (hbI d X Y : ℝ) < ((hbJ d X Y + 5 : ℕ) : ℝ) := by push_cast; linarith
    exact_mod_cast this
  · have : ((hbJ d X Y : ℝ) - hbI d X Y) * 2 ^ d < 5 * 2 ^ d := by linarith
    have : (hbJ d X Y : ℝ) - hbI d X Y < 5 := lt_of_mul_lt_mul_right this hp.le
    have : (hbJ d X Y : ℝ) < ((hbI d X Y + 5 : ℕ) : ℝ) := by push_cast; linarith
    exact_mod_cast this

/-- centre of the base cell of a regular square in terms of `(I, J)` -/
theorem hb_base (d : ℕ) (X Y : ℝ) (h : PlaneDom X Y) (h3 : 3 ≤ hbI d X Y + hbJ d X Y) (h5 : hbI d X Y + hbJ d X Y ≤ 5) :
    hbb d X Y < 12 ∧ baseY (hbb d X Y) = (hbI d X Y : ℝ) + hbJ d X Y - 4 ∧
    baseX (hbb d X Y) + hbs d X Y = (hbI d X Y : ℝ) - hbJ d X Y + 4 ∧ (hbs d X Y = 0 ∨ hbs d X Y = 8) := by
  obtain ⟨_, _, _, _, _, _, _, _, fI, fJ, hIJ1, hIJ2⟩ := hb_facts d X Y h
  obtain ⟨hb, tY, tX⟩ := baseOf_table _ fI _ fJ h3 h5 hIJ1 hIJ2
  refine ⟨hb, ?_, ?_, ?_⟩
  · unfold baseY hbb
    have : ((baseOf (hbI d X Y) (hbJ d X Y) / 4 + (hbI d X Y + hbJ d X Y) : ℕ) : ℝ) = 5 := by rw [tY]; norm_num
    push_cast at this
    linarith
  · unfold baseX hbb hbs
    have h := congrArg (fun n : ℕ => (n : ℝ)) tX
    simp only [Nat.cast_add, Nat.cast_ite] at h
    push_cast at h ⊢
    linarith
  · unfold hbs; split_ifs <;> simp

/-- pure algebra: the point `(dx, dy)` of the cell is the original plane point -/
theorem coo_recover (N X Y I J i j dx dy bx bY s : ℝ) (hN : 0 < N)
    (eu : (X + Y + 1) * N / 2 = N * I + i + dx) (ev : (Y - X + 9) * N / 2 = N * J + j + dy)
    (hbx : bx + s = I - J + 4) (hby : bY = I + J - 4) :
    bx + (i - j) / N + (dx - dy) / N = X - s ∧ bY + (i + j + 1 - N) / N + (dx + dy - 1) / N = Y := by
  have hne : N ≠ 0 := ne_of_gt hN
  constructor
  · have key : (i - j) + (dx - dy) = ((X - 4) - (I - J)) * N := by linarith
    rw [add_assoc, ← add_div, key, mul_div_assoc, div_self hne]; linarith
  · have key : (i + j + 1 - N) + (dx + dy - 1) = ((Y + 5) - (I + J) - 1) * N := by linarith
    rw [add_assoc, ← add_div, key, mul_div_assoc, div_self hne]; linarith

theorem inDiamond_of (cx cy N x y dx dy : ℝ) (hN : 0 < N) (hx : cx + (dx - dy) / N = x)
    (hy : cy + (dx + dy - 1) / N = y) (dx0 : 0 ≤ dx) (dx1 : dx ≤ 1) (dy0 : 0 ≤ dy) (dy1 : dy ≤ 1) :
    InDiamond cx cy (1 / N) x y := by
  subst hx hy
  unfold InDiamond
  rw [add_sub_cancel_left, add_sub_cancel_left, abs_div, abs_div, abs_of_pos hN, ← add_div,
    div_le_div_iff_of_pos_right hN]
  exact abs_diamond_unit dx dy dx0 dx1 dy0 dy1

/-- the value returned by the back end in the regular case -/
theorem hb_hash (cfg : Cfg) (d : ℕ) (c : ZocClass) (X Y : ℝ) (hz : Layer.zoc cfg d = some c) (hd : d ≤ 29)
    (h : PlaneDom X Y) (h3 : 3 ≤ hbI d X Y + hbJ d X Y) (h5 : hbI d X Y + hbJ d X Y ≤ 5) :
    hashBack (α := ℝ) cfg d (X, Y) =
      some ((hbb d X Y <<< (d <<< 1)) ||| Layer.ij2h cfg c (hbi d X Y) (hbj d X Y), hbdx d X Y, hbdy d X Y) := by
  obtain ⟨hu6, hv6⟩ := uv_ranges d X Y h.hX0 h.hX8 h.hY1 h.hY2
  rw [hashBack_real cfg d c X Y hz hd h.hX0 (h.u0 d) (h.v0 d) hu6 hv6]
  have := depth0Bits_normal d 2 (hbI d X Y) (hbJ d X Y) (⌊uOf d X Y⌋₊, ⌊vOf d X Y⌋₊) (uOf d X Y, vOf d X Y) h3 h5
  unfold hbI hbJ at this
  rw [this]
  rfl

/-- **`hash_with_dxdy_plane`, regular case.**  Let `(X, Y)` be a plane point with `0 ≤ X < 8`, `|Y| ≤ 2`, `X + Y + 1 ≥ 0`,
    `Y − X + 9 ≥ 0` whose rotated coordinates fall in a square `(I, J)` with `3 ≤ I + J ≤ 5` (branches `k = 2, 1, 0` of
    `depth0_bits`: always the case for a point of a base cell that is not on the north-east/north-west border of a
    north-cap base cell, see `sum_range_of_inBase`).  Then the back end of `hash_with_dxdy` returns
    `(b·4^d | ij2h(i, j), dx, dy)` with `b < 12`, `i, j < n`, `dx, dy ∈ [0, 1)`,
    `dx = (n/2)((Y − Yb) + (X − Xb) + 1) − i`, `dy = (n/2)((Y − Yb) − (X − Xb) + 1) − j` (`Xb` taken `+8` for the half
    `X ≥ 7` of base cell 4), and the point `(dx, dy)` of the cell `(b, i, j)` is exactly `(X, Y)`:
    `cooPt d b i j dx dy = (X, Y)`; in particular `(X, Y)` (abscissa modulo 8) lies in the closed diamond of the cell. -/
theorem hash_back_plane (cfg : Cfg) (d : ℕ) (c : ZocClass) (X Y : ℝ) (hz : Layer.zoc cfg d = some c) (hd : d ≤ 29)
    (h : PlaneDom X Y) (h3 : 3 ≤ hbI d X Y + hbJ d X Y) (h5 : hbI d X Y + hbJ d X Y ≤ 5) :
    hashBack (α := ℝ) cfg d (X, Y) =
      some ((hbb d X Y <<< (d <<< 1)) ||| Layer.ij2h cfg c (hbi d X Y) (hbj d X Y), hbdx d X Y, hbdy d X Y) ∧
    hbb d X Y < 12 ∧ hbi d X Y < 2 ^ d ∧ hbj d X Y < 2 ^ d ∧
    0 ≤ hbdx d X Y ∧ hbdx d X Y < 1 ∧ 0 ≤ hbdy d X Y ∧ hbdy d X Y < 1 ∧
    hbdx d X Y = 2 ^ d / 2 * ((Y - baseY (hbb d X Y)) + (X - (baseX (hbb d X Y) + hbs d X Y)) + 1) - hbi d X Y ∧
    hbdy d X Y = 2 ^ d / 2 * ((Y - baseY (hbb d X Y)) - (X - (baseX (hbb d X Y) + hbs d X Y)) + 1) - hbj d X Y ∧
    cooPt d (hbb d X Y) (hbi d X Y) (hbj d X Y) (hbdx d X Y) (hbdy d X Y) = (X, Y) ∧
    InDiamond (cellCx d (hbb d X Y) (hbi d X Y) (hbj d X Y)) (cellCy d (hbb d X Y) (hbi d X Y) (hbj d X Y)) (1 / 2 ^ d)
      (X - hbs d X Y) Y := by
  have hp := pow_pos' d
  obtain ⟨eu, ev, dx0, dx1, dy0, dy1, hi, hj, fI, fJ, hIJ1, hIJ2⟩ := hb_facts d X Y h
  obtain ⟨hb, bY, bX, hs⟩ := hb_base d X Y h h3 h5
  have eu2 : (X + Y + 1) * 2 ^ d / 2 = 2 ^ d * (hbI d X Y : ℝ) + (hbi d X Y : ℝ) + hbdx d X Y := eu
  have ev2 : (Y - X + 9) * 2 ^ d / 2 = 2 ^ d * (hbJ d X Y : ℝ) + (hbj d X Y : ℝ) + hbdy d X Y := ev
  obtain ⟨ex', ey'⟩ := coo_recover (2 ^ d) X Y (hbI d X Y) (hbJ d X Y) (hbi d X Y) (hbj d X Y) (hbdx d X Y) (hbdy d X Y)
    (baseX (hbb d X Y)) (baseY (hbb d X Y)) (hbs d X Y) hp eu2 ev2 bX bY
  have ex : cellCx d (hbb d X Y) (hbi d X Y) (hbj d X Y) + (hbdx d X Y - hbdy d X Y) / 2 ^ d = X - hbs d X Y := ex'
  have ey : cellCy d (hbb d X Y) (hbi d X Y) (hbj d X Y) + (hbdx d X Y + hbdy d X Y - 1) / 2 ^ d = Y := ey'
  refine ⟨hb_hash cfg d c X Y hz hd h h3 h5, hb, hi, hj, dx0, dx1, dy0, dy1, ?_, ?_, ?_, ?_⟩
  · rw [bY, bX]; linarith
  · rw [bY, bX]; linarith
  · unfold cooPt
    rw [ex, ey]
    congr 1
    unfold norm8
    rcases hs with h0 | h8 <;> [rw [h0]; rw [h8]]
    · simp [not_lt.mpr h.hX0]
    · have : X - 8 < 0 := by linarith [h.hX8]
      simp [this]
  · exact inDiamond_of _ _ _ _ _ _ _ hp ex ey dx0 dx1.le dy0 dy1.le

/-- **`sph_coo ∘ hash_with_dxdy` in the plane** (regular case): if the returned cell number decodes to the parts
    `(b, i, j)` it was built from (true for both z-order implementations by C18), `sph_coo` applied to the result of the
    back end un-projects exactly the original plane point -/
theorem hash_back_sph_coo (cfg : Cfg) (d : ℕ) (c : ZocClass) (X Y : ℝ) (hz : Layer.zoc cfg d = some c) (hd : d ≤ 29)
    (h : PlaneDom X Y) (h3 : 3 ≤ hbI d X Y + hbJ d X Y) (h5 : hbI d X Y + hbJ d X Y ≤ 5)
    (hash : ℕ) (dx dy : ℝ) (hres : hashBack (α := ℝ) cfg d (X, Y) = some (hash, dx, dy)) (hh : hash < Layer.nHash d)
    (hdec : Layer.decodeHash cfg d hash = some ⟨hbb d X Y, hbi d X Y, hbj d X Y⟩) :
    sphCoo (α := ℝ) cfg d hash dx dy = some (unprojT X Y) ∧ unproj X Y = some (unprojT X Y) := by
  obtain ⟨hval, hb, hi, hj, dx0, dx1, dy0, dy1, _, _, hcoo, _⟩ := hash_back_plane cfg d c X Y hz hd h h3 h5
  rw [hval] at hres
  have e := Option.some.inj hres
  have e1 : dx = hbdx d X Y := (congrArg (fun t => t.2.1) e).symm
  have e2 : dy = hbdy d X Y := (congrArg (fun t => t.2.2) e).symm
  subst e1 e2
  refine ⟨?_, unproj_eq X Y h.hY1 h.hY2⟩
  rw [(sph_coo_plane cfg d hash _ _ _ _ _ hh hdec hb hi hj dx0 dx1 dy0 dy1).1, hcoo]

/-! ## which plane points reach which branch of `depth0_bits` -/

/-- the unit square `[I, I+1] × [J, J+1]` of the rotated plane `(U, V) = ((X+Y+1)/2, (Y−X+9)/2)` occupied by base cell `b` -/
def sqOf (b : ℕ) : ℕ × ℕ := if b < 4 then (b + 1, 4 - b) else if b < 8 then (b - 4, 8 - b) else (b - 8, 11 - b)

theorem sqOf_table (b : ℕ) (hb : b < 12) :
    baseOf (sqOf b).1 (sqOf b).2 = b ∧ (sqOf b).1 + (sqOf b).2 + b / 4 = 5 ∧
    (sqOf b).1 + 4 = (sqOf b).2 + (2 * (b % 4) + (if b / 4 = 1 then 0 else 1)) := by
  interval_cases b <;> decide

theorem base_center_sq (b : ℕ) (hb : b < 12) :
    baseX b = ((sqOf b).1 : ℝ) - (sqOf b).2 + 4 ∧ baseY b = ((sqOf b).1 : ℝ) + (sqOf b).2 - 4 := by
  obtain ⟨_, t1, t2⟩ := sqOf_table b hb
  unfold baseX baseY
  have h1 := congrArg (fun n : ℕ => (n : ℝ)) t1
  have h2 := congrArg (fun n : ℕ => (n : ℝ)) t2
  simp only [Nat.cast_add] at h1 h2
  constructor
  · push_cast at h2 ⊢; linarith
  · push_cast at h1 ⊢; linarith

theorem l1_le_one (a b : ℝ) (h : |a| + |b| ≤ 1) : (-1 ≤ a + b ∧ a + b ≤ 1) ∧ (-1 ≤ b - a ∧ b - a ≤ 1) := by
  rcases abs_cases a with ⟨e1, _⟩ | ⟨e1, _⟩ <;> rcases abs_cases b with ⟨e2, _⟩ | ⟨e2, _⟩ <;>
    rw [e1, e2] at h <;> refine ⟨⟨?_, ?_⟩, ?_, ?_⟩ <;> linarith

/-- a point of the closed diamond of centre `(I − J + 4, I + J − 4)` has its scaled rotated coordinates in the closed
    square `[nI, n(I+1)] × [nJ, n(J+1)]` -/
theorem sq_of_diamond (d : ℕ) (I0 J0 X Y : ℝ) (h : InDiamond (I0 - J0 + 4) (I0 + J0 - 4) 1 X Y) :
    (2 ^ d * I0 ≤ uOf d X Y ∧ uOf d X Y ≤ 2 ^ d * (I0 + 1)) ∧ (2 ^ d * J0 ≤ vOf d X Y ∧ vOf d X Y ≤ 2 ^ d * (J0 + 1)) := by
  have hp := pow_pos' d
  obtain ⟨⟨a1, a2⟩, b1, b2⟩ := l1_le_one _ _ h
  unfold uOf vOf
  refine ⟨⟨?_, ?_⟩, ?_, ?_⟩ <;> nlinarith

theorem floor_sq (d I0 : ℕ) (u : ℝ) (h1 : 2 ^ d * (I0 : ℝ) ≤ u) (h2 : u ≤ 2 ^ d * ((I0 : ℝ) + 1)) :
    ⌊u⌋₊ / 2 ^ d = I0 + (if u = 2 ^ d * ((I0 : ℝ) + 1) then 1 else 0) := by
  have hpn : 0 < 2 ^ d := Nat.pos_of_ne_zero (by simp)
  have hp := pow_pos' d
  have hu0 : 0 ≤ u := le_trans (by positivity) h1
  by_cases he : u = 2 ^ d * ((I0 : ℝ) + 1)
  · simp only [he, if_true]
    have : (2 : ℝ) ^ d * ((I0 : ℝ) + 1) = ((2 ^ d * (I0 + 1) : ℕ) : ℝ) := by push_cast; ring
    rw [this, Nat.floor_natCast, Nat.mul_div_cancel_left _ hpn]
  · simp only [he, if_false, Nat.add_zero]
    have hlt : u < 2 ^ d * ((I0 : ℝ) + 1) := lt_of_le_of_ne h2 he
    apply Nat.le_antisymm
    · have : ⌊u⌋₊ / 2 ^ d < I0 + 1 := by
        rw [Nat.div_lt_iff_lt_mul hpn]
        apply (Nat.floor_lt hu0).mpr
        push_cast; linarith
      omega
    · rw [Nat.le_div_iff_mul_le hpn]
      apply Nat.le_floor
      push_cast; linarith

/-- **Which branch.**  For a point `(X, Y)`, `0 ≤ X < 8`, of the closed diamond of base cell `b`, the square indices
    computed by the code are those of `b`, plus one in `I` exactly when the point is on the north-east border
    `X + Y = Xb + Yb + 1` of `b`, plus one in `J` exactly when it is on the north-west border `Y − X = Yb − Xb + 1`.
    Hence `I + J = 5 − b/4 + [NE] + [NW]`: the branches `k = 3, 4` (and the final `none`) are never taken for a point
    of the projection domain in exact arithmetic; `k = −1` is taken exactly on the north-east and north-west borders
    of the north-cap base cells (pole excluded) and at the north vertex of the equatorial base cells; `k = −2`
    exactly at the north pole. -/
theorem inBase_branch (d b : ℕ) (X Y : ℝ) (hb : b < 12) (hX0 : 0 ≤ X) (hX8 : X < 8)
    (hin : InDiamond (baseX b) (baseY b) 1 X Y) :
    PlaneDom X Y ∧
    hbI d X Y = (sqOf b).1 + (if X + Y = baseX b + baseY b + 1 then 1 else 0) ∧
    hbJ d X Y = (sqOf b).2 + (if Y - X = baseY b - baseX b + 1 then 1 else 0) := by
  have hp := pow_pos' d
  obtain ⟨eX, eY⟩ := base_center_sq b hb
  have hin' := hin
  rw [eX, eY] at hin'
  obtain ⟨⟨u1, u2⟩, v1, v2⟩ := sq_of_diamond d _ _ X Y hin'
  obtain ⟨⟨a1, a2⟩, b1, b2⟩ := l1_le_one _ _ hin'
  have hI0 : (0 : ℝ) ≤ (sqOf b).1 := Nat.cast_nonneg _
  have hJ0 : (0 : ℝ) ≤ (sqOf b).2 := Nat.cast_nonneg _
  have hJ4 : ((sqOf b).1 : ℝ) + (sqOf b).2 ≤ 5 := by
    have := (sqOf_table b hb).2.1
    have : (sqOf b).1 + (sqOf b).2 ≤ 5 := by omega
    exact_mod_cast this
  have hJ3 : (3 : ℝ) ≤ ((sqOf b).1 : ℝ) + (sqOf b).2 := by
    have := (sqOf_table b hb).2.1
    have h4 : b / 4 ≤ 2 := by omega
    have : 3 ≤ (sqOf b).1 + (sqOf b).2 := by omega
    exact_mod_cast this
  refine ⟨⟨hX0, hX8, by linarith, by linarith, by linarith, by linarith⟩, ?_, ?_⟩
  · unfold hbI
    rw [floor_sq d _ _ u1 u2]
    congr 1
    have : (uOf d X Y = 2 ^ d * (((sqOf b).1 : ℝ) + 1)) ↔ (X + Y = baseX b + baseY b + 1) := by
      rw [eX, eY]; unfold uOf
      constructor
      · intro h
        have : (X + Y + 1 - 2 * (((sqOf b).1 : ℝ) + 1)) * 2 ^ d = 0 := by linarith
        rcases mul_eq_zero.mp this with h0 | h0
        · linarith
        · exact absurd h0 (ne_of_gt hp)
      · intro h
        have : X + Y + 1 = 2 * (((sqOf b).1 : ℝ) + 1) := by linarith
        rw [this]; ring
    simp only [this]
  · unfold hbJ
    rw [floor_sq d _ _ v1 v2]
    congr 1
    have : (vOf d X Y = 2 ^ d * (((sqOf b).2 : ℝ) + 1)) ↔ (Y - X = baseY b - baseX b + 1) := by
      rw [eX, eY]; unfold vOf
      constructor
      · intro h
        have : (Y - X + 9 - 2 * (((sqOf b).2 : ℝ) + 1)) * 2 ^ d = 0 := by linarith
        rcases mul_eq_zero.mp this with h0 | h0
        · linarith
        · exact absurd h0 (ne_of_gt hp)
      · intro h
        have : Y - X + 9 = 2 * (((sqOf b).2 : ℝ) + 1) := by linarith
        rw [this]; ring
    simp only [this]

/-- the same for the half `X ≥ 7` of base cell 4 (diamond of centre `(8, 0)`): square `(4, 0)`; its north-east border
    is outside `X < 8` -/
theorem inBase4_branch (d : ℕ) (X Y : ℝ) (hX0 : 0 ≤ X) (hX8 : X < 8) (hin : InDiamond 8 0 1 X Y) :
    PlaneDom X Y ∧ hbI d X Y = 4 ∧ hbJ d X Y = 0 + (if Y - X = -7 then 1 else 0) := by
  have hp := pow_pos' d
  have hin' : InDiamond ((4 : ℝ) - 0 + 4) (4 + 0 - 4) 1 X Y := by norm_num; exact hin
  obtain ⟨⟨u1, u2⟩, v1, v2⟩ := sq_of_diamond d _ _ X Y hin'
  obtain ⟨⟨a1, a2⟩, b1, b2⟩ := l1_le_one _ _ hin'
  refine ⟨⟨hX0, hX8, by linarith, by linarith, by linarith, by linarith⟩, ?_, ?_⟩
  · unfold hbI
    have := floor_sq d 4 _ (by push_cast; exact u1) (by push_cast; exact u2)
    rw [this]
    have hne : ¬ (uOf d X Y = 2 ^ d * (((4 : ℕ) : ℝ) + 1)) := by
      unfold uOf; intro h
      have : (X + Y + 1 - 10) * 2 ^ d = 0 := by push_cast at h; linarith
      rcases mul_eq_zero.mp this with h0 | h0
      · linarith
      · exact absurd h0 (ne_of_gt hp)
    rw [if_neg hne]
  · unfold hbJ
    have := floor_sq d 0 _ (by push_cast; exact v1) (by push_cast; exact v2)
    rw [this]
    congr 1
    have : (vOf d X Y = 2 ^ d * (((0 : ℕ) : ℝ) + 1)) ↔ (Y - X = -7) := by
      unfold vOf
      constructor
      · intro h
        have : (Y - X + 9 - 2) * 2 ^ d = 0 := by push_cast at h; linarith
        rcases mul_eq_zero.mp this with h0 | h0
        · linarith
        · exact absurd h0 (ne_of_gt hp)
      · intro h
        have : Y - X + 9 = 2 := by linarith
        rw [this]; push_cast; ring
    simp only [this]

/-- a point of base cell `b` that is neither on its north-east nor on its north-west border is in the regular case,
    and the base cell returned is `b` itself -/
theorem inBase_regular (d b : ℕ) (X Y : ℝ) (hb : b < 12) (hX0 : 0 ≤ X) (hX8 : X < 8)
    (hin : InDiamond (baseX b) (baseY b) 1 X Y) (hne : X + Y ≠ baseX b + baseY b + 1)
    (hnw : Y - X ≠ baseY b - baseX b + 1) :
    PlaneDom X Y ∧ 3 ≤ hbI d X Y + hbJ d X Y ∧ hbI d X Y + hbJ d X Y ≤ 5 ∧ hbb d X Y = b ∧ hbs d X Y = 0 := by
  obtain ⟨hdom, eI, eJ⟩ := inBase_branch d b X Y hb hX0 hX8 hin
  rw [if_neg hne, Nat.add_zero] at eI
  rw [if_neg hnw, Nat.add_zero] at eJ
  obtain ⟨t0, t1, t2⟩ := sqOf_table b hb
  have h4 : b / 4 ≤ 2 := by omega
  refine ⟨hdom, by rw [eI, eJ]; omega, by rw [eI, eJ]; omega, by unfold hbb; rw [eI, eJ, t0], ?_⟩
  unfold hbs
  rw [eI, eJ]
  have : ¬ ((sqOf b).1 = 4 ∧ (sqOf b).2 = 0) := by
    rintro ⟨h1, h2⟩; rw [h1, h2] at t1 t2; split_ifs at t2 <;> omega
  rw [if_neg this]

/-- the half `X ≥ 7` of base cell 4, off its north-west border -/
theorem inBase4_regular (d : ℕ) (X Y : ℝ) (hX0 : 0 ≤ X) (hX8 : X < 8) (hin : InDiamond 8 0 1 X Y) (hnw : Y - X ≠ -7) :
    PlaneDom X Y ∧ 3 ≤ hbI d X Y + hbJ d X Y ∧ hbI d X Y + hbJ d X Y ≤ 5 ∧ hbb d X Y = 4 ∧ hbs d X Y = 8 := by
  obtain ⟨hdom, eI, eJ⟩ := inBase4_branch d X Y hX0 hX8 hin
  rw [if_neg hnw] at eJ
  refine ⟨hdom, by omega, by omega, by unfold hbb; rw [eI, eJ]; decide, ?_⟩
  unfold hbs; rw [eI, eJ]; simp

/-! ## the special branches `k = −1`, `k = −2` (finding F11) -/

theorem depth0Bits_km1 (d fuel I J : ℕ) (ij : ℕ × ℕ) (xy : ℝ × ℝ) (h : I + J = 6) :
    depth0Bits (α := ℝ) d (fuel + 1) I J ij xy =
      if xy.2 - (ij.2 : ℝ) < xy.1 - (ij.1 : ℝ) then some (((((I + 255) % 256) &&& 3) <<< (d <<< 1)) ||| Layer.yMask d)
      else some (((((I + 2) % 256) &&& 3) <<< (d <<< 1)) ||| Layer.xMask d) := by
  unfold depth0Bits
  have hm : (I + J) % 256 = 6 := by omega
  simp only [hm, r_gt', r_ofNat]
  norm_num

theorem depth0Bits_km2 (d fuel I J : ℕ) (ij : ℕ × ℕ) (xy : ℝ × ℝ) (h : I + J = 7) :
    depth0Bits (α := ℝ) d (fuel + 1) I J ij xy =
      if I < 2 then none else some (((I - 2) <<< (d <<< 1)) ||| Layer.xyMask d) := by
  unfold depth0Bits
  have hm : (I + J) % 256 = 7 := by omega
  simp only [hm]
  norm_num

/-- value returned in the branch `k = −1` (`I + J = 6`), any configuration -/
theorem hb_hash_km1 (cfg : Cfg) (d : ℕ) (c : ZocClass) (X Y : ℝ) (hz : Layer.zoc cfg d = some c) (hd : d ≤ 29)
    (h : PlaneDom X Y) (h6 : hbI d X Y + hbJ d X Y = 6) :
    hashBack (α := ℝ) cfg d (X, Y) =
      some ((if hbdy d X Y < hbdx d X Y then ((((hbI d X Y + 255) % 256) &&& 3) <<< (d <<< 1)) ||| Layer.yMask d
              else ((((hbI d X Y + 2) % 256) &&& 3) <<< (d <<< 1)) ||| Layer.xMask d)
            ||| Layer.ij2h cfg c (hbi d X Y) (hbj d X Y), hbdx d X Y, hbdy d X Y) := by
  obtain ⟨hu6, hv6⟩ := uv_ranges d X Y h.hX0 h.hX8 h.hY1 h.hY2
  rw [hashBack_real cfg d c X Y hz hd h.hX0 (h.u0 d) (h.v0 d) hu6 hv6]
  have := depth0Bits_km1 d 2 (hbI d X Y) (hbJ d X Y) (⌊uOf d X Y⌋₊, ⌊vOf d X Y⌋₊) (uOf d X Y, vOf d X Y) h6
  unfold hbI hbJ at this
  rw [this]
  unfold hbdx hbdy
  split_ifs <;> rfl

/-- value returned in the branch `k = −2` (`I + J = 7`), any configuration -/
theorem hb_hash_km2 (cfg : Cfg) (d : ℕ) (c : ZocClass) (X Y : ℝ) (hz : Layer.zoc cfg d = some c) (hd : d ≤ 29)
    (h : PlaneDom X Y) (h7 : hbI d X Y + hbJ d X Y = 7) (hI : 2 ≤ hbI d X Y) :
    hashBack (α := ℝ) cfg d (X, Y) =
      some ((((hbI d X Y - 2) <<< (d <<< 1)) ||| Layer.xyMask d) ||| Layer.ij2h cfg c (hbi d X Y) (hbj d X Y),
            hbdx d X Y, hbdy d X Y) := by
  obtain ⟨hu6, hv6⟩ := uv_ranges d X Y h.hX0 h.hX8 h.hY1 h.hY2
  rw [hashBack_real cfg d c X Y hz hd h.hX0 (h.u0 d) (h.v0 d) hu6 hv6]
  have := depth0Bits_km2 d 2 (hbI d X Y) (hbJ d X Y) (⌊uOf d X Y⌋₊, ⌊vOf d X Y⌋₊) (uOf d X Y, vOf d X Y) h7
  unfold hbI hbJ at this
  rw [this, if_neg (by unfold hbI at hI; omega)]
  rfl

/-! ## examples -/

/-- depth 1, the point `(1/2, 1/4)` of base cell 4: regular case, the hypotheses of `hash_back_plane` hold -/
example : ∃ hash dx dy, hashBack (α := ℝ) {} 1 (1 / 2, 1 / 4) = some (hash, dx, dy) ∧ 0 ≤ dx ∧ dx < 1 ∧ 0 ≤ dy ∧ dy < 1 := by
  have hin : InDiamond (baseX 4) (baseY 4) 1 (1 / 2) (1 / 4) := by
    unfold InDiamond baseX baseY; norm_num [abs_of_nonneg]
  obtain ⟨hdom, h3, h5, _, _⟩ := inBase_regular 1 4 (1 / 2) (1 / 4) (by decide) (by norm_num) (by norm_num) hin
    (by unfold baseX baseY; norm_num) (by unfold baseX baseY; norm_num)
  obtain ⟨hv, _, _, _, a, b, c, e, _⟩ := hash_back_plane {} 1 .small (1 / 2) (1 / 4) (by decide) (by decide) hdom h3 h5
  exact ⟨_, _, _, hv, a, b, c, e⟩

/-- the point `(1/2, 3/2)` (north-west border of base cell 0, on the meridian 0) reaches the branch `k = −1` -/
example : hbI 1 (1 / 2) (3 / 2) + hbJ 1 (1 / 2) (3 / 2) = 6 := by
  have hin : InDiamond (baseX 0) (baseY 0) 1 (1 / 2) (3 / 2) := by
    unfold InDiamond baseX baseY; norm_num [abs_of_nonneg, abs_of_nonpos]
  obtain ⟨_, eI, eJ⟩ := inBase_branch 1 0 (1 / 2) (3 / 2) (by decide) (by norm_num) (by norm_num) hin
  rw [eI, eJ]
  unfold baseX baseY
  norm_num [sqOf]

#print axioms hashWithDxDy_eq
#print axioms hash_back_plane
#print axioms hash_back_sph_coo
#print axioms inBase_branch
#print axioms inBase4_branch
#print axioms inBase_regular
#print axioms inBase4_regular
#print axioms hb_hash_km1
#print axioms hb_hash_km2

end Hpx.CellReal
