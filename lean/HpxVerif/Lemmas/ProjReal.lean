/-
Real-valued round trips of the two HEALPix projections (C17): the model functions of `Model/Proj.lean` at `α := ℝ`.
-/
import HpxVerif.Model.Proj
import HpxVerif.Lemmas.NumReal
import Mathlib.Tactic.FieldSimp
import Mathlib.Tactic.IntervalCases

namespace Hpx.Proj
open Real

theorem r_two : (Num.two : ℝ) = 2 := by show ((2 : ℕ) : ℝ) = 2; norm_num
theorem r_one : (Num.one : ℝ) = 1 := by show ((1 : ℕ) : ℝ) = 1; norm_num
theorem r_half : (Num.half : ℝ) = 1 / 2 := lit_050
theorem r_sqrt6 : (Num.sqrt6 : ℝ) = Real.sqrt 6 := rfl
theorem r_oos6 : (Num.oneOverSqrt6 : ℝ) = 1 / Real.sqrt 6 := rfl
theorem r_pi4 : (Num.piOverFour : ℝ) = π / 4 := rfl
theorem r_hpi : (Num.halfPi : ℝ) = π / 2 := rfl
theorem r_cos (x : ℝ) : Num.cos x = Real.cos x := rfl
theorem r_sin (x : ℝ) : Num.sin x = Real.sin x := rfl
theorem r_acos (x : ℝ) : Num.acos x = Real.arccos x := rfl
theorem r_asin (x : ℝ) : Num.asin x = Real.arcsin x := rfl

/-- cylindrical equal-area part: `deproj_cea ∘ proj_cea = id` on `[-π/2, π/2]` -/
theorem deprojCea_projCea (x lat : ℝ) (h1 : -(π / 2) ≤ lat) (h2 : lat ≤ π / 2) :
    deprojCea (α := ℝ) (projCea (x, lat)) = (x, lat) := by
  unfold deprojCea projCea
  show (x, Real.arcsin (Real.sin lat * (3 / 2) * (2 / 3))) = (x, lat)
  rw [show Real.sin lat * (3 / 2) * (2 / 3) = Real.sin lat by ring, Real.arcsin_sin h1 h2]

/-- Collignon part: `deproj_collignon ∘ proj_collignon = id` for `|x| ≤ 1` and a latitude whose projected `2 − y`
    exceeds the pole threshold (true for every latitude below `π/2 − 1e-12`) -/
theorem deprojCollignon_projCollignon (x lat : ℝ) (hx1 : -1 ≤ x) (hx2 : x ≤ 1) (h1 : -(π / 2) ≤ lat) (h2 : lat ≤ π / 2)
    (hpole : (Num.epsPole : ℝ) < Real.sqrt 6 * Real.cos (1 / 2 * lat + π / 4)) (heps : 0 ≤ (Num.epsPole : ℝ)) :
    deprojCollignon (α := ℝ) (projCollignon (x, lat)) = (x, lat) := by
  unfold deprojCollignon projCollignon
  simp only [r_two, r_half, r_one, r_sqrt6, r_oos6, r_pi4, r_hpi, r_cos, r_acos]
  set Y := Real.sqrt 6 * Real.cos (1 / 2 * lat + π / 4) with hY
  have hsub : (2 : ℝ) - (2 - Y) = Y := by ring
  rw [hsub]
  have hYpos : 0 < Y := lt_of_le_of_lt heps hpole
  have h6 : 0 < Real.sqrt 6 := Real.sqrt_pos.mpr (by norm_num)
  have hgt : Num.gt Y (Num.epsPole : ℝ) = true := by show decide ((Num.epsPole : ℝ) < Y) = true; simpa using hpole
  simp only [hgt, if_true]
  have hdiv : x * Y / Y = x := by field_simp
  rw [hdiv]
  have hc1 : Num.gt x (1 : ℝ) = false := by show decide ((1 : ℝ) < x) = false; simpa using hx2
  have hc2 : Num.lt x (-(1 : ℝ)) = false := by show decide (x < -(1 : ℝ)) = false; simpa using hx1
  simp only [hc1, hc2, Bool.false_eq_true, if_false]
  have hcos : Y * (1 / Real.sqrt 6) = Real.cos (1 / 2 * lat + π / 4) := by rw [hY]; field_simp
  rw [hcos, Real.arccos_cos (by linarith) (by linarith)]
  congr 1; ring

theorem epsPole_pos : 0 < (Num.epsPole : ℝ) := by
  show 0 < ((F64.toRat Gen.cEpsPole : ℚ) : ℝ)
  rw [show Gen.cEpsPole = 0x3D3C25C268497682 from rfl,
    toRat_of_fields _ 979 0xC25C268497682 (by decide) (by decide) (by decide) (by decide)]
  positivity

/-- `pm1_offset_decompose` over ℝ on `[0, 8)`: the odd floor and the offset in `[-1, 1)` -/
theorem pm1OffsetDecompose_real (x : ℝ) (h0 : 0 ≤ x) (h8 : x < 8) :
    ∃ k : ℕ, k < 4 ∧ pm1OffsetDecompose (α := ℝ) x = (2 * k + 1, x - ((2 * k + 1 : ℕ) : ℝ)) ∧
      -1 ≤ x - ((2 * k + 1 : ℕ) : ℝ) ∧ x - ((2 * k + 1 : ℕ) : ℝ) < 1 := by
  unfold pm1OffsetDecompose
  show ∃ k : ℕ, k < 4 ∧ ((min ⌊max x 0⌋₊ 255 ||| 1) &&& 7, x - (((min ⌊max x 0⌋₊ 255 ||| 1 : ℕ)) : ℝ)) = _ ∧ _
  rw [max_eq_left h0]
  have hn : ⌊x⌋₊ < 8 := (Nat.floor_lt h0).mpr (by exact_mod_cast h8)
  have hle : (⌊x⌋₊ : ℝ) ≤ x := Nat.floor_le h0
  have hlt : x < (⌊x⌋₊ : ℝ) + 1 := Nat.lt_floor_add_one x
  have hmin : min ⌊x⌋₊ 255 = ⌊x⌋₊ := min_eq_left (by omega)
  rw [hmin]
  generalize ⌊x⌋₊ = n at *
  refine ⟨n / 2, by omega, ?_, ?_, ?_⟩
  · have e1 : n ||| 1 = 2 * (n / 2) + 1 := by interval_cases n <;> rfl
    have e2 : (n ||| 1) &&& 7 = 2 * (n / 2) + 1 := by interval_cases n <;> rfl
    rw [e2, e1]
  · have : ((2 * (n / 2) + 1 : ℕ) : ℝ) ≤ (n : ℝ) + 1 := by
      have : 2 * (n / 2) + 1 ≤ n + 1 := by omega
      exact_mod_cast this
    linarith
  · have : (n : ℝ) ≤ ((2 * (n / 2) + 1 : ℕ) : ℝ) := by
      have : n ≤ 2 * (n / 2) + 1 := by omega
      exact_mod_cast this
    linarith

theorem odd_unique (X : ℝ) (k k' : ℕ) (h1 : -1 ≤ X - ((2 * k + 1 : ℕ) : ℝ)) (h2 : X - ((2 * k + 1 : ℕ) : ℝ) < 1)
    (h3 : -1 ≤ X - ((2 * k' + 1 : ℕ) : ℝ)) (h4 : X - ((2 * k' + 1 : ℕ) : ℝ) < 1) : k = k' := by
  push_cast at h1 h2 h3 h4
  rcases Nat.lt_trichotomy k k' with h | h | h
  · have : (k : ℝ) + 1 ≤ k' := by exact_mod_cast h
    linarith
  · exact h
  · have : (k' : ℝ) + 1 ≤ k := by exact_mod_cast h
    linarith

theorem r_abs (x : ℝ) : Num.abs x = |x| := rfl
theorem r_signBit (x : ℝ) : Num.signBit x = decide (x < 0) := rfl
theorem r_orSign_false (x : ℝ) : Num.orSign x false = x := by show (if false = true then -|x| else x) = x; simp
theorem r_le (x y : ℝ) : Num.le x y = decide (x ≤ y) := rfl
theorem r_lt (x y : ℝ) : Num.lt x y = decide (x < y) := rfl
theorem r_fourOverPi : (Num.fourOverPi : ℝ) = 4 / π := rfl
theorem r_transitionLat : (Num.transitionLat : ℝ) = Real.arcsin (2 / 3) := rfl
theorem r_ofNat (n : ℕ) : (Num.ofNat n : ℝ) = (n : ℝ) := rfl
theorem r_ootz : (Num.oneOverTransitionZ : ℝ) = 3 / 2 := rfl
theorem r_tz : (Num.transitionZ : ℝ) = 2 / 3 := rfl

/-- in the polar region the Collignon ordinate factor is in `(0, 1)` -/
theorem collignon_y_lt_one (lat : ℝ) (h1 : Real.arcsin (2 / 3) < lat) (h2 : lat ≤ π / 2) :
    0 ≤ Real.sqrt 6 * Real.cos (1 / 2 * lat + π / 4) ∧ Real.sqrt 6 * Real.cos (1 / 2 * lat + π / 4) < 1 := by
  have hasin : 0 ≤ Real.arcsin (2 / 3) := Real.arcsin_nonneg.mpr (by norm_num)
  have hc : 0 ≤ Real.cos (1 / 2 * lat + π / 4) :=
    Real.cos_nonneg_of_neg_pi_div_two_le_of_le (by linarith [Real.pi_pos]) (by linarith)
  have h6 : 0 ≤ Real.sqrt 6 := Real.sqrt_nonneg 6
  refine ⟨mul_nonneg h6 hc, ?_⟩
  have hs : 2 / 3 < Real.sin lat := by
    have := Real.sin_lt_sin_of_lt_of_le_pi_div_two (by linarith [Real.pi_pos]) h2 h1
    rwa [Real.sin_arcsin (by norm_num) (by norm_num)] at this
  have hsq : (Real.sqrt 6 * Real.cos (1 / 2 * lat + π / 4)) ^ 2 < 1 := by
    rw [mul_pow, Real.sq_sqrt (by norm_num : (0 : ℝ) ≤ 6)]
    have hc2 : Real.cos (1 / 2 * lat + π / 4) ^ 2 = 1 / 2 + Real.cos (2 * (1 / 2 * lat + π / 4)) / 2 := Real.cos_sq _
    rw [hc2, show 2 * (1 / 2 * lat + π / 4) = lat + π / 2 by ring, Real.cos_add_pi_div_two]
    linarith
  nlinarith [mul_nonneg h6 hc]

/-- **`unproj ∘ proj = id` over ℝ** on the north-east quarter-domain `0 ≤ lon < 2π`, `0 ≤ lat ≤ π/2`, for every
    latitude on the near side of the pole threshold of the code (`√6·cos(lat/2 + π/4) > EPS_POLE`) -/
theorem unproj_proj_real (lon lat : ℝ) (hlon0 : 0 ≤ lon) (hlon1 : lon < 2 * π) (hlat0 : 0 ≤ lat) (hlat1 : lat ≤ π / 2)
    (hpole : (Num.epsPole : ℝ) < Real.sqrt 6 * Real.cos (1 / 2 * lat + π / 4)) :
    ∃ X Y, proj (α := ℝ) lon lat = some (X, Y) ∧ unproj (α := ℝ) X Y = some (lon, lat) := by
  have hpi := Real.pi_pos
  set x := lon * (4 / π) with hx
  have hx0 : 0 ≤ x := mul_nonneg hlon0 (by positivity)
  have hx8 : x < 8 := by
    rw [hx, ← sub_pos]
    have : 8 - lon * (4 / π) = (2 * π - lon) * (4 / π) := by field_simp; ring
    rw [this]; exact mul_pos (by linarith) (by positivity)
  obtain ⟨k, hk, hdec, hm1, hp1⟩ := pm1OffsetDecompose_real x hx0 hx8
  have hchk : checkLat (α := ℝ) lat = true := by
    unfold checkLat; rw [r_le, r_le, r_hpi]; simp; constructor <;> linarith
  have habs_lon : Num.abs lon = lon := by rw [r_abs, abs_of_nonneg hlon0]
  have habs_lat : Num.abs lat = lat := by rw [r_abs, abs_of_nonneg hlat0]
  have hs_lon : Num.signBit lon = false := by rw [r_signBit]; simpa using hlon0
  have hs_lat : Num.signBit lat = false := by rw [r_signBit]; simpa using hlat0
  set pm1 := x - ((2 * k + 1 : ℕ) : ℝ) with hpm1
  have hback : (pm1 + ((2 * k + 1 : ℕ) : ℝ)) * (π / 4) = lon := by
    rw [hpm1, hx]; field_simp; ring
  by_cases heq : lat ≤ Real.arcsin (2 / 3)
  · -- equatorial region
    have hreg : isInEquatorialRegion (α := ℝ) lat = true := by
      unfold isInEquatorialRegion; rw [r_le, r_transitionLat]; simpa using heq
    refine ⟨x, Real.sin lat * (3 / 2), ?_, ?_⟩
    · unfold proj
      simp only [hchk, Bool.not_true, Bool.false_eq_true, if_false, habs_lon, habs_lat, hs_lon, hs_lat, r_fourOverPi]
      rw [← hx, hdec]
      simp only [hreg, if_true]
      unfold applyOffsetAndSigns projCea
      simp only [r_orSign_false, r_ofNat, r_sin, r_ootz]
      have e : pm1 + ((2 * k + 1 : ℕ) : ℝ) = x := by rw [hpm1]; ring
      rw [e]
    · have hsin0 : 0 ≤ Real.sin lat := Real.sin_nonneg_of_nonneg_of_le_pi hlat0 (by linarith)
      have hsin : Real.sin lat ≤ 2 / 3 := by
        have := Real.sin_le_sin_of_le_of_le_pi_div_two (by linarith) (Real.arcsin_le_pi_div_two _) heq
        rwa [Real.sin_arcsin (by norm_num) (by norm_num)] at this
      set Y := Real.sin lat * (3 / 2) with hY
      have hY0 : 0 ≤ Y := by positivity
      have hY1 : Y ≤ 1 := by rw [hY]; linarith
      have hchkY : checkY (α := ℝ) Y = true := by
        unfold checkY; rw [r_le, r_le, r_two]; simp; constructor <;> linarith
      unfold unproj
      simp only [hchkY, Bool.not_true, Bool.false_eq_true, if_false]
      have hax : Num.abs x = x := by rw [r_abs, abs_of_nonneg hx0]
      have hay : Num.abs Y = Y := by rw [r_abs, abs_of_nonneg hY0]
      have hsx : Num.signBit x = false := by rw [r_signBit]; simpa using hx0
      have hsy : Num.signBit Y = false := by rw [r_signBit]; simpa using hY0
      simp only [hax, hay, hsx, hsy, hdec]
      have hle1 : Num.le Y (Num.one : ℝ) = true := by rw [r_le, r_one]; simpa using hY1
      simp only [hle1, if_true]
      have hcea : deprojCea (α := ℝ) (pm1, Y) = (pm1, lat) := by
        have := deprojCea_projCea pm1 lat (by linarith) hlat1
        unfold projCea at this
        simpa [r_sin, r_ootz, hY] using this
      rw [hcea]
      unfold applyOffsetAndSigns
      simp only [r_orSign_false, r_ofNat, r_pi4, hback]
  · -- polar cap
    have hgt : Real.arcsin (2 / 3) < lat := lt_of_not_ge heq
    have hreg : isInEquatorialRegion (α := ℝ) lat = false := by
      unfold isInEquatorialRegion; rw [r_le, r_transitionLat]; simpa using hgt
    obtain ⟨hy0, hy1⟩ := collignon_y_lt_one lat hgt hlat1
    set y' := Real.sqrt 6 * Real.cos (1 / 2 * lat + π / 4) with hy'
    have hy'pos : 0 < y' := lt_trans epsPole_pos hpole
    set X := pm1 * y' + ((2 * k + 1 : ℕ) : ℝ) with hX
    set Y := 2 - y' with hY
    have hprod1 : -1 ≤ pm1 * y' := by nlinarith
    have hprod2 : pm1 * y' < 1 := by nlinarith
    refine ⟨X, Y, ?_, ?_⟩
    · unfold proj
      simp only [hchk, Bool.not_true, Bool.false_eq_true, if_false, habs_lon, habs_lat, hs_lon, hs_lat, r_fourOverPi]
      rw [← hx, hdec]
      simp only [hreg, Bool.false_eq_true, if_false]
      unfold applyOffsetAndSigns projCollignon
      simp only [r_orSign_false, r_ofNat, r_sqrt6, r_cos, r_half, r_pi4, r_two]
      rw [hX, hY, hy']
    · have hX0 : 0 ≤ X := by
        have : (1 : ℝ) ≤ ((2 * k + 1 : ℕ) : ℝ) := by push_cast; linarith [(Nat.cast_nonneg k : (0 : ℝ) ≤ k)]
        rw [hX]; linarith
      have hX8 : X < 8 := by
        have : ((2 * k + 1 : ℕ) : ℝ) ≤ 7 := by
          have : 2 * k + 1 ≤ 7 := by omega
          exact_mod_cast this
        rw [hX]; linarith
      obtain ⟨k', hk', hdec', hm1', hp1'⟩ := pm1OffsetDecompose_real X hX0 hX8
      have hkk : k' = k := by
        apply odd_unique X k' k hm1' hp1'
        · rw [hX]; linarith
        · rw [hX]; linarith
      subst hkk
      have hY1 : 1 < Y := by rw [hY]; linarith
      have hY2 : Y ≤ 2 := by rw [hY]; linarith
      have hchkY : checkY (α := ℝ) Y = true := by
        unfold checkY; rw [r_le, r_le, r_two]; simp; constructor <;> linarith
      unfold unproj
      simp only [hchkY, Bool.not_true, Bool.false_eq_true, if_false]
      have hax : Num.abs X = X := by rw [r_abs, abs_of_nonneg hX0]
      have hay : Num.abs Y = Y := by rw [r_abs, abs_of_nonneg (by linarith)]
      have hsx : Num.signBit X = false := by rw [r_signBit]; simpa using hX0
      have hsy : Num.signBit Y = false := by rw [r_signBit]; simp; linarith
      simp only [hax, hay, hsx, hsy, hdec']
      have hle1 : Num.le Y (Num.one : ℝ) = false := by rw [r_le, r_one]; simpa using hY1
      simp only [hle1, Bool.false_eq_true, if_false]
      have hXm : X - ((2 * k' + 1 : ℕ) : ℝ) = pm1 * y' := by rw [hX]; ring
      rw [hXm]
      have hcol : deprojCollignon (α := ℝ) (pm1 * y', Y) = (pm1, lat) := by
        have := deprojCollignon_projCollignon pm1 lat hm1 (le_of_lt hp1) (by linarith) hlat1 hpole (le_of_lt epsPole_pos)
        unfold projCollignon at this
        simpa [r_sqrt6, r_cos, r_half, r_pi4, r_two, hy', hY] using this
      rw [hcol]
      unfold applyOffsetAndSigns
      simp only [r_orSign_false, r_ofNat, r_pi4, hback]

end Hpx.Proj
