import HpxVerif.Lemmas.RingBij2

/-!
# NESTED <-> RING conversion, level of parts: surjectivity of `to_ring`, `to_ring ∘ from_ring = id`, RING order
-/

namespace Hpx.RingBij
open Hpx Hpx.Layer

/-! ## every RING number has valid parts -/

theorem ring_exists (ns : Nat) (hns : 0 < ns) (r : Nat) (hr : r < 12 * (ns * ns)) :
    ∃ t, t + 1 < 4 * ns ∧ ringStart ns t ≤ r ∧ r < ringStart ns t + ringLen ns t := by
  have key : ∀ n, n < 4 * ns → r < ringStart ns n → ∃ t, t < n ∧ ringStart ns t ≤ r ∧ r < ringStart ns (t + 1) := by
    intro n
    induction n with
    | zero => intro _ h; simp [ringStart, hns, tri4] at h
    | succ n ih =>
      intro hn h
      by_cases c : r < ringStart ns n
      · obtain ⟨t, h1, h2⟩ := ih (by omega) c
        exact ⟨t, by omega, h2⟩
      · exact ⟨n, by omega, by omega, h⟩
  obtain ⟨t, h1, h2, h3⟩ := key (4 * ns - 1) (by omega) (by rw [ringStart_last ns hns]; exact hr)
  rw [ringStart_succ ns t hns (by omega)] at h3
  exact ⟨t, by omega, h2, h3⟩

theorem surj_north (ns t x : Nat) (ht : t < ns) (hx : x < 4 * (t + 1)) :
    ∃ m i j, m < 4 ∧ i < ns ∧ j < ns ∧ ringOf ns ⟨4 * 0 + m, i, j⟩ = t ∧ inRing ns ⟨4 * 0 + m, i, j⟩ = x := by
  have hm : x / (t + 1) < 4 := (Nat.div_lt_iff_lt_mul (by omega)).2 hx
  have hk : x % (t + 1) < t + 1 := Nat.mod_lt _ (by omega)
  have hr : ringOf ns ⟨4 * 0 + x / (t + 1), ns - 1 - t + x % (t + 1), ns - 1 - x % (t + 1)⟩ = t := by
    rw [ringOf_mk _ _ _ _ _ hm]; omega
  refine ⟨x / (t + 1), ns - 1 - t + x % (t + 1), ns - 1 - x % (t + 1), hm, by omega, by omega, hr, ?_⟩
  unfold inRing
  dsimp only
  rw [hr, if_pos ht]
  have h1 : (4 * 0 + x / (t + 1)) % 4 = x / (t + 1) := by
    generalize x / (t + 1) = q at *; omega
  have h2 : ns - 1 - (ns - 1 - x % (t + 1)) = x % (t + 1) := by omega
  rw [h1, h2, Nat.mod_add_div]

theorem surj_south (ns t x : Nat) (ht : 3 * ns ≤ t + 1) (ht' : t + 1 < 4 * ns) (hx : x < 4 * (4 * ns - 1 - t)) :
    ∃ m i j, m < 4 ∧ i < ns ∧ j < ns ∧ ringOf ns ⟨4 * 2 + m, i, j⟩ = t ∧ inRing ns ⟨4 * 2 + m, i, j⟩ = x := by
  obtain ⟨u, hu⟩ : ∃ u, 4 * ns - 1 - t = u + 1 := ⟨4 * ns - 1 - t - 1, by omega⟩
  rw [hu] at hx
  have hm : x / (u + 1) < 4 := (Nat.div_lt_iff_lt_mul (by omega)).2 hx
  have hk : x % (u + 1) < u + 1 := Nat.mod_lt _ (by omega)
  have hr : ringOf ns ⟨4 * 2 + x / (u + 1), x % (u + 1), u - x % (u + 1)⟩ = t := by
    rw [ringOf_mk _ _ _ _ _ hm]; omega
  refine ⟨x / (u + 1), x % (u + 1), u - x % (u + 1), hm, by omega, by omega, hr, ?_⟩
  unfold inRing
  dsimp only
  rw [hr, if_neg (by omega), if_neg (by omega)]
  have h1 : (4 * 2 + x / (u + 1)) % 4 = x / (u + 1) := by
    generalize x / (u + 1) = q at *; omega
  have h2 : x % (u + 1) + (u - x % (u + 1)) + 1 = u + 1 := by omega
  rw [h1, h2, Nat.mod_add_div]

/-- base-cell row / column from the frame coordinates `(I0, J0)` (inverse of `eqI0`, `eqJ0`) -/
def kOf (I0 J0 : Nat) : Nat := 5 - (I0 + J0)
def mOf (I0 J0 : Nat) : Nat := if I0 + J0 = 5 then I0 - 1 else I0 % 4

theorem xNat_unique (d k m i j t x : Nat) (hk : k < 3) (hm : m < 4) (hi : i < nside d) (hj : j < nside d)
    (ht : t + (i + j + 2) = (k + 2) * nside d) (h1 : nside d ≤ t) (h2 : t + 2 ≤ 3 * nside d)
    (hrel : (k = 1 ∧ m = 0 ∧ i < j ∧ 2 * x + (t - nside d) % 2 + j = i + 8 * nside d) ∨
      (¬ (k = 1 ∧ m = 0 ∧ i < j) ∧
        2 * x + (t - nside d) % 2 + j = i + (2 * m + (if k = 1 then 0 else 1)) * nside d)) :
    xNat (nside d) ⟨4 * k + m, i, j⟩ / 2 = x := by
  have s := xNat_spec (nside d) k m i j hk hm hj
  have p := (toRing_eq d k m i j t hk hm hi hj ht h1 h2).2.1
  generalize xNat (nside d) ⟨4 * k + m, i, j⟩ = Y at *
  generalize (2 * m + (if k = 1 then 0 else 1)) * nside d = P at *
  omega

theorem surj_eq (d t x : Nat) (h1 : nside d ≤ t) (h2 : t + 2 ≤ 3 * nside d) (hx : x < 4 * nside d) :
    ∃ k m i j, k < 3 ∧ m < 4 ∧ i < nside d ∧ j < nside d ∧ t + (i + j + 2) = (k + 2) * nside d ∧
      xNat (nside d) ⟨4 * k + m, i, j⟩ / 2 = x := by
  have hns := nside_pos d
  -- frame coordinates
  obtain ⟨X, hX⟩ : ∃ X, X = 2 * x + (t - nside d) % 2 := ⟨_, rfl⟩
  obtain ⟨I, hI⟩ : ∃ I, 2 * I = 3 * nside d - 2 - t + X := ⟨(3 * nside d - 2 - t + X) / 2, by omega⟩
  obtain ⟨J, hJ⟩ : ∃ J, 2 * J + X = 3 * nside d - 2 - t + 8 * nside d :=
    ⟨(3 * nside d - 2 - t + 8 * nside d - X) / 2, by omega⟩
  have eI := Nat.mod_add_div I (nside d)
  have eJ := Nat.mod_add_div J (nside d)
  have hi := Nat.mod_lt I hns
  have hj := Nat.mod_lt J hns
  generalize I % nside d = i at *
  generalize J % nside d = j at *
  have hI0 : I / nside d < 5 := by
    apply Nat.lt_of_mul_lt_mul_left (a := nside d); omega
  have hJ0 : J / nside d < 5 := by
    apply Nat.lt_of_mul_lt_mul_left (a := nside d); omega
  generalize I / nside d = I0 at *
  generalize J / nside d = J0 at *
  obtain ⟨k, hk⟩ : ∃ k, k = kOf I0 J0 := ⟨_, rfl⟩
  obtain ⟨m, hm⟩ : ∃ m, m = mOf I0 J0 := ⟨_, rfl⟩
  refine ⟨k, m, i, j, ?_⟩
  have hI0' : I0 = 0 ∨ I0 = 1 ∨ I0 = 2 ∨ I0 = 3 ∨ I0 = 4 := by omega
  have hJ0' : J0 = 0 ∨ J0 = 1 ∨ J0 = 2 ∨ J0 = 3 ∨ J0 = 4 := by omega
  rcases hI0' with rfl | rfl | rfl | rfl | rfl <;> rcases hJ0' with rfl | rfl | rfl | rfl | rfl
  all_goals simp only [kOf, mOf, Nat.reduceAdd, Nat.reduceSub, Nat.reduceMod, Nat.reduceEqDiff, if_true, if_false]
    at hk hm
  all_goals subst hk hm
  all_goals first
    | (exfalso; omega)
    | (refine ⟨by omega, by omega, hi, hj, by omega, ?_⟩
       apply xNat_unique d _ _ i j t x (by omega) (by omega) hi hj (by omega) h1 h2
       simp only [Nat.reduceEqDiff, if_true, if_false, Nat.reduceMul, Nat.reduceAdd, false_and, true_and, false_or,
         not_false_eq_true]
       omega)

theorem valid_of_mk (d k m i j : Nat) (hk : k < 3) (hm : m < 4) (hi : i < nside d) (hj : j < nside d) :
    Valid d ⟨4 * k + m, i, j⟩ := by
  rw [nside_eq] at hi hj
  exact ⟨by dsimp only; omega, hi, hj⟩

/-- every RING number of the depth is the image of valid parts (every depth) -/
theorem toRing_surj (d r : Nat) (hr : r < 12 * 4 ^ d) : ∃ p, Valid d p ∧ toRingParts d p = some r := by
  have hns := nside_pos d
  rw [four_pow_eq] at hr
  obtain ⟨t, ht, h1, h2⟩ := ring_exists (nside d) hns r hr
  obtain ⟨x, rfl⟩ : ∃ x, r = ringStart (nside d) t + x := ⟨r - ringStart (nside d) t, by omega⟩
  have hx : x < ringLen (nside d) t := by omega
  suffices h : ∃ k m i j, k < 3 ∧ m < 4 ∧ i < nside d ∧ j < nside d ∧ ringOf (nside d) ⟨4 * k + m, i, j⟩ = t ∧
      inRing (nside d) ⟨4 * k + m, i, j⟩ = x by
    obtain ⟨k, m, i, j, hk, hm, hi, hj, e1, e2⟩ := h
    refine ⟨⟨4 * k + m, i, j⟩, valid_of_mk d k m i j hk hm hi hj, ?_⟩
    rw [(toRing_spec_mk d k m i j hk hm hi hj).1, e1, e2]
  unfold ringLen at hx
  by_cases c1 : t < nside d
  · rw [if_pos c1] at hx
    obtain ⟨m, i, j, hm, hi, hj, e1, e2⟩ := surj_north (nside d) t x c1 hx
    exact ⟨0, m, i, j, by omega, hm, hi, hj, e1, e2⟩
  by_cases c2 : t + 1 < 3 * nside d
  · rw [if_neg c1, if_pos c2] at hx
    obtain ⟨k, m, i, j, hk, hm, hi, hj, e1, e2⟩ := surj_eq d t x (by omega) (by omega) hx
    have hr : ringOf (nside d) ⟨4 * k + m, i, j⟩ = t := by rw [ringOf_mk _ _ _ _ _ hm]; omega
    refine ⟨k, m, i, j, hk, hm, hi, hj, hr, ?_⟩
    unfold inRing
    dsimp only
    rw [hr, if_neg c1, if_pos c2, e2]
  · rw [if_neg c1, if_neg c2] at hx
    obtain ⟨m, i, j, hm, hi, hj, e1, e2⟩ := surj_south (nside d) t x (by omega) ht hx
    exact ⟨2, m, i, j, by omega, hm, hi, hj, e1, e2⟩

/-- **(3)** `to_ring ∘ from_ring = id` on `[0, 12·4^d)`, and `from_ring` produces valid parts (depth `≤ 32`) -/
theorem toRing_fromRing_parts (d : Nat) (RI : Nat → Nat) (hRI : ExactRI RI) (hd : d ≤ 32) (r : Nat)
    (hr : r < 12 * 4 ^ d) : ∃ p, fromRingParts d RI r = some p ∧ Valid d p ∧ toRingParts d p = some r := by
  obtain ⟨p, hv, hp⟩ := toRing_surj d r hr
  exact ⟨p, fromRing_toRing_parts d RI hRI hd p hv r hp, hv, hp⟩

/-! ## the RING order -/

theorem inRing_lt_iff (d k m i j k' m' i' j' : Nat) (hk : k < 3) (hm : m < 4) (hi : i < nside d) (hj : j < nside d)
    (hk' : k' < 3) (hm' : m' < 4) (hi' : i' < nside d) (hj' : j' < nside d)
    (ht : ringOf (nside d) ⟨4 * k + m, i, j⟩ = ringOf (nside d) ⟨4 * k' + m', i', j'⟩) :
    inRing (nside d) ⟨4 * k + m, i, j⟩ < inRing (nside d) ⟨4 * k' + m', i', j'⟩ ↔
      xNat (nside d) ⟨4 * k + m, i, j⟩ < xNat (nside d) ⟨4 * k' + m', i', j'⟩ := by
  have hns := nside_pos d
  have e1 : (4 * k + m) % 4 = m := by omega
  have e1' : (4 * k' + m') % 4 = m' := by omega
  have hK : k = 0 ∨ k = 1 ∨ k = 2 := by omega
  have hK' : k' = 0 ∨ k' = 1 ∨ k' = 2 := by omega
  have hM : m = 0 ∨ m = 1 ∨ m = 2 ∨ m = 3 := by omega
  have hM' : m' = 0 ∨ m' = 1 ∨ m' = 2 ∨ m' = 3 := by omega
  have s := xNat_spec (nside d) k m i j hk hm hj
  have s' := xNat_spec (nside d) k' m' i' j' hk' hm' hj'
  unfold inRing
  dsimp only
  rw [← ht, e1, e1']
  have hr := ringOf_mk (nside d) k m i j hm
  have hr' := ringOf_mk (nside d) k' m' i' j' hm'
  rw [← ht] at hr'
  generalize ringOf (nside d) ⟨4 * k + m, i, j⟩ = t at *
  clear ht
  by_cases c1 : t < nside d
  · rw [if_pos c1, if_pos c1]
    have : k = 0 := by rcases hK with rfl | rfl | rfl <;> omega
    subst this
    have : k' = 0 := by rcases hK' with rfl | rfl | rfl <;> omega
    subst this
    generalize xNat (nside d) ⟨4 * 0 + m, i, j⟩ = X at *
    generalize xNat (nside d) ⟨4 * 0 + m', i', j'⟩ = X' at *
    generalize nside d = ns at *
    rcases hM with rfl | rfl | rfl | rfl <;> rcases hM' with rfl | rfl | rfl | rfl
    all_goals simp only [Nat.reduceEqDiff, if_false, Nat.reduceMul, Nat.reduceAdd, false_and, true_and,
      false_or, not_false_eq_true] at s s'
    all_goals omega
  by_cases c2 : t + 1 < 3 * nside d
  · rw [if_neg c1, if_pos c2, if_neg c1, if_pos c2]
    have p := (toRing_eq d k m i j t hk hm hi hj (by rcases hK with rfl | rfl | rfl <;> omega) (by omega) (by omega)).2.1
    have p' := (toRing_eq d k' m' i' j' t hk' hm' hi' hj' (by rcases hK' with rfl | rfl | rfl <;> omega) (by omega)
      (by omega)).2.1
    omega
  · rw [if_neg c1, if_neg c2, if_neg c1, if_neg c2]
    have : k = 2 := by rcases hK with rfl | rfl | rfl <;> omega
    subst this
    have : k' = 2 := by rcases hK' with rfl | rfl | rfl <;> omega
    subst this
    generalize xNat (nside d) ⟨4 * 2 + m, i, j⟩ = X at *
    generalize xNat (nside d) ⟨4 * 2 + m', i', j'⟩ = X' at *
    generalize nside d = ns at *
    rcases hM with rfl | rfl | rfl | rfl <;> rcases hM' with rfl | rfl | rfl | rfl
    all_goals simp only [Nat.reduceEqDiff, if_false, Nat.reduceMul, Nat.reduceAdd, false_and, true_and,
      false_or, not_false_eq_true] at s s'
    all_goals omega

/-- the model's `centerXY` in closed form: `X = xNat`, `Y = 2·ns − 1 − ring` -/
theorem centerXY_mk (d k m i j : Nat) (hk : k < 3) (hm : m < 4) (hi : i < nside d) (hj : j < nside d) :
    centerXY d ⟨4 * k + m, i, j⟩ =
      ((xNat (nside d) ⟨4 * k + m, i, j⟩ : Int),
       2 * (nside d : Int) - 1 - (ringOf (nside d) ⟨4 * k + m, i, j⟩ : Int)) := by
  have e1 : (4 * k + m) % 4 = m := by omega
  have e2 : (4 * k + m) / 4 = k := by omega
  have hK : k = 0 ∨ k = 1 ∨ k = 2 := by omega
  have hM : m = 0 ∨ m = 1 ∨ m = 2 ∨ m = 3 := by omega
  have s := xNat_spec (nside d) k m i j hk hm hj
  have hr := ringOf_mk (nside d) k m i j hm
  unfold centerXY
  dsimp only
  rw [e1, e2, hr]
  generalize xNat (nside d) ⟨4 * k + m, i, j⟩ = X at *
  generalize nside d = ns at *
  rcases hK with rfl | rfl | rfl <;> rcases hM with rfl | rfl | rfl | rfl
  all_goals simp only [Nat.reduceEqDiff, if_true, if_false, Nat.reduceMul, Nat.reduceAdd, false_and, true_and,
      false_or, not_false_eq_true] at s ⊢
  all_goals (apply Prod.ext <;> dsimp only)
  all_goals (try split)
  all_goals omega

/-- **(4)** the RING number orders the cells by ring from north to south (decreasing `Y`) and, inside a ring, by
    increasing abscissa `X ∈ [0, 8·nside)` of the centre — `(X, Y) = centerXY d p`; every depth -/
theorem ring_order_parts (d : Nat) (p q : HashParts) (hp : Valid d p) (hq : Valid d q) (rp rq : Nat)
    (h1 : toRingParts d p = some rp) (h2 : toRingParts d q = some rq) :
    rp < rq ↔ ((centerXY d p).2 > (centerXY d q).2 ∨
      ((centerXY d p).2 = (centerXY d q).2 ∧ (centerXY d p).1 < (centerXY d q).1)) := by
  have hns := nside_pos d
  obtain ⟨k, m, hk, hm, e, hi, hj⟩ := valid_mk hp
  obtain ⟨k', m', hk', hm', e', hi', hj'⟩ := valid_mk hq
  obtain ⟨s1, s2, s3⟩ := toRing_spec d p hp
  obtain ⟨s1', s2', s3'⟩ := toRing_spec d q hq
  rw [h1] at s1; rw [h2] at s1'
  cases s1; cases s1'
  have hX : ringOf (nside d) p = ringOf (nside d) q →
      (inRing (nside d) p < inRing (nside d) q ↔ xNat (nside d) p < xNat (nside d) q) := by
    rw [e, e']; exact inRing_lt_iff d k m p.i p.j k' m' q.i q.j hk hm hi hj hk' hm' hi' hj'
  have c := centerXY_mk d k m p.i p.j hk hm hi hj
  have c' := centerXY_mk d k' m' q.i q.j hk' hm' hi' hj'
  rw [← e] at c; rw [← e'] at c'
  rw [c, c']
  dsimp only
  rcases Nat.lt_trichotomy (ringOf (nside d) p) (ringOf (nside d) q) with h | h | h
  · have := ringStart_next (nside d) hns h (by omega)
    constructor
    · intro _; left; omega
    · intro _; omega
  · have hX' := hX h
    rw [h] at s2 ⊢
    constructor
    · intro hlt; right; exact ⟨rfl, by omega⟩
    · intro hlt; omega
  · have := ringStart_next (nside d) hns h (by omega)
    constructor
    · intro _; omega
    · intro hlt; omega

end Hpx.RingBij
