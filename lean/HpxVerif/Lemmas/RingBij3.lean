import HpxVerif.Lemmas.RingBij2

/-!
# NESTED <-> RING conversion, level of parts: surjectivity of `to_ring`, `to_ring ∘ from_ring = id`, RING order
-/

namespace Hpx.RingBij
open Hpx Hpx.Layer

/-! ## every RING number has valid parts -/

theorem ring_exists (ns : Nat) (hns : 0 < ns) (r : Nat) (hr : r < 12 * (ns * ns)) :
    ∃ t, t + 1 < 4 * ns ∧ ringStart ns t ≤ r ∧ r < ringStart ns t + ringLen ns t := by
  have key : ∀ n, n < 4 * ns → r < ringStart ns n → ∃ t, t < n ∧ ringStart ns t ≤ r ∧ r < ringStart ns (t + 1) := by
    intro n
    induction n with
    | zero => intro _ h; simp [ringStart, hns, tri4] at h
    | succ n ih =>
      intro hn h
      by_cases c : r < ringStart ns n
      · obtain ⟨t, h1, h2⟩ := ih (by omega) c
        exact ⟨t, by omega, h2⟩
      · exact ⟨n, by omega, by omega, h⟩
  obtain ⟨t, h1, h2, h3⟩ := key (4 * ns - 1) (by omega) (by rw [ringStart_last ns hns]; exact hr)
  rw [ringStart_succ ns t hns (by omega)] at h3
  exact ⟨t, by omega, h2, h3⟩

theorem surj_north (ns t x : Nat) (ht : t < ns) (hx : x < 4 * (t + 1)) :
    ∃ m i j, m < 4 ∧ i < ns ∧ j < ns ∧ ringOf ns ⟨4 * 0 + m, i, j⟩ = t ∧ inRing ns ⟨4 * 0 + m, i, j⟩ = x := by
  have hm : x / (t + 1) < 4 := (Nat.div_lt_iff_lt_mul (by omega)).2 hx
  have hk : x % (t + 1) < t + 1 := Nat.mod_lt _ (by omega)
  have hr : ringOf ns ⟨4 * 0 + x / (t + 1), ns - 1 - t + x % (t + 1), ns - 1 - x % (t + 1)⟩ = t := by
    rw [ringOf_mk _ _ _ _ _ hm]; omega
  refine ⟨x / (t + 1), ns - 1 - t + x % (t + 1), ns - 1 - x % (t + 1), hm, by omega, by omega, hr, ?_⟩
  unfold inRing
  dsimp only
  rw [hr, if_pos ht]
  have h1 : (4 * 0 + x / (t + 1)) % 4 = x / (t + 1) := by
    generalize x / (t + 1) = q at *; omega
  have h2 : ns - 1 - (ns - 1 - x % (t + 1)) = x % (t + 1) := by omega
  rw [h1, h2, Nat.mod_add_div]

theorem surj_south (ns t x : Nat) (ht : 3 * ns ≤ t + 1) (ht' : t + 1 < 4 * ns) (hx : x < 4 * (4 * ns - 1 - t)) :
    ∃ m i j, m < 4 ∧ i < ns ∧ j < ns ∧ ringOf ns ⟨4 * 2 + m, i, j⟩ = t ∧ inRing ns ⟨4 * 2 + m, i, j⟩ = x := by
  obtain ⟨u, hu⟩ : ∃ u, 4 * ns - 1 - t = u + 1 := ⟨4 * ns - 1 - t - 1, by omega⟩
  rw [hu] at hx
  have hm : x / (u + 1) < 4 := (Nat.div_lt_iff_lt_mul (by omega)).2 hx
  have hk : x % (u + 1) < u + 1 := Nat.mod_lt _ (by omega)
  have hr : ringOf ns ⟨4 * 2 + x / (u + 1), x % (u + 1), u - x % (u + 1)⟩ = t := by
    rw [ringOf_mk _ _ _ _ _ hm]; omega
  refine ⟨x / (u + 1), x % (u + 1), u - x % (u + 1), hm, by omega, by omega, hr, ?_⟩
  unfold inRing
  dsimp only
  rw [hr, if_neg (by omega), if_neg (by omega)]
  have h1 : (4 * 2 + x / (u + 1)) % 4 = x / (u + 1) := by
    generalize x / (u + 1) = q at *; omega
  have h2 : x % (u + 1) + (u - x % (u + 1)) + 1 = u + 1 := by omega
  rw [h1, h2, Nat.mod_add_div]

/-- base-cell row / column from the frame coordinates `(I0, J0)` (inverse of `eqI0`, `eqJ0`) -/
def kOf (I0 J0 : Nat) : Nat := 5 - (I0 + J0)
def mOf (I0 J0 : Nat) : Nat := if I0 + J0 = 5 then I0 - 1 else I0 % 4

theorem xNat_unique (d k m i j t x : Nat) (hk : k < 3) (hm : m < 4) (hi : i < nside d) (hj : j < nside d)
    (ht : t + (i + j + 2) = (k + 2) * nside d) (h1 : nside d ≤ t) (h2 : t + 2 ≤ 3 * nside d)
    (hrel : (k = 1 ∧ m = 0 ∧ i < j ∧ 2 * x + (t - nside d) % 2 + j = i + 8 * nside d) ∨
      (¬ (k = 1 ∧ m = 0 ∧ i < j) ∧
        2 * x + (t - nside d) % 2 + j = i + (2 * m + (if k = 1 then 0 else 1)) * nside d)) :
    xNat (nside d) ⟨4 * k + m, i, j⟩ / 2 = x := by
  have s := xNat_spec (nside d) k m i j hk hm hj
  have p := (toRing_eq d k m i j t hk hm hi hj ht h1 h2).2.1
  generalize xNat (nside d) ⟨4 * k + m, i, j⟩ = Y at *
  generalize (2 * m + (if k = 1 then 0 else 1)) * nside d = P at *
  omega

theorem surj_eq (d t x : Nat) (h1 : nside d ≤ t) (h2 : t + 2 ≤ 3 * nside d) (hx : x < 4 * nside d) :
    ∃ k m i j, k < 3 ∧ m < 4 ∧ i < nside d ∧ j < nside d ∧ t + (i + j + 2) = (k + 2) * nside d ∧
      xNat (nside d) ⟨4 * k + m, i, j⟩ / 2 = x := by
  have hns := nside_pos d
  -- frame coordinates
  obtain ⟨X, hX⟩ : ∃ X, X = 2 * x + (t - nside d) % 2 := ⟨_, rfl⟩
  obtain ⟨I, hI⟩ : ∃ I, 2 * I = 3 * nside d - 2 - t + X := ⟨(3 * nside d - 2 - t + X) / 2, by omega⟩
  obtain ⟨J, hJ⟩ : ∃ J, 2 * J + X = 3 * nside d - 2 - t + 8 * nside d :=
    ⟨(3 * nside d - 2 - t + 8 * nside d - X) / 2, by omega⟩
  have eI := Nat.mod_add_div I (nside d)
  have eJ := Nat.mod_add_div J (nside d)
  have hi := Nat.mod_lt I hns
  have hj := Nat.mod_lt J hns
  generalize I % nside d = i at *
  generalize J % nside d = j at *
  have hI0 : I / nside d < 5 := by
    apply Nat.lt_of_mul_lt_mul_left (a := nside d); omega
  have hJ0 : J / nside d < 5 := by
    apply Nat.lt_of_mul_lt_mul_left (a := nside d); omega
  generalize I / nside d = I0 at *
  generalize J / nside d = J0 at *
  obtain ⟨k, hk⟩ : ∃ k, k = kOf I0 J0 := ⟨_, rfl⟩
  obtain ⟨m, hm⟩ : ∃ m, m = mOf I0 J0 := ⟨_, rfl⟩
  refine ⟨k, m, i, j, ?_⟩
  have hI0' : I0 = 0 ∨ I0 = 1 ∨ I0 = 2 ∨ I0 = 3 ∨ I0 = 4 := by omega
  have hJ0' : J0 = 0 ∨ J0 = 1 ∨ J0 = 2 ∨ J0 = 3 ∨ J0 = 4 := by omega
  rcases hI0' with rfl | rfl | rfl | rfl | rfl <;> rcases hJ0' with rfl | rfl | rfl | rfl | rfl
  all_goals simp only [kOf, mOf, Nat.reduceAdd, Nat.reduceSub, Nat.reduceMod, Nat.reduceEqDiff, if_true, if_false]
    at hk hm
  all_goals subst hk hm
  all_goals first
    | (exfalso; omega)
    | (refine ⟨by omega, by omega, hi, hj, by omega, ?_⟩
       apply xNat_unique d _ _ i j t x (by omega) (by omega) hi hj (by omega) h1 h2
       simp only [Nat.reduceEqDiff, if_true, if_false, Nat.reduceMul, Nat.reduceAdd, false_and, true_and, false_or,
         not_false_eq_true]
       omega)

end Hpx.RingBij
