/-
Cross-operator laws of the BMOC algebra (C07, C08), all corollaries of the four semantic theorems
(`and_sem`, `notCells_spec`, `or3_sem_all`, `orCells_some`) and of the canonical form of `pack`:

* `tri_de_morgan`, `tri_de_morgan'`      : Kleene's three-valued de Morgan laws on `Tri`;
* `and_inR`                               : the cells of `and` are in range when those of the first operand are;
* `de_morgan_or_not`                      : `(not a) or (not b)` denotes, cell by cell and with partial flags,
                                            the same three-valued set as `not (a and b)`;
* `de_morgan_and_not`                     : `(not a) and (not b)` denotes the same three-valued set as `not (a or b)`;
* `bmoc_or_comm_moc`                      : on plain MOCs the public `or` is commutative as a STRUCTURAL equality
                                            (same entries, bit for bit), thanks to the final `pack`.
-/
import HpxVerif.Lemmas.BmocOr2
import HpxVerif.Lemmas.BmocCanon
import HpxVerif.Lemmas.BmocXor3

namespace Hpx.Bmoc

theorem tri_de_morgan (s t : Tri) : Tri.not (Tri.min s t) = Tri.max (Tri.not s) (Tri.not t) := by
  cases s <;> cases t <;> rfl

theorem tri_de_morgan' (s t : Tri) : Tri.not (Tri.max s t) = Tri.min (Tri.not s) (Tri.not t) := by
  cases s <;> cases t <;> rfl

/-- every cell of `a and b` lies inside a cell of `a`, hence is in range when the cells of `a` are -/
theorem and_inR (D : Nat) (a b : List Cell) (ha : WF D a) (hb : WF D b) (hra : ∀ c ∈ a, InR c) :
    ∀ c ∈ andCells a b, InR c := by
  intro c hc
  obtain ⟨w, ins⟩ := and_wf_inside D a b ha hb
  obtain ⟨c', hm, _, h2⟩ := (ins c hc).1
  exact inR_of_hi D c (w.depth_le c hc)
    (Nat.le_trans h2 (Canon.hi_le_of_inR (ha.depth_le c' hm) (hra c' hm)))

/-- **de Morgan, first law, with partial flags**: whenever `(not a) or (not b)` is computed, it denotes the same
    three-valued set as `not (a and b)`, for every pair of well-formed in-range BMOC cell lists and every cell of the
    sphere at the reference depth; and it IS computed (`or` does not panic on complements) -/
theorem de_morgan_or_not (D : Nat) (hD : D ≤ 29) (a b : List Cell) (ha : WF D a) (hb : WF D b)
    (hra : ∀ c ∈ a, InR c) (hrb : ∀ c ∈ b, InR c) :
    ∃ l, orCellsUnpacked (notCells a) (notCells b) = some l ∧
      ∀ x, x < 12 * 4 ^ D → stOf D l x = stOf D (notCells (andCells a b)) x := by
  obtain ⟨sa, wa, ra⟩ := notCells_spec D hD a ha hra
  obtain ⟨sb, wb, rb⟩ := notCells_spec D hD b hb hrb
  obtain ⟨l, hl⟩ := orCells_some D hD _ _ wa wb ra rb
  refine ⟨l, hl, fun x hx => ?_⟩
  have wab := (and_wf_inside D a b ha hb).1
  have rab := and_inR D a b ha hb hra
  rw [or3_sem_all D hD _ _ wa wb ra rb l hl x, sa x hx, sb x hx,
    (notCells_spec D hD _ wab rab).1 x hx, and_sem D a b ha hb x, tri_de_morgan]

/-- **de Morgan, second law, with partial flags**: `(not a) and (not b)` denotes the same three-valued set as the
    complement of any computed `a or b` -/
theorem de_morgan_and_not (D : Nat) (hD : D ≤ 29) (a b : List Cell) (ha : WF D a) (hb : WF D b)
    (hra : ∀ c ∈ a, InR c) (hrb : ∀ c ∈ b, InR c) (l : List Cell) (hl : orCellsUnpacked a b = some l)
    (x : Nat) (hx : x < 12 * 4 ^ D) :
    stOf D (andCells (notCells a) (notCells b)) x = stOf D (notCells l) x := by
  obtain ⟨sa, wa, _⟩ := notCells_spec D hD a ha hra
  obtain ⟨sb, wb, _⟩ := notCells_spec D hD b hb hrb
  obtain ⟨wl, rl⟩ := or_wf D hD a b ha hb hra hrb l hl
  rw [and_sem D _ _ wa wb x, sa x hx, sb x hx, (notCells_spec D hD l wl rl).1 x hx,
    or3_sem_all D hD a b ha hb hra hrb l hl x, tri_de_morgan']

/-- **`or` is commutative on plain MOCs as a structural equality**: `a | b` and `b | a` are the same entries -/
theorem bmoc_or_comm_moc (A B : BMOC) (D : Nat) (hmax : max A.dmax B.dmax = D) (hD : D ≤ 29)
    (hwA : WF D A.cells) (hwB : WF D B.cells) (hrA : ∀ c ∈ A.cells, InR c) (hrB : ∀ c ∈ B.cells, InR c)
    (mA : ∀ c ∈ A.cells, c.full = true) (mB : ∀ c ∈ B.cells, c.full = true) :
    BMOC.or A B = BMOC.or B A ∧ (BMOC.or A B).isSome := by
  obtain ⟨l1, h1⟩ := orCells_some D hD _ _ hwA hwB hrA hrB
  obtain ⟨l2, h2⟩ := orCells_some D hD _ _ hwB hwA hrB hrA
  obtain ⟨w1, r1⟩ := or_wf D hD _ _ hwA hwB hrA hrB l1 h1
  obtain ⟨w2, r2⟩ := or_wf D hD _ _ hwB hwA hrB hrA l2 h2
  have f1 := (or_same_flag D hD _ _ hwA hwB hrA hrB true mA mB l1 h1).1
  have f2 := (or_same_flag D hD _ _ hwB hwA hrB hrA true mB mA l2 h2).1
  have hmax' : max B.dmax A.dmax = D := by rw [Nat.max_comm]; exact hmax
  have e := pack_eq_of_same_set D hD l1 l2 w1 w2 r1 r2 f1 f2 (fun x _ => by
    rw [or3_sem_all D hD _ _ hwA hwB hrA hrB l1 h1 x, or3_sem_all D hD _ _ hwB hwA hrB hrA l2 h2 x, tri_max_comm])
  unfold BMOC.or
  simp only [h1, h2, hmax, hmax', Option.map_some, e, Option.isSome_some, and_self]

theorem tri_xor_comm' (s t : Tri) : Tri.xor s t = Tri.xor t s := by
  cases s <;> cases t <;> rfl

/-- **`xor` is commutative on plain MOCs as a structural equality**: `a ^ b` and `b ^ a` are the same entries -/
theorem bmoc_xor_comm_moc (A B : BMOC) (D : Nat) (hmax : max A.dmax B.dmax = D) (hD : D ≤ 29)
    (hwA : WF D A.cells) (hwB : WF D B.cells) (hrA : ∀ c ∈ A.cells, InR c) (hrB : ∀ c ∈ B.cells, InR c)
    (mA : ∀ c ∈ A.cells, c.full = true) (mB : ∀ c ∈ B.cells, c.full = true) :
    BMOC.xor A B = BMOC.xor B A ∧ (BMOC.xor A B).isSome := by
  obtain ⟨l1, h1⟩ := xorCells_some D hD _ _ hwA hwB hrA hrB
  obtain ⟨l2, h2⟩ := xorCells_some D hD _ _ hwB hwA hrB hrA
  obtain ⟨w1, r1⟩ := xor_wf D hD _ _ hwA hwB hrA hrB l1 h1
  obtain ⟨w2, r2⟩ := xor_wf D hD _ _ hwB hwA hrB hrA l2 h2
  have af : ∀ (s : Tri), s ≠ .part → (s = .abs ∨ s = Tri.ofFlag true) := by
    intro s hs; cases s
    · exact Or.inl rfl
    · exact absurd rfl hs
    · exact Or.inr rfl
  have f1 : ∀ c ∈ l1, c.full = true :=
    flags_of_sem w1 (fun x => af _ (xor_moc D hD _ _ hwA hwB hrA hrB mA mB l1 h1 x).1)
  have f2 : ∀ c ∈ l2, c.full = true :=
    flags_of_sem w2 (fun x => af _ (xor_moc D hD _ _ hwB hwA hrB hrA mB mA l2 h2 x).1)
  have hmax' : max B.dmax A.dmax = D := by rw [Nat.max_comm]; exact hmax
  have e := pack_eq_of_same_set D hD l1 l2 w1 w2 r1 r2 f1 f2 (fun x _ => by
    rw [xor3_sem_all D hD _ _ hwA hwB hrA hrB l1 h1 x, xor3_sem_all D hD _ _ hwB hwA hrB hrA l2 h2 x, tri_xor_comm'])
  unfold BMOC.xor
  simp only [h1, h2, hmax, hmax', Option.map_some, e, Option.isSome_some, and_self]

theorem tri_xor_as_or_and_not (s t : Tri) : Tri.xor s t = Tri.min (Tri.max s t) (Tri.not (Tri.min s t)) := by
  cases s <;> cases t <;> rfl

/-- **`xor` in terms of the other three operators, with partial flags**: `a xor b` denotes the same three-valued set as
    `(a or b) and not (a and b)` -/
theorem xor_eq_or_and_not (D : Nat) (hD : D ≤ 29) (a b : List Cell) (ha : WF D a) (hb : WF D b)
    (hra : ∀ c ∈ a, InR c) (hrb : ∀ c ∈ b, InR c) (lo : List Cell) (hlo : orCellsUnpacked a b = some lo)
    (lx : List Cell) (hlx : xorCellsUnpacked a b = some lx) (x : Nat) (hx : x < 12 * 4 ^ D) :
    stOf D lx x = stOf D (andCells lo (notCells (andCells a b))) x := by
  obtain ⟨wlo, _⟩ := or_wf D hD a b ha hb hra hrb lo hlo
  have wab := (and_wf_inside D a b ha hb).1
  have rab := and_inR D a b ha hb hra
  obtain ⟨sn, wn, _⟩ := notCells_spec D hD _ wab rab
  rw [xor3_sem_all D hD a b ha hb hra hrb lx hlx x, and_sem D lo _ wlo wn x,
    or3_sem_all D hD a b ha hb hra hrb lo hlo x, sn x hx, and_sem D a b ha hb x, tri_xor_as_or_and_not]

end Hpx.Bmoc
