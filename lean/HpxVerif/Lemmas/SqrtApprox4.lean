import HpxVerif.Lemmas.SqrtApprox3
import HpxVerif.Lemmas.RingCenter

/-!
# C10/C11 without the hypothesis on `f64::sqrt`

`SqrtApprox3.approxOK_2_60` discharges `RingBij.ApproxOK (2 ^ 60)`; here are the hypothesis-free forms of the theorems
that carried it.
-/

namespace Hpx.SqrtApprox
open Hpx Hpx.Layer

/-- **NESTED <-> RING is a bijection at every depth `≤ 29`** (`RingBij.ring_bijection` without its hypothesis) -/
theorem ring_bijection (cfg : Cfg) (hb : cfg.bmi = false) (d : Nat) (hd : d ≤ 29) :
    (∀ h, h < 12 * 4 ^ d → ∃ r, toRing cfg d h = some r ∧ r < 12 * 4 ^ d ∧ fromRing cfg d r = some h) ∧
    (∀ r, r < 12 * 4 ^ d → ∃ h, fromRing cfg d r = some h ∧ h < 12 * 4 ^ d ∧ toRing cfg d h = some r) :=
  RingBij.ring_bijection cfg hb d hd approxOK_2_60

/-- **the ring-index function of the RING scheme (`f64` estimate + correction loops) is exact below `tri4 n`, for
    every `nside = n ≤ 2^29`** (not only powers of two): `RingReal.ringIndexExact_of_approx` without its hypothesis -/
theorem ringIndexExact (n : Nat) (hn : n ≤ 2 ^ 29) : RingReal.RingIndexExact n := by
  apply RingReal.ringIndexExact_of_approx
  intro x t hx h1 h2
  have hb : Ring.tri4 n < 2 ^ 60 := by
    have h := RingBij.tri4_mono hn
    have e : Layer.tri4 (2 ^ 29) < 2 ^ 60 := by decide
    rw [← RingCenter.tri4_same]
    omega
  exact approxOK_2_60 x t (by omega) h1 h2

/-- **C10, last clause, all depths `≤ 29`** (`RingCenter.ring_scheme_same_cells` without its hypothesis): the RING and
    NESTED schemes describe the same cells, with the same centres in the plane and on the sphere -/
theorem ring_scheme_same_cells (debug : Bool) (cfg : Cfg) (hb : cfg.bmi = false) (d : Nat) (hd : d ≤ 29) :
    (∀ r, r < 12 * 4 ^ d → ∃ h, fromRing cfg d r = some h ∧ h < 12 * 4 ^ d ∧
      Ring.centerOfProjectedCell (α := ℝ) debug (2 ^ d) r = Hash.centerOfProjectedCell (α := ℝ) cfg d h ∧
      Ring.center (α := ℝ) debug (2 ^ d) r = Hash.center (α := ℝ) cfg d h) ∧
    (∀ h, h < 12 * 4 ^ d → ∃ r, toRing cfg d h = some r ∧ r < 12 * 4 ^ d ∧
      Ring.centerOfProjectedCell (α := ℝ) debug (2 ^ d) r = Hash.centerOfProjectedCell (α := ℝ) cfg d h ∧
      Ring.center (α := ℝ) debug (2 ^ d) r = Hash.center (α := ℝ) cfg d h) :=
  RingCenter.ring_scheme_same_cells debug cfg hb approxOK_2_60 d hd

/-- non-vacuity at a depth far beyond kernel enumeration: depth 29, the last RING cell -/
example : ∃ h, fromRing {} 29 (12 * 4 ^ 29 - 1) = some h ∧ h < 12 * 4 ^ 29 ∧ toRing {} 29 h = some (12 * 4 ^ 29 - 1) :=
  (ring_bijection {} rfl 29 (by decide)).2 _ (by decide)

end Hpx.SqrtApprox

#print axioms Hpx.SqrtApprox.ring_bijection
#print axioms Hpx.SqrtApprox.ringIndexExact
#print axioms Hpx.SqrtApprox.ring_scheme_same_cells
