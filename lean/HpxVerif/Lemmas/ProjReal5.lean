/-
C17 over the reals, part 5: `base_cell_from_proj_coo` returns a base cell whose closed diamond contains the point; border
convention.
-/
import HpxVerif.Lemmas.ProjReal4
namespace Hpx.Proj
open Real

theorem r_zero : (Num.zero : ℝ) = 0 := by show ((0 : ℕ) : ℝ) = 0; norm_num

theorem truncU8_eq (v : ℝ) (n : ℕ) (hn : n ≤ 255) (h1 : (n : ℝ) ≤ v) (h2 : v < n + 1) : Num.truncU8 v = n := by
  show min ⌊max v 0⌋₊ 255 = n
  have h0 : 0 ≤ v := le_trans (Nat.cast_nonneg n) h1
  rw [max_eq_left h0, (Nat.floor_eq_iff h0).mpr ⟨h1, h2⟩, min_eq_left hn]

/-- explicit form of `base_cell_from_proj_coo` on `0 ≤ x < 8`, `-2 ≤ y ≤ 2`: `(i, jj)` is the unit square of the half-scale
    grid containing `(x/2, (y+3)/2)` -/
theorem baseCell_explicit (x y : ℝ) (i jj : ℕ) (hi : i < 4) (hjj : jj < 3) (hi1 : (i : ℝ) ≤ x / 2) (hi2 : x / 2 < i + 1)
    (hj1 : (jj : ℝ) ≤ (y + 3) / 2) (hj2 : (y + 3) / 2 < jj + 1) :
    baseCellFromProjCoo (α := ℝ) false x y = some (baseCellFinish i (2 * jj)
      (if x / 2 - i ≤ (y + 3) / 2 - jj then 1 else 0) (if 1 - ((y + 3) / 2 - jj) ≤ x / 2 - i then 1 else 0)) := by
  have hx : 0 ≤ x := by have := Nat.cast_nonneg (α := ℝ) i; linarith
  have hens : ensuresXIsPositive (α := ℝ) x = x := by
    unfold ensuresXIsPositive; rw [r_lt, r_zero]; simp [not_lt.mpr hx]
  have hti : Num.truncU8 ((1 / 2 : ℝ) * x) = i := truncU8_eq _ i (by omega) (by linarith) (by linarith)
  have htj : Num.truncU8 ((1 / 2 : ℝ) * (y + ((3 : ℕ) : ℝ))) = jj :=
    truncU8_eq _ jj (by omega) (by push_cast; linarith) (by push_cast; linarith)
  have hsh : (jj <<< 1) % 256 = 2 * jj := by rw [Nat.shiftLeft_eq]; omega
  have hshr : (2 * jj) >>> 1 = jj := by rw [Nat.shiftRight_eq_div_pow]; omega
  unfold baseCellFromProjCoo
  simp only [Bool.false_and, Bool.false_eq_true, if_false, hens, r_half, r_ofNat, hti, htj, hsh, hshr, r_le, Num.ge, r_one,
    decide_eq_true_eq]
  rw [show (1 / 2 : ℝ) * x = x / 2 by ring, show (1 / 2 : ℝ) * (y + ((3 : ℕ) : ℝ)) = (y + 3) / 2 by push_cast; ring]

/-! ## Base cells as diamonds of the projection plane -/

/-- abscissa of the centre of base cell `b` (row `b/4`, column `b%4`): `2q+1` in the polar rows, `2q` in the equatorial row -/
noncomputable def cellCx (b : ℕ) : ℝ := if b / 4 = 1 then 2 * ((b % 4 : ℕ) : ℝ) else 2 * ((b % 4 : ℕ) : ℝ) + 1
/-- ordinate of the centre of base cell `b`: `1, 0, -1` for the rows `0, 1, 2` -/
noncomputable def cellCy (b : ℕ) : ℝ := 1 - ((b / 4 : ℕ) : ℝ)

/-- `(x, y)` belongs to the closed diamond `|x - Xb| + |y - Yb| ≤ 1` of base cell `b`, abscissas modulo 8 -/
def InCell (b : ℕ) (x y : ℝ) : Prop := ∃ m : ℤ, |x - 8 * m - cellCx b| + |y - cellCy b| ≤ 1

theorem finish_eq (i j nw se : ℕ) (_hi : i < 4) (hnw : nw ≤ 1) (hse : se ≤ 1) (hj : j ≤ 4) :
    baseCellFinish i j nw se = 4 * (4 - max 2 (min 4 (j + nw + se))) + (i + se >>> nw) % 4 := by
  unfold baseCellFinish
  have hs : se >>> nw ≤ 1 := le_trans (Nat.shiftRight_le _ _) hse
  generalize se >>> nw = s at *
  simp only
  rw [show (3 : ℕ) = 2 ^ 2 - 1 by norm_num, Nat.and_two_pow_sub_one_eq_mod, Nat.shiftLeft_eq]
  have e1 : (j + nw + se) % 256 = j + nw + se := Nat.mod_eq_of_lt (by omega)
  have e2 : (i + s) % 256 % 2 ^ 2 = (i + s) % 4 := by omega
  rw [e1, e2]
  split
  · omega
  · split <;> omega

theorem cell_facts (i s row : ℕ) (_hi : i < 4) (_hs : s ≤ 1) (hrow : row ≤ 2) :
    4 * row + (i + s) % 4 < 12 ∧ (4 * row + (i + s) % 4 < 4 ↔ row = 0) ∧
    cellCy (4 * row + (i + s) % 4) = 1 - row ∧
    cellCx (4 * row + (i + s) % 4) =
      (if row = 1 then 2 * ((i : ℝ) + s) else 2 * ((i : ℝ) + s) + 1) - 8 * (((i + s) / 4 : ℕ) : ℝ) := by
  have hd : (4 * row + (i + s) % 4) / 4 = row := by omega
  have hm : (4 * row + (i + s) % 4) % 4 = (i + s) % 4 := by omega
  have hc : (((i + s) % 4 : ℕ) : ℝ) = (i : ℝ) + s - 4 * (((i + s) / 4 : ℕ) : ℝ) := by
    have := Nat.div_add_mod (i + s) 4
    have : (((4 * ((i + s) / 4) + (i + s) % 4 : ℕ)) : ℝ) = ((i + s : ℕ) : ℝ) := by rw [this]
    push_cast at this ⊢; linarith
  refine ⟨by omega, by omega, by unfold cellCy; rw [hd], ?_⟩
  unfold cellCx; rw [hd, hm, hc]
  split <;> ring

theorem abs_add_abs_le_one {a b : ℝ} (h1 : a + b ≤ 1) (h2 : a - b ≤ 1) (h3 : -a + b ≤ 1) (h4 : -a - b ≤ 1) :
    |a| + |b| ≤ 1 := by
  rcases abs_cases a with ⟨ha, _⟩ | ⟨ha, _⟩ <;> rcases abs_cases b with ⟨hb, _⟩ | ⟨hb, _⟩ <;> rw [ha, hb] <;> linarith

theorem abs_add_lt_one {a b : ℝ} (h1 : a + b < 1) (h3 : -a + b < 1) : |a| + b < 1 := by
  rcases abs_cases a with ⟨ha, _⟩ | ⟨ha, _⟩ <;> rw [ha] <;> linarith

/-- the geometric content of one case: the point `(2(i+u), 2(jj+v) - 3)` against the cell of row `row` and column
    `(i+s) % 4` -/
theorem cell_case (i s row jj : ℕ) (hi : i < 4) (hs : s ≤ 1) (hrow : row ≤ 2) (u v : ℝ)
    (a b : ℝ) (ha : a = 2 * (u - s) - (if row = 1 then 0 else 1)) (hb : b = 2 * ((jj : ℝ) + v) - 3 - (1 - row))
    (h1 : a + b ≤ 1) (h2 : a - b ≤ 1) (h3 : -a + b ≤ 1) (h4 : -a - b ≤ 1)
    (hst : (a + b < 1 ∧ -a + b < 1) ∨ (row = 0 ∧ 1 ≤ 2 * ((jj : ℝ) + v) - 3)) :
    4 * row + (i + s) % 4 < 12 ∧ ∃ m : ℤ,
      |2 * ((i : ℝ) + u) - 8 * m - cellCx (4 * row + (i + s) % 4)| +
        |2 * ((jj : ℝ) + v) - 3 - cellCy (4 * row + (i + s) % 4)| ≤ 1 ∧
      (|2 * ((i : ℝ) + u) - 8 * m - cellCx (4 * row + (i + s) % 4)| +
        (2 * ((jj : ℝ) + v) - 3 - cellCy (4 * row + (i + s) % 4)) < 1 ∨
       (4 * row + (i + s) % 4 < 4 ∧ 1 ≤ 2 * ((jj : ℝ) + v) - 3)) := by
  obtain ⟨f1, f2, f3, f4⟩ := cell_facts i s row hi hs hrow
  refine ⟨f1, (((i + s) / 4 : ℕ) : ℤ), ?_⟩
  have ea : 2 * ((i : ℝ) + u) - 8 * (((((i + s) / 4 : ℕ) : ℤ) : ℤ) : ℝ) - cellCx (4 * row + (i + s) % 4) = a := by
    rw [f4, ha, Int.cast_natCast]; split <;> ring
  have eb : 2 * ((jj : ℝ) + v) - 3 - cellCy (4 * row + (i + s) % 4) = b := by rw [f3, hb]
  rw [ea, eb]
  refine ⟨abs_add_abs_le_one h1 h2 h3 h4, ?_⟩
  rcases hst with ⟨s1, s2⟩ | ⟨r0, hy⟩
  · left; exact abs_add_lt_one s1 s2
  · right; exact ⟨f2.mpr r0, hy⟩

set_option linter.unusedTactic false in
set_option linter.unreachableTactic false in
set_option linter.unnecessarySeqFocus false in
/-- the unit-square case analysis of `base_cell_from_proj_coo`: `(u, v)` are the coordinates of the point in the square
    `(i, jj)` of the half-scale grid; `F0`/`F2` say that in the bottom/top row of squares the point is in the projected domain -/
theorem baseCell_core (i jj : ℕ) (hi : i < 4) (hjj : jj < 3) (u v : ℝ) (hu0 : 0 ≤ u) (hu1 : u < 1) (hv0 : 0 ≤ v) (hv1 : v < 1)
    (F0 : jj = 0 → u ≤ v ∧ 1 - u ≤ v)
    (F2 : jj = 2 → v = 0 ∨ (v ≤ u ∧ u + v ≤ 1 ∧ ¬ (u + v = 1 ∧ v < 1 / 2))) :
    ∃ b, baseCellFinish i (2 * jj) (if u ≤ v then 1 else 0) (if 1 - v ≤ u then 1 else 0) = b ∧ b < 12 ∧ ∃ m : ℤ,
      |2 * ((i : ℝ) + u) - 8 * m - cellCx b| + |2 * ((jj : ℝ) + v) - 3 - cellCy b| ≤ 1 ∧
      (|2 * ((i : ℝ) + u) - 8 * m - cellCx b| + (2 * ((jj : ℝ) + v) - 3 - cellCy b) < 1 ∨
       (b < 4 ∧ 1 ≤ 2 * ((jj : ℝ) + v) - 3)) := by
  by_cases hnw : u ≤ v <;> by_cases hse : 1 - v ≤ u <;> simp only [hnw, hse, if_true, if_false]
  · -- north triangle
    interval_cases jj
    · refine ⟨4 * 2 + (i + 0) % 4, by rw [finish_eq _ _ _ _ hi (by norm_num) (by norm_num) (by norm_num)]; norm_num [Nat.shiftRight_eq_div_pow],
        cell_case i 0 2 0 hi (by norm_num) (by norm_num) u v _ _ rfl rfl ?_ ?_ ?_ ?_ ?_⟩
      all_goals norm_num
      all_goals first | linarith | (constructor <;> linarith) | (left; constructor <;> linarith)
    · refine ⟨4 * 0 + (i + 0) % 4, by rw [finish_eq _ _ _ _ hi (by norm_num) (by norm_num) (by norm_num)]; norm_num [Nat.shiftRight_eq_div_pow],
        cell_case i 0 0 1 hi (by norm_num) (by norm_num) u v _ _ rfl rfl ?_ ?_ ?_ ?_ ?_⟩
      all_goals norm_num
      all_goals first | linarith | (constructor <;> linarith) | (left; constructor <;> linarith)
    · refine ⟨4 * 0 + (i + 0) % 4, by rw [finish_eq _ _ _ _ hi (by norm_num) (by norm_num) (by norm_num)]; norm_num [Nat.shiftRight_eq_div_pow],
        cell_case i 0 0 2 hi (by norm_num) (by norm_num) u v _ _ rfl rfl ?_ ?_ ?_ ?_ ?_⟩
      all_goals norm_num
      all_goals rcases F2 rfl with h | ⟨h1, h2, _⟩
      all_goals first | linarith | (right; linarith)
  · -- west triangle
    interval_cases jj
    · exact absurd (F0 rfl).2 (by intro h; exact hse (by linarith))
    · refine ⟨4 * 1 + (i + 0) % 4, by rw [finish_eq _ _ _ _ hi (by norm_num) (by norm_num) (by norm_num)]; norm_num [Nat.shiftRight_eq_div_pow],
        cell_case i 0 1 1 hi (by norm_num) (by norm_num) u v _ _ rfl rfl ?_ ?_ ?_ ?_ ?_⟩
      all_goals norm_num
      all_goals first | linarith | (constructor <;> linarith) | (left; constructor <;> linarith) | (right; linarith) | (right; constructor <;> linarith)
    · refine ⟨4 * 0 + (i + 0) % 4, by rw [finish_eq _ _ _ _ hi (by norm_num) (by norm_num) (by norm_num)]; norm_num [Nat.shiftRight_eq_div_pow],
        cell_case i 0 0 2 hi (by norm_num) (by norm_num) u v _ _ rfl rfl ?_ ?_ ?_ ?_ ?_⟩
      all_goals norm_num
      all_goals rcases F2 rfl with h | ⟨h1, h2, _⟩
      all_goals first | linarith | (constructor <;> linarith) | (left; constructor <;> linarith) | (right; linarith) | (right; constructor <;> linarith)
  · -- east triangle
    interval_cases jj
    · exact absurd (F0 rfl).1 hnw
    · refine ⟨4 * 1 + (i + 1) % 4, by rw [finish_eq _ _ _ _ hi (by norm_num) (by norm_num) (by norm_num)]; norm_num [Nat.shiftRight_eq_div_pow],
        cell_case i 1 1 1 hi (by norm_num) (by norm_num) u v _ _ rfl rfl ?_ ?_ ?_ ?_ ?_⟩
      all_goals norm_num
      all_goals first | linarith | (constructor <;> linarith) | (left; constructor <;> linarith) | (right; linarith) | (right; constructor <;> linarith)
    · exfalso
      rcases F2 rfl with h | ⟨h1, h2, h3⟩
      · linarith
      · exact h3 ⟨by linarith, by linarith⟩
  · -- south triangle
    interval_cases jj
    · exact absurd (F0 rfl).1 hnw
    · refine ⟨4 * 2 + (i + 0) % 4, by rw [finish_eq _ _ _ _ hi (by norm_num) (by norm_num) (by norm_num)]; norm_num [Nat.shiftRight_eq_div_pow],
        cell_case i 0 2 1 hi (by norm_num) (by norm_num) u v _ _ rfl rfl ?_ ?_ ?_ ?_ ?_⟩
      all_goals norm_num
      all_goals first | linarith | (constructor <;> linarith) | (left; constructor <;> linarith) | (right; linarith) | (right; constructor <;> linarith)
    · refine ⟨4 * 0 + (i + 0) % 4, by rw [finish_eq _ _ _ _ hi (by norm_num) (by norm_num) (by norm_num)]; norm_num [Nat.shiftRight_eq_div_pow],
        cell_case i 0 0 2 hi (by norm_num) (by norm_num) u v _ _ rfl rfl ?_ ?_ ?_ ?_ ?_⟩
      all_goals norm_num
      all_goals first | linarith | (constructor <;> linarith) | (left; constructor <;> linarith) | (right; linarith) | (right; constructor <;> linarith)

theorem nat_eq_of_real_window (k i : ℕ) (x : ℝ) (h1 : (2 * k : ℝ) < x) (h2 : x < 2 * k + 2) (h3 : (2 * i : ℝ) ≤ x)
    (h4 : x < 2 * i + 2) : k = i := by
  have a : (k : ℝ) < i + 1 := by linarith
  have b : (i : ℝ) < k + 1 := by linarith
  have a' : k < i + 1 := by exact_mod_cast a
  have b' : i < k + 1 := by exact_mod_cast b
  omega

/-- **`base_cell_from_proj_coo`, specification and border convention in one statement.**  For `(x, y)` in the projected
    domain with `0 ≤ x < 8` (closed Collignon triangles in the caps, minus the open right edge of the *north* triangles,
    see `base_cell_north_east_edge`), the returned cell `b < 12` contains the point in its closed diamond
    (`|dx| + |dy| ≤ 1`, `dx = x - 8m - Xb`, `dy = y - Yb`), and the point is **not on a northern edge of `b`**
    (`|dx| + dy < 1`) unless that edge is an outer edge of a north polar triangle (`b < 4 ∧ 1 ≤ y`, no neighbour across it
    in the plane).  Since a border shared by two diamonds is a northern (NE/NW) edge of one and a southern (SW/SE) edge of
    the other, this is the border convention: **a shared border, and a shared vertex, belongs to the cell north of it.** -/
theorem base_cell_from_proj_coo_spec_border (x y : ℝ) (hx0 : 0 ≤ x) (hx8 : x < 8) (hy : |y| ≤ 2)
    (hcap : 1 < |y| → ∃ k : ℕ, k < 4 ∧ |x - (2 * k + 1)| ≤ 2 - |y|)
    (hne : 1 < y → y < 2 → ∀ k : ℕ, k < 4 → x - (2 * k + 1) ≠ 2 - y) :
    ∃ b, baseCellFromProjCoo (α := ℝ) false x y = some b ∧ b < 12 ∧ ∃ m : ℤ,
      |x - 8 * m - cellCx b| + |y - cellCy b| ≤ 1 ∧
      (|x - 8 * m - cellCx b| + (y - cellCy b) < 1 ∨ (b < 4 ∧ 1 ≤ y)) := by
  obtain ⟨hyl, hyu⟩ := abs_le.mp hy
  obtain ⟨i, hi, hi1, hi2⟩ := facet_exists x hx0 4 (by push_cast; linarith)
  obtain ⟨jj, hjj, hj1, hj2⟩ := facet_exists (y + 3) (by linarith) 3 (by push_cast; linarith)
  have hex := baseCell_explicit x y i jj hi hjj (by linarith) (by linarith) (by linarith) (by linarith)
  set u := x / 2 - i with hu
  set v := (y + 3) / 2 - jj with hv
  have hxe : x = 2 * ((i : ℝ) + u) := by rw [hu]; ring
  have hye : y = 2 * ((jj : ℝ) + v) - 3 := by rw [hv]; ring
  -- in a cap the facet index of the domain hypothesis is the square index
  have hkey : 1 < |y| → |2 * u - 1| ≤ 2 - |y| := by
    intro h
    obtain ⟨k, hk, hk1⟩ := hcap h
    obtain ⟨hk2, hk3⟩ := abs_le.mp hk1
    have : k = i := nat_eq_of_real_window k i x (by linarith) (by linarith) hi1 hi2
    subst this
    rw [show 2 * u - 1 = x - (2 * k + 1) by rw [hu]; ring]; exact hk1
  have F0 : jj = 0 → u ≤ v ∧ 1 - u ≤ v := by
    intro h0; subst h0
    push_cast at hj1 hj2 hv
    have hyn : y < -1 := by linarith
    have habs : |y| = -y := abs_of_neg (by linarith)
    have := hkey (by rw [habs]; linarith)
    rw [habs] at this
    obtain ⟨t1, t2⟩ := abs_le.mp this
    constructor <;> (rw [hv]; linarith)
  have F2 : jj = 2 → v = 0 ∨ (v ≤ u ∧ u + v ≤ 1 ∧ ¬ (u + v = 1 ∧ v < 1 / 2)) := by
    intro h2; subst h2
    push_cast at hj1 hj2 hv
    rcases eq_or_lt_of_le (show (1 : ℝ) ≤ y by linarith) with h1 | h1
    · left; rw [hv, ← h1]; norm_num
    · right
      have habs : |y| = y := abs_of_pos (by linarith)
      have := hkey (by rw [habs]; exact h1)
      rw [habs] at this
      obtain ⟨t1, t2⟩ := abs_le.mp this
      refine ⟨by rw [hv]; linarith, by rw [hv]; linarith, ?_⟩
      rintro ⟨e1, e2⟩
      apply hne h1 (by rw [hv] at e2; linarith) i hi
      rw [hv] at e1; rw [hu] at e1; linarith
  obtain ⟨b, hb, hb12, m, hm1, hm2⟩ := baseCell_core i jj hi hjj u v (by rw [hu]; linarith) (by rw [hu]; linarith)
    (by rw [hv]; linarith) (by rw [hv]; linarith) F0 F2
  refine ⟨b, by rw [hex, ← hb], hb12, m, ?_, ?_⟩
  · rw [hxe, hye]; exact hm1
  · rw [hxe, hye]; exact hm2

/-- **`base_cell_from_proj_coo_spec`**: the returned base cell contains the point in its closed diamond -/
theorem base_cell_from_proj_coo_spec (x y : ℝ) (hx0 : 0 ≤ x) (hx8 : x < 8) (hy : |y| ≤ 2)
    (hcap : 1 < |y| → ∃ k : ℕ, k < 4 ∧ |x - (2 * k + 1)| ≤ 2 - |y|)
    (hne : 1 < y → y < 2 → ∀ k : ℕ, k < 4 → x - (2 * k + 1) ≠ 2 - y) :
    ∃ b, baseCellFromProjCoo (α := ℝ) false x y = some b ∧ b < 12 ∧ InCell b x y := by
  obtain ⟨b, h1, h2, m, h3, _⟩ := base_cell_from_proj_coo_spec_border x y hx0 hx8 hy hcap hne
  exact ⟨b, h1, h2, m, h3⟩

/-- the hypotheses hold on the image of `proj` for non-negative longitudes (`InProjDomain`, half-open triangles) -/
theorem base_cell_of_inProjDomain (x y : ℝ) (hx0 : 0 ≤ x) (hd : InProjDomain x y) :
    ∃ b, baseCellFromProjCoo (α := ℝ) false x y = some b ∧ b < 12 ∧ InCell b x y := by
  obtain ⟨h8, h2, hc⟩ := hd
  rw [abs_of_nonneg hx0] at h8 hc
  apply base_cell_from_proj_coo_spec x y hx0 h8 h2
  · intro h
    obtain ⟨k, hk, t1, t2⟩ := hc h
    exact ⟨k, hk, abs_le.mpr ⟨t1, le_of_lt t2⟩⟩
  · intro h1 h2' k hk he
    have habs : |y| = y := abs_of_pos (by linarith)
    obtain ⟨k', hk', t1, t2⟩ := hc (by rw [habs]; exact h1)
    rw [habs] at t1 t2
    have hk0 : (0 : ℝ) ≤ k := Nat.cast_nonneg k
    have : k' = k := nat_eq_of_real_window k' k x (by linarith) (by linarith) (by linarith) (by linarith)
    subst this; linarith

example : (0 : ℝ) ≤ 5 / 2 ∧ InProjDomain (5 / 2) (3 / 2) := by
  have e1 : |(5 / 2 : ℝ)| = 5 / 2 := abs_of_pos (by norm_num)
  have e2 : |(3 / 2 : ℝ)| = 3 / 2 := abs_of_pos (by norm_num)
  refine ⟨by norm_num, ?_⟩
  rw [InProjDomain, e1, e2]
  exact ⟨by norm_num, by norm_num, fun _ => ⟨1, by norm_num, by norm_num, by norm_num⟩⟩

/-- **the open right (north-east) edge of a north polar triangle** `x = (2k+1) + (2-y)`, `1 < y < 2`: the code returns
    the *east* neighbour `(k+1) % 4`, whose diamond contains the point of its own left edge `(x + 2(y-1), y)` that is the
    same point of the sphere (consistent with the convention: the NE edge of a cell belongs to its NE neighbour) -/
theorem base_cell_north_east_edge (k : ℕ) (hk : k < 4) (x y : ℝ) (hy1 : 1 < y) (hy2 : y < 2)
    (hx : x = 2 * k + 1 + (2 - y)) :
    baseCellFromProjCoo (α := ℝ) false x y = some ((k + 1) % 4) ∧ InCell ((k + 1) % 4) (x + 2 * (y - 1)) y ∧
      ¬ InCell ((k + 1) % 4) x y := by
  have hk0 : (0 : ℝ) ≤ k := Nat.cast_nonneg k
  obtain ⟨f1, f2, f3, f4⟩ := cell_facts k 1 0 hk (le_refl _) (by norm_num)
  rw [Nat.mul_zero, Nat.zero_add] at f1 f2 f3 f4
  rw [if_neg (by norm_num)] at f4
  push_cast at f3 f4
  refine ⟨?_, ?_, ?_⟩
  · rw [baseCell_explicit x y k 2 hk (by norm_num) (by rw [hx]; linarith) (by rw [hx]; linarith)
      (by push_cast; linarith) (by push_cast; linarith),
      if_neg (by rw [hx]; push_cast; linarith), if_pos (by rw [hx]; push_cast; linarith),
      finish_eq _ _ _ _ hk (by norm_num) (by norm_num) (by norm_num)]
    norm_num [Nat.shiftRight_eq_div_pow]
  · refine ⟨(((k + 1) / 4 : ℕ) : ℤ), ?_⟩
    rw [f3, f4, Int.cast_natCast, hx]
    apply abs_add_abs_le_one <;> linarith
  · rintro ⟨m, hm⟩
    rw [f3, f4, hx] at hm
    have hy' : |y - (1 - 0)| = y - 1 := by rw [abs_of_pos (by linarith)]; ring
    rw [hy'] at hm
    set n : ℤ := (((k + 1) / 4 : ℕ) : ℤ) - m with hn
    have e : 2 * (k : ℝ) + 1 + (2 - y) - 8 * (m : ℝ) - (2 * ((k : ℝ) + 1) + 1 - 8 * (((k + 1) / 4 : ℕ) : ℝ)) =
        -y + 8 * (n : ℝ) := by rw [hn, Int.cast_sub, Int.cast_natCast]; ring
    rw [e] at hm
    rcases le_or_gt n 0 with h0 | h0
    · have : (n : ℝ) ≤ 0 := by exact_mod_cast h0
      rw [abs_of_neg (by linarith)] at hm; linarith
    · have : (1 : ℝ) ≤ n := by exact_mod_cast h0
      rw [abs_of_pos (by linarith)] at hm; linarith

/-! ## Negative abscissas (`ensures_x_is_positive`) -/

theorem base_cell_neg_x (x y : ℝ) (hx : x < 0) (hx8 : -8 ≤ x) :
    baseCellFromProjCoo (α := ℝ) false x y = baseCellFromProjCoo (α := ℝ) false (x + 8) y := by
  have e1 : ensuresXIsPositive (α := ℝ) x = x + 8 := by
    unfold ensuresXIsPositive; rw [r_lt, r_zero, r_ofNat]; simp [hx]
  have e2 : ensuresXIsPositive (α := ℝ) (x + 8) = x + 8 := by
    unfold ensuresXIsPositive; rw [r_lt, r_zero]; simp [not_lt.mpr (by linarith : (0 : ℝ) ≤ x + 8)]
  unfold baseCellFromProjCoo
  rw [e1, e2]

theorem inCell_shift (b : ℕ) (x y : ℝ) : InCell b (x + 8) y ↔ InCell b x y := by
  constructor
  · rintro ⟨m, hm⟩; exact ⟨m - 1, by push_cast; rw [show x - 8 * ((m : ℝ) - 1) = x + 8 - 8 * m by ring]; exact hm⟩
  · rintro ⟨m, hm⟩; exact ⟨m + 1, by push_cast; rw [show x + 8 - 8 * ((m : ℝ) + 1) = x - 8 * m by ring]; exact hm⟩

/-- negative abscissas `-8 ≤ x < 0` go through `ensures_x_is_positive`: same statement, hypotheses on `x + 8` -/
theorem base_cell_from_proj_coo_spec_neg (x y : ℝ) (hx0 : x < 0) (hx8 : -8 ≤ x) (hy : |y| ≤ 2)
    (hcap : 1 < |y| → ∃ k : ℕ, k < 4 ∧ |x + 8 - (2 * k + 1)| ≤ 2 - |y|)
    (hne : 1 < y → y < 2 → ∀ k : ℕ, k < 4 → x + 8 - (2 * k + 1) ≠ 2 - y) :
    ∃ b, baseCellFromProjCoo (α := ℝ) false x y = some b ∧ b < 12 ∧ InCell b x y := by
  obtain ⟨b, h1, h2, h3⟩ := base_cell_from_proj_coo_spec (x + 8) y (by linarith) (by linarith) hy hcap hne
  exact ⟨b, by rw [base_cell_neg_x x y hx0 hx8]; exact h1, h2, (inCell_shift b x y).mp h3⟩

example : ((-5 / 2 : ℝ) < 0) ∧ (-8 : ℝ) ≤ -5 / 2 ∧ |(-3 / 2 : ℝ)| ≤ 2 ∧
    (1 < |(-3 / 2 : ℝ)| → ∃ k : ℕ, k < 4 ∧ |(-5 / 2 : ℝ) + 8 - (2 * k + 1)| ≤ 2 - |(-3 / 2 : ℝ)|) := by
  have e2 : |(-3 / 2 : ℝ)| = 3 / 2 := by rw [abs_of_neg (by norm_num)]; norm_num
  rw [e2]
  refine ⟨by norm_num, by norm_num, by norm_num, fun _ => ⟨2, by norm_num, ?_⟩⟩
  rw [abs_le]; constructor <;> norm_num

/-- **end to end**: for `0 ≤ lon < 2π` and every latitude, `base_cell_from_proj_coo (proj (lon, lat))` is a base cell whose
    closed diamond contains the projected point (poles included) -/
theorem base_cell_of_proj (lon lat : ℝ) (hlon0 : 0 ≤ lon) (hlon1 : lon < 2 * π) (hlat0 : -(π / 2) ≤ lat)
    (hlat1 : lat ≤ π / 2) :
    ∃ X Y b, proj (α := ℝ) lon lat = some (X, Y) ∧ baseCellFromProjCoo (α := ℝ) false X Y = some b ∧ b < 12 ∧
      InCell b X Y := by
  have hpi := pi_pos
  have hb0 := abs_nonneg lat
  have hb1 : |lat| ≤ π / 2 := abs_le.mpr ⟨hlat0, hlat1⟩
  obtain ⟨hx0, hx8⟩ := lon_scaled_bounds lon hlon0 hlon1
  obtain ⟨k, hk, h1, h2⟩ := facet_exists _ hx0 4 hx8
  have hq := proj_pos' lon |lat| k (by omega) hlon0 h1 h2 hb0 hb1
  obtain ⟨b1, b2, b3, b4, b5, b6, b7⟩ := projQ_bounds k _ |lat| h1 h2 hb0 hb1
  have hP : proj (α := ℝ) lon lat = some ((projQ k (lon * (4 / π)) |lat|).1, sgn lat (projQ k (lon * (4 / π)) |lat|).2) := by
    rw [proj_sym, abs_of_nonneg hlon0, hq, Option.map_some, sgn_of_nonneg hlon0]
  have hmod : (2 * k + 1) % 8 = 2 * k + 1 := Nat.mod_eq_of_lt (by omega)
  set x := lon * (4 / π) with hx
  by_cases hreg : |lat| ≤ Real.arcsin (2 / 3)
  · have hX : (projQ k x |lat|).1 = x := by unfold projQ; rw [if_pos hreg, hmod]; push_cast; ring
    have hY : (projQ k x |lat|).2 = Real.sin |lat| * (3 / 2) := by unfold projQ; rw [if_pos hreg]
    have hs1 : Real.sin |lat| ≤ 2 / 3 := (le_transition_iff |lat| (by linarith) hb1).mp hreg
    have hY1 : |sgn lat (projQ k x |lat|).2| ≤ 1 := by rw [abs_sgn, abs_of_nonneg b3, hY]; linarith
    obtain ⟨b, e1, e2, e3⟩ := base_cell_from_proj_coo_spec (projQ k x |lat|).1 (sgn lat (projQ k x |lat|).2) b1 b2
      (by linarith) (fun h => absurd h (not_lt.mpr hY1))
      (fun h => absurd (lt_of_lt_of_le h (le_trans (le_abs_self _) hY1)) (lt_irrefl _))
    exact ⟨_, _, b, hP, e1, e2, e3⟩
  · have hs0 : 0 ≤ sig |lat| := sig_nonneg _ (by linarith) hb1
    have hs1 : sig |lat| < 1 := (sig_lt_one_iff _ (by linarith) hb1).mpr hreg
    have hX : (projQ k x |lat|).1 = (x - (2 * k + 1)) * sig |lat| + (2 * k + 1) := by
      unfold projQ; rw [if_neg hreg, hmod]; push_cast; ring
    have hY : (projQ k x |lat|).2 = 2 - sig |lat| := by unfold projQ; rw [if_neg hreg]
    have hYa : |sgn lat (projQ k x |lat|).2| = 2 - sig |lat| := by rw [abs_sgn, abs_of_nonneg b3, hY]
    obtain ⟨b, e1, e2, e3⟩ := base_cell_from_proj_coo_spec (projQ k x |lat|).1 (sgn lat (projQ k x |lat|).2) b1 b2
      (by rw [hYa]; linarith)
      (fun _ => ⟨k, hk, by
        rw [hYa, hX, show (x - (2 * k + 1)) * sig |lat| + (2 * k + 1) - (2 * k + 1) = (x - (2 * k + 1)) * sig |lat| by ring,
          show (2 : ℝ) - (2 - sig |lat|) = sig |lat| by ring, abs_le]
        constructor <;> nlinarith⟩)
      (by
        intro hy1 hy2 k' hk' he
        have hYp : sgn lat (projQ k x |lat|).2 = 2 - sig |lat| := by
          by_cases hl : lat < 0
          · rw [sgn_of_neg hl] at hy1; linarith [abs_nonneg (projQ k x |lat|).2]
          · rw [sgn_of_nonneg (not_lt.mp hl), hY]
        rw [hYp] at he hy2
        rw [hX] at he
        have hσ : 0 < sig |lat| := by linarith
        have e : (x - (2 * k + 1) - 1) * sig |lat| = 2 * ((k' : ℝ) - k) := by linarith
        have l1 : (k' : ℝ) < k := by nlinarith
        have l2 : (k : ℝ) - 1 < k' := by nlinarith
        have l1' : k' < k := by exact_mod_cast l1
        have l2' : (k : ℝ) < k' + 1 := by linarith
        have l2'' : k < k' + 1 := by exact_mod_cast l2'
        omega)
    exact ⟨_, _, b, hP, e1, e2, e3⟩

#print axioms base_cell_from_proj_coo_spec_border
#print axioms base_cell_from_proj_coo_spec
#print axioms base_cell_north_east_edge
#print axioms base_cell_from_proj_coo_spec_neg
#print axioms base_cell_of_proj
end Hpx.Proj
