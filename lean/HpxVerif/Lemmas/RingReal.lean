/-
RING scheme over the reals, for every `nside` (C11), part 1: integer description of the rings and the closed form of
`center_of_projected_cell` (`ring_center_plane`), the RING order (`ring_order`).

Conventions.  `n = nside ≥ 1`.  Rings are numbered from the north pole, `r = 0 .. 4n−2` (0-based: the task's ring
number is `r + 1`).  Ring `r` holds `4·perFacet n r` cells (`perFacet = r+1` in the north cap `r+1 < n`, `n` in the
equatorial band `n−1 ≤ r ≤ 3n−1` — the two transition rings `y = ±1` included —, `4n−1−r` in the south cap), its first
cell is `ringStart n r`.  Cell `i` of ring `r` has its centre at `(cxI n r i / n, cyI n r / n)` in the projection
plane.

Every theorem that mentions `polarRingIndex` (float square root + integer correction) assumes that it is exact on the
range that is used: `RingIndexExact n : ∀ x < tri4 n, tri4 (polarRingIndex x) ≤ x < tri4 (polarRingIndex x + 1)`.
This holds as soon as the float estimate is within 4 of the true index (`ringIndexExact_of_approx`, the correction
loops run 4 times, cf. `C10.polar_ring_index_correct`).  The hypothesis cannot be stated for *every* natural number
`x`: for astronomically large `x` the `u64` conversion saturates and the estimate is far off.
The model mirrors `u32`/`u64` arithmetic, hence the hypothesis `n < 2^30` (the crate has `nside_max = 2^29`).
-/
import HpxVerif.Model.Ring
import HpxVerif.Lemmas.NumReal
import HpxVerif.Lemmas.ProjReal
import Mathlib.Tactic.Ring
import Mathlib.Tactic.Linarith
import Mathlib.Tactic.FieldSimp
import Mathlib.Tactic.Positivity

namespace Hpx.RingReal
open Hpx Hpx.Ring

/-! ## triangular numbers and the ring index -/

theorem tri4_eq (n : Nat) : tri4 n = 2 * (n * (n + 1)) := by
  unfold tri4; rw [Nat.shiftLeft_eq]; omega

theorem tri4_zero : tri4 0 = 0 := by simp [tri4]

theorem tri4_succ (n : Nat) : tri4 (n + 1) = tri4 n + 4 * (n + 1) := by
  rw [tri4_eq, tri4_eq]; ring

theorem tri4_mono {a b : Nat} (h : a ≤ b) : tri4 a ≤ tri4 b := by
  rw [tri4_eq, tri4_eq]
  have : a * (a + 1) ≤ b * (b + 1) := Nat.mul_le_mul h (by omega)
  omega

theorem tri4_lt_of_lt {a b : Nat} (h : tri4 a < tri4 b) : a < b := by
  apply Nat.lt_of_not_le; intro hle
  have := tri4_mono hle; omega

theorem ringIdx_unique {x t r : Nat} (h1 : tri4 t ≤ x) (h2 : x < tri4 (t + 1)) (h3 : tri4 r ≤ x)
    (h4 : x < tri4 (r + 1)) : r = t := by
  have a : r < t + 1 := tri4_lt_of_lt (by omega)
  have b : t < r + 1 := tri4_lt_of_lt (by omega)
  omega

/-- the ring-index function of the code is exact below `tri4 n` (all the theorems need) -/
def RingIndexExact (n : Nat) : Prop :=
  ∀ x, x < tri4 n → tri4 (polarRingIndex x) ≤ x ∧ x < tri4 (polarRingIndex x + 1)

/-- the correction loops reach the exact ring index from any estimate within `fuel` of it
    (copy of `C10.polar_ring_index_correct`) -/
theorem polarRingIndexFrom_correct (fuel x n t : Nat) (ht1 : tri4 t ≤ x) (ht2 : x < tri4 (t + 1))
    (hd : n ≤ t + fuel ∧ t ≤ n + fuel) : Layer.polarRingIndexFrom fuel x n = t := by
  have e : Layer.tri4 = tri4 := rfl
  induction fuel generalizing n with
  | zero =>
    have : n = t := by omega
    simp [Layer.polarRingIndexFrom, this]
  | succ f ih =>
    simp only [Layer.polarRingIndexFrom, e]
    split
    · rename_i h1
      have : t < n := tri4_lt_of_lt (by omega)
      exact ih (n - 1) (by omega)
    · rename_i h1
      split
      · rename_i h2
        have : n + 1 < t + 1 := tri4_lt_of_lt (by omega)
        exact ih (n + 1) (by omega)
      · rename_i h2
        have h3 : n < t + 1 := tri4_lt_of_lt (by omega)
        have h4 : t < n + 1 := tri4_lt_of_lt (by omega)
        omega

/-- `RingIndexExact` holds whenever the float estimate is within 4 of the true ring index -/
theorem ringIndexExact_of_approx (n : Nat)
    (happ : ∀ x t, x < tri4 n → tri4 t ≤ x → x < tri4 (t + 1) →
      Layer.polarRingApprox x ≤ t + 4 ∧ t ≤ Layer.polarRingApprox x + 4) : RingIndexExact n := by
  intro x hx
  have hex : ∃ t, tri4 t ≤ x ∧ x < tri4 (t + 1) := by
    clear hx happ
    induction x with
    | zero => exact ⟨0, by simp [tri4], by simp [tri4]⟩
    | succ x ih =>
      obtain ⟨t, h1, h2⟩ := ih
      by_cases h : x + 1 < tri4 (t + 1)
      · exact ⟨t, by omega, h⟩
      · refine ⟨t + 1, by omega, ?_⟩
        have := tri4_succ (t + 1); omega
  obtain ⟨t, h1, h2⟩ := hex
  have : polarRingIndex x = t := polarRingIndexFrom_correct 4 x _ t h1 h2 (happ x t hx h1 h2)
  rw [this]; exact ⟨h1, h2⟩

/-- the hypothesis is satisfiable: it holds (by evaluation) at `n = 3` -/
example : RingIndexExact 3 := by unfold RingIndexExact; decide +kernel

/-! ## integer description of the rings -/

/-- cells per facet (quarter) of ring `r` -/
def perFacet (n r : Nat) : Nat := if r + 1 < n then r + 1 else if r < 3 * n then n else 4 * n - 1 - r

/-- first cell of ring `r` -/
def ringStart (n r : Nat) : Nat :=
  if r + 1 < n then tri4 r else if r < 3 * n then tri4 (n - 1) + (r + 1 - n) * (4 * n)
  else 12 * n * n - tri4 (4 * n - 1 - r)

/-- abscissa (in units of `1/n`) of the first centre of a facet of ring `r`, relative to the facet's west corner -/
def cxOff (n r : Nat) : Nat := if r + 1 < n then n - r else if r < 3 * n then (r + n) % 2 else r + 2 - 3 * n

/-- abscissa of the centre of cell `i` of ring `r`, in units of `1/n` -/
def cxI (n r i : Nat) : Nat := 2 * n * (i / perFacet n r) + 2 * (i % perFacet n r) + cxOff n r

/-- ordinate of the centres of ring `r`, in units of `1/n` -/
def cyI (n r : Nat) : Int := 2 * (n : Int) - 1 - r

theorem perFacet_pos {n r : Nat} (hn : 1 ≤ n) (hr : r < 4 * n - 1) : 0 < perFacet n r := by
  unfold perFacet; split
  · omega
  · split <;> omega

theorem perFacet_le {n r : Nat} (hn : 1 ≤ n) : perFacet n r ≤ n := by
  unfold perFacet; split
  · omega
  · split <;> omega

theorem cxOff_add_perFacet {n r : Nat} (hn : 1 ≤ n) (hr : r < 4 * n - 1) :
    cxOff n r + perFacet n r ≤ n + 1 ∧ (perFacet n r < n → cxOff n r + perFacet n r = n + 1) := by
  unfold cxOff perFacet; split
  · omega
  · split <;> omega

theorem tri4_pred_two (n : Nat) (hn : 1 ≤ n) : 2 * tri4 (n - 1) + 4 * n = 4 * (n * n) := by
  obtain ⟨m, rfl⟩ : ∃ m, n = m + 1 := ⟨n - 1, by omega⟩
  simp only [Nat.add_sub_cancel, tri4_eq]; ring

theorem tri4_le_sq {t n : Nat} (h : t + 1 ≤ n) : tri4 t + 2 * n ≤ 2 * (n * n) := by
  have h1 : tri4 t ≤ tri4 (n - 1) := tri4_mono (by omega)
  have := tri4_pred_two n (by omega); omega

theorem ringStart_zero (n : Nat) (hn : 1 ≤ n) : ringStart n 0 = 0 := by
  unfold ringStart; split
  · exact tri4_zero
  · have : n = 1 := by omega
    subst this; simp [tri4]

theorem ringStart_succ {n r : Nat} (hn : 1 ≤ n) (hr : r < 4 * n - 1) :
    ringStart n (r + 1) = ringStart n r + 4 * perFacet n r := by
  have hsq := tri4_pred_two n hn
  unfold ringStart perFacet
  by_cases h1 : r + 1 + 1 < n
  · rw [if_pos h1, if_pos (by omega), if_pos (by omega)]; exact tri4_succ r
  · rw [if_neg h1]
    by_cases h2 : r + 1 < n
    · have e : r + 1 = n - 1 := by omega
      rw [if_pos (by omega), if_pos h2, if_pos h2, e, ← e, tri4_succ]
      have : r + 1 + 1 - n = 0 := by omega
      rw [this]; omega
    · rw [if_neg h2, if_neg h2]
      by_cases h3 : r + 1 < 3 * n
      · have h3' : r < 3 * n := by omega
        simp only [if_pos h3, if_pos h3']
        have : r + 1 + 1 - n = (r + 1 - n) + 1 := by omega
        rw [this, Nat.add_mul]; omega
      · rw [if_neg h3]
        by_cases h4 : r < 3 * n
        · have e : r = 3 * n - 1 := by omega
          simp only [if_pos h4]
          have e1 : 4 * n - 1 - (r + 1) = n - 1 := by omega
          have e2 : r + 1 - n = 2 * n := by omega
          rw [e1, e2]
          have : 2 * n * (4 * n) = 8 * (n * n) := by ring
          have e3 : 12 * n * n = 12 * (n * n) := by ring
          rw [this, e3]; omega
        · rw [if_neg h4, if_neg h4]
          have e1 : 4 * n - 1 - r = (4 * n - 1 - (r + 1)) + 1 := by omega
          rw [e1, tri4_succ]
          have hb := tri4_le_sq (t := 4 * n - 1 - (r + 1) + 1) (n := n) (by omega)
          rw [tri4_succ] at hb
          have e3 : 12 * n * n = 12 * (n * n) := by ring
          rw [e3]; omega

theorem ringStart_last (n : Nat) (hn : 1 ≤ n) : ringStart n (4 * n - 1) = 12 * n * n := by
  unfold ringStart
  rw [if_neg (by omega), if_neg (by omega)]
  have : 4 * n - 1 - (4 * n - 1) = 0 := by omega
  rw [this, tri4_zero]; rfl

/-- the rings are consecutive blocks -/
theorem ringStart_mono {n r r' : Nat} (hn : 1 ≤ n) (h : r < r') (hr' : r' ≤ 4 * n - 1) :
    ringStart n r + 4 * perFacet n r ≤ ringStart n r' := by
  induction r' with
  | zero => omega
  | succ k ih =>
    rw [ringStart_succ hn (by omega)]
    by_cases hk : r = k
    · subst hk; omega
    · have := ih (by omega) (by omega); omega

/-- every cell number belongs to exactly one ring -/
theorem ring_decompose {n : Nat} (hn : 1 ≤ n) (h : Nat) (hh : h < 12 * n * n) :
    ∃ r i, r < 4 * n - 1 ∧ i < 4 * perFacet n r ∧ h = ringStart n r + i := by
  have key : ∀ r, r ≤ 4 * n - 1 → h < ringStart n r →
      ∃ r i, r < 4 * n - 1 ∧ i < 4 * perFacet n r ∧ h = ringStart n r + i := by
    intro r
    induction r with
    | zero => intro _ h0; rw [ringStart_zero n hn] at h0; omega
    | succ k ih =>
      intro hk hlt
      rw [ringStart_succ hn (by omega)] at hlt
      by_cases hc : h < ringStart n k
      · exact ih (by omega) hc
      · exact ⟨k, h - ringStart n k, by omega, by omega, by omega⟩
  exact key (4 * n - 1) (by omega) (by rw [ringStart_last n hn]; exact hh)

theorem ring_decompose_unique {n r i r' i' : Nat} (hn : 1 ≤ n) (hr : r < 4 * n - 1) (hr' : r' < 4 * n - 1)
    (hi : i < 4 * perFacet n r) (hi' : i' < 4 * perFacet n r') (e : ringStart n r + i = ringStart n r' + i') :
    r = r' ∧ i = i' := by
  rcases Nat.lt_trichotomy r r' with h | h | h
  · have := ringStart_mono hn h (by omega); omega
  · subst h; exact ⟨rfl, by omega⟩
  · have := ringStart_mono hn h (by omega); omega

theorem ringStart_add_lt {n r i : Nat} (hn : 1 ≤ n) (hr : r < 4 * n - 1) (hi : i < 4 * perFacet n r) :
    ringStart n r + i < 12 * n * n := by
  have h1 : ringStart n r + 4 * perFacet n r ≤ ringStart n (4 * n - 1) := ringStart_mono hn hr (by omega)
  rw [ringStart_last n hn] at h1; omega

/-! ## `cxI`: range, spacing, monotonicity -/

theorem cxI_facet {n r q j : Nat} (hj : j < perFacet n r) :
    cxI n r (q * perFacet n r + j) = 2 * n * q + 2 * j + cxOff n r := by
  unfold cxI
  have hp : 0 < perFacet n r := by omega
  have e1 : (q * perFacet n r + j) / perFacet n r = q := by
    rw [Nat.mul_comm, Nat.mul_add_div hp, Nat.div_eq_of_lt hj]; rfl
  have e2 : (q * perFacet n r + j) % perFacet n r = j := by
    rw [Nat.mul_comm, Nat.mul_add_mod, Nat.mod_eq_of_lt hj]
  rw [e1, e2]

theorem cxI_lt {n r i : Nat} (hn : 1 ≤ n) (hr : r < 4 * n - 1) (hi : i < 4 * perFacet n r) : cxI n r i < 8 * n := by
  have hp := perFacet_pos hn hr
  have hq : i / perFacet n r < 4 := (Nat.div_lt_iff_lt_mul hp).mpr hi
  have hj : i % perFacet n r < perFacet n r := Nat.mod_lt _ hp
  have := (cxOff_add_perFacet hn hr).1
  have hle := perFacet_le (n := n) (r := r) hn
  unfold cxI
  have : 2 * n * (i / perFacet n r) ≤ 2 * n * 3 := Nat.mul_le_mul_left _ (by omega)
  omega

theorem cxI_strictMono {n r i i' : Nat} (hn : 1 ≤ n) (hr : r < 4 * n - 1) (h : i < i') : cxI n r i < cxI n r i' := by
  have hp := perFacet_pos hn hr
  have hle := perFacet_le (n := n) (r := r) hn
  unfold cxI
  generalize hm : perFacet n r = m at *
  have d1 := Nat.div_add_mod i m
  have d2 := Nat.div_add_mod i' m
  have hj : i % m < m := Nat.mod_lt _ hp
  have hj' : i' % m < m := Nat.mod_lt _ hp
  have hq : i / m ≤ i' / m := Nat.div_le_div_right (by omega)
  rcases Nat.lt_or_ge (i / m) (i' / m) with hlt | hge
  · have : 2 * n * (i / m + 1) ≤ 2 * n * (i' / m) := Nat.mul_le_mul_left _ hlt
    rw [Nat.mul_add] at this
    omega
  · have e : i / m = i' / m := by omega
    rw [e] at d1 ⊢
    omega

/-- within a facet, consecutive centres of a ring are `2/n` apart -/
theorem cxI_step {n r q j : Nat} (hj : j + 1 < perFacet n r) :
    cxI n r (q * perFacet n r + (j + 1)) = cxI n r (q * perFacet n r + j) + 2 := by
  rw [cxI_facet hj, cxI_facet (by omega)]; omega

/-- from a facet to the next one the pattern of centres is translated by `2n/n = 2` -/
theorem cxI_facet_shift {n r q j : Nat} (hj : j < perFacet n r) :
    cxI n r ((q + 1) * perFacet n r + j) = cxI n r (q * perFacet n r + j) + 2 * n := by
  rw [cxI_facet hj, cxI_facet hj, Nat.mul_add]; omega

/-- consecutive equatorial rings (`n − 1 ≤ r`, `r + 1 ≤ 3n − 1`) are offset by half a step: one of them has a centre
    at `x = 0`, the other at `x = 1/n` -/
theorem cxOff_equatorial {n r : Nat} (h1 : n ≤ r + 1) (h2 : r + 1 < 3 * n) : cxOff n r + cxOff n (r + 1) = 1 := by
  unfold cxOff
  rw [if_neg (by omega), if_pos (by omega), if_neg (by omega), if_pos (by omega)]; omega

/-- ring `r` holds `4·perFacet n r` cells: `4(r+1)` in the north cap, `4n` in the equatorial band (transition rings
    included), `4(4n−1−r)` in the south cap -/
theorem ring_cell_count {n r : Nat} (hn : 1 ≤ n) (hr : r < 4 * n - 1) :
    ringStart n (r + 1) - ringStart n r = 4 * perFacet n r ∧
    (r + 1 < n → perFacet n r = r + 1) ∧ (n ≤ r + 1 → r < 3 * n → perFacet n r = n) ∧
    (3 * n ≤ r → perFacet n r = 4 * n - 1 - r) := by
  refine ⟨by rw [ringStart_succ hn hr]; omega, ?_, ?_, ?_⟩
  · intro h; unfold perFacet; rw [if_pos h]
  · intro h h'; unfold perFacet; rw [if_neg (by omega), if_pos h']
  · intro h; unfold perFacet; rw [if_neg (by omega), if_neg (by omega)]

/-! ## closed form of `center_of_projected_cell` -/

theorem sub64_of_le {d : Bool} {a b : Nat} (h : b ≤ a) : sub64 d a b = some (a - b) := by simp [sub64, h]

theorem r_ofInt (k : Int) : (Num.ofInt k : ℝ) = (k : ℝ) := rfl
theorem r_zero : (Num.zero : ℝ) = 0 := by show ((0 : ℕ) : ℝ) = 0; norm_num

theorem polarRingIndex_eq {n x t : Nat} (hRI : RingIndexExact n) (hx : x < tri4 n) (h1 : tri4 t ≤ x)
    (h2 : x < tri4 (t + 1)) : polarRingIndex x = t := by
  obtain ⟨a, b⟩ := hRI x hx
  exact ringIdx_unique h1 h2 a b

/-- the real arithmetic shared by the two polar-cap branches -/
theorem cap_xy {n t i : Nat} (hn30 : n < 2 ^ 30) (ht : t + 1 < n) (hi : i < 4 * (t + 1)) :
    ((Num.ofNat ((i / (t + 1)) <<< 1 % 2 ^ 64) +
        (Num.ofNat ((i - i / (t + 1) * (t + 1)) <<< 1 % 2 ^ 64) + Num.ofNat (n - t)) / Num.ofNat n : ℝ)
      = ((2 * n * (i / (t + 1)) + 2 * (i % (t + 1)) + (n - t) : ℕ) : ℝ) / n) ∧
    ((Num.one + Num.ofNat (n - 1 - t) / Num.ofNat n : ℝ) = ((2 * n - 1 - t : ℕ) : ℝ) / n) := by
  have hq : i / (t + 1) < 4 := (Nat.div_lt_iff_lt_mul (by omega)).mpr hi
  have hdm := Nat.div_add_mod i (t + 1)
  have hj : i % (t + 1) < t + 1 := Nat.mod_lt _ (by omega)
  have e1 : i - i / (t + 1) * (t + 1) = i % (t + 1) := by
    rw [Nat.mul_comm]; omega
  have hn0 : (n : ℝ) ≠ 0 := by
    have : 0 < n := by omega
    positivity
  rw [e1, Nat.shiftLeft_eq, Nat.shiftLeft_eq, pow_one,
    Nat.mod_eq_of_lt (by omega : i / (t + 1) * 2 < 2 ^ 64)]
  constructor
  · rw [Nat.mod_eq_of_lt (by omega : i % (t + 1) * 2 < 2 ^ 64)]
    simp only [Proj.r_ofNat]
    push_cast
    field_simp
    ring
  · simp only [Proj.r_ofNat, Proj.r_one]
    have e2 : ((2 * n - 1 - t : ℕ) : ℝ) = (n : ℝ) + ((n - 1 - t : ℕ) : ℝ) := by
      have : 2 * n - 1 - t = n + (n - 1 - t) := by omega
      rw [this]; push_cast; ring
    rw [e2]; field_simp

theorem center_north (debug : Bool) {n r i : Nat} (hn30 : n < 2 ^ 30) (hRI : RingIndexExact n) (hr : r + 1 < n)
    (hi : i < 4 * (r + 1)) :
    centerOfProjectedCell (α := ℝ) debug n (tri4 r + i) = some ((cxI n r i : ℝ) / n, (cyI n r : ℝ) / n) := by
  have hs := tri4_succ r
  have hm : tri4 (r + 1) ≤ tri4 (n - 1) := tri4_mono (by omega)
  have hm2 : tri4 (n - 1) ≤ tri4 n := tri4_mono (by omega)
  have hsq := tri4_pred_two n (by omega)
  have hpri : polarRingIndex (tri4 r + i) = r := polarRingIndex_eq hRI (by omega) (by omega) (by omega)
  have hq : i / (r + 1) < 4 := (Nat.div_lt_iff_lt_mul (by omega)).mpr hi
  unfold centerOfProjectedCell
  have e12 : nHash n = 12 * (n * n) := by unfold nHash; ring
  rw [if_neg (by rw [e12]; omega), if_neg (by omega), if_pos (by omega)]
  simp only [hpri]
  rw [sub64_of_le (Nat.le_add_right _ _), Nat.add_sub_cancel_left]
  simp only [hq, decide_true, Bool.not_true, Bool.and_false, Bool.false_eq_true, if_false]
  have hdm := Nat.div_add_mod i (r + 1)
  have hle : i / (r + 1) * (r + 1) ≤ i := Nat.div_mul_le_self _ _
  rw [sub64_of_le (by omega : r ≤ n), sub64_of_le hle, sub64_of_le (by omega : r ≤ n - 1)]
  obtain ⟨ex, ey⟩ := cap_xy (n := n) (t := r) (i := i) hn30 hr hi
  simp only [ex, ey]
  have e1 : cxI n r i = 2 * n * (i / (r + 1)) + 2 * (i % (r + 1)) + (n - r) := by
    unfold cxI perFacet cxOff; rw [if_pos hr, if_pos hr]
  have e2 : cyI n r = ((2 * n - 1 - r : ℕ) : ℤ) := by unfold cyI; omega
  rw [e1, e2, Int.cast_natCast]

theorem center_south (debug : Bool) {n t i : Nat} (hn30 : n < 2 ^ 30) (hRI : RingIndexExact n) (ht : t + 1 < n)
    (hi : i < 4 * (t + 1)) :
    centerOfProjectedCell (α := ℝ) debug n (12 * n * n - tri4 (t + 1) + i)
      = some (((2 * n * (i / (t + 1)) + 2 * (i % (t + 1)) + (n - t) : ℕ) : ℝ) / n,
              -(((2 * n - 1 - t : ℕ) : ℝ) / n)) := by
  have hs := tri4_succ t
  have hm : tri4 (t + 1) ≤ tri4 (n - 1) := tri4_mono (by omega)
  have hm2 : tri4 (n - 1) ≤ tri4 n := tri4_mono (by omega)
  have hsq := tri4_pred_two n (by omega)
  have e12 : nHash n = 12 * (n * n) := by unfold nHash; ring
  have e12' : 12 * n * n = 12 * (n * n) := by ring
  have e5 : (n * (5 * n + 1)) <<< 1 = 10 * (n * n) + 2 * n := by rw [Nat.shiftLeft_eq]; ring
  have hh' : nHash n - 1 - (12 * n * n - tri4 (t + 1) + i) = tri4 t + (4 * (t + 1) - 1 - i) := by
    rw [e12, e12']; omega
  have hpri : polarRingIndex (tri4 t + (4 * (t + 1) - 1 - i)) = t :=
    polarRingIndex_eq hRI (by omega) (by omega) (by omega)
  have hq : i / (t + 1) < 4 := (Nat.div_lt_iff_lt_mul (by omega)).mpr hi
  unfold centerOfProjectedCell
  rw [if_neg (by rw [e12, e12']; omega), if_neg (by omega), if_neg (by rw [e12']; omega),
    if_pos (by rw [e5, e12']; omega)]
  simp only [hh', hpri]
  rw [sub64_of_le (Nat.le_add_right _ _), Nat.add_sub_cancel_left]
  have e4 : (t + 1) <<< 2 - 1 - (4 * (t + 1) - 1 - i) = i := by rw [Nat.shiftLeft_eq]; omega
  simp only []
  rw [sub64_of_le (a := (t + 1) <<< 2 - 1) (b := 4 * (t + 1) - 1 - i) (by rw [Nat.shiftLeft_eq]; omega)]
  simp only [e4]
  have hle : i / (t + 1) * (t + 1) ≤ i := Nat.div_mul_le_self _ _
  rw [sub64_of_le (by omega : t ≤ n), sub64_of_le hle, sub64_of_le (by omega : t ≤ n - 1)]
  obtain ⟨ex, ey⟩ := cap_xy (n := n) (t := t) (i := i) hn30 ht hi
  simp only [ex, ey]

theorem center_equatorial (debug : Bool) {n e i : Nat} (hn : 1 ≤ n) (hn30 : n < 2 ^ 30) (he : e ≤ 2 * n) (hi : i < 4 * n) :
    centerOfProjectedCell (α := ℝ) debug n (tri4 (n - 1) + e * (4 * n) + i)
      = some (((2 * i + (e + 1) % 2 : ℕ) : ℝ) / n, (((n : ℤ) - (e : ℤ) : ℤ) : ℝ) / n) := by
  have hsq := tri4_pred_two n hn
  have e12 : nHash n = 12 * (n * n) := by unfold nHash; ring
  have e5 : (n * (5 * n + 1)) <<< 1 = 10 * (n * n) + 2 * n := by rw [Nat.shiftLeft_eq]; ring
  have hen : e * (4 * n) ≤ 2 * n * (4 * n) := Nat.mul_le_mul_right _ he
  have e8 : 2 * n * (4 * n) = 8 * (n * n) := by ring
  have e4 : n <<< 2 % 2 ^ 32 = 4 * n := by rw [Nat.shiftLeft_eq]; omega
  unfold centerOfProjectedCell
  rw [if_neg (by rw [e12]; omega), if_neg (by omega), if_neg (by omega), if_neg (by rw [e5]; omega)]
  simp only [e4]
  rw [if_neg (by omega)]
  have er0 : tri4 (n - 1) + e * (4 * n) + i - tri4 (n - 1) = e * (4 * n) + i := by omega
  have ediv : (e * (4 * n) + i) / (4 * n) = e := by
    rw [Nat.mul_comm e, Nat.mul_add_div (by omega), Nat.div_eq_of_lt hi]; rfl
  simp only [er0, ediv, Nat.add_sub_cancel_left, Nat.and_one_is_mod, Nat.shiftLeft_eq, pow_one, Proj.r_ofNat, r_ofInt]
  rw [Nat.mul_comm i 2]

/-- **closed form of the centre**, all three regions at once -/
theorem center_eq (debug : Bool) {n r i : Nat} (hn : 1 ≤ n) (hn30 : n < 2 ^ 30) (hRI : RingIndexExact n)
    (hr : r < 4 * n - 1) (hi : i < 4 * perFacet n r) :
    centerOfProjectedCell (α := ℝ) debug n (ringStart n r + i) = some ((cxI n r i : ℝ) / n, (cyI n r : ℝ) / n) := by
  by_cases h1 : r + 1 < n
  · have e : ringStart n r = tri4 r := by unfold ringStart; rw [if_pos h1]
    have hp : perFacet n r = r + 1 := by unfold perFacet; rw [if_pos h1]
    rw [e]; exact center_north debug hn30 hRI h1 (by rw [hp] at hi; exact hi)
  · by_cases h2 : r < 3 * n
    · have e : ringStart n r = tri4 (n - 1) + (r + 1 - n) * (4 * n) := by
        unfold ringStart; rw [if_neg h1, if_pos h2]
      have hp : perFacet n r = n := by unfold perFacet; rw [if_neg h1, if_pos h2]
      rw [hp] at hi
      rw [e, center_equatorial debug hn hn30 (by omega) hi]
      have dm := Nat.div_add_mod i n
      have e1 : cxI n r i = 2 * i + (r + 1 - n + 1) % 2 := by
        unfold cxI cxOff; rw [hp, if_neg h1, if_pos h2]
        have : 2 * n * (i / n) = 2 * (n * (i / n)) := by ring
        omega
      have e2 : cyI n r = (n : ℤ) - ((r + 1 - n : ℕ) : ℤ) := by unfold cyI; omega
      rw [e1, e2]
    · have ht : (4 * n - 2 - r) + 1 < n := by omega
      have e : ringStart n r = 12 * n * n - tri4 ((4 * n - 2 - r) + 1) := by
        unfold ringStart; rw [if_neg h1, if_neg h2]
        have : 4 * n - 1 - r = 4 * n - 2 - r + 1 := by omega
        rw [this]
      have hp : perFacet n r = (4 * n - 2 - r) + 1 := by unfold perFacet; rw [if_neg h1, if_neg h2]; omega
      rw [hp] at hi
      rw [e, center_south debug hn30 hRI ht hi]
      have e1 : cxI n r i = 2 * n * (i / (4 * n - 2 - r + 1)) + 2 * (i % (4 * n - 2 - r + 1)) + (n - (4 * n - 2 - r)) := by
        unfold cxI cxOff; rw [hp, if_neg h1, if_neg h2]; omega
      have e2 : cyI n r = -(((2 * n - 1 - (4 * n - 2 - r) : ℕ)) : ℤ) := by unfold cyI; omega
      rw [e1, e2]
      push_cast
      rw [neg_div]

/-- `ring_center_plane` (task item 1): for every `nside = n ≥ 1` and every cell `h < 12 n²` the centre is defined
    (no panic, in both profiles) and has the closed form `(cxI n r i / n, cyI n r / n)` where `(r, i)` is the (unique)
    ring decomposition `h = ringStart n r + i`; `0 ≤ x < 8`, `−2 < y < 2`, `y·n ∈ ℤ` (`cyI = 2n − 1 − r`). -/
theorem ring_center_plane (debug : Bool) {n : Nat} (hn : 1 ≤ n) (hn30 : n < 2 ^ 30) (hRI : RingIndexExact n)
    (h : Nat) (hh : h < 12 * n * n) :
    ∃ r i, r < 4 * n - 1 ∧ i < 4 * perFacet n r ∧ h = ringStart n r + i ∧
      centerOfProjectedCell (α := ℝ) debug n h = some ((cxI n r i : ℝ) / n, (cyI n r : ℝ) / n) ∧
      0 ≤ (cxI n r i : ℝ) / n ∧ (cxI n r i : ℝ) / n < 8 ∧ -2 < (cyI n r : ℝ) / n ∧ (cyI n r : ℝ) / n < 2 ∧
      (cyI n r : ℝ) / n * n = ((2 * (n : ℤ) - 1 - r : ℤ) : ℝ) := by
  obtain ⟨r, i, hr, hi, e⟩ := ring_decompose hn h hh
  have hn0 : (0 : ℝ) < n := by exact_mod_cast hn
  refine ⟨r, i, hr, hi, e, by rw [e]; exact center_eq debug hn hn30 hRI hr hi, by positivity, ?_, ?_, ?_, ?_⟩
  · rw [div_lt_iff₀ hn0]
    have := cxI_lt hn hr hi
    exact_mod_cast this
  · rw [lt_div_iff₀ hn0]
    have : -2 * (n : ℤ) < cyI n r := by unfold cyI; omega
    exact_mod_cast this
  · rw [div_lt_iff₀ hn0]
    have : cyI n r < 2 * (n : ℤ) := by unfold cyI; omega
    exact_mod_cast this
  · unfold cyI; field_simp

/-- the three regions, spelled out.  North cap, ring `r` (`r + 1 < n`, `4(r+1)` cells), facet `q < 4`, `j ≤ r`:
    cell `2r(r+1) + q(r+1) + j` has its centre at `x = 2q + (2j + n − r)/n`, `y = (2n − 1 − r)/n`. -/
theorem ring_center_north (debug : Bool) {n r q j : Nat} (hn30 : n < 2 ^ 30) (hRI : RingIndexExact n)
    (hr : r + 1 < n) (hq : q < 4) (hj : j < r + 1) :
    centerOfProjectedCell (α := ℝ) debug n (tri4 r + (q * (r + 1) + j))
      = some (2 * (q : ℝ) + (2 * j + (n - r : ℕ) : ℝ) / n, ((2 * n - 1 - r : ℕ) : ℝ) / n) := by
  have hi : q * (r + 1) + j < 4 * (r + 1) := by
    have : q * (r + 1) ≤ 3 * (r + 1) := Nat.mul_le_mul_right _ (by omega)
    omega
  rw [center_north debug hn30 hRI hr hi]
  have hp : perFacet n r = r + 1 := by unfold perFacet; rw [if_pos hr]
  have e1 : cxI n r (q * (r + 1) + j) = 2 * n * q + 2 * j + (n - r) := by
    have := cxI_facet (n := n) (r := r) (q := q) (j := j) (by rw [hp]; exact hj)
    rw [hp] at this; rw [this]; unfold cxOff; rw [if_pos hr]
  have e2 : cyI n r = ((2 * n - 1 - r : ℕ) : ℤ) := by unfold cyI; omega
  have hn0 : (n : ℝ) ≠ 0 := by
    have : 0 < n := by omega
    positivity
  rw [e1, e2, Int.cast_natCast]
  congr 2
  push_cast; field_simp; ring

/-- equatorial band, ring `n − 1 + e` (`e ≤ 2n`, `4n` cells, the transition rings `y = ±1` included): cell
    `2n(n−1) + 4n·e + i` has its centre at `x = (2i + (e+1) mod 2)/n` (half-step offset between rings of different
    parity), `y = (n − e)/n`. -/
theorem ring_center_equatorial (debug : Bool) {n e i : Nat} (hn : 1 ≤ n) (hn30 : n < 2 ^ 30) (he : e ≤ 2 * n)
    (hi : i < 4 * n) :
    centerOfProjectedCell (α := ℝ) debug n (tri4 (n - 1) + e * (4 * n) + i)
      = some (((2 * i + (e + 1) % 2 : ℕ) : ℝ) / n, (((n : ℤ) - (e : ℤ) : ℤ) : ℝ) / n) :=
  center_equatorial debug hn hn30 he hi

/-- south cap, `t`-th ring from the south pole (`t + 1 < n`, `4(t+1)` cells), facet `q < 4`, `j ≤ t`:
    cell `12n² − 2(t+1)(t+2) + q(t+1) + j` has its centre at `x = 2q + (2j + n − t)/n`, `y = −(2n − 1 − t)/n`. -/
theorem ring_center_south (debug : Bool) {n t q j : Nat} (hn30 : n < 2 ^ 30) (hRI : RingIndexExact n)
    (ht : t + 1 < n) (hq : q < 4) (hj : j < t + 1) :
    centerOfProjectedCell (α := ℝ) debug n (12 * n * n - tri4 (t + 1) + (q * (t + 1) + j))
      = some (2 * (q : ℝ) + (2 * j + (n - t : ℕ) : ℝ) / n, -(((2 * n - 1 - t : ℕ) : ℝ) / n)) := by
  have hi : q * (t + 1) + j < 4 * (t + 1) := by
    have : q * (t + 1) ≤ 3 * (t + 1) := Nat.mul_le_mul_right _ (by omega)
    omega
  rw [center_south debug hn30 hRI ht hi]
  have e1 : (q * (t + 1) + j) / (t + 1) = q := by
    rw [Nat.mul_comm, Nat.mul_add_div (by omega), Nat.div_eq_of_lt hj]; rfl
  have e2 : (q * (t + 1) + j) % (t + 1) = j := by
    rw [Nat.mul_comm, Nat.mul_add_mod, Nat.mod_eq_of_lt hj]
  have hn0 : (n : ℝ) ≠ 0 := by
    have : 0 < n := by omega
    positivity
  rw [e1, e2]
  congr 2
  push_cast; field_simp; ring

/-- sanity check of the closed forms against the task's table: `n = 3`, first north ring `x = 1, 3, 5, 7`, second
    ring `x·3 = 2, 4, 8, 10, …` -/
example : cxI 3 0 2 = 15 ∧ cxI 3 1 3 = 10 ∧ cxI 3 2 0 = 1 ∧ cxI 3 3 0 = 0 ∧ cxI 3 9 7 = 22 ∧ ringStart 3 9 = 96 := by
  decide

/-! ## the RING order -/

/-- `ring_order` (task item 2): for `h < h' < 12 n²` the centre of `h` is strictly north of the centre of `h'`, or at
    the same ordinate and strictly west of it.  (`y ↦ lat` and, at fixed `y`, `x ↦ lon` are monotone.) -/
theorem ring_order (debug : Bool) {n : Nat} (hn : 1 ≤ n) (hn30 : n < 2 ^ 30) (hRI : RingIndexExact n)
    (h h' : Nat) (hlt : h < h') (hh' : h' < 12 * n * n) :
    ∃ cx cy cx' cy' : ℝ, centerOfProjectedCell (α := ℝ) debug n h = some (cx, cy) ∧
      centerOfProjectedCell (α := ℝ) debug n h' = some (cx', cy') ∧ (cy' < cy ∨ (cy' = cy ∧ cx < cx')) := by
  obtain ⟨r, i, hr, hi, e⟩ := ring_decompose hn h (by omega)
  obtain ⟨r', i', hr', hi', e'⟩ := ring_decompose hn h' hh'
  have hn0 : (0 : ℝ) < n := by exact_mod_cast hn
  refine ⟨_, _, _, _, by rw [e]; exact center_eq debug hn hn30 hRI hr hi,
    by rw [e']; exact center_eq debug hn hn30 hRI hr' hi', ?_⟩
  rcases Nat.lt_trichotomy r r' with hc | hc | hc
  · left
    rw [div_lt_div_iff_of_pos_right hn0]
    have : cyI n r' < cyI n r := by unfold cyI; omega
    exact_mod_cast this
  · subst hc
    right
    refine ⟨rfl, ?_⟩
    rw [div_lt_div_iff_of_pos_right hn0]
    have := cxI_strictMono (n := n) (r := r) (i := i) (i' := i') hn hr (by omega)
    exact_mod_cast this
  · exfalso
    have := ringStart_mono hn hc (by omega : r ≤ 4 * n - 1); omega

end Hpx.RingReal
