/-
C12, T2 (continued): a COUNTER-EXAMPLE to "a cell whose four vertices are inside a convex polygon is inside the polygon",
proved over ℝ on the model functions (`vertices`, `sph_coo`, `center`, `Polygon::new`, `Polygon::contains`, the classifier
of `polygon_coverage`).

Cell: depth 1, number 23 (base cell 5, `i = j = 1`): plane centre `(2, 1/2)`; vertices S `(π/2, 0)`, E `(5π/8, asin 1/3)`,
N `(π/2, asin 2/3)`, W `(3π/8, asin 1/3)`.  Its south-east side is the image of a straight segment of the projection plane
(`lon = π/2 + t·π/8`, `sin lat = t/3`); it is not a great-circle arc and lies up to 0.47° on the OUTER side of the great circle
through S and E.  Polygon: the triangle `A B C` with rational unit vectors, whose edge `A → B` passes 0.22° outside S and E
and 0.23° inside the point `sph_coo(23, 2/3, 0) = (7π/12, asin 2/9)` of that side.

Evaluation of the `Float` instance of the model (the run that is compared bit for bit with the crate), with
`verts = [(1.1912028869057143, -0.3337048686230828), (2.3195238551787396, 0.5575791415950039),
(0.6981317007977318, 0.9599310885968813)]` (the same construction before rounding to rational unit vectors):
  `polygonCoverage {} 1 verts false`, `… true`  ↦  … `{ depth := 1, hash := 23, full := true }`
  `polygonCoverage {} 2 verts false`, `polygonCoverage {} 3 verts true`  ↦  … `{ depth := 1, hash := 23, full := true }`
  `Polygon.contains` at `sphCoo {} 1 23 0.5 0.0 = (1.767146, 0.167448)` ↦ `false`;  at `center {} 1 23` ↦ `true`.
-/
import HpxVerif.Lemmas.PolyCompose3

set_option autoImplicit false

namespace Hpx.PolyCompose
open Hpx Hpx.Cover Hpx.Bmoc Hpx.Sph Real Hpx.Proj Hpx.CellReal Hpx.EnvelopeReal Hpx.TopoLift

theorem sqrt_bounds (x lo hi : ℝ) (hlo : 0 ≤ lo) (hhi : 0 < hi) (h1 : lo ^ 2 < x) (h2 : x < hi ^ 2) :
    lo < √x ∧ √x < hi :=
  ⟨(Real.lt_sqrt hlo).mpr h1, (Real.sqrt_lt' hhi).mpr h2⟩

theorem mul_bounds (x y a1 a2 b1 b2 : ℝ) (ha : 0 ≤ a1) (hb : 0 ≤ b1) (hx1 : a1 < x) (hx2 : x < a2) (hy1 : b1 < y) (hy2 : y < b2) :
    a1 * b1 < x * y ∧ x * y < a2 * b2 := by
  constructor
  · nlinarith
  · nlinarith

theorem b_sqrt2 : (1.414213 : ℝ) < √2 ∧ √2 < 1.414214 := sqrt_bounds 2 _ _ (by norm_num) (by norm_num) (by norm_num) (by norm_num)
theorem b_sqrt3 : (1.732050 : ℝ) < √3 ∧ √3 < 1.732051 := sqrt_bounds 3 _ _ (by norm_num) (by norm_num) (by norm_num) (by norm_num)

/-- `sin (π/8)` and `cos (π/8)` -/
theorem b_s8 : (0.382683 : ℝ) < sin (π / 8) ∧ sin (π / 8) < 0.382684 := by
  obtain ⟨l, h⟩ := b_sqrt2
  rw [sin_pi_div_eight]
  obtain ⟨a, b⟩ := sqrt_bounds (2 - √2) 0.765366 0.765368 (by norm_num) (by norm_num) (by norm_num; linarith) (by norm_num; linarith)
  constructor <;> linarith

theorem b_c8 : (0.923879 : ℝ) < cos (π / 8) ∧ cos (π / 8) < 0.923880 := by
  obtain ⟨l, h⟩ := b_sqrt2
  rw [cos_pi_div_eight]
  obtain ⟨a, b⟩ := sqrt_bounds (2 + √2) 1.847758 1.847760 (by norm_num) (by norm_num) (by norm_num; linarith) (by norm_num; linarith)
  constructor <;> linarith

theorem sin_pi_div_twelve : sin (π / 12) = √2 * (√3 - 1) / 4 := by
  rw [show π / 12 = π / 3 - π / 4 by ring, sin_sub, sin_pi_div_three, cos_pi_div_four, cos_pi_div_three, sin_pi_div_four]
  ring

theorem cos_pi_div_twelve : cos (π / 12) = √2 * (√3 + 1) / 4 := by
  rw [show π / 12 = π / 3 - π / 4 by ring, cos_sub, sin_pi_div_three, cos_pi_div_four, cos_pi_div_three, sin_pi_div_four]
  ring

theorem b_s12 : (0.258818 : ℝ) < sin (π / 12) ∧ sin (π / 12) < 0.258820 := by
  obtain ⟨l2, h2⟩ := b_sqrt2
  obtain ⟨l3, h3⟩ := b_sqrt3
  rw [sin_pi_div_twelve]
  obtain ⟨a, b⟩ := mul_bounds √2 (√3 - 1) 1.414213 1.414214 0.732050 0.732051 (by norm_num) (by norm_num) l2 h2 (by linarith) (by linarith)
  constructor <;> [(norm_num at a; linarith); (norm_num at b; linarith)]

theorem b_c12 : (0.965925 : ℝ) < cos (π / 12) ∧ cos (π / 12) < 0.965927 := by
  obtain ⟨l2, h2⟩ := b_sqrt2
  obtain ⟨l3, h3⟩ := b_sqrt3
  rw [cos_pi_div_twelve]
  obtain ⟨a, b⟩ := mul_bounds √2 (√3 + 1) 1.414213 1.414214 2.732050 2.732051 (by norm_num) (by norm_num) l2 h2 (by linarith) (by linarith)
  constructor <;> [(norm_num at a; linarith); (norm_num at b; linarith)]

/-- cosines of the three latitudes `arcsin (1/3)`, `arcsin (2/3)`, `arcsin (2/9)` -/
theorem b_cE : (0.942809 : ℝ) < cos (Real.arcsin (1 / 3)) ∧ cos (Real.arcsin (1 / 3)) < 0.942810 := by
  rw [Real.cos_arcsin]
  exact sqrt_bounds _ _ _ (by norm_num) (by norm_num) (by norm_num) (by norm_num)

theorem b_cN : (0.745355 : ℝ) < cos (Real.arcsin (2 / 3)) ∧ cos (Real.arcsin (2 / 3)) < 0.745356 := by
  rw [Real.cos_arcsin]
  exact sqrt_bounds _ _ _ (by norm_num) (by norm_num) (by norm_num) (by norm_num)

theorem b_cM : (0.974996 : ℝ) < cos (Real.arcsin (2 / 9)) ∧ cos (Real.arcsin (2 / 9)) < 0.974997 := by
  rw [Real.cos_arcsin]
  exact sqrt_bounds _ _ _ (by norm_num) (by norm_num) (by norm_num) (by norm_num)

/-! ### the polygon: a triangle with rational unit vectors -/

/-- `A = (47.92°, −31.89°)`, `B = (132.74°, 31.89°)`, `C = (36.87°, 53.13°)`, counter-clockwise -/
noncomputable def bulgeLL : List (ℝ × ℝ) :=
  [(Real.arccos (65 / 97), Real.arcsin (-(28 / 53))), (Real.arccos (-(207 / 305)), Real.arcsin (28 / 53)),
   (Real.arccos (4 / 5), Real.arcsin (4 / 5))]

noncomputable def bA : Coo ℝ :=
  { x := 45 / 53 * (65 / 97), y := 45 / 53 * (72 / 97), z := -(28 / 53), lon := Real.arccos (65 / 97), lat := Real.arcsin (-(28 / 53)) }
noncomputable def bB : Coo ℝ :=
  { x := 45 / 53 * (-(207 / 305)), y := 45 / 53 * (224 / 305), z := 28 / 53, lon := Real.arccos (-(207 / 305)), lat := Real.arcsin (28 / 53) }
noncomputable def bC : Coo ℝ :=
  { x := 3 / 5 * (4 / 5), y := 3 / 5 * (3 / 5), z := 4 / 5, lon := Real.arccos (4 / 5), lat := Real.arcsin (4 / 5) }

/-- a position given by `arccos` of a rational cosine and `arcsin` of a rational sine -/
theorem cooOf_arc (c s cb sb : ℝ) (h1 : c ^ 2 + s ^ 2 = 1) (hs : 0 ≤ s) (h2 : cb ^ 2 + sb ^ 2 = 1) (hcb : 0 ≤ cb) :
    cooOf (Real.arccos c, Real.arcsin sb) =
      { x := cb * c, y := cb * s, z := sb, lon := Real.arccos c, lat := Real.arcsin sb } := by
  have c1 : -1 ≤ c := by nlinarith
  have c2 : c ≤ 1 := by nlinarith
  have s1 : -1 ≤ sb := by nlinarith
  have s2 : sb ≤ 1 := by nlinarith
  have e1 : Real.sqrt (1 - c ^ 2) = s := by
    rw [show 1 - c ^ 2 = s ^ 2 by linarith, Real.sqrt_sq hs]
  have e2 : Real.sqrt (1 - sb ^ 2) = cb := by
    rw [show 1 - sb ^ 2 = cb ^ 2 by linarith, Real.sqrt_sq hcb]
  unfold cooOf
  simp only [Real.cos_arccos c1 c2, Real.sin_arccos, Real.cos_arcsin, Real.sin_arcsin s1 s2, e1, e2]

theorem bulgeLL_map : bulgeLL.map cooOf = [bA, bB, bC] := by
  simp only [bulgeLL, List.map_cons, List.map_nil]
  rw [cooOf_arc (65 / 97) (72 / 97) (45 / 53) (-(28 / 53)) (by norm_num) (by norm_num) (by norm_num) (by norm_num),
    cooOf_arc (-(207 / 305)) (224 / 305) (45 / 53) (28 / 53) (by norm_num) (by norm_num) (by norm_num) (by norm_num),
    cooOf_arc (4 / 5) (3 / 5) (3 / 5) (4 / 5) (by norm_num) (by norm_num) (by norm_num) (by norm_num)]
  rfl

theorem bulgeLL_range : ∀ ll ∈ bulgeLL, 0 ≤ ll.1 ∧ ll.1 < 2 * π ∧ -(π / 2) ≤ ll.2 ∧ ll.2 ≤ π / 2 := by
  have hpi := pi_pos
  intro ll hll
  simp only [bulgeLL, List.mem_cons, List.not_mem_nil, or_false] at hll
  rcases hll with rfl | rfl | rfl <;>
    exact ⟨Real.arccos_nonneg _, lt_of_le_of_lt (Real.arccos_le_pi _) (by linarith), Real.neg_pi_div_two_le_arcsin _,
      Real.arcsin_le_pi_div_two _⟩

theorem bulge_convex : ConvexNoPole 1 (bulgeLL.map cooOf) := by
  have hpi := pi_pos
  have hval : ∀ v ∈ bulgeLL.map cooOf, v.Valid ∧ v.NonPole := by
    intro v hv
    obtain ⟨ll, hll, rfl⟩ := List.mem_map.mp hv
    obtain ⟨a1, a2, a3, a4⟩ := bulgeLL_range ll hll
    refine ⟨cooOf_valid ll a1 a2 a3 a4, ?_⟩
    simp only [bulgeLL, List.mem_cons, List.not_mem_nil, or_false] at hll
    rcases hll with rfl | rfl | rfl <;>
      exact ⟨Real.neg_pi_div_two_lt_arcsin.mpr (by norm_num), Real.arcsin_lt_pi_div_two.mpr (by norm_num)⟩
  refine ⟨Or.inl rfl, by simp [bulgeLL], hval, ?_, ⟨(1, 1, 1), ?_⟩, ?_, ?_⟩
  · rw [bulgeLL_map]
    intro i k hi hk h1 h2'
    simp only [List.length_cons, List.length_nil] at hi hk h1 h2'
    interval_cases i <;> interval_cases k <;> simp [prevIdx] at h1 h2' ⊢ <;>
      (simp only [dot, cross, bA, bB, bC]; norm_num)
  · rw [bulgeLL_map]
    intro v hv
    simp only [List.mem_cons, List.not_mem_nil, or_false] at hv
    rcases hv with rfl | rfl | rfl <;> (simp only [dot, bA, bB, bC]; norm_num)
  · rw [bulgeLL_map]
    exact ⟨(bA, bB), by simp [edges_three], by simp only [cross, bA, bB]; norm_num⟩
  · rw [bulgeLL_map]
    exact ⟨(bB, bC), by simp [edges_three], by simp only [cross, bB, bC]; norm_num⟩

/-! ## 2. a full flag on a cell that is not inside the polygon: depth 1, cell 23 -/

theorem parts_23 : partsOf 1 23 = ⟨5, 1, 1⟩ := by decide

theorem cx_23 : cellCx 1 5 1 1 = 2 := by unfold cellCx baseX; norm_num
theorem cy_23 : cellCy 1 5 1 1 = 1 / 2 := by unfold cellCy baseY; norm_num

/-- the four vertices of the cell 23 of depth 1, as `vertices()` returns them over ℝ -/
theorem vertices_23 (cfg : Cfg) : Hash.vertices (α := ℝ) cfg 1 23 =
    some [(π / 2, 0), (5 * π / 8, Real.arcsin (1 / 3)), (π / 2, Real.arcsin (2 / 3)), (3 * π / 8, Real.arcsin (1 / 3))] := by
  have hdec : Layer.decodeHash cfg 1 23 = some ⟨5, 1, 1⟩ := by
    rw [decodeHash_spec cfg 1 (by decide) 23 (by decide), parts_23]
  rw [vertices_plane cfg 1 23 5 1 1 (by decide) hdec (by decide) (by decide) (by decide)]
  have n2 : norm8 (2 : ℝ) = 2 := norm8_of_nonneg _ (by norm_num)
  have n3 : norm8 ((2 : ℝ) - 1 / 2 ^ 1) = 3 / 2 := by rw [norm8_of_nonneg _ (by norm_num)]; norm_num
  simp only [vtx, cx_23, cy_23, n2, n3]
  rw [unprojT_band 2 (1 / 2 - 1 / 2 ^ 1) (by norm_num) (by norm_num) (by norm_num),
    unprojT_band (2 + 1 / 2 ^ 1) (1 / 2) (by norm_num) (by norm_num) (by norm_num [abs_le]),
    unprojT_band 2 (1 / 2 + 1 / 2 ^ 1) (by norm_num) (by norm_num) (by norm_num),
    unprojT_band (3 / 2) (1 / 2) (by norm_num) (by norm_num) (by norm_num [abs_le])]
  congr 2
  · norm_num; ring
  · congr 1
    · congr 1 <;> [ring; norm_num]
    · congr 1
      · congr 1 <;> [ring; norm_num]
      · congr 2 <;> [ring; norm_num]

/-- the point of the south-east side of the cell at two thirds of the way from S to E, as `sph_coo(23, 2/3, 0)` returns it -/
theorem sphCoo_23 (cfg : Cfg) : Hash.sphCoo (α := ℝ) cfg 1 23 (2 / 3) 0 = some (7 * π / 12, Real.arcsin (2 / 9)) := by
  have hdec : Layer.decodeHash cfg 1 23 = some ⟨5, 1, 1⟩ := by
    rw [decodeHash_spec cfg 1 (by decide) 23 (by decide), parts_23]
  rw [(sph_coo_plane cfg 1 23 5 1 1 (2 / 3) 0 (by decide) hdec (by decide) (by decide) (by decide) (by norm_num) (by norm_num)
    (by norm_num) (by norm_num)).1]
  have e1 : cooPt 1 5 1 1 (2 / 3) 0 = (7 / 3, 1 / 3) := by
    unfold cooPt; rw [cx_23, cy_23, norm8_of_nonneg _ (by norm_num)]; norm_num
  rw [e1, unprojT_band (7 / 3) (1 / 3) (by norm_num) (by norm_num) (by norm_num [abs_le])]
  congr 2
  · ring
  · norm_num


/-! ### the unit vectors of the four vertices and of the point of the side -/

theorem pS_xyz : (cooOf (π / 2, (0 : ℝ))).x = 0 ∧ (cooOf (π / 2, (0 : ℝ))).y = 1 ∧ (cooOf (π / 2, (0 : ℝ))).z = 0 := by
  simp [cooOf]

theorem pN_xyz : (cooOf (π / 2, Real.arcsin (2 / 3))).x = 0 ∧ 0.745355 < (cooOf (π / 2, Real.arcsin (2 / 3))).y ∧
    (cooOf (π / 2, Real.arcsin (2 / 3))).y < 0.745356 ∧ (cooOf (π / 2, Real.arcsin (2 / 3))).z = 2 / 3 := by
  obtain ⟨a, b⟩ := b_cN
  refine ⟨by simp [cooOf], ?_, ?_, ?_⟩
  · show _ < cos (Real.arcsin (2 / 3)) * sin (π / 2); rw [sin_pi_div_two, mul_one]; exact a
  · show cos (Real.arcsin (2 / 3)) * sin (π / 2) < _; rw [sin_pi_div_two, mul_one]; exact b
  · show sin (Real.arcsin (2 / 3)) = _; exact Real.sin_arcsin (by norm_num) (by norm_num)

theorem pE_xyz : -0.360799 < (cooOf (5 * π / 8, Real.arcsin (1 / 3))).x ∧ (cooOf (5 * π / 8, Real.arcsin (1 / 3))).x < -0.360796 ∧
    0.871041 < (cooOf (5 * π / 8, Real.arcsin (1 / 3))).y ∧ (cooOf (5 * π / 8, Real.arcsin (1 / 3))).y < 0.871044 ∧
    (cooOf (5 * π / 8, Real.arcsin (1 / 3))).z = 1 / 3 := by
  obtain ⟨a1, a2⟩ := b_cE
  obtain ⟨s1, s2⟩ := b_s8
  obtain ⟨c1, c2⟩ := b_c8
  have ec : cos (5 * π / 8) = -sin (π / 8) := by rw [show 5 * π / 8 = π / 8 + π / 2 by ring, cos_add_pi_div_two]
  have es : sin (5 * π / 8) = cos (π / 8) := by rw [show 5 * π / 8 = π / 8 + π / 2 by ring, sin_add_pi_div_two]
  obtain ⟨m1, m2⟩ := mul_bounds _ _ _ _ _ _ (by norm_num) (by norm_num) a1 a2 s1 s2
  obtain ⟨m3, m4⟩ := mul_bounds _ _ _ _ _ _ (by norm_num) (by norm_num) a1 a2 c1 c2
  have m1' := lt_trans (by norm_num : (0.360796 : ℝ) < _) m1
  have m2' := lt_trans m2 (by norm_num : _ < (0.360799 : ℝ))
  have m3' := lt_trans (by norm_num : (0.871041 : ℝ) < _) m3
  have m4' := lt_trans m4 (by norm_num : _ < (0.871044 : ℝ))
  refine ⟨?_, ?_, ?_, ?_, ?_⟩
  · show _ < cos (Real.arcsin (1 / 3)) * cos (5 * π / 8); rw [ec]; linarith
  · show cos (Real.arcsin (1 / 3)) * cos (5 * π / 8) < _; rw [ec]; linarith
  · show _ < cos (Real.arcsin (1 / 3)) * sin (5 * π / 8); rw [es]; linarith
  · show cos (Real.arcsin (1 / 3)) * sin (5 * π / 8) < _; rw [es]; linarith
  · show sin (Real.arcsin (1 / 3)) = _; exact Real.sin_arcsin (by norm_num) (by norm_num)

theorem pW_xyz : 0.360796 < (cooOf (3 * π / 8, Real.arcsin (1 / 3))).x ∧ (cooOf (3 * π / 8, Real.arcsin (1 / 3))).x < 0.360799 ∧
    0.871041 < (cooOf (3 * π / 8, Real.arcsin (1 / 3))).y ∧ (cooOf (3 * π / 8, Real.arcsin (1 / 3))).y < 0.871044 ∧
    (cooOf (3 * π / 8, Real.arcsin (1 / 3))).z = 1 / 3 := by
  obtain ⟨a1, a2⟩ := b_cE
  obtain ⟨s1, s2⟩ := b_s8
  obtain ⟨c1, c2⟩ := b_c8
  have ec : cos (3 * π / 8) = sin (π / 8) := by rw [show 3 * π / 8 = π / 2 - π / 8 by ring, cos_pi_div_two_sub]
  have es : sin (3 * π / 8) = cos (π / 8) := by rw [show 3 * π / 8 = π / 2 - π / 8 by ring, sin_pi_div_two_sub]
  obtain ⟨m1, m2⟩ := mul_bounds _ _ _ _ _ _ (by norm_num) (by norm_num) a1 a2 s1 s2
  obtain ⟨m3, m4⟩ := mul_bounds _ _ _ _ _ _ (by norm_num) (by norm_num) a1 a2 c1 c2
  have m1' := lt_trans (by norm_num : (0.360796 : ℝ) < _) m1
  have m2' := lt_trans m2 (by norm_num : _ < (0.360799 : ℝ))
  have m3' := lt_trans (by norm_num : (0.871041 : ℝ) < _) m3
  have m4' := lt_trans m4 (by norm_num : _ < (0.871044 : ℝ))
  refine ⟨?_, ?_, ?_, ?_, ?_⟩
  · show _ < cos (Real.arcsin (1 / 3)) * cos (3 * π / 8); rw [ec]; linarith
  · show cos (Real.arcsin (1 / 3)) * cos (3 * π / 8) < _; rw [ec]; linarith
  · show _ < cos (Real.arcsin (1 / 3)) * sin (3 * π / 8); rw [es]; linarith
  · show cos (Real.arcsin (1 / 3)) * sin (3 * π / 8) < _; rw [es]; linarith
  · show sin (Real.arcsin (1 / 3)) = _; exact Real.sin_arcsin (by norm_num) (by norm_num)

theorem pM_xyz : -0.252349 < (cooOf (7 * π / 12, Real.arcsin (2 / 9))).x ∧ (cooOf (7 * π / 12, Real.arcsin (2 / 9))).x < -0.252346 ∧
    0.941773 < (cooOf (7 * π / 12, Real.arcsin (2 / 9))).y ∧ (cooOf (7 * π / 12, Real.arcsin (2 / 9))).y < 0.941776 ∧
    (cooOf (7 * π / 12, Real.arcsin (2 / 9))).z = 2 / 9 := by
  obtain ⟨a1, a2⟩ := b_cM
  obtain ⟨s1, s2⟩ := b_s12
  obtain ⟨c1, c2⟩ := b_c12
  have ec : cos (7 * π / 12) = -sin (π / 12) := by rw [show 7 * π / 12 = π / 12 + π / 2 by ring, cos_add_pi_div_two]
  have es : sin (7 * π / 12) = cos (π / 12) := by rw [show 7 * π / 12 = π / 12 + π / 2 by ring, sin_add_pi_div_two]
  obtain ⟨m1, m2⟩ := mul_bounds _ _ _ _ _ _ (by norm_num) (by norm_num) a1 a2 s1 s2
  obtain ⟨m3, m4⟩ := mul_bounds _ _ _ _ _ _ (by norm_num) (by norm_num) a1 a2 c1 c2
  have m1' := lt_trans (by norm_num : (0.252346 : ℝ) < _) m1
  have m2' := lt_trans m2 (by norm_num : _ < (0.252349 : ℝ))
  have m3' := lt_trans (by norm_num : (0.941773 : ℝ) < _) m3
  have m4' := lt_trans m4 (by norm_num : _ < (0.941776 : ℝ))
  refine ⟨?_, ?_, ?_, ?_, ?_⟩
  · show _ < cos (Real.arcsin (2 / 9)) * cos (7 * π / 12); rw [ec]; linarith
  · show cos (Real.arcsin (2 / 9)) * cos (7 * π / 12) < _; rw [ec]; linarith
  · show _ < cos (Real.arcsin (2 / 9)) * sin (7 * π / 12); rw [es]; linarith
  · show cos (Real.arcsin (2 / 9)) * sin (7 * π / 12) < _; rw [es]; linarith
  · show sin (Real.arcsin (2 / 9)) = _; exact Real.sin_arcsin (by norm_num) (by norm_num)

/-- strictly inside the three half-spaces of the triangle -/
theorem inside_tri (p : Coo ℝ) (h1 : 0 < dot p (cross bC bA)) (h2 : 0 < dot p (cross bA bB)) (h3 : 0 < dot p (cross bB bC)) :
    InsideAll 1 (bulgeLL.map cooOf) p := by
  rw [bulgeLL_map]
  intro e he
  rw [edges_three] at he
  simp only [List.mem_cons, List.not_mem_nil, or_false] at he
  rcases he with rfl | rfl | rfl <;> rw [one_mul] <;> assumption

theorem inside_S : InsideAll 1 (bulgeLL.map cooOf) (cooOf (π / 2, (0 : ℝ))) := by
  obtain ⟨hx, hy, hz⟩ := pS_xyz
  apply inside_tri <;> (simp only [dot, cross, bA, bB, bC, hx, hy, hz]; norm_num)

theorem inside_N : InsideAll 1 (bulgeLL.map cooOf) (cooOf (π / 2, Real.arcsin (2 / 3))) := by
  obtain ⟨hx, hy1, hy2, hz⟩ := pN_xyz
  apply inside_tri <;> (simp only [dot, cross, bA, bB, bC, hx, hz]; linarith)

theorem inside_E : InsideAll 1 (bulgeLL.map cooOf) (cooOf (5 * π / 8, Real.arcsin (1 / 3))) := by
  obtain ⟨hx1, hx2, hy1, hy2, hz⟩ := pE_xyz
  apply inside_tri <;> (simp only [dot, cross, bA, bB, bC, hz]; linarith)

theorem inside_W : InsideAll 1 (bulgeLL.map cooOf) (cooOf (3 * π / 8, Real.arcsin (1 / 3))) := by
  obtain ⟨hx1, hx2, hy1, hy2, hz⟩ := pW_xyz
  apply inside_tri <;> (simp only [dot, cross, bA, bB, bC, hz]; linarith)

/-- the point of the south-east side is strictly OUTSIDE the half-space of the edge `A → B` -/
theorem outside_M : 1 * dot (cooOf (7 * π / 12, Real.arcsin (2 / 9))) (cross bA bB) < 0 := by
  obtain ⟨hx1, hx2, hy1, hy2, hz⟩ := pM_xyz
  simp only [dot, cross, bA, bB, hz]; linarith


/-! ### the classifier on that cell -/

noncomputable def cell23 : List (ℝ × ℝ) :=
  [(π / 2, 0), (5 * π / 8, Real.arcsin (1 / 3)), (π / 2, Real.arcsin (2 / 3)), (3 * π / 8, Real.arcsin (1 / 3))]

theorem cell23_range : ∀ ll ∈ cell23, 0 ≤ ll.1 ∧ ll.1 < 2 * π ∧ -(π / 2) ≤ ll.2 ∧ ll.2 ≤ π / 2 := by
  have hpi := pi_pos
  intro ll hll
  simp only [cell23, List.mem_cons, List.not_mem_nil, or_false] at hll
  rcases hll with rfl | rfl | rfl | rfl
  · exact ⟨by positivity, by simp only; linarith, by simp only; linarith, by simp only; linarith⟩
  · exact ⟨by positivity, by simp only; linarith, Real.neg_pi_div_two_le_arcsin _, Real.arcsin_le_pi_div_two _⟩
  · exact ⟨by positivity, by simp only; linarith, Real.neg_pi_div_two_le_arcsin _, Real.arcsin_le_pi_div_two _⟩
  · exact ⟨by positivity, by simp only; linarith, Real.neg_pi_div_two_le_arcsin _, Real.arcsin_le_pi_div_two _⟩

theorem cell23_inside : ∀ v ∈ cell23, InsideAll 1 (bulgeLL.map cooOf) (cooOf v) := by
  intro v hv
  simp only [cell23, List.mem_cons, List.not_mem_nil, or_false] at hv
  rcases hv with rfl | rfl | rfl | rfl
  · exact inside_S
  · exact inside_E
  · exact inside_N
  · exact inside_W

/-- `Polygon::contains` on a point strictly inside all the half-spaces of the triangle -/
theorem contains_of_inside (poly : Polygon ℝ) (hb : poly.Built) (hvs : poly.vertices = bulgeLL.map cooOf) (p : Coo ℝ)
    (hp : p.Valid) (hin : InsideAll 1 (bulgeLL.map cooOf) p) : poly.contains p = true := by
  have hcv : ConvexNoPole 1 poly.vertices := by rw [hvs]; exact bulge_convex
  rw [contains_convex_final poly hb 1 hcv p hp (fun _ => by rw [hvs]; exact hin), hvs]
  exact hin

/-- **T2, counter-example (ℝ, both profiles, every build).**  The triangle `bulgeLL` (counter-clockwise, strictly convex,
    inside an open hemisphere, no pole inside; unit vectors rational) and the cell 23 of depth 1 (south vertex on the equator
    at longitude `π/2`):
    * `Polygon::new` succeeds; the four vertices returned by `vertices(1, 23)` are strictly inside the three edge
      half-spaces, `Polygon::contains` answers `true` for the four of them, and **the classifier of `polygon_coverage`
      answers `full`** for the cell in every descent in which `is_in_list` is false for it (every target depth, every list);
    * the centre of the cell is strictly inside as well;
    * yet the position `sph_coo(1, 23, 2/3, 0)` — a point of the cell, on its south-east side — is strictly OUTSIDE the
      half-space of the edge `A → B`, and `Polygon::contains` answers `false` for it.
    So even for convex polygons the flag "fully covered" does not mean that the cell is inside the polygon: the sides of a
    cell are not great-circle arcs and bulge out of the geodesic quadrilateral of its vertices (here by 0.47°; the effect
    is of second order in the cell size).  On the `Float` instance (the model run that is compared with the crate)
    `polygon_coverage(depth 1, 2 or 3, this triangle, either mode)` returns the cell `1/23` with the full flag. -/
theorem full_flag_not_whole_cell (cfg : Cfg) :
    (∀ ll ∈ bulgeLL, 0 ≤ ll.1 ∧ ll.1 < 2 * π ∧ -(π / 2) ≤ ll.2 ∧ ll.2 ≤ π / 2) ∧ ConvexNoPole 1 (bulgeLL.map cooOf) ∧
    ∃ poly : Polygon ℝ, Polygon.new cfg.debug bulgeLL = some poly ∧
      (∀ (target : Nat) (srt : List Nat) (l : Nat), isInList 1 23 target srt = false →
        polyClassifier cfg target poly srt 1 23 l = some .full) ∧
      (∃ s e n w : ℝ × ℝ, Hash.vertices (α := ℝ) cfg 1 23 = some [s, e, n, w] ∧
        ∀ v ∈ [s, e, n, w], InsideAll 1 (bulgeLL.map cooOf) (cooOf v) ∧
          ∃ c, fromSphCoo cfg.debug v.1 v.2 = some c ∧ poly.contains c = true) ∧
      (∃ ctr : ℝ × ℝ, Hash.center (α := ℝ) cfg 1 23 = some ctr ∧ InsideAll 1 (bulgeLL.map cooOf) (cooOf ctr)) ∧
      ∃ (m : ℝ × ℝ) (c : Coo ℝ), Hash.sphCoo (α := ℝ) cfg 1 23 (2 / 3) 0 = some m ∧
        fromSphCoo cfg.debug m.1 m.2 = some c ∧ poly.contains c = false ∧ ¬ InsideAll 1 (bulgeLL.map cooOf) (cooOf m) := by
  have hpi := pi_pos
  obtain ⟨poly, hnew, hvs, hb⟩ := polygon_new_real cfg.debug bulgeLL (by simp [bulgeLL]) bulgeLL_range
  have hcv : ConvexNoPole 1 poly.vertices := by rw [hvs]; exact bulge_convex
  -- the four vertices through `from_sph_coo` and `contains`
  have hcoo : ∀ v ∈ cell23, fromSphCoo cfg.debug v.1 v.2 = some (cooOf v) ∧ poly.contains (cooOf v) = true := by
    intro v hv
    obtain ⟨a1, a2, a3, a4⟩ := cell23_range v hv
    exact ⟨fromSphCoo_inRange cfg.debug v.1 v.2 a1 a2 a3 a4,
      contains_of_inside poly hb hvs _ (cooOf_valid v a1 a2 a3 a4) (cell23_inside v hv)⟩
  have hmap := mapM_fromSphCoo cfg.debug cell23 cell23_range
  refine ⟨bulgeLL_range, bulge_convex, poly, hnew, ?_, ?_, ?_, ?_⟩
  · intro target srt l hin
    unfold polyClassifier
    rw [hin, vertices_23 cfg]
    simp only [Bool.false_eq_true, if_false]
    have hmap' := hmap
    simp only [cell23, List.map_cons, List.map_nil] at hmap'
    rw [hmap']
    simp only [List.filter_cons, List.filter_nil]
    rw [(hcoo _ (by simp [cell23])).2, (hcoo (5 * π / 8, Real.arcsin (1 / 3)) (by simp [cell23])).2,
      (hcoo (π / 2, Real.arcsin (2 / 3)) (by simp [cell23])).2, (hcoo (3 * π / 8, Real.arcsin (1 / 3)) (by simp [cell23])).2]
    rfl
  · refine ⟨_, _, _, _, vertices_23 cfg, ?_⟩
    intro v hv
    exact ⟨cell23_inside v hv, cooOf v, hcoo v hv⟩
  · obtain ⟨s, e, n, w, ctr, hv, hc, hcomb⟩ := centre_inside_of_SN_inside cfg 1 23 (by decide) (by decide) (by
      rw [parts_23, cy_23]; norm_num [abs_lt])
    refine ⟨ctr, hc, ?_⟩
    rw [vertices_23 cfg] at hv
    have hl := Option.some.inj hv
    simp only [List.cons.injEq, and_true] at hl
    obtain ⟨rfl, _, rfl, _⟩ := hl
    exact hcomb 1 _ inside_S inside_N
  · have r1 : (0 : ℝ) ≤ 7 * π / 12 := by positivity
    have r2 : 7 * π / 12 < 2 * π := by linarith
    have hval := cooOf_valid (7 * π / 12, Real.arcsin (2 / 9)) r1 r2 (Real.neg_pi_div_two_le_arcsin _)
      (Real.arcsin_le_pi_div_two _)
    have hout : ¬ InsideAll 1 (bulgeLL.map cooOf) (cooOf (7 * π / 12, Real.arcsin (2 / 9))) := by
      intro hall
      rw [bulgeLL_map] at hall
      have := hall (bA, bB) (by simp [edges_three])
      exact absurd this (not_lt.mpr outside_M.le)
    refine ⟨_, cooOf (7 * π / 12, Real.arcsin (2 / 9)), sphCoo_23 cfg,
      fromSphCoo_inRange cfg.debug _ _ r1 r2 (Real.neg_pi_div_two_le_arcsin _) (Real.arcsin_le_pi_div_two _), ?_, hout⟩
    have hnb : (∀ e ∈ edges poly.vertices, 0 ≤ 1 * dot (cooOf (7 * π / 12, Real.arcsin (2 / 9))) (cross e.1 e.2)) →
        ∀ e ∈ edges poly.vertices, 0 < 1 * dot (cooOf (7 * π / 12, Real.arcsin (2 / 9))) (cross e.1 e.2) := by
      intro hall
      rw [hvs, bulgeLL_map] at hall
      have := hall (bA, bB) (by simp [edges_three])
      exact absurd this (not_le.mpr outside_M)
    have hiff := contains_convex_final poly hb 1 hcv _ hval hnb
    cases hc : poly.contains (cooOf (7 * π / 12, Real.arcsin (2 / 9))) with
    | false => rfl
    | true =>
      have := hiff.mp hc
      rw [hvs] at this
      exact absurd this hout


#print axioms Hpx.PolyCompose.full_flag_not_whole_cell

end Hpx.PolyCompose
