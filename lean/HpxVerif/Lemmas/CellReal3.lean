/-
C03 over the reals, third part: the cell returned by the back end of `hash_with_dxdy` for the LUT z-order curve
(`cfg.bmi = false`): decoding of the returned number in the regular and in the special branches, and the exact set of
plane points on which the answer is wrong (finding F11 in exact arithmetic).
-/
import HpxVerif.Lemmas.CellReal2
import HpxVerif.Lemmas.BitsLemmas

namespace Hpx.CellReal
open Hpx Hpx.Hash Hpx.Proj

/-! ## the LUT curve (re-proved here from `BitsLemmas`; the same facts are stated in `Props/C18.lean`) -/

theorem getZoc_ok_aux (d : ℕ) (hd : d ≤ 29) : (getZoc d).any (fun c => decide (d ≤ c.bits)) = true := by
  interval_cases d <;> decide +kernel

theorem getZoc_ok (d : ℕ) (hd : d ≤ 29) : ∃ c, getZoc d = some c ∧ d ≤ c.bits := by
  have h := getZoc_ok_aux d hd
  cases hc : getZoc d with
  | none => rw [hc] at h; simp at h
  | some c => rw [hc] at h; exact ⟨c, rfl, by simpa using h⟩

theorem lut_ij2h_interleave (c : ZocClass) (i j : ℕ) (hi : i < 2 ^ c.bits) (hj : j < 2 ^ c.bits) :
    Lut.ij2h c i j = interleave i j := by
  have hb : c.bits ≤ 32 := by cases c <;> decide
  cases c with
  | empty =>
    have hi' : i = 0 := by simpa [ZocClass.bits] using hi
    have hj' : j = 0 := by simpa [ZocClass.bits] using hj
    subst hi' hj'
    simp [Lut.ij2h, interleave, spreadN]
  | small | mediu | large =>
    simp only [Lut.ij2h, Lut.oj2h, lut_i02h_spec, interleave]
    rw [← spreadN_of_lt hi hb, ← spreadN_of_lt hj hb]
    have h3 := three_spreadN_lt 32 j
    have : spreadN 32 j <<< 1 < 2 ^ 64 := by rw [Nat.shiftLeft_eq]; omega
    rw [Nat.mod_eq_of_lt this]

theorem squeeze_interleave (k i j : ℕ) (hk : k ≤ 32) (hi : i < 2 ^ k) (hj : j < 2 ^ k) :
    squeezeN k (interleave i j) = i ∧ squeezeN k (interleave i j / 2) = j := by
  constructor
  · apply Nat.eq_of_testBit_eq; intro q
    rw [testBit_squeezeN, testBit_interleave_even]
    by_cases h : q < k
    · have : q < 32 := by omega
      simp [h, this]
    · have : i.testBit q = false :=
        Nat.testBit_lt_two_pow (Nat.lt_of_lt_of_le hi (Nat.pow_le_pow_right (by decide) (by omega)))
      simp [h, this]
  · apply Nat.eq_of_testBit_eq; intro q
    rw [testBit_squeezeN, ← Nat.testBit_succ, testBit_interleave_odd]
    by_cases h : q < k
    · have : q < 32 := by omega
      simp [h, this]
    · have : j.testBit q = false :=
        Nat.testBit_lt_two_pow (Nat.lt_of_lt_of_le hj (Nat.pow_le_pow_right (by decide) (by omega)))
      simp [h, this]

/-- `interleave` is a bitwise morphism -/
theorem interleave_or (i j i' j' : ℕ) : interleave i j ||| interleave i' j' = interleave (i ||| i') (j ||| j') := by
  apply Nat.eq_of_testBit_eq; intro p
  obtain ⟨q, hq | hq⟩ := parity_cases p <;> subst hq
  · simp only [Nat.testBit_or, testBit_interleave_even]
    by_cases h : q < 32 <;> simp [h]
  · simp only [Nat.testBit_or, testBit_interleave_odd]
    by_cases h : q < 32 <;> simp [h]

theorem or_pow_sub_one (i d : ℕ) (hi : i < 2 ^ d) : (2 ^ d - 1) ||| i = 2 ^ d - 1 := by
  apply Nat.eq_of_testBit_eq; intro q
  rw [Nat.testBit_or, Nat.testBit_two_pow_sub_one]
  by_cases h : q < d
  · simp [h]
  · have : i.testBit q = false :=
      Nat.testBit_lt_two_pow (Nat.lt_of_lt_of_le hi (Nat.pow_le_pow_right (by decide) (by omega)))
    simp [h, this]

/-- the three masks are interleavings (finite table: `d ≤ 29`) -/
theorem masks_interleave (d : ℕ) (hd : d ≤ 29) :
    Layer.xMask d = interleave (2 ^ d - 1) 0 ∧ Layer.yMask d = interleave 0 (2 ^ d - 1) ∧
    Layer.xyMask d = interleave (2 ^ d - 1) (2 ^ d - 1) := by
  interval_cases d <;> decide +kernel

/-- the cell number built from parts decodes to these parts (LUT curve) -/
theorem decode_build (cfg : Cfg) (hbmi : cfg.bmi = false) (d b i j : ℕ) (hd : d ≤ 29) (hb : b < 256)
    (hi : i < 2 ^ d) (hj : j < 2 ^ d) :
    Layer.decodeHash cfg d ((b <<< (d <<< 1)) ||| interleave i j) = some ⟨b, i, j⟩ ∧
    (b < 12 → (b <<< (d <<< 1)) ||| interleave i j < Layer.nHash d) := by
  obtain ⟨c, hc, hcb⟩ := getZoc_ok d hd
  have hb32 : c.bits ≤ 32 := by cases c <;> decide
  have hk : d <<< 1 = 2 * d := by rw [Nat.shiftLeft_eq]; omega
  have ht : interleave i j < 4 ^ d := interleave_lt (by omega) hi hj
  have h4 : (4 : ℕ) ^ d = 2 ^ (2 * d) := by rw [Nat.pow_mul]
  have ht' : interleave i j < 2 ^ (2 * d) := by rw [← h4]; exact ht
  have hp : 0 < 2 ^ (2 * d) := Nat.pos_of_ne_zero (by simp)
  have hor : (b <<< (2 * d)) ||| interleave i j = b * 2 ^ (2 * d) + interleave i j := by
    rw [← Nat.shiftLeft_add_eq_or_of_lt ht', Nat.shiftLeft_eq]
  rw [hk, hor]
  constructor
  · unfold Layer.decodeHash Layer.zoc Layer.h2ij
    simp only [hbmi, Bool.false_eq_true, if_false, hc, lut_h2ij_i, lut_h2ij_j, hk]
    have hshr : (b * 2 ^ (2 * d) + interleave i j) >>> (2 * d) % 256 = b := by
      rw [Nat.shiftRight_eq_div_pow, Nat.mul_comm, Nat.mul_add_div hp, Nat.div_eq_of_lt ht', Nat.add_zero,
        Nat.mod_eq_of_lt hb]
    have hand : (b * 2 ^ (2 * d) + interleave i j) &&& Layer.xyMask d = interleave i j := by
      unfold Layer.xyMask
      by_cases h0 : d > 0
      · simp only [h0, if_true, hk, Nat.shiftLeft_eq, Nat.one_mul, Nat.and_two_pow_sub_one_eq_mod]
        rw [Nat.mul_comm, Nat.mul_add_mod, Nat.mod_eq_of_lt ht']
      · have : d = 0 := by omega
        subst this
        have : interleave i j = 0 := by simpa using ht
        simp [this]
    rw [hshr, hand]
    have hi' : i < 2 ^ c.bits := Nat.lt_of_lt_of_le hi (Nat.pow_le_pow_right (by decide) hcb)
    have hj' : j < 2 ^ c.bits := Nat.lt_of_lt_of_le hj (Nat.pow_le_pow_right (by decide) hcb)
    obtain ⟨s1, s2⟩ := squeeze_interleave c.bits i j hb32 hi' hj'
    rw [s1, s2]
  · intro hb12
    unfold Layer.nHash
    rw [hk, Nat.shiftLeft_eq]
    have : (b + 1) * 2 ^ (2 * d) ≤ 12 * 2 ^ (2 * d) := Nat.mul_le_mul_right _ (by omega)
    have e : (b + 1) * 2 ^ (2 * d) = b * 2 ^ (2 * d) + 2 ^ (2 * d) := by rw [Nat.add_mul, Nat.one_mul]
    omega

/-- `ij2h` of the LUT configuration is the interleaving -/
theorem ij2h_lut (cfg : Cfg) (hbmi : cfg.bmi = false) (d i j : ℕ) (hd : d ≤ 29) (hi : i < 2 ^ d) (hj : j < 2 ^ d) :
    ∃ c, Layer.zoc cfg d = some c ∧ Layer.ij2h cfg c i j = interleave i j := by
  obtain ⟨c, hc, hcb⟩ := getZoc_ok d hd
  refine ⟨c, by unfold Layer.zoc; simp [hbmi, hc], ?_⟩
  unfold Layer.ij2h
  simp only [hbmi, Bool.false_eq_true, if_false]
  exact lut_ij2h_interleave c i j (Nat.lt_of_lt_of_le hi (Nat.pow_le_pow_right (by decide) hcb))
    (Nat.lt_of_lt_of_le hj (Nat.pow_le_pow_right (by decide) hcb))

/-! ## regular case, LUT configuration: complete statement -/

/-- **`hash_with_dxdy_plane`** (LUT curve, regular case): the back end returns a valid cell number which decodes to a
    cell `(b, i, j)` whose closed diamond contains `(X, Y)` (abscissa modulo 8), offsets in `[0, 1)`, and `sph_coo` of the
    result un-projects exactly `(X, Y)`. -/
theorem hash_with_dxdy_plane (cfg : Cfg) (hbmi : cfg.bmi = false) (d : ℕ) (hd : d ≤ 29) (X Y : ℝ) (h : PlaneDom X Y)
    (h3 : 3 ≤ hbI d X Y + hbJ d X Y) (h5 : hbI d X Y + hbJ d X Y ≤ 5) :
    ∃ hash b i j dx dy, hashBack (α := ℝ) cfg d (X, Y) = some (hash, dx, dy) ∧ hash < Layer.nHash d ∧
      Layer.decodeHash cfg d hash = some ⟨b, i, j⟩ ∧ b < 12 ∧ i < 2 ^ d ∧ j < 2 ^ d ∧
      0 ≤ dx ∧ dx < 1 ∧ 0 ≤ dy ∧ dy < 1 ∧
      cooPt d b i j dx dy = (X, Y) ∧
      (InDiamond (cellCx d b i j) (cellCy d b i j) (1 / 2 ^ d) X Y ∨
        InDiamond (cellCx d b i j) (cellCy d b i j) (1 / 2 ^ d) (X - 8) Y) ∧
      sphCoo (α := ℝ) cfg d hash dx dy = some (unprojT X Y) ∧ unproj X Y = some (unprojT X Y) := by
  obtain ⟨hb, _, _, hs⟩ := hb_base d X Y h h3 h5
  obtain ⟨_, _, _, _, _, _, hi, hj, _⟩ := hb_facts d X Y h
  obtain ⟨c, hz, hij⟩ := ij2h_lut cfg hbmi d (hbi d X Y) (hbj d X Y) hd hi hj
  obtain ⟨hval, _, _, _, dx0, dx1, dy0, dy1, _, _, hcoo, hdia⟩ := hash_back_plane cfg d c X Y hz hd h h3 h5
  obtain ⟨hdec, hlt⟩ := decode_build cfg hbmi d (hbb d X Y) (hbi d X Y) (hbj d X Y) hd (by omega) hi hj
  rw [hij] at hval
  obtain ⟨s1, s2⟩ := hash_back_sph_coo cfg d c X Y hz hd h h3 h5 _ _ _ hval (hlt hb) hdec
  refine ⟨_, _, _, _, _, _, hval, hlt hb, hdec, hb, hi, hj, dx0, dx1, dy0, dy1, hcoo, ?_, s1, s2⟩
  rcases hs with h0 | h8
  · left; rw [h0, sub_zero] at hdia; exact hdia
  · right; rw [h8] at hdia; exact hdia

/-! ## the special branches on the north-cap base cells `q < 4` (finding F11, exact arithmetic) -/

theorem north_base (q : ℕ) (hq : q < 4) : baseX q = 2 * (q : ℝ) + 1 ∧ baseY q = 1 ∧ sqOf q = (q + 1, 4 - q) := by
  interval_cases q <;> (unfold baseX baseY sqOf; norm_num)

theorem floor_exact (d m : ℕ) (u : ℝ) (h : u = 2 ^ d * (m : ℝ)) : ⌊u⌋₊ = 2 ^ d * m := by
  have : (2 : ℝ) ^ d * m = ((2 ^ d * m : ℕ) : ℝ) := by push_cast; ring
  rw [h, this, Nat.floor_natCast]

theorem or_assoc_interleave (A mi mj i j : ℕ) :
    (A ||| interleave mi mj) ||| interleave i j = A ||| interleave (mi ||| i) (mj ||| j) := by
  rw [Nat.or_assoc, interleave_or]

theorem small_masks : ∀ q, q < 4 → ((q + 2 + 2) % 256) &&& 3 = q ∧ ((q + 1 + 255) % 256) &&& 3 = q ∧
    ((q + 1 + 2) % 256) &&& 3 = (q + 3) % 4 ∧ q + 2 - 2 = q := by
  intro q hq; interval_cases q <;> decide

theorem cast_pow_sub_one (d : ℕ) : ((2 ^ d - 1 : ℕ) : ℝ) = 2 ^ d - 1 := by
  have : 1 ≤ 2 ^ d := Nat.one_le_two_pow
  push_cast [Nat.cast_sub this]; ring

theorem pow_sub_one_lt (d : ℕ) : 2 ^ d - 1 < 2 ^ d := by
  have : 1 ≤ 2 ^ d := Nat.one_le_two_pow
  omega

/-- **north-east border of a north-cap base cell** (`X + Y = Xb + Yb + 1`, pole excluded: the seam `lon = (q+1)·π/2`
    seen from base cell `q`): branch `k = −1`.  The returned cell `(q, n−1, j)` is the right one (its closed diamond
    contains the point, on its north-east side), but the returned offset along `x` is `0` where the position of the
    point in that cell is `1`. -/
theorem f11_north_east (cfg : Cfg) (hbmi : cfg.bmi = false) (d : ℕ) (hd : d ≤ 29) (q : ℕ) (hq : q < 4) (X Y : ℝ)
    (hX0 : 0 ≤ X) (hX8 : X < 8) (hin : InDiamond (baseX q) (baseY q) 1 X Y)
    (hNE : X + Y = baseX q + baseY q + 1) (hNW : Y - X ≠ baseY q - baseX q + 1) :
    ∃ hash j dy, hashBack (α := ℝ) cfg d (X, Y) = some (hash, 0, dy) ∧ hash < Layer.nHash d ∧
      Layer.decodeHash cfg d hash = some ⟨q, 2 ^ d - 1, j⟩ ∧ j < 2 ^ d ∧ 0 ≤ dy ∧ dy < 1 ∧
      cellCx d q (2 ^ d - 1) j + (1 - dy) / 2 ^ d = X ∧ cellCy d q (2 ^ d - 1) j + (1 + dy - 1) / 2 ^ d = Y ∧
      InDiamond (cellCx d q (2 ^ d - 1) j) (cellCy d q (2 ^ d - 1) j) (1 / 2 ^ d) X Y := by
  have hp := pow_pos' d
  obtain ⟨bX, bY, hsq⟩ := north_base q hq
  obtain ⟨hdom, eI, eJ⟩ := inBase_branch d q X Y (by omega) hX0 hX8 hin
  rw [if_pos hNE, hsq] at eI
  rw [if_neg hNW, hsq, Nat.add_zero] at eJ
  simp only at eI eJ
  obtain ⟨_, ev, _, _, dy0, dy1, _, hj, _⟩ := hb_facts d X Y hdom
  -- `u` is an exact multiple of `n`
  have hu : uOf d X Y = 2 ^ d * ((q + 2 : ℕ) : ℝ) := by
    unfold uOf; rw [hNE, bX, bY]; push_cast; ring
  have hfl := floor_exact d (q + 2) _ hu
  have hi0 : hbi d X Y = 0 := by unfold hbi; rw [hfl, Nat.mul_mod_right]
  have hdx0 : hbdx d X Y = 0 := by unfold hbdx; rw [hfl, hu]; push_cast; ring
  obtain ⟨c, hz, hij⟩ := ij2h_lut cfg hbmi d 0 (hbj d X Y) hd (Nat.pos_of_ne_zero (by simp)) hj
  obtain ⟨mx, _, _⟩ := masks_interleave d hd
  obtain ⟨m1, _, _, _⟩ := small_masks q hq
  have hval := hb_hash_km1 cfg d c X Y hz hd hdom (by rw [eI, eJ]; omega)
  rw [hdx0, if_neg (not_lt.mpr dy0), hi0, hij, eI, m1, mx, or_assoc_interleave, Nat.or_zero, Nat.zero_or] at hval
  obtain ⟨hdec, hlt⟩ := decode_build cfg hbmi d q (2 ^ d - 1) (hbj d X Y) hd (by omega) (pow_sub_one_lt d) hj
  -- geometry with the true offsets `(1, dy)`
  have eJr : ((hbJ d X Y : ℕ) : ℝ) = 4 - q := by
    rw [eJ]; have : q ≤ 4 := by omega
    push_cast [Nat.cast_sub this]; ring
  obtain ⟨ex, ey⟩ := coo_recover (2 ^ d) X Y ((q : ℝ) + 1) (4 - q) (2 ^ d - 1) (hbj d X Y) 1 (hbdy d X Y)
    (baseX q) (baseY q) 0 hp
    (by have : (X + Y + 1) * 2 ^ d / 2 = uOf d X Y := rfl
        rw [this, hu]; push_cast; ring)
    (by have : (Y - X + 9) * 2 ^ d / 2 = vOf d X Y := rfl
        rw [this, ev, eJr])
    (by rw [bX]; ring) (by rw [bY]; ring)
  have ex' : cellCx d q (2 ^ d - 1) (hbj d X Y) + (1 - hbdy d X Y) / 2 ^ d = X := by
    unfold cellCx; rw [cast_pow_sub_one]; linarith
  have ey' : cellCy d q (2 ^ d - 1) (hbj d X Y) + (1 + hbdy d X Y - 1) / 2 ^ d = Y := by
    unfold cellCy; rw [cast_pow_sub_one]; linarith
  exact ⟨_, _, _, hval, hlt (by omega), hdec, hj, dy0, dy1, ex', ey',
    inDiamond_of _ _ _ _ _ _ _ hp ex' ey' (by norm_num) (by norm_num) dy0 dy1.le⟩

theorem no_int_inverse (N : ℝ) (K : ℤ) (hN : 2 ≤ N) (h : N * (K : ℝ) = 1) : False := by
  rcases le_or_gt K 0 with hk | hk
  · have h1 : (K : ℝ) ≤ 0 := by exact_mod_cast hk
    have := mul_nonpos_of_nonneg_of_nonpos (by linarith : (0 : ℝ) ≤ N) h1
    linarith
  · have h1 : (1 : ℝ) ≤ (K : ℝ) := by exact_mod_cast hk
    have := mul_le_mul hN h1 (by norm_num) (by linarith)
    linarith

/-- common facts on the north-west border `Y − X = Yb − Xb + 1` of the north-cap base cell `q` (pole excluded) -/
theorem nw_facts (d : ℕ) (q : ℕ) (hq : q < 4) (X Y : ℝ) (hX0 : 0 ≤ X) (hX8 : X < 8)
    (hin : InDiamond (baseX q) (baseY q) 1 X Y)
    (hNE : X + Y ≠ baseX q + baseY q + 1) (hNW : Y - X = baseY q - baseX q + 1) :
    PlaneDom X Y ∧ hbI d X Y = q + 1 ∧ hbJ d X Y = 5 - q ∧ hbj d X Y = 0 ∧ hbdy d X Y = 0 ∧
    vOf d X Y = 2 ^ d * (5 - (q : ℝ)) ∧ uOf d X Y = 2 ^ d * ((q : ℝ) + 1) + hbi d X Y + hbdx d X Y := by
  obtain ⟨bX, bY, hsq⟩ := north_base q hq
  obtain ⟨hdom, eI, eJ⟩ := inBase_branch d q X Y (by omega) hX0 hX8 hin
  rw [if_neg hNE, hsq, Nat.add_zero] at eI
  rw [if_pos hNW, hsq] at eJ
  simp only at eI eJ
  obtain ⟨eu, _, _, _, _, _, _, _, _⟩ := hb_facts d X Y hdom
  have hq5 : ((5 - q : ℕ) : ℝ) = 5 - q := by
    have : q ≤ 5 := by omega
    push_cast [Nat.cast_sub this]; ring
  have hv : vOf d X Y = 2 ^ d * ((5 - q : ℕ) : ℝ) := by
    rw [hq5]; unfold vOf; rw [hNW, bX, bY]; ring
  have hfl := floor_exact d (5 - q) _ hv
  refine ⟨hdom, eI, by rw [eJ]; omega, ?_, ?_, by rw [hv, hq5], ?_⟩
  · unfold hbj; rw [hfl, Nat.mul_mod_right]
  · unfold hbdy; rw [hfl, hv]; push_cast; ring
  · rw [eu, eI]; push_cast; ring

/-- **north-west border of a north-cap base cell** (`Y − X = Yb − Xb + 1`: the seam `lon = q·π/2` seen from base cell
    `q`), at a point whose scaled coordinate `u` is **not** an integer: branch `k = −1`, first alternative.  The returned
    cell `(q, i, n−1)` is the right one, but the returned offset along `y` is `0` where the position of the point in
    that cell is `1`. -/
theorem f11_north_west_pos (cfg : Cfg) (hbmi : cfg.bmi = false) (d : ℕ) (hd : d ≤ 29) (q : ℕ) (hq : q < 4) (X Y : ℝ)
    (hX0 : 0 ≤ X) (hX8 : X < 8) (hin : InDiamond (baseX q) (baseY q) 1 X Y)
    (hNE : X + Y ≠ baseX q + baseY q + 1) (hNW : Y - X = baseY q - baseX q + 1) (hfrac : 0 < hbdx d X Y) :
    ∃ hash i dx, hashBack (α := ℝ) cfg d (X, Y) = some (hash, dx, 0) ∧ hash < Layer.nHash d ∧
      Layer.decodeHash cfg d hash = some ⟨q, i, 2 ^ d - 1⟩ ∧ i < 2 ^ d ∧ 0 < dx ∧ dx < 1 ∧
      cellCx d q i (2 ^ d - 1) + (dx - 1) / 2 ^ d = X ∧ cellCy d q i (2 ^ d - 1) + (dx + 1 - 1) / 2 ^ d = Y ∧
      InDiamond (cellCx d q i (2 ^ d - 1)) (cellCy d q i (2 ^ d - 1)) (1 / 2 ^ d) X Y := by
  have hp := pow_pos' d
  obtain ⟨bX, bY, hsq⟩ := north_base q hq
  obtain ⟨hdom, eI, eJ, hj0, hdy0, hv, hu⟩ := nw_facts d q hq X Y hX0 hX8 hin hNE hNW
  obtain ⟨_, _, dx0, dx1, _, _, hi, _, _⟩ := hb_facts d X Y hdom
  obtain ⟨c, hz, hij⟩ := ij2h_lut cfg hbmi d (hbi d X Y) 0 hd hi (Nat.pos_of_ne_zero (by simp))
  obtain ⟨_, my, _⟩ := masks_interleave d hd
  obtain ⟨_, m2, _, _⟩ := small_masks q hq
  have hval := hb_hash_km1 cfg d c X Y hz hd hdom (by rw [eI, eJ]; omega)
  rw [hdy0, if_pos hfrac, hj0, hij, eI, m2, my, or_assoc_interleave, Nat.or_zero, Nat.zero_or] at hval
  obtain ⟨hdec, hlt⟩ := decode_build cfg hbmi d q (hbi d X Y) (2 ^ d - 1) hd (by omega) hi (pow_sub_one_lt d)
  obtain ⟨ex, ey⟩ := coo_recover (2 ^ d) X Y ((q : ℝ) + 1) (4 - q) (hbi d X Y) (2 ^ d - 1) (hbdx d X Y) 1
    (baseX q) (baseY q) 0 hp
    (by have : (X + Y + 1) * 2 ^ d / 2 = uOf d X Y := rfl
        rw [this, hu])
    (by have : (Y - X + 9) * 2 ^ d / 2 = vOf d X Y := rfl
        rw [this, hv]; ring)
    (by rw [bX]; ring) (by rw [bY]; ring)
  have ex' : cellCx d q (hbi d X Y) (2 ^ d - 1) + (hbdx d X Y - 1) / 2 ^ d = X := by
    unfold cellCx; rw [cast_pow_sub_one]; linarith
  have ey' : cellCy d q (hbi d X Y) (2 ^ d - 1) + (hbdx d X Y + 1 - 1) / 2 ^ d = Y := by
    unfold cellCy; rw [cast_pow_sub_one]; linarith
  exact ⟨_, _, _, hval, hlt (by omega), hdec, hi, hfrac, dx1, ex', ey',
    inDiamond_of _ _ _ _ _ _ _ hp ex' ey' dx0 dx1.le (by norm_num) (by norm_num)⟩

/-- **the wrong cell of F11.**  North-west border of the north-cap base cell `q` (seam `lon = q·π/2`), at a point whose
    scaled coordinate `u` **is** an integer (a vertex of a cell of depth `d` on that seam): both sub-cell offsets are `0`,
    the comparison `dx > dy` of the branch `k = −1` fails, and the code answers the cell `((q+3) mod 4, n−1, 0)` — the
    easternmost cell of the previous base cell — with offsets `(0, 0)`.  The point is the north vertex of the cell
    `(q, i, n−1)` (position `(0, 1)` in it).  Unless it is the west vertex of base cell `q` (`i = 0`), it does **not**
    belong to the closed diamond of the returned cell, whatever multiple of 8 is added to the abscissa. -/
theorem f11_north_west_wrong_cell (cfg : Cfg) (hbmi : cfg.bmi = false) (d : ℕ) (hd : d ≤ 29) (q : ℕ) (hq : q < 4)
    (X Y : ℝ) (hX0 : 0 ≤ X) (hX8 : X < 8) (hin : InDiamond (baseX q) (baseY q) 1 X Y)
    (hNE : X + Y ≠ baseX q + baseY q + 1) (hNW : Y - X = baseY q - baseX q + 1) (hfrac : hbdx d X Y = 0) :
    ∃ hash : ℕ, ∃ i : ℕ, hashBack (α := ℝ) cfg d (X, Y) = some (hash, 0, 0) ∧
      hash = ((q + 3) % 4) <<< (d <<< 1) ||| interleave (2 ^ d - 1) 0 ∧ hash < Layer.nHash d ∧
      Layer.decodeHash cfg d hash = some ⟨(q + 3) % 4, 2 ^ d - 1, 0⟩ ∧ i < 2 ^ d ∧
      -- where the point really is: the north vertex of `(q, i, n−1)`
      X = 2 * (q : ℝ) + (i : ℝ) / 2 ^ d ∧ Y = 1 + (i : ℝ) / 2 ^ d ∧
      cellCx d q i (2 ^ d - 1) + (0 - 1) / 2 ^ d = X ∧ cellCy d q i (2 ^ d - 1) + (0 + 1 - 1) / 2 ^ d = Y ∧
      -- the returned cell does not contain it
      (0 < i → ∀ m : ℤ, ¬ InDiamond (cellCx d ((q + 3) % 4) (2 ^ d - 1) 0 + 8 * m) (cellCy d ((q + 3) % 4) (2 ^ d - 1) 0)
        (1 / 2 ^ d) X Y) := by
  have hp := pow_pos' d
  obtain ⟨bX, bY, hsq⟩ := north_base q hq
  obtain ⟨hdom, eI, eJ, hj0, hdy0, hv, hu⟩ := nw_facts d q hq X Y hX0 hX8 hin hNE hNW
  obtain ⟨_, _, _, _, _, _, hi, _, _⟩ := hb_facts d X Y hdom
  obtain ⟨c, hz, hij⟩ := ij2h_lut cfg hbmi d (hbi d X Y) 0 hd hi (Nat.pos_of_ne_zero (by simp))
  obtain ⟨mx, _, _⟩ := masks_interleave d hd
  obtain ⟨_, _, m3, _⟩ := small_masks q hq
  have hval := hb_hash_km1 cfg d c X Y hz hd hdom (by rw [eI, eJ]; omega)
  rw [hdy0, hfrac, if_neg (lt_irrefl 0), hj0, hij, eI, m3, mx, or_assoc_interleave, Nat.or_zero,
    or_pow_sub_one _ d hi] at hval
  have hb' : (q + 3) % 4 < 4 := Nat.mod_lt _ (by decide)
  obtain ⟨hdec, hlt⟩ := decode_build cfg hbmi d ((q + 3) % 4) (2 ^ d - 1) 0 hd (by omega) (pow_sub_one_lt d)
    (Nat.pos_of_ne_zero (by simp))
  obtain ⟨ex, ey⟩ := coo_recover (2 ^ d) X Y ((q : ℝ) + 1) (4 - q) (hbi d X Y) (2 ^ d - 1) 0 1
    (baseX q) (baseY q) 0 hp
    (by have : (X + Y + 1) * 2 ^ d / 2 = uOf d X Y := rfl
        rw [this, hu, hfrac])
    (by have : (Y - X + 9) * 2 ^ d / 2 = vOf d X Y := rfl
        rw [this, hv]; ring)
    (by rw [bX]; ring) (by rw [bY]; ring)
  have ex' : cellCx d q (hbi d X Y) (2 ^ d - 1) + (0 - 1) / 2 ^ d = X := by
    unfold cellCx; rw [cast_pow_sub_one]; linarith
  have ey' : cellCy d q (hbi d X Y) (2 ^ d - 1) + (0 + 1 - 1) / 2 ^ d = Y := by
    unfold cellCy; rw [cast_pow_sub_one]; linarith
  have hX : X = 2 * (q : ℝ) + (hbi d X Y : ℝ) / 2 ^ d := by
    have e : ((hbi d X Y : ℝ) - (2 ^ d - 1)) / 2 ^ d + (0 - 1) / 2 ^ d = (hbi d X Y : ℝ) / 2 ^ d - 1 := by
      field_simp; ring
    rw [bX] at ex; linarith
  have hY : Y = 1 + (hbi d X Y : ℝ) / 2 ^ d := by
    have e : ((hbi d X Y : ℝ) + (2 ^ d - 1) + 1 - 2 ^ d) / 2 ^ d + (0 + 1 - 1) / 2 ^ d = (hbi d X Y : ℝ) / 2 ^ d := by
      field_simp; ring
    rw [bY] at ey; linarith
  refine ⟨_, hbi d X Y, hval, rfl, hlt (by omega), hdec, hi, hX, hY, ex', ey', ?_⟩
  intro hipos m hcon
  obtain ⟨bX', bY', _⟩ := north_base ((q + 3) % 4) hb'
  unfold InDiamond cellCx cellCy at hcon
  rw [bX', bY', cast_pow_sub_one] at hcon
  set b' := (q + 3) % 4 with hb'def
  set i := hbi d X Y with hidef
  have hi1 : (1 : ℝ) ≤ i := by exact_mod_cast hipos
  have hiN : (i : ℝ) + 1 ≤ 2 ^ d := by
    have : i + 1 ≤ 2 ^ d := hi
    exact_mod_cast this
  have e2 : Y - (1 + (((2 : ℝ) ^ d - 1) + ((0 : ℕ) : ℝ) + 1 - 2 ^ d) / 2 ^ d) = (i : ℝ) / 2 ^ d := by
    rw [hY]; push_cast; field_simp; ring
  rw [e2, abs_of_nonneg (by positivity : (0 : ℝ) ≤ (i : ℝ) / 2 ^ d)] at hcon
  have hge : (1 : ℝ) / 2 ^ d ≤ (i : ℝ) / 2 ^ d := by
    rw [div_le_div_iff_of_pos_right hp]; exact hi1
  have habs0 := abs_nonneg (X - (2 * (b' : ℝ) + 1 + (((2 : ℝ) ^ d - 1) - ((0 : ℕ) : ℝ)) / 2 ^ d + 8 * (m : ℝ)))
  have hA : |X - (2 * (b' : ℝ) + 1 + (((2 : ℝ) ^ d - 1) - ((0 : ℕ) : ℝ)) / 2 ^ d + 8 * (m : ℝ))| = 0 := by linarith
  have hi_eq : (i : ℝ) / 2 ^ d = 1 / 2 ^ d := by linarith
  have hi_one : (i : ℝ) = 1 := by
    rw [div_left_inj' (ne_of_gt hp)] at hi_eq; exact hi_eq
  have hA0 := abs_eq_zero.mp hA
  -- `2 / n` would be an even integer
  rw [hX, hi_one] at hA0
  have hK : (2 : ℝ) ^ d * (((b' : ℤ) + 1 + 4 * m - (q : ℤ) : ℤ) : ℝ) = 1 := by
    push_cast
    have h1 : (2 : ℝ) * (q : ℝ) + 1 / 2 ^ d - (2 * (b' : ℝ) + 1 + (((2 : ℝ) ^ d - 1) - ((0 : ℕ) : ℝ)) / 2 ^ d + 8 * (m : ℝ)) = 0 :=
      hA0
    field_simp at h1
    push_cast at h1
    linarith
  have hN2 : (2 : ℝ) ≤ 2 ^ d := by linarith
  exact no_int_inverse _ _ hN2 hK

/-- **north pole** (`(X, Y) = (2q+1, 2)`, north vertex of the north-cap base cell `q`): branch `k = −2`.  The returned
    cell `(q, n−1, n−1)` is the right one, but the returned offsets are `(0, 0)` where the position of the point in
    that cell is `(1, 1)`. -/
theorem f11_north_pole (cfg : Cfg) (hbmi : cfg.bmi = false) (d : ℕ) (hd : d ≤ 29) (q : ℕ) (hq : q < 4) :
    ∃ hash, hashBack (α := ℝ) cfg d (2 * (q : ℝ) + 1, 2) = some (hash, 0, 0) ∧ hash < Layer.nHash d ∧
      Layer.decodeHash cfg d hash = some ⟨q, 2 ^ d - 1, 2 ^ d - 1⟩ ∧
      cellCx d q (2 ^ d - 1) (2 ^ d - 1) + (1 - 1) / 2 ^ d = 2 * (q : ℝ) + 1 ∧
      cellCy d q (2 ^ d - 1) (2 ^ d - 1) + (1 + 1 - 1) / 2 ^ d = 2 := by
  have hp := pow_pos' d
  obtain ⟨bX, bY, hsq⟩ := north_base q hq
  have hq0 : (0 : ℝ) ≤ q := Nat.cast_nonneg q
  have hq3 : (q : ℝ) ≤ 3 := by
    have : q ≤ 3 := by omega
    exact_mod_cast this
  have hin : InDiamond (baseX q) (baseY q) 1 (2 * (q : ℝ) + 1) 2 := by
    unfold InDiamond; rw [bX, bY]; norm_num
  obtain ⟨hdom, eI, eJ⟩ := inBase_branch d q _ _ (by omega) (by linarith) (by linarith) hin
  rw [if_pos (by rw [bX, bY]; ring), hsq] at eI
  rw [if_pos (by rw [bX, bY]; ring), hsq] at eJ
  simp only at eI eJ
  have hu : uOf d (2 * (q : ℝ) + 1) 2 = 2 ^ d * ((q + 2 : ℕ) : ℝ) := by unfold uOf; push_cast; ring
  have hq5 : ((5 - q : ℕ) : ℝ) = 5 - q := by
    have : q ≤ 5 := by omega
    push_cast [Nat.cast_sub this]; ring
  have hv : vOf d (2 * (q : ℝ) + 1) 2 = 2 ^ d * ((5 - q : ℕ) : ℝ) := by rw [hq5]; unfold vOf; ring
  have hflu := floor_exact d (q + 2) _ hu
  have hflv := floor_exact d (5 - q) _ hv
  have hi0 : hbi d (2 * (q : ℝ) + 1) 2 = 0 := by unfold hbi; rw [hflu, Nat.mul_mod_right]
  have hj0 : hbj d (2 * (q : ℝ) + 1) 2 = 0 := by unfold hbj; rw [hflv, Nat.mul_mod_right]
  have hdx0 : hbdx d (2 * (q : ℝ) + 1) 2 = 0 := by unfold hbdx; rw [hflu, hu]; push_cast; ring
  have hdy0 : hbdy d (2 * (q : ℝ) + 1) 2 = 0 := by unfold hbdy; rw [hflv, hv]; push_cast; ring
  obtain ⟨c, hz, hij⟩ := ij2h_lut cfg hbmi d 0 0 hd (Nat.pos_of_ne_zero (by simp)) (Nat.pos_of_ne_zero (by simp))
  obtain ⟨_, _, mxy⟩ := masks_interleave d hd
  obtain ⟨_, _, _, m4⟩ := small_masks q hq
  have hval := hb_hash_km2 cfg d c _ _ hz hd hdom (by rw [eI, eJ]; omega) (by rw [eI]; omega)
  rw [hdx0, hdy0, hi0, hj0, hij, eI, m4, mxy, or_assoc_interleave, Nat.or_zero] at hval
  obtain ⟨hdec, hlt⟩ := decode_build cfg hbmi d q (2 ^ d - 1) (2 ^ d - 1) hd (by omega) (pow_sub_one_lt d)
    (pow_sub_one_lt d)
  refine ⟨_, hval, hlt (by omega), hdec, ?_, ?_⟩
  · unfold cellCx; rw [bX, cast_pow_sub_one]; ring
  · unfold cellCy; rw [bY, cast_pow_sub_one]; field_simp; ring

/-- the west vertex `(2q, 1)` of the north-cap base cell `q` (where it meets the previous north-cap base cell and two
    equatorial ones): the cell `((q+3) mod 4, n−1, 0)` returned by the code has this point as its east vertex (abscissa
    modulo 8), position `(1, 0)` in it; the returned offsets are `(0, 0)` -/
theorem f11_west_vertex (d q : ℕ) (hq : q < 4) :
    cellCx d ((q + 3) % 4) (2 ^ d - 1) 0 + (1 - 0) / 2 ^ d = 2 * (q : ℝ) + (if q = 0 then 8 else 0) ∧
    cellCy d ((q + 3) % 4) (2 ^ d - 1) 0 + (1 + 0 - 1) / 2 ^ d = 1 := by
  have hp := pow_pos' d
  obtain ⟨bX', bY', _⟩ := north_base ((q + 3) % 4) (Nat.mod_lt _ (by decide))
  unfold cellCx cellCy
  rw [bX', bY', cast_pow_sub_one]
  constructor
  · have : (2 : ℝ) * (((q + 3) % 4 : ℕ) : ℝ) + 2 = 2 * (q : ℝ) + (if q = 0 then 8 else 0) := by
      interval_cases q <;> norm_num
    rw [← this]; field_simp; ring
  · field_simp; ring

/-! ## from the back end to `hash_with_dxdy` -/

theorem hashBack_norm8 (cfg : Cfg) (d : ℕ) (X Y : ℝ) (hX : -8 ≤ X) :
    hashBack (α := ℝ) cfg d (X, Y) = hashBack (α := ℝ) cfg d (norm8 X, Y) := by
  have h0 : 0 ≤ norm8 X := by unfold norm8; split_ifs <;> linarith
  unfold hashBack
  simp only [r_ensures, norm8_of_nonneg _ h0]

/-- `hash_with_dxdy` is the back end applied to the projected point, abscissa reduced to `[0, 8)` -/
theorem hashWithDxDy_of_proj (cfg : Cfg) (d : ℕ) (lon lat X Y : ℝ) (hproj : proj (α := ℝ) lon lat = some (X, Y))
    (hX : -8 ≤ X) : hashWithDxDy (α := ℝ) cfg d lon lat = hashBack (α := ℝ) cfg d (norm8 X, Y) := by
  rw [hashWithDxDy_eq, hproj, Option.bind_some, hashBack_norm8 cfg d X Y hX]

/-! ## examples -/

/-- **counter-example (finding F11, exact arithmetic).**  Depth 1, plane point `(1/2, 3/2)` — the image of
    `lon = 0`, `sin lat = 11/12`, on the north-west border of base cell 0.  The code answers the cell number 13 =
    `(3, 1, 0)` with offsets `(0, 0)`; the point is the north vertex of the cell 3 = `(0, 1, 1)` and is not in the closed
    diamond of the cell 13, whatever multiple of 8 is added to the abscissa.  (The `Float` model returns the same
    `(13, 0, 0)` on `(0.0, asin(11/12))`.) -/
example : hashBack (α := ℝ) {} 1 (1 / 2, 3 / 2) = some (13, 0, 0) ∧ Layer.decodeHash {} 1 13 = some ⟨3, 1, 0⟩ ∧
    cooPt 1 0 1 1 0 1 = (1 / 2, 3 / 2) ∧
    ∀ m : ℤ, ¬ InDiamond (cellCx 1 3 1 0 + 8 * m) (cellCy 1 3 1 0) (1 / 2 ^ 1) (1 / 2) (3 / 2) := by
  have hin : InDiamond (baseX 0) (baseY 0) 1 (1 / 2) (3 / 2) := by
    unfold InDiamond baseX baseY; norm_num [abs_of_nonneg, abs_of_nonpos]
  have hfrac : hbdx 1 (1 / 2) (3 / 2) = 0 := by
    unfold hbdx
    have : uOf 1 (1 / 2) (3 / 2) = ((3 : ℕ) : ℝ) := by unfold uOf; norm_num
    rw [this, Nat.floor_natCast]; norm_num
  obtain ⟨hash, i, hval, hh, _, hdec, _, hX, _, _, _, hwrong⟩ :=
    f11_north_west_wrong_cell {} rfl 1 (by decide) 0 (by decide) (1 / 2) (3 / 2) (by norm_num) (by norm_num) hin
      (by unfold baseX baseY; norm_num) (by unfold baseX baseY; norm_num) hfrac
  have hi1 : i = 1 := by
    have : (i : ℝ) = 1 := by norm_num at hX; linarith
    exact_mod_cast this
  have h13 : hash = 13 := by rw [hh]; decide +kernel
  subst h13
  refine ⟨hval, by decide +kernel, ?_, fun m => hwrong (by omega) m⟩
  unfold cooPt cellCx cellCy baseX baseY norm8
  norm_num

#print axioms hash_with_dxdy_plane
#print axioms f11_north_east
#print axioms f11_north_west_pos
#print axioms f11_north_west_wrong_cell
#print axioms f11_north_pole
#print axioms f11_west_vertex
#print axioms hashWithDxDy_of_proj
#print axioms decode_build

end Hpx.CellReal
