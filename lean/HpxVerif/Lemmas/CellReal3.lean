/-
C03 over the reals, third part: the cell returned by the back end of `hash_with_dxdy` for the LUT z-order curve
(`cfg.bmi = false`): decoding of the returned number in the regular and in the special branches, and the exact set of
plane points on which the answer is wrong (finding F11 in exact arithmetic).
-/
import HpxVerif.Lemmas.CellReal2
import HpxVerif.Lemmas.BitsLemmas

namespace Hpx.CellReal
open Hpx Hpx.Hash Hpx.Proj

/-! ## the LUT curve (re-proved here from `BitsLemmas`; the same facts are stated in `Props/C18.lean`) -/

theorem getZoc_ok_aux (d : ℕ) (hd : d ≤ 29) : (getZoc d).any (fun c => decide (d ≤ c.bits)) = true := by
  interval_cases d <;> decide +kernel

theorem getZoc_ok (d : ℕ) (hd : d ≤ 29) : ∃ c, getZoc d = some c ∧ d ≤ c.bits := by
  have h := getZoc_ok_aux d hd
  cases hc : getZoc d with
  | none => rw [hc] at h; simp at h
  | some c => rw [hc] at h; exact ⟨c, rfl, by simpa using h⟩

theorem lut_ij2h_interleave (c : ZocClass) (i j : ℕ) (hi : i < 2 ^ c.bits) (hj : j < 2 ^ c.bits) :
    Lut.ij2h c i j = interleave i j := by
  have hb : c.bits ≤ 32 := by cases c <;> decide
  cases c with
  | empty =>
    have hi' : i = 0 := by simpa [ZocClass.bits] using hi
    have hj' : j = 0 := by simpa [ZocClass.bits] using hj
    subst hi' hj'
    simp [Lut.ij2h, interleave, spreadN]
  | small | mediu | large =>
    simp only [Lut.ij2h, Lut.oj2h, lut_i02h_spec, interleave]
    rw [← spreadN_of_lt hi hb, ← spreadN_of_lt hj hb]
    have h3 := three_spreadN_lt 32 j
    have : spreadN 32 j <<< 1 < 2 ^ 64 := by rw [Nat.shiftLeft_eq]; omega
    rw [Nat.mod_eq_of_lt this]

theorem squeeze_interleave (k i j : ℕ) (hk : k ≤ 32) (hi : i < 2 ^ k) (hj : j < 2 ^ k) :
    squeezeN k (interleave i j) = i ∧ squeezeN k (interleave i j / 2) = j := by
  constructor
  · apply Nat.eq_of_testBit_eq; intro q
    rw [testBit_squeezeN, testBit_interleave_even]
    by_cases h : q < k
    · have : q < 32 := by omega
      simp [h, this]
    · have : i.testBit q = false :=
        Nat.testBit_lt_two_pow (Nat.lt_of_lt_of_le hi (Nat.pow_le_pow_right (by decide) (by omega)))
      simp [h, this]
  · apply Nat.eq_of_testBit_eq; intro q
    rw [testBit_squeezeN, ← Nat.testBit_succ, testBit_interleave_odd]
    by_cases h : q < k
    · have : q < 32 := by omega
      simp [h, this]
    · have : j.testBit q = false :=
        Nat.testBit_lt_two_pow (Nat.lt_of_lt_of_le hj (Nat.pow_le_pow_right (by decide) (by omega)))
      simp [h, this]

/-- `interleave` is a bitwise morphism -/
theorem interleave_or (i j i' j' : ℕ) : interleave i j ||| interleave i' j' = interleave (i ||| i') (j ||| j') := by
  apply Nat.eq_of_testBit_eq; intro p
  obtain ⟨q, hq | hq⟩ := parity_cases p <;> subst hq
  · simp only [Nat.testBit_or, testBit_interleave_even]
    by_cases h : q < 32 <;> simp [h]
  · simp only [Nat.testBit_or, testBit_interleave_odd]
    by_cases h : q < 32 <;> simp [h]

theorem or_pow_sub_one (i d : ℕ) (hi : i < 2 ^ d) : (2 ^ d - 1) ||| i = 2 ^ d - 1 := by
  apply Nat.eq_of_testBit_eq; intro q
  rw [Nat.testBit_or, Nat.testBit_two_pow_sub_one]
  by_cases h : q < d
  · simp [h]
  · have : i.testBit q = false :=
      Nat.testBit_lt_two_pow (Nat.lt_of_lt_of_le hi (Nat.pow_le_pow_right (by decide) (by omega)))
    simp [h, this]

/-- the three masks are interleavings (finite table: `d ≤ 29`) -/
theorem masks_interleave (d : ℕ) (hd : d ≤ 29) :
    Layer.xMask d = interleave (2 ^ d - 1) 0 ∧ Layer.yMask d = interleave 0 (2 ^ d - 1) ∧
    Layer.xyMask d = interleave (2 ^ d - 1) (2 ^ d - 1) := by
  interval_cases d <;> decide +kernel

/-- the cell number built from parts decodes to these parts (LUT curve) -/
theorem decode_build (cfg : Cfg) (hbmi : cfg.bmi = false) (d b i j : ℕ) (hd : d ≤ 29) (hb : b < 256)
    (hi : i < 2 ^ d) (hj : j < 2 ^ d) :
    Layer.decodeHash cfg d ((b <<< (d <<< 1)) ||| interleave i j) = some ⟨b, i, j⟩ ∧
    (b < 12 → (b <<< (d <<< 1)) ||| interleave i j < Layer.nHash d) := by
  obtain ⟨c, hc, hcb⟩ := getZoc_ok d hd
  have hb32 : c.bits ≤ 32 := by cases c <;> decide
  have hk : d <<< 1 = 2 * d := by rw [Nat.shiftLeft_eq]; omega
  have ht : interleave i j < 4 ^ d := interleave_lt (by omega) hi hj
  have h4 : (4 : ℕ) ^ d = 2 ^ (2 * d) := by rw [Nat.pow_mul]
  have ht' : interleave i j < 2 ^ (2 * d) := by rw [← h4]; exact ht
  have hp : 0 < 2 ^ (2 * d) := Nat.pos_of_ne_zero (by simp)
  have hor : (b <<< (2 * d)) ||| interleave i j = b * 2 ^ (2 * d) + interleave i j := by
    rw [← Nat.shiftLeft_add_eq_or_of_lt ht', Nat.shiftLeft_eq]
  rw [hk, hor]
  constructor
  · unfold Layer.decodeHash Layer.zoc Layer.h2ij
    simp only [hbmi, Bool.false_eq_true, if_false, hc, lut_h2ij_i, lut_h2ij_j, hk]
    have hshr : (b * 2 ^ (2 * d) + interleave i j) >>> (2 * d) % 256 = b := by
      rw [Nat.shiftRight_eq_div_pow, Nat.mul_comm, Nat.mul_add_div hp, Nat.div_eq_of_lt ht', Nat.add_zero,
        Nat.mod_eq_of_lt hb]
    have hand : (b * 2 ^ (2 * d) + interleave i j) &&& Layer.xyMask d = interleave i j := by
      unfold Layer.xyMask
      by_cases h0 : d > 0
      · simp only [h0, if_true, hk, Nat.shiftLeft_eq, Nat.one_mul, Nat.and_two_pow_sub_one_eq_mod]
        rw [Nat.mul_comm, Nat.mul_add_mod, Nat.mod_eq_of_lt ht']
      · have : d = 0 := by omega
        subst this
        have : interleave i j = 0 := by simpa using ht
        simp [this]
    rw [hshr, hand]
    have hi' : i < 2 ^ c.bits := Nat.lt_of_lt_of_le hi (Nat.pow_le_pow_right (by decide) hcb)
    have hj' : j < 2 ^ c.bits := Nat.lt_of_lt_of_le hj (Nat.pow_le_pow_right (by decide) hcb)
    obtain ⟨s1, s2⟩ := squeeze_interleave c.bits i j hb32 hi' hj'
    rw [s1, s2]
  · intro hb12
    unfold Layer.nHash
    rw [hk, Nat.shiftLeft_eq]
    have : (b + 1) * 2 ^ (2 * d) ≤ 12 * 2 ^ (2 * d) := Nat.mul_le_mul_right _ (by omega)
    have e : (b + 1) * 2 ^ (2 * d) = b * 2 ^ (2 * d) + 2 ^ (2 * d) := by rw [Nat.add_mul, Nat.one_mul]
    omega

/-- `ij2h` of the LUT configuration is the interleaving -/
theorem ij2h_lut (cfg : Cfg) (hbmi : cfg.bmi = false) (d i j : ℕ) (hd : d ≤ 29) (hi : i < 2 ^ d) (hj : j < 2 ^ d) :
    ∃ c, Layer.zoc cfg d = some c ∧ Layer.ij2h cfg c i j = interleave i j := by
  obtain ⟨c, hc, hcb⟩ := getZoc_ok d hd
  refine ⟨c, by unfold Layer.zoc; simp [hbmi, hc], ?_⟩
  unfold Layer.ij2h
  simp only [hbmi, Bool.false_eq_true, if_false]
  exact lut_ij2h_interleave c i j (Nat.lt_of_lt_of_le hi (Nat.pow_le_pow_right (by decide) hcb))
    (Nat.lt_of_lt_of_le hj (Nat.pow_le_pow_right (by decide) hcb))

end Hpx.CellReal
