import HpxVerif.Lemmas.EnvelopeReal
import HpxVerif.Lemmas.CellReal
import Mathlib.Analysis.Convex.Deriv
import Mathlib.Analysis.SpecialFunctions.Sqrt
import Mathlib.Analysis.SpecialFunctions.Trigonometric.Deriv

/-!
# The farthest point of an equatorial cell from its centre is a vertex (part 1: the analytic core)

In the equatorial region the HEALPix projection is cylindrical equal-area: `λ = x·π/4`, `sin φ = 2y/3`.
For a centre of sine-latitude `zc` (`cc = cos φc ≥ 0`) and a point at longitude difference `θ` and sine-latitude `z`:
`cos(angular distance) = zc·z + cc·√(1 − z²)·cos θ =: cosd zc cc θ z`.

**Key fact** (`cosd_seg_concave`): along every straight segment of the `(θ, z)` plane contained in the rectangle
`|θ| ≤ π/4`, `|z| < 1`, the function `cosd` is concave (second derivative
`−cc·(k·β² − 2·αβ·c²·z·s + k·α²·c⁴)/c³ ≤ 0` with `k = cos θ ≥ |s| = |sin θ|`, `c = √(1 − z²)`: the Hessian of
`√(1 − z²)·cos θ` is negative semi-definite as long as `|z·tan θ| ≤ 1`).  Hence on a segment `cosd` is at least the
minimum of its two end values (`cosd_seg_ge_min`), and on a diamond (a convex polygon of the `(θ, z)` plane: the cell)
it is at least the minimum of its values at the four vertices: the angular distance is maximal at a vertex.

Results: `cosd_seg_concave`, `cosd_seg_ge_min`, `gd_diamond`, `eqr_extent_lonlat` (longitudes given directly) and
**`eqr_cell_extent`** (T1, in terms of the model's `unproj`), for every `0 < δ ≤ 1` and `|y| + δ ≤ 1`: no restriction on
the size of the cell (the depth-0 base cells `δ = 1`, `y = 0` are included).

Numerical check done before the proof (`Float`, 201 × 201 samples of the diamond; `dist y dx dy` the distance to the centre,
`worst δ y` the largest excess of `dist` over `max(dN, dS, dE)`):
`[worst 1 0, worst 0.5 0, worst 0.5 0.5, worst 0.5 0.49, worst 0.25 0.75, worst 0.25 0.01] = [0, 0, 0, 0, 0, 0]`
(the maximum is attained at a vertex); no counter-example for any `(δ, y)`.
-/

namespace Hpx.CellExtent
open Real Set

/-- cosine of the angular distance between a centre of sine-latitude `zc` (cosine `cc`) and a point of sine-latitude `z`
    at longitude difference `θ` -/
noncomputable def cosd (zc cc θ z : ℝ) : ℝ := zc * z + cc * (Real.sqrt (1 - z ^ 2) * Real.cos θ)

/-! ## `|sin θ| ≤ cos θ` on `[−π/4, π/4]` -/

theorem cos_sub_sin_nonneg (θ : ℝ) (h1 : -(π / 4) ≤ θ) (h2 : θ ≤ π / 4) : 0 ≤ cos θ - sin θ := by
  have hpi := Real.pi_pos
  have h : 0 ≤ cos (θ + π / 4) := Real.cos_nonneg_of_neg_pi_div_two_le_of_le (by linarith) (by linarith)
  rw [Real.cos_add, Real.cos_pi_div_four, Real.sin_pi_div_four] at h
  have hs : 0 < Real.sqrt 2 / 2 := by positivity
  have : 0 ≤ Real.sqrt 2 / 2 * (cos θ - sin θ) := by linarith
  exact (mul_nonneg_iff_of_pos_left hs).mp this

theorem cos_add_sin_nonneg (θ : ℝ) (h1 : -(π / 4) ≤ θ) (h2 : θ ≤ π / 4) : 0 ≤ cos θ + sin θ := by
  have := cos_sub_sin_nonneg (-θ) (by linarith) (by linarith)
  rwa [Real.cos_neg, Real.sin_neg, sub_neg_eq_add] at this

/-! ## the sign of the second derivative -/

/-- the quadratic form `k·β² − 2·γ·β·w + k·γ²` is non-negative when `|w| ≤ k` -/
theorem quad_nonneg (k w β γ : ℝ) (h1 : 0 ≤ k - w) (h2 : 0 ≤ k + w) : 0 ≤ k * β ^ 2 - 2 * γ * β * w + k * γ ^ 2 := by
  nlinarith [mul_nonneg h1 (sq_nonneg (β + γ)), mul_nonneg h2 (sq_nonneg (β - γ))]

theorem second_deriv_sign (c z k s α β : ℝ) (hc : 0 < c) (hz1 : -1 ≤ z) (hz2 : z ≤ 1)
    (hk1 : 0 ≤ k - s) (hk2 : 0 ≤ k + s) :
    (-β ^ 2 / c ^ 3) * k + (-(β * z) / c) * (-s * α) + ((-(β * z) / c) * (-s * α) + c * (-k * α * α)) ≤ 0 := by
  have h1 : 0 ≤ k - z * s := by nlinarith [mul_nonneg (sub_nonneg.mpr hz2) hk2, mul_nonneg (by linarith : 0 ≤ 1 + z) hk1]
  have h2 : 0 ≤ k + z * s := by nlinarith [mul_nonneg (sub_nonneg.mpr hz2) hk1, mul_nonneg (by linarith : 0 ≤ 1 + z) hk2]
  have hE := quad_nonneg k (z * s) β (α * c ^ 2) h1 h2
  have hc3 : 0 < c ^ 3 := by positivity
  have e : (-β ^ 2 / c ^ 3) * k + (-(β * z) / c) * (-s * α) + ((-(β * z) / c) * (-s * α) + c * (-k * α * α)) =
      -(k * β ^ 2 - 2 * (α * c ^ 2) * β * (z * s) + k * (α * c ^ 2) ^ 2) / c ^ 3 := by
    field_simp
    ring
  rw [e]
  exact div_nonpos_of_nonpos_of_nonneg (by linarith) hc3.le

/-! ## the two factors along a segment and their derivatives -/

section Segment
variable (θ0 α z0 β : ℝ)

/-- sine-latitude along the segment -/
noncomputable def segZ (t : ℝ) : ℝ := z0 + t * β
/-- longitude difference along the segment -/
noncomputable def segT (t : ℝ) : ℝ := θ0 + t * α
/-- `√(1 − z²)` along the segment -/
noncomputable def segP (t : ℝ) : ℝ := Real.sqrt (1 - segZ z0 β t ^ 2)
/-- `cos θ` along the segment -/
noncomputable def segQ (t : ℝ) : ℝ := Real.cos (segT θ0 α t)

theorem segZ_hasDeriv (t : ℝ) : HasDerivAt (segZ z0 β) β t := by
  have := ((hasDerivAt_id' t).mul_const β).const_add z0
  rw [one_mul] at this
  exact this

theorem segT_hasDeriv (t : ℝ) : HasDerivAt (segT θ0 α) α t := by
  have := ((hasDerivAt_id' t).mul_const α).const_add θ0
  rw [one_mul] at this
  exact this

theorem segP_sq (t : ℝ) (h : segZ z0 β t ^ 2 ≤ 1) : segP z0 β t ^ 2 = 1 - segZ z0 β t ^ 2 :=
  Real.sq_sqrt (by linarith)

theorem segP_pos (t : ℝ) (h : segZ z0 β t ^ 2 < 1) : 0 < segP z0 β t := Real.sqrt_pos.mpr (by linarith)

theorem segP_hasDeriv (t : ℝ) (h : segZ z0 β t ^ 2 < 1) :
    HasDerivAt (segP z0 β) (-(β * segZ z0 β t) / segP z0 β t) t := by
  have hW : HasDerivAt (fun t => 1 - segZ z0 β t ^ 2) (-(2 * segZ z0 β t * β)) t := by
    have := ((segZ_hasDeriv z0 β t).pow 2).const_sub 1
    simpa using this
  have := hW.sqrt (by linarith)
  have hp := segP_pos z0 β t h
  have e : -(β * segZ z0 β t) / segP z0 β t = -(2 * segZ z0 β t * β) / (2 * √(1 - segZ z0 β t ^ 2)) := by
    show -(β * segZ z0 β t) / segP z0 β t = -(2 * segZ z0 β t * β) / (2 * segP z0 β t)
    field_simp
  rw [e]
  exact this

theorem segP'_hasDeriv (t : ℝ) (h : segZ z0 β t ^ 2 < 1) :
    HasDerivAt (fun t => -(β * segZ z0 β t) / segP z0 β t) (-β ^ 2 / segP z0 β t ^ 3) t := by
  have hp := segP_pos z0 β t h
  have hsq := segP_sq z0 β t h.le
  have hnum : HasDerivAt (fun t => -(β * segZ z0 β t)) (-(β * β)) t := ((segZ_hasDeriv z0 β t).const_mul β).neg
  have := hnum.div (segP_hasDeriv z0 β t h) hp.ne'
  have e : -β ^ 2 / segP z0 β t ^ 3 =
      (-(β * β) * segP z0 β t - -(β * segZ z0 β t) * (-(β * segZ z0 β t) / segP z0 β t)) / segP z0 β t ^ 2 := by
    field_simp
    linear_combination (β ^ 2) * hsq
  rw [e]
  exact this

theorem segQ_hasDeriv (t : ℝ) : HasDerivAt (segQ θ0 α) (-Real.sin (segT θ0 α t) * α) t :=
  (segT_hasDeriv θ0 α t).cos

theorem segQ'_hasDeriv (t : ℝ) :
    HasDerivAt (fun t => -Real.sin (segT θ0 α t) * α) (-Real.cos (segT θ0 α t) * α * α) t := by
  have := (((segT_hasDeriv θ0 α t).sin).neg).mul_const α
  have e : -Real.cos (segT θ0 α t) * α * α = -(Real.cos (segT θ0 α t) * α) * α := by ring
  rw [e]
  exact this

end Segment

/-! ## concavity along a segment -/

theorem seg_between (a b t : ℝ) (m : ℝ) (ha : |a| ≤ m) (hb : |b| ≤ m) (ht0 : 0 ≤ t) (ht1 : t ≤ 1) :
    |a + t * (b - a)| ≤ m := by
  obtain ⟨a1, a2⟩ := abs_le.mp ha
  obtain ⟨b1, b2⟩ := abs_le.mp hb
  rw [abs_le]
  constructor <;> nlinarith

theorem seg_between_lt (a b t : ℝ) (ha : |a| < 1) (hb : |b| < 1) (ht0 : 0 ≤ t) (ht1 : t ≤ 1) :
    (a + t * (b - a)) ^ 2 < 1 := by
  have hm : |a + t * (b - a)| ≤ max |a| |b| :=
    seg_between a b t _ (le_max_left _ _) (le_max_right _ _) ht0 ht1
  have hlt : max |a| |b| < 1 := max_lt ha hb
  have h0 := abs_nonneg (a + t * (b - a))
  rw [← sq_abs]
  nlinarith

/-- **concavity along a segment**: for a centre with `cc ≥ 0` and a segment of the `(θ, z)` plane with both ends in
    `|θ| ≤ π/4`, `|z| < 1`, the function `t ↦ cosd zc cc (θ(t)) (z(t))` is concave on `[0, 1]`. -/
theorem cosd_seg_concave (zc cc θ0 θ1 z0 z1 : ℝ) (hcc : 0 ≤ cc) (hθ0 : |θ0| ≤ π / 4) (hθ1 : |θ1| ≤ π / 4)
    (hz0 : |z0| < 1) (hz1 : |z1| < 1) :
    ConcaveOn ℝ (Icc (0 : ℝ) 1) (fun t => cosd zc cc (θ0 + t * (θ1 - θ0)) (z0 + t * (z1 - z0))) := by
  set α := θ1 - θ0 with hα
  set β := z1 - z0 with hβ
  have hfun : (fun t => cosd zc cc (θ0 + t * α) (z0 + t * β)) =
      fun t => zc * segZ z0 β t + cc * (segP z0 β t * segQ θ0 α t) := rfl
  rw [hfun]
  have hdom : ∀ t ∈ interior (Icc (0 : ℝ) 1), segZ z0 β t ^ 2 < 1 ∧ |segT θ0 α t| ≤ π / 4 := by
    intro t ht
    rw [interior_Icc] at ht
    exact ⟨seg_between_lt z0 z1 t hz0 hz1 ht.1.le ht.2.le, seg_between θ0 θ1 t _ hθ0 hθ1 ht.1.le ht.2.le⟩
  refine concaveOn_of_hasDerivWithinAt2_nonpos (convex_Icc 0 1)
    (f' := fun t => zc * β + cc * ((-(β * segZ z0 β t) / segP z0 β t) * segQ θ0 α t +
      segP z0 β t * (-Real.sin (segT θ0 α t) * α)))
    (f'' := fun t => cc * ((-β ^ 2 / segP z0 β t ^ 3) * segQ θ0 α t +
      (-(β * segZ z0 β t) / segP z0 β t) * (-Real.sin (segT θ0 α t) * α) +
      ((-(β * segZ z0 β t) / segP z0 β t) * (-Real.sin (segT θ0 α t) * α) +
        segP z0 β t * (-Real.cos (segT θ0 α t) * α * α)))) ?_ ?_ ?_ ?_
  · apply Continuous.continuousOn
    unfold segZ segP segQ segT segZ
    fun_prop
  · intro t ht
    obtain ⟨hz, _⟩ := hdom t ht
    have h1 := ((segZ_hasDeriv z0 β t).const_mul zc).add
      (((segP_hasDeriv z0 β t hz).mul (segQ_hasDeriv θ0 α t)).const_mul cc)
    exact h1.hasDerivWithinAt
  · intro t ht
    obtain ⟨hz, _⟩ := hdom t ht
    have h1 := ((((segP'_hasDeriv z0 β t hz).mul (segQ_hasDeriv θ0 α t)).add
      ((segP_hasDeriv z0 β t hz).mul (segQ'_hasDeriv θ0 α t))).const_mul cc).const_add (zc * β)
    exact h1.hasDerivWithinAt
  · intro t ht
    obtain ⟨hz, hT⟩ := hdom t ht
    obtain ⟨T1, T2⟩ := abs_le.mp hT
    have hp := segP_pos z0 β t hz
    have hzz : -1 ≤ segZ z0 β t ∧ segZ z0 β t ≤ 1 := by
      constructor <;> nlinarith
    have := second_deriv_sign (segP z0 β t) (segZ z0 β t) (Real.cos (segT θ0 α t)) (Real.sin (segT θ0 α t)) α β hp
      hzz.1 hzz.2 (cos_sub_sin_nonneg _ T1 T2) (cos_add_sin_nonneg _ T1 T2)
    exact mul_nonpos_iff.mpr (Or.inl ⟨hcc, this⟩)

/-- on a segment of the rectangle `|θ| ≤ π/4`, `|z| < 1`, `cosd` is at least the minimum of its two end values -/
theorem cosd_seg_ge_min (zc cc θ0 θ1 z0 z1 t : ℝ) (hcc : 0 ≤ cc) (hθ0 : |θ0| ≤ π / 4) (hθ1 : |θ1| ≤ π / 4)
    (hz0 : |z0| < 1) (hz1 : |z1| < 1) (ht0 : 0 ≤ t) (ht1 : t ≤ 1) :
    min (cosd zc cc θ0 z0) (cosd zc cc θ1 z1) ≤ cosd zc cc (θ0 + t * (θ1 - θ0)) (z0 + t * (z1 - z0)) := by
  have hc := (cosd_seg_concave zc cc θ0 θ1 z0 z1 hcc hθ0 hθ1 hz0 hz1).2 (x := 0) (y := 1)
    ⟨le_rfl, zero_le_one⟩ ⟨zero_le_one, le_rfl⟩ (sub_nonneg.mpr ht1) ht0 (by ring)
  simp only [smul_eq_mul, mul_zero, zero_mul, add_zero, mul_one, zero_add, one_mul] at hc
  rw [show θ0 + (θ1 - θ0) = θ1 by ring, show z0 + (z1 - z0) = z1 by ring] at hc
  refine le_trans ?_ hc
  rcases le_total (cosd zc cc θ0 z0) (cosd zc cc θ1 z1) with h | h
  · rw [min_eq_left h]; nlinarith
  · rw [min_eq_right h]; nlinarith

/-! ## the diamond: the minimum of `cosd` is at a vertex -/

open Hpx.EnvelopeReal Hpx.Cover Hpx.Proj Hpx.CellReal

/-- `cos(angular distance)` from the centre of plane ordinate `y` to the point at plane offset `(a, b)` (equatorial region) -/
noncomputable def gd (y a b : ℝ) : ℝ := cosd (y * (2 / 3)) (Real.cos (latOf y)) (a * (π / 4)) ((y + b) * (2 / 3))

theorem gd_neg_a (y a b : ℝ) : gd y (-a) b = gd y a b := by
  unfold gd cosd; rw [neg_mul, Real.cos_neg]

theorem two_thirds_lt (y : ℝ) (hy : |y| ≤ 1) : |y * (2 / 3)| < 1 := by
  obtain ⟨h1, h2⟩ := abs_le.mp hy
  rw [abs_lt]; constructor <;> linarith

/-- **`gd_diamond`**: over the closed diamond `|a| + |b| ≤ δ` (`0 < δ ≤ 1`, `|y| + δ ≤ 1`) the cosine of the distance to the
    centre is at least its minimum over the north, south and east (= west) vertices. -/
theorem gd_diamond (y δ a b : ℝ) (hδ0 : 0 < δ) (hδ1 : δ ≤ 1) (hy : |y| + δ ≤ 1) (hab : |a| + |b| ≤ δ) :
    min (gd y 0 δ) (min (gd y 0 (-δ)) (gd y δ 0)) ≤ gd y a b := by
  have hpi := Real.pi_pos
  obtain ⟨y1, y2⟩ := abs_le.mp (show |y| ≤ 1 - δ by linarith)
  have hcc : 0 ≤ Real.cos (latOf y) := cos_latOf_nonneg y
  have hb := abs_nonneg b
  have ha := abs_nonneg a
  -- step 1: push the point horizontally to the border
  set a' := δ - |b| with ha'
  have ha'0 : 0 ≤ a' := by linarith
  have hstep1 : gd y a' b ≤ gd y a b := by
    unfold gd cosd
    have hcos : Real.cos (a' * (π / 4)) ≤ Real.cos (a * (π / 4)) := by
      rw [← Real.cos_abs (a * (π / 4)), abs_mul, abs_of_pos (by positivity : (0 : ℝ) < π / 4)]
      exact Real.cos_le_cos_of_nonneg_of_le_pi (by positivity) (by nlinarith) (by nlinarith)
    have hs : 0 ≤ Real.sqrt (1 - ((y + b) * (2 / 3)) ^ 2) := Real.sqrt_nonneg _
    have := mul_le_mul_of_nonneg_left hcos hs
    have := mul_le_mul_of_nonneg_left this hcc
    linarith
  refine le_trans ?_ hstep1
  have hθδ : |δ * (π / 4)| ≤ π / 4 := by
    rw [abs_of_pos (by positivity)]; nlinarith
  have hθ0 : |(0 : ℝ)| ≤ π / 4 := by rw [abs_zero]; positivity
  have hzc : |y * (2 / 3)| < 1 := two_thirds_lt y (abs_le.mpr ⟨by linarith, by linarith⟩)
  rcases le_or_gt 0 b with hb0 | hb0
  · -- north-east edge
    have hzN : |(y + δ) * (2 / 3)| < 1 := two_thirds_lt _ (abs_le.mpr ⟨by linarith, by linarith⟩)
    have h := cosd_seg_ge_min (y * (2 / 3)) (Real.cos (latOf y)) (δ * (π / 4)) 0 (y * (2 / 3)) ((y + δ) * (2 / 3))
      (b / δ) hcc hθδ hθ0 hzc hzN (div_nonneg hb0 hδ0.le) (by rw [div_le_one hδ0]; rw [abs_of_nonneg hb0] at hab; linarith)
    have e1 : δ * (π / 4) + b / δ * (0 - δ * (π / 4)) = a' * (π / 4) := by
      rw [ha', abs_of_nonneg hb0]; field_simp; ring
    have e2 : y * (2 / 3) + b / δ * ((y + δ) * (2 / 3) - y * (2 / 3)) = (y + b) * (2 / 3) := by
      field_simp; ring
    rw [e1, e2] at h
    have hE : gd y δ 0 = cosd (y * (2 / 3)) (Real.cos (latOf y)) (δ * (π / 4)) (y * (2 / 3)) := by
      unfold gd; rw [add_zero]
    have hN : gd y 0 δ = cosd (y * (2 / 3)) (Real.cos (latOf y)) 0 ((y + δ) * (2 / 3)) := by
      unfold gd; rw [zero_mul]
    rw [← hE, ← hN] at h
    refine le_trans ?_ h
    exact le_min ((min_le_right _ _).trans (min_le_right _ _)) (min_le_left _ _)
  · -- south-east edge
    have hzS : |(y + -δ) * (2 / 3)| < 1 := two_thirds_lt _ (abs_le.mpr ⟨by linarith, by linarith⟩)
    have h := cosd_seg_ge_min (y * (2 / 3)) (Real.cos (latOf y)) (δ * (π / 4)) 0 (y * (2 / 3)) ((y + -δ) * (2 / 3))
      (-b / δ) hcc hθδ hθ0 hzc hzS (div_nonneg (by linarith) hδ0.le)
      (by rw [div_le_one hδ0]; rw [abs_of_neg hb0] at hab; linarith)
    have e1 : δ * (π / 4) + -b / δ * (0 - δ * (π / 4)) = a' * (π / 4) := by
      rw [ha', abs_of_neg hb0]; field_simp; ring
    have e2 : y * (2 / 3) + -b / δ * ((y + -δ) * (2 / 3) - y * (2 / 3)) = (y + b) * (2 / 3) := by
      field_simp; ring
    rw [e1, e2] at h
    have hE : gd y δ 0 = cosd (y * (2 / 3)) (Real.cos (latOf y)) (δ * (π / 4)) (y * (2 / 3)) := by
      unfold gd; rw [add_zero]
    have hS : gd y 0 (-δ) = cosd (y * (2 / 3)) (Real.cos (latOf y)) 0 ((y + -δ) * (2 / 3)) := by
      unfold gd; rw [zero_mul]
    rw [← hE, ← hS] at h
    refine le_trans ?_ h
    exact le_min ((min_le_right _ _).trans (min_le_right _ _)) ((min_le_right _ _).trans (min_le_left _ _))

/-! ## back to angular distances -/

theorem sin_latOf (y : ℝ) (hy : |y| ≤ 1) : Real.sin (latOf y) = y * (2 / 3) := by
  obtain ⟨h1, h2⟩ := abs_le.mp hy
  exact Real.sin_arcsin (by linarith) (by linarith)

theorem cos_latOf (y : ℝ) : Real.cos (latOf y) = Real.sqrt (1 - (y * (2 / 3)) ^ 2) := Real.cos_arcsin _

/-- the cosine of the angular distance between two positions of the equatorial region, longitudes `a·π/4` apart
    (modulo `2π`), is `gd` -/
theorem cos_adist_gd (l1 l2 y a b : ℝ) (m : ℤ) (hl : l1 - l2 = a * (π / 4) + 2 * π * m) (hy : |y| ≤ 1)
    (hyb : |y + b| ≤ 1) : Real.cos (adist (l1, latOf y) (l2, latOf (y + b))) = gd y a b := by
  rw [cos_adist]
  simp only
  rw [hl, show a * (π / 4) + 2 * π * (m : ℝ) = a * (π / 4) + (m : ℝ) * (2 * π) by ring, Real.cos_add_int_mul_two_pi,
    sin_latOf y hy, sin_latOf (y + b) hyb, cos_latOf (y + b)]
  unfold gd cosd
  ring

/-- if `cos v ≤ cos(adist)` with `0 ≤ v ≤ π` then `adist ≤ v` -/
theorem adist_le_of_cos_le (p q : ℝ × ℝ) (v : ℝ) (h0 : 0 ≤ v) (h1 : v ≤ π) (h : Real.cos v ≤ Real.cos (adist p q)) :
    adist p q ≤ v :=
  (Real.strictAntiOn_cos.le_iff_ge ⟨h0, h1⟩ ⟨adist_nonneg p q, adist_le_pi p q⟩).mp h

theorem dN_le_pi (δ y : ℝ) : dN δ y ≤ π := by
  unfold dN
  have := Real.arcsin_le_pi_div_two ((y + δ) * (2 / 3))
  have := Real.neg_pi_div_two_le_arcsin (y * (2 / 3))
  linarith

theorem dS_le_pi (δ y : ℝ) : dS δ y ≤ π := by
  unfold dS
  have := Real.arcsin_le_pi_div_two (y * (2 / 3))
  have := Real.neg_pi_div_two_le_arcsin ((y - δ) * (2 / 3))
  linarith

theorem dE_le_pi (δ y : ℝ) : dE δ y ≤ π := by
  unfold dE
  have := Real.arcsin_le_pi_div_two (Real.cos (latOf y) * Real.sin (δ * (π / 8)))
  linarith

/-- the values of `gd` at the vertices are the cosines of the closed forms `dN`, `dS`, `dE` -/
theorem gd_north (y δ : ℝ) (hδ : 0 ≤ δ) (hy : |y| ≤ 1) (hyN : |y + δ| ≤ 1) : gd y 0 δ = Real.cos (dN δ y) := by
  rw [← cos_adist_gd 0 0 y 0 δ 0 (by simp) hy hyN,
    adist_same_lon _ _ _ _ 0 (by simp) (latOf_abs_le y) (latOf_abs_le (y + δ)), abs_sub_comm]
  congr 1
  exact abs_of_nonneg (dN_nonneg δ y hδ)

theorem gd_south (y δ : ℝ) (hδ : 0 ≤ δ) (hy : |y| ≤ 1) (hyS : |y + -δ| ≤ 1) : gd y 0 (-δ) = Real.cos (dS δ y) := by
  rw [← cos_adist_gd 0 0 y 0 (-δ) 0 (by simp) hy hyS,
    adist_same_lon _ _ _ _ 0 (by simp) (latOf_abs_le y) (latOf_abs_le (y + -δ))]
  congr 1
  rw [← sub_eq_add_neg]
  exact abs_of_nonneg (dS_nonneg δ y hδ)

theorem gd_east (y δ : ℝ) (hδ0 : 0 ≤ δ) (hδ1 : δ ≤ 1) (hy : |y| ≤ 1) : gd y δ 0 = Real.cos (dE δ y) := by
  have hy0 : |y + 0| ≤ 1 := by rwa [add_zero]
  rw [← cos_adist_gd (δ * (π / 4)) 0 y δ 0 0 (by simp) hy hy0, add_zero,
    adist_same_lat _ _ _ (δ * (π / 4)) 0 (by simp) (latOf_abs_le y)]
  rw [show δ * (π / 4) / 2 = δ * (π / 8) by ring, abs_of_nonneg (sin_step_nonneg δ hδ0 hδ1)]
  rfl

/-- **the extent of an equatorial cell, longitudes given directly**: centre at plane ordinate `y`, `0 < δ ≤ 1`,
    `|y| + δ ≤ 1`; a point at plane offset `(a, b)` with `|a| + |b| ≤ δ` (longitude difference `a·π/4` modulo `2π`, plane
    ordinate `y + b`) is at angular distance at most `max(dN, dS, dE)` from the centre. -/
theorem eqr_extent_lonlat (l1 l2 y δ a b : ℝ) (m : ℤ) (hδ0 : 0 < δ) (hδ1 : δ ≤ 1) (hy : |y| + δ ≤ 1)
    (hab : |a| + |b| ≤ δ) (hl : l1 - l2 = a * (π / 4) + 2 * π * m) :
    adist (l1, latOf y) (l2, latOf (y + b)) ≤ max (dN δ y) (max (dS δ y) (dE δ y)) := by
  obtain ⟨y1, y2⟩ := abs_le.mp (show |y| ≤ 1 - δ by linarith)
  obtain ⟨b1, b2⟩ := abs_le.mp (show |b| ≤ δ by linarith [abs_nonneg a])
  have hyc : |y| ≤ 1 := abs_le.mpr ⟨by linarith, by linarith⟩
  have hyb : |y + b| ≤ 1 := abs_le.mpr ⟨by linarith, by linarith⟩
  have hyN : |y + δ| ≤ 1 := abs_le.mpr ⟨by linarith, by linarith⟩
  have hyS : |y + -δ| ≤ 1 := abs_le.mpr ⟨by linarith, by linarith⟩
  have h := gd_diamond y δ a b hδ0 hδ1 hy hab
  rw [← cos_adist_gd l1 l2 y a b m hl hyc hyb, gd_north y δ hδ0.le hyc hyN, gd_south y δ hδ0.le hyc hyS,
    gd_east y δ hδ0.le hδ1 hyc] at h
  rcases min_le_iff.mp h with h | h
  · exact (adist_le_of_cos_le _ _ _ (dN_nonneg δ y hδ0.le) (dN_le_pi δ y) h).trans (le_max_left _ _)
  · rcases min_le_iff.mp h with h | h
    · exact (adist_le_of_cos_le _ _ _ (dS_nonneg δ y hδ0.le) (dS_le_pi δ y) h).trans
        ((le_max_left _ _).trans (le_max_right _ _))
    · exact (adist_le_of_cos_le _ _ _ (dE_nonneg δ y hδ0.le hδ1) (dE_le_pi δ y) h).trans
        ((le_max_right _ _).trans (le_max_right _ _))

/-! ## T1 in terms of the model's `unproj` -/

theorem norm8_shift (x : ℝ) : ∃ m : ℤ, norm8 x = x + 8 * m := by
  unfold norm8; split_ifs
  · exact ⟨1, by push_cast; ring⟩
  · exact ⟨0, by simp⟩

/-- **`eqr_cell_extent`** (T1).  Plane centre `(x, y)` with `0 ≤ x`, `x + δ ≤ 8` (as in `true_c2v_eqr`), `0 < δ ≤ 1`,
    `|y| + δ ≤ 1` (the closed diamond of half-diagonal `δ` is in the equatorial region).  For EVERY plane point `(x', y')`
    of the closed diamond `|x' − x| + |y' − y| ≤ δ` (abscissa reduced to `[0, 8)` by `norm8`, as `ensures_x_is_positive`
    does): `unproj` succeeds on the centre and on the point, and the angular distance between the two positions is at most
    the largest of the three centre-to-vertex distances `dN δ y`, `dS δ y`, `dE δ y` of `true_c2v_eqr`:
    **the farthest point of the cell from its centre is a vertex.** -/
theorem eqr_cell_extent (x y δ x' y' : ℝ) (hδ0 : 0 < δ) (hδ1 : δ ≤ 1) (hx0 : 0 ≤ x) (hx8 : x + δ ≤ 8)
    (hy : |y| + δ ≤ 1) (hin : |x' - x| + |y' - y| ≤ δ) :
    ∃ c p : ℝ × ℝ, unproj (α := ℝ) x y = some c ∧ unproj (α := ℝ) (norm8 x') y' = some p ∧
      c.2 = latOf y ∧ p.2 = latOf y' ∧
      adist c p ≤ max (dN δ y) (max (dS δ y) (dE δ y)) := by
  obtain ⟨y1, y2⟩ := abs_le.mp (show |y| ≤ 1 - δ by linarith)
  obtain ⟨b1, b2⟩ := abs_le.mp (show |y' - y| ≤ δ by linarith [abs_nonneg (x' - x)])
  obtain ⟨a1, a2⟩ := abs_le.mp (show |x' - x| ≤ δ by linarith [abs_nonneg (y' - y)])
  have hyc : |y| ≤ 1 := abs_le.mpr ⟨by linarith, by linarith⟩
  have hyp : |y'| ≤ 1 := abs_le.mpr ⟨by linarith, by linarith⟩
  have hn0 : 0 ≤ norm8 x' := by unfold norm8; split_ifs <;> linarith
  have hn8 : norm8 x' ≤ 8 := by unfold norm8; split_ifs <;> linarith
  refine ⟨_, _, unproj_band x y hx0 (by linarith) hyc, unproj_band (norm8 x') y' hn0 hn8 hyp, rfl, rfl, ?_⟩
  obtain ⟨m1, e1⟩ := band_lon x
  obtain ⟨m2, e2⟩ := band_lon (norm8 x')
  obtain ⟨m3, e3⟩ := norm8_shift x'
  have h := eqr_extent_lonlat ((if x < 8 then x else x - 8) * (π / 4))
    ((if norm8 x' < 8 then norm8 x' else norm8 x' - 8) * (π / 4)) y δ (x - x') (y' - y) (m1 - m2 - m3) hδ0 hδ1 hy
    (by rw [abs_sub_comm x x']; exact hin) (by rw [e1, e2, e3]; push_cast; ring)
  rw [show y + (y' - y) = y' by ring] at h
  exact h

/-- the hypotheses are satisfiable: depth 0 base cell 4 wraps around `x = 0` (`δ = 1`, centre `(0, 0)`, point `(−1/2, 1/2)`
    on the north-west edge, abscissa reduced to `15/2`) -/
example : ∃ c p : ℝ × ℝ, unproj (α := ℝ) 0 0 = some c ∧ unproj (α := ℝ) (norm8 (-1 / 2)) (1 / 2) = some p ∧
      c.2 = latOf 0 ∧ p.2 = latOf (1 / 2) ∧ adist c p ≤ max (dN 1 0) (max (dS 1 0) (dE 1 0)) :=
  eqr_cell_extent 0 0 1 (-1 / 2) (1 / 2) one_pos le_rfl le_rfl (by norm_num) (by norm_num) (by
    rw [abs_of_neg (by norm_num : (-1 / 2 - 0 : ℝ) < 0), abs_of_pos (by norm_num : (0 : ℝ) < 1 / 2 - 0)]; norm_num)

end Hpx.CellExtent

#print axioms Hpx.CellExtent.cosd_seg_concave
#print axioms Hpx.CellExtent.gd_diamond
#print axioms Hpx.CellExtent.eqr_extent_lonlat
#print axioms Hpx.CellExtent.eqr_cell_extent
