/-
C14 — external edges, part 5: `delta_depth = 0`, and the external-edge theorems for EVERY `delta_depth`.

Since the repair `fix: x_mask, y_mask and xy_mask at depth 0` the masks `x_mask(0)`, `y_mask(0)`, `xy_mask(0)` are `0`
(`Topo.xyMaskFn`), so that `external_edge*(hash, 0)` is meaningful: the external edge at the depth of the cell itself is
the list of its neighbours.

* `internalCorner_zero`, `internalEdgePart_zero`, `sideList_zero`, `side_eval_all`: what is appended for one neighbour,
  every `dd ≤ 29` (`dd = 0`: the neighbour itself);
* `external_edge_spec_all_delta`, `external_edge_struct_spec_all_delta`, `external_edge_set_all_delta`,
  `external_edge_nodup_all_delta`, `external_edge_sorted_spec_all_delta`, `external_edge_length_all_delta`: the theorems of
  `EdgeExternal3/4.lean` with the hypothesis `1 ≤ dd` removed;
* `external_edge_delta0`, `external_edge_struct_delta0` and the corollaries `external_edge_delta0_neighbours`,
  `external_edge_delta0_nodup`, `external_edge_delta0_sorted`, `external_edge_delta0_mem`, `external_edge_delta0_length`.

Every depth `d ≤ 29`, every cell number `hash < 12·4^d`, any `cfg` (debug or release, LUT or BMI).
-/
import HpxVerif.Lemmas.EdgeExternal4

namespace Hpx.EdgeExternal
open Hpx Hpx.Topo Hpx.TopoSpec Hpx.TopoNeigh Hpx.TopoLift Hpx.EdgeInternal MW

/-! ## one piece at `delta_depth = 0` -/

/-- `internal_corner(hv, 0, f)` is `hv` itself (all three masks are `0`), any build -/
theorem internalCorner_zero (cfg : Cfg) (hv : Nat) (hfit : hv < 2 ^ 64) (f : MW) (hc : f.isCardinal = true) :
    internalCorner cfg hv 0 f = some hv := by
  have hm : (hv <<< (2 * 0)) % 2 ^ 64 = hv := by
    simp only [Nat.mul_zero, Nat.shiftLeft_zero]; exact Nat.mod_eq_of_lt hfit
  cases f <;> first | exact absurd hc (by decide) | skip
  · simp only [internalCorner, hm]
  · simp only [internalCorner, hm, xMask_spec0 cfg 0 (by decide), Option.map_some]
    simp [interleave_zero_zero]
  · simp only [internalCorner, hm, yMask_spec0 cfg 0 (by decide), Option.map_some]
    simp [interleave_zero_zero]
  · simp only [internalCorner, hm, xyMask_spec cfg 0 (by decide), Option.map_some]
    simp

/-- `internal_edge_part(hv, 0, f)` is `[hv]` (one sub-cell: the cell itself), any build -/
theorem internalEdgePart_zero (cfg : Cfg) (hv : Nat) (hfit : hv < 2 ^ 64) (f : MW) (ho : f.isOrdinal = true) :
    internalEdgePart cfg hv 0 f = some [hv] := by
  rw [internalEdgePart_eq]
  obtain ⟨c, hc, _⟩ := zoc_lut (LayerBmi.noBmi cfg) rfl 0 (by decide)
  have hi := i02hDD_spec (LayerBmi.noBmi cfg) rfl 0 0 (by decide) (by decide)
  have hj := oj2hDD_spec (LayerBmi.noBmi cfg) rfl 0 0 (by decide) (by decide)
  rw [interleave_zero_zero] at hi hj
  have hfit' : hv < 18446744073709551616 := hfit
  cases f <;> first | exact absurd ho (by decide) | skip
  all_goals
    simpa [internalEdgePart, hc, hi, hj] using hfit'

/-- at `delta_depth = 0` the side / corner `f` of `hv` is `hv` -/
theorem sideList_zero (hv : Nat) (f : MW) (hf : f ≠ C) : sideList hv 0 f = [hv] := by
  cases f <;> first | exact absurd rfl hf | simp [sideList, sideCoords, cellVal, interleave_zero_zero]

/-- `side_eval` for `delta_depth = 0` -/
theorem side_eval_zero (cfg : Cfg) (hv : Nat) (f : MW) (hfit : hv < 2 ^ 64) (hf : f ≠ C) :
    (if f.isCardinal = true then (internalCorner cfg hv 0 f).map ([·])
      else if f.isOrdinal = true then internalEdgePart cfg hv 0 f else none) = some (sideList hv 0 f) := by
  rw [sideList_zero hv f hf]
  by_cases hc : f.isCardinal = true
  · rw [if_pos hc, internalCorner_zero cfg hv hfit f hc]; rfl
  · have ho : f.isOrdinal = true := by
      revert hc hf; cases f <;> simp [isCardinal, isOrdinal]
    rw [if_neg hc, if_pos ho, internalEdgePart_zero cfg hv hfit f ho]

/-- what `append_sorted_internal_edge_element` appends for the neighbour `hv` seen from direction `f`: every
    `delta_depth ≤ 29` (`side_eval` without `1 ≤ dd`), any build -/
theorem side_eval_all (cfg : Cfg) (hv dd : Nat) (f : MW) (hd : dd ≤ 29) (hfit : hv < 2 ^ (64 - 2 * dd)) (hf : f ≠ C) :
    (if f.isCardinal = true then (internalCorner cfg hv dd f).map ([·])
      else if f.isOrdinal = true then internalEdgePart cfg hv dd f else none) = some (sideList hv dd f) := by
  rcases Nat.eq_zero_or_pos dd with h0 | h1
  · subst h0; exact side_eval_zero cfg hv f hfit hf
  · exact side_eval cfg hv dd f h1 hd hfit hf

/-! ## the theorems of `EdgeExternal3/4.lean` for every `delta_depth` -/

/-- **C14, `external_edge_spec` for every `delta_depth`** (`0` included): on a cell number of the depth, `d + dd ≤ 29`,
    `external_edge` (`s = false`) and `external_edge_sorted` (`s = true`) do not panic and return the concatenation, over
    the neighbours `(dir, hv)` of `hash` (in `MainWind` index order / by increasing number), of the sub-cells of `hv` on its
    side / corner facing `hash`.  Any build. -/
theorem external_edge_spec_all_delta (cfg : Cfg) (d dd : Nat) (hsum : d + dd ≤ 29) (hash : Nat)
    (hh : hash < 12 * 4 ^ d) (s : Bool) :
    externalEdge cfg d hash dd s = some (externalList d hash dd s) := by
  unfold externalEdge
  rw [externalPieces_spec cfg d (by omega) hash hh s]
  simp only [Option.bind_eq_bind, Option.bind_some]
  have hm : (piecesSpec d hash s).mapM (fun x : MW × MW × Nat =>
      if x.2.1.isCardinal = true then (internalCorner cfg x.2.2 dd x.2.1).map ([·])
      else if x.2.1.isOrdinal = true then internalEdgePart cfg x.2.2 dd x.2.1 else none) =
      some ((piecesSpec d hash s).map fun x => sideList x.2.2 dd x.2.1) := by
    apply mapM_some_of_forall
    rintro ⟨dir, f, hv⟩ hm
    obtain ⟨hm', rfl⟩ := (mem_piecesSpec d hash s dir _ hv).1 hm
    obtain ⟨_, h2, h3, _⟩ := fromD_spec d (by omega) hash hh dir hv hm'
    exact side_eval_all cfg hv dd _ (by omega) (valid_cell_fits d dd hv hsum h3) h2
  rw [hm]
  simp only [Option.bind_some, Option.pure_def]
  congr 1
  unfold externalList piecesSpec
  rw [List.map_map, List.flatMap_def]
  rfl

/-- **C14, `external_edge_struct_spec` for every `delta_depth`** (`0` included) -/
theorem external_edge_struct_spec_all_delta (cfg : Cfg) (d dd : Nat) (hsum : d + dd ≤ 29) (hash : Nat)
    (hh : hash < 12 * 4 ^ d) :
    externalEdgeStruct cfg d hash dd =
      some ((nbList d hash false).map fun e => (e.1, sideList e.2 dd (fromD d hash e.1))) ∧
    ∀ dir hv, (dir, hv) ∈ nbList d hash false →
      (sideList hv dd (fromD d hash dir)).length = (if dir.isCardinal then 1 else 2 ^ dd) ∧
      (fromD d hash dir).isCardinal = dir.isCardinal := by
  constructor
  · unfold externalEdgeStruct
    rw [externalPieces_spec cfg d (by omega) hash hh false]
    simp only [Option.bind_eq_bind, Option.bind_some]
    have e : (nbList d hash false).map (fun e => (e.1, sideList e.2 dd (fromD d hash e.1))) =
        (piecesSpec d hash false).map fun x => (x.1, sideList x.2.2 dd x.2.1) := by
      unfold piecesSpec orderOf
      rw [List.map_map]; rfl
    rw [e]
    apply mapM_some_of_forall
    rintro ⟨dir, f, hv⟩ hm
    obtain ⟨hm', rfl⟩ := (mem_piecesSpec d hash false dir _ hv).1 hm
    obtain ⟨_, h2, h3, _, _, _, _, h8, h9⟩ := fromD_spec d (by omega) hash hh dir hv hm'
    have hs := side_eval_all cfg hv dd _ (by omega) (valid_cell_fits d dd hv hsum h3) h2
    simp only [h8, h9] at hs ⊢
    by_cases hc : dir.isCardinal = true
    · rw [if_pos hc] at hs
      rw [if_pos hc, if_pos hc]
      cases hcc : internalCorner cfg hv dd (fromD d hash dir) with
      | none => rw [hcc] at hs; simp at hs
      | some c =>
        rw [hcc] at hs
        simp only [Option.map_some, Option.some.injEq] at hs ⊢
        rw [← hs]
    · rw [if_neg hc] at hs
      rw [if_neg hc]
      by_cases ho : dir.isOrdinal = true
      · rw [if_pos ho] at hs
        rw [if_pos ho, if_pos ho, hs]; rfl
      · rw [if_neg ho] at hs; simp at hs
  · intro dir hv hm
    obtain ⟨_, h2, _, _, _, _, _, h8, _⟩ := fromD_spec d (by omega) hash hh dir hv hm
    refine ⟨?_, h8⟩
    unfold sideList
    rw [List.length_map, sideCoords_length dd _ h2, h8]

/-- **C14, `external_edge_set` for every `delta_depth`** (`0` included; soundness and completeness): the members of the
    external edge are exactly the cell numbers `h'` of depth `d + dd` that lie outside `hash` and share a vertex, as points
    of the sphere, with some descendant `h''` of `hash` at depth `d + dd`.  Both orders, any build. -/
theorem external_edge_set_all_delta (cfg : Cfg) (d dd : Nat) (hsum : d + dd ≤ 29) (hash : Nat)
    (hh : hash < 12 * 4 ^ d) (s : Bool) :
    ∃ l, externalEdge cfg d hash dd s = some l ∧ ∀ h', h' ∈ l ↔
      (h' < 12 * 4 ^ (d + dd) ∧ h' / 4 ^ dd ≠ hash ∧
        ∃ h'', h'' / 4 ^ dd = hash ∧ Touch (2 ^ (d + dd)) (partsOf (d + dd) h') (partsOf (d + dd) h'')) := by
  refine ⟨_, external_edge_spec_all_delta cfg d dd hsum hash hh s, ?_⟩
  intro h'
  have hd : d ≤ 29 := by omega
  have hp := partsOf_valid d hash hh
  have hn1 := one_le_pow d
  have hM : 1 ≤ 2 ^ d * 2 ^ dd := Nat.mul_pos hn1 (Nat.two_pow_pos dd)
  have hM2 := pow_u32 d dd hsum
  have hpos2 : 0 < 2 ^ dd := Nat.two_pow_pos dd
  rw [mem_externalList]
  constructor
  · rintro ⟨dir, hv, hm, hx⟩
    obtain ⟨_, hfC, hvlt, hvne, _, hback, _⟩ := fromD_spec d hd hash hh dir hv hm
    obtain ⟨x, y, hxy, rfl⟩ := (mem_sideList hv dd _ h').1 hx
    obtain ⟨hx, hy, hs⟩ := (mem_sideCoords dd _ hfC x y).1 hxy
    obtain ⟨hlt, hQ⟩ := partsOf_child d dd hv x y hsum hvlt hx hy
    have hQv := partsOf_valid (d + dd) _ hlt
    rw [pow_split] at hQv
    have hanc : anc dd (partsOf (d + dd) (cellVal hv dd (x, y))) = partsOf d hv := by
      rw [hQ]
      simp only [anc]
      rw [Nat.add_comm, Nat.add_mul_div_right _ _ hpos2, Nat.div_eq_of_lt hx, Nat.zero_add,
        Nat.add_comm, Nat.add_mul_div_right _ _ hpos2, Nat.div_eq_of_lt hy, Nat.zero_add]
    have hside : OnSide (2 ^ dd) (fromD d hash dir) ((partsOf (d + dd) (cellVal hv dd (x, y))).i % 2 ^ dd)
        ((partsOf (d + dd) (cellVal hv dd (x, y))).j % 2 ^ dd) := by
      rw [hQ]
      simp only
      rw [Nat.add_comm, Nat.add_mul_mod_self_right, Nat.mod_eq_of_lt hx,
        Nat.add_comm ((partsOf d hv).j * 2 ^ dd), Nat.add_mul_mod_self_right, Nat.mod_eq_of_lt hy]
      exact hs
    obtain ⟨P, hP, hPa⟩ := facing_sound (2 ^ d) dd _ _ _ _ hn1 hM2 hQv hanc hback hside
    have hPv := neighbourParts_valid _ _ P _ hM hM2 hQv hP
    have hPv' : Valid (2 ^ (d + dd)) P := by rw [pow_split]; exact hPv
    have hPlt := numberOf_lt (d + dd) hsum P hPv'
    refine ⟨hlt, ?_, numberOf (d + dd) P, ?_, ?_⟩
    · rw [(cellVal_div hv dd x y (by omega) hx hy).1]; exact hvne
    · obtain ⟨hlt2, ha2, _⟩ := child_decomp d dd _ hsum hPlt
      rw [partsOf_numberOf (d + dd) hsum P hPv', hPa] at ha2
      exact (partsOf_injective d hd _ _ ha2).symm
    · rw [partsOf_numberOf (d + dd) hsum P hPv', pow_split]
      exact neighbour_touch _ _ P _ hM hM2 hQv hP
  · rintro ⟨hlt, hne, h'', hh'', ht⟩
    have hlt'' : h'' < 12 * 4 ^ (d + dd) := lt_of_div_lt d dd h'' (by rw [hh'']; exact hh)
    obtain ⟨hq1, hqa, hqc⟩ := child_decomp d dd h' hsum hlt
    obtain ⟨_, hpa, _⟩ := child_decomp d dd h'' hsum hlt''
    rw [hh''] at hpa
    have hQv := partsOf_valid (d + dd) h' hlt
    have hPv := partsOf_valid (d + dd) h'' hlt''
    rw [pow_split] at hQv hPv ht
    have hqne : anc dd (partsOf (d + dd) h') ≠ partsOf d hash := by
      rw [hqa]; intro e; exact hne (partsOf_injective d hd _ _ e)
    have hne' : partsOf (d + dd) h' ≠ partsOf (d + dd) h'' := by
      intro e; rw [e, hpa] at hqne; exact hqne rfl
    obtain ⟨g, _, hg⟩ := neighbours_complete _ _ _ hM hM2 hPv hQv hne' (touch_symm ht)
    obtain ⟨⟨G, hGC, hG⟩, hon⟩ := facing_complete (2 ^ d) dd _ _ _ g hn1 hM2 hPv hpa hg hqne
    rw [hqa] at hG hon
    have hmem : (G, h' / 4 ^ dd) ∈ nbList d hash false :=
      (mem_nbList d hash false G _).2 ⟨Or.inl hGC, _, hG, (numberOf_partsOf d _ hd).symm⟩
    obtain ⟨_, hfC, _, _, _, hback, _⟩ := fromD_spec d hd hash hh G _ hmem
    refine ⟨G, h' / 4 ^ dd, hmem, ?_⟩
    rw [mem_sideList]
    refine ⟨_, _, ?_, hqc⟩
    rw [mem_sideCoords dd _ hfC]
    exact ⟨Nat.mod_lt _ hpos2, Nat.mod_lt _ hpos2, hon _ hback⟩

/-- **C14, `external_edge_nodup` for every `delta_depth`** (`0` included): no duplicates, both orders -/
theorem external_edge_nodup_all_delta (cfg : Cfg) (d dd : Nat) (hsum : d + dd ≤ 29) (hash : Nat)
    (hh : hash < 12 * 4 ^ d) (s : Bool) :
    ∃ l, externalEdge cfg d hash dd s = some l ∧ l.Nodup := by
  refine ⟨_, external_edge_spec_all_delta cfg d dd hsum hash hh s, ?_⟩
  have hd : d ≤ 29 := by omega
  unfold externalList List.Nodup
  rw [List.pairwise_flatMap]
  constructor
  · intro e _
    exact (sideList_sorted e.2 dd _ (by omega)).imp (fun h => Nat.ne_of_lt h)
  · refine List.Pairwise.imp_of_mem ?_ (order_values_ne d hd hash hh s)
    intro a b ha hb hab x hx y hy exy
    rw [mem_orderOf] at ha hb
    obtain ⟨_, fa, _⟩ := fromD_spec d hd hash hh a.1 a.2 ha
    obtain ⟨_, fb, _⟩ := fromD_spec d hd hash hh b.1 b.2 hb
    have r1 := (sideList_range a.2 dd _ fa (by omega) x hx).1
    have r2 := (sideList_range b.2 dd _ fb (by omega) y hy).1
    rw [exy, r2] at r1
    exact hab r1.symm

/-- **C14, `external_edge_sorted_spec` for every `delta_depth`** (`0` included): `external_edge_sorted` returns a strictly
    increasing list, which is a permutation of the result of `external_edge` -/
theorem external_edge_sorted_spec_all_delta (cfg : Cfg) (d dd : Nat) (hsum : d + dd ≤ 29) (hash : Nat)
    (hh : hash < 12 * 4 ^ d) :
    ∃ ls lu, externalEdge cfg d hash dd true = some ls ∧ externalEdge cfg d hash dd false = some lu ∧
      ls.Pairwise (· < ·) ∧ ls.Perm lu ∧ (∀ h', h' ∈ ls ↔ h' ∈ lu) ∧ ls.length = lu.length := by
  have hd : d ≤ 29 := by omega
  have hperm : (externalList d hash dd true).Perm (externalList d hash dd false) := by
    unfold externalList orderOf
    exact List.Perm.flatMap_right _ (sortEntries_perm _)
  refine ⟨_, _, external_edge_spec_all_delta cfg d dd hsum hash hh true,
    external_edge_spec_all_delta cfg d dd hsum hash hh false, ?_, hperm, fun h' => hperm.mem_iff, hperm.length_eq⟩
  unfold externalList
  rw [List.pairwise_flatMap]
  constructor
  · intro e _
    exact sideList_sorted e.2 dd _ (by omega)
  · have hs : (orderOf true (nbList d hash false)).Pairwise (fun a b => a.2 < b.2) :=
      sortEntries_strict _ (nbList_values_nodup d hd hash hh false)
    refine List.Pairwise.imp_of_mem ?_ hs
    intro a b ha hb hab x hx y hy
    rw [mem_orderOf] at ha hb
    obtain ⟨_, fa, _⟩ := fromD_spec d hd hash hh a.1 a.2 ha
    obtain ⟨_, fb, _⟩ := fromD_spec d hd hash hh b.1 b.2 hb
    have r1 := (sideList_range a.2 dd _ fa (by omega) x hx).2.2
    have r2 := (sideList_range b.2 dd _ fb (by omega) y hy).2.1
    have : (a.2 + 1) * 4 ^ dd ≤ b.2 * 4 ^ dd := Nat.mul_le_mul_right _ hab
    omega

/-- **C14, `external_edge_length` for every `delta_depth`** (`0` included): `4·2^dd` cells along the four sides plus one
    corner cell per cardinal neighbour: `4·2^dd + 4` in general, `+ 3` for the 24 cells with 7 neighbours, `+ 2` at depth 0
    (both orders); at `dd = 0` this is the number of neighbours `8`, `7`, `6` -/
theorem external_edge_length_all_delta (cfg : Cfg) (d dd : Nat) (hsum : d + dd ≤ 29) (hash : Nat)
    (hh : hash < 12 * 4 ^ d) (s : Bool) :
    ∃ l, externalEdge cfg d hash dd s = some l ∧
      l.length = 4 * 2 ^ dd + ((nbList d hash false).filter fun e => e.1.isCardinal).length ∧
      l.length = 4 * 2 ^ dd + (if d = 0 then 2 else if Special (2 ^ d) (partsOf d hash) then 3 else 4) := by
  have hd : d ≤ 29 := by omega
  have hp := partsOf_valid d hash hh
  refine ⟨_, external_edge_spec_all_delta cfg d dd hsum hash hh s, ?_⟩
  have hlen : (externalList d hash dd s).length = (externalList d hash dd false).length := by
    cases s
    · rfl
    · unfold externalList orderOf
      exact (List.Perm.flatMap_right _ (sortEntries_perm _)).length_eq
  have hf : (externalList d hash dd false).length =
      4 * 2 ^ dd + ((nbList d hash false).filter fun e => e.1.isCardinal).length := by
    unfold externalList orderOf
    simp only [Bool.false_eq_true, if_false]
    rw [List.length_flatMap]
    have : (nbList d hash false).map (fun e => (sideList e.2 dd (fromD d hash e.1)).length) =
        (nbList d hash false).map (fun e => if e.1.isCardinal = true then 1 else 2 ^ dd) := by
      apply List.map_congr_left
      rintro ⟨dir, hv⟩ hm
      exact ((external_edge_struct_spec_all_delta cfg d dd hsum hash hh).2 dir hv hm).1
    rw [this, sum_card, ordinal_count d hd hash hh]
    omega
  have hc : ((nbList d hash false).filter fun e => e.1.isCardinal).length + 4 = count (2 ^ d) (partsOf d hash) := by
    rw [← nbList_false_length, ← ordinal_count d hd hash hh]
    have := List.length_eq_length_filter_add (l := nbList d hash false) (fun e => e.1.isCardinal)
    omega
  refine ⟨by rw [hlen, hf], ?_⟩
  rw [hlen, hf]
  by_cases h0 : d = 0
  · subst h0
    rw [if_pos rfl]
    have : count (2 ^ 0) (partsOf 0 hash) = 6 := neighbours_count_one _ hp
    omega
  · rw [if_neg h0]
    have := neighbours_count (2 ^ d) _ (EdgeInternal.two_le_pow (by omega)) hp
    split <;> simp_all

/-! ## `delta_depth = 0`: the external edge is the list of the neighbours -/

theorem externalList_zero (d : Nat) (hd : d ≤ 29) (hash : Nat) (hh : hash < 12 * 4 ^ d) (s : Bool) :
    externalList d hash 0 s = (orderOf s (nbList d hash false)).map (·.2) := by
  unfold externalList
  rw [List.flatMap_def]
  have : (orderOf s (nbList d hash false)).map (fun e => sideList e.2 0 (fromD d hash e.1)) =
      (orderOf s (nbList d hash false)).map (fun e => [e.2]) := by
    apply List.map_congr_left
    rintro ⟨dir, hv⟩ hm
    rw [mem_orderOf] at hm
    obtain ⟨_, h2, _⟩ := fromD_spec d hd hash hh dir hv hm
    exact sideList_zero hv _ h2
  rw [this]
  generalize orderOf s (nbList d hash false) = L
  induction L with
  | nil => rfl
  | cons a L ih => simp only [List.map_cons, List.flatten_cons, ih, List.singleton_append]

/-- **C14, `external_edge_delta0`**: with `delta_depth = 0`, `external_edge` (`s = false`) and `external_edge_sorted`
    (`s = true`) do not panic and return the neighbours of `hash` (the values of `neighbours(hash)`: in `MainWind` index
    order for `s = false`, by increasing cell number for `s = true`).  Every depth `d ≤ 29`, every cell number of the
    depth, any build (debug or release, LUT or BMI). -/
theorem external_edge_delta0 (cfg : Cfg) (d : Nat) (hd : d ≤ 29) (hash : Nat) (hh : hash < 12 * 4 ^ d) (s : Bool) :
    externalEdge cfg d hash 0 s = some ((orderOf s (nbList d hash false)).map (·.2)) := by
  rw [external_edge_spec_all_delta cfg d 0 (by omega) hash hh s, externalList_zero d hd hash hh s]

/-- **C14, `external_edge_struct_delta0`**: with `delta_depth = 0`, `external_edge_struct` does not panic and files each
    neighbour `(dir, hv)` of `hash` under `dir`, as the one-element list `[hv]` (corner for a cardinal `dir`, edge for an
    ordinal `dir`) -/
theorem external_edge_struct_delta0 (cfg : Cfg) (d : Nat) (hd : d ≤ 29) (hash : Nat) (hh : hash < 12 * 4 ^ d) :
    externalEdgeStruct cfg d hash 0 = some ((nbList d hash false).map fun e => (e.1, [e.2])) := by
  rw [(external_edge_struct_spec_all_delta cfg d 0 (by omega) hash hh).1]
  refine congrArg some ?_
  apply List.map_congr_left
  rintro ⟨dir, hv⟩ hm
  obtain ⟨_, h2, _⟩ := fromD_spec d hd hash hh dir hv hm
  rw [sideList_zero hv _ h2]

/-- the same in terms of the model function `Layer::neighbours`: `external_edge(hash, 0)` is the list of the values of
    `neighbours(hash, false)` in the same (`MainWind` index) order, and `external_edge_struct(hash, 0)` is that map with
    every value wrapped in a one-element list -/
theorem external_edge_delta0_neighbours (cfg : Cfg) (d : Nat) (hd : d ≤ 29) (hash : Nat) (hh : hash < 12 * 4 ^ d) :
    ∃ l, Topo.neighbours cfg d hash false = some l ∧
      externalEdge cfg d hash 0 false = some (l.map (·.2)) ∧
      externalEdge cfg d hash 0 true = some ((sortEntries l).map (·.2)) ∧
      externalEdgeStruct cfg d hash 0 = some (l.map fun e => (e.1, [e.2])) :=
  ⟨_, neighbours_spec cfg d hd hash hh false, external_edge_delta0 cfg d hd hash hh false,
    external_edge_delta0 cfg d hd hash hh true, external_edge_struct_delta0 cfg d hd hash hh⟩

/-- no duplicates, both orders -/
theorem external_edge_delta0_nodup (cfg : Cfg) (d : Nat) (hd : d ≤ 29) (hash : Nat) (hh : hash < 12 * 4 ^ d) (s : Bool) :
    ∃ l, externalEdge cfg d hash 0 s = some l ∧ l.Nodup :=
  external_edge_nodup_all_delta cfg d 0 (by omega) hash hh s

/-- the sorted variant is strictly increasing and a permutation of the unsorted one -/
theorem external_edge_delta0_sorted (cfg : Cfg) (d : Nat) (hd : d ≤ 29) (hash : Nat) (hh : hash < 12 * 4 ^ d) :
    ∃ ls lu, externalEdge cfg d hash 0 true = some ls ∧ externalEdge cfg d hash 0 false = some lu ∧
      ls.Pairwise (· < ·) ∧ ls.Perm lu ∧ (∀ h', h' ∈ ls ↔ h' ∈ lu) ∧ ls.length = lu.length :=
  external_edge_sorted_spec_all_delta cfg d 0 (by omega) hash hh

/-- membership: `h'` is in `external_edge*(hash, 0)` iff it is a cell number of the depth, different from `hash`, whose
    cell shares a vertex with the cell `hash` as points of the sphere (`TopoSpec.Touch`), i.e. iff it is a neighbour -/
theorem external_edge_delta0_mem (cfg : Cfg) (d : Nat) (hd : d ≤ 29) (hash : Nat) (hh : hash < 12 * 4 ^ d) (s : Bool) :
    ∃ l, externalEdge cfg d hash 0 s = some l ∧ ∀ h', h' ∈ l ↔
      (h' < 12 * 4 ^ d ∧ h' ≠ hash ∧ Touch (2 ^ d) (partsOf d hash) (partsOf d h')) := by
  refine ⟨_, external_edge_delta0 cfg d hd hash hh s, ?_⟩
  intro h'
  have hns := neighbours_spec cfg d hd hash hh false
  have e : h' ∈ (orderOf s (nbList d hash false)).map (·.2) ↔ h' ∈ (nbList d hash false).map (·.2) := by
    simp only [List.mem_map, mem_orderOf]
  rw [e]
  constructor
  · intro hm
    have hlt := values_lt d hd hash hh false h' hm
    exact ⟨hlt, (neighbours_complete_hash cfg d hd hash hh _ hns h' hlt).1 hm⟩
  · rintro ⟨hlt, h2⟩
    exact (neighbours_complete_hash cfg d hd hash hh _ hns h' hlt).2 h2

/-- length = number of neighbours: 8, 7 for the 24 cells with 7 neighbours (`Special`, i.e. `hash ∈ specialHashes d`),
    6 at depth 0 (both orders) -/
theorem external_edge_delta0_length (cfg : Cfg) (d : Nat) (hd : d ≤ 29) (hash : Nat) (hh : hash < 12 * 4 ^ d) (s : Bool) :
    ∃ l, externalEdge cfg d hash 0 s = some l ∧
      l.length = (nbList d hash false).length ∧
      l.length = (if d = 0 then 6 else if Special (2 ^ d) (partsOf d hash) then 7 else 8) ∧
      (Special (2 ^ d) (partsOf d hash) ↔ hash ∈ specialHashes d) := by
  obtain ⟨l, hl, _, h2⟩ := external_edge_length_all_delta cfg d 0 (by omega) hash hh s
  refine ⟨l, hl, ?_, ?_, special_hash_iff d hd hash hh⟩
  · have e := external_edge_delta0 cfg d hd hash hh s
    rw [hl] at e
    rw [Option.some.inj e, List.length_map]
    cases s
    · rfl
    · exact (sortEntries_perm _).length_eq
  · rw [h2]
    by_cases h0 : d = 0
    · simp [h0]
    · simp only [h0, if_false]
      split <;> rfl

/-! ## tests by kernel evaluation and non-vacuity -/

/-- depth 1, cell 10 (one of the 24 cells with 7 neighbours) and depth 0, cell 3, in the four builds -/
example : externalEdge { debug := true, bmi := false } 1 10 0 false = some [25, 8, 9, 27, 11, 5, 7] ∧
    externalEdge { debug := false, bmi := true } 1 10 0 true = some [5, 7, 8, 9, 11, 25, 27] ∧
    (orderOf false (nbList 1 10 false)).map (·.2) = [25, 8, 9, 27, 11, 5, 7] ∧
    (orderOf true (nbList 1 10 false)).map (·.2) = [5, 7, 8, 9, 11, 25, 27] ∧
    externalEdge { debug := false, bmi := false } 0 3 0 false = some [11, 4, 7, 0, 2, 1] ∧
    externalEdge { debug := true, bmi := true } 0 3 0 true = some [0, 1, 2, 4, 7, 11] ∧
    (orderOf false (nbList 0 3 false)).map (·.2) = [11, 4, 7, 0, 2, 1] ∧
    externalEdgeStruct {} 1 10 0 = some [(S, [25]), (SE, [8]), (E, [9]), (SW, [27]), (NE, [11]), (NW, [5]), (N, [7])] ∧
    externalEdgeStruct {} 0 3 0 = some [(S, [11]), (SE, [4]), (SW, [7]), (NE, [0]), (NW, [2]), (N, [1])] := by
  decide +kernel

/-- **test**: `external_edge_delta0` and `external_edge_struct_delta0` evaluated on every cell of a depth -/
def chkDelta0 (cfg : Cfg) (d : Nat) : Bool :=
  (List.range (12 * 4 ^ d)).all fun h =>
    ([true, false].all fun s => externalEdge cfg d h 0 s == some ((orderOf s (nbList d h false)).map (·.2))) &&
    externalEdgeStruct cfg d h 0 == some ((nbList d h false).map fun e => (e.1, [e.2]))

/-- depths 0 and 1 by kernel evaluation; `#eval` confirms depths 2 and 3 in the four builds -/
example : chkDelta0 {} 0 = true ∧ chkDelta0 {} 1 = true ∧
    chkDelta0 { debug := false, bmi := true } 1 = true := by decide +kernel

/-- the three lengths: depth 0; a cell with 7 neighbours (depth 2, cell 5); an ordinary cell -/
example : (externalList 0 3 0 false).length = 6 ∧ (externalList 2 5 0 false).length = 7 ∧
    (externalList 2 6 0 true).length = 8 := by decide +kernel

/-- the hypotheses are satisfiable by a non-trivial value: the last cell of the deepest level -/
example : (29 : Nat) ≤ 29 ∧ 12 * 4 ^ 29 - 1 < 12 * 4 ^ 29 ∧ 29 + 0 ≤ 29 := by decide

end Hpx.EdgeExternal

#print axioms Hpx.EdgeExternal.side_eval_all
#print axioms Hpx.EdgeExternal.external_edge_spec_all_delta
#print axioms Hpx.EdgeExternal.external_edge_struct_spec_all_delta
#print axioms Hpx.EdgeExternal.external_edge_set_all_delta
#print axioms Hpx.EdgeExternal.external_edge_nodup_all_delta
#print axioms Hpx.EdgeExternal.external_edge_sorted_spec_all_delta
#print axioms Hpx.EdgeExternal.external_edge_length_all_delta
#print axioms Hpx.EdgeExternal.external_edge_delta0
#print axioms Hpx.EdgeExternal.external_edge_struct_delta0
#print axioms Hpx.EdgeExternal.external_edge_delta0_neighbours
#print axioms Hpx.EdgeExternal.external_edge_delta0_nodup
#print axioms Hpx.EdgeExternal.external_edge_delta0_sorted
#print axioms Hpx.EdgeExternal.external_edge_delta0_mem
#print axioms Hpx.EdgeExternal.external_edge_delta0_length
