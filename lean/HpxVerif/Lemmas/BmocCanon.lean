/-
Packed plain MOCs are canonical: structural equality = set equality (C07, C15).

Main results (all in namespace `Hpx.Bmoc`):
* `moc_canonical`      : two canonical lists with the same state function on the sphere are equal;
* `mem_canonical_iff`  : the cells of a canonical list are exactly the maximal entirely-full cells;
* `and_canonical`, `not_canonical` (depth ≤ 29): `and` / `not` preserve canonicity (the code does not call `pack` there);
* `and_comm_canonical`, `and_assoc_canonical`, `and_self_canonical`, `not_not_canonical`: list equalities;
* `noFourFull_of_positional` / `positional_of_noFourFull`: link with the form of `pack_no_four_full`;
* `pack_canonical`, `pack_cells_canonical`, `pack_eq_of_same_set`: the output of `pack` is the canonical representative;
* `bmoc_canonical`, `bmoc_canonical_valid`, `bmoc_not_not`, `bmoc_and_comm`: the same for raw `BMOC`s.
-/
import HpxVerif.Lemmas.BmocPack
import HpxVerif.Lemmas.BmocAnd
import HpxVerif.Lemmas.BmocNot
import Mathlib.Tactic.Ring

namespace Hpx.Bmoc.Canon
end Hpx.Bmoc.Canon

namespace Hpx.Bmoc
open Canon

/-- no four full siblings (cells `4m, 4m+1, 4m+2, 4m+3` of one depth `> 0`, all full) belong to the list -/
def NoFourFull (l : List Cell) : Prop :=
  ∀ d h, 0 < d → h % 4 = 0 →
    (⟨d, h, true⟩ : Cell) ∈ l → (⟨d, h + 1, true⟩ : Cell) ∈ l → (⟨d, h + 2, true⟩ : Cell) ∈ l →
    (⟨d, h + 3, true⟩ : Cell) ∈ l → False

/-- a packed plain MOC: sorted disjoint cells of depth `≤ D`, in range, all full, no four full siblings -/
def Canonical (D : Nat) (l : List Cell) : Prop :=
  WF D l ∧ (∀ c ∈ l, InR c) ∧ (∀ c ∈ l, c.full = true) ∧ NoFourFull l

/-! ## generalities on well-formed lists -/

theorem Canon.hi_eq_lo_add (D : Nat) (c : Cell) : hi D c = lo D c + 4 ^ (D - c.depth) := by
  unfold hi lo; rw [Nat.add_mul]; omega

theorem Canon.stOf_of_mem {D : Nat} {l : List Cell} (hw : WF D l) {c : Cell} (hc : c ∈ l) {x : Nat}
    (h1 : lo D c ≤ x) (h2 : x < hi D c) : stOf D l x = Tri.ofFlag c.full := by
  induction l with
  | nil => simp at hc
  | cons a l ih =>
    rw [stOf_cons]
    rcases List.mem_cons.1 hc with rfl | hm
    · simp [h1, h2]
    · have := hw.2.1 c hm
      have hn : ¬ (lo D a ≤ x ∧ x < hi D a) := by omega
      simp only [hn, if_false]
      exact ih hw.tail hm

theorem Canon.exists_cover_of_ne_abs {D : Nat} {l : List Cell} {x : Nat} (h : stOf D l x ≠ .abs) :
    ∃ c ∈ l, lo D c ≤ x ∧ x < hi D c := by
  induction l with
  | nil => exact absurd rfl h
  | cons a l ih =>
    rw [stOf_cons] at h
    by_cases hc : lo D a ≤ x ∧ x < hi D a
    · exact ⟨a, by simp, hc⟩
    · simp only [hc, if_false] at h
      obtain ⟨c, hm, h1⟩ := ih h
      exact ⟨c, by simp [hm], h1⟩

/-- two members of a well-formed list whose intervals overlap are the same cell -/
theorem Canon.wf_eq_of_overlap {D : Nat} {l : List Cell} (hw : WF D l) {c1 c2 : Cell} (h1 : c1 ∈ l) (h2 : c2 ∈ l)
    (o1 : lo D c1 < hi D c2) (o2 : lo D c2 < hi D c1) : c1 = c2 := by
  induction l with
  | nil => simp at h1
  | cons a l ih =>
    rcases List.mem_cons.1 h1 with rfl | m1 <;> rcases List.mem_cons.1 h2 with rfl | m2
    · rfl
    · have := hw.2.1 c2 m2; omega
    · have := hw.2.1 c1 m1; omega
    · exact ih hw.tail m1 m2

/-- two well-formed lists with the same members are equal -/
theorem Canon.wf_ext {D : Nat} : ∀ {a b : List Cell}, WF D a → WF D b → (∀ c, c ∈ a ↔ c ∈ b) → a = b := by
  intro a
  induction a with
  | nil =>
    intro b _ _ h
    cases b with
    | nil => rfl
    | cons cb rb => exact absurd ((h cb).2 (by simp)) (by simp)
  | cons ca ra ih =>
    intro b ha hb h
    cases b with
    | nil => exact absurd ((h ca).1 (by simp)) (by simp)
    | cons cb rb =>
      have e : ca = cb := by
        by_contra hne
        have m1 : ca ∈ rb := by
          rcases List.mem_cons.1 ((h ca).1 (by simp)) with h' | h'
          · exact absurd h' hne
          · exact h'
        have m2 : cb ∈ ra := by
          rcases List.mem_cons.1 ((h cb).2 (by simp)) with h' | h'
          · exact absurd h'.symm hne
          · exact h'
        have := hb.2.1 ca m1
        have := ha.2.1 cb m2
        have := lo_lt_hi D ca
        have := lo_lt_hi D cb
        omega
      subst e
      congr 1
      apply ih ha.tail hb.tail
      intro c
      constructor
      · intro hc
        rcases List.mem_cons.1 ((h c).1 (by simp [hc])) with h' | h'
        · subst h'
          have := ha.2.1 c hc
          have := lo_lt_hi D c
          omega
        · exact h'
      · intro hc
        rcases List.mem_cons.1 ((h c).2 (by simp [hc])) with h' | h'
        · subst h'
          have := hb.2.1 c hc
          have := lo_lt_hi D c
          omega
        · exact h'

/-- a cell of depth `≤ D` is determined by its interval -/
theorem Canon.cell_eq_of_interval {D : Nat} {c1 c2 : Cell} (d1 : c1.depth ≤ D) (d2 : c2.depth ≤ D)
    (hl : lo D c1 = lo D c2) (hh : hi D c1 = hi D c2) (hf : c1.full = c2.full) : c1 = c2 := by
  have e1 := hi_eq_lo_add D c1
  have e2 := hi_eq_lo_add D c2
  have hp : 4 ^ (D - c1.depth) = 4 ^ (D - c2.depth) := by omega
  have hd : D - c1.depth = D - c2.depth := Nat.pow_right_injective (by decide : 2 ≤ 4) hp
  have hdd : c1.depth = c2.depth := by omega
  have hp0 : 0 < 4 ^ (D - c2.depth) := Nat.pow_pos (by decide)
  have hhash : c1.hash = c2.hash := by
    unfold lo at hl
    rw [hp] at hl
    exact Nat.eq_of_mul_eq_mul_right hp0 hl
  cases c1; cases c2; simp_all

/-! ## the core lemma: an aligned block that is entirely full lies inside one cell of a canonical list -/

/-- a cell containing an aligned block of `4^n` positions is not deeper than the block -/
theorem Canon.depth_le_of_contains {D n : Nat} {c : Cell} (hcD : c.depth ≤ D) (hn : n ≤ D) {A : Nat}
    (h1 : lo D c ≤ A * 4 ^ n) (h2 : (A + 1) * 4 ^ n ≤ hi D c) : c.depth ≤ D - n := by
  by_contra hcon
  have hlt : D - c.depth < n := by omega
  have : 4 ^ (D - c.depth) < 4 ^ n := Nat.pow_lt_pow_right (by decide) hlt
  have e := hi_eq_lo_add D c
  rw [Nat.add_mul] at h2
  omega

/-- a cell of depth `≤ d` containing one child block of the block `(d, h)` contains the whole block -/
theorem Canon.contains_parent {D n d : Nat} {c : Cell} (hD : d + (n + 1) = D) (hcd : c.depth ≤ d) {h k : Nat} (hk : k < 4)
    (h1 : lo D c ≤ (4 * h + k) * 4 ^ n) (h2 : (4 * h + k + 1) * 4 ^ n ≤ hi D c) :
    lo D c ≤ h * 4 ^ (n + 1) ∧ (h + 1) * 4 ^ (n + 1) ≤ hi D c := by
  have hp : 0 < 4 ^ n := Nat.pow_pos (by decide)
  have e : 4 ^ (D - c.depth) = 4 ^ (d - c.depth) * 4 * 4 ^ n := by
    rw [show D - c.depth = (d - c.depth) + 1 + n by omega, Nat.pow_add, Nat.pow_add, Nat.pow_one]
  have l1 : lo D c = (c.hash * 4 ^ (d - c.depth) * 4) * 4 ^ n := by unfold lo; rw [e]; ring
  have l2 : hi D c = ((c.hash * 4 ^ (d - c.depth) + 4 ^ (d - c.depth)) * 4) * 4 ^ n := by unfold hi; rw [e]; ring
  rw [l1] at h1 ⊢
  rw [l2] at h2 ⊢
  have g1 := Nat.le_of_mul_le_mul_right h1 hp
  have g2 := Nat.le_of_mul_le_mul_right h2 hp
  have e1 : h * 4 ^ (n + 1) = (h * 4) * 4 ^ n := by rw [Nat.pow_succ]; ring
  have e2 : (h + 1) * 4 ^ (n + 1) = ((h + 1) * 4) * 4 ^ n := by rw [Nat.pow_succ]; ring
  rw [e1, e2]
  constructor
  · apply Nat.mul_le_mul_right; omega
  · apply Nat.mul_le_mul_right; omega

theorem Canon.full_inside_aux {D : Nat} {l : List Cell} (hw : WF D l) (hf : ∀ c ∈ l, c.full = true) (hn : NoFourFull l) :
    ∀ n d h, d + n = D → (∀ x, h * 4 ^ n ≤ x → x < (h + 1) * 4 ^ n → stOf D l x = .full) →
      ∃ c ∈ l, lo D c ≤ h * 4 ^ n ∧ (h + 1) * 4 ^ n ≤ hi D c := by
  intro n
  induction n with
  | zero =>
    intro d h _ hx
    have := hx h (by simp) (by simp)
    obtain ⟨c, hc, c1, c2⟩ := exists_cover_of_ne_abs (D := D) (l := l) (x := h) (by rw [this]; decide)
    exact ⟨c, hc, by simpa using c1, by simp; omega⟩
  | succ n ih =>
    intro d h hD hx
    have hp : 0 < 4 ^ n := Nat.pow_pos (by decide)
    have hps : 4 ^ (n + 1) = 4 * 4 ^ n := by rw [Nat.pow_succ]; omega
    -- each child block lies inside a cell of `l`
    have child : ∀ k, k < 4 → ∃ c ∈ l, lo D c ≤ (4 * h + k) * 4 ^ n ∧ (4 * h + k + 1) * 4 ^ n ≤ hi D c := by
      intro k hk
      apply ih (d + 1) (4 * h + k) (by omega)
      intro x x1 x2
      apply hx x
      · rw [hps]
        calc h * (4 * 4 ^ n) = (4 * h) * 4 ^ n := by ring
          _ ≤ (4 * h + k) * 4 ^ n := Nat.mul_le_mul_right _ (by omega)
          _ ≤ x := x1
      · rw [hps]
        calc x < (4 * h + k + 1) * 4 ^ n := x2
          _ ≤ (4 * h + 4) * 4 ^ n := Nat.mul_le_mul_right _ (by omega)
          _ = (h + 1) * (4 * 4 ^ n) := by ring
    by_cases hex : ∃ k, k < 4 ∧ ∃ c ∈ l, c.depth ≤ d ∧ lo D c ≤ (4 * h + k) * 4 ^ n ∧ (4 * h + k + 1) * 4 ^ n ≤ hi D c
    · obtain ⟨k, hk, c, hc, hcd, c1, c2⟩ := hex
      exact ⟨c, hc, contains_parent hD hcd hk c1 c2⟩
    · exfalso
      -- every child block is itself a cell of `l`
      have isCell : ∀ k, k < 4 → (⟨d + 1, 4 * h + k, true⟩ : Cell) ∈ l := by
        intro k hk
        obtain ⟨c, hc, c1, c2⟩ := child k hk
        have hcD := hw.depth_le c hc
        have hle := depth_le_of_contains hcD (by omega) c1 c2
        have hgt : ¬ c.depth ≤ d := fun hcd => hex ⟨k, hk, c, hc, hcd, c1, c2⟩
        have hdep : c.depth = d + 1 := by omega
        have hDn : D - c.depth = n := by omega
        unfold lo at c1; unfold hi at c2
        rw [hDn] at c1 c2
        have g1 := Nat.le_of_mul_le_mul_right c1 hp
        have g2 := Nat.le_of_mul_le_mul_right c2 hp
        have hh : c.hash = 4 * h + k := by omega
        have hfl := hf c hc
        have : c = ⟨d + 1, 4 * h + k, true⟩ := by cases c; simp_all
        rw [← this]; exact hc
      exact hn (d + 1) (4 * h) (by omega) (by omega) (isCell 0 (by omega)) (isCell 1 (by omega)) (isCell 2 (by omega))
        (isCell 3 (by omega))

/-- every point of the interval of `s` is full in `l` -/
def FullOn (D : Nat) (l : List Cell) (s : Cell) : Prop := ∀ x, lo D s ≤ x → x < hi D s → stOf D l x = .full

/-- **core lemma**: in a well-formed list of full cells without four full siblings, a cell whose interval is entirely full
    lies inside one cell of the list -/
theorem full_inside {D : Nat} {l : List Cell} (hw : WF D l) (hf : ∀ c ∈ l, c.full = true) (hn : NoFourFull l)
    {s : Cell} (hs : s.depth ≤ D) (hfull : FullOn D l s) : InsideSome D s l :=
  full_inside_aux hw hf hn (D - s.depth) s.depth s.hash (by omega) hfull

theorem fullOn_of_inside {D : Nat} {l : List Cell} (hw : WF D l) (hf : ∀ c ∈ l, c.full = true) {s : Cell}
    (h : InsideSome D s l) : FullOn D l s := by
  obtain ⟨c, hc, h1, h2⟩ := h
  intro x x1 x2
  rw [stOf_of_mem hw hc (by omega) (by omega), hf c hc]; rfl

/-! ## canonicity -/

theorem Canon.hi_le_of_inR {D : Nat} {c : Cell} (hd : c.depth ≤ D) (hr : InR c) : hi D c ≤ 12 * 4 ^ D := by
  unfold hi
  unfold InR at hr
  have e : 4 ^ D = 4 ^ c.depth * 4 ^ (D - c.depth) := by rw [← Nat.pow_add]; congr 1; omega
  rw [e, ← Nat.mul_assoc]
  exact Nat.mul_le_mul_right _ hr

theorem Canon.insideSome_self {D : Nat} {c : Cell} {l : List Cell} (h : c ∈ l) : InsideSome D c l :=
  ⟨c, h, Nat.le_refl _, Nat.le_refl _⟩

theorem Canon.canonical_subset {D : Nat} {a b : List Cell} (ha : Canonical D a) (hb : Canonical D b)
    (h : ∀ x, x < 12 * 4 ^ D → stOf D a x = stOf D b x) : ∀ c ∈ a, c ∈ b := by
  obtain ⟨wa, ra, fa, na⟩ := ha
  obtain ⟨wb, rb, fb, nb⟩ := hb
  intro c hc
  have hcD := wa.depth_le c hc
  have hcR := hi_le_of_inR hcD (ra c hc)
  have f1 : FullOn D b c := by
    intro x x1 x2
    rw [← h x (by omega)]
    exact fullOn_of_inside wa fa (insideSome_self hc) x x1 x2
  obtain ⟨c', hc', i1, i2⟩ := full_inside wb fb nb hcD f1
  have hc'D := wb.depth_le c' hc'
  have hc'R := hi_le_of_inR hc'D (rb c' hc')
  have f2 : FullOn D a c' := by
    intro x x1 x2
    rw [h x (by omega)]
    exact fullOn_of_inside wb fb (insideSome_self hc') x x1 x2
  obtain ⟨c'', hc'', j1, j2⟩ := full_inside wa fa na hc'D f2
  have := lo_lt_hi D c
  have e : c'' = c := wf_eq_of_overlap wa hc'' hc (by omega) (by omega)
  subst e
  have : c' = c'' := cell_eq_of_interval hc'D hcD (by omega) (by omega) (by rw [fa c'' hc, fb c' hc'])
  rw [← this]; exact hc'

/-- **packed plain MOCs are canonical**: two canonical lists denoting the same set of cells of the sphere are equal -/
theorem moc_canonical {D : Nat} {a b : List Cell} (ha : Canonical D a) (hb : Canonical D b)
    (h : ∀ x, x < 12 * 4 ^ D → stOf D a x = stOf D b x) : a = b :=
  wf_ext ha.1 hb.1 (fun c => ⟨canonical_subset ha hb h c, canonical_subset hb ha (fun x hx => (h x hx).symm) c⟩)

/-! ## four siblings and their parent -/

/-- the intervals of four siblings, in terms of `B = lo` of the first and the width `W` -/
theorem Canon.sibling_bounds (D d h : Nat) (f0 f1 f2 f3 : Bool) :
    let W := 4 ^ (D - d)
    let B := lo D ⟨d, h, f0⟩
    hi D ⟨d, h, f0⟩ = B + W ∧ lo D ⟨d, h + 1, f1⟩ = B + W ∧ hi D ⟨d, h + 1, f1⟩ = B + 2 * W ∧
    lo D ⟨d, h + 2, f2⟩ = B + 2 * W ∧ hi D ⟨d, h + 2, f2⟩ = B + 3 * W ∧
    lo D ⟨d, h + 3, f3⟩ = B + 3 * W ∧ hi D ⟨d, h + 3, f3⟩ = B + 4 * W ∧ 0 < W := by
  intro W B
  have hW : 0 < W := Nat.pow_pos (by decide)
  refine ⟨?_, ?_, ?_, ?_, ?_, ?_, ?_, hW⟩ <;> (simp only [B, W, lo, hi]; ring)

/-- if four siblings are entirely full, so is their parent -/
theorem fullOn_parent {D : Nat} {l : List Cell} {d h : Nat} (hd : 0 < d) (hdD : d ≤ D) (h4 : h % 4 = 0)
    (f0 : FullOn D l ⟨d, h, true⟩) (f1 : FullOn D l ⟨d, h + 1, true⟩) (f2 : FullOn D l ⟨d, h + 2, true⟩)
    (f3 : FullOn D l ⟨d, h + 3, true⟩) : FullOn D l ⟨d - 1, h / 4, true⟩ := by
  obtain ⟨p1, p2⟩ := parent_bounds D d h hd hdD h4
  obtain ⟨s0, s1, s2, s3, s4, s5, s6, hW⟩ := sibling_bounds D d h true true true true
  intro x x1 x2
  rw [p1] at x1
  rw [p2] at x2
  by_cases c0 : x < hi D ⟨d, h, true⟩
  · exact f0 x x1 c0
  · by_cases c1 : x < hi D ⟨d, h + 1, true⟩
    · exact f1 x (by omega) c1
    · by_cases c2 : x < hi D ⟨d, h + 2, true⟩
      · exact f2 x (by omega) c2
      · exact f3 x (by omega) x2

/-! ## `and` of canonical MOCs is canonical -/

/-- every cell produced by `and` has the depth and number of a cell of one of the operands -/
theorem Canon.and_mem_src (a b : List Cell) : ∀ c ∈ andCells a b,
    (∃ c' ∈ a, c'.depth = c.depth ∧ c'.hash = c.hash) ∨ (∃ c' ∈ b, c'.depth = c.depth ∧ c'.hash = c.hash) := by
  fun_induction andCells a b with
  | case1 => intro c hc; simp at hc
  | case2 => intro c hc; simp at hc
  | case3 l ls r rs _ _ _ ih =>
    intro c hc
    rcases ih c hc with ⟨c', m, e⟩ | h
    · exact Or.inl ⟨c', by simp [m], e⟩
    · exact Or.inr h
  | case4 l ls r rs _ _ _ _ ih =>
    intro c hc
    rcases ih c hc with h | ⟨c', m, e⟩
    · exact Or.inl h
    · exact Or.inr ⟨c', by simp [m], e⟩
  | case5 l ls r rs _ _ _ _ ih =>
    intro c hc
    rcases List.mem_cons.1 hc with rfl | hc
    · exact Or.inr ⟨r, by simp, rfl, rfl⟩
    · rcases ih c hc with h | ⟨c', m, e⟩
      · exact Or.inl h
      · exact Or.inr ⟨c', by simp [m], e⟩
  | case6 l ls r rs _ _ _ _ ih =>
    intro c hc
    rcases ih c hc with ⟨c', m, e⟩ | h
    · exact Or.inl ⟨c', by simp [m], e⟩
    · exact Or.inr h
  | case7 l ls r rs _ _ _ _ _ ih =>
    intro c hc
    rcases ih c hc with h | ⟨c', m, e⟩
    · exact Or.inl h
    · exact Or.inr ⟨c', by simp [m], e⟩
  | case8 l ls r rs _ _ _ _ _ ih =>
    intro c hc
    rcases List.mem_cons.1 hc with rfl | hc
    · exact Or.inl ⟨l, by simp, rfl, rfl⟩
    · rcases ih c hc with ⟨c', m, e⟩ | h
      · exact Or.inl ⟨c', by simp [m], e⟩
      · exact Or.inr h
  | case9 l ls r rs _ _ _ ih =>
    intro c hc
    rcases ih c hc with ⟨c', m, e⟩ | h
    · exact Or.inl ⟨c', by simp [m], e⟩
    · exact Or.inr h
  | case10 l ls r rs _ _ _ _ ih =>
    intro c hc
    rcases ih c hc with h | ⟨c', m, e⟩
    · exact Or.inl h
    · exact Or.inr ⟨c', by simp [m], e⟩
  | case11 l ls r rs _ _ _ _ ih =>
    intro c hc
    rcases List.mem_cons.1 hc with rfl | hc
    · exact Or.inl ⟨l, by simp, rfl, rfl⟩
    · rcases ih c hc with ⟨c', m, e⟩ | ⟨c', m, e⟩
      · exact Or.inl ⟨c', by simp [m], e⟩
      · exact Or.inr ⟨c', by simp [m], e⟩

/-- a canonical list cannot contain a cell `⟨d, h, true⟩` (`d > 0`, `h % 4 = 0`) when the whole parent is full -/
theorem Canon.no_first_sibling_of_parent_full {D : Nat} {l : List Cell} (hc : Canonical D l) {d h : Nat} (hd : 0 < d)
    (h4 : h % 4 = 0) (hm : ∃ c' ∈ l, c'.depth = d ∧ c'.hash = h)
    (hp : FullOn D l ⟨d - 1, h / 4, true⟩) : False := by
  obtain ⟨w, _, f, n⟩ := hc
  obtain ⟨c', m, e1, e2⟩ := hm
  have hdD : d ≤ D := e1 ▸ w.depth_le c' m
  have e : c' = ⟨d, h, true⟩ := by
    have := f c' m
    cases c'; simp_all
  subst e
  obtain ⟨cp, mp, i1, i2⟩ := full_inside w f n (s := ⟨d - 1, h / 4, true⟩) (by show d - 1 ≤ D; omega) hp
  obtain ⟨p1, p2⟩ := parent_bounds D d h hd hdD h4
  obtain ⟨s0, s1, s2, s3, s4, s5, s6, hW⟩ := sibling_bounds D d h true true true true
  have : cp = ⟨d, h, true⟩ := wf_eq_of_overlap w mp m (by omega) (by omega)
  subst this
  omega

theorem and_canonical {D : Nat} {a b : List Cell} (ha : Canonical D a) (hb : Canonical D b) :
    Canonical D (andCells a b) := by
  have ha' := ha
  have hb' := hb
  obtain ⟨wa, ra, fa, na⟩ := ha
  obtain ⟨wb, rb, fb, nb⟩ := hb
  obtain ⟨w, ins⟩ := and_wf_inside D a b wa wb
  have hfull : ∀ c ∈ andCells a b, c.full = true := by
    intro c hc
    have h1 := stOf_of_mem w hc (Nat.le_refl _) (lo_lt_hi D c)
    rw [and_sem D a b wa wb, fullOn_of_inside wa fa (ins c hc).1 _ (Nat.le_refl _) (lo_lt_hi D c),
      fullOn_of_inside wb fb (ins c hc).2 _ (Nat.le_refl _) (lo_lt_hi D c)] at h1
    cases hf : c.full
    · rw [hf] at h1; exact absurd h1 (by decide)
    · rfl
  refine ⟨w, ?_, hfull, ?_⟩
  · intro c hc
    obtain ⟨c', m, _, i2⟩ := (ins c hc).1
    have := hi_le_of_inR (wa.depth_le c' m) (ra c' m)
    exact inR_of_hi D c (w.depth_le c hc) (by omega)
  · intro d h hd h4 m0 m1 m2 m3
    have hdD : d ≤ D := w.depth_le _ m0
    have pa : FullOn D a ⟨d - 1, h / 4, true⟩ :=
      fullOn_parent hd hdD h4 (fullOn_of_inside wa fa (ins _ m0).1) (fullOn_of_inside wa fa (ins _ m1).1)
        (fullOn_of_inside wa fa (ins _ m2).1) (fullOn_of_inside wa fa (ins _ m3).1)
    have pb : FullOn D b ⟨d - 1, h / 4, true⟩ :=
      fullOn_parent hd hdD h4 (fullOn_of_inside wb fb (ins _ m0).2) (fullOn_of_inside wb fb (ins _ m1).2)
        (fullOn_of_inside wb fb (ins _ m2).2) (fullOn_of_inside wb fb (ins _ m3).2)
    rcases and_mem_src a b _ m0 with hm | hm
    · exact no_first_sibling_of_parent_full ha' hd h4 hm pa
    · exact no_first_sibling_of_parent_full hb' hd h4 hm pb

/-- **`and` is commutative on canonical MOCs, as an equality of lists** -/
theorem and_comm_canonical {D : Nat} {a b : List Cell} (ha : Canonical D a) (hb : Canonical D b) :
    andCells a b = andCells b a := by
  apply moc_canonical (and_canonical ha hb) (and_canonical hb ha)
  intro x _
  rw [and_sem D a b ha.1 hb.1, and_sem D b a hb.1 ha.1]
  cases stOf D a x <;> cases stOf D b x <;> rfl

/-- `and` is idempotent on canonical MOCs, as an equality of lists -/
theorem and_self_canonical {D : Nat} {a : List Cell} (ha : Canonical D a) : andCells a a = a := by
  apply moc_canonical (and_canonical ha ha) ha
  intro x _
  rw [and_sem D a a ha.1 ha.1]
  cases stOf D a x <;> rfl

/-- `and` is associative on canonical MOCs, as an equality of lists -/
theorem and_assoc_canonical {D : Nat} {a b c : List Cell} (ha : Canonical D a) (hb : Canonical D b) (hc : Canonical D c) :
    andCells (andCells a b) c = andCells a (andCells b c) := by
  have hab := and_canonical ha hb
  have hbc := and_canonical hb hc
  apply moc_canonical (and_canonical hab hc) (and_canonical ha hbc)
  intro x _
  rw [and_sem D _ c hab.1 hc.1, and_sem D a b ha.1 hb.1, and_sem D a _ ha.1 hbc.1, and_sem D b c hb.1 hc.1]
  cases stOf D a x <;> cases stOf D b x <;> cases stOf D c x <;> rfl

/-! ## `NoFourFull` and the positional form used by `pack_no_four_full` -/

theorem Canon.WF_append_inv {D : Nat} {l1 l2 : List Cell} (h : WF D (l1 ++ l2)) :
    WF D l2 ∧ ∀ x ∈ l1, ∀ y ∈ l2, hi D x ≤ lo D y := by
  induction l1 with
  | nil => exact ⟨h, fun x hx => by simp at hx⟩
  | cons a l ih =>
    obtain ⟨i1, i2⟩ := ih h.tail
    refine ⟨i1, ?_⟩
    intro x hx y hy
    rcases List.mem_cons.1 hx with rfl | hx
    · exact h.2.1 y (by simp [hy])
    · exact i2 x hx y hy

/-- in a well-formed list a cell that starts where the head ends is the second element -/
theorem Canon.wf_head_of_adjacent {D : Nat} {c1 c2 : Cell} {t : List Cell} (hw : WF D (c1 :: t)) (hm : c2 ∈ t)
    (hadj : hi D c1 = lo D c2) : ∃ t', t = c2 :: t' := by
  cases t with
  | nil => simp at hm
  | cons p t' =>
    rcases List.mem_cons.1 hm with rfl | hm'
    · exact ⟨t', rfl⟩
    · exfalso
      have := hw.tail.2.1 c2 hm'
      have := hw.2.1 p (by simp)
      have := lo_lt_hi D p
      omega

/-- the positional form (no four consecutive full siblings anywhere) implies the membership form, for well-formed lists -/
theorem noFourFull_of_positional {D : Nat} {l : List Cell} (hw : WF D l)
    (h : ∀ (pre rest : List Cell) (d h : Nat), 0 < d → h % 4 = 0 →
      l ≠ pre ++ ⟨d, h, true⟩ :: ⟨d, h + 1, true⟩ :: ⟨d, h + 2, true⟩ :: ⟨d, h + 3, true⟩ :: rest) : NoFourFull l := by
  intro d hh hd h4 m0 m1 m2 m3
  obtain ⟨s0, s1, s2, s3, s4, s5, s6, hW⟩ := sibling_bounds D d hh true true true true
  obtain ⟨pre, post0, rfl⟩ := List.append_of_mem m0
  obtain ⟨w0, b0⟩ := WF_append_inv hw
  have tail_mem : ∀ c, c ∈ pre ++ ⟨d, hh, true⟩ :: post0 → lo D ⟨d, hh, true⟩ < lo D c → c ∈ post0 := by
    intro c hc hlt
    rcases List.mem_append.1 hc with hc | hc
    · have := b0 c hc ⟨d, hh, true⟩ (by simp)
      have := lo_lt_hi D c
      omega
    · rcases List.mem_cons.1 hc with rfl | hc
      · omega
      · exact hc
  have n1 := tail_mem _ m1 (by omega)
  have n2 := tail_mem _ m2 (by omega)
  have n3 := tail_mem _ m3 (by omega)
  obtain ⟨t1, rfl⟩ := wf_head_of_adjacent w0 n1 (by omega)
  have w1 := w0.tail
  have k2 : (⟨d, hh + 2, true⟩ : Cell) ∈ t1 := by
    rcases List.mem_cons.1 n2 with e | e
    · exact absurd (congrArg (lo D) e) (by omega)
    · exact e
  have k3 : (⟨d, hh + 3, true⟩ : Cell) ∈ t1 := by
    rcases List.mem_cons.1 n3 with e | e
    · exact absurd (congrArg (lo D) e) (by omega)
    · exact e
  obtain ⟨t2, rfl⟩ := wf_head_of_adjacent w1 k2 (by omega)
  have w2 := w1.tail
  have j3 : (⟨d, hh + 3, true⟩ : Cell) ∈ t2 := by
    rcases List.mem_cons.1 k3 with e | e
    · exact absurd (congrArg (lo D) e) (by omega)
    · exact e
  obtain ⟨t3, rfl⟩ := wf_head_of_adjacent w2 j3 (by omega)
  exact h pre t3 d hh hd h4 rfl

/-- the membership form implies the positional form -/
theorem positional_of_noFourFull {l : List Cell} (hn : NoFourFull l) (pre rest : List Cell) (d h : Nat) (hd : 0 < d)
    (h4 : h % 4 = 0) :
    l ≠ pre ++ ⟨d, h, true⟩ :: ⟨d, h + 1, true⟩ :: ⟨d, h + 2, true⟩ :: ⟨d, h + 3, true⟩ :: rest := by
  intro e
  subst e
  exact hn d h hd h4 (by simp) (by simp) (by simp) (by simp)

/-! ## the output of `pack` on a plain MOC is canonical -/

theorem Canon.stOf_abs_or_full {D : Nat} {l : List Cell} (h : ∀ c ∈ l, c.full = true) (x : Nat) :
    stOf D l x = .abs ∨ stOf D l x = .full := by
  induction l with
  | nil => left; rfl
  | cons c l ih =>
    simp only [stOf]
    split
    · right; simp [Tri.ofFlag, h c (by simp)]
    · exact ih (fun c' hc' => h c' (by simp [hc']))

private theorem packPass_length_le (dm : Nat) (l : List Nat) : (packPass dm l).length ≤ l.length := by
  fun_induction packPass dm l with
  | case1 => simp
  | case2 c rest d h hc ih => simp only [List.length_cons]; omega
  | case3 c rest d h hc hs ih =>
    simp only [List.length_cons, List.length_drop] at ih ⊢; omega
  | case4 c rest d h hc hs ih => simp only [List.length_cons]; omega

private theorem packPass_eq_of_length (dm : Nat) (l : List Nat) (h : (packPass dm l).length = l.length) :
    packPass dm l = l := by
  fun_induction packPass dm l with
  | case1 => rfl
  | case2 c rest d hh hc ih =>
    simp only [List.length_cons] at h
    rw [ih (by omega)]
  | case3 c rest d hh hc hs ih =>
    have := packPass_length_le dm (List.drop 3 rest)
    simp only [List.length_cons, List.length_drop] at h this
    have hr : 3 ≤ rest.length := by
      match rest, hs with
      | _ :: _ :: _ :: _, _ => simp
    omega
  | case4 c rest d hh hc hs ih =>
    simp only [List.length_cons] at h
    rw [ih (by omega)]

private theorem packFuel_fixpoint (dm : Nat) (fuel : Nat) (l : List Nat) (hf : l.length < fuel) :
    (packPass dm (packFuel dm fuel l)).length = (packFuel dm fuel l).length := by
  induction fuel generalizing l with
  | zero => omega
  | succ f ih =>
    simp only [packFuel]
    split
    · rename_i heq
      have : packPass dm l = l := packPass_eq_of_length dm l (by simpa using heq)
      rw [this, this]
    · rename_i hne
      have hle := packPass_length_le dm l
      have : (packPass dm l).length < l.length := by
        simp only [beq_iff_eq] at hne; omega
      exact ih _ (by omega)

/-- `pack` returns a fixed point of the compaction pass (same statement as `Hpx.C15.pack_fixpoint`) -/
theorem pack_fixpoint_pass (dm : Nat) (l : List Nat) : packPass dm (pack dm l) = pack dm l :=
  packPass_eq_of_length dm _ (packFuel_fixpoint dm (l.length + 1) l (by omega))

/-- **the output of `pack` on the raw entries of a well-formed plain MOC is canonical** -/
theorem pack_canonical (dm : Nat) (hdm : dm ≤ 29) (l : List Nat) (hv : ∀ r ∈ l, ValidRaw dm r)
    (hw : WF dm (cellsOf dm l)) (hf : ∀ c ∈ cellsOf dm l, c.full = true) :
    Canonical dm (cellsOf dm (pack dm l)) := by
  obtain ⟨s1, s2, s3⟩ := pack_sem dm hdm l hv
  have w := s3 hw
  refine ⟨w, ?_, ?_, ?_⟩
  · intro c hc
    obtain ⟨r, hr, rfl⟩ := List.mem_map.1 hc
    exact (raw_of_decode hdm (s2 r hr) rfl).2.2
  · intro c hc
    have h1 := stOf_of_mem w hc (Nat.le_refl _) (lo_lt_hi dm c)
    rw [s1] at h1
    cases hfc : c.full
    · rw [hfc] at h1
      rcases stOf_abs_or_full (D := dm) hf (lo dm c) with h2 | h2 <;> rw [h2] at h1 <;> exact absurd h1 (by decide)
    · rfl
  · exact noFourFull_of_positional w (fun pre rest d h hd h4 =>
      fix_no_four_full dm hdm _ s2 (pack_fixpoint_pass dm l) pre rest d h hd h4)

/-! ## `not` of a canonical MOC is canonical: every produced cell is maximal -/

/-- when `dd_4_go_up` stops below depth 0, the ancestors of the cursor and of the target at the reached depth are
    siblings (same parent) -/
theorem dd4GoUp_parent (D d h nd nh : Nat) (hD : D ≤ 29) (hd : d ≤ D) (hnd : nd ≤ D) (hh : h < 12 * 4 ^ d)
    (hnh : nh < 12 * 4 ^ nd) (hbefore : P D d (h + 1) ≤ P D nd nh) (hlt0 : dd4GoUp d h nd nh < d) :
    h >>> (2 * (dd4GoUp d h nd nh + 1)) = nh >>> (2 * (nd - (d - dd4GoUp d h nd nh)) + 2) := by
  obtain ⟨sp1, sp2, _⟩ := dd4GoUp_spec D d h nd nh hD hd hnd hh hnh hbefore
  set T := if nd < d then nh <<< ((d - nd) <<< 1) else nh >>> ((nd - d) <<< 1) with hT
  have hsl : ∀ n : Nat, n <<< 1 = 2 * n := fun n => by rw [Nat.shiftLeft_eq]; omega
  have hpD : 0 < 4 ^ (D - d) := Nat.pow_pos (by decide)
  have hTfacts : h + 1 ≤ T ∧ T < 12 * 4 ^ d := by
    unfold P at hbefore
    by_cases c : nd < d
    · simp only [hT, c, if_true, hsl]
      rw [Nat.shiftLeft_eq, Nat.pow_mul]
      have e : 4 ^ (D - nd) = 4 ^ (d - nd) * 4 ^ (D - d) := by rw [← Nat.pow_add]; congr 1; omega
      rw [e, ← Nat.mul_assoc] at hbefore
      have h1 := Nat.le_of_mul_le_mul_right hbefore hpD
      have e2 : 4 ^ d = 4 ^ nd * 4 ^ (d - nd) := by rw [← Nat.pow_add]; congr 1; omega
      refine ⟨by simpa using h1, ?_⟩
      rw [e2, ← Nat.mul_assoc]
      exact Nat.mul_lt_mul_of_pos_right hnh (Nat.pow_pos (by decide))
    · simp only [hT, c, if_false, hsl]
      rw [Nat.shiftRight_eq_div_pow, Nat.pow_mul]
      have e : 4 ^ (D - d) = 4 ^ (nd - d) * 4 ^ (D - nd) := by rw [← Nat.pow_add]; congr 1; omega
      rw [e, ← Nat.mul_assoc] at hbefore
      have h1 := Nat.le_of_mul_le_mul_right hbefore (Nat.pow_pos (by decide) : 0 < 4 ^ (D - nd))
      have hp : 0 < (2 ^ 2) ^ (nd - d) := Nat.pow_pos (by decide)
      have e4 : (2 ^ 2 : Nat) ^ (nd - d) = 4 ^ (nd - d) := by norm_num
      refine ⟨?_, ?_⟩
      · rw [e4]; exact (Nat.le_div_iff_mul_le (Nat.pow_pos (by decide))).mpr h1
      · rw [e4]
        apply Nat.div_lt_of_lt_mul
        have e2 : 4 ^ nd = 4 ^ (nd - d) * 4 ^ d := by rw [← Nat.pow_add]; congr 1; omega
        rw [e2] at hnh
        calc nh < 12 * (4 ^ (nd - d) * 4 ^ d) := hnh
          _ = 4 ^ (nd - d) * (12 * 4 ^ d) := by ring
  obtain ⟨hlt', hTlt⟩ := hTfacts
  have hlt : h < T := by omega
  have hne : h ^^^ T ≠ 0 := fun h0 => (Nat.ne_of_lt hlt) (eq_of_xor_eq_zero h0)
  have h62 := twelve_pow_lt d (by omega)
  have hx64 : h ^^^ T < 2 ^ 64 := by
    have : h ^^^ T < 2 ^ 62 := Nat.xor_lt_two_pow (by omega) (by omega)
    exact Nat.lt_trans this (by decide)
  obtain ⟨ph1, ph2⟩ := pair_high hlt
  set k := (h ^^^ T).log2 / 2 with hk
  have hdd : dd4GoUp d h nd nh = min k d := by
    unfold dd4GoUp
    simp only [← hT]
    have : (h ^^^ T != 0) = true := by simpa using hne
    simp only [this, if_true]
    rw [lz64_eq _ hne hx64, Nat.shiftRight_eq_div_pow]
  have hTshift : ∀ s, d - s ≤ nd → s ≤ d → T >>> (2 * s) = nh >>> (2 * (nd - (d - s))) := by
    intro s hs1 hs2
    by_cases c : nd < d
    · simp only [hT, c, if_true, hsl]
      have e : 2 * s = 2 * (d - nd) + 2 * (nd - (d - s)) := by omega
      rw [e, Nat.shiftRight_add, Nat.shiftLeft_shiftRight]
    · simp only [hT, c, if_false, hsl]
      rw [← Nat.shiftRight_add]; congr 1; omega
  rw [hdd] at hlt0 sp1 sp2 ⊢
  have hkd : k < d := by omega
  rw [Nat.min_eq_left (Nat.le_of_lt hkd)] at sp2 ⊢
  have := hTshift (k + 1) (by omega) (by omega)
  rw [show 2 * (k + 1) = 2 * k + 2 by ring] at this ⊢
  rw [ph1, this]
  congr 1
  omega

/-- the parent cell -/
def Cell.parent (c : Cell) : Cell := ⟨c.depth - 1, c.hash / 4, true⟩

/-- `c` is maximal in the complement of `A`: it has depth 0, or its parent contains a cell of `A` -/
def Canon.Maxl (D : Nat) (A : List Cell) (c : Cell) : Prop :=
  c.depth = 0 ∨ ∃ c' ∈ A, lo D (Cell.parent c) ≤ lo D c' ∧ hi D c' ≤ hi D (Cell.parent c)

/-- the parent of `c` is a strict ancestor of the cell `(d, h)` -/
def Canon.AncPar (c : Cell) (d h : Nat) : Prop := ∃ j, j < d ∧ c.depth = d - j ∧ c.hash / 4 = h >>> (2 * (j + 1))

theorem Canon.maxl_of_ancPar {D : Nat} {A : List Cell} {c : Cell} {d h : Nat} (hd : d ≤ D)
    (hA : ∃ c0 ∈ A, c0.depth = d ∧ c0.hash = h) (ha : AncPar c d h) : Maxl D A c := by
  obtain ⟨c0, m0, e1, e2⟩ := hA
  obtain ⟨j, hj, j1, j2⟩ := ha
  right
  refine ⟨c0, m0, ?_, ?_⟩
  · have := P_shift_le D (d - (j + 1)) (j + 1) h (by omega)
    rw [show d - (j + 1) + (j + 1) = d by omega] at this
    show (c.hash / 4) * 4 ^ (D - (c.depth - 1)) ≤ c0.hash * 4 ^ (D - c0.depth)
    rw [j1, j2, e1, e2, show d - j - 1 = d - (j + 1) by omega]
    exact this
  · have := P_end_le_anc D d (j + 1) h (by omega) hd
    show (c0.hash + 1) * 4 ^ (D - c0.depth) ≤ (c.hash / 4 + 1) * 4 ^ (D - (c.depth - 1))
    rw [j1, j2, e1, e2, show d - j - 1 = d - (j + 1) by omega]
    exact this

theorem Canon.maxl_self {D : Nat} {A : List Cell} {c : Cell} (hc : c ∈ A) (hd : c.depth ≤ D) : Maxl D A c := by
  by_cases h0 : c.depth = 0
  · exact Or.inl h0
  · exact maxl_of_ancPar hd ⟨c, hc, rfl, rfl⟩ ⟨0, by omega, by omega, by rw [Nat.shiftRight_eq_div_pow]⟩

theorem Canon.mem_pushRange {d lo hi : Nat} {f : Bool} {c : Cell} (h : c ∈ pushRange d lo hi f) :
    c.depth = d ∧ lo ≤ c.hash ∧ c.hash < hi := by
  unfold pushRange at h
  obtain ⟨k, hk, rfl⟩ := List.mem_map.1 h
  have := List.mem_range.1 hk
  refine ⟨rfl, ?_, ?_⟩ <;> (show _; simp only; omega)

theorem Canon.or3_eq (h : Nat) : h ||| 3 = 4 * (h / 4) + 3 := by
  have e : h = (h / 4) <<< 2 ||| (h % 4) := by
    rw [Nat.shiftLeft_eq]
    have := Nat.shiftLeft_add_eq_or_of_lt (i := 2) (b := h % 4) (Nat.mod_lt _ (by omega)) (h / 4)
    rw [Nat.shiftLeft_eq] at this
    omega
  have e3 : (h / 4) <<< 2 ||| 3 = 4 * (h / 4) + 3 := by
    have := Nat.shiftLeft_add_eq_or_of_lt (i := 2) (b := 3) (by omega) (h / 4)
    rw [Nat.shiftLeft_eq] at this ⊢
    omega
  conv => lhs; rw [e]
  rw [Nat.or_assoc]
  have : h % 4 ||| 3 = 3 := by
    have : h % 4 < 4 := Nat.mod_lt _ (by omega)
    interval_cases (h % 4) <;> rfl
  rw [this, e3]

theorem Canon.shr_succ (h j : Nat) : h >>> (2 * (j + 1)) = (h >>> (2 * j)) / 4 := by
  rw [show 2 * (j + 1) = 2 * j + 2 by ring, Nat.shiftRight_add, Nat.shiftRight_eq_div_pow (h >>> (2 * j)) 2]

theorem Canon.shr_succ' (h j : Nat) : h >>> (2 * (j + 1)) = (h >>> 2) >>> (2 * j) := by
  rw [← Nat.shiftRight_add]; congr 1; ring

/-- every cell pushed by `go_up` has a parent that is a strict ancestor of the starting cell -/
theorem Canon.mem_goUp_ancPar (f : Bool) : ∀ (dd d h : Nat) (c : Cell), dd ≤ d → c ∈ (goUp dd d h f).1 → AncPar c d h := by
  intro dd
  induction dd with
  | zero => intro d h c _ hc; simp [goUp] at hc
  | succ dd ih =>
    intro d h c hdd hc
    simp only [goUp, List.mem_append] at hc
    rcases hc with hc | hc
    · obtain ⟨m1, m2, m3⟩ := mem_pushRange hc
      refine ⟨0, by omega, by omega, ?_⟩
      rw [or3_eq] at m3
      rw [Nat.shiftRight_eq_div_pow]
      show c.hash / 4 = h / 4
      omega
    · obtain ⟨j, hj, j1, j2⟩ := ih (d - 1) (h >>> 2) c (by omega) hc
      refine ⟨j + 1, by omega, by omega, ?_⟩
      rw [j2, shr_succ' h (j + 1)]

/-- the cells pushed by `go_down`: those of the first level, and cells whose parent is a strict ancestor of the target -/
theorem Canon.mem_goDownAux_cases (f : Bool) : ∀ (n dcur h th : Nat) (c : Cell), c ∈ goDownAux n dcur h th f →
    (c.depth = dcur ∧ h ≤ c.hash ∧ c.hash < th >>> (2 * n)) ∨ AncPar c (dcur + n) th := by
  intro n
  induction n with
  | zero =>
    intro dcur h th c hc
    simp only [goDownAux] at hc
    left
    simpa using mem_pushRange hc
  | succ n ih =>
    intro dcur h th c hc
    simp only [goDownAux, List.mem_append] at hc
    rcases hc with hc | hc
    · left; exact mem_pushRange hc
    · right
      rcases ih (dcur + 1) _ th c hc with ⟨h1, h2, h3⟩ | ⟨j, hj, j1, j2⟩
      · refine ⟨n, by omega, by omega, ?_⟩
        rw [shr_succ]
        rw [Nat.shiftLeft_eq, shr_succ] at h2
        omega
      · exact ⟨j, by omega, by omega, j2⟩

/-- the piece emitted by `not` for one cell `c0` of the operand after the cursor `(d, h)` consists of maximal cells -/
theorem Canon.notStep_maxl (D : Nat) (hD : D ≤ 29) (A : List Cell) (d h : Nat) (c0 : Cell) (hd : d ≤ D) (hh : h < 12 * 4 ^ d)
    (hc0D : c0.depth ≤ D) (hr : InR c0) (hbefore : P D d (h + 1) ≤ lo D c0)
    (hcur : ∃ c ∈ A, c.depth = d ∧ c.hash = h) (hc0 : c0 ∈ A) :
    ∀ c ∈ (goUp (dd4GoUp d h c0.depth c0.hash) d h true).1 ++
        goDown (goUp (dd4GoUp d h c0.depth c0.hash) d h true).2.1 (goUp (dd4GoUp d h c0.depth c0.hash) d h true).2.2
          c0.depth c0.hash true ++ (if c0.full then [] else [c0]), Maxl D A c := by
  obtain ⟨s1, s2, s3⟩ := dd4GoUp_spec D d h c0.depth c0.hash hD hd hc0D hh hr hbefore
  have hpar := dd4GoUp_parent D d h c0.depth c0.hash hD hd hc0D hh hr hbefore
  set dd := dd4GoUp d h c0.depth c0.hash with hdd
  obtain ⟨u1, u2, _⟩ := Seg.goUp D true dd d h s1 hd
  rw [u1, u2]
  intro c hc
  simp only [List.mem_append] at hc
  rcases hc with (hc | hc) | hc
  · exact maxl_of_ancPar hd hcur (mem_goUp_ancPar true dd d h c s1 hc)
  · unfold goDown at hc
    rcases mem_goDownAux_cases true _ _ _ _ c hc with ⟨h1, h2, h3⟩ | ha
    · by_cases hdd0 : dd = d
      · left; omega
      · have hp := hpar (by omega)
        apply maxl_of_ancPar hd hcur
        refine ⟨dd, by omega, h1, ?_⟩
        rw [show 2 * (c0.depth - (d - dd)) + 2 = 2 * ((c0.depth - (d - dd)) + 1) by ring, shr_succ, shr_succ] at hp
        rw [shr_succ]
        omega
    · rw [show d - dd + (c0.depth - (d - dd)) = c0.depth by omega] at ha
      exact maxl_of_ancPar hc0D ⟨c0, hc0, rfl, rfl⟩ ha
  · by_cases hf : c0.full = true
    · simp [hf] at hc
    · simp only [hf, Bool.false_eq_true, if_false, List.mem_singleton] at hc
      subst hc
      exact maxl_self hc0 hc0D

/-- the loop of `not` emits maximal cells only; its final cursor is a cell of the operand -/
theorem Canon.notLoop_maxl (D : Nat) (hD : D ≤ 29) (A : List Cell) : ∀ (rest : List Cell) (d h : Nat), d ≤ D → h < 12 * 4 ^ d →
    WF D rest → (∀ c ∈ rest, InR c) → (∀ c ∈ rest, P D d (h + 1) ≤ lo D c) → (∀ c ∈ rest, c ∈ A) →
    (∃ c ∈ A, c.depth = d ∧ c.hash = h) →
    (∀ c ∈ (notLoop rest d h).1, Maxl D A c) ∧
    (∃ c ∈ A, c.depth = (notLoop rest d h).2.1 ∧ c.hash = (notLoop rest d h).2.2) := by
  intro rest
  induction rest with
  | nil =>
    intro d h _ _ _ _ _ _ hcur
    simp only [notLoop]
    exact ⟨fun c hc => by simp at hc, hcur⟩
  | cons c0 rest ih =>
    intro d h hd hh hw hr hb hA hcur
    have hc0D : c0.depth ≤ D := hw.1
    have hrc : InR c0 := hr c0 (by simp)
    obtain ⟨i1, i2⟩ := ih c0.depth c0.hash hc0D hrc hw.tail (fun c' hc' => hr c' (by simp [hc']))
      (fun c' hc' => hw.2.1 c' hc') (fun c' hc' => hA c' (by simp [hc'])) ⟨c0, hA c0 (by simp), rfl, rfl⟩
    have step := notStep_maxl D hD A d h c0 hd hh hc0D hrc (hb c0 (by simp)) hcur (hA c0 (by simp))
    simp only [notLoop]
    refine ⟨?_, i2⟩
    intro c hc
    rcases List.mem_append.1 hc with hc | hc
    · exact step c hc
    · exact i1 c hc

/-- **every cell produced by `not` is maximal**: it has depth 0 or its parent contains a cell of the operand -/
theorem notCells_maxl (D : Nat) (hD : D ≤ 29) (l : List Cell) (hw : WF D l) (hr : ∀ c ∈ l, InR c) :
    ∀ c ∈ notCells l, Maxl D l c := by
  cases l with
  | nil =>
    intro c hc
    simp only [notCells] at hc
    exact Or.inl (mem_pushRange hc).1
  | cons c0 rest =>
    have hc0D : c0.depth ≤ D := hw.1
    have hrc : InR c0 := hr c0 (by simp)
    obtain ⟨j1, _, _, _, _⟩ := Seg.notLoop D hD rest c0.depth c0.hash hc0D hrc hw.tail
      (fun c' hc' => hr c' (by simp [hc'])) (fun c' hc' => hw.2.1 c' hc')
    obtain ⟨i1, i2⟩ := notLoop_maxl D hD (c0 :: rest) rest c0.depth c0.hash hc0D hrc hw.tail
      (fun c' hc' => hr c' (by simp [hc'])) (fun c' hc' => hw.2.1 c' hc') (fun c' hc' => by simp [hc'])
      ⟨c0, by simp, rfl, rfl⟩
    intro c hc
    simp only [notCells, List.mem_append] at hc
    rcases hc with (((hc | hc) | hc) | hc) | hc
    · unfold goDown at hc
      rcases mem_goDownAux_cases true _ _ _ _ c hc with ⟨h1, _, _⟩ | ha
      · exact Or.inl h1
      · rw [show 0 + (c0.depth - 0) = c0.depth by omega] at ha
        exact maxl_of_ancPar hc0D ⟨c0, by simp, rfl, rfl⟩ ha
    · by_cases hf : c0.full = true
      · simp [hf] at hc
      · simp only [hf, Bool.false_eq_true, if_false, List.mem_singleton] at hc
        subst hc
        exact maxl_self (by simp) hc0D
    · exact i1 c hc
    · exact maxl_of_ancPar j1 i2 (mem_goUp_ancPar true _ _ _ c (Nat.le_refl _) hc)
    · exact Or.inl (mem_pushRange hc).1

/-- **`not` of a canonical MOC is canonical** (depth `≤ 29`) -/
theorem not_canonical {D : Nat} (hD : D ≤ 29) {a : List Cell} (ha : Canonical D a) : Canonical D (notCells a) := by
  obtain ⟨wa, ra, fa, _⟩ := ha
  obtain ⟨sem, w, r⟩ := notCells_spec D hD a wa ra
  have hfull : ∀ c ∈ notCells a, c.full = true := by
    intro c hc
    rcases mem_notCells_flag a c hc with h | ⟨h1, h2⟩
    · exact h
    · rw [fa c h1] at h2; exact absurd h2 (by simp)
  refine ⟨w, r, hfull, ?_⟩
  intro d h hd h4 m0 m1 m2 m3
  have hdD : d ≤ D := w.depth_le _ m0
  have pf : FullOn D (notCells a) ⟨d - 1, h / 4, true⟩ :=
    fullOn_parent hd hdD h4 (fullOn_of_inside w hfull (insideSome_self m0)) (fullOn_of_inside w hfull (insideSome_self m1))
      (fullOn_of_inside w hfull (insideSome_self m2)) (fullOn_of_inside w hfull (insideSome_self m3))
  rcases notCells_maxl D hD a wa ra _ m0 with h0 | ⟨c', mc', i1, i2⟩
  · exact absurd h0 (by show d ≠ 0; omega)
  · have hlh := lo_lt_hi D c'
    have hR := hi_le_of_inR (wa.depth_le c' mc') (ra c' mc')
    have e1 := pf (lo D c') i1 (by show lo D c' < hi D (Cell.parent ⟨d, h, true⟩); omega)
    have e2 := sem (lo D c') (by omega)
    rw [stOf_of_mem wa mc' (Nat.le_refl _) hlh, fa c' mc', e1] at e2
    exact absurd e2 (by decide)

/-- **`not (not a) = a` as lists**, for canonical `a` -/
theorem not_not_canonical {D : Nat} (hD : D ≤ 29) {a : List Cell} (ha : Canonical D a) : notCells (notCells a) = a := by
  have hn := not_canonical hD ha
  apply moc_canonical (not_canonical hD hn) ha
  intro x hx
  rw [(notCells_spec D hD _ hn.1 hn.2.1).1 x hx, (notCells_spec D hD a ha.1 ha.2.1).1 x hx]
  cases stOf D a x <;> rfl

/-- `moc_canonical` stated with set membership (`Hpx.C07.mem D l x` is `stOf D l x = .full`): two canonical MOCs with the
    same elements are equal -/
theorem moc_canonical_mem {D : Nat} {a b : List Cell} (ha : Canonical D a) (hb : Canonical D b)
    (h : ∀ x, x < 12 * 4 ^ D → (stOf D a x = .full ↔ stOf D b x = .full)) : a = b := by
  apply moc_canonical ha hb
  intro x hx
  have := h x hx
  rcases stOf_abs_or_full (D := D) ha.2.2.1 x with h1 | h1 <;>
    rcases stOf_abs_or_full (D := D) hb.2.2.1 x with h2 | h2 <;> simp_all

theorem canonical_nil (D : Nat) : Canonical D [] :=
  ⟨trivial, fun c hc => by simp at hc, fun c hc => by simp at hc, fun _ _ _ _ h => by simp at h⟩

/-- **`a ∩ aᶜ` is the empty list**, for canonical `a` -/
theorem and_not_self_canonical {D : Nat} (hD : D ≤ 29) {a : List Cell} (ha : Canonical D a) :
    andCells a (notCells a) = [] := by
  have hn := not_canonical hD ha
  apply moc_canonical (and_canonical ha hn) (canonical_nil D)
  intro x hx
  rw [and_sem D a _ ha.1 hn.1, (notCells_spec D hD a ha.1 ha.2.1).1 x hx]
  rcases stOf_abs_or_full (D := D) ha.2.2.1 x with h1 | h1 <;> rw [h1] <;> rfl

/-! ## the cells of a canonical list are exactly the maximal entirely-full cells -/

theorem Canon.par_bounds (D : Nat) (c : Cell) (hd : 0 < c.depth) (hD : c.depth ≤ D) :
    lo D (Cell.parent c) ≤ lo D c ∧ hi D c ≤ hi D (Cell.parent c) ∧ hi D (Cell.parent c) = lo D (Cell.parent c) + 4 * 4 ^ (D - c.depth) := by
  have e : 4 ^ (D - (c.depth - 1)) = 4 * 4 ^ (D - c.depth) := by
    rw [show D - (c.depth - 1) = (D - c.depth) + 1 by omega, Nat.pow_succ]; omega
  have l1 : lo D (Cell.parent c) = (4 * (c.hash / 4)) * 4 ^ (D - c.depth) := by
    show (c.hash / 4) * 4 ^ (D - (c.depth - 1)) = _; rw [e]; ring
  have l2 : hi D (Cell.parent c) = (4 * (c.hash / 4 + 1)) * 4 ^ (D - c.depth) := by
    show (c.hash / 4 + 1) * 4 ^ (D - (c.depth - 1)) = _; rw [e]; ring
  refine ⟨?_, ?_, ?_⟩
  · rw [l1]; exact Nat.mul_le_mul_right _ (by omega)
  · rw [l2]; exact Nat.mul_le_mul_right _ (by omega)
  · rw [l1, l2]; ring

/-- **characterisation**: in a canonical list, the cells are exactly the full cells whose interval is entirely in the set
    and whose parent's interval is not (maximal cells) -/
theorem mem_canonical_iff {D : Nat} {l : List Cell} (hc : Canonical D l) (c : Cell) :
    c ∈ l ↔ c.full = true ∧ c.depth ≤ D ∧ FullOn D l c ∧ (c.depth = 0 ∨ ¬ FullOn D l (Cell.parent c)) := by
  obtain ⟨w, _, f, n⟩ := hc
  constructor
  · intro hm
    have hcD := w.depth_le c hm
    refine ⟨f c hm, hcD, fullOn_of_inside w f (insideSome_self hm), ?_⟩
    by_cases h0 : c.depth = 0
    · exact Or.inl h0
    · right
      intro hp
      obtain ⟨cp, mp, i1, i2⟩ := full_inside w f n (s := Cell.parent c) (by show c.depth - 1 ≤ D; omega) hp
      obtain ⟨b1, b2, b3⟩ := par_bounds D c (by omega) hcD
      have := lo_lt_hi D c
      have e : cp = c := wf_eq_of_overlap w mp hm (by omega) (by omega)
      subst e
      have := hi_eq_lo_add D cp
      have : 0 < 4 ^ (D - cp.depth) := Nat.pow_pos (by decide)
      omega
  · intro ⟨hf, hcD, hfull, hmax⟩
    obtain ⟨cp, mp, i1, i2⟩ := full_inside w f n hcD hfull
    have hpD := w.depth_le cp mp
    have hle : cp.depth ≤ D - (D - c.depth) := depth_le_of_contains hpD (by omega) i1 i2
    by_cases he : cp.depth = c.depth
    · have hp : 0 < 4 ^ (D - c.depth) := Nat.pow_pos (by decide)
      unfold lo at i1; unfold hi at i2
      rw [he] at i1 i2
      have g1 := Nat.le_of_mul_le_mul_right i1 hp
      have g2 := Nat.le_of_mul_le_mul_right i2 hp
      have : cp = c := by
        have := f cp mp
        cases cp; cases c; simp_all; omega
      rw [← this]; exact mp
    · exfalso
      have hlt : cp.depth ≤ c.depth - 1 := by omega
      have hq : c.hash = 4 * (c.hash / 4) + c.hash % 4 := by omega
      have i1' : lo D cp ≤ (4 * (c.hash / 4) + c.hash % 4) * 4 ^ (D - c.depth) := by rw [← hq]; exact i1
      have i2' : (4 * (c.hash / 4) + c.hash % 4 + 1) * 4 ^ (D - c.depth) ≤ hi D cp := by rw [← hq]; exact i2
      obtain ⟨k1, k2⟩ := contains_parent (D := D) (n := D - c.depth) (d := c.depth - 1) (by omega) hlt
        (Nat.mod_lt _ (by omega)) i1' i2'
      rcases hmax with h0 | hmax
      · omega
      · apply hmax
        apply fullOn_of_inside w f
        refine ⟨cp, mp, ?_, ?_⟩
        · show lo D cp ≤ (c.hash / 4) * 4 ^ (D - (c.depth - 1))
          rw [show D - (c.depth - 1) = D - c.depth + 1 by omega]; exact k1
        · show (c.hash / 4 + 1) * 4 ^ (D - (c.depth - 1)) ≤ hi D cp
          rw [show D - (c.depth - 1) = D - c.depth + 1 by omega]; exact k2

/-! ## packing a plain cell list gives the canonical representative of its set -/

theorem Canon.map_encode_cells (dm : Nat) (hdm : dm ≤ 29) (l : List Nat) (hv : ∀ r ∈ l, ValidRaw dm r) :
    (cellsOf dm l).map (encode dm) = l := by
  induction l with
  | nil => rfl
  | cons r l ih =>
    simp only [cellsOf_cons, List.map_cons]
    obtain ⟨e, _, _⟩ := raw_of_decode hdm (hv r (by simp)) rfl
    rw [← e, ih (fun r' h' => hv r' (by simp [h']))]

theorem Canon.cellsOf_map_encode' (dm : Nat) (hdm : dm ≤ 29) (cells : List Cell) (hd : ∀ c ∈ cells, c.depth ≤ dm)
    (hr : ∀ c ∈ cells, InR c) : cellsOf dm (cells.map (encode dm)) = cells := by
  induction cells with
  | nil => rfl
  | cons c l ih =>
    simp only [List.map_cons, cellsOf_cons]
    rw [decode_encode (hd c (by simp)) hdm (hr c (by simp)), ih (fun c' h' => hd c' (by simp [h'])) (fun c' h' => hr c' (by simp [h']))]

/-- packing the encoding of a well-formed in-range list of full cells gives a canonical list with the same content -/
theorem pack_cells_canonical (dm : Nat) (hdm : dm ≤ 29) (cs : List Cell) (hw : WF dm cs) (hr : ∀ c ∈ cs, InR c)
    (hf : ∀ c ∈ cs, c.full = true) :
    Canonical dm (cellsOf dm (pack dm (cs.map (encode dm)))) ∧
    ∀ x, stOf dm (cellsOf dm (pack dm (cs.map (encode dm)))) x = stOf dm cs x := by
  have hv : ∀ r ∈ cs.map (encode dm), ValidRaw dm r := by
    intro r hr'
    obtain ⟨c, hc, rfl⟩ := List.mem_map.mp hr'
    exact ⟨c, hw.depth_le c hc, hr c hc, rfl⟩
  have hcells : cellsOf dm (cs.map (encode dm)) = cs := cellsOf_map_encode' dm hdm cs hw.depth_le hr
  refine ⟨pack_canonical dm hdm _ hv (by rw [hcells]; exact hw) (by rw [hcells]; exact hf), ?_⟩
  intro x
  rw [(pack_sem dm hdm _ hv).1 x, hcells]

/-- two plain cell lists denoting the same set are packed into the same raw entries -/
theorem pack_eq_of_same_set (dm : Nat) (hdm : dm ≤ 29) (a b : List Cell) (wa : WF dm a) (wb : WF dm b)
    (ra : ∀ c ∈ a, InR c) (rb : ∀ c ∈ b, InR c) (fa : ∀ c ∈ a, c.full = true) (fb : ∀ c ∈ b, c.full = true)
    (h : ∀ x, x < 12 * 4 ^ dm → stOf dm a x = stOf dm b x) :
    pack dm (a.map (encode dm)) = pack dm (b.map (encode dm)) := by
  obtain ⟨ca, sa⟩ := pack_cells_canonical dm hdm a wa ra fa
  obtain ⟨cb, sb⟩ := pack_cells_canonical dm hdm b wb rb fb
  have va : ∀ r ∈ pack dm (a.map (encode dm)), ValidRaw dm r := by
    apply (pack_sem dm hdm _ _).2.1
    intro r hr'
    obtain ⟨c, hc, rfl⟩ := List.mem_map.mp hr'
    exact ⟨c, wa.depth_le c hc, ra c hc, rfl⟩
  have vb : ∀ r ∈ pack dm (b.map (encode dm)), ValidRaw dm r := by
    apply (pack_sem dm hdm _ _).2.1
    intro r hr'
    obtain ⟨c, hc, rfl⟩ := List.mem_map.mp hr'
    exact ⟨c, wb.depth_le c hc, rb c hc, rfl⟩
  have e := moc_canonical ca cb (fun x hx => by rw [sa x, sb x, h x hx])
  have m1 := map_encode_cells dm hdm _ va
  have m2 := map_encode_cells dm hdm _ vb
  rw [← m1, ← m2, e]

/-! ## lift to raw BMOCs -/

theorem Canon.cells_eq_cellsOf (b : BMOC) : b.cells = cellsOf b.dmax b.entries := rfl

/-- **canonicity of raw BMOCs**: two BMOCs of the same depth whose entries are the encodings of their (canonical) cells
    and which denote the same set have the same entries -/
theorem bmoc_canonical (A B : BMOC) (hdm : A.dmax = B.dmax)
    (eA : A.entries = A.cells.map (encode A.dmax)) (eB : B.entries = B.cells.map (encode B.dmax))
    (cA : Canonical A.dmax A.cells) (cB : Canonical B.dmax B.cells)
    (h : ∀ x, x < 12 * 4 ^ A.dmax → stOf A.dmax A.cells x = stOf B.dmax B.cells x) : A = B := by
  obtain ⟨da, ea⟩ := A
  obtain ⟨db, eb⟩ := B
  simp only at hdm
  subst hdm
  have hc : BMOC.cells ⟨da, ea⟩ = BMOC.cells ⟨da, eb⟩ := moc_canonical cA cB h
  simp only at eA eB
  rw [eA, eB, hc]

/-- the same with the validity of the raw entries (each is the encoding of an in-range cell, depth `≤ 29`) as hypothesis -/
theorem bmoc_canonical_valid (A B : BMOC) (hdm : A.dmax = B.dmax) (h29 : A.dmax ≤ 29)
    (vA : ∀ r ∈ A.entries, ValidRaw A.dmax r) (vB : ∀ r ∈ B.entries, ValidRaw B.dmax r)
    (cA : Canonical A.dmax A.cells) (cB : Canonical B.dmax B.cells)
    (h : ∀ x, x < 12 * 4 ^ A.dmax → stOf A.dmax A.cells x = stOf B.dmax B.cells x) : A = B :=
  bmoc_canonical A B hdm (map_encode_cells A.dmax h29 A.entries vA).symm
    (map_encode_cells B.dmax (hdm ▸ h29) B.entries vB).symm cA cB h

/-- **`not (not A) = A` for raw BMOCs** that are valid canonical plain MOCs -/
theorem bmoc_not_not (A : BMOC) (h29 : A.dmax ≤ 29) (vA : ∀ r ∈ A.entries, ValidRaw A.dmax r)
    (cA : Canonical A.dmax A.cells) : A.not.not = A := by
  have cN := not_canonical h29 cA
  have e1 : A.not.cells = notCells A.cells := by
    show cellsOf A.dmax ((notCells A.cells).map (encode A.dmax)) = _
    exact cellsOf_map_encode' A.dmax h29 _ cN.1.depth_le cN.2.1
  obtain ⟨da, ea⟩ := A
  show (⟨da, (notCells (BMOC.not ⟨da, ea⟩).cells).map (encode da)⟩ : BMOC) = ⟨da, ea⟩
  rw [e1, not_not_canonical h29 cA]
  congr 1
  exact map_encode_cells da h29 ea vA

/-- **`A and B = B and A` for raw BMOCs** whose cells are canonical at the depth of the result -/
theorem bmoc_and_comm (A B : BMOC) (cA : Canonical (max A.dmax B.dmax) A.cells)
    (cB : Canonical (max A.dmax B.dmax) B.cells) : A.and B = B.and A := by
  unfold BMOC.and
  simp only
  rw [and_comm_canonical cA cB, Nat.max_comm]

/-! ## examples -/

/-- a concrete three-level MOC (depths 0, 1, 2; reference depth 2) that is canonical -/
def exCanonMoc : List Cell := [⟨0, 0, true⟩, ⟨1, 4, true⟩, ⟨1, 5, true⟩, ⟨2, 24, true⟩, ⟨2, 25, true⟩, ⟨2, 47, true⟩]

theorem exCanonMoc_canonical : Canonical 2 exCanonMoc := by
  refine ⟨?_, ?_, ?_, ?_⟩
  · simp [exCanonMoc, WF, lo, hi]
  · intro c hc
    simp only [exCanonMoc, List.mem_cons, List.not_mem_nil, or_false] at hc
    rcases hc with rfl | rfl | rfl | rfl | rfl | rfl <;> simp [InR]
  · intro c hc
    simp only [exCanonMoc, List.mem_cons, List.not_mem_nil, or_false] at hc
    rcases hc with rfl | rfl | rfl | rfl | rfl | rfl <;> rfl
  · intro d h hd h4 m0 _ m2 _
    simp only [exCanonMoc, List.mem_cons, List.not_mem_nil, or_false, Cell.mk.injEq, and_true] at m0 m2
    omega

/-- the corresponding raw BMOC satisfies the hypotheses of `bmoc_canonical_valid` / `bmoc_not_not` -/
def exCanonBmoc : BMOC := ⟨2, exCanonMoc.map (encode 2)⟩

example : (∀ r ∈ exCanonBmoc.entries, ValidRaw exCanonBmoc.dmax r) ∧ Canonical exCanonBmoc.dmax exCanonBmoc.cells := by
  have hc : exCanonBmoc.cells = exCanonMoc :=
    cellsOf_map_encode' 2 (by decide) exCanonMoc exCanonMoc_canonical.1.depth_le exCanonMoc_canonical.2.1
  refine ⟨?_, by rw [hc]; exact exCanonMoc_canonical⟩
  intro r hr
  obtain ⟨c, hm, rfl⟩ := List.mem_map.1 hr
  exact ⟨c, exCanonMoc_canonical.1.depth_le c hm, exCanonMoc_canonical.2.1 c hm, rfl⟩

/-- the theorems on the example, evaluated -/
example : notCells (notCells exCanonMoc) = exCanonMoc := by decide
example : andCells exCanonMoc (notCells exCanonMoc) = [] := by decide +kernel
example : andCells exCanonMoc [⟨1, 1, true⟩, ⟨1, 5, true⟩, ⟨2, 25, true⟩] = [⟨1, 1, true⟩, ⟨1, 5, true⟩, ⟨2, 25, true⟩] ∧
    andCells [⟨1, 1, true⟩, ⟨1, 5, true⟩, ⟨2, 25, true⟩] exCanonMoc = [⟨1, 1, true⟩, ⟨1, 5, true⟩, ⟨2, 25, true⟩] := by
  simp [exCanonMoc, andCells]

/-- `NoFourFull` is needed: four full siblings and their parent denote the same set -/
example : (∀ x, stOf 1 [⟨1, 0, true⟩, ⟨1, 1, true⟩, ⟨1, 2, true⟩, ⟨1, 3, true⟩] x = stOf 1 [⟨0, 0, true⟩] x) ∧
    [(⟨1, 0, true⟩ : Cell), ⟨1, 1, true⟩, ⟨1, 2, true⟩, ⟨1, 3, true⟩] ≠ [⟨0, 0, true⟩] := by
  refine ⟨fun x => ?_, by decide⟩
  rw [stOf_cons, stOf_cons, stOf_cons, stOf_cons, stOf_cons]
  simp only [lo, hi, stOf, Nat.sub_self, Nat.sub_zero, Nat.pow_zero, Nat.pow_one, Nat.mul_one, Nat.zero_mul,
    Nat.zero_add, Nat.reduceAdd, Nat.reduceMul]
  split_ifs <;> first | rfl | (exfalso; omega)

end Hpx.Bmoc

#print axioms Hpx.Bmoc.moc_canonical
#print axioms Hpx.Bmoc.moc_canonical_mem
#print axioms Hpx.Bmoc.and_canonical
#print axioms Hpx.Bmoc.not_canonical
#print axioms Hpx.Bmoc.not_not_canonical
#print axioms Hpx.Bmoc.and_comm_canonical
#print axioms Hpx.Bmoc.mem_canonical_iff
#print axioms Hpx.Bmoc.pack_canonical
#print axioms Hpx.Bmoc.pack_eq_of_same_set
#print axioms Hpx.Bmoc.bmoc_canonical_valid
#print axioms Hpx.Bmoc.bmoc_not_not
#print axioms Hpx.Bmoc.bmoc_and_comm
