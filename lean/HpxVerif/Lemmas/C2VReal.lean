import HpxVerif.Model.C2V
import HpxVerif.Lemmas.NumReal
import HpxVerif.Lemmas.ProjReal
import Mathlib.Tactic.Positivity
import Mathlib.Analysis.Real.Pi.Bounds
import Mathlib.Analysis.SpecialFunctions.Trigonometric.Bounds

/-!
# C16 — the `largest_center_to_vertex_distance*` helpers over ℝ (release profile: `debug = false`)

`tl` = `TRANSITION_LATITUDE`, `lsc` = `LAT_OF_SQUARE_CELL`, `fold lon` = `|π/4 − lon % (π/2)|` (the longitude folded
on the half base cell).  The three pointwise envelopes are
`npcEnv c l = slopeNpc·l + interceptNpc` (polar caps, function of the folded longitude),
`topEnv c x = slopeEqr·x + interceptEqr` (`lsc ≤ |lat| < tl`), `botEnv c x = coeffX2Eqr·x² + coeffCstEqr` (`|lat| < lsc`).

Contents
* Task 1: `c2v_region_choice` (+ `c2v_polar`, `c2v_eqr_top`, `c2v_eqr_bottom`), `c2v_with_radius_region_choice`;
  the folded longitude: `fold_le` (`0 ≤ lon → fold lon ∈ [0, π/4]`), `fold_neg_example` (F7), `fold_le_add` (1-Lipschitz).
* Task 2, constants arbitrary reals with the ASSUMED signs `0 ≤ slopeNpc`, `0 ≤ slopeEqr`, `coeffX2Eqr ≤ 0`:
  `npc_with_radius_is_sup`, `eqr_top_with_radius_is_sup`, `eqr_bottom_with_radius_is_sup` (each `_with_radius` helper
  is the maximum of its pointwise envelope over a stated band), `c2v_with_radius_is_sup`,
  `largestC2VWithRadius_is_upper_bound` (public functions).
* F12: `cex_distance`, `npc_with_radius_not_cone_bound`, `largestC2VWithRadius_not_cone_bound'` (unconditional).
* The ACTUAL signs of `ConstantsC2V::new(depth)` over ℝ, every depth: `new_slopeNpc_nonneg`, `new_slopeNpc_pos`,
  `new_coeffX2Eqr_neg`, `new_continuous_at_lsc`, and **`new_slopeEqr_neg`: `slope_eqr < 0`** — the assumed sign is
  wrong.  Consequences: `eqr_top_with_radius_is_inf`, `eqr_top_with_radius_not_bound`,
  `largestC2VWithRadius_lt_at_centre'` (band inside `[lsc, tl)`: the value with radius is strictly BELOW the value
  without radius at the same position), and what does hold unconditionally:
  `largestC2VWithRadius_upper_bound_eqr` (band below `tl` reaching below `lsc`), `largestC2VWithRadius_upper_bound_npc`.
* Task 3: `c2vs_with_radius_agree`, `depthsOf_eq_range'`; dev profile: `with_radius_debug_straddle_panics`,
  `c2vs_debug_straddle` (F7: the two functions differ).
-/

namespace Hpx.C2VReal
open Hpx Hpx.C2V Hpx.Proj Real

/-! ## the ℝ instance -/

theorem r_zero : (Num.zero : ℝ) = 0 := by show ((0 : ℕ) : ℝ) = 0; norm_num
theorem r_ge (x y : ℝ) : Num.ge x y = decide (y ≤ x) := rfl
theorem r_fmin (x y : ℝ) : Num.fmin x y = min x y := rfl
theorem r_fmax (x y : ℝ) : Num.fmax x y = max x y := rfl
theorem r_rem (x y : ℝ) :
    Num.rem x y = x - y * (if 0 ≤ x / y then (⌊x / y⌋ : ℝ) else (⌈x / y⌉ : ℝ)) := rfl

/-- `TRANSITION_LATITUDE` -/
noncomputable abbrev tl : ℝ := (Num.transitionLat : ℝ)
/-- `LAT_OF_SQUARE_CELL` -/
noncomputable abbrev lsc : ℝ := (Num.latOfSquareCell : ℝ)

/-- the folded longitude `|π/4 − lon % (π/2)|` -/
noncomputable def fold (lon : ℝ) : ℝ := |π / 4 - Num.rem lon (π / 2)|

noncomputable def npcEnv (c : Csts ℝ) (l : ℝ) : ℝ := c.slopeNpc * l + c.interceptNpc
noncomputable def topEnv (c : Csts ℝ) (x : ℝ) : ℝ := c.slopeEqr * x + c.interceptEqr
noncomputable def botEnv (c : Csts ℝ) (x : ℝ) : ℝ := c.coeffX2Eqr * (x * x) + c.coeffCstEqr

/-! ## closed forms of the six private helpers (release) -/

theorem npc_false (lon : ℝ) (c : Csts ℝ) : npc false lon c = some (npcEnv c (fold lon)) := rfl
theorem npcWithRadius_false (lon r : ℝ) (c : Csts ℝ) :
    npcWithRadius false lon r c = some (npcEnv c (min (fold lon + r) (π / 4))) := rfl
theorem eqrTop_false (x : ℝ) (c : Csts ℝ) : eqrTop false x c = some (topEnv c x) := rfl
theorem eqrTopWithRadius_false (x r : ℝ) (c : Csts ℝ) :
    eqrTopWithRadius false x r c = some (topEnv c (min (x + r) tl)) := rfl
theorem eqrBottom_false (x : ℝ) (c : Csts ℝ) : eqrBottom false x c = some (botEnv c x) := rfl
theorem eqrBottomWithRadius_false (x r : ℝ) (c : Csts ℝ) :
    eqrBottomWithRadius false x r c = some (botEnv c (max (x - r) 0)) := by
  show some (botEnv c (max (x - r) (Num.zero : ℝ))) = _
  rw [r_zero]

/-! ## Task 1 — which envelope `largestC2V` uses -/

/-- the value of `largest_center_to_vertex_distance` for constants `c` -/
noncomputable def c2v (c : Csts ℝ) (lon lat : ℝ) : ℝ :=
  if tl ≤ |lat| then npcEnv c (fold lon)
  else if lsc ≤ |lat| then topEnv c |lat|
  else botEnv c |lat|

/-- **`c2v_region_choice`** (ℝ, release): depth 0 gives `π/2 − tl`; depths above 29 panic; for `1 ≤ depth ≤ 29`, with
    `c = ConstantsC2V::new(depth)`:
    * `|lat| ≥ tl` (polar caps): `slopeNpc · |π/4 − lon % (π/2)| + interceptNpc`;
    * `lsc ≤ |lat| < tl`: `slopeEqr · |lat| + interceptEqr`;
    * `|lat| < lsc`: `coeffX2Eqr · lat² + coeffCstEqr`. -/
theorem c2v_region_choice (depth : Nat) (lon lat : ℝ) :
    largestC2V false depth lon lat =
      if depth = 0 then some (π / 2 - tl) else if 29 < depth then none
      else some (c2v (Csts.new depth) lon lat) := by
  unfold largestC2V c2v
  by_cases h0 : depth = 0
  · simp [h0]; rfl
  · by_cases h29 : 29 < depth
    · simp [h0, h29]
    · simp only [beq_iff_eq, h0, if_false, gt_iff_lt, h29, r_ge, r_abs, decide_eq_true_eq, npc_false, eqrTop_false,
        eqrBottom_false]
      split
      · rfl
      · split <;> rfl

/-- explicit equations, one per region -/
theorem c2v_polar (depth : Nat) (h1 : 1 ≤ depth) (h2 : depth ≤ 29) (lon lat : ℝ) (h : tl ≤ |lat|) :
    largestC2V false depth lon lat =
      some ((Csts.new depth : Csts ℝ).slopeNpc * |π / 4 - Num.rem lon (π / 2)| + (Csts.new depth : Csts ℝ).interceptNpc) := by
  rw [c2v_region_choice, if_neg (by omega), if_neg (by omega), c2v, if_pos h]; rfl

theorem c2v_eqr_top (depth : Nat) (h1 : 1 ≤ depth) (h2 : depth ≤ 29) (lon lat : ℝ) (h : |lat| < tl) (h' : lsc ≤ |lat|) :
    largestC2V false depth lon lat =
      some ((Csts.new depth : Csts ℝ).slopeEqr * |lat| + (Csts.new depth : Csts ℝ).interceptEqr) := by
  rw [c2v_region_choice, if_neg (by omega), if_neg (by omega), c2v, if_neg (not_le.mpr h), if_pos h']; rfl

theorem c2v_eqr_bottom (depth : Nat) (h1 : 1 ≤ depth) (h2 : depth ≤ 29) (lon lat : ℝ) (h : |lat| < tl) (h' : |lat| < lsc) :
    largestC2V false depth lon lat =
      some ((Csts.new depth : Csts ℝ).coeffX2Eqr * (|lat| * |lat|) + (Csts.new depth : Csts ℝ).coeffCstEqr) := by
  rw [c2v_region_choice, if_neg (by omega), if_neg (by omega), c2v, if_neg (not_le.mpr h), if_neg (not_le.mpr h')]; rfl

/-! ## the folded longitude -/

theorem fold_nonneg (lon : ℝ) : 0 ≤ fold lon := abs_nonneg _

/-- for a non-negative longitude `lon % (π/2) = lon − (π/2)·⌊lon/(π/2)⌋ ∈ [0, π/2)` -/
theorem rem_halfPi_of_nonneg (x : ℝ) (hx : 0 ≤ x) :
    Num.rem x (π / 2) = x - π / 2 * (⌊x / (π / 2)⌋ : ℝ) ∧ 0 ≤ Num.rem x (π / 2) ∧ Num.rem x (π / 2) < π / 2 := by
  have hy : 0 < π / 2 := by positivity
  have hq : 0 ≤ x / (π / 2) := div_nonneg hx hy.le
  have h1 : Num.rem x (π / 2) = x - π / 2 * (⌊x / (π / 2)⌋ : ℝ) := by rw [r_rem, if_pos hq]
  have hfl := Int.floor_le (x / (π / 2))
  have hfl2 := Int.lt_floor_add_one (x / (π / 2))
  rw [le_div_iff₀ hy] at hfl
  rw [div_lt_iff₀ hy] at hfl2
  refine ⟨h1, ?_, ?_⟩ <;> rw [h1] <;> nlinarith

/-- the folded longitude of a non-negative longitude is in `[0, π/4]` (the `debug_assert!` of the code) -/
theorem fold_le (lon : ℝ) (h : 0 ≤ lon) : fold lon ≤ π / 4 := by
  obtain ⟨_, h0, h1⟩ := rem_halfPi_of_nonneg lon h
  unfold fold
  rw [abs_le]; constructor <;> linarith

/-- on `[0, π/2)` the remainder is the identity -/
theorem rem_small (x : ℝ) (h0 : 0 ≤ x) (h1 : x < π / 2) : Num.rem x (π / 2) = x := by
  have hy : 0 < π / 2 := by positivity
  rw [(rem_halfPi_of_nonneg x h0).1]
  have : ⌊x / (π / 2)⌋ = 0 := by
    rw [Int.floor_eq_iff]; constructor
    · simpa using div_nonneg h0 hy.le
    · simpa using (div_lt_one hy).mpr h1
  rw [this]; simp

theorem fold_small (x : ℝ) (h0 : 0 ≤ x) (h1 : x < π / 2) : fold x = |π / 4 - x| := by
  unfold fold; rw [rem_small x h0 h1]

/-- a negative longitude can fold outside `[0, π/4]` (finding F7: the `debug_assert!` fails; in release the linear
    envelope is evaluated beyond its range) -/
theorem fold_neg_example : fold (-(π / 4)) = π / 2 := by
  have hy : 0 < π / 2 := by positivity
  have hq : (-(π / 4)) / (π / 2) = -(1 / 2) := by field_simp; ring
  have hc : ⌈(-(1 / 2) : ℝ)⌉ = 0 := by
    rw [Int.ceil_eq_iff]; constructor <;> norm_num
  unfold fold
  rw [r_rem, hq, if_neg (by norm_num), hc]
  rw [show π / 4 - (-(π / 4) - π / 2 * ((0 : ℤ) : ℝ)) = π / 2 by push_cast; ring]
  exact abs_of_pos hy

/-- the folded longitude is the distance to the nearest meridian `π/4 + k·π/2`: no other centre is nearer -/
theorem fold_le_dist (x : ℝ) (hx : 0 ≤ x) (k : ℤ) : fold x ≤ |x - (π / 4 + π / 2 * (k : ℝ))| := by
  obtain ⟨h1, h0, h2⟩ := rem_halfPi_of_nonneg x hx
  have hpi := Real.pi_pos
  unfold fold
  set n : ℤ := ⌊x / (π / 2)⌋ with hn
  have hf : |π / 4 - Num.rem x (π / 2)| ≤ π / 4 := by rw [abs_le]; constructor <;> linarith
  rcases lt_trichotomy n k with hlt | heq | hgt
  · have : (n : ℝ) + 1 ≤ k := by exact_mod_cast hlt
    have : x - (π / 4 + π / 2 * (k : ℝ)) ≤ -(π / 4) := by rw [h1] at h2; nlinarith
    exact hf.trans (by rw [le_abs]; right; linarith)
  · rw [h1, ← heq, abs_sub_comm]; apply le_of_eq; congr 1; ring
  · have : (k : ℝ) + 1 ≤ n := by exact_mod_cast hgt
    have : π / 4 ≤ x - (π / 4 + π / 2 * (k : ℝ)) := by rw [h1] at h0; nlinarith
    exact hf.trans (by rw [le_abs]; left; linarith)

/-- the folding is 1-Lipschitz on the non-negative longitudes -/
theorem fold_le_add (x x' : ℝ) (hx : 0 ≤ x) (hx' : 0 ≤ x') : fold x' ≤ fold x + |x' - x| := by
  obtain ⟨h1, _, _⟩ := rem_halfPi_of_nonneg x hx
  have hk := fold_le_dist x' hx' ⌊x / (π / 2)⌋
  have hfx : fold x = |x - (π / 4 + π / 2 * (⌊x / (π / 2)⌋ : ℝ))| := by
    unfold fold; rw [h1, abs_sub_comm]; congr 1; ring
  rw [hfx]
  calc fold x' ≤ |x' - (π / 4 + π / 2 * (⌊x / (π / 2)⌋ : ℝ))| := hk
    _ = |(x - (π / 4 + π / 2 * (⌊x / (π / 2)⌋ : ℝ))) + (x' - x)| := by congr 1; ring
    _ ≤ _ := abs_add_le _ _

/-! ## Task 2 — the `_with_radius` helpers are the maxima of the pointwise envelopes over a band

The sign hypotheses on the constants (`0 ≤ slopeNpc`, `0 ≤ slopeEqr`, `coeffX2Eqr ≤ 0`) are the ones the design of the
helpers presupposes; here the constants are arbitrary reals.  For `ConstantsC2V::new(depth)` the first and the third
hold (`new_slopeNpc_nonneg`, `new_coeffX2Eqr_neg`) but the second does NOT (`new_slopeEqr_neg`, further down). -/

/-- **polar caps** (`largest_c2v_dist_in_npc_with_radius`).  With `l = fold lon`: the value is
    `npcEnv (min (l + r) (π/4))`; it dominates the pointwise envelope at every longitude `lon'` whose FOLDED value is
    at most `l + r` and at most `π/4` — the band `{lon' : fold lon' ∈ [0, min (l + r) (π/4)]}`, which contains
    `{lon' : |fold lon' − l| ≤ r, fold lon' ≤ π/4}` — and it is attained in that band (at `lon' = π/4 − min (l + r) (π/4)`)
    when `0 ≤ r` and `l ≤ π/4`: it is the maximum.  NOTE: the band is a band of *longitudes* of half-width `r`,
    not of angular distances: see `npc_with_radius_not_cone_bound`. -/
theorem npc_with_radius_is_sup (c : Csts ℝ) (hs : 0 ≤ c.slopeNpc) (lon r : ℝ) :
    npcWithRadius false lon r c = some (npcEnv c (min (fold lon + r) (π / 4))) ∧
    (∀ lon', fold lon' ≤ fold lon + r → fold lon' ≤ π / 4 →
      ∀ w, npc false lon' c = some w → w ≤ npcEnv c (min (fold lon + r) (π / 4))) ∧
    (0 ≤ r → fold lon ≤ π / 4 →
      ∃ lon', 0 ≤ lon' ∧ |fold lon' - fold lon| ≤ r ∧ fold lon' ≤ π / 4 ∧
        npc false lon' c = some (npcEnv c (min (fold lon + r) (π / 4)))) := by
  refine ⟨npcWithRadius_false lon r c, ?_, ?_⟩
  · intro lon' h1 h2 w hw
    rw [npc_false] at hw
    cases hw
    unfold npcEnv
    have : fold lon' ≤ min (fold lon + r) (π / 4) := le_min h1 h2
    nlinarith
  · intro hr hl
    have hpi := Real.pi_pos
    have h0 := fold_nonneg lon
    set m := min (fold lon + r) (π / 4) with hm
    have hm0 : 0 ≤ m := le_min (by linarith) (by linarith)
    have hm1 : m ≤ π / 4 := min_le_right _ _
    have hf : fold (π / 4 - m) = m := by
      rw [fold_small _ (by linarith) (by linarith)]
      rw [show π / 4 - (π / 4 - m) = m by ring]; exact abs_of_nonneg hm0
    refine ⟨π / 4 - m, by linarith, ?_, ?_, ?_⟩
    · rw [hf, abs_le]
      have : m ≤ fold lon + r := min_le_left _ _
      have : fold lon ≤ m := le_min (by linarith) hl
      constructor <;> linarith
    · rw [hf]; exact hm1
    · rw [npc_false, hf]

/-- in terms of longitudes: for non-negative longitudes at most `r` apart (as *longitudes*), the value with radius
    dominates the pointwise one -/
theorem npc_with_radius_lon_band (c : Csts ℝ) (hs : 0 ≤ c.slopeNpc) (lon lon' r : ℝ) (h0 : 0 ≤ lon) (h0' : 0 ≤ lon')
    (hd : |lon' - lon| ≤ r) :
    npcEnv c (fold lon') ≤ npcEnv c (min (fold lon + r) (π / 4)) := by
  have h1 : fold lon' ≤ fold lon + r := (fold_le_add lon lon' h0 h0').trans (by linarith)
  have h2 := fold_le lon' h0'
  have : fold lon' ≤ min (fold lon + r) (π / 4) := le_min h1 h2
  unfold npcEnv; nlinarith

/-- **equatorial region, upper part** (`largest_c2v_dist_in_eqr_top_with_radius`): the value is
    `topEnv (min (|lat| + r) tl)`; it dominates `topEnv x` for every `x ≤ |lat| + r`, `x ≤ tl` (in particular on the
    band `[|lat| − r, |lat| + r] ∩ [lsc, tl)`), and it is attained at `x = min (|lat| + r) tl`, which belongs to
    `[|lat| − r, |lat| + r]` when `0 ≤ r`, `|lat| ≤ tl` (and to the half-open region `[lsc, tl)` iff `|lat| + r < tl`,
    `lsc ≤ |lat| + r`: otherwise it is the supremum, reached at the closed end `tl`). -/
theorem eqr_top_with_radius_is_sup (c : Csts ℝ) (hs : 0 ≤ c.slopeEqr) (x r : ℝ) :
    eqrTopWithRadius false x r c = some (topEnv c (min (x + r) tl)) ∧
    (∀ x', x' ≤ x + r → x' ≤ tl → ∀ w, eqrTop false x' c = some w → w ≤ topEnv c (min (x + r) tl)) ∧
    (0 ≤ r → x ≤ tl → |min (x + r) tl - x| ≤ r ∧ min (x + r) tl ≤ tl ∧
      eqrTop false (min (x + r) tl) c = some (topEnv c (min (x + r) tl))) := by
  refine ⟨eqrTopWithRadius_false x r c, ?_, ?_⟩
  · intro x' h1 h2 w hw
    rw [eqrTop_false] at hw; cases hw
    have : x' ≤ min (x + r) tl := le_min h1 h2
    unfold topEnv; nlinarith
  · intro hr hx
    refine ⟨?_, min_le_right _ _, eqrTop_false _ _⟩
    have h1 : min (x + r) tl ≤ x + r := min_le_left _ _
    have h2 : x ≤ min (x + r) tl := le_min (by linarith) hx
    rw [abs_le]; constructor <;> linarith

/-- **equatorial region, lower part** (`largest_c2v_dist_in_eqr_bottom_with_radius`): the value is
    `botEnv (max (|lat| − r) 0)`; it dominates `botEnv x` for every `x ≥ max (|lat| − r) 0` (in particular on the band
    `[|lat| − r, |lat| + r] ∩ [0, lsc]`), and it is attained at `x = max (|lat| − r) 0`, which belongs to the band when
    `0 ≤ r`, `0 ≤ |lat|`: it is the maximum. -/
theorem eqr_bottom_with_radius_is_sup (c : Csts ℝ) (hs : c.coeffX2Eqr ≤ 0) (x r : ℝ) :
    eqrBottomWithRadius false x r c = some (botEnv c (max (x - r) 0)) ∧
    (∀ x', max (x - r) 0 ≤ x' → ∀ w, eqrBottom false x' c = some w → w ≤ botEnv c (max (x - r) 0)) ∧
    (0 ≤ r → 0 ≤ x → |max (x - r) 0 - x| ≤ r ∧ 0 ≤ max (x - r) 0 ∧
      eqrBottom false (max (x - r) 0) c = some (botEnv c (max (x - r) 0))) := by
  refine ⟨eqrBottomWithRadius_false x r c, ?_, ?_⟩
  · intro x' h1 w hw
    rw [eqrBottom_false] at hw; cases hw
    have h0 : 0 ≤ max (x - r) 0 := le_max_right _ _
    have : max (x - r) 0 * max (x - r) 0 ≤ x' * x' := mul_le_mul h1 h1 h0 (h0.trans h1)
    unfold botEnv; nlinarith
  · intro hr hx
    refine ⟨?_, le_max_right _ _, eqrBottom_false _ _⟩
    have h1 : x - r ≤ max (x - r) 0 := le_max_left _ _
    have h2 : max (x - r) 0 ≤ x := max_le (by linarith) hx
    rw [abs_le]; constructor <;> linarith

/-! ### the public function with radius -/

/-- the value of `largest_center_to_vertex_distance_with_radius` for constants `c` -/
noncomputable def c2vR (c : Csts ℝ) (lon lat r : ℝ) : ℝ :=
  if tl ≤ |lat| + r then npcEnv c (min (fold lon + r) (π / 4))
  else if lsc ≤ |lat| - r then topEnv c (min (|lat| + r) tl)
  else if |lat| + r ≤ lsc then botEnv c (max (|lat| - r) 0)
  else max (topEnv c (min (|lat| + r) tl)) (botEnv c (max (|lat| - r) 0))

/-- region choice of the function with radius (ℝ, release) -/
theorem c2v_with_radius_region_choice (depth : Nat) (lon lat r : ℝ) :
    largestC2VWithRadius false depth lon lat r =
      if depth = 0 then some (π / 2 - tl) else if 29 < depth then none
      else some (c2vR (Csts.new depth) lon lat r) := by
  unfold largestC2VWithRadius c2vR
  by_cases h0 : depth = 0
  · simp [h0]; rfl
  · by_cases h29 : 29 < depth
    · simp [h0, h29]
    · simp only [beq_iff_eq, h0, if_false, gt_iff_lt, h29, r_ge, r_le, r_abs, decide_eq_true_eq, npcWithRadius_false,
        eqrTopWithRadius_false, eqrBottomWithRadius_false, r_fmax]
      split
      · rfl
      · split
        · rfl
        · split <;> rfl

/-- **`c2v_with_radius_is_sup`** (upper-bound part, constants arbitrary reals with the three sign facts and the
    continuity of the two equatorial envelopes at `lsc`).  For every position `(lon', lat')` whose latitude satisfies
    `| |lat'| − |lat| | ≤ r` (true whenever `|lat' − lat| ≤ r`):
    * if `|lat| + r < tl` (the band does not reach the polar caps): the value with radius dominates the pointwise value,
      whatever the longitudes;
    * if `tl ≤ |lat| + r` (the polar-cap branch is taken): it dominates the pointwise value **only** at the positions
      that are in a polar cap (`tl ≤ |lat'|`) and whose folded longitude is at most `fold lon + r` and `π/4`. -/
theorem c2v_with_radius_is_sup (c : Csts ℝ) (h1 : 0 ≤ c.slopeNpc) (h2 : 0 ≤ c.slopeEqr) (h3 : c.coeffX2Eqr ≤ 0)
    (hcont : topEnv c lsc = botEnv c lsc) (lon lat r lon' lat' : ℝ) (hband : |(|lat'| - |lat|)| ≤ r) :
    (|lat| + r < tl → c2v c lon' lat' ≤ c2vR c lon lat r) ∧
    (tl ≤ |lat| + r → tl ≤ |lat'| → fold lon' ≤ fold lon + r → fold lon' ≤ π / 4 →
      c2v c lon' lat' ≤ c2vR c lon lat r) := by
  obtain ⟨hb1, hb2⟩ := abs_le.mp hband
  have ha' := abs_nonneg lat'
  constructor
  · intro hlt
    have hlt' : |lat'| < tl := by linarith
    unfold c2v c2vR
    rw [if_neg (not_le.mpr hlt'), if_neg (not_le.mpr hlt)]
    have hmin : min (|lat| + r) tl = |lat| + r := min_eq_left hlt.le
    rw [hmin]
    have htop : ∀ x, x ≤ |lat| + r → topEnv c x ≤ topEnv c (|lat| + r) := by
      intro x hx; unfold topEnv; nlinarith
    have hbot : ∀ x, max (|lat| - r) 0 ≤ x → botEnv c x ≤ botEnv c (max (|lat| - r) 0) := by
      intro x hx
      have h0 : 0 ≤ max (|lat| - r) 0 := le_max_right _ _
      have : max (|lat| - r) 0 * max (|lat| - r) 0 ≤ x * x := mul_le_mul hx hx h0 (h0.trans hx)
      unfold botEnv; nlinarith
    have hmx : max (|lat| - r) 0 ≤ |lat'| := max_le (by linarith) ha'
    by_cases hB : lsc ≤ |lat| - r
    · rw [if_pos hB, if_pos (by linarith : lsc ≤ |lat'|)]
      exact htop _ (by linarith)
    · rw [if_neg hB]
      by_cases hC : |lat| + r ≤ lsc
      · rw [if_pos hC]
        by_cases hl : lsc ≤ |lat'|
        · rw [if_pos hl]
          have : |lat'| = lsc := le_antisymm (by linarith) hl
          rw [this, hcont]
          exact hbot _ (this ▸ hmx)
        · rw [if_neg hl]; exact hbot _ hmx
      · rw [if_neg hC]
        by_cases hl : lsc ≤ |lat'|
        · rw [if_pos hl]; exact (htop _ (by linarith)).trans (le_max_left _ _)
        · rw [if_neg hl]; exact (hbot _ hmx).trans (le_max_right _ _)
  · intro hge hpol hf1 hf2
    unfold c2v c2vR
    rw [if_pos hpol, if_pos hge]
    have : fold lon' ≤ min (fold lon + r) (π / 4) := le_min hf1 hf2
    unfold npcEnv; nlinarith

/-- the same for the model functions at `ConstantsC2V::new(depth)`, `1 ≤ depth ≤ 29` -/
theorem largestC2VWithRadius_is_upper_bound (depth : Nat) (hd1 : 1 ≤ depth) (hd2 : depth ≤ 29)
    (h1 : 0 ≤ (Csts.new depth : Csts ℝ).slopeNpc) (h2 : 0 ≤ (Csts.new depth : Csts ℝ).slopeEqr)
    (h3 : (Csts.new depth : Csts ℝ).coeffX2Eqr ≤ 0)
    (hcont : topEnv (Csts.new depth) lsc = botEnv (Csts.new depth) lsc)
    (lon lat r lon' lat' : ℝ) (hband : |(|lat'| - |lat|)| ≤ r)
    (hreg : |lat| + r < tl ∨ (tl ≤ |lat'| ∧ fold lon' ≤ fold lon + r ∧ fold lon' ≤ π / 4)) :
    ∃ v w, largestC2VWithRadius false depth lon lat r = some v ∧ largestC2V false depth lon' lat' = some w ∧ w ≤ v := by
  refine ⟨c2vR (Csts.new depth) lon lat r, c2v (Csts.new depth) lon' lat', ?_, ?_, ?_⟩
  · rw [c2v_with_radius_region_choice, if_neg (by omega), if_neg (by omega)]
  · rw [c2v_region_choice, if_neg (by omega), if_neg (by omega)]
  · have := c2v_with_radius_is_sup _ h1 h2 h3 hcont lon lat r lon' lat' hband
    rcases hreg with h | ⟨ha, hb, hc⟩
    · exact this.1 h
    · rcases lt_or_ge (|lat| + r) tl with h | h
      · exact this.1 h
      · exact this.2 h ha hb hc

/-! ### facts about the two latitudes, and the continuity hypothesis for `ConstantsC2V::new` -/

theorem r_lsc : lsc = Real.arccos (Real.sqrt (2 / 3 * (4 / π))) := rfl

theorem tl_pos : 0 < tl := Real.arcsin_pos.mpr (by norm_num)

theorem lsc_arg_lt_one : Real.sqrt (2 / 3 * (4 / π)) < 1 := by
  have hpi := Real.pi_gt_three
  rw [Real.sqrt_lt' (by norm_num)]
  rw [show (2 : ℝ) / 3 * (4 / π) = 8 / (3 * π) by field_simp; ring, div_lt_iff₀ (by positivity)]
  nlinarith

theorem lsc_pos : 0 < lsc := Real.arccos_pos.mpr lsc_arg_lt_one

/-- `LAT_OF_SQUARE_CELL < TRANSITION_LATITUDE` (`8/(3π) > 5/9`) -/
theorem lsc_lt_tl : lsc < tl := by
  have hpi := Real.pi_lt_d2
  have hpi0 := Real.pi_pos
  show Real.arccos (Real.sqrt (2 / 3 * (4 / π))) < Real.arcsin (2 / 3)
  rw [Real.arcsin_eq_arccos (by norm_num)]
  apply Real.strictAntiOn_arccos
  · constructor
    · linarith [Real.sqrt_nonneg (1 - (2 / 3 : ℝ) ^ 2)]
    · rw [Real.sqrt_le_iff]; norm_num
  · exact ⟨by linarith [Real.sqrt_nonneg (2 / 3 * (4 / π))], lsc_arg_lt_one.le⟩
  · apply Real.sqrt_lt_sqrt (by norm_num)
    rw [show (2 : ℝ) / 3 * (4 / π) = 8 / (3 * π) by field_simp; ring, lt_div_iff₀ (by positivity)]
    norm_num at hpi ⊢
    nlinarith

/-- over ℝ the linear and the parabolic envelopes of `ConstantsC2V::new(depth)` take the same value at `lsc`
    (`4/π · cos(lsc) / nside`), for every depth -/
theorem new_continuous_at_lsc (depth : Nat) :
    topEnv (Csts.new depth : Csts ℝ) lsc = botEnv (Csts.new depth : Csts ℝ) lsc := by
  have h := lsc_pos.ne'
  unfold topEnv botEnv Csts.new
  simp only [pow2]
  field_simp
  ring

/-! ### finding F12: the polar-cap branch is not a bound over the cone

The cone of centre `(lon, lat)` and angular radius `r` contains positions whose longitude differs from `lon` by about
`r / cos lat > r`; `largest_c2v_dist_in_npc_with_radius` widens the folded longitude by `r` only.  Concretely, for
any constants with `slopeNpc > 0`: centre `(π/4, π/3)`, `r = 2·asin(sin(π/8)/2) ≈ 0.385 < π/4`; the position
`(π/2, π/3)` is at angular distance exactly `r` from the centre, in the same polar cap, and its pointwise value
`npcEnv (π/4)` exceeds the value with radius `npcEnv r`. -/

/-- the radius of the counter-example -/
noncomputable def cexR : ℝ := 2 * Real.arcsin (Real.sin (π / 8) / 2)

theorem sin_pi8_pos : 0 < Real.sin (π / 8) :=
  Real.sin_pos_of_pos_of_lt_pi (by positivity) (by linarith [Real.pi_pos])

theorem cexR_pos : 0 < cexR := by
  unfold cexR
  have := Real.arcsin_pos.mpr (show 0 < Real.sin (π / 8) / 2 by linarith [sin_pi8_pos])
  linarith

theorem cexR_lt : cexR < π / 4 := by
  unfold cexR
  have hpi := Real.pi_pos
  have h1 := Real.sin_le_one (π / 8)
  have : Real.arcsin (Real.sin (π / 8) / 2) < π / 8 := by
    rw [Real.arcsin_lt_iff_lt_sin ⟨by linarith [sin_pi8_pos], by linarith⟩ ⟨by linarith, by linarith⟩]
    linarith [sin_pi8_pos]
  linarith

theorem tl_le_pi3 : tl ≤ π / 3 := by
  have hpi := Real.pi_pos
  show Real.arcsin (2 / 3) ≤ π / 3
  rw [Real.arcsin_le_iff_le_sin ⟨by norm_num, by norm_num⟩ ⟨by linarith, by linarith⟩, Real.sin_pi_div_three]
  have : (4 / 3 : ℝ) ≤ Real.sqrt 3 := Real.le_sqrt_of_sq_le (by norm_num)
  linarith

theorem fold_pi4 : fold (π / 4) = 0 := by
  have hpi := Real.pi_pos
  rw [fold_small _ (by linarith) (by linarith)]; simp

theorem fold_pi2 : fold (π / 2) = π / 4 := by
  have hpi := Real.pi_pos
  have hy : 0 < π / 2 := by positivity
  unfold fold
  rw [(rem_halfPi_of_nonneg (π / 2) hy.le).1, div_self hy.ne']
  simp only [Int.floor_one, Int.cast_one, mul_one, sub_self, sub_zero]
  exact abs_of_pos (by positivity)

/-- the angular distance (haversine formula of the crate) between `(π/4, π/3)` and `(π/2, π/3)` is `cexR` -/
theorem cex_distance :
    spheDist (squaredHalfSegment (π / 2 - π / 4 : ℝ) (π / 3 - π / 3) (Num.cos (π / 3 : ℝ)) (Num.cos (π / 3 : ℝ))) = cexR := by
  unfold spheDist squaredHalfSegment pow2 cexR
  rw [r_two, r_half, r_cos, r_sin, r_sin, r_asin, Real.cos_pi_div_three]
  show 2 * Real.arcsin (Real.sqrt _) = _
  congr 2
  rw [show (1 : ℝ) / 2 * (π / 3 - π / 3) = 0 by ring, Real.sin_zero,
    show (1 : ℝ) / 2 * (π / 2 - π / 4) = π / 8 by ring]
  rw [show (0 : ℝ) * 0 + 1 / 2 * (1 / 2) * (Real.sin (π / 8) * Real.sin (π / 8)) = (Real.sin (π / 8) / 2) ^ 2 by ring]
  exact Real.sqrt_sq (by linarith [sin_pi8_pos])

/-- **F12, counter-example**: for every constants with `slopeNpc > 0`, the position `(π/2, π/3)` is in the cone of
    centre `(π/4, π/3)` and radius `cexR` (at distance exactly `cexR`, `cex_distance`), in the north polar cap like the
    centre, and `largest_center_to_vertex_distance` there is strictly larger than
    `largest_center_to_vertex_distance_with_radius` of the cone. -/
theorem npc_with_radius_not_cone_bound (c : Csts ℝ) (hs : 0 < c.slopeNpc) :
    tl ≤ |(π / 3 : ℝ)| ∧ c2vR c (π / 4) (π / 3) cexR = npcEnv c cexR ∧ c2v c (π / 2) (π / 3) = npcEnv c (π / 4) ∧
    c2vR c (π / 4) (π / 3) cexR < c2v c (π / 2) (π / 3) := by
  have hpi := Real.pi_pos
  have habs : |(π / 3 : ℝ)| = π / 3 := abs_of_pos (by positivity)
  have h1 : tl ≤ |(π / 3 : ℝ)| := by rw [habs]; exact tl_le_pi3
  have h2 : c2vR c (π / 4) (π / 3) cexR = npcEnv c cexR := by
    unfold c2vR
    rw [if_pos (by linarith [cexR_pos]), fold_pi4, zero_add, min_eq_left cexR_lt.le]
  have h3 : c2v c (π / 2) (π / 3) = npcEnv c (π / 4) := by
    unfold c2v; rw [if_pos h1, fold_pi2]
  refine ⟨h1, h2, h3, ?_⟩
  rw [h2, h3]; unfold npcEnv
  nlinarith [cexR_lt]

/-- the same on the model functions, at any depth whose `slope_npc` is positive -/
theorem largestC2VWithRadius_not_cone_bound (depth : Nat) (hd1 : 1 ≤ depth) (hd2 : depth ≤ 29)
    (hs : 0 < (Csts.new depth : Csts ℝ).slopeNpc) :
    ∃ v w, largestC2VWithRadius false depth (π / 4 : ℝ) (π / 3) cexR = some v ∧
      largestC2V false depth (π / 2 : ℝ) (π / 3) = some w ∧ v < w := by
  refine ⟨c2vR (Csts.new depth) (π / 4) (π / 3) cexR, c2v (Csts.new depth) (π / 2) (π / 3), ?_, ?_,
    (npc_with_radius_not_cone_bound _ hs).2.2.2⟩
  · rw [c2v_with_radius_region_choice, if_neg (by omega), if_neg (by omega)]
  · rw [c2v_region_choice, if_neg (by omega), if_neg (by omega)]

/-! ## Task 3 — the multi-depth function agrees with the single-depth one (ℝ, release) -/

theorem mapM_some_eq {β : Type} (g : Nat → β) (l : List Nat) : l.mapM (fun d => some (g d)) = some (l.map g) := by
  induction l with
  | nil => rfl
  | cons a l ih => rw [List.mapM_cons, ih]; rfl

theorem mapM_congr' {β : Type} (f f' : Nat → Option β) (l : List Nat) (h : ∀ d ∈ l, f d = f' d) :
    l.mapM f = l.mapM f' := by
  induction l with
  | nil => rfl
  | cons a l ih =>
    rw [List.mapM_cons, List.mapM_cons, h a List.mem_cons_self, ih fun d hd => h d (List.mem_cons_of_mem _ hd)]

theorem mapM_none_of_mem {β : Type} (f : Nat → Option β) (l : List Nat) (d : Nat) (hd : d ∈ l) (h : f d = none) :
    l.mapM f = none := by
  induction l with
  | nil => cases hd
  | cons a l ih =>
    rw [List.mapM_cons]
    rcases List.mem_cons.mp hd with rfl | hd'
    · rw [h]; rfl
    · rw [ih hd']; cases f a <;> rfl

/-- the depths handled by `largest_center_to_vertex_distances_with_radius(from, to, …)`: `from, …, to − 1`, except
    that `from = 0` always yields the depth-0 value first (even when `to = 0`) -/
def depthsOf (f t : Nat) : List Nat :=
  if f = 0 then 0 :: (List.range t).filter (· ≥ 1) else (List.range t).filter (· ≥ f)

theorem filter_ge_range (f : Nat) : ∀ t, (List.range t).filter (· ≥ f) = List.range' f (t - f)
  | 0 => by simp
  | t + 1 => by
    rw [List.range_succ, List.filter_append, filter_ge_range f t]
    by_cases h : f ≤ t
    · have h1 : t + 1 - f = (t - f) + 1 := by omega
      have h2 : f + (t - f) = t := by omega
      rw [h1, List.range'_concat, Nat.one_mul, h2]
      simp [h]
    · have h1 : t + 1 - f = 0 := by omega
      have h2 : t - f = 0 := by omega
      rw [h1, h2]; simp [h]

/-- for `from < to` these are the depths `from, from + 1, …, to − 1` -/
theorem depthsOf_eq_range' (f t : Nat) (h : f < t) : depthsOf f t = List.range' f (t - f) := by
  unfold depthsOf
  split
  · subst f
    rw [filter_ge_range 1 t, show t - 0 = (t - 1) + 1 by omega, List.range'_succ]
  · exact filter_ge_range f t

/-- **`c2vs_with_radius_agree`** (ℝ, release): `largest_center_to_vertex_distances_with_radius(from, to, lon, lat, r)`
    returns, depth by depth (`depthsOf from to`: the half-open range `[from, to)`, plus depth 0 when `from = to = 0`),
    exactly the values of `largest_center_to_vertex_distance_with_radius(depth, lon, lat, r)`, and panics exactly when
    one of them does (a depth above 29). -/
theorem c2vs_with_radius_agree (f t : Nat) (lon lat r : ℝ) :
    largestC2VsWithRadius false f t lon lat r =
      (depthsOf f t).mapM fun d => largestC2VWithRadius false d lon lat r := by
  -- the positive depths
  set ds := (List.range t).filter (· ≥ (if (f == 0) = true then 1 else f)) with hds
  have hpos : ∀ d ∈ ds, 1 ≤ d := by
    intro d hd
    have := (List.mem_filter.mp hd).2
    by_cases hf : f = 0
    · simpa [hf] using this
    · have h2 : f ≤ d := by simpa [hf] using this
      omega
  have hsplit : (depthsOf f t).mapM (fun d => largestC2VWithRadius false d lon lat r) =
      (ds.mapM fun d => largestC2VWithRadius false d lon lat r).map
        ((if (f == 0) = true then [(Num.halfPi : ℝ) - Num.transitionLat] else []) ++ ·) := by
    unfold depthsOf
    by_cases hf : f = 0
    · subst hf
      simp only [if_true, beq_self_eq_true, List.mapM_cons] at hds ⊢
      rw [← hds]
      have : largestC2VWithRadius false 0 lon lat r = some ((Num.halfPi : ℝ) - Num.transitionLat) := by
        simp [largestC2VWithRadius]
      rw [this]
      cases ds.mapM fun d => largestC2VWithRadius false d lon lat r <;> rfl
    · have hb : (f == 0) = false := beq_false_of_ne hf
      simp only [hf, hb, if_false, Bool.false_eq_true] at hds ⊢
      rw [← hds]
      cases ds.mapM fun d => largestC2VWithRadius false d lon lat r <;> simp
  rw [hsplit]
  unfold largestC2VsWithRadius
  simp only [Bool.false_and, Bool.false_eq_true, if_false]
  rw [← hds]
  by_cases hany : ds.any (· > 29) = true
  · rw [if_pos hany]
    obtain ⟨d, hd, h29⟩ := List.any_eq_true.mp hany
    have h29' : 29 < d := by simpa using h29
    rw [mapM_none_of_mem _ ds d hd (by rw [c2v_with_radius_region_choice, if_neg (by have := hpos d hd; omega), if_pos h29'])]
    rfl
  · rw [if_neg hany]
    have hall : ∀ d ∈ ds, largestC2VWithRadius false d lon lat r = some (c2vR (Csts.new d) lon lat r) := by
      intro d hd
      have h1 := hpos d hd
      have h2 : ¬ 29 < d := by
        intro h; exact hany (List.any_eq_true.mpr ⟨d, hd, by simpa using h⟩)
      rw [c2v_with_radius_region_choice, if_neg (by omega), if_neg h2]
    rw [mapM_congr' _ _ ds hall, mapM_some_eq]
    congr 1
    simp only [r_ge, r_le, r_abs, decide_eq_true_eq, eqrTop_false, eqrBottom_false, mapM_some_eq, r_fmin, r_fmax, r_zero]
    unfold c2vR
    by_cases hA : tl ≤ |lat| + r
    · simp only [if_pos hA]; rfl
    · simp only [if_neg hA]
      have hmin : min (|lat| + r) tl = |lat| + r := min_eq_left (not_le.mp hA).le
      by_cases hB : lsc ≤ |lat| - r
      · simp only [if_pos hB, hmin]
      · simp only [if_neg hB]
        by_cases hC : |lat| + r ≤ lsc
        · simp only [if_pos hC]
        · simp only [if_neg hC, hmin]

/-! ### the dev profile (`debug = true`): the two functions do NOT agree (finding F7)

When the band `[|lat| − r, |lat| + r]` straddles `lsc` without reaching `tl`, the single-depth function calls both
`…_eqr_top_with_radius` and `…_eqr_bottom_with_radius` with the same `|lat|`; their `debug_assert!`s
(`lsc ≤ |lat|` resp. `|lat| ≤ lsc`) exclude each other unless `|lat| = lsc`: it panics.  The multi-depth function
calls the helpers without radius on the clamped ends of the band, whose assertions hold: it returns the release values. -/

theorem with_radius_debug_straddle_panics (depth : Nat) (hd1 : 1 ≤ depth) (hd2 : depth ≤ 29) (lon lat r : ℝ)
    (hA : |lat| + r < tl) (hB : |lat| - r < lsc) (hC : lsc < |lat| + r) (hne : |lat| ≠ lsc) :
    largestC2VWithRadius true depth lon lat r = none := by
  unfold largestC2VWithRadius
  have h0 : (depth == 0) = false := beq_false_of_ne (by omega)
  simp only [h0, Bool.false_eq_true, if_false, gt_iff_lt, not_lt.mpr hd2, r_ge, r_le, r_abs, decide_eq_true_eq,
    not_le.mpr hA, not_le.mpr hB, not_le.mpr hC]
  rcases lt_or_gt_of_ne hne with h | h
  · have : eqrTopWithRadius true |lat| r (Csts.new depth : Csts ℝ) = none := by
      unfold eqrTopWithRadius
      simp [r_le, r_lt, not_le.mpr h]
    rw [this]
  · have : eqrBottomWithRadius true |lat| r (Csts.new depth : Csts ℝ) = none := by
      unfold eqrBottomWithRadius
      simp [r_le, r_lt, not_le.mpr h]
    rw [this]
    cases eqrTopWithRadius true |lat| r (Csts.new depth : Csts ℝ) <;> rfl

theorem c2vs_debug_straddle (f t : Nat) (hft : f ≤ t) (lon lat r : ℝ)
    (hA : |lat| + r < tl) (hB : |lat| - r < lsc) (hC : lsc < |lat| + r) :
    largestC2VsWithRadius true f t lon lat r = largestC2VsWithRadius false f t lon lat r := by
  unfold largestC2VsWithRadius
  have hmin : min (|lat| + r) tl = |lat| + r := min_eq_left hA.le
  have hmax : max (|lat| - r) 0 ≤ lsc := max_le hB.le lsc_pos.le
  have htop : ∀ c : Csts ℝ, eqrTop true (|lat| + r) c = eqrTop false (|lat| + r) c := by
    intro c; unfold eqrTop; simp [r_le, r_lt, hC.le, hA]
  have hbot : ∀ c : Csts ℝ, eqrBottom true (max (|lat| - r) 0) c = eqrBottom false (max (|lat| - r) 0) c := by
    intro c; unfold eqrBottom; simp [r_le, r_zero, hmax]
  simp only [Bool.true_and, Bool.false_and, decide_eq_true_eq, not_lt.mpr hft, Bool.false_eq_true, if_false, r_ge, r_le,
    r_abs, not_le.mpr hA, not_le.mpr hB, not_le.mpr hC, r_fmin, r_fmax, r_zero, hmin, htop, hbot]

/-! ### the sign of `slope_eqr`: with the constants of the crate it is NEGATIVE

`ConstantsC2V::new` computes the value of the upper equatorial envelope at `lsc` as `4/π · cos(lsc) / nside`
(≈ 1.173/nside; the comment in the source says `π/4`, ≈ 0.724/nside) and at `tl` as `tl − asin((1 − 1/nside)·2/3)`
(≈ 0.894/nside): the line goes DOWN with the latitude (`slope_eqr = −0.595, −0.264, …` at depths 1, 2, …; evaluated at
`Float` in the model).  `largest_c2v_dist_in_eqr_top_with_radius` evaluates the line at the TOP of the latitude band
`min (|lat| + r) tl`: with a negative slope that is the *minimum* of the pointwise envelope over the band, so
`…_with_radius(lat, r) < …(lat)` (e.g. `Float`, depth 6, lat 0.45, r 0.04: 0.017111 < 0.017648).
`eqr_top_with_radius_is_inf` / `eqr_top_with_radius_not_bound` state this for arbitrary constants with
`slopeEqr ≤ 0` / `< 0`; `new_slopeEqr_neg` proves `slopeEqr < 0` for `ConstantsC2V::new(depth)` over ℝ, every depth. -/

/-- with a non-positive slope the value with radius is a LOWER bound of the pointwise envelope on the band -/
theorem eqr_top_with_radius_is_inf (c : Csts ℝ) (hs : c.slopeEqr ≤ 0) (x r : ℝ) :
    ∀ x', x' ≤ x + r → x' ≤ tl → topEnv c (min (x + r) tl) ≤ topEnv c x' := by
  intro x' h1 h2
  have : x' ≤ min (x + r) tl := le_min h1 h2
  unfold topEnv; nlinarith

/-- with a negative slope and a positive radius, the value with radius is strictly below the pointwise value at the
    centre of the band itself -/
theorem eqr_top_with_radius_not_bound (c : Csts ℝ) (hs : c.slopeEqr < 0) (x r : ℝ) (hr : 0 < r) (hx : x < tl) :
    ∃ v w, eqrTopWithRadius false x r c = some v ∧ eqrTop false x c = some w ∧ v < w := by
  refine ⟨_, _, eqrTopWithRadius_false x r c, eqrTop_false x c, ?_⟩
  have : x < min (x + r) tl := lt_min (by linarith) hx
  unfold topEnv; nlinarith

/-- with a non-positive slope the maximum of the pointwise envelope over the band `[max (x − r) lsc, …]` is at its
    BOTTOM `max (x − r) lsc`, which the code does not evaluate -/
theorem eqr_top_true_sup_neg_slope (c : Csts ℝ) (hs : c.slopeEqr ≤ 0) (x r : ℝ) :
    ∀ x', max (x - r) lsc ≤ x' → topEnv c x' ≤ topEnv c (max (x - r) lsc) := by
  intro x' h; unfold topEnv; nlinarith

/-- the public functions: band inside `[lsc, tl)`, negative `slope_eqr`: the value with radius is strictly below the
    value without radius at the same position -/
theorem largestC2VWithRadius_lt_at_centre (depth : Nat) (hd1 : 1 ≤ depth) (hd2 : depth ≤ 29)
    (hs : (Csts.new depth : Csts ℝ).slopeEqr < 0) (lon lat r : ℝ) (hr : 0 < r)
    (hlo : lsc ≤ |lat| - r) (hhi : |lat| + r < tl) :
    ∃ v w, largestC2VWithRadius false depth lon lat r = some v ∧ largestC2V false depth lon lat = some w ∧ v < w := by
  refine ⟨c2vR (Csts.new depth) lon lat r, c2v (Csts.new depth) lon lat, ?_, ?_, ?_⟩
  · rw [c2v_with_radius_region_choice, if_neg (by omega), if_neg (by omega)]
  · rw [c2v_region_choice, if_neg (by omega), if_neg (by omega)]
  · unfold c2vR c2v
    rw [if_neg (not_le.mpr hhi), if_pos hlo, if_neg (not_le.mpr (by linarith)), if_pos (by linarith),
      min_eq_left hhi.le]
    unfold topEnv; nlinarith

/-! ### the signs of the constants of `ConstantsC2V::new(depth)` over ℝ, every depth -/

theorem r_nside (d : Nat) : (Num.ofNat (1 <<< d) : ℝ) = 2 ^ d := by
  rw [r_ofNat, Nat.one_shiftLeft]; push_cast; rfl

/-- `1/nside ∈ (0, 1]` -/
theorem distCw_range (d : Nat) : 0 < (1 : ℝ) / 2 ^ d ∧ (1 : ℝ) / 2 ^ d ≤ 1 := by
  have h : (1 : ℝ) ≤ 2 ^ d := one_le_pow₀ (by norm_num)
  exact ⟨by positivity, by rw [div_le_one (by positivity)]; exact h⟩

theorem r_cosLsc : (Num.cosLatOfSquareCell : ℝ) = Real.sqrt (2 / 3 * (4 / π)) := rfl

theorem new_slopeEqr_eq (d : Nat) :
    (Csts.new d : Csts ℝ).slopeEqr =
      ((tl - Real.arcsin ((1 - 1 / 2 ^ d) * (2 / 3))) - 4 / π * (1 / 2 ^ d) * Real.sqrt (2 / 3 * (4 / π))) / (tl - lsc) := by
  show (((Num.transitionLat : ℝ) - Num.asin ((Num.one - Num.one / Num.ofNat (1 <<< d)) * Num.transitionZ)) -
    (Num.fourOverPi : ℝ) * (Num.one / Num.ofNat (1 <<< d)) * Num.cosLatOfSquareCell) /
      ((Num.transitionLat : ℝ) - Num.latOfSquareCell) = _
  rw [r_nside, r_one, r_tz, r_fourOverPi, r_cosLsc, r_asin]

theorem new_coeffX2Eqr_eq (d : Nat) :
    (Csts.new d : Csts ℝ).coeffX2Eqr =
      (4 / π * (1 / 2 ^ d) * Real.sqrt (2 / 3 * (4 / π)) - 4 / π * (1 / 2 ^ d)) / (lsc * lsc) := by
  show ((Num.fourOverPi : ℝ) * (Num.one / Num.ofNat (1 <<< d)) * Num.cosLatOfSquareCell -
    (Num.fourOverPi : ℝ) * (Num.one / Num.ofNat (1 <<< d))) / pow2 (Num.latOfSquareCell : ℝ) = _
  rw [r_nside, r_one, r_fourOverPi, r_cosLsc]; rfl

/-- `coeff_x2_eqr < 0`: the parabola of the lower equatorial region opens downwards, as assumed -/
theorem new_coeffX2Eqr_neg (d : Nat) : (Csts.new d : Csts ℝ).coeffX2Eqr < 0 := by
  rw [new_coeffX2Eqr_eq]
  have hpi := Real.pi_pos
  have hδ := (distCw_range d).1
  have hs := lsc_arg_lt_one
  apply div_neg_of_neg_of_pos
  · have : 0 < 4 / π * (1 / 2 ^ d) := by positivity
    nlinarith
  · exact mul_pos lsc_pos lsc_pos

/-- `asin(2/3) − asin((1 − δ)·2/3) < 0.97·δ` for `0 < δ ≤ 1` -/
theorem arcsin_diff_bound (δ : ℝ) (h0 : 0 < δ) (h1 : δ ≤ 1) :
    Real.arcsin (2 / 3) - Real.arcsin ((1 - δ) * (2 / 3)) < 97 / 100 * δ := by
  have hpi := Real.pi_pos
  have hpi2 := Real.pi_lt_d2
  set a := Real.arcsin (2 / 3) with ha
  set b := Real.arcsin ((1 - δ) * (2 / 3)) with hb
  have hy0 : 0 ≤ (1 - δ) * (2 / 3) := by nlinarith
  have hy1 : (1 - δ) * (2 / 3) < 2 / 3 := by nlinarith
  have hb0 : 0 ≤ b := Real.arcsin_nonneg.mpr hy0
  have hba : b < a := Real.arcsin_lt_arcsin (by linarith) hy1 (by norm_num)
  have ha3 : a ≤ π / 3 := tl_le_pi3
  have hsa : Real.sin a = 2 / 3 := Real.sin_arcsin (by norm_num) (by norm_num)
  have hsb : Real.sin b = (1 - δ) * (2 / 3) := Real.sin_arcsin (by linarith) (by linarith)
  have hca0 : 0 ≤ Real.cos a := Real.cos_nonneg_of_neg_pi_div_two_le_of_le (by linarith) (by linarith)
  have hca2 : Real.cos a ^ 2 = 5 / 9 := by
    have := Real.cos_sq_add_sin_sq a
    rw [hsa] at this; linarith
  have hca : 745 / 1000 ≤ Real.cos a := by nlinarith
  have hc : Real.cos a ≤ Real.cos ((a + b) / 2) :=
    Real.cos_le_cos_of_nonneg_of_le_pi (by linarith) (by linarith) (by linarith)
  have hkey : Real.sin a - Real.sin b = 2 * Real.sin ((a - b) / 2) * Real.cos ((a + b) / 2) := Real.sin_sub_sin _ _
  rw [hsa, hsb] at hkey
  set x := (a - b) / 2 with hx
  have hx0 : 0 < x := by rw [hx]; linarith
  have hx1 : x ≤ 525 / 1000 := by rw [hx]; norm_num at hpi2; linarith
  have hsx := Real.sin_gt_sub_cube hx0
  have hsx' : 93 / 100 * x ≤ Real.sin x := by
    have : x ^ 3 = x * (x * x) := by ring
    have hxx : x * x ≤ 525 / 1000 * (525 / 1000) := mul_le_mul hx1 hx1 hx0.le (by norm_num)
    nlinarith
  have hprod : 93 / 100 * x * (745 / 1000) ≤ Real.sin x * Real.cos ((a + b) / 2) :=
    mul_le_mul hsx' (hca.trans hc) (by norm_num) (by linarith [mul_pos (by norm_num : (0 : ℝ) < 93 / 100) hx0])
  have hab : a - b = 2 * x := by rw [hx]; ring
  rw [hab]
  nlinarith

/-- `4/π · √(8/(3π)) > 1.16` -/
theorem dmin2_coeff_bound : 116 / 100 < 4 / π * Real.sqrt (2 / 3 * (4 / π)) := by
  have hpi := Real.pi_pos
  have hpi2 := Real.pi_lt_d2
  norm_num at hpi2
  have h1 : 1269 / 1000 < 4 / π := by rw [lt_div_iff₀ hpi]; nlinarith
  have h2 : 92 / 100 ≤ Real.sqrt (2 / 3 * (4 / π)) := by
    apply Real.le_sqrt_of_sq_le
    rw [show (2 : ℝ) / 3 * (4 / π) = 8 / (3 * π) by field_simp; ring, le_div_iff₀ (by positivity)]
    nlinarith
  nlinarith

/-- **`slope_eqr < 0` for every depth** (over ℝ): the upper equatorial envelope of the crate decreases with the
    latitude -/
theorem new_slopeEqr_neg (d : Nat) : (Csts.new d : Csts ℝ).slopeEqr < 0 := by
  rw [new_slopeEqr_eq]
  obtain ⟨h0, h1⟩ := distCw_range d
  apply div_neg_of_neg_of_pos
  · have hA := arcsin_diff_bound (1 / 2 ^ d) h0 h1
    have hB := dmin2_coeff_bound
    have : 116 / 100 * (1 / 2 ^ d) < 4 / π * (1 / 2 ^ d) * Real.sqrt (2 / 3 * (4 / π)) := by
      have := mul_lt_mul_of_pos_right hB h0
      linarith
    show Real.arcsin (2 / 3) - _ - _ < 0
    linarith
  · linarith [lsc_lt_tl]

/-- **unconditional**: at every depth `1 … 29`, for every band inside `[lsc, tl)` and every positive radius,
    `largest_center_to_vertex_distance_with_radius(depth, lon, lat, r)` is strictly smaller than
    `largest_center_to_vertex_distance(depth, lon, lat)` (exact arithmetic) -/
theorem largestC2VWithRadius_lt_at_centre' (depth : Nat) (hd1 : 1 ≤ depth) (hd2 : depth ≤ 29) (lon lat r : ℝ)
    (hr : 0 < r) (hlo : lsc ≤ |lat| - r) (hhi : |lat| + r < tl) :
    ∃ v w, largestC2VWithRadius false depth lon lat r = some v ∧ largestC2V false depth lon lat = some w ∧ v < w :=
  largestC2VWithRadius_lt_at_centre depth hd1 hd2 (new_slopeEqr_neg depth) lon lat r hr hlo hhi

/-- `slope_npc ≥ 0` for every depth (over ℝ): `d_max` is a great-circle distance whose latitude difference is `d_min` -/
theorem new_slopeNpc_nonneg (d : Nat) : 0 ≤ (Csts.new d : Csts ℝ).slopeNpc := by
  obtain ⟨h0, h1⟩ := distCw_range d
  have hpi := Real.pi_pos
  have cast_nside : (((1 <<< d : ℕ)) : ℝ) = 2 ^ d := by rw [Nat.one_shiftLeft]; push_cast; rfl
  have r_sqrt : ∀ x : ℝ, Num.sqrt x = Real.sqrt x := fun _ => rfl
  simp only [Csts.new, spheDist, squaredHalfSegment, pow2, r_one, r_two, r_half, r_asin, r_cos, r_sin, r_pi4,
    r_ofNat, cast_nside, r_sqrt]
  set δ : ℝ := 1 / 2 ^ d with hδ
  set latN := Real.arcsin (1 - (1 - δ) * (1 - δ) / ((3 : ℕ) : ℝ)) with hlatN
  set dMin := latN - (Num.transitionLat : ℝ) with hdMin
  have htl : (Num.transitionLat : ℝ) = Real.arcsin (2 / 3) := rfl
  have hdMin0 : 0 ≤ dMin := by
    rw [hdMin, htl, hlatN, sub_nonneg]
    apply Real.monotone_arcsin
    push_cast; nlinarith
  have hlatN1 : latN ≤ π / 2 := Real.arcsin_le_pi_div_two _
  have hlatN0 : -(π / 2) ≤ latN := Real.neg_pi_div_two_le_arcsin _
  have htl0 : 0 < (Num.transitionLat : ℝ) := tl_pos
  have hc1 : 0 ≤ Real.cos latN := Real.cos_nonneg_of_neg_pi_div_two_le_of_le hlatN0 hlatN1
  have hc2 : 0 ≤ Real.cos (Num.transitionLat : ℝ) :=
    Real.cos_nonneg_of_neg_pi_div_two_le_of_le (by linarith) (by rw [htl]; exact Real.arcsin_le_pi_div_two _)
  apply div_nonneg
  · rw [sub_nonneg]
    have hs0 : 0 ≤ Real.sin (1 / 2 * dMin) :=
      Real.sin_nonneg_of_nonneg_of_le_pi (by linarith) (by linarith)
    have hle : Real.sin (1 / 2 * dMin) ≤ Real.sqrt (Real.sin (1 / 2 * dMin) * Real.sin (1 / 2 * dMin) +
        Real.cos latN * Real.cos (Num.transitionLat : ℝ) *
          (Real.sin (1 / 2 * (π / 4 * δ)) * Real.sin (1 / 2 * (π / 4 * δ)))) := by
      apply Real.le_sqrt_of_sq_le
      have := mul_nonneg (mul_nonneg hc1 hc2) (mul_self_nonneg (Real.sin (1 / 2 * (π / 4 * δ))))
      nlinarith
    have hmono := Real.monotone_arcsin hle
    rw [Real.arcsin_sin (by linarith) (by linarith)] at hmono
    linarith
  · apply mul_nonneg (by positivity); linarith

/-- `slope_npc > 0` for every depth `≥ 1` (over ℝ) -/
theorem new_slopeNpc_pos (d : Nat) (hd : 1 ≤ d) : 0 < (Csts.new d : Csts ℝ).slopeNpc := by
  obtain ⟨h0, _⟩ := distCw_range d
  have h1 : (1 : ℝ) / 2 ^ d ≤ 1 / 2 := by
    have : (2 : ℝ) ^ 1 ≤ 2 ^ d := pow_le_pow_right₀ (by norm_num) hd
    rw [div_le_div_iff₀ (by positivity) (by norm_num)]; linarith
  have hpi := Real.pi_pos
  have cast_nside : (((1 <<< d : ℕ)) : ℝ) = 2 ^ d := by rw [Nat.one_shiftLeft]; push_cast; rfl
  have r_sqrt : ∀ x : ℝ, Num.sqrt x = Real.sqrt x := fun _ => rfl
  simp only [Csts.new, spheDist, squaredHalfSegment, pow2, r_one, r_two, r_half, r_asin, r_cos, r_sin, r_pi4,
    r_ofNat, cast_nside, r_sqrt]
  set δ : ℝ := 1 / 2 ^ d with hδ
  set latN := Real.arcsin (1 - (1 - δ) * (1 - δ) / ((3 : ℕ) : ℝ)) with hlatN
  set dMin := latN - (Num.transitionLat : ℝ) with hdMin
  have htl : (Num.transitionLat : ℝ) = Real.arcsin (2 / 3) := rfl
  have hdMin0 : 0 ≤ dMin := by
    rw [hdMin, htl, hlatN, sub_nonneg]
    apply Real.monotone_arcsin
    push_cast; nlinarith
  have hlatN1 : latN < π / 2 := by
    rw [hlatN, Real.arcsin_lt_pi_div_two]
    push_cast
    have : 0 < (1 - δ) * (1 - δ) := mul_pos (by linarith) (by linarith)
    linarith
  have hlatN0 : -(π / 2) ≤ latN := Real.neg_pi_div_two_le_arcsin _
  have htl0 : 0 < (Num.transitionLat : ℝ) := tl_pos
  have hc1 : 0 < Real.cos latN := Real.cos_pos_of_mem_Ioo ⟨by linarith [lsc_pos, hdMin0], hlatN1⟩
  have hc2 : 0 < Real.cos (Num.transitionLat : ℝ) :=
    Real.cos_pos_of_mem_Ioo ⟨by linarith, by linarith [tl_le_pi3]⟩
  have hs3 : 0 < Real.sin (1 / 2 * (π / 4 * δ)) :=
    Real.sin_pos_of_pos_of_lt_pi (by positivity) (by nlinarith)
  apply div_pos
  · rw [sub_pos]
    have hs0 : 0 ≤ Real.sin (1 / 2 * dMin) :=
      Real.sin_nonneg_of_nonneg_of_le_pi (by linarith) (by linarith)
    have hlt : Real.sin (1 / 2 * dMin) < Real.sqrt (Real.sin (1 / 2 * dMin) * Real.sin (1 / 2 * dMin) +
        Real.cos latN * Real.cos (Num.transitionLat : ℝ) *
          (Real.sin (1 / 2 * (π / 4 * δ)) * Real.sin (1 / 2 * (π / 4 * δ)))) := by
      apply Real.lt_sqrt_of_sq_lt
      have := mul_pos (mul_pos hc1 hc2) (mul_pos hs3 hs3)
      nlinarith
    set S := Real.sqrt (Real.sin (1 / 2 * dMin) * Real.sin (1 / 2 * dMin) +
        Real.cos latN * Real.cos (Num.transitionLat : ℝ) *
          (Real.sin (1 / 2 * (π / 4 * δ)) * Real.sin (1 / 2 * (π / 4 * δ)))) with hS
    have hhalf : 1 / 2 * dMin < Real.arcsin S := by
      rcases le_or_gt S 1 with hS1 | hS1
      · have := Real.arcsin_lt_arcsin (by linarith [Real.neg_one_le_sin (1 / 2 * dMin)]) hlt hS1
        rwa [Real.arcsin_sin (by linarith) (by linarith)] at this
      · rw [Real.arcsin_of_one_le hS1.le]; linarith
    linarith
  · apply mul_pos (by positivity); linarith

/-- **F12, unconditional**: at every depth `1 … 29` the position `(π/2, π/3)`, at angular distance exactly `cexR` from
    `(π/4, π/3)` (`cex_distance`) and in the same polar cap, has a pointwise value strictly above the value with radius
    of the cone `((π/4, π/3), cexR)` (exact arithmetic) -/
theorem largestC2VWithRadius_not_cone_bound' (depth : Nat) (hd1 : 1 ≤ depth) (hd2 : depth ≤ 29) :
    ∃ v w, largestC2VWithRadius false depth (π / 4 : ℝ) (π / 3) cexR = some v ∧
      largestC2V false depth (π / 2 : ℝ) (π / 3) = some w ∧ v < w :=
  largestC2VWithRadius_not_cone_bound depth hd1 hd2 (new_slopeNpc_pos depth hd1)

/-! ### what the function with radius does bound, with the ACTUAL signs (`slopeEqr ≤ 0`)

With a decreasing upper equatorial envelope the value with radius is an upper bound of the pointwise value over the
latitude band exactly when the band reaches below `lsc` (`|lat| − r < lsc`) and does not reach `tl`: then the maximum
of the pointwise value over the band is the parabola at the bottom of the band, which the code does evaluate.  When the
band lies inside `[lsc, tl)` it is not (`largestC2VWithRadius_lt_at_centre'`). -/

theorem c2v_with_radius_upper_neg_slope (c : Csts ℝ) (h2 : c.slopeEqr ≤ 0) (h3 : c.coeffX2Eqr ≤ 0)
    (hcont : topEnv c lsc = botEnv c lsc) (lon lat r lon' lat' : ℝ) (hband : |(|lat'| - |lat|)| ≤ r)
    (hA : |lat| + r < tl) (hB : |lat| - r < lsc) :
    c2v c lon' lat' ≤ c2vR c lon lat r := by
  obtain ⟨hb1, hb2⟩ := abs_le.mp hband
  have ha' := abs_nonneg lat'
  have hlt' : |lat'| < tl := by linarith
  unfold c2v c2vR
  rw [if_neg (not_le.mpr hlt'), if_neg (not_le.mpr hA), if_neg (not_le.mpr hB)]
  have hbot : ∀ x, max (|lat| - r) 0 ≤ x → botEnv c x ≤ botEnv c (max (|lat| - r) 0) := by
    intro x hx
    have h0 : 0 ≤ max (|lat| - r) 0 := le_max_right _ _
    have : max (|lat| - r) 0 * max (|lat| - r) 0 ≤ x * x := mul_le_mul hx hx h0 (h0.trans hx)
    unfold botEnv; nlinarith
  have hmx : max (|lat| - r) 0 ≤ |lat'| := max_le (by linarith) ha'
  have htop : ∀ x, lsc ≤ x → topEnv c x ≤ botEnv c (max (|lat| - r) 0) := by
    intro x hx
    have h1 : topEnv c x ≤ topEnv c lsc := by unfold topEnv; nlinarith
    have h2 : max (|lat| - r) 0 ≤ lsc := max_le hB.le lsc_pos.le
    exact h1.trans (hcont ▸ hbot _ h2)
  by_cases hC : |lat| + r ≤ lsc
  · rw [if_pos hC]
    by_cases hl : lsc ≤ |lat'|
    · rw [if_pos hl]; exact htop _ hl
    · rw [if_neg hl]; exact hbot _ hmx
  · rw [if_neg hC]
    by_cases hl : lsc ≤ |lat'|
    · rw [if_pos hl]; exact (htop _ hl).trans (le_max_right _ _)
    · rw [if_neg hl]; exact (hbot _ hmx).trans (le_max_right _ _)

/-- **unconditional upper bound** (every depth `1 … 29`, exact arithmetic): if the latitude band of the cone stays below
    `tl` and reaches below `lsc`, `largest_center_to_vertex_distance_with_radius` dominates
    `largest_center_to_vertex_distance` at every position of the band (any longitudes) -/
theorem largestC2VWithRadius_upper_bound_eqr (depth : Nat) (hd1 : 1 ≤ depth) (hd2 : depth ≤ 29)
    (lon lat r lon' lat' : ℝ) (hband : |(|lat'| - |lat|)| ≤ r) (hA : |lat| + r < tl) (hB : |lat| - r < lsc) :
    ∃ v w, largestC2VWithRadius false depth lon lat r = some v ∧ largestC2V false depth lon' lat' = some w ∧ w ≤ v := by
  refine ⟨c2vR (Csts.new depth) lon lat r, c2v (Csts.new depth) lon' lat', ?_, ?_, ?_⟩
  · rw [c2v_with_radius_region_choice, if_neg (by omega), if_neg (by omega)]
  · rw [c2v_region_choice, if_neg (by omega), if_neg (by omega)]
  · exact c2v_with_radius_upper_neg_slope _ (new_slopeEqr_neg depth).le (new_coeffX2Eqr_neg depth).le
      (new_continuous_at_lsc depth) lon lat r lon' lat' hband hA hB

/-- **unconditional, polar-cap branch** (every depth `1 … 29`): when `tl ≤ |lat| + r` the value with radius dominates
    the pointwise value at the positions of a polar cap whose FOLDED longitude is at most `fold lon + r` (and `π/4`) —
    nothing more (`largestC2VWithRadius_not_cone_bound'`) -/
theorem largestC2VWithRadius_upper_bound_npc (depth : Nat) (hd1 : 1 ≤ depth) (hd2 : depth ≤ 29)
    (lon lat r lon' lat' : ℝ) (hA : tl ≤ |lat| + r) (hpol : tl ≤ |lat'|) (hf1 : fold lon' ≤ fold lon + r)
    (hf2 : fold lon' ≤ π / 4) :
    ∃ v w, largestC2VWithRadius false depth lon lat r = some v ∧ largestC2V false depth lon' lat' = some w ∧ w ≤ v := by
  refine ⟨c2vR (Csts.new depth) lon lat r, c2v (Csts.new depth) lon' lat', ?_, ?_, ?_⟩
  · rw [c2v_with_radius_region_choice, if_neg (by omega), if_neg (by omega)]
  · rw [c2v_region_choice, if_neg (by omega), if_neg (by omega)]
  · unfold c2v c2vR
    rw [if_pos hpol, if_pos hA]
    have : fold lon' ≤ min (fold lon + r) (π / 4) := le_min hf1 hf2
    have := new_slopeNpc_nonneg depth
    unfold npcEnv; nlinarith

/-! ### satisfiability of the hypotheses -/

/-- constants with the three ASSUMED signs and the continuity at `lsc` -/
noncomputable def exC : Csts ℝ :=
  { slopeNpc := 1, interceptNpc := 0, slopeEqr := 1, interceptEqr := 0, coeffX2Eqr := -1, coeffCstEqr := lsc + lsc * lsc }

example : 0 ≤ exC.slopeNpc ∧ 0 ≤ exC.slopeEqr ∧ exC.coeffX2Eqr ≤ 0 ∧ topEnv exC lsc = botEnv exC lsc := by
  refine ⟨by simp [exC], by simp [exC], by simp [exC], ?_⟩
  simp only [topEnv, botEnv, exC]; ring

/-- a band straddling `lsc`, below `tl`: centre `lsc`, radius `(tl − lsc)/2`, position `lsc + (tl − lsc)/4` -/
example : |(|lsc + (tl - lsc) / 4| - |lsc|)| ≤ (tl - lsc) / 2 ∧ |lsc| + (tl - lsc) / 2 < tl ∧ |lsc| - (tl - lsc) / 2 < lsc := by
  have h1 := lsc_pos
  have h2 := lsc_lt_tl
  rw [abs_of_pos h1, abs_of_pos (by linarith : 0 < lsc + (tl - lsc) / 4)]
  refine ⟨?_, by linarith, by linarith⟩
  rw [abs_le]; constructor <;> linarith

/-- a band inside `[lsc, tl)`: centre `(lsc + tl)/2`, radius `(tl − lsc)/4` -/
example : (0 : ℝ) < (tl - lsc) / 4 ∧ lsc ≤ |(lsc + tl) / 2| - (tl - lsc) / 4 ∧ |(lsc + tl) / 2| + (tl - lsc) / 4 < tl := by
  have h1 := lsc_pos
  have h2 := lsc_lt_tl
  rw [abs_of_pos (by linarith)]
  refine ⟨by linarith, by linarith, by linarith⟩

end Hpx.C2VReal

#print axioms Hpx.C2VReal.c2v_region_choice
#print axioms Hpx.C2VReal.c2v_with_radius_region_choice
#print axioms Hpx.C2VReal.npc_with_radius_is_sup
#print axioms Hpx.C2VReal.npc_with_radius_lon_band
#print axioms Hpx.C2VReal.eqr_top_with_radius_is_sup
#print axioms Hpx.C2VReal.eqr_bottom_with_radius_is_sup
#print axioms Hpx.C2VReal.c2v_with_radius_is_sup
#print axioms Hpx.C2VReal.largestC2VWithRadius_is_upper_bound
#print axioms Hpx.C2VReal.cex_distance
#print axioms Hpx.C2VReal.largestC2VWithRadius_not_cone_bound'
#print axioms Hpx.C2VReal.c2vs_with_radius_agree
#print axioms Hpx.C2VReal.depthsOf_eq_range'
#print axioms Hpx.C2VReal.with_radius_debug_straddle_panics
#print axioms Hpx.C2VReal.c2vs_debug_straddle
#print axioms Hpx.C2VReal.new_slopeEqr_neg
#print axioms Hpx.C2VReal.new_coeffX2Eqr_neg
#print axioms Hpx.C2VReal.new_slopeNpc_nonneg
#print axioms Hpx.C2VReal.largestC2VWithRadius_lt_at_centre'
#print axioms Hpx.C2VReal.largestC2VWithRadius_upper_bound_eqr
#print axioms Hpx.C2VReal.largestC2VWithRadius_upper_bound_npc
