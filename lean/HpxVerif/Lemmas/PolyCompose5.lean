/-
C12, T2 (continued): the centre of a cell lying inside a polar cap.

In a polar cap (Collignon part of the projection: `lon = λ₀ + (π/4)·u/σ`, `sin lat = 1 − σ²/3`, `σ` = plane distance from the
pole, `u` = abscissa from the meridian `λ₀` of the base cell) the S vertex, the centre and the N vertex of a cell are NOT on one
meridian.  But E, C, W are on one parallel, C half-way, and the vertex `F` on the equator side (S in the north, N in the south)
is farther from the pole: seen from the pole (gnomonic view, great circles = straight lines) `C` is inside the triangle
`W E F`.  `cone3`: the three inequalities that say so give `K·C = a·F + b·E + d·W` with explicit positive coefficients;
`cap_ineqs_abs` + `K1_cap` + `cap_numeric`: the inequalities hold for every cell (`tan(colatitude)/σ` increases with `σ`;
the meridian offset of `F` is at most `Δ(1 − t)/(1 + t)`, `t = o/σ`, `Δ = πt/4`; `(1 + t)·cos x > 1` on the whole range).
`centre_combo_north_cap`, `centre_combo_south_cap`: on the cells of the model (`vertices`, `center`).
-/
import HpxVerif.Lemmas.PolyCompose3
import HpxVerif.Lemmas.EnvelopePolar5

set_option autoImplicit false

namespace Hpx.PolyCompose
open Hpx Hpx.Sph Real Hpx.Proj Hpx.CellReal Hpx.EnvelopeReal Hpx.TopoLift Hpx.EnvelopePolar

/-- three points with a common positive multiple -/
theorem insideAll_combo3 (o : ℝ) (vs : List (Coo ℝ)) (p u v w : Coo ℝ) (K a b d : ℝ) (hK : 0 < K) (ha : 0 < a) (hb : 0 < b)
    (hd : 0 < d)
    (hx : K * p.x = a * u.x + b * v.x + d * w.x) (hy : K * p.y = a * u.y + b * v.y + d * w.y)
    (hz : K * p.z = a * u.z + b * v.z + d * w.z)
    (hu : InsideAll o vs u) (hv : InsideAll o vs v) (hw : InsideAll o vs w) : InsideAll o vs p := by
  intro e he
  have e1 : K * (o * dot p (cross e.1 e.2)) = a * (o * dot u (cross e.1 e.2)) + b * (o * dot v (cross e.1 e.2))
      + d * (o * dot w (cross e.1 e.2)) := by
    unfold dot
    linear_combination (o * (cross e.1 e.2).1) * hx + (o * (cross e.1 e.2).2.1) * hy + (o * (cross e.1 e.2).2.2) * hz
  have h1 := hu e he
  have h2 := hv e he
  have h3 := hw e he
  have : 0 < K * (o * dot p (cross e.1 e.2)) := by rw [e1]; positivity
  exact (mul_pos_iff_of_pos_left hK).mp this

/-- **a point on a parallel between two points `E`, `W` of that parallel, and a third point `F` nearer to the equator**
    (`ε = 1`: northern hemisphere, `ε = −1`: southern): `C = (rc, l)`, `E = (rc, l + Δ)`, `W = (rc, l − Δ)` at height `ε·zc`,
    `F = (rf, l + δ)` at height `ε·zf`.  Under the three inequalities (which say that, seen from the pole, `C` is inside the plane
    triangle `W E F`), `K·C = a·F + b·E + d·W` with positive coefficients. -/
theorem cone3 (ε l Δ δ rc zc rf zf : ℝ) (hrc : 0 < rc) (hzc : 0 < zc) (hsin : 0 < sin Δ) (hcos : cos Δ < 1)
    (I1 : rc * zf * cos Δ < rf * zc * cos δ)
    (I2a : rc * zf * sin Δ < rf * zc * (sin (Δ + δ) - sin δ))
    (I2b : rc * zf * sin Δ < rf * zc * (sin (Δ - δ) + sin δ)) :
    ∃ K a b d : ℝ, 0 < K ∧ 0 < a ∧ 0 < b ∧ 0 < d ∧
      K * (rc * cos l) = a * (rf * cos (l + δ)) + b * (rc * cos (l + Δ)) + d * (rc * cos (l - Δ)) ∧
      K * (rc * sin l) = a * (rf * sin (l + δ)) + b * (rc * sin (l + Δ)) + d * (rc * sin (l - Δ)) ∧
      K * (ε * zc) = a * (ε * zf) + b * (ε * zc) + d * (ε * zc) := by
  have hD : 0 < rf * zc * cos δ - rc * zf * cos Δ := by linarith
  refine ⟨2 * rc * sin Δ * (rf * zc * cos δ - rc * zf * cos Δ), 2 * zc * rc ^ 2 * (1 - cos Δ) * sin Δ,
    rc * (rf * zc * (sin (Δ + δ) - sin δ) - rc * zf * sin Δ), rc * (rf * zc * (sin (Δ - δ) + sin δ) - rc * zf * sin Δ),
    by positivity, ?_, ?_, ?_, ?_, ?_, ?_⟩
  · have : 0 < 1 - cos Δ := by linarith
    positivity
  · exact mul_pos hrc (by linarith)
  · exact mul_pos hrc (by linarith)
  · rw [cos_add, cos_add, cos_sub, sin_add, sin_sub]
    ring
  · rw [sin_add, sin_add, sin_sub, sin_add l Δ, sin_sub l Δ]
    ring
  · rw [sin_add, sin_sub]
    ring


theorem K1_poly (a b : ℝ) (hb0 : 0 ≤ b) (hab : b ≤ a) (ha1 : a ≤ 1) :
    (6 - b) * (1 - a / 3) ^ 2 ≤ (6 - a) * (1 - b / 3) ^ 2 := by
  have e : (6 - a) * (1 - b / 3) ^ 2 - (6 - b) * (1 - a / 3) ^ 2 = (a - b) * (27 - 6 * (a + b) + a * b) / 9 := by ring
  have h1 : 0 ≤ a - b := by linarith
  have h2 : 0 ≤ 27 - 6 * (a + b) + a * b := by
    have : 0 ≤ a * b := mul_nonneg (by linarith) hb0
    linarith
  have h3 : 0 ≤ (a - b) * (27 - 6 * (a + b) + a * b) / 9 := by positivity
  linarith

/-- `tan(colatitude)/σ` increases with the plane distance `σ` from the pole -/
theorem K1_cap (σ o rc rf : ℝ) (hσ : 0 < σ) (ho : 0 < o) (hσ1 : σ + o ≤ 1)
    (hrc0 : 0 ≤ rc) (hrc : rc ^ 2 = σ ^ 2 * (6 - σ ^ 2) / 9) (hrf0 : 0 ≤ rf)
    (hrf : rf ^ 2 = (σ + o) ^ 2 * (6 - (σ + o) ^ 2) / 9) :
    (1 + o / σ) * (rc * (1 - (σ + o) ^ 2 / 3)) ≤ rf * (1 - σ ^ 2 / 3) := by
  have hso2 : (σ + o) ^ 2 ≤ 1 := by nlinarith
  have hσ2 : σ ^ 2 ≤ (σ + o) ^ 2 := by nlinarith
  have hzf0 : 0 ≤ 1 - (σ + o) ^ 2 / 3 := by linarith
  have hzc0 : 0 ≤ 1 - σ ^ 2 / 3 := by nlinarith
  have h1t : 0 ≤ 1 + o / σ := by positivity
  rw [← pow_le_pow_iff_left₀ (by positivity) (by positivity) (two_ne_zero)]
  have e1 : ((1 + o / σ) * (rc * (1 - (σ + o) ^ 2 / 3))) ^ 2 =
      (σ + o) ^ 2 / 9 * ((6 - σ ^ 2) * (1 - (σ + o) ^ 2 / 3) ^ 2) := by
    rw [mul_pow, mul_pow, hrc]; field_simp
  have e2 : (rf * (1 - σ ^ 2 / 3)) ^ 2 = (σ + o) ^ 2 / 9 * ((6 - (σ + o) ^ 2) * (1 - σ ^ 2 / 3) ^ 2) := by
    rw [mul_pow, hrf]; ring
  rw [e1, e2]
  exact mul_le_mul_of_nonneg_left (K1_poly _ _ (sq_nonneg σ) hσ2 hso2) (by positivity)

/-- the numerical heart of the cap case: for `0 < t ≤ 1` (`t = o/σ`, ratio of the half-diagonal of the cell to the plane
    distance of its centre from the pole) and any angle `|x| ≤ π·t·(3 − t)/(8(1 + t))`: `(1 + t)·cos x > 1` -/
theorem cap_numeric (t x : ℝ) (ht0 : 0 < t) (ht1 : t ≤ 1) (hx : |x| ≤ π * t * (3 - t) / (8 * (1 + t))) :
    1 < (1 + t) * cos x := by
  have hpi : π < 3.15 := Real.pi_lt_d2
  have hpi0 := pi_pos
  have h1t : 0 < 1 + t := by linarith
  have hc := Real.one_sub_sq_div_two_le_cos (x := x)
  have hB : 0 ≤ π * t * (3 - t) / (8 * (1 + t)) := by
    apply div_nonneg _ (by linarith)
    have : 0 ≤ 3 - t := by linarith
    positivity
  have hx2 : x ^ 2 ≤ (π * t * (3 - t) / (8 * (1 + t))) ^ 2 := by
    rw [← sq_abs x]; exact pow_le_pow_left₀ (abs_nonneg x) hx 2
  -- `(π t (3 − t))² < 128 t (1 + t)`
  have hkey : (π * t * (3 - t)) ^ 2 < 128 * t * (1 + t) := by
    have h3 : t * (3 - t) ^ 2 ≤ 4 := by nlinarith [sq_nonneg (1 - t), sq_nonneg t]
    have hpi2 : π ^ 2 < 10 := by nlinarith
    have : (π * t * (3 - t)) ^ 2 = π ^ 2 * t * (t * (3 - t) ^ 2) := by ring
    rw [this]
    have h5 : π ^ 2 * t * (t * (3 - t) ^ 2) ≤ π ^ 2 * t * 4 := mul_le_mul_of_nonneg_left h3 (by positivity)
    have h6 : π ^ 2 * t * 4 < 10 * t * 4 := by
      have : π ^ 2 * t < 10 * t := mul_lt_mul_of_pos_right hpi2 ht0
      linarith
    nlinarith
  have hx3 : x ^ 2 * (1 + t) < 2 * t := by
    have e : (π * t * (3 - t) / (8 * (1 + t))) ^ 2 = (π * t * (3 - t)) ^ 2 / (64 * (1 + t) ^ 2) := by
      rw [div_pow]; ring
    rw [e] at hx2
    have : (π * t * (3 - t)) ^ 2 / (64 * (1 + t) ^ 2) * (1 + t) < 2 * t := by
      rw [div_mul_eq_mul_div, div_lt_iff₀ (by positivity)]
      nlinarith
    nlinarith
  nlinarith



/-- the angle by which the equator-side vertex is off the meridian of the centre -/
theorem cap_delta_bound (σ o u : ℝ) (hσ : 0 < σ) (ho : 0 < o) (hou : |u| + o ≤ σ) :
    |(u / (σ + o) - u / σ) * (π / 4)| ≤ o / σ * (π / 4) * ((1 - o / σ) / (1 + o / σ)) := by
  have hpi := pi_pos
  have hso : 0 < σ + o := by linarith
  have e : (u / (σ + o) - u / σ) * (π / 4) = -(u * o / (σ * (σ + o))) * (π / 4) := by field_simp; ring
  have e2 : o / σ * (π / 4) * ((1 - o / σ) / (1 + o / σ)) = (σ - o) * o / (σ * (σ + o)) * (π / 4) := by field_simp
  rw [e, e2, abs_mul, abs_of_pos (by positivity : 0 < π / 4), abs_neg, abs_div, abs_mul, abs_of_pos ho,
    abs_of_pos (by positivity : 0 < σ * (σ + o))]
  apply mul_le_mul_of_nonneg_right _ (by positivity)
  apply div_le_div_of_nonneg_right _ (by positivity)
  apply mul_le_mul_of_nonneg_right _ ho.le
  linarith

theorem cap_B_eq (t : ℝ) (ht : 0 < t) :
    π * t * (3 - t) / (8 * (1 + t)) = t * (π / 4) * ((1 - t) / (1 + t)) + t * (π / 4) / 2 := by
  have : (1 + t) ≠ 0 := by linarith
  field_simp; ring

/-- `rc·zf < rf·zc·c` as soon as `1 < (1 + t)·c` -/
theorem cap_step (t A Bv c : ℝ) (ht : 0 < t) (hA : 0 < A) (K1 : (1 + t) * A ≤ Bv) (hc : 1 < (1 + t) * c) : A < Bv * c := by
  have hc0 : 0 < c := by
    by_contra hneg
    have : (1 + t) * c ≤ 0 := mul_nonpos_of_nonneg_of_nonpos (by linarith) (not_lt.mp hneg)
    linarith
  calc A < (1 + t) * c * A := by nlinarith
    _ = (1 + t) * A * c := by ring
    _ ≤ Bv * c := mul_le_mul_of_nonneg_right K1 hc0.le

/-- the three inequalities of `cone3` from the product bound, abstractly: `A = rc·zf`, `Bv = rf·zc` -/
theorem cap_ineqs_abs (t Δ δ A Bv : ℝ) (ht0 : 0 < t) (ht1 : t ≤ 1) (hΔ : Δ = t * (π / 4)) (hA : 0 < A)
    (K1 : (1 + t) * A ≤ Bv) (hδ : |δ| ≤ Δ * ((1 - t) / (1 + t))) :
    A * cos Δ < Bv * cos δ ∧ A * sin Δ < Bv * (sin (Δ + δ) - sin δ) ∧ A * sin Δ < Bv * (sin (Δ - δ) + sin δ) := by
  have hpi := pi_pos
  have hpi4 : π < 4 := pi_lt_four
  have hΔ0 : 0 < Δ := by rw [hΔ]; positivity
  have hΔ1 : Δ ≤ π / 4 := by rw [hΔ]; nlinarith
  have hB := cap_B_eq t ht0
  rw [← hΔ] at hB
  have hq : 0 ≤ Δ * ((1 - t) / (1 + t)) := by
    apply mul_nonneg hΔ0.le; apply div_nonneg (by linarith) (by linarith)
  have n1 := cap_numeric t (δ + Δ / 2) ht0 ht1 (by
    rw [hB]; calc |δ + Δ / 2| ≤ |δ| + |Δ / 2| := abs_add_le _ _
      _ ≤ _ := by rw [abs_of_pos (by linarith : 0 < Δ / 2)]; linarith)
  have n2 := cap_numeric t (Δ / 2 - δ) ht0 ht1 (by
    rw [hB]; calc |Δ / 2 - δ| ≤ |Δ / 2| + |δ| := abs_sub _ _
      _ ≤ _ := by rw [abs_of_pos (by linarith : 0 < Δ / 2)]; linarith)
  have n3 := cap_numeric t δ ht0 ht1 (by rw [hB]; linarith)
  have hs2 : 0 < sin (Δ / 2) := sin_pos_of_pos_of_lt_pi (by linarith) (by linarith)
  have hc2 : cos (Δ / 2) ≤ 1 := cos_le_one _
  have e2 : sin Δ = 2 * sin (Δ / 2) * cos (Δ / 2) := by
    rw [← sin_two_mul]; congr 1; ring
  have h3 : A * cos (Δ / 2) ≤ A := by nlinarith
  refine ⟨?_, ?_, ?_⟩
  · calc A * cos Δ ≤ A := by nlinarith [cos_le_one Δ]
      _ < Bv * cos δ := cap_step t A Bv _ ht0 hA K1 n3
  · have e1 : sin (Δ + δ) - sin δ = 2 * sin (Δ / 2) * cos (δ + Δ / 2) := by
      rw [sin_sub_sin]; congr 2 <;> ring_nf
    rw [e1, e2]
    have := cap_step t A Bv _ ht0 hA K1 n1
    have h4 : A * cos (Δ / 2) < Bv * cos (δ + Δ / 2) := by linarith
    calc A * (2 * sin (Δ / 2) * cos (Δ / 2)) = 2 * sin (Δ / 2) * (A * cos (Δ / 2)) := by ring
      _ < 2 * sin (Δ / 2) * (Bv * cos (δ + Δ / 2)) := mul_lt_mul_of_pos_left h4 (by positivity)
      _ = Bv * (2 * sin (Δ / 2) * cos (δ + Δ / 2)) := by ring
  · have e1 : sin (Δ - δ) + sin δ = 2 * sin (Δ / 2) * cos (Δ / 2 - δ) := by
      have := sin_sub_sin (Δ - δ) (-δ)
      rw [sin_neg, sub_neg_eq_add] at this
      rw [this]; congr 2 <;> ring_nf
    rw [e1, e2]
    have := cap_step t A Bv _ ht0 hA K1 n2
    have h4 : A * cos (Δ / 2) < Bv * cos (Δ / 2 - δ) := by linarith
    calc A * (2 * sin (Δ / 2) * cos (Δ / 2)) = 2 * sin (Δ / 2) * (A * cos (Δ / 2)) := by ring
      _ < 2 * sin (Δ / 2) * (Bv * cos (Δ / 2 - δ)) := mul_lt_mul_of_pos_left h4 (by positivity)
      _ = Bv * (2 * sin (Δ / 2) * cos (Δ / 2 - δ)) := by ring


/-! ## positive combinations of unit vectors -/

/-- `K·p = a·u + b·v + d·w` on the unit vectors, with positive coefficients -/
def PosCombo3 (p u v w : Coo ℝ) : Prop :=
  ∃ K a b d : ℝ, 0 < K ∧ 0 < a ∧ 0 < b ∧ 0 < d ∧ K * p.x = a * u.x + b * v.x + d * w.x ∧
    K * p.y = a * u.y + b * v.y + d * w.y ∧ K * p.z = a * u.z + b * v.z + d * w.z

theorem PosCombo3.insideAll {p u v w : Coo ℝ} (h : PosCombo3 p u v w) (o : ℝ) (vs : List (Coo ℝ))
    (hu : InsideAll o vs u) (hv : InsideAll o vs v) (hw : InsideAll o vs w) : InsideAll o vs p := by
  obtain ⟨K, a, b, d, hK, ha, hb, hd, hx, hy, hz⟩ := h
  exact insideAll_combo3 o vs p u v w K a b d hK ha hb hd hx hy hz hu hv hw

/-- mirror image through the equator -/
theorem PosCombo3.mirror {p u v w : ℝ × ℝ} (h : PosCombo3 (cooOf p) (cooOf u) (cooOf v) (cooOf w)) :
    PosCombo3 (cooOf (p.1, -p.2)) (cooOf (u.1, -u.2)) (cooOf (v.1, -v.2)) (cooOf (w.1, -w.2)) := by
  obtain ⟨K, a, b, d, hK, ha, hb, hd, hx, hy, hz⟩ := h
  refine ⟨K, a, b, d, hK, ha, hb, hd, ?_, ?_, ?_⟩
  · simpa only [cooOf, cos_neg] using hx
  · simpa only [cooOf, cos_neg] using hy
  · simp only [cooOf, sin_neg] at hz ⊢
    linarith

/-- only the unit vector matters: a longitude may be changed by a whole turn -/
theorem cooOf_add_two_pi_xyz (l φ : ℝ) : (cooOf (l - 2 * π, φ)).x = (cooOf (l, φ)).x ∧ (cooOf (l - 2 * π, φ)).y = (cooOf (l, φ)).y ∧
    (cooOf (l - 2 * π, φ)).z = (cooOf (l, φ)).z := by
  simp only [cooOf, cos_sub_two_pi, sin_sub_two_pi, and_self]

/-! ## cells inside a polar cap -/

/-- plane parameters of a cell of a north base cell: `u = cx − (2b+1) = (i − j)/n`, `σ = 2 − cy = (2n − 1 − i − j)/n`, and the
    cell is inside the Collignon triangle of its base cell: `|u| + 1/n ≤ σ` -/
theorem north_cell_params (d b i j : ℕ) (hb : b < 4) (hi : i < 2 ^ d) (hj : j < 2 ^ d) :
    |cellCx d b i j - (2 * (b : ℝ) + 1)| + 1 / 2 ^ d ≤ 2 - cellCy d b i j := by
  obtain ⟨bx, bY⟩ := baseX_north b hb
  have hp := pow_pos' d
  have hi' := cast_lt_pow hi
  have hj' := cast_lt_pow hj
  unfold cellCx cellCy
  rw [bx, bY, add_sub_cancel_left]
  have e : (2 : ℝ) - (1 + ((i : ℝ) + j + 1 - 2 ^ d) / 2 ^ d) = (2 * 2 ^ d - 1 - i - j) / 2 ^ d := by field_simp; ring
  rw [e, abs_div, abs_of_pos hp, ← add_div, div_le_div_iff_of_pos_right hp]
  rcases abs_cases ((i : ℝ) - j) with ⟨h, _⟩ | ⟨h, _⟩ <;> rw [h] <;> linarith

/-- the same for a south base cell `b = k + 8`, mirrored ordinate `−cy` -/
theorem south_cell_params (d k i j : ℕ) (hk : k < 4) :
    |cellCx d (k + 8) i j - (2 * (k : ℝ) + 1)| + 1 / 2 ^ d ≤ 2 - -cellCy d (k + 8) i j := by
  obtain ⟨bx, bY⟩ := baseX_south k hk
  have hp := pow_pos' d
  have hi0 : (0 : ℝ) ≤ i := Nat.cast_nonneg i
  have hj0 : (0 : ℝ) ≤ j := Nat.cast_nonneg j
  unfold cellCx cellCy
  rw [bx, bY, add_sub_cancel_left]
  have e : (2 : ℝ) - -(-1 + ((i : ℝ) + j + 1 - 2 ^ d) / 2 ^ d) = ((i : ℝ) + j + 1) / 2 ^ d := by field_simp; ring
  rw [e, abs_div, abs_of_pos hp, ← add_div, div_le_div_iff_of_pos_right hp]
  rcases abs_cases ((i : ℝ) - j) with ⟨h, _⟩ | ⟨h, _⟩ <;> rw [h] <;> linarith

/-- positions of the plane points `C = (X, Y)`, `F = (X, Y − o)`, `E = (X + o, Y)`, `W = (X − o, Y)` of a diamond lying in the
    Collignon triangle of the north facet `k`, with `u = X − (2k+1)`, `σ = 2 − Y` -/
theorem cap_plane_positions (k : ℕ) (hk : k < 4) (X Y o : ℝ) (ho : (Num.epsPole : ℝ) < o) (hcap : 1 + o ≤ Y)
    (hpar : |X - (2 * (k : ℝ) + 1)| + o ≤ 2 - Y) :
    unproj (α := ℝ) X Y = some (((X - (2 * (k : ℝ) + 1)) / (2 - Y) + (2 * (k : ℝ) + 1)) * (π / 4), capLat (2 - (2 - Y))) ∧
    unproj (α := ℝ) X (Y - o) = some (((X - (2 * (k : ℝ) + 1)) / (2 - Y + o) + (2 * (k : ℝ) + 1)) * (π / 4),
      capLat (2 - (2 - Y + o))) ∧
    unproj (α := ℝ) (X + o) Y = some (((X - (2 * (k : ℝ) + 1) + o) / (2 - Y) + (2 * (k : ℝ) + 1)) * (π / 4),
      capLat (2 - (2 - Y))) ∧
    unproj (α := ℝ) (X - o) Y = some (((X - (2 * (k : ℝ) + 1) - o) / (2 - Y) + (2 * (k : ℝ) + 1)) * (π / 4),
      capLat (2 - (2 - Y))) := by
  have he0 := epsPole_pos
  have hu := abs_nonneg (X - (2 * (k : ℝ) + 1))
  obtain ⟨u1, u2⟩ := abs_le.mp (show |X - (2 * (k : ℝ) + 1)| ≤ 2 - Y - o by linarith)
  have y2 : Y ≤ 2 := by linarith
  have uC := unproj_cap k hk X Y (by linarith) y2 (abs_le.mpr ⟨by linarith, by linarith⟩) (by linarith)
    (Or.inl (by linarith))
  have uE := unproj_cap k hk (X + o) Y (by linarith) y2 (abs_le.mpr ⟨by linarith, by linarith⟩) (by linarith)
    (Or.inl (by linarith))
  have uW := unproj_cap k hk (X - o) Y (by linarith) y2 (abs_le.mpr ⟨by linarith, by linarith⟩) (by linarith)
    (Or.inl (by linarith))
  have uS := unproj_cap k hk X (Y - o) (by linarith) (by linarith) (abs_le.mpr ⟨by linarith, by linarith⟩) (by linarith)
    (Or.inl (by linarith))
  have pS : ((X - (2 * (k : ℝ) + 1)) / (2 - (Y - o)) + (2 * (k : ℝ) + 1)) * (π / 4) =
      ((X - (2 * (k : ℝ) + 1)) / (2 - Y + o) + (2 * (k : ℝ) + 1)) * (π / 4) := by
    rw [show 2 - (Y - o) = 2 - Y + o by ring]
  have pE : ((X + o - (2 * (k : ℝ) + 1)) / (2 - Y) + (2 * (k : ℝ) + 1)) * (π / 4) =
      ((X - (2 * (k : ℝ) + 1) + o) / (2 - Y) + (2 * (k : ℝ) + 1)) * (π / 4) := by
    rw [show X + o - (2 * (k : ℝ) + 1) = X - (2 * (k : ℝ) + 1) + o by ring]
  have pW : ((X - o - (2 * (k : ℝ) + 1)) / (2 - Y) + (2 * (k : ℝ) + 1)) * (π / 4) =
      ((X - (2 * (k : ℝ) + 1) - o) / (2 - Y) + (2 * (k : ℝ) + 1)) * (π / 4) := by
    rw [show X - o - (2 * (k : ℝ) + 1) = X - (2 * (k : ℝ) + 1) - o by ring]
  have c1 : capLat (2 - (2 - Y)) = capLat Y := by rw [show 2 - (2 - Y) = Y by ring]
  have c2 : capLat (2 - (2 - Y + o)) = capLat (Y - o) := by rw [show 2 - (2 - Y + o) = Y - o by ring]
  rw [c1, c2, ← pS, ← pE, ← pW]
  exact ⟨uC, uS, uE, uW⟩

/-- the centre from the three vertices F (equator side), E, W, for the positions of `cap_plane_positions` (pure geometry) -/
theorem cap_cone (u σ o B : ℝ) (hσ : 0 < σ) (ho : 0 < o) (hou : |u| + o ≤ σ) (hσ1 : σ + o ≤ 1)
    :
    PosCombo3 (cooOf ((u / σ + B) * (π / 4), capLat (2 - σ))) (cooOf ((u / (σ + o) + B) * (π / 4), capLat (2 - (σ + o))))
      (cooOf (((u + o) / σ + B) * (π / 4), capLat (2 - σ))) (cooOf (((u - o) / σ + B) * (π / 4), capLat (2 - σ))) := by
  have hpi := pi_pos
  have hpi4 : π < 4 := pi_lt_four
  have hoσ : o ≤ σ := by linarith [abs_nonneg u]
  have hσle : σ ≤ 1 := by linarith
  have hσ2 : σ ^ 2 ≤ 1 := pow_le_one₀ hσ.le hσle
  have hso2 : (σ + o) ^ 2 ≤ 1 := pow_le_one₀ (by linarith) hσ1
  have zc0 : 0 < 1 - σ ^ 2 / 3 := by linarith
  have zf0 : 0 < 1 - (σ + o) ^ 2 / 3 := by linarith
  have ht0 : 0 < o / σ := div_pos ho hσ
  have ht1 : o / σ ≤ 1 := by rw [div_le_one hσ]; exact hoσ
  have hΔ0' : 0 < o / σ * (π / 4) := by positivity
  have hΔ1' : o / σ * (π / 4) ≤ π / 4 := by
    calc o / σ * (π / 4) ≤ 1 * (π / 4) := mul_le_mul_of_nonneg_right ht1 (by positivity)
      _ = π / 4 := one_mul _
  set l := (u / σ + B) * (π / 4) with hl
  set Δ := o / σ * (π / 4) with hΔ
  set δ := (u / (σ + o) - u / σ) * (π / 4) with hδ
  have eS : (u / (σ + o) + B) * (π / 4) = l + δ := by rw [hl, hδ]; ring
  have eE : ((u + o) / σ + B) * (π / 4) = l + Δ := by rw [hl, hΔ, add_div]; ring
  have eW : ((u - o) / σ + B) * (π / 4) = l - Δ := by rw [hl, hΔ, sub_div]; ring
  rw [eS, eE, eW]
  set rc := cos (capLat (2 - σ)) with hrc
  set rf := cos (capLat (2 - (σ + o))) with hrf
  have zc : sin (capLat (2 - σ)) = 1 - σ ^ 2 / 3 := by
    rw [sin_capLat' _ (by linarith) (by linarith), show 2 - (2 - σ) = σ by ring]
  have zf : sin (capLat (2 - (σ + o))) = 1 - (σ + o) ^ 2 / 3 := by
    rw [sin_capLat' _ (by linarith) (by linarith), show 2 - (2 - (σ + o)) = σ + o by ring]
  have rc2 : rc ^ 2 = σ ^ 2 * (6 - σ ^ 2) / 9 := by
    rw [hrc, cos_sq_capLat _ (by linarith) (by linarith), show 2 - (2 - σ) = σ by ring]
  have rf2 : rf ^ 2 = (σ + o) ^ 2 * (6 - (σ + o) ^ 2) / 9 := by
    rw [hrf, cos_sq_capLat _ (by linarith) (by linarith), show 2 - (2 - (σ + o)) = σ + o by ring]
  have rc0 : 0 ≤ rc := cos_capLat_nonneg _ (by linarith) (by linarith)
  have rf0 : 0 ≤ rf := cos_capLat_nonneg _ (by linarith) (by linarith)
  have rcp : 0 < rc := by
    rcases eq_or_lt_of_le rc0 with h0 | h0
    · rw [← h0] at rc2
      have : 0 < σ ^ 2 * (6 - σ ^ 2) / 9 := by
        have : 0 < 6 - σ ^ 2 := by linarith
        positivity
      rw [zero_pow two_ne_zero] at rc2
      linarith
    · exact h0
  have K1 := K1_cap σ o rc rf hσ ho hσ1 rc0 rc2 rf0 rf2
  have hδb := cap_delta_bound σ o u hσ ho hou
  obtain ⟨I1, I2a, I2b⟩ := cap_ineqs_abs (o / σ) Δ δ (rc * (1 - (σ + o) ^ 2 / 3)) (rf * (1 - σ ^ 2 / 3)) ht0 ht1 rfl
    (mul_pos rcp zf0) K1 hδb
  have hΔ0 : 0 < Δ := hΔ0'
  have hΔ1 : Δ ≤ π / 4 := hΔ1'
  have hsin : 0 < sin Δ := sin_pos_of_pos_of_lt_pi hΔ0 (by linarith)
  have hcos : cos Δ < 1 := by
    have := Real.cos_lt_cos_of_nonneg_of_le_pi (le_refl 0) (by linarith : Δ ≤ π) hΔ0
    rwa [cos_zero] at this
  obtain ⟨K, a, b, d, hK, ha, hb, hd, hx, hy, hz⟩ := cone3 1 l Δ δ rc (1 - σ ^ 2 / 3) rf (1 - (σ + o) ^ 2 / 3) rcp zc0 hsin hcos
    I1 I2a I2b
  refine ⟨K, a, b, d, hK, ha, hb, hd, ?_, ?_, ?_⟩
  · show K * (cos (capLat (2 - σ)) * cos l) = a * (cos (capLat (2 - (σ + o))) * cos (l + δ))
      + b * (cos (capLat (2 - σ)) * cos (l + Δ)) + d * (cos (capLat (2 - σ)) * cos (l - Δ))
    exact hx
  · show K * (cos (capLat (2 - σ)) * sin l) = a * (cos (capLat (2 - (σ + o))) * sin (l + δ))
      + b * (cos (capLat (2 - σ)) * sin (l + Δ)) + d * (cos (capLat (2 - σ)) * sin (l - Δ))
    exact hy
  · show K * sin (capLat (2 - σ)) = a * sin (capLat (2 - (σ + o))) + b * sin (capLat (2 - σ)) + d * sin (capLat (2 - σ))
    rw [zc, zf]
    linarith



/-- **T2, the centre, north polar cap** (every cell of the base cells 0–3 whose south vertex is on or above the transition
    latitude, every depth `≤ 29`): `vertices` and `center` succeed and the unit vector of the centre is a positive
    combination of those of the SOUTH, EAST and WEST vertices. -/
theorem centre_combo_north_cap (cfg : Cfg) (d h : ℕ) (hd : d ≤ 29) (hh : h < 12 * 4 ^ d)
    (hb : (partsOf d h).d0h < 4)
    (hcap : 1 + 1 / 2 ^ d ≤ cellCy d (partsOf d h).d0h (partsOf d h).i (partsOf d h).j) :
    ∃ (s e n w c : ℝ × ℝ), Hash.vertices (α := ℝ) cfg d h = some [s, e, n, w] ∧ Hash.center (α := ℝ) cfg d h = some c ∧
      PosCombo3 (cooOf c) (cooOf s) (cooOf e) (cooOf w) := by
  obtain ⟨hb12, hi, hj⟩ := partsOf_valid d h hh
  have hdec := decodeHash_spec cfg d hd h hh
  have hh' : h < Layer.nHash d := by rw [TopoLift.nHash_eq]; exact hh
  set b := (partsOf d h).d0h
  set i := (partsOf d h).i
  set j := (partsOf d h).j
  have hpar := north_cell_params d b i j hb hi hj
  have ho : 0 < 1 / (2 : ℝ) ^ d := by positivity
  have heps := epsPole_lt_step d hd
  set cx := cellCx d b i j with hcx
  set cy := cellCy d b i j with hcy
  set o := 1 / (2 : ℝ) ^ d with hod
  have hb0 : (0 : ℝ) ≤ b := Nat.cast_nonneg b
  have hu := abs_nonneg (cx - (2 * (b : ℝ) + 1))
  obtain ⟨u1, u2⟩ := abs_le.mp (show |cx - (2 * (b : ℝ) + 1)| ≤ 2 - cy - o by linarith)
  have n1 : norm8 cx = cx := norm8_of_nonneg _ (by linarith)
  have n3 : norm8 (cx - o) = cx - o := norm8_of_nonneg _ (by linarith)
  have hv := vertices_plane cfg d h b i j hh' hdec hb12 hi hj
  have hc := center_plane cfg d h b i j hh' hdec hb12 hi hj
  have v0 : vtx d b i j 0 = (norm8 cx, cy - o) := rfl
  have v1 : vtx d b i j 1 = (norm8 cx + o, cy) := rfl
  have v3 : vtx d b i j 3 = (norm8 (cx - o), cy) := rfl
  rw [v0, v1, v3, n1, n3] at hv
  rw [n1] at hc
  obtain ⟨uC, uS, uE, uW⟩ := cap_plane_positions b hb cx cy o heps hcap hpar
  rw [unproj_eq _ _ (by linarith) (by linarith)] at uC uS uE uW
  rw [Option.some.inj uC] at hc
  simp only [Option.some.inj uS, Option.some.inj uE, Option.some.inj uW] at hv
  refine ⟨_, _, _, _, _, hv, hc, ?_⟩
  have := cap_cone (cx - (2 * (b : ℝ) + 1)) (2 - cy) o (2 * (b : ℝ) + 1) (by linarith) ho hpar (by linarith)
  exact this

/-- **T2, the centre, south polar cap** (cells of the base cells 8–11 whose north vertex is on or below the south transition
    latitude): the unit vector of the centre is a positive combination of those of the NORTH, EAST and WEST vertices. -/
theorem centre_combo_south_cap (cfg : Cfg) (d h : ℕ) (hd : d ≤ 29) (hh : h < 12 * 4 ^ d)
    (hb : 8 ≤ (partsOf d h).d0h)
    (hcap : cellCy d (partsOf d h).d0h (partsOf d h).i (partsOf d h).j ≤ -1 - 1 / 2 ^ d) :
    ∃ (s e n w c : ℝ × ℝ), Hash.vertices (α := ℝ) cfg d h = some [s, e, n, w] ∧ Hash.center (α := ℝ) cfg d h = some c ∧
      PosCombo3 (cooOf c) (cooOf n) (cooOf e) (cooOf w) := by
  obtain ⟨hb12, hi, hj⟩ := partsOf_valid d h hh
  have hdec := decodeHash_spec cfg d hd h hh
  have hh' : h < Layer.nHash d := by rw [TopoLift.nHash_eq]; exact hh
  obtain ⟨k, hk, hbk⟩ : ∃ k, k < 4 ∧ (partsOf d h).d0h = k + 8 := ⟨(partsOf d h).d0h - 8, by omega, by omega⟩
  rw [hbk] at hb12 hcap
  have hdec' : Layer.decodeHash cfg d h = some ⟨k + 8, (partsOf d h).i, (partsOf d h).j⟩ := by rw [hdec, ← hbk]
  set i := (partsOf d h).i
  set j := (partsOf d h).j
  have hpar := south_cell_params d k i j hk
  have ho : 0 < 1 / (2 : ℝ) ^ d := by positivity
  have heps := epsPole_lt_step d hd
  set cx := cellCx d (k + 8) i j with hcx
  set cy := cellCy d (k + 8) i j with hcy
  set o := 1 / (2 : ℝ) ^ d with hod
  have hk0 : (0 : ℝ) ≤ k := Nat.cast_nonneg k
  have hu := abs_nonneg (cx - (2 * (k : ℝ) + 1))
  obtain ⟨u1, u2⟩ := abs_le.mp (show |cx - (2 * (k : ℝ) + 1)| ≤ 2 - -cy - o by linarith)
  have n1 : norm8 cx = cx := norm8_of_nonneg _ (by linarith)
  have n3 : norm8 (cx - o) = cx - o := norm8_of_nonneg _ (by linarith)
  have hv := vertices_plane cfg d h (k + 8) i j hh' hdec' hb12 hi hj
  have hc := center_plane cfg d h (k + 8) i j hh' hdec' hb12 hi hj
  have v1 : vtx d (k + 8) i j 1 = (norm8 cx + o, cy) := rfl
  have v2 : vtx d (k + 8) i j 2 = (norm8 cx, cy + o) := rfl
  have v3 : vtx d (k + 8) i j 3 = (norm8 (cx - o), cy) := rfl
  rw [v1, v2, v3, n1, n3] at hv
  rw [n1] at hc
  obtain ⟨uC, uS, uE, uW⟩ := cap_plane_positions k hk cx (-cy) o heps (by linarith) hpar
  -- mirror
  have htl := Hpx.C2VReal.tl_pos
  have mirv : ∀ (l y : ℝ), 1 ≤ y → y ≤ 2 → mir (l, capLat y) = (l, -capLat y) := by
    intro l y h1 h2
    have := (capLat_range y h1 h2).1
    simp only [mir, abs_of_nonneg (by linarith : 0 ≤ capLat y)]
  have mC := unproj_mirror cx (-cy) (by linarith) (by linarith)
  have mN := unproj_mirror cx (-cy - o) (by linarith) (by linarith)
  have mE := unproj_mirror (cx + o) (-cy) (by linarith) (by linarith)
  have mW := unproj_mirror (cx - o) (-cy) (by linarith) (by linarith)
  rw [uC, Option.map_some, mirv _ _ (by linarith) (by linarith), neg_neg] at mC
  rw [uS, Option.map_some, mirv _ _ (by linarith) (by linarith), show -(-cy - o) = cy + o by ring] at mN
  rw [uE, Option.map_some, mirv _ _ (by linarith) (by linarith), neg_neg] at mE
  rw [uW, Option.map_some, mirv _ _ (by linarith) (by linarith), neg_neg] at mW
  rw [unproj_eq _ _ (by linarith) (by linarith)] at mC mN mE mW
  rw [Option.some.inj mC] at hc
  simp only [Option.some.inj mN, Option.some.inj mE, Option.some.inj mW] at hv
  refine ⟨_, _, _, _, _, hv, hc, ?_⟩
  have := (cap_cone (cx - (2 * (k : ℝ) + 1)) (2 - -cy) o (2 * (k : ℝ) + 1) (by linarith) ho hpar (by linarith)).mirror
  exact this

end Hpx.PolyCompose
