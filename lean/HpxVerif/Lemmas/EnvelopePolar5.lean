import HpxVerif.Lemmas.EnvelopePolar4

/-!
# C16 — the south polar cap, by mirror symmetry (polar part 5)

`unproj (x, −y) = (lon, −lat)` when `unproj (x, y) = (lon, lat)` (`0 ≤ x`, `0 < y`, `0 ≤ lat`), the angular distance and
`largest_center_to_vertex_distance` (a function of `|lat|`) are invariant under the mirror image `lat ↦ −lat`.  A cell of a
south base cell `b = k + 8` whose centre is strictly inside the south cap (`i + j + 2 ≤ nside`) is the mirror image of a
plane cell of the north cap (its S vertex ↔ the N vertex of the image), whence

**`polar_envelope_dominates_at_centres_partial_south`**: the south-cap counterpart of
`polar_envelope_dominates_at_centres_partial` (E and W vertices of every cell, S and N vertices of the cells `i = j`,
the south-pole cell `i = j = 0` included).
-/

namespace Hpx.EnvelopePolar
open Hpx Hpx.Hash Hpx.Proj Hpx.Cover Hpx.C2V Hpx.C2VReal Hpx.EnvelopeReal Hpx.CellReal Real

/-- mirror image of a position through the equator, written as `unproj` does it (sign bit of `y` copied on `lat`) -/
noncomputable def mir (p : ℝ × ℝ) : ℝ × ℝ := (p.1, -|p.2|)

theorem unproj_mirror (x y : ℝ) (hx : 0 ≤ x) (hy : 0 < y) :
    unproj (α := ℝ) x (-y) = (unproj (α := ℝ) x y).map mir := by
  rw [unproj_sym x (-y), unproj_sym x y, abs_neg, Option.map_map]
  congr 1
  funext p
  simp only [Function.comp, mir, sgn_of_nonneg hx, sgn_of_neg (neg_neg_of_pos hy), sgn_of_nonneg hy.le]

theorem adist_mir (p q : ℝ × ℝ) (hp : 0 ≤ p.2) (hq : 0 ≤ q.2) : adist (mir p) (mir q) = adist p q := by
  rw [adist_eq_arccos, adist_eq_arccos]
  simp only [mir, abs_of_nonneg hp, abs_of_nonneg hq, Real.sin_neg, Real.cos_neg]
  congr 1; ring

theorem c2v_mir (c : Csts ℝ) (p : ℝ × ℝ) : c2v c (mir p).1 (mir p).2 = c2v c p.1 p.2 := by
  unfold c2v mir
  simp only [abs_neg, abs_abs]

theorem largestC2V_mir (d : ℕ) (p : ℝ × ℝ) : largestC2V false d (mir p).1 (mir p).2 = largestC2V false d p.1 p.2 := by
  rw [c2v_region_choice, c2v_region_choice, c2v_mir]

/-- the latitude returned by `unproj` on the closed Collignon triangle of a north facet is positive -/
theorem cap_lat_pos (k : ℕ) (hk : k < 4) (x y : ℝ) (hy1 : 1 ≤ y) (hy2 : y ≤ 2) (ht : |x - (2 * k + 1)| ≤ 2 - y)
    (hx2 : x < 2 * k + 2) (hp : (Num.epsPole : ℝ) < 2 - y ∨ y = 2) (p : ℝ × ℝ) (h : unproj (α := ℝ) x y = some p) :
    0 ≤ p.2 := by
  rw [unproj_cap k hk x y hy1 hy2 ht hx2 hp] at h
  have := (capLat_range y hy1 hy2).1
  have htl := tl_pos
  rw [← Option.some.inj h]
  show 0 ≤ capLat y
  linarith

/-- the five positions of the mirror image of a north-cap plane cell -/
theorem mirror_five (k : ℕ) (hk : k < 4) (X Y δ : ℝ) (hS : 1 ≤ Y - δ) (hN : Y + δ ≤ 2)
    (ht : |X - (2 * k + 1)| + δ ≤ 2 - Y) (heps : (Num.epsPole : ℝ) < δ)
    (hp : (Num.epsPole : ℝ) < 2 - Y - δ ∨ Y + δ = 2) (c pN pS pE pW : ℝ × ℝ)
    (uc : unproj (α := ℝ) X Y = some c) (uN : unproj (α := ℝ) X (Y + δ) = some pN)
    (uS : unproj (α := ℝ) X (Y - δ) = some pS) (uE : unproj (α := ℝ) (X + δ) Y = some pE)
    (uW : unproj (α := ℝ) (X - δ) Y = some pW) :
    (unproj (α := ℝ) X (-Y) = some (mir c) ∧ unproj (α := ℝ) X (-Y - δ) = some (mir pN) ∧
      unproj (α := ℝ) X (-Y + δ) = some (mir pS) ∧ unproj (α := ℝ) (X + δ) (-Y) = some (mir pE) ∧
      unproj (α := ℝ) (X - δ) (-Y) = some (mir pW)) ∧
    0 ≤ c.2 ∧ 0 ≤ pN.2 ∧ 0 ≤ pS.2 ∧ 0 ≤ pE.2 ∧ 0 ≤ pW.2 := by
  have he0 := epsPole_pos
  have hk0 : (0 : ℝ) ≤ k := Nat.cast_nonneg k
  have hta := abs_nonneg (X - (2 * (k : ℝ) + 1))
  obtain ⟨t1, t2⟩ := abs_le.mp (show |X - (2 * (k : ℝ) + 1)| ≤ 2 - Y - δ by linarith)
  have hX0 : 0 ≤ X - δ := by linarith
  have lc := cap_lat_pos k hk X Y (by linarith) (by linarith) (abs_le.mpr ⟨by linarith, by linarith⟩) (by linarith)
    (Or.inl (by linarith)) c uc
  have lN := cap_lat_pos k hk X (Y + δ) (by linarith) hN (abs_le.mpr ⟨by linarith, by linarith⟩) (by linarith)
    (by rcases hp with h | h
        · left; linarith
        · right; exact h) pN uN
  have lS := cap_lat_pos k hk X (Y - δ) hS (by linarith) (abs_le.mpr ⟨by linarith, by linarith⟩) (by linarith)
    (Or.inl (by linarith)) pS uS
  have lE := cap_lat_pos k hk (X + δ) Y (by linarith) (by linarith) (abs_le.mpr ⟨by linarith, by linarith⟩)
    (by linarith) (Or.inl (by linarith)) pE uE
  have lW := cap_lat_pos k hk (X - δ) Y (by linarith) (by linarith) (abs_le.mpr ⟨by linarith, by linarith⟩)
    (by linarith) (Or.inl (by linarith)) pW uW
  refine ⟨⟨?_, ?_, ?_, ?_, ?_⟩, lc, lN, lS, lE, lW⟩
  · rw [unproj_mirror X Y (by linarith) (by linarith), uc]; rfl
  · rw [show -Y - δ = -(Y + δ) by ring, unproj_mirror X _ (by linarith) (by linarith), uN]; rfl
  · rw [show -Y + δ = -(Y - δ) by ring, unproj_mirror X _ (by linarith) (by linarith), uS]; rfl
  · rw [unproj_mirror _ Y (by linarith) (by linarith), uE]; rfl
  · rw [unproj_mirror _ Y hX0 (by linarith), uW]; rfl

theorem baseX_south (k : ℕ) (hk : k < 4) : baseX (k + 8) = 2 * (k : ℝ) + 1 ∧ baseY (k + 8) = -1 := by
  unfold baseX baseY
  interval_cases k <;> norm_num

/-- plane centre of a cell of a south base cell `k + 8` whose centre is strictly inside the cap (`i + j + 2 ≤ nside`),
    in terms of the mirrored ordinate `−cellCy` -/
theorem south_cap_center (d k i j : ℕ) (hk : k < 4) (hi : i < 2 ^ d) (hj : j < 2 ^ d) (hcap : i + j + 2 ≤ 2 ^ d) :
    norm8 (cellCx d (k + 8) i j) = 2 * (k : ℝ) + 1 + ((i : ℝ) - j) / 2 ^ d ∧
    norm8 (cellCx d (k + 8) i j - 1 / 2 ^ d) = norm8 (cellCx d (k + 8) i j) - 1 / 2 ^ d ∧
    1 ≤ -cellCy d (k + 8) i j - 1 / 2 ^ d ∧ -cellCy d (k + 8) i j + 1 / 2 ^ d ≤ 2 ∧
    |norm8 (cellCx d (k + 8) i j) - (2 * (k : ℝ) + 1)| + 1 / 2 ^ d ≤ 2 - -cellCy d (k + 8) i j ∧
    (1 / 2 ^ d ≤ 2 - -cellCy d (k + 8) i j - 1 / 2 ^ d ∨ -cellCy d (k + 8) i j + 1 / 2 ^ d = 2) ∧
    (i = j → norm8 (cellCx d (k + 8) i j) = 2 * (k : ℝ) + 1) := by
  obtain ⟨bx, by1⟩ := baseX_south k hk
  have hp := pow_pos' d
  have hi' := cast_lt_pow hi
  have hj' := cast_lt_pow hj
  have hi0 : (0 : ℝ) ≤ i := Nat.cast_nonneg i
  have hj0 : (0 : ℝ) ≤ j := Nat.cast_nonneg j
  have hk0 : (0 : ℝ) ≤ k := Nat.cast_nonneg k
  have hcap' : (i : ℝ) + j + 2 ≤ 2 ^ d := by exact_mod_cast hcap
  have hx : cellCx d (k + 8) i j = 2 * (k : ℝ) + 1 + ((i : ℝ) - j) / 2 ^ d := by unfold cellCx; rw [bx]
  have hy : cellCy d (k + 8) i j = -1 + ((i : ℝ) + j + 1 - 2 ^ d) / 2 ^ d := by unfold cellCy; rw [by1]
  have hfr : -1 + 1 / (2 : ℝ) ^ d ≤ ((i : ℝ) - j) / 2 ^ d := (frac_bounds d _ (by linarith) (by linarith)).1
  have hδ0 : 0 < 1 / (2 : ℝ) ^ d := by positivity
  have hn8 : norm8 (cellCx d (k + 8) i j) = cellCx d (k + 8) i j := norm8_of_nonneg _ (by rw [hx]; linarith)
  have hn8' : norm8 (cellCx d (k + 8) i j - 1 / 2 ^ d) = cellCx d (k + 8) i j - 1 / 2 ^ d :=
    norm8_of_nonneg _ (by rw [hx]; linarith)
  have e1 : -cellCy d (k + 8) i j - 1 / 2 ^ d = 1 + (2 ^ d - 2 - ((i : ℝ) + j)) / 2 ^ d := by
    rw [hy]; field_simp; ring
  have e2 : -cellCy d (k + 8) i j + 1 / 2 ^ d = 2 - ((i : ℝ) + j) / 2 ^ d := by rw [hy]; field_simp; ring
  have e3 : 2 - -cellCy d (k + 8) i j = ((i : ℝ) + j + 1) / 2 ^ d := by rw [hy]; field_simp; ring
  refine ⟨by rw [hn8, hx], by rw [hn8, hn8'], ?_, ?_, ?_, ?_, ?_⟩
  · rw [e1]
    have : 0 ≤ (2 ^ d - 2 - ((i : ℝ) + j)) / 2 ^ d := div_nonneg (by linarith) hp.le
    linarith
  · rw [e2]
    have : 0 ≤ ((i : ℝ) + j) / 2 ^ d := div_nonneg (by linarith) hp.le
    linarith
  · rw [hn8, hx, e3, show 2 * (k : ℝ) + 1 + ((i : ℝ) - j) / 2 ^ d - (2 * (k : ℝ) + 1) = ((i : ℝ) - j) / 2 ^ d by ring,
      abs_div, abs_of_pos hp, ← add_div, div_le_div_iff_of_pos_right hp]
    rcases abs_cases ((i : ℝ) - j) with ⟨e, _⟩ | ⟨e, _⟩ <;> rw [e] <;> linarith
  · rcases Nat.eq_zero_or_pos (i + j) with h | h
    · right
      have h' : (i : ℝ) + j = 0 := by exact_mod_cast h
      rw [e2, h']; simp
    · left
      have h' : (1 : ℝ) ≤ (i : ℝ) + j := by exact_mod_cast h
      rw [e3, ← sub_div, le_div_iff₀ hp, one_div, inv_mul_cancel₀ hp.ne']
      linarith
  · intro hij
    rw [hn8, hx, hij]; simp

/-- **`polar_envelope_dominates_at_centres_partial_south`** (ℝ, release profile, every depth `1 … 29`, every valid cell of a
    south base cell `b = k + 8`, `k < 4`, whose centre is strictly inside the south cap: `i + j + 2 ≤ nside`).
    Same conclusion as in the north cap: the value of `largest_center_to_vertex_distance` at `center(d, hash)` is at
    least the angular distance to the E and W vertices and, for the cells `i = j` (the south-pole cell `i = j = 0`
    included), to the S and N vertices.  MISSING: S and N vertices of the cells `i ≠ j`. -/
theorem polar_envelope_dominates_at_centres_partial_south (cfg : Cfg) (d hash k i j : ℕ) (hd1 : 1 ≤ d) (hd2 : d ≤ 29)
    (hh : hash < Layer.nHash d) (hdec : Layer.decodeHash cfg d hash = some ⟨k + 8, i, j⟩) (hk : k < 4)
    (hi : i < 2 ^ d) (hj : j < 2 ^ d) (hcap : i + j + 2 ≤ 2 ^ d) :
    ∃ (c s e n w : ℝ × ℝ) (v : ℝ), center (α := ℝ) cfg d hash = some c ∧
      vertices (α := ℝ) cfg d hash = some [s, e, n, w] ∧ largestC2V false d c.1 c.2 = some v ∧
      adist c e ≤ v ∧ adist c w ≤ v ∧ (i = j → adist c s ≤ v ∧ adist c n ≤ v) := by
  have hb12 : k + 8 < 12 := by omega
  obtain ⟨hX, hW, hS, hN, ht, hp, hcen⟩ := south_cap_center d k i j hk hi hj hcap
  have heps := epsPole_lt_step d hd2
  have he0 := epsPole_pos
  obtain ⟨hδ0, hδ1⟩ := half_pow_range d hd1
  set X := norm8 (cellCx d (k + 8) i j) with hXdef
  set Y' := -cellCy d (k + 8) i j with hY'
  have hYY : cellCy d (k + 8) i j = -Y' := by rw [hY']; ring
  have hp' : (Num.epsPole : ℝ) < 2 - Y' - 1 / 2 ^ d ∨ Y' + 1 / 2 ^ d = 2 := by
    rcases hp with h | h
    · left; linarith
    · right; exact h
  obtain ⟨c, pN, pS, pE, pW, v, uc, uN, uS, uE, uW, hv, bE, bW, bNS⟩ :=
    polar_envelope_dominates_plane_partial d hd1 hd2 k hk X Y' hS hN ht hp'
  obtain ⟨⟨mc, mS, mN, mE, mW⟩, lc, lN, lS, lE, lW⟩ :=
    mirror_five k hk X Y' (1 / 2 ^ d) hS hN ht heps hp' c pN pS pE pW uc uN uS uE uW
  have hy := fun q => vtx_y_range d (k + 8) i j q hb12 hi hj
  have ec : unprojT X (cellCy d (k + 8) i j) = mir c := by
    obtain ⟨_, _, _, c4, c5⟩ := center_ranges d (k + 8) i j hb12 hi hj
    have := unproj_eq X (cellCy d (k + 8) i j) (by linarith) (by linarith)
    rw [hYY] at this ⊢
    rw [mc] at this; exact (Option.some.inj this).symm
  have eS : unprojT (vtx d (k + 8) i j 0).1 (vtx d (k + 8) i j 0).2 = mir pN := by
    have := unproj_eq (vtx d (k + 8) i j 0).1 (vtx d (k + 8) i j 0).2 (hy 0).1 (hy 0).2
    simp only [vtx] at this ⊢
    rw [hYY] at this ⊢
    rw [mS] at this; exact (Option.some.inj this).symm
  have eE : unprojT (vtx d (k + 8) i j 1).1 (vtx d (k + 8) i j 1).2 = mir pE := by
    have := unproj_eq (vtx d (k + 8) i j 1).1 (vtx d (k + 8) i j 1).2 (hy 1).1 (hy 1).2
    simp only [vtx] at this ⊢
    rw [hYY] at this ⊢
    rw [mE] at this; exact (Option.some.inj this).symm
  have eN : unprojT (vtx d (k + 8) i j 2).1 (vtx d (k + 8) i j 2).2 = mir pS := by
    have := unproj_eq (vtx d (k + 8) i j 2).1 (vtx d (k + 8) i j 2).2 (hy 2).1 (hy 2).2
    simp only [vtx] at this ⊢
    rw [hYY] at this ⊢
    rw [mN] at this; exact (Option.some.inj this).symm
  have eW : unprojT (vtx d (k + 8) i j 3).1 (vtx d (k + 8) i j 3).2 = mir pW := by
    have := unproj_eq (vtx d (k + 8) i j 3).1 (vtx d (k + 8) i j 3).2 (hy 3).1 (hy 3).2
    simp only [vtx] at this ⊢
    rw [hW, hYY] at this ⊢
    rw [mW] at this; exact (Option.some.inj this).symm
  refine ⟨mir c, mir pN, mir pE, mir pS, mir pW, v, ?_, ?_, ?_, ?_, ?_, ?_⟩
  · rw [center_plane cfg d hash (k + 8) i j hh hdec hb12 hi hj, ec]
  · rw [vertices_plane cfg d hash (k + 8) i j hh hdec hb12 hi hj, eS, eE, eN, eW]
  · rw [largestC2V_mir]; exact hv
  · rw [adist_mir c pE lc lE]; exact bE
  · rw [adist_mir c pW lc lW]; exact bW
  · intro hij
    obtain ⟨h1, h2⟩ := bNS (by rw [hcen hij])
    rw [adist_mir c pN lc lN, adist_mir c pS lc lS]
    exact ⟨h1, h2⟩

/-! ## examples -/

/-- depth 2, cell 128 = base cell 8, `(i, j) = (0, 0)`: the south-pole cell -/
example : ∃ (c s e n w : ℝ × ℝ) (v : ℝ), center (α := ℝ) {} 2 128 = some c ∧
      vertices (α := ℝ) {} 2 128 = some [s, e, n, w] ∧ largestC2V false 2 c.1 c.2 = some v ∧
      adist c e ≤ v ∧ adist c w ≤ v ∧ ((0 : ℕ) = 0 → adist c s ≤ v ∧ adist c n ≤ v) :=
  polar_envelope_dominates_at_centres_partial_south {} 2 128 0 0 0 (by decide) (by decide) (by decide)
    (by decide +kernel) (by decide) (by decide) (by decide) (by decide)

end Hpx.EnvelopePolar

#print axioms Hpx.EnvelopePolar.unproj_mirror
#print axioms Hpx.EnvelopePolar.polar_envelope_dominates_at_centres_partial_south
