/-
`to_lower_depth` (C15): the degraded BMOC is well formed, a coarse cell is kept iff it contained something, and it is
flagged full only if it lies inside one full input cell of depth `≤ new_depth`.
-/
import HpxVerif.Lemmas.BmocPack
import Mathlib.Tactic.Ring
import Mathlib.Tactic.Linarith

namespace Hpx.Bmoc.Lower

/-! ## the cell-level view of `toLowerLoop` -/

/-- a cell seen at the coarser depth `nd`: unchanged if not deeper than `nd`, else its partial ancestor at depth `nd` -/
def coarsen (nd : Nat) (c : Cell) : Cell :=
  if c.depth ≤ nd then c else ⟨nd, c.hash / 4 ^ (c.depth - nd), false⟩

/-- `toLowerLoop` on decoded cells -/
def lowerCells (nd : Nat) : List Cell → Option Nat → List Cell
  | [], some p => [⟨nd, p, false⟩]
  | [], none => []
  | c :: rest, prev =>
    if c.depth ≤ nd then
      (match prev with | some p => [⟨nd, p, false⟩] | none => []) ++ (c :: lowerCells nd rest none)
    else
      match prev with
      | some p =>
        if p != c.hash / 4 ^ (c.depth - nd) then
          ⟨nd, p, false⟩ :: lowerCells nd rest (some (c.hash / 4 ^ (c.depth - nd)))
        else lowerCells nd rest (some p)
      | none => lowerCells nd rest (some (c.hash / 4 ^ (c.depth - nd)))

theorem lo_self (nd a : Nat) (f : Bool) : lo nd ⟨nd, a, f⟩ = a := by simp [lo]
theorem hi_self (nd a : Nat) (f : Bool) : hi nd ⟨nd, a, f⟩ = a + 1 := by simp [hi]

theorem shallow_scale {dm nd : Nat} {c : Cell} (h1 : c.depth ≤ nd) (h2 : nd ≤ dm) :
    lo dm c = lo nd c * 4 ^ (dm - nd) ∧ hi dm c = hi nd c * 4 ^ (dm - nd) := by
  unfold lo hi
  rw [four_pow_split h1 h2]
  constructor <;> ring

theorem deep_scale {dm nd : Nat} {c : Cell} (h1 : nd < c.depth) (h2 : c.depth ≤ dm) :
    (c.hash / 4 ^ (c.depth - nd)) * 4 ^ (dm - nd) ≤ lo dm c ∧
    hi dm c ≤ (c.hash / 4 ^ (c.depth - nd) + 1) * 4 ^ (dm - nd) := by
  unfold lo hi
  have e : 4 ^ (dm - nd) = 4 ^ (c.depth - nd) * 4 ^ (dm - c.depth) := four_pow_split (Nat.le_of_lt h1) h2
  rw [e, ← Nat.mul_assoc, ← Nat.mul_assoc]
  constructor
  · apply Nat.mul_le_mul_right; exact Nat.div_mul_le_self _ _
  · apply Nat.mul_le_mul_right
    have := Nat.lt_div_mul_add (a := c.hash) (b := 4 ^ (c.depth - nd)) (Nat.pow_pos (by decide))
    rw [Nat.add_mul]; omega

theorem stOf_coarsen_cons (nd : Nat) (c : Cell) (l : List Cell) (y : Nat) :
    stOf nd ((c :: l).map (coarsen nd)) y =
      if c.depth ≤ nd then (if lo nd c ≤ y ∧ y < hi nd c then Tri.ofFlag c.full else stOf nd (l.map (coarsen nd)) y)
      else (if y = c.hash / 4 ^ (c.depth - nd) then .part else stOf nd (l.map (coarsen nd)) y) := by
  rw [List.map_cons, stOf_cons]
  unfold coarsen
  split
  · rfl
  · rw [lo_self, hi_self]
    by_cases h : y = c.hash / 4 ^ (c.depth - nd)
    · subst h; simp [Tri.ofFlag]
    · have : ¬ (c.hash / 4 ^ (c.depth - nd) ≤ y ∧ y < c.hash / 4 ^ (c.depth - nd) + 1) := by omega
      simp [this, h]

theorem lowerCells_spec (dm nd : Nat) (hnd : nd ≤ dm) : ∀ (cells : List Cell), WF dm cells →
    (∀ B, (∀ c ∈ cells, B * 4 ^ (dm - nd) ≤ lo dm c) →
      WF nd (lowerCells nd cells none) ∧ (∀ c ∈ lowerCells nd cells none, B ≤ lo nd c) ∧
      ∀ y, stOf nd (lowerCells nd cells none) y = stOf nd (cells.map (coarsen nd)) y) ∧
    (∀ p, (∀ c ∈ cells, p * 4 ^ (dm - nd) < lo dm c) →
      WF nd (lowerCells nd cells (some p)) ∧ (∀ c ∈ lowerCells nd cells (some p), p ≤ lo nd c) ∧
      ∀ y, stOf nd (lowerCells nd cells (some p)) y =
        if y = p then .part else stOf nd (cells.map (coarsen nd)) y) := by
  have hW : 0 < 4 ^ (dm - nd) := Nat.pow_pos (by decide)
  intro cells
  induction cells with
  | nil =>
    intro _
    refine ⟨fun B _ => ⟨trivial, by simp [lowerCells], fun y => rfl⟩, fun p _ => ⟨?_, ?_, ?_⟩⟩
    · exact ⟨Nat.le_refl _, by simp, trivial⟩
    · intro c hc
      simp only [lowerCells, List.mem_singleton] at hc
      subst hc; rw [lo_self]
    · intro y
      simp only [lowerCells, stOf_cons, lo_self, hi_self, List.map_nil, stOf]
      by_cases h : y = p
      · subst h; simp [Tri.ofFlag]
      · have : ¬ (p ≤ y ∧ y < p + 1) := by omega
        simp [this, h]
  | cons c rest ih =>
    intro hw
    obtain ⟨ihN, ihS⟩ := ih hw.tail
    have hcd : c.depth ≤ dm := hw.1
    have hafter : ∀ c' ∈ rest, hi dm c ≤ lo dm c' := hw.2.1
    have hlohi := lo_lt_hi dm c
    by_cases hsh : c.depth ≤ nd
    · -- shallow cell: copied
      obtain ⟨e1, e2⟩ := shallow_scale hsh hnd
      obtain ⟨t1, t2, t3⟩ := ihN (hi nd c) (fun c' hc' => by rw [← e2]; exact hafter c' hc')
      have hlohi' := lo_lt_hi nd c
      have wfc : WF nd (c :: lowerCells nd rest none) :=
        ⟨hsh, fun c' hc' => t2 c' hc', t1⟩
      have semc : ∀ y, stOf nd (c :: lowerCells nd rest none) y = stOf nd ((c :: rest).map (coarsen nd)) y := by
        intro y
        rw [stOf_coarsen_cons, if_pos hsh, stOf_cons, t3 y]
      refine ⟨fun B hB => ?_, fun p hp => ?_⟩
      · simp only [lowerCells, if_pos hsh, List.nil_append]
        refine ⟨wfc, ?_, semc⟩
        intro c' hc'
        have hBc : B ≤ lo nd c := by
          have := hB c (by simp)
          rw [e1] at this
          exact Nat.le_of_mul_le_mul_right this hW
        rcases List.mem_cons.1 hc' with rfl | hc'
        · exact hBc
        · have := t2 c' hc'; omega
      · simp only [lowerCells, if_pos hsh, List.singleton_append]
        have hpc : p + 1 ≤ lo nd c := by
          have := hp c (by simp)
          rw [e1] at this
          exact Nat.lt_of_mul_lt_mul_right this
        refine ⟨⟨Nat.le_refl _, ?_, wfc⟩, ?_, ?_⟩
        · intro c' hc'
          rw [hi_self]
          rcases List.mem_cons.1 hc' with rfl | hc'
          · exact hpc
          · have := t2 c' hc'; omega
        · intro c' hc'
          rcases List.mem_cons.1 hc' with rfl | hc'
          · rw [lo_self]
          · rcases List.mem_cons.1 hc' with rfl | hc'
            · omega
            · have := t2 c' hc'; omega
        · intro y
          rw [stOf_cons, lo_self, hi_self, semc y]
          by_cases h : y = p
          · subst h; simp [Tri.ofFlag]
          · have : ¬ (p ≤ y ∧ y < p + 1) := by omega
            simp [this, h]
    · -- deep cell: replaced by its ancestor
      have hdeep : nd < c.depth := by omega
      obtain ⟨e1, e2⟩ := deep_scale hdeep hcd
      set a := c.hash / 4 ^ (c.depth - nd) with ha
      obtain ⟨t1, t2, t3⟩ := ihS a (fun c' hc' => by have := hafter c' hc'; omega)
      refine ⟨fun B hB => ?_, fun p hp => ?_⟩
      · simp only [lowerCells, if_neg hsh, ← ha]
        have hBa : B ≤ a := by
          have h1 := hB c (by simp)
          have : B * 4 ^ (dm - nd) < (a + 1) * 4 ^ (dm - nd) := by omega
          have := Nat.lt_of_mul_lt_mul_right this
          omega
        refine ⟨t1, fun c' hc' => Nat.le_trans hBa (t2 c' hc'), ?_⟩
        intro y
        rw [t3 y, stOf_coarsen_cons, if_neg hsh]
      · have hpa : p ≤ a := by
          have h1 := hp c (by simp)
          have : p * 4 ^ (dm - nd) < (a + 1) * 4 ^ (dm - nd) := by omega
          have := Nat.lt_of_mul_lt_mul_right this
          omega
        by_cases hpe : p = a
        · simp only [lowerCells, if_neg hsh, ← ha]
          have : (p != a) = false := by simp [hpe]
          simp only [this, Bool.false_eq_true, if_false]
          rw [hpe]
          refine ⟨t1, t2, ?_⟩
          intro y
          rw [t3 y, stOf_coarsen_cons, if_neg hsh, ← ha]
          by_cases h : y = a <;> simp [h]
        · simp only [lowerCells, if_neg hsh, ← ha]
          have : (p != a) = true := by simp [hpe]
          simp only [this, if_true]
          refine ⟨⟨Nat.le_refl _, ?_, t1⟩, ?_, ?_⟩
          · intro c' hc'
            rw [hi_self]
            have := t2 c' hc'; omega
          · intro c' hc'
            rcases List.mem_cons.1 hc' with rfl | hc'
            · rw [lo_self]
            · have := t2 c' hc'; omega
          · intro y
            rw [stOf_cons, lo_self, hi_self, t3 y, stOf_coarsen_cons, if_neg hsh, ← ha]
            by_cases h : y = p
            · subst h; simp [Tri.ofFlag]
            · have : ¬ (p ≤ y ∧ y < p + 1) := by omega
              simp [this, h]

/-! ## raw level: `toLowerLoop` computes `lowerCells` -/

theorem flush_raw (nd p : Nat) : (p <<< 2) ||| 2 = buildRaw nd p false nd := by
  rw [buildRaw_eq, ← Nat.shiftLeft_add_eq_or_of_lt (by omega), Nat.shiftLeft_eq]
  simp
  omega

theorem lowRaw_encode {dm nd : Nat} {c : Cell} (h1 : c.depth ≤ nd) (h2 : nd < dm) :
    lowDepthRawAtLowerDepth (encode dm c) dm nd = encode nd c := by
  unfold lowDepthRawAtLowerDepth encode
  rw [buildRaw_eq, buildRaw_eq]
  generalize hf : (if c.full = true then 1 else 0 : Nat) = f
  have hf2 : f < 2 := by rw [← hf]; split <;> omega
  have e0 : (dm - nd) <<< 1 = 2 * (dm - nd) := by rw [Nat.shiftLeft_eq]; omega
  have e1 : 2 ^ (1 + 2 * (dm - c.depth)) = 2 ^ (1 + 2 * (nd - c.depth)) * 2 ^ (2 * (dm - nd)) := by
    rw [← Nat.pow_add]; congr 1; omega
  have hQ : 4 ≤ 2 ^ (2 * (dm - nd)) :=
    calc 4 = 2 ^ 2 := rfl
      _ ≤ 2 ^ (2 * (dm - nd)) := Nat.pow_le_pow_right (by decide) (by omega)
  have hshift : ((2 * c.hash + 1) * 2 ^ (1 + 2 * (dm - c.depth)) + f) >>> (2 * (dm - nd)) =
      (2 * c.hash + 1) * 2 ^ (1 + 2 * (nd - c.depth)) := by
    rw [Nat.shiftRight_eq_div_pow, e1, ← Nat.mul_assoc, Nat.mul_comm _ (2 ^ (2 * (dm - nd))),
      Nat.mul_add_div (by omega), Nat.div_eq_of_lt (by omega)]
    rfl
  have hand : ((2 * c.hash + 1) * 2 ^ (1 + 2 * (dm - c.depth)) + f) &&& 1 = f := by
    rw [Nat.and_one_is_mod, Nat.pow_add, Nat.pow_one]
    have : (2 * c.hash + 1) * (2 * 2 ^ (2 * (dm - c.depth))) = 2 * ((2 * c.hash + 1) * 2 ^ (2 * (dm - c.depth))) := by
      ring
    rw [this]; omega
  rw [e0, hshift, hand]
  have hlt : f < 2 ^ (1 + 2 * (nd - c.depth)) := by
    have : 2 ≤ 2 ^ (1 + 2 * (nd - c.depth)) :=
      calc 2 = 2 ^ 1 := rfl
        _ ≤ 2 ^ (1 + 2 * (nd - c.depth)) := Nat.pow_le_pow_right (by decide) (by omega)
    omega
  have := Nat.two_pow_add_eq_or_of_lt hlt (2 * c.hash + 1)
  rw [Nat.mul_comm] at this
  exact this.symm

theorem curHash_encode {dm nd : Nat} (hdm : dm ≤ 29) {c : Cell} (h1 : nd < c.depth) (h2 : c.depth ≤ dm)
    (hh : c.hash < 12 * 4 ^ c.depth) :
    hashFromDeltaDepth (encode dm c) (dm - nd) = c.hash / 4 ^ (c.depth - nd) := by
  obtain ⟨_, p2, _, _⟩ := raw_parts hdm h2 hh
  unfold hashFromDeltaDepth at p2 ⊢
  have e : 2 + ((dm - nd) <<< 1) = (2 + ((dm - c.depth) <<< 1)) + ((c.depth - nd) <<< 1) := by
    simp only [Nat.shiftLeft_eq]; omega
  rw [e, Nat.shiftRight_add, p2, shr_eq_div]

theorem anc_lt {d nd h : Nat} (h1 : nd ≤ d) (hh : h < 12 * 4 ^ d) : h / 4 ^ (d - nd) < 12 * 4 ^ nd := by
  apply Nat.div_lt_of_lt_mul
  have e : 4 ^ d = 4 ^ (d - nd) * 4 ^ nd := by rw [← Nat.pow_add]; congr 1; omega
  rw [e] at hh
  calc h < 12 * (4 ^ (d - nd) * 4 ^ nd) := hh
    _ = 4 ^ (d - nd) * (12 * 4 ^ nd) := by ring

theorem flush_facts {nd p : Nat} (hnd : nd ≤ 29) (hp : p < 12 * 4 ^ nd) :
    ValidRaw nd ((p <<< 2) ||| 2) ∧ decode ((p <<< 2) ||| 2) nd = ⟨nd, p, false⟩ := by
  rw [flush_raw nd p]
  exact ⟨validRaw_buildRaw false (Nat.le_refl _) hp,
    decode_buildRaw nd p false nd (Nat.le_refl _) (raw_fits (Nat.le_refl _) hnd hp)⟩

theorem toLowerLoop_cells (dm nd : Nat) (hdm : dm ≤ 29) (hnd : nd < dm) : ∀ (l : List Nat) (prev : Option Nat),
    (∀ r ∈ l, ValidRaw dm r) → (∀ p, prev = some p → p < 12 * 4 ^ nd) →
    cellsOf nd (toLowerLoop dm nd l prev) = lowerCells nd (cellsOf dm l) prev ∧
    ∀ r ∈ toLowerLoop dm nd l prev, ValidRaw nd r := by
  have hnd29 : nd ≤ 29 := by omega
  intro l
  induction l with
  | nil =>
    intro prev _ hp
    cases prev with
    | none => exact ⟨rfl, by simp [toLowerLoop]⟩
    | some p =>
      obtain ⟨f1, f2⟩ := flush_facts hnd29 (hp p rfl)
      refine ⟨?_, ?_⟩
      · simp only [toLowerLoop, cellsOf, List.map_cons, List.map_nil, lowerCells, f2]
      · intro r hr
        simp only [toLowerLoop, List.mem_singleton] at hr
        subst hr; exact f1
  | cons raw rest ih =>
    intro prev hv hp
    obtain ⟨c, hcd, hch, hraw⟩ := hv raw (by simp)
    obtain ⟨p1, _, _, p4⟩ := raw_parts hdm hcd hch
    rw [← hraw] at p1 p4
    have hvr : ∀ r ∈ rest, ValidRaw dm r := fun r hr => hv r (by simp [hr])
    rw [cellsOf_cons, p4]
    by_cases hsh : c.depth ≤ nd
    · -- shallow
      have hlow : lowDepthRawAtLowerDepth raw dm nd = encode nd c := by rw [hraw]; exact lowRaw_encode hsh hnd
      have hdec : decode (encode nd c) nd = c := decode_encode hsh hnd29 hch
      obtain ⟨i1, i2⟩ := ih none hvr (by simp)
      cases prev with
      | none =>
        simp only [toLowerLoop, p1, if_pos hsh, lowerCells, List.nil_append, hlow]
        refine ⟨by rw [cellsOf_cons, hdec, i1], ?_⟩
        intro r hr
        rcases List.mem_cons.1 hr with rfl | hr
        · exact ⟨c, hsh, hch, rfl⟩
        · exact i2 r hr
      | some p =>
        obtain ⟨f1, f2⟩ := flush_facts hnd29 (hp p rfl)
        simp only [toLowerLoop, p1, if_pos hsh, lowerCells, List.singleton_append, hlow]
        refine ⟨by rw [cellsOf_cons, cellsOf_cons, f2, hdec, i1], ?_⟩
        intro r hr
        rcases List.mem_cons.1 hr with rfl | hr
        · exact f1
        · rcases List.mem_cons.1 hr with rfl | hr
          · exact ⟨c, hsh, hch, rfl⟩
          · exact i2 r hr
    · -- deep
      have hdeep : nd < c.depth := by omega
      have hcur : hashFromDeltaDepth raw (dm - nd) = c.hash / 4 ^ (c.depth - nd) := by
        rw [hraw]; exact curHash_encode hdm hdeep hcd hch
      have hcurlt : c.hash / 4 ^ (c.depth - nd) < 12 * 4 ^ nd := anc_lt (Nat.le_of_lt hdeep) hch
      cases prev with
      | none =>
        obtain ⟨i1, i2⟩ := ih (some (c.hash / 4 ^ (c.depth - nd))) hvr (by intro p hp; cases hp; exact hcurlt)
        simp only [toLowerLoop, p1, if_neg hsh, lowerCells, hcur]
        exact ⟨i1, i2⟩
      | some p =>
        simp only [toLowerLoop, p1, if_neg hsh, lowerCells, hcur]
        split
        · obtain ⟨i1, i2⟩ := ih (some (c.hash / 4 ^ (c.depth - nd))) hvr (by intro p hp; cases hp; exact hcurlt)
          obtain ⟨f1, f2⟩ := flush_facts hnd29 (hp p rfl)
          refine ⟨by rw [cellsOf_cons, f2, i1], ?_⟩
          intro r hr
          rcases List.mem_cons.1 hr with rfl | hr
          · exact f1
          · exact i2 r hr
        · exact ih (some p) hvr hp

/-! ## what the coarse state function means at the original depth -/

theorem ofFlag_ne_abs (f : Bool) : Tri.ofFlag f ≠ .abs := by cases f <;> simp [Tri.ofFlag]

/-- in a well-formed list the state of a point of a listed cell is that cell's flag -/
theorem stOf_of_mem {D : Nat} {l : List Cell} (hw : WF D l) {c : Cell} (hc : c ∈ l) {x : Nat}
    (h1 : lo D c ≤ x) (h2 : x < hi D c) : stOf D l x = Tri.ofFlag c.full := by
  induction l with
  | nil => simp at hc
  | cons c0 rest ih =>
    rw [stOf_cons]
    rcases List.mem_cons.1 hc with rfl | hc
    · simp [h1, h2]
    · have := hw.2.1 c hc
      have : ¬ (lo D c0 ≤ x ∧ x < hi D c0) := by omega
      rw [if_neg this]
      exact ih hw.tail hc

/-- **kept iff it contained something**: the coarse cell `y` is not absent iff one of its depth-`dm` cells is not -/
theorem coarse_ne_abs_iff (dm nd : Nat) (hnd : nd ≤ dm) (cells : List Cell) (hd : ∀ c ∈ cells, c.depth ≤ dm) (y : Nat) :
    stOf nd (cells.map (coarsen nd)) y ≠ .abs ↔
      ∃ x, y * 4 ^ (dm - nd) ≤ x ∧ x < (y + 1) * 4 ^ (dm - nd) ∧ stOf dm cells x ≠ .abs := by
  have hW : 0 < 4 ^ (dm - nd) := Nat.pow_pos (by decide)
  induction cells with
  | nil => simp [stOf]
  | cons c rest ih =>
    have ih := ih (fun c' hc' => hd c' (by simp [hc']))
    have hcd : c.depth ≤ dm := hd c (by simp)
    have hlohi := lo_lt_hi dm c
    rw [stOf_coarsen_cons]
    -- the coarse image of `c` covers `y` iff `c` meets the interval of `y`
    have key : (if c.depth ≤ nd then (lo nd c ≤ y ∧ y < hi nd c) else y = c.hash / 4 ^ (c.depth - nd)) ↔
        ∃ x, y * 4 ^ (dm - nd) ≤ x ∧ x < (y + 1) * 4 ^ (dm - nd) ∧ lo dm c ≤ x ∧ x < hi dm c := by
      by_cases hsh : c.depth ≤ nd
      · rw [if_pos hsh]
        obtain ⟨e1, e2⟩ := shallow_scale hsh hnd
        rw [e1, e2]
        constructor
        · rintro ⟨h1, h2⟩
          refine ⟨y * 4 ^ (dm - nd), Nat.le_refl _, Nat.mul_lt_mul_of_pos_right (Nat.lt_succ_self y) hW,
            Nat.mul_le_mul_right _ h1, Nat.mul_lt_mul_of_pos_right h2 hW⟩
        · rintro ⟨x, h1, h2, h3, h4⟩
          have a : lo nd c * 4 ^ (dm - nd) < (y + 1) * 4 ^ (dm - nd) := by omega
          have b : y * 4 ^ (dm - nd) < hi nd c * 4 ^ (dm - nd) := by omega
          have := Nat.lt_of_mul_lt_mul_right a
          have := Nat.lt_of_mul_lt_mul_right b
          omega
      · rw [if_neg hsh]
        obtain ⟨e1, e2⟩ := deep_scale (show nd < c.depth by omega) hcd
        constructor
        · intro h
          rw [h]
          exact ⟨lo dm c, e1, by omega, Nat.le_refl _, hlohi⟩
        · rintro ⟨x, h1, h2, h3, h4⟩
          have a : c.hash / 4 ^ (c.depth - nd) * 4 ^ (dm - nd) < (y + 1) * 4 ^ (dm - nd) := by omega
          have b : y * 4 ^ (dm - nd) < (c.hash / 4 ^ (c.depth - nd) + 1) * 4 ^ (dm - nd) := by omega
          have := Nat.lt_of_mul_lt_mul_right a
          have := Nat.lt_of_mul_lt_mul_right b
          omega
    constructor
    · intro h
      by_cases hcov : (if c.depth ≤ nd then (lo nd c ≤ y ∧ y < hi nd c) else y = c.hash / 4 ^ (c.depth - nd))
      · obtain ⟨x, h1, h2, h3, h4⟩ := key.1 hcov
        refine ⟨x, h1, h2, ?_⟩
        rw [stOf_cons, if_pos ⟨h3, h4⟩]
        exact ofFlag_ne_abs _
      · have hrest : stOf nd (rest.map (coarsen nd)) y ≠ .abs := by
          by_cases hsh : c.depth ≤ nd
          · rw [if_pos hsh] at h hcov; rw [if_neg hcov] at h; exact h
          · rw [if_neg hsh] at h hcov; rw [if_neg hcov] at h; exact h
        obtain ⟨x, h1, h2, h3⟩ := ih.1 hrest
        by_cases hx : lo dm c ≤ x ∧ x < hi dm c
        · exact absurd (key.2 ⟨x, h1, h2, hx.1, hx.2⟩) hcov
        · exact ⟨x, h1, h2, by rw [stOf_cons, if_neg hx]; exact h3⟩
    · rintro ⟨x, h1, h2, h3⟩
      by_cases hx : lo dm c ≤ x ∧ x < hi dm c
      · have hcov := key.2 ⟨x, h1, h2, hx.1, hx.2⟩
        by_cases hsh : c.depth ≤ nd
        · rw [if_pos hsh] at hcov ⊢; rw [if_pos hcov]; exact ofFlag_ne_abs _
        · rw [if_neg hsh] at hcov ⊢; rw [if_pos hcov]; simp
      · rw [stOf_cons, if_neg hx] at h3
        have hrest := ih.2 ⟨x, h1, h2, h3⟩
        by_cases hsh : c.depth ≤ nd
        · rw [if_pos hsh]; split
          · exact ofFlag_ne_abs _
          · exact hrest
        · rw [if_neg hsh]; split
          · simp
          · exact hrest

/-- **full iff inside one full input cell of depth `≤ nd`** -/
theorem coarse_full_iff (dm nd : Nat) (hnd : nd ≤ dm) (cells : List Cell) (hw : WF dm cells) (y : Nat) :
    stOf nd (cells.map (coarsen nd)) y = .full ↔
      ∃ c ∈ cells, c.depth ≤ nd ∧ c.full = true ∧ lo nd c ≤ y ∧ y < hi nd c := by
  have hW : 0 < 4 ^ (dm - nd) := Nat.pow_pos (by decide)
  induction cells with
  | nil => simp [stOf]
  | cons c0 rest ih =>
    have ih := ih hw.tail
    have hcd : c0.depth ≤ dm := hw.1
    rw [stOf_coarsen_cons]
    constructor
    · intro h
      by_cases hsh : c0.depth ≤ nd
      · rw [if_pos hsh] at h
        by_cases hcov : lo nd c0 ≤ y ∧ y < hi nd c0
        · rw [if_pos hcov] at h
          have hf : c0.full = true := by
            cases hfl : c0.full
            · rw [hfl] at h; simp [Tri.ofFlag] at h
            · rfl
          exact ⟨c0, by simp, hsh, hf, hcov.1, hcov.2⟩
        · rw [if_neg hcov] at h
          obtain ⟨c, hc, r⟩ := ih.1 h
          exact ⟨c, by simp [hc], r⟩
      · rw [if_neg hsh] at h
        split at h
        · simp at h
        · obtain ⟨c, hc, r⟩ := ih.1 h
          exact ⟨c, by simp [hc], r⟩
    · rintro ⟨c, hc, hsc, hf, h1, h2⟩
      rcases List.mem_cons.1 hc with rfl | hc
      · rw [if_pos hsc, if_pos ⟨h1, h2⟩, hf]; rfl
      · have hafter := hw.2.1 c hc
        obtain ⟨e1, _⟩ := shallow_scale hsc hnd
        have hrest := ih.2 ⟨c, hc, hsc, hf, h1, h2⟩
        by_cases hsh : c0.depth ≤ nd
        · obtain ⟨_, e2'⟩ := shallow_scale hsh hnd
          rw [e1, e2'] at hafter
          have := Nat.le_of_mul_le_mul_right hafter hW
          have hn : ¬ (lo nd c0 ≤ y ∧ y < hi nd c0) := by omega
          rw [if_pos hsh, if_neg hn]; exact hrest
        · obtain ⟨d1, _⟩ := deep_scale (show nd < c0.depth by omega) hcd
          have hlh := lo_lt_hi dm c0
          have a : c0.hash / 4 ^ (c0.depth - nd) * 4 ^ (dm - nd) < lo nd c * 4 ^ (dm - nd) := by omega
          have := Nat.lt_of_mul_lt_mul_right a
          have hn : ¬ (y = c0.hash / 4 ^ (c0.depth - nd)) := by omega
          rw [if_neg hsh, if_neg hn]; exact hrest

/-! ## `to_lower_depth`: the statements of C15 -/

/-- the guard: `new_depth ≥ depth_max` panics, otherwise the result is the loop started with no pending hash -/
theorem toLower_guard (dm nd : Nat) (l : List Nat) :
    (nd ≥ dm → toLowerDepth dm nd l = none) ∧ (nd < dm → toLowerDepth dm nd l = some (toLowerLoop dm nd l none)) := by
  unfold toLowerDepth
  constructor
  · intro h; simp [h]
  · intro h; have : ¬ (nd ≥ dm) := by omega
    simp [this]

/-- the cells of the degraded BMOC denote the coarsened input -/
theorem toLower_st (dm nd : Nat) (hdm : dm ≤ 29) (hnd : nd < dm) (l : List Nat) (hv : ∀ r ∈ l, ValidRaw dm r)
    (hw : WF dm (cellsOf dm l)) (y : Nat) :
    stOf nd (cellsOf nd (toLowerLoop dm nd l none)) y = stOf nd ((cellsOf dm l).map (coarsen nd)) y := by
  obtain ⟨h1, _⟩ := toLowerLoop_cells dm nd hdm hnd l none hv (by simp)
  rw [h1]
  exact ((lowerCells_spec dm nd (Nat.le_of_lt hnd) _ hw).1 0 (by simp)).2.2 y

/-- **`toLower_wf`**: the degraded BMOC is well formed at depth `nd` and all its entries are valid raw values -/
theorem toLower_wf (dm nd : Nat) (hdm : dm ≤ 29) (hnd : nd < dm) (l : List Nat) (hv : ∀ r ∈ l, ValidRaw dm r)
    (hw : WF dm (cellsOf dm l)) :
    WF nd (cellsOf nd (toLowerLoop dm nd l none)) ∧ ∀ r ∈ toLowerLoop dm nd l none, ValidRaw nd r := by
  obtain ⟨h1, h2⟩ := toLowerLoop_cells dm nd hdm hnd l none hv (by simp)
  rw [h1]
  exact ⟨((lowerCells_spec dm nd (Nat.le_of_lt hnd) _ hw).1 0 (by simp)).1, h2⟩

/-- **`toLower_sem` (kept iff it contained something)** -/
theorem toLower_sem (dm nd : Nat) (hdm : dm ≤ 29) (hnd : nd < dm) (l : List Nat) (hv : ∀ r ∈ l, ValidRaw dm r)
    (hw : WF dm (cellsOf dm l)) (y : Nat) :
    stOf nd (cellsOf nd (toLowerLoop dm nd l none)) y ≠ .abs ↔
      ∃ x, y * 4 ^ (dm - nd) ≤ x ∧ x < (y + 1) * 4 ^ (dm - nd) ∧ stOf dm (cellsOf dm l) x ≠ .abs := by
  rw [toLower_st dm nd hdm hnd l hv hw y]
  exact coarse_ne_abs_iff dm nd (Nat.le_of_lt hnd) _ hw.depth_le y

/-- **`toLower_full_iff`**: the coarse cell `y` is flagged full iff its whole interval lies in ONE input cell of depth
    `≤ nd` that is flagged full -/
theorem toLower_full_iff (dm nd : Nat) (hdm : dm ≤ 29) (hnd : nd < dm) (l : List Nat) (hv : ∀ r ∈ l, ValidRaw dm r)
    (hw : WF dm (cellsOf dm l)) (y : Nat) :
    stOf nd (cellsOf nd (toLowerLoop dm nd l none)) y = .full ↔
      ∃ c ∈ cellsOf dm l, c.depth ≤ nd ∧ c.full = true ∧
        lo dm c ≤ y * 4 ^ (dm - nd) ∧ (y + 1) * 4 ^ (dm - nd) ≤ hi dm c := by
  have hW : 0 < 4 ^ (dm - nd) := Nat.pow_pos (by decide)
  rw [toLower_st dm nd hdm hnd l hv hw y, coarse_full_iff dm nd (Nat.le_of_lt hnd) _ hw y]
  constructor
  · rintro ⟨c, hc, hsc, hf, h1, h2⟩
    obtain ⟨e1, e2⟩ := shallow_scale hsc (Nat.le_of_lt hnd)
    exact ⟨c, hc, hsc, hf, by rw [e1]; exact Nat.mul_le_mul_right _ h1, by rw [e2]; exact Nat.mul_le_mul_right _ h2⟩
  · rintro ⟨c, hc, hsc, hf, h1, h2⟩
    obtain ⟨e1, e2⟩ := shallow_scale hsc (Nat.le_of_lt hnd)
    rw [e1] at h1; rw [e2] at h2
    have := Nat.le_of_mul_le_mul_right h1 hW
    have := Nat.le_of_mul_le_mul_right h2 hW
    exact ⟨c, hc, hsc, hf, by omega, by omega⟩

/-- **full only if entirely covered by full cells** (the statement of the property) -/
theorem toLower_full_only_if (dm nd : Nat) (hdm : dm ≤ 29) (hnd : nd < dm) (l : List Nat) (hv : ∀ r ∈ l, ValidRaw dm r)
    (hw : WF dm (cellsOf dm l)) (y : Nat)
    (hfull : stOf nd (cellsOf nd (toLowerLoop dm nd l none)) y = .full) :
    ∀ x, y * 4 ^ (dm - nd) ≤ x → x < (y + 1) * 4 ^ (dm - nd) → stOf dm (cellsOf dm l) x = .full := by
  obtain ⟨c, hc, _, hf, h1, h2⟩ := (toLower_full_iff dm nd hdm hnd l hv hw y).1 hfull
  intro x hx1 hx2
  rw [stOf_of_mem hw hc (by omega) (by omega), hf]; rfl

/-! ## examples -/

/-- a depth-2 BMOC: a full depth-1 cell, two depth-2 cells with the same parent (one full, one partial), a full depth-2
    cell with another parent, a full depth-0 cell -/
def exLower : List Nat :=
  [buildRaw 1 3 true 2, buildRaw 2 16 true 2, buildRaw 2 17 false 2, buildRaw 2 21 true 2, buildRaw 0 3 true 2]

/-- deeper cells become partial cells `(p <<< 2) ||| 2`, consecutive ones with the same ancestor are merged, cells of
    depth `≤ nd` keep their flag -/
example : toLowerDepth 2 1 exLower = some [buildRaw 1 3 true 1, (4 <<< 2) ||| 2, (5 <<< 2) ||| 2, buildRaw 0 3 true 1] := by
  decide
example : cellsOf 1 (toLowerLoop 2 1 exLower none) = [⟨1, 3, true⟩, ⟨1, 4, false⟩, ⟨1, 5, false⟩, ⟨0, 3, true⟩] := by
  decide
example : toLowerDepth 2 2 exLower = none := by decide

/-- the hypotheses of the theorems are satisfiable by this non-trivial list -/
example : (2 ≤ 29) ∧ (1 < 2) ∧ (∀ r ∈ exLower, ValidRaw 2 r) ∧ WF 2 (cellsOf 2 exLower) := by
  refine ⟨by decide, by decide, ?_, ?_⟩
  · intro r hr
    simp only [exLower, List.mem_cons, List.not_mem_nil, or_false] at hr
    rcases hr with rfl | rfl | rfl | rfl | rfl <;> exact validRaw_buildRaw _ (by decide) (by decide)
  · have : cellsOf 2 exLower = [⟨1, 3, true⟩, ⟨2, 16, true⟩, ⟨2, 17, false⟩, ⟨2, 21, true⟩, ⟨0, 3, true⟩] := by decide
    rw [this]
    simp [WF, lo, hi]

end Hpx.Bmoc.Lower

#print axioms Hpx.Bmoc.Lower.toLower_wf
#print axioms Hpx.Bmoc.Lower.toLower_sem
#print axioms Hpx.Bmoc.Lower.toLower_full_iff
#print axioms Hpx.Bmoc.Lower.toLower_full_only_if
