import HpxVerif.Lemmas.EnvelopePolar6

/-!
# C16 — polar caps: the inner half of every base cell (polar part 7)

Part 3 proves that the value at the centre dominates the north/south distances only for the cells of the central
meridian.  Here the family is enlarged to the cells whose offset from the central meridian is at most half of what the
Collignon triangle allows at the ordinate of their north vertex: `2·|t| ≤ σ − δ` (in cell indices
`2·|i − j| ≤ 2·nside − 2 − i − j`), for every depth `3 … 29`.

With `a = dMinP δ = intercept_npc`, `M = dMaxP δ`, `m = slope_npc·π/4 = (M − a)/(1 − δ)`:
* `cos_add_le`, `cos_sub_cos_le`: tangent inequalities of the concave `cos` on `[0, π/2]`;
* `cos_gcDist_ge`: `cos(dist) ≥ cos(Δlat) − cos φ₁·cos φ₂·Δlon²/2`;
* `cos_dMaxP`, `C0_bounds`, `dMaxP_le` (`M ≤ 1.1·δ`), `sin_dMinP_ge` (`sin a ≥ 0.87·δ`, `δ ≤ 1/8`);
* `slope_sin_ge`: **`π²/96·δ² ≤ m·sin a`** for `δ ≤ 1/8` (a lower bound on `slope_npc`);
* `seg_le`: for a "vertical" plane segment `(t, σ₁) – (t, σ₂)`, `σ₁ = σ₂ + δ ≤ 1`, `2·|t| ≤ σ₂`: its great-circle length is at
  most `a + m·|t|/σ₁`;
* **`polar_envelope_dominates_plane_inner`**, **`polar_envelope_dominates_at_centres_inner`** (north cap),
  **`polar_envelope_dominates_at_centres_inner_south`** (south cap): all four vertices.
-/

namespace Hpx.EnvelopePolar
open Hpx Hpx.Hash Hpx.Proj Hpx.Cover Hpx.C2V Hpx.C2VReal Hpx.EnvelopeReal Hpx.CellReal Real

/-! ## tangent inequalities for `cos` on `[0, π/2]` -/

theorem cos_add_le (a x : ℝ) (ha : 0 ≤ a) (hx : 0 ≤ x) (h : a + x ≤ π / 2) : cos (a + x) ≤ cos a - x * sin a := by
  rcases eq_or_lt_of_le hx with rfl | hpos
  · simp
  have hpi := Real.pi_pos
  have h1 := strictConcaveOn_cos_Icc.concaveOn.slope_le_of_hasDerivAt (x := a) (y := a + x)
    ⟨by linarith, by linarith⟩ ⟨by linarith, h⟩ (by linarith) (Real.hasDerivAt_cos a)
  rw [slope_def_field, div_le_iff₀ (by linarith)] at h1
  linarith

theorem cos_sub_cos_le (A B : ℝ) (hA : 0 ≤ A) (hAB : A ≤ B) (hB : B ≤ π / 2) : cos A - cos B ≤ (B - A) * sin B := by
  rcases eq_or_lt_of_le hAB with rfl | hlt
  · simp
  have hpi := Real.pi_pos
  have h1 := strictConcaveOn_cos_Icc.concaveOn.le_slope_of_hasDerivAt (x := A) (y := B)
    ⟨by linarith, by linarith⟩ ⟨by linarith, hB⟩ hlt (Real.hasDerivAt_cos B)
  rw [slope_def_field, le_div_iff₀ (by linarith)] at h1
  linarith

/-! ## a lower bound for the cosine of a great-circle distance -/

theorem cos_gcDist_ge (φ₁ φ₂ Δ : ℝ) (hC : 0 ≤ cos φ₁ * cos φ₂) :
    cos (φ₂ - φ₁) - cos φ₁ * cos φ₂ * (Δ ^ 2 / 2) ≤ cos (gcDist φ₁ φ₂ Δ) := by
  rw [cos_gcDist, cos_sub]
  have h := mul_le_mul_of_nonneg_left (Real.one_sub_sq_div_two_le_cos (x := Δ)) hC
  nlinarith

theorem gcDist_comm (φ₁ φ₂ Δ : ℝ) : gcDist φ₁ φ₂ Δ = gcDist φ₂ φ₁ Δ := by
  unfold gcDist; congr 1; ring

/-! ## the constants -/

theorem cos_dMaxP (δ : ℝ) :
    cos (dMaxP δ) = cos (dMinP δ) - cos tl * cos (capLat (1 + δ)) * (1 - cos (π / 4 * δ)) := by
  unfold dMaxP dMinP
  rw [cos_gcDist, cos_sub]; ring

theorem cos_sq_tl : cos tl ^ 2 = 5 / 9 := by
  have h : sin tl = 2 / 3 := Real.sin_arcsin (by norm_num) (by norm_num)
  rw [Real.cos_sq', h]; norm_num

theorem cos_tl_nonneg : 0 ≤ cos tl := Real.cos_arcsin_nonneg _

/-- `C0 = cos(tl)·cos(capLat(1 + δ)) ∈ [5/9·(1 − δ), 5/9]` -/
theorem C0_bounds (δ : ℝ) (h0 : 0 ≤ δ) (h1 : δ ≤ 1) :
    5 / 9 * (1 - δ) ≤ cos tl * cos (capLat (1 + δ)) ∧ cos tl * cos (capLat (1 + δ)) ≤ 5 / 9 := by
  have ht0 := cos_tl_nonneg
  have ht2 := cos_sq_tl
  have hn0 := cos_capLat_nonneg (1 + δ) (by linarith) (by linarith)
  have hn2 : cos (capLat (1 + δ)) ^ 2 = (1 - δ) ^ 2 * (6 - (1 - δ) ^ 2) / 9 := by
    rw [cos_sq_capLat _ (by linarith) (by linarith)]; ring
  set s := 1 - δ with hs
  have hs0 : 0 ≤ s := by linarith
  have hs1 : s ≤ 1 := by linarith
  have hss : s ^ 2 ≤ 1 := by nlinarith
  have hup : cos (capLat (1 + δ)) ≤ cos tl := by
    apply le_of_sq_le_sq _ ht0
    rw [hn2, ht2]
    nlinarith [sq_nonneg s]
  have hlo : s * cos tl ≤ cos (capLat (1 + δ)) := by
    apply le_of_sq_le_sq _ hn0
    rw [mul_pow, hn2, ht2]
    nlinarith [sq_nonneg s]
  constructor
  · have := mul_le_mul_of_nonneg_left hlo ht0
    nlinarith
  · have := mul_le_mul_of_nonneg_left hup ht0
    nlinarith

theorem pi_sq_le : π ^ 2 ≤ 99225 / 10000 := by
  have h := Real.pi_lt_d2
  have h0 := Real.pi_pos
  norm_num at h
  nlinarith

theorem dMinP_pos (δ : ℝ) (h0 : 0 < δ) (h1 : δ ≤ 1) : 0 < dMinP δ := by
  have h := dMinP_sq_ge δ h0.le h1
  have hn := dMinP_nonneg δ h0.le
  rcases eq_or_lt_of_le hn with h' | h'
  · rw [← h'] at h
    have : 0 < δ ^ 2 := by positivity
    nlinarith
  · exact h'

/-- `dMaxP δ ≤ 1.1·δ` for `0 < δ ≤ 1/4` -/
theorem dMaxP_le (δ : ℝ) (h0 : 0 < δ) (h1 : δ ≤ 1 / 4) : dMaxP δ ≤ 11 / 10 * δ := by
  have hpi := Real.pi_gt_three
  by_contra hcon
  rw [not_le] at hcon
  have hM : cos (dMaxP δ) < cos (11 / 10 * δ) :=
    Real.cos_lt_cos_of_nonneg_of_le_pi (by positivity : 0 ≤ 11 / 10 * δ) (gcDist_le_pi _ _ _) hcon
  have hb := Real.cos_bound (x := 11 / 10 * δ) (by rw [abs_of_pos (by positivity)]; linarith)
  rw [abs_of_pos (by positivity : 0 < 11 / 10 * δ)] at hb
  have hb2 := (abs_le.mp hb).2
  obtain ⟨c1, c2⟩ := C0_bounds δ h0.le (by linarith)
  have ha := Real.one_sub_sq_div_two_le_cos (x := dMinP δ)
  have hx := Real.one_sub_sq_div_two_le_cos (x := π / 4 * δ)
  have ha2 := dMinP_sq_le δ h0.le (by linarith)
  have hC0 : 0 ≤ cos tl * cos (capLat (1 + δ)) := by nlinarith
  have hcos := cos_dMaxP δ
  have hx2 : (π / 4 * δ) ^ 2 = π ^ 2 * δ ^ 2 / 16 := by ring
  have hps := pi_sq_le
  have hδ2 : 0 < δ ^ 2 := by positivity
  have hδ2' : δ ^ 2 ≤ 1 / 16 := by nlinarith
  -- `C0·(1 − cos x) ≤ 5/9·x²/2`
  have h1c : 0 ≤ 1 - cos (π / 4 * δ) := by linarith [Real.cos_le_one (π / 4 * δ)]
  have hterm : cos tl * cos (capLat (1 + δ)) * (1 - cos (π / 4 * δ)) ≤ 5 / 9 * ((π / 4 * δ) ^ 2 / 2) :=
    mul_le_mul c2 (by linarith) h1c (by norm_num)
  have hxx : (π / 4 * δ) ^ 2 ≤ 99225 / 160000 * δ ^ 2 := by
    rw [hx2]; nlinarith
  have hδ4 : δ ^ 4 ≤ δ ^ 2 / 16 := by nlinarith
  have e4 : (11 / 10 * δ) ^ 4 = 14641 / 10000 * δ ^ 4 := by ring
  have e2 : (11 / 10 * δ) ^ 2 = 121 / 100 * δ ^ 2 := by ring
  rw [e4, e2] at hb2
  linarith

theorem dMaxP_pos (d : ℕ) (hd : 1 ≤ d) : 0 < dMaxP (1 / 2 ^ d) := by
  obtain ⟨h0, h1⟩ := half_pow_range d hd
  have := dMinP_pos (1 / 2 ^ d) h0 (by linarith)
  have := dMinP_lt_dMaxP d hd
  linarith

/-- `sin(dMinP δ) ≥ 0.87·δ` for `0 < δ ≤ 1/8` -/
theorem sin_dMinP_ge (δ : ℝ) (h0 : 0 < δ) (h1 : δ ≤ 1 / 8) : 87 / 100 * δ ≤ sin (dMinP δ) := by
  have hge := dMinP_sq_ge δ h0.le (by linarith)
  have hle := dMinP_sq_le δ h0.le (by linarith)
  have hn := dMinP_nonneg δ h0.le
  have hδ2 : 0 < δ ^ 2 := by positivity
  have hδ2' : δ ^ 2 ≤ 1 / 64 := by nlinarith
  have hs : 6 - (1 - δ) ^ 2 ≤ 335 / 64 := by nlinarith
  have ha2 : (873 / 1000 * δ) ^ 2 ≤ dMinP δ ^ 2 := by
    have : dMinP δ ^ 2 * (6 - (1 - δ) ^ 2) ≤ dMinP δ ^ 2 * (335 / 64) :=
      mul_le_mul_of_nonneg_left hs (by positivity)
    nlinarith
  have ha : 873 / 1000 * δ ≤ dMinP δ := le_of_sq_le_sq ha2 hn
  have hsin := Real.sin_ge_sub_cube hn
  have hcube : dMinP δ ^ 3 / 6 ≤ dMinP δ * (21 / 10000) := by
    have : dMinP δ ^ 3 = dMinP δ * dMinP δ ^ 2 := by ring
    rw [this]
    have h2 : dMinP δ ^ 2 ≤ 1 / 80 := by nlinarith
    nlinarith
  nlinarith

/-- `1 − cos x ≥ 0.99·x²/2` for `x² ≤ 1/100` -/
theorem one_sub_cos_ge (x : ℝ) (h : x ^ 2 ≤ 1 / 100) : x ^ 2 / 2 * (99 / 100) ≤ 1 - cos x := by
  have hx1 : |x| ≤ 1 := by
    apply abs_le_of_sq_le_sq _ (by norm_num)
    linarith
  have hb := (abs_le.mp (Real.cos_bound hx1)).2
  have h4 : |x| ^ 4 = (x ^ 2) ^ 2 := by rw [← sq_abs x]; ring
  rw [h4] at hb
  have h2 : 0 ≤ x ^ 2 := sq_nonneg x
  nlinarith

/-- the arithmetic core of `slope_sin_ge` (`P = π²`, `S = sin a`, `T = sin M`, `W = 1 − cos(δπ/4)`, `C = C0`) -/
theorem slope_arith (P δ D C S T W : ℝ) (hδ0 : 0 < δ) (hP0 : 0 < P) (hS : 87 / 100 * δ ≤ S) (hT0 : 0 < T)
    (hT1 : T ≤ 11 / 10 * δ) (hC : 5 / 9 * (7 / 8) ≤ C) (hW : P * δ ^ 2 / 16 / 2 * (99 / 100) ≤ W)
    (hkey : C * W ≤ D * T) : P / 96 * δ ^ 2 ≤ D * S := by
  have hW0 : 0 ≤ P * δ ^ 2 / 16 / 2 * (99 / 100) := by positivity
  have h1 : 5 / 9 * (7 / 8) * (P * δ ^ 2 / 16 / 2 * (99 / 100)) ≤ C * W := mul_le_mul hC hW hW0 (by linarith)
  have hS0 : 0 ≤ S := le_trans (by positivity) hS
  have h2 : 5 / 9 * (7 / 8) * (P * δ ^ 2 / 16 / 2 * (99 / 100)) * (87 / 100 * δ) ≤ D * T * S :=
    mul_le_mul (h1.trans hkey) hS (by positivity) (le_trans (by positivity) (h1.trans hkey))
  have h3 : P / 96 * δ ^ 2 * T ≤ P / 96 * δ ^ 2 * (11 / 10 * δ) := mul_le_mul_of_nonneg_left hT1 (by positivity)
  have h4 : P / 96 * δ ^ 2 * (11 / 10 * δ) ≤ 5 / 9 * (7 / 8) * (P * δ ^ 2 / 16 / 2 * (99 / 100)) * (87 / 100 * δ) := by
    have : 0 < P * δ ^ 3 := by positivity
    nlinarith
  have h5 : P / 96 * δ ^ 2 * T ≤ D * S * T := by linarith
  exact le_of_mul_le_mul_right h5 hT0

/-- **a lower bound on `slope_npc`**: `π²/96·δ² ≤ (slope_npc·π/4)·sin(intercept_npc)` for every depth `d ≥ 3` -/
theorem slope_sin_ge (d : ℕ) (hd : 3 ≤ d) :
    π ^ 2 / 96 * (1 / 2 ^ d) ^ 2 ≤ (Csts.new d : Csts ℝ).slopeNpc * (π / 4) * sin (dMinP (1 / 2 ^ d)) := by
  have hpi := Real.pi_gt_three
  have hpi4 := Real.pi_le_four
  have hδ0 : 0 < (1 : ℝ) / 2 ^ d := by positivity
  have hδ8 : (1 : ℝ) / 2 ^ d ≤ 1 / 8 := by
    have : (2 : ℝ) ^ 3 ≤ 2 ^ d := pow_le_pow_right₀ (by norm_num) hd
    rw [div_le_div_iff₀ (by positivity) (by norm_num)]; linarith
  have hgap := dMinP_lt_dMaxP d (by omega)
  rw [new_slopeNpc_eq]
  generalize (1 : ℝ) / 2 ^ d = δ at *
  have ha0 : 0 < dMinP δ := dMinP_pos δ hδ0 (by linarith)
  have hM1 : dMaxP δ ≤ 11 / 10 * δ := dMaxP_le δ hδ0 (by linarith)
  have hsa := sin_dMinP_ge δ hδ0 hδ8
  obtain ⟨c1, c2⟩ := C0_bounds δ hδ0.le (by linarith)
  have hm : (dMaxP δ - dMinP δ) / (π / 4 * (1 - δ)) * (π / 4) = (dMaxP δ - dMinP δ) / (1 - δ) := by
    have : (1 : ℝ) - δ ≠ 0 := by linarith
    field_simp
  rw [hm]
  have hm2 : dMaxP δ - dMinP δ ≤ (dMaxP δ - dMinP δ) / (1 - δ) := by
    rw [le_div_iff₀ (by linarith)]; nlinarith
  have hkey := cos_sub_cos_le (dMinP δ) (dMaxP δ) ha0.le hgap.le (by linarith)
  rw [cos_dMaxP] at hkey
  have hkey' : cos tl * cos (capLat (1 + δ)) * (1 - cos (π / 4 * δ)) ≤ (dMaxP δ - dMinP δ) * sin (dMaxP δ) := by
    linarith
  have hsM0 : 0 < sin (dMaxP δ) := Real.sin_pos_of_pos_of_lt_pi (by linarith) (by linarith)
  have hsM1 : sin (dMaxP δ) ≤ 11 / 10 * δ := (Real.sin_le (by linarith)).trans hM1
  have hps := pi_sq_le
  have hδ2 : 0 < δ ^ 2 := by positivity
  have hδ2' : δ ^ 2 ≤ 1 / 64 := by nlinarith
  have hx2e : (π / 4 * δ) ^ 2 = π ^ 2 * δ ^ 2 / 16 := by ring
  have hx2s : (π / 4 * δ) ^ 2 ≤ 1 / 100 := by rw [hx2e]; nlinarith
  have h1c := one_sub_cos_ge (π / 4 * δ) hx2s
  rw [hx2e] at h1c
  have hsa0 : 0 ≤ sin (dMinP δ) := le_trans (by positivity) hsa
  have hcore := slope_arith (π ^ 2) δ (dMaxP δ - dMinP δ) (cos tl * cos (capLat (1 + δ))) (sin (dMinP δ))
    (sin (dMaxP δ)) (1 - cos (π / 4 * δ)) hδ0 (by positivity) hsa hsM0 hsM1 (by nlinarith) h1c hkey'
  exact hcore.trans (mul_le_mul_of_nonneg_right hm2 hsa0)

/-! ## a vertical plane segment in the inner half of the Collignon triangle -/

theorem cos_sq_capLat_le (σ : ℝ) (h0 : 0 ≤ σ) (h1 : σ ≤ 1) : cos (capLat (2 - σ)) ^ 2 ≤ 2 / 3 * σ ^ 2 := by
  rw [cos_sq_capLat _ (by linarith) (by linarith), show 2 - (2 - σ) = σ by ring]
  nlinarith [sq_nonneg σ, sq_nonneg (σ ^ 2)]

/-- `intercept_npc ≤ 0.9·δ` -/
theorem dMinP_le_lin (δ : ℝ) (h0 : 0 ≤ δ) (h1 : δ ≤ 1) : dMinP δ ≤ 9 / 10 * δ := by
  apply le_of_sq_le_sq _ (by positivity)
  have := dMinP_sq_le δ h0 h1
  nlinarith [sq_nonneg δ]

/-- `slope_npc·π/4 ≤ 2·δ` (`δ ≤ 1/8`) -/
theorem slope_le_lin (d : ℕ) (hd : 3 ≤ d) : (Csts.new d : Csts ℝ).slopeNpc * (π / 4) ≤ 2 * (1 / 2 ^ d) := by
  have hpi := Real.pi_pos
  have hδ0 : 0 < (1 : ℝ) / 2 ^ d := by positivity
  have hδ8 : (1 : ℝ) / 2 ^ d ≤ 1 / 8 := by
    have : (2 : ℝ) ^ 3 ≤ 2 ^ d := pow_le_pow_right₀ (by norm_num) hd
    rw [div_le_div_iff₀ (by positivity) (by norm_num)]; linarith
  rw [new_slopeNpc_eq]
  generalize (1 : ℝ) / 2 ^ d = δ at *
  have hm : (dMaxP δ - dMinP δ) / (π / 4 * (1 - δ)) * (π / 4) = (dMaxP δ - dMinP δ) / (1 - δ) := by
    have : (1 : ℝ) - δ ≠ 0 := by linarith
    field_simp
  rw [hm, div_le_iff₀ (by linarith)]
  have := dMaxP_le δ hδ0 (by linarith)
  have := dMinP_nonneg δ hδ0.le
  nlinarith

/-- **`seg_le`** (every depth `d ≥ 3`, `δ = 1/2^d`): the great-circle distance between the un-projected plane points
    `(t, σ₁)` and `(t, σ₂)` of a north facet (offset `t ≥ 0` from the central meridian, distances `σ₂ < σ₁ = σ₂ + δ ≤ 1` to
    the pole line) with `2t ≤ σ₂` is at most `intercept_npc + slope_npc·(t/σ₁)·π/4` — the value of the function at the
    position `(t, σ₁)` -/
theorem seg_le (d : ℕ) (hd : 3 ≤ d) (σ₁ σ₂ t : ℝ) (h2 : 0 < σ₂) (h12 : σ₁ = σ₂ + 1 / 2 ^ d) (h1 : σ₁ ≤ 1)
    (ht0 : 0 ≤ t) (ht : 2 * t ≤ σ₂) :
    gcDist (capLat (2 - σ₁)) (capLat (2 - σ₂)) ((t / σ₂ - t / σ₁) * (π / 4)) ≤
      dMinP (1 / 2 ^ d) + (Csts.new d : Csts ℝ).slopeNpc * (t / σ₁ * (π / 4)) := by
  have hpi := Real.pi_gt_three
  have hδ0 : 0 < (1 : ℝ) / 2 ^ d := by positivity
  have hδ8 : (1 : ℝ) / 2 ^ d ≤ 1 / 8 := by
    have : (2 : ℝ) ^ 3 ≤ 2 ^ d := pow_le_pow_right₀ (by norm_num) hd
    rw [div_le_div_iff₀ (by positivity) (by norm_num)]; linarith
  have hcore := slope_sin_ge d hd
  have hml := slope_le_lin d hd
  have hsl0 := new_slopeNpc_nonneg d
  generalize (Csts.new d : Csts ℝ).slopeNpc = sl at *
  generalize (1 : ℝ) / 2 ^ d = δ at *
  have hσ1 : 0 < σ₁ := by linarith
  have ha0 := dMinP_nonneg δ hδ0.le
  have ha1 := dMinP_le_lin δ hδ0.le (by linarith)
  -- the ratio
  have hρ0 : 0 ≤ t / σ₁ := div_nonneg ht0 hσ1.le
  have hρ1 : t / σ₁ ≤ 1 / 2 := by rw [div_le_iff₀ hσ1]; linarith
  have hu1 : t / σ₂ ≤ 1 / 2 := by rw [div_le_iff₀ h2]; linarith
  have hu0 : 0 ≤ t / σ₂ := div_nonneg ht0 h2.le
  -- `w = a + m·ρ` is small
  have hx0 : 0 ≤ sl * (t / σ₁ * (π / 4)) := by positivity
  have hxe : sl * (t / σ₁ * (π / 4)) = sl * (π / 4) * (t / σ₁) := by ring
  have hx1 : sl * (t / σ₁ * (π / 4)) ≤ δ := by
    rw [hxe]
    have : sl * (π / 4) * (t / σ₁) ≤ 2 * δ * (1 / 2) := mul_le_mul hml hρ1 hρ0 (by linarith)
    linarith
  -- Step A
  have hA := cos_add_le (dMinP δ) (sl * (t / σ₁ * (π / 4))) ha0 hx0 (by linarith)
  -- Step B
  have hc1 := cos_capLat_nonneg (2 - σ₁) (by linarith) (by linarith)
  have hc2 := cos_capLat_nonneg (2 - σ₂) (by linarith) (by linarith)
  have hB := cos_gcDist_ge (capLat (2 - σ₁)) (capLat (2 - σ₂)) ((t / σ₂ - t / σ₁) * (π / 4)) (mul_nonneg hc1 hc2)
  have hlat0 : 0 ≤ capLat (2 - σ₂) - capLat (2 - σ₁) := sub_nonneg.mpr (capLat_mono _ _ (by linarith))
  have hlat1 : capLat (2 - σ₂) - capLat (2 - σ₁) ≤ dMinP δ := by
    have h := dNc_central_le δ σ₁ hδ0.le (by linarith) h1
    rw [dNc_central δ σ₁ hδ0.le (by linarith) h1, show 2 - σ₁ + δ = 2 - σ₂ by rw [h12]; ring] at h
    exact h
  have hcosφ : cos (dMinP δ) ≤ cos (capLat (2 - σ₂) - capLat (2 - σ₁)) :=
    Real.cos_le_cos_of_nonneg_of_le_pi hlat0 (by linarith) hlat1
  -- Step C
  have hC : cos (capLat (2 - σ₁)) * cos (capLat (2 - σ₂)) ≤ 2 / 3 * (σ₁ * σ₂) := by
    apply le_of_sq_le_sq _ (by positivity)
    have e1 := cos_sq_capLat_le σ₁ hσ1.le h1
    have e2 := cos_sq_capLat_le σ₂ h2.le (by linarith)
    have := mul_le_mul e1 e2 (by positivity) (by positivity)
    calc (cos (capLat (2 - σ₁)) * cos (capLat (2 - σ₂))) ^ 2
        = cos (capLat (2 - σ₁)) ^ 2 * cos (capLat (2 - σ₂)) ^ 2 := by ring
      _ ≤ 2 / 3 * σ₁ ^ 2 * (2 / 3 * σ₂ ^ 2) := this
      _ = (2 / 3 * (σ₁ * σ₂)) ^ 2 := by ring
  have hΔ : ((t / σ₂ - t / σ₁) * (π / 4)) ^ 2 / 2 * (2 / 3 * (σ₁ * σ₂)) = π ^ 2 * δ ^ 2 / 48 * ((t / σ₁) * (t / σ₂)) := by
    have hd' : σ₁ - σ₂ = δ := by rw [h12]; ring
    have : t / σ₂ - t / σ₁ = t * δ / (σ₁ * σ₂) := by
      rw [← hd']; field_simp
    rw [this]
    field_simp
    ring
  have hCΔ : cos (capLat (2 - σ₁)) * cos (capLat (2 - σ₂)) * (((t / σ₂ - t / σ₁) * (π / 4)) ^ 2 / 2)
      ≤ π ^ 2 / 96 * δ ^ 2 * (t / σ₁) := by
    have h1' : cos (capLat (2 - σ₁)) * cos (capLat (2 - σ₂)) * (((t / σ₂ - t / σ₁) * (π / 4)) ^ 2 / 2)
        ≤ 2 / 3 * (σ₁ * σ₂) * (((t / σ₂ - t / σ₁) * (π / 4)) ^ 2 / 2) :=
      mul_le_mul_of_nonneg_right hC (by positivity)
    have h2' : (t / σ₁) * (t / σ₂) ≤ (t / σ₁) * (1 / 2) := mul_le_mul_of_nonneg_left hu1 hρ0
    have h3' : π ^ 2 * δ ^ 2 / 48 * ((t / σ₁) * (t / σ₂)) ≤ π ^ 2 * δ ^ 2 / 48 * ((t / σ₁) * (1 / 2)) :=
      mul_le_mul_of_nonneg_left h2' (by positivity)
    rw [mul_comm (2 / 3 * (σ₁ * σ₂)), hΔ] at h1'
    linarith
  have hmρ : π ^ 2 / 96 * δ ^ 2 * (t / σ₁) ≤ sl * (t / σ₁ * (π / 4)) * sin (dMinP δ) := by
    have := mul_le_mul_of_nonneg_right hcore hρ0
    rw [hxe]
    linarith
  -- Step D
  by_contra hcon
  rw [not_le] at hcon
  have := Real.cos_lt_cos_of_nonneg_of_le_pi (by linarith : 0 ≤ dMinP δ + sl * (t / σ₁ * (π / 4)))
    (gcDist_le_pi _ _ _) hcon
  linarith

/-! ## the four distances in the inner half -/

theorem dNc_abs (δ t σ : ℝ) : dNc δ t σ = dNc δ |t| σ := by
  rcases le_or_gt 0 t with h | h
  · rw [abs_of_nonneg h]
  · rw [abs_of_neg h, dNc_neg]

theorem dSc_neg (δ t σ : ℝ) : dSc δ (-t) σ = dSc δ t σ := by
  unfold dSc
  rw [← gcDist_neg]
  congr 1; ring

theorem dSc_abs (δ t σ : ℝ) : dSc δ t σ = dSc δ |t| σ := by
  rcases le_or_gt 0 t with h | h
  · rw [abs_of_nonneg h]
  · rw [abs_of_neg h, dSc_neg]

/-- north vertex, inner half (`2|t| ≤ σ − δ`) -/
theorem dNc_inner_le (d : ℕ) (hd : 3 ≤ d) (t σ : ℝ) (hσ : 1 / 2 ^ d ≤ σ) (h1 : σ ≤ 1) (hin : 2 * |t| ≤ σ - 1 / 2 ^ d) :
    dNc (1 / 2 ^ d) t σ ≤ dMinP (1 / 2 ^ d) + (Csts.new d : Csts ℝ).slopeNpc * (|t / σ| * (π / 4)) := by
  have hpi := Real.pi_pos
  have hδ0 : 0 < (1 : ℝ) / 2 ^ d := by positivity
  have hσ0 : 0 < σ := by linarith
  rw [dNc_abs, abs_div, abs_of_pos hσ0]
  rcases eq_or_lt_of_le hσ with heq | hlt
  · -- the north vertex is the pole: `t = 0`
    have ht : |t| = 0 := le_antisymm (by linarith) (abs_nonneg t)
    rw [ht, zero_div, zero_mul, mul_zero, add_zero]
    exact dNc_central_le _ _ hδ0.le hσ h1
  · have := seg_le d hd σ (σ - 1 / 2 ^ d) |t| (by linarith) (by ring) h1 (abs_nonneg t) hin
    unfold dNc
    rw [show 2 - σ + 1 / 2 ^ d = 2 - (σ - 1 / 2 ^ d) by ring]
    exact this

/-- south vertex, inner half (`2|t| ≤ σ`, `σ + δ ≤ 1`) -/
theorem dSc_inner_le (d : ℕ) (hd : 3 ≤ d) (t σ : ℝ) (hσ : 0 < σ) (h1 : σ + 1 / 2 ^ d ≤ 1) (hin : 2 * |t| ≤ σ) :
    dSc (1 / 2 ^ d) t σ ≤ dMinP (1 / 2 ^ d) + (Csts.new d : Csts ℝ).slopeNpc * (|t / σ| * (π / 4)) := by
  have hpi := Real.pi_pos
  have hδ0 : 0 < (1 : ℝ) / 2 ^ d := by positivity
  rw [dSc_abs, abs_div, abs_of_pos hσ]
  have := seg_le d hd (σ + 1 / 2 ^ d) σ |t| hσ rfl h1 (abs_nonneg t) hin
  unfold dSc
  rw [gcDist_comm, show 2 - σ - 1 / 2 ^ d = 2 - (σ + 1 / 2 ^ d) by ring]
  refine this.trans ?_
  have hsl := new_slopeNpc_nonneg d
  have hle : |t| / (σ + 1 / 2 ^ d) ≤ |t| / σ :=
    div_le_div_of_nonneg_left (abs_nonneg t) hσ (by linarith)
  have : |t| / (σ + 1 / 2 ^ d) * (π / 4) ≤ |t| / σ * (π / 4) := mul_le_mul_of_nonneg_right hle (by positivity)
  have := mul_le_mul_of_nonneg_left this hsl
  linarith

/-- **`polar_envelope_dominates_plane_inner`** (ℝ, every depth `3 … 29`, `δ = 1/2^d`, facet `k < 4`): under the hypotheses of
    `true_c2v_cap`, if moreover `2·|x − (2k+1)| ≤ 2 − y − δ` (the centre is in the inner half of the Collignon triangle at
    the ordinate of its north vertex), the value of `largest_center_to_vertex_distance` at the un-projected centre
    dominates the distances to the four vertices. -/
theorem polar_envelope_dominates_plane_inner (d : ℕ) (hd1 : 3 ≤ d) (hd2 : d ≤ 29) (k : ℕ) (hk : k < 4) (x y : ℝ)
    (hS : 1 ≤ y - 1 / 2 ^ d) (hN : y + 1 / 2 ^ d ≤ 2) (hin : 2 * |x - (2 * k + 1)| ≤ 2 - y - 1 / 2 ^ d)
    (hp : (Num.epsPole : ℝ) < 2 - y - 1 / 2 ^ d ∨ y + 1 / 2 ^ d = 2) :
    ∃ (c pN pS pE pW : ℝ × ℝ) (v : ℝ),
      unproj (α := ℝ) x y = some c ∧ unproj (α := ℝ) x (y + 1 / 2 ^ d) = some pN ∧
      unproj (α := ℝ) x (y - 1 / 2 ^ d) = some pS ∧ unproj (α := ℝ) (x + 1 / 2 ^ d) y = some pE ∧
      unproj (α := ℝ) (x - 1 / 2 ^ d) y = some pW ∧ largestC2V false d c.1 c.2 = some v ∧
      adist c pE ≤ v ∧ adist c pW ≤ v ∧ adist c pN ≤ v ∧ adist c pS ≤ v := by
  have hδ0 : 0 < (1 : ℝ) / 2 ^ d := by positivity
  have heps := epsPole_lt_step d hd2
  have hta := abs_nonneg (x - (2 * (k : ℝ) + 1))
  have ht : |x - (2 * (k : ℝ) + 1)| + 1 / 2 ^ d ≤ 2 - y := by linarith
  have hσδ : 1 / 2 ^ d ≤ 2 - y := by linarith
  obtain ⟨c, pN, pS, pE, pW, uc, uN, uS, uE, uW, hc, aN, aS, aE, aW⟩ :=
    true_c2v_cap k hk x y (1 / 2 ^ d) hδ0 hS hN ht (by linarith) hp
  obtain ⟨hr1, hr2⟩ := capLat_range y (by linarith) (by linarith)
  have htl := tl_pos
  have hlat : tl ≤ |capLat y| := by rw [abs_of_pos (by linarith)]; exact hr1
  have hval := c2v_cap_eq d k (x - (2 * k + 1)) (2 - y) (capLat y) (by linarith) (by linarith) hlat
  have hge := c2v_cap_ge_intercept d k (x - (2 * k + 1)) (2 - y) (capLat y) (by linarith) (by linarith) hlat
  have hE := dEc_le_dMinP (1 / 2 ^ d) (2 - y) hδ0 hσδ (by linarith)
  refine ⟨c, pN, pS, pE, pW, c2v (Csts.new d) c.1 c.2, uc, uN, uS, uE, uW, ?_, ?_, ?_, ?_, ?_⟩
  · rw [c2v_region_choice, if_neg (by omega), if_neg (by omega)]
  · rw [aE, hc]; exact hE.trans hge
  · rw [aW, hc]; exact hE.trans hge
  · rw [aN, hc, hval]
    have := dNc_inner_le d hd1 (x - (2 * k + 1)) (2 - y) hσδ (by linarith) hin
    linarith
  · rw [aS, hc, hval]
    have := dSc_inner_le d hd1 (x - (2 * k + 1)) (2 - y) (by linarith) (by linarith) (by linarith)
    linarith

/-! ## transfer to the cells of the NESTED scheme -/

/-- the positions returned by `center` and `vertices` for a cell of a north base cell whose centre is strictly inside the
    cap, from the five `unproj` of its plane points -/
theorem north_cell_positions (cfg : Cfg) (d hash b i j : ℕ) (hh : hash < Layer.nHash d)
    (hdec : Layer.decodeHash cfg d hash = some ⟨b, i, j⟩) (hb : b < 4) (hi : i < 2 ^ d) (hj : j < 2 ^ d)
    (hcap : 2 ^ d ≤ i + j) (c pN pS pE pW : ℝ × ℝ)
    (uc : unproj (α := ℝ) (norm8 (cellCx d b i j)) (cellCy d b i j) = some c)
    (uN : unproj (α := ℝ) (norm8 (cellCx d b i j)) (cellCy d b i j + 1 / 2 ^ d) = some pN)
    (uS : unproj (α := ℝ) (norm8 (cellCx d b i j)) (cellCy d b i j - 1 / 2 ^ d) = some pS)
    (uE : unproj (α := ℝ) (norm8 (cellCx d b i j) + 1 / 2 ^ d) (cellCy d b i j) = some pE)
    (uW : unproj (α := ℝ) (norm8 (cellCx d b i j) - 1 / 2 ^ d) (cellCy d b i j) = some pW) :
    center (α := ℝ) cfg d hash = some c ∧ vertices (α := ℝ) cfg d hash = some [pS, pE, pN, pW] := by
  have hb12 : b < 12 := by omega
  obtain ⟨-, hW, -, -, -, -, -⟩ := north_cap_center d b i j hb hi hj hcap
  have hy := fun k => vtx_y_range d b i j k hb12 hi hj
  have ec : unprojT (norm8 (cellCx d b i j)) (cellCy d b i j) = c := by
    obtain ⟨_, _, _, c4, c5⟩ := center_ranges d b i j hb12 hi hj
    have ho : 0 < 1 / (2 : ℝ) ^ d := by positivity
    have := unproj_eq (norm8 (cellCx d b i j)) (cellCy d b i j) (by linarith) (by linarith)
    rw [uc] at this; exact (Option.some.inj this).symm
  have eS : unprojT (vtx d b i j 0).1 (vtx d b i j 0).2 = pS := by
    have := unproj_eq (vtx d b i j 0).1 (vtx d b i j 0).2 (hy 0).1 (hy 0).2
    simp only [vtx] at this ⊢
    rw [uS] at this; exact (Option.some.inj this).symm
  have eE : unprojT (vtx d b i j 1).1 (vtx d b i j 1).2 = pE := by
    have := unproj_eq (vtx d b i j 1).1 (vtx d b i j 1).2 (hy 1).1 (hy 1).2
    simp only [vtx] at this ⊢
    rw [uE] at this; exact (Option.some.inj this).symm
  have eN : unprojT (vtx d b i j 2).1 (vtx d b i j 2).2 = pN := by
    have := unproj_eq (vtx d b i j 2).1 (vtx d b i j 2).2 (hy 2).1 (hy 2).2
    simp only [vtx] at this ⊢
    rw [uN] at this; exact (Option.some.inj this).symm
  have eW : unprojT (vtx d b i j 3).1 (vtx d b i j 3).2 = pW := by
    have := unproj_eq (vtx d b i j 3).1 (vtx d b i j 3).2 (hy 3).1 (hy 3).2
    simp only [vtx] at this ⊢
    rw [hW] at this ⊢
    rw [uW] at this; exact (Option.some.inj this).symm
  exact ⟨by rw [center_plane cfg d hash b i j hh hdec hb12 hi hj, ec],
    by rw [vertices_plane cfg d hash b i j hh hdec hb12 hi hj, eS, eE, eN, eW]⟩

/-- the same for a cell of a south base cell `k + 8`, from the five `unproj` of the mirror image `(X, −y_c)` -/
theorem south_cell_positions (cfg : Cfg) (d hash k i j : ℕ) (hd2 : d ≤ 29) (hh : hash < Layer.nHash d)
    (hdec : Layer.decodeHash cfg d hash = some ⟨k + 8, i, j⟩) (hk : k < 4) (hi : i < 2 ^ d) (hj : j < 2 ^ d)
    (hcap : i + j + 2 ≤ 2 ^ d) (c pN pS pE pW : ℝ × ℝ)
    (uc : unproj (α := ℝ) (norm8 (cellCx d (k + 8) i j)) (-cellCy d (k + 8) i j) = some c)
    (uN : unproj (α := ℝ) (norm8 (cellCx d (k + 8) i j)) (-cellCy d (k + 8) i j + 1 / 2 ^ d) = some pN)
    (uS : unproj (α := ℝ) (norm8 (cellCx d (k + 8) i j)) (-cellCy d (k + 8) i j - 1 / 2 ^ d) = some pS)
    (uE : unproj (α := ℝ) (norm8 (cellCx d (k + 8) i j) + 1 / 2 ^ d) (-cellCy d (k + 8) i j) = some pE)
    (uW : unproj (α := ℝ) (norm8 (cellCx d (k + 8) i j) - 1 / 2 ^ d) (-cellCy d (k + 8) i j) = some pW) :
    center (α := ℝ) cfg d hash = some (mir c) ∧
    vertices (α := ℝ) cfg d hash = some [mir pN, mir pE, mir pS, mir pW] ∧
    0 ≤ c.2 ∧ 0 ≤ pN.2 ∧ 0 ≤ pS.2 ∧ 0 ≤ pE.2 ∧ 0 ≤ pW.2 := by
  have hb12 : k + 8 < 12 := by omega
  obtain ⟨hX, hW, hS, hN, ht, hp, hcen⟩ := south_cap_center d k i j hk hi hj hcap
  have heps := epsPole_lt_step d hd2
  have hp' : (Num.epsPole : ℝ) < 2 - -cellCy d (k + 8) i j - 1 / 2 ^ d ∨ -cellCy d (k + 8) i j + 1 / 2 ^ d = 2 := by
    rcases hp with h | h
    · left; linarith
    · right; exact h
  obtain ⟨⟨mc, mS, mN, mE, mW⟩, lc, lN, lS, lE, lW⟩ :=
    mirror_five k hk _ _ (1 / 2 ^ d) hS hN ht heps hp' c pN pS pE pW uc uN uS uE uW
  rw [neg_neg] at mc mE mW
  have hy := fun q => vtx_y_range d (k + 8) i j q hb12 hi hj
  have ec : unprojT (norm8 (cellCx d (k + 8) i j)) (cellCy d (k + 8) i j) = mir c := by
    obtain ⟨_, _, _, c4, c5⟩ := center_ranges d (k + 8) i j hb12 hi hj
    have ho : 0 < 1 / (2 : ℝ) ^ d := by positivity
    have := unproj_eq (norm8 (cellCx d (k + 8) i j)) (cellCy d (k + 8) i j) (by linarith) (by linarith)
    rw [mc] at this; exact (Option.some.inj this).symm
  have eS : unprojT (vtx d (k + 8) i j 0).1 (vtx d (k + 8) i j 0).2 = mir pN := by
    have := unproj_eq (vtx d (k + 8) i j 0).1 (vtx d (k + 8) i j 0).2 (hy 0).1 (hy 0).2
    simp only [vtx] at this ⊢
    rw [neg_neg] at mS
    rw [mS] at this; exact (Option.some.inj this).symm
  have eE : unprojT (vtx d (k + 8) i j 1).1 (vtx d (k + 8) i j 1).2 = mir pE := by
    have := unproj_eq (vtx d (k + 8) i j 1).1 (vtx d (k + 8) i j 1).2 (hy 1).1 (hy 1).2
    simp only [vtx] at this ⊢
    rw [mE] at this; exact (Option.some.inj this).symm
  have eN : unprojT (vtx d (k + 8) i j 2).1 (vtx d (k + 8) i j 2).2 = mir pS := by
    have := unproj_eq (vtx d (k + 8) i j 2).1 (vtx d (k + 8) i j 2).2 (hy 2).1 (hy 2).2
    simp only [vtx] at this ⊢
    rw [neg_neg] at mN
    rw [mN] at this; exact (Option.some.inj this).symm
  have eW : unprojT (vtx d (k + 8) i j 3).1 (vtx d (k + 8) i j 3).2 = mir pW := by
    have := unproj_eq (vtx d (k + 8) i j 3).1 (vtx d (k + 8) i j 3).2 (hy 3).1 (hy 3).2
    simp only [vtx] at this ⊢
    rw [hW] at this ⊢
    rw [mW] at this; exact (Option.some.inj this).symm
  exact ⟨by rw [center_plane cfg d hash (k + 8) i j hh hdec hb12 hi hj, ec],
    by rw [vertices_plane cfg d hash (k + 8) i j hh hdec hb12 hi hj, eS, eE, eN, eW], lc, lN, lS, lE, lW⟩

/-! ## the cells of the inner half -/

/-- **`polar_envelope_dominates_at_centres_inner`** (ℝ, release profile, every depth `3 … 29`, north base cells `b < 4`, every
    cell whose centre is strictly inside the cap, `nside ≤ i + j`, and in the inner half of the base cell:
    `2·|i − j| ≤ 2·nside − 2 − i − j`, written `3i + 2 ≤ 2·nside + j` and `3j + 2 ≤ 2·nside + i`).
    `largest_center_to_vertex_distance` evaluated at `center(d, hash)` is at least the angular distance from the centre to
    each of the four `vertices(d, hash)`. -/
theorem polar_envelope_dominates_at_centres_inner (cfg : Cfg) (d hash b i j : ℕ) (hd1 : 3 ≤ d) (hd2 : d ≤ 29)
    (hh : hash < Layer.nHash d) (hdec : Layer.decodeHash cfg d hash = some ⟨b, i, j⟩) (hb : b < 4)
    (hi : i < 2 ^ d) (hj : j < 2 ^ d) (hcap : 2 ^ d ≤ i + j)
    (hin1 : 3 * i + 2 ≤ 2 * 2 ^ d + j) (hin2 : 3 * j + 2 ≤ 2 * 2 ^ d + i) :
    ∃ (c s e n w : ℝ × ℝ) (v : ℝ), center (α := ℝ) cfg d hash = some c ∧
      vertices (α := ℝ) cfg d hash = some [s, e, n, w] ∧ largestC2V false d c.1 c.2 = some v ∧
      adist c s ≤ v ∧ adist c e ≤ v ∧ adist c n ≤ v ∧ adist c w ≤ v := by
  obtain ⟨hX, hW, hS, hN, ht, hp, hcen⟩ := north_cap_center d b i j hb hi hj hcap
  have heps := epsPole_lt_step d hd2
  have hp2 := pow_pos' d
  -- the inner condition over ℝ
  have hin : 2 * |norm8 (cellCx d b i j) - (2 * (b : ℝ) + 1)| ≤ 2 - cellCy d b i j - 1 / 2 ^ d := by
    obtain ⟨-, by1⟩ := baseX_north b hb
    have hy : cellCy d b i j = 1 + ((i : ℝ) + j + 1 - 2 ^ d) / 2 ^ d := by unfold cellCy; rw [by1]
    have e3 : 2 - cellCy d b i j - 1 / 2 ^ d = (2 * 2 ^ d - 2 - ((i : ℝ) + j)) / 2 ^ d := by
      rw [hy]; field_simp; ring
    have h1' : 3 * (i : ℝ) + 2 ≤ 2 * 2 ^ d + j := by exact_mod_cast hin1
    have h2' : 3 * (j : ℝ) + 2 ≤ 2 * 2 ^ d + i := by exact_mod_cast hin2
    rw [hX, e3, show 2 * (b : ℝ) + 1 + ((i : ℝ) - j) / 2 ^ d - (2 * (b : ℝ) + 1) = ((i : ℝ) - j) / 2 ^ d by ring,
      abs_div, abs_of_pos hp2, ← mul_div_assoc, div_le_div_iff_of_pos_right hp2]
    rcases abs_cases ((i : ℝ) - j) with ⟨e, _⟩ | ⟨e, _⟩ <;> rw [e] <;> linarith
  obtain ⟨c, pN, pS, pE, pW, v, uc, uN, uS, uE, uW, hv, bE, bW, bN, bS⟩ :=
    polar_envelope_dominates_plane_inner d hd1 hd2 b hb (norm8 (cellCx d b i j)) (cellCy d b i j) hS hN hin
      (by rcases hp with h | h
          · left; linarith
          · right; exact h)
  obtain ⟨ec, ev⟩ := north_cell_positions cfg d hash b i j hh hdec hb hi hj hcap c pN pS pE pW uc uN uS uE uW
  exact ⟨c, pS, pE, pN, pW, v, ec, ev, hv, bS, bE, bN, bW⟩

/-- **`polar_envelope_dominates_at_centres_inner_south`** (ℝ, release profile, every depth `3 … 29`, south base cells `k + 8`,
    every cell whose centre is strictly inside the south cap, `i + j + 2 ≤ nside`, and in the inner half of the base cell:
    `2·|i − j| ≤ i + j`, written `i ≤ 3j` and `j ≤ 3i`): the value at `center(d, hash)` is at least the angular distance
    from the centre to each of the four `vertices(d, hash)`. -/
theorem polar_envelope_dominates_at_centres_inner_south (cfg : Cfg) (d hash k i j : ℕ) (hd1 : 3 ≤ d) (hd2 : d ≤ 29)
    (hh : hash < Layer.nHash d) (hdec : Layer.decodeHash cfg d hash = some ⟨k + 8, i, j⟩) (hk : k < 4)
    (hi : i < 2 ^ d) (hj : j < 2 ^ d) (hcap : i + j + 2 ≤ 2 ^ d) (hin1 : i ≤ 3 * j) (hin2 : j ≤ 3 * i) :
    ∃ (c s e n w : ℝ × ℝ) (v : ℝ), center (α := ℝ) cfg d hash = some c ∧
      vertices (α := ℝ) cfg d hash = some [s, e, n, w] ∧ largestC2V false d c.1 c.2 = some v ∧
      adist c s ≤ v ∧ adist c e ≤ v ∧ adist c n ≤ v ∧ adist c w ≤ v := by
  obtain ⟨hX, hW, hS, hN, ht, hp, hcen⟩ := south_cap_center d k i j hk hi hj hcap
  have heps := epsPole_lt_step d hd2
  have hp2 := pow_pos' d
  have hin : 2 * |norm8 (cellCx d (k + 8) i j) - (2 * (k : ℝ) + 1)| ≤ 2 - -cellCy d (k + 8) i j - 1 / 2 ^ d := by
    obtain ⟨-, by1⟩ := baseX_south k hk
    have hy : cellCy d (k + 8) i j = -1 + ((i : ℝ) + j + 1 - 2 ^ d) / 2 ^ d := by unfold cellCy; rw [by1]
    have e3 : 2 - -cellCy d (k + 8) i j - 1 / 2 ^ d = ((i : ℝ) + j) / 2 ^ d := by
      rw [hy]; field_simp; ring
    have h1' : (i : ℝ) ≤ 3 * j := by exact_mod_cast hin1
    have h2' : (j : ℝ) ≤ 3 * i := by exact_mod_cast hin2
    rw [hX, e3, show 2 * (k : ℝ) + 1 + ((i : ℝ) - j) / 2 ^ d - (2 * (k : ℝ) + 1) = ((i : ℝ) - j) / 2 ^ d by ring,
      abs_div, abs_of_pos hp2, ← mul_div_assoc, div_le_div_iff_of_pos_right hp2]
    rcases abs_cases ((i : ℝ) - j) with ⟨e, _⟩ | ⟨e, _⟩ <;> rw [e] <;> linarith
  obtain ⟨c, pN, pS, pE, pW, v, uc, uN, uS, uE, uW, hv, bE, bW, bN, bS⟩ :=
    polar_envelope_dominates_plane_inner d hd1 hd2 k hk (norm8 (cellCx d (k + 8) i j)) (-cellCy d (k + 8) i j) hS hN hin
      (by rcases hp with h | h
          · left; linarith
          · right; exact h)
  obtain ⟨ec, ev, lc, lN, lS, lE, lW⟩ :=
    south_cell_positions cfg d hash k i j hd2 hh hdec hk hi hj hcap c pN pS pE pW uc uN uS uE uW
  refine ⟨mir c, mir pN, mir pE, mir pS, mir pW, v, ec, ev, by rw [largestC2V_mir]; exact hv, ?_, ?_, ?_, ?_⟩
  · rw [adist_mir c pN lc lN]; exact bN
  · rw [adist_mir c pE lc lE]; exact bE
  · rw [adist_mir c pS lc lS]; exact bS
  · rw [adist_mir c pW lc lW]; exact bW

/-! ## examples -/

/-- depth 3, cell 61 = base cell 0, `(i, j) = (7, 6)`… is not in the inner half; `(i, j) = (5, 4)` (cell 49) is -/
example : ∃ (c s e n w : ℝ × ℝ) (v : ℝ), center (α := ℝ) {} 3 49 = some c ∧
      vertices (α := ℝ) {} 3 49 = some [s, e, n, w] ∧ largestC2V false 3 c.1 c.2 = some v ∧
      adist c s ≤ v ∧ adist c e ≤ v ∧ adist c n ≤ v ∧ adist c w ≤ v :=
  polar_envelope_dominates_at_centres_inner {} 3 49 0 5 4 (by decide) (by decide) (by decide) (by decide +kernel)
    (by decide) (by decide) (by decide) (by decide) (by decide) (by decide)

/-- depth 3, cell 526 = base cell 8, `(i, j) = (2, 3)` -/
example : ∃ (c s e n w : ℝ × ℝ) (v : ℝ), center (α := ℝ) {} 3 526 = some c ∧
      vertices (α := ℝ) {} 3 526 = some [s, e, n, w] ∧ largestC2V false 3 c.1 c.2 = some v ∧
      adist c s ≤ v ∧ adist c e ≤ v ∧ adist c n ≤ v ∧ adist c w ≤ v :=
  polar_envelope_dominates_at_centres_inner_south {} 3 526 0 2 3 (by decide) (by decide) (by decide)
    (by decide +kernel) (by decide) (by decide) (by decide) (by decide) (by decide) (by decide)

end Hpx.EnvelopePolar

#print axioms Hpx.EnvelopePolar.slope_sin_ge
#print axioms Hpx.EnvelopePolar.seg_le
#print axioms Hpx.EnvelopePolar.polar_envelope_dominates_plane_inner
#print axioms Hpx.EnvelopePolar.polar_envelope_dominates_at_centres_inner
#print axioms Hpx.EnvelopePolar.polar_envelope_dominates_at_centres_inner_south
