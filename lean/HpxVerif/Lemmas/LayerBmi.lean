/-
The BMI2 / LUT switch of the configuration is irrelevant for every `Layer` function of the model: the two families of
z-order implementations are the same functions (`Lemmas/BmiLemmas.lean`), and `get_zoc` selects the same class.
Hence every theorem stated for `cfg.bmi = false` holds for BMI2 builds too.
-/
import HpxVerif.Lemmas.BmiLemmas
import HpxVerif.Model.Topo

namespace Hpx.LayerBmi
open Hpx Hpx.Layer

def noBmi (cfg : Cfg) : Cfg := { cfg with bmi := false }

theorem zoc_eq (cfg : Cfg) (d : Nat) : zoc cfg d = zoc (noBmi cfg) d := by
  unfold zoc noBmi
  by_cases h : cfg.bmi = true
  · simp [h, get_zoc_bmi_eq_lut]
  · simp [h]

theorem ij2h_eq (cfg : Cfg) (c : ZocClass) (i j : Nat) : ij2h cfg c i j = ij2h (noBmi cfg) c i j := by
  unfold ij2h noBmi
  by_cases h : cfg.bmi = true
  · simp [h, bmi_eq_lut_ij2h]
  · simp [h]

theorem h2ij_eq (cfg : Cfg) (c : ZocClass) (h : Nat) : h2ij cfg c h = h2ij (noBmi cfg) c h := by
  unfold h2ij noBmi
  by_cases hb : cfg.bmi = true
  · simp [hb, bmi_eq_lut_h2ij]
  · simp [hb]

theorem decodeHash_eq (cfg : Cfg) (d h : Nat) : decodeHash cfg d h = decodeHash (noBmi cfg) d h := by
  unfold decodeHash
  rw [zoc_eq]
  cases zoc (noBmi cfg) d with
  | none => rfl
  | some c => simp only [h2ij_eq cfg]

theorem buildHashFromParts_eq (cfg : Cfg) (d b i j : Nat) :
    buildHashFromParts cfg d b i j = buildHashFromParts (noBmi cfg) d b i j := by
  unfold buildHashFromParts
  rw [zoc_eq]
  cases zoc (noBmi cfg) d with
  | none => rfl
  | some c => simp only [ij2h_eq cfg]; rfl

theorem toRing_eq (cfg : Cfg) (d h : Nat) : toRing cfg d h = toRing (noBmi cfg) d h := by
  unfold toRing
  rw [decodeHash_eq]
  rfl

theorem fromRing_eq (cfg : Cfg) (d r : Nat) : fromRing cfg d r = fromRing (noBmi cfg) d r := by
  unfold fromRing
  cases fromRingParts d _ r with
  | none => rfl
  | some p => simp only [buildHashFromParts_eq cfg]

theorem noBmi_bmi (cfg : Cfg) : (noBmi cfg).bmi = false := rfl

end Hpx.LayerBmi
