/-
The depth-indexed integer constants of the model are the ones the SOURCE computes: `Gen/SizeTables.lean` is produced on
every run by interpreting `nested::{x_mask, y_mask, xy_mask}`, `lib::{nside_unsafe, nside_square_unsafe, n_hash_unsafe}`
and the body of `Layer::new` (translator/rsmini.py: integer semantics with overflowing shifts and subtractions as
panics), and the hand-written definitions of `Model/Layer.lean`, `Model/Hash.lean`, `Model/Topo.lean` are proved equal to
those tables, entry by entry, for every depth 0..29 (masks: every delta_depth 0..32).
-/
import HpxVerif.Gen.SizeTables
import HpxVerif.Model.Topo
import HpxVerif.Model.Hash

set_option autoImplicit false

namespace Hpx.SizeGen
open Hpx

/-- the integer fields of `Layer::new(d)` as the model computes them, in the order of `Gen.Size.layerFields`:
    depth, nside, nside_minus_1, n_hash, twice_depth, d0h_mask, x_mask, y_mask, xy_mask, nside_remainder_mask -/
def modelLayerFields (d : Nat) : List Nat :=
  [d, Layer.nside d, Layer.nside d - 1, Layer.nHash d, d <<< 1, Layer.d0hMask d, Layer.xMask d, Layer.yMask d,
   Layer.xyMask d, Layer.xyMask d >>> d]

theorem layer_fields_from_source : (List.range 30).map modelLayerFields = Gen.Size.layerFields := by decide +kernel

/-- `time_half_nside` is the exponent increment `(depth − 1) << 52` (`−1 << 52` at depth 0) -/
theorem time_half_nside_from_source :
    (List.range 30).map (fun d => Hash.timeHalfNside d * 2 ^ 52) = Gen.Size.layerTimeHalfNside := by decide +kernel

theorem xMaskFn_cfg (cfg : Cfg) : Topo.xMaskFn cfg = Topo.xMaskFn ⟨false, false⟩ := rfl
theorem yMaskFn_cfg (cfg : Cfg) : Topo.yMaskFn cfg = Topo.yMaskFn ⟨false, false⟩ := rfl
theorem xyMaskFn_cfg (cfg : Cfg) : Topo.xyMaskFn cfg = Topo.xyMaskFn ⟨false, false⟩ := rfl

/-- `x_mask`, `y_mask`, `xy_mask` for every `delta_depth` 0..32, any configuration (`delta_depth = 0` gives the empty
    mask since the repair of F25; before it the source tables had `none` there in the dev profile) -/
theorem masks_from_source (cfg : Cfg) :
    (List.range 33).map (Topo.xMaskFn cfg) = Gen.Size.xMask ∧
    (List.range 33).map (Topo.yMaskFn cfg) = Gen.Size.yMask ∧
    (List.range 33).map (Topo.xyMaskFn cfg) = Gen.Size.xyMask := by
  rw [xMaskFn_cfg cfg, yMaskFn_cfg cfg, xyMaskFn_cfg cfg]
  decide +kernel

theorem sizes_from_source :
    (List.range 30).map (fun d => some (Layer.nside d)) = Gen.Size.nside ∧
    (List.range 30).map (fun d => some (4 ^ d)) = Gen.Size.nsideSquare ∧
    (List.range 30).map (fun d => some (Layer.nHash d)) = Gen.Size.nHash := by decide +kernel

end Hpx.SizeGen
