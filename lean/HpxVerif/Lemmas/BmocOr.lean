/-
`or`: three-valued semantics and well-formedness (C07, C08, C09).  Layer 1: remaining-iterator bookkeeping, the two
`consume_while_*` helpers, and `not_in_cell_4_or` (a partial low-resolution cell filled with partial cells around the full
higher-resolution cells of the other operand).
-/
import HpxVerif.Lemmas.BmocNot
import HpxVerif.Lemmas.BmocAnd

namespace Hpx.Bmoc

/-! ## three-valued maximum -/

theorem tri_max_comm (a b : Tri) : Tri.max a b = Tri.max b a := by cases a <;> cases b <;> rfl
@[simp] theorem tri_max_abs_left (t : Tri) : Tri.max .abs t = t := by cases t <;> rfl
@[simp] theorem tri_max_abs_right (t : Tri) : Tri.max t .abs = t := by cases t <;> rfl
@[simp] theorem tri_max_full_left (t : Tri) : Tri.max .full t = .full := by cases t <;> rfl
@[simp] theorem tri_max_full_right (t : Tri) : Tri.max t .full = .full := by cases t <;> rfl
theorem tri_max_flags (a b : Bool) : Tri.max (Tri.ofFlag a) (Tri.ofFlag b) = Tri.ofFlag (b || a) := by
  cases a <;> cases b <;> rfl
theorem tri_max_part_of_ne_full {t : Tri} (h : t ≠ .full) : Tri.max .part t = .part := by
  cases t <;> first | rfl | exact absurd rfl h
theorem tri_max_eq_abs {a b : Tri} : Tri.max a b = .abs ↔ a = .abs ∧ b = .abs := by
  cases a <;> cases b <;> simp [Tri.max]
theorem tri_max_eq_full {a b : Tri} : Tri.max a b = .full ↔ a = .full ∨ b = .full := by
  cases a <;> cases b <;> simp [Tri.max]

/-! ## the not yet consumed part of an operand: current cell (if any) followed by the iterator -/

def rem : Option Cell → List Cell → List Cell
  | none, _ => []
  | some c, l => c :: l

@[simp] theorem rem_head_tail (l : List Cell) : rem l.head? l.tail = l := by cases l <;> rfl
@[simp] theorem rem_some (c : Cell) (l : List Cell) : rem (some c) l = c :: l := rfl
@[simp] theorem rem_none (l : List Cell) : rem none l = [] := rfl

/-- `c` is a sub-cell of `low` -/
def Inside (D : Nat) (low c : Cell) : Prop := low.depth ≤ c.depth ∧ lo D low ≤ lo D c ∧ hi D c ≤ hi D low

/-- `is_in` on a cell starting strictly after the start of `low`: sub-cell, or entirely after `low` -/
theorem isIn_spec {D : Nat} {low c : Cell} (hl : low.depth ≤ D) (hc : c.depth ≤ D) (hlt : lo D low < lo D c) :
    (isIn low c = true → Inside D low c) ∧ (isIn low c = false → hi D low ≤ lo D c) := by
  have h1 := lo_lt_hi D low
  have h2 := lo_lt_hi D c
  unfold isIn
  by_cases hd : low.depth ≤ c.depth
  · have e1 := @cmp_lt_iff D low c hd hc
    have e2 := @cmp_gt_iff D low c hd hc
    have e3 := @cmp_eq_iff D low c hd hc
    simp only [hd, decide_true, Bool.true_and, beq_iff_eq, beq_eq_false_iff_ne, ne_eq]
    constructor
    · intro he
      exact ⟨hd, (e3.1 he).1, (e3.1 he).2⟩
    · intro hne
      rcases Nat.lt_trichotomy low.hash (c.hash >>> ((c.depth - low.depth) <<< 1)) with h | h | h
      · exact e1.1 h
      · exact absurd h hne
      · have := e2.1 h; omega
  · have hd' : c.depth ≤ low.depth := by omega
    have e1 := @cmp_lt_iff D c low hd' hl
    have e2 := @cmp_gt_iff D c low hd' hl
    have e3 := @cmp_eq_iff D c low hd' hl
    simp only [hd, decide_false, Bool.false_and]
    constructor
    · intro h; exact absurd h (by simp)
    · intro _
      rcases Nat.lt_trichotomy c.hash (low.hash >>> ((low.depth - c.depth) <<< 1)) with h | h | h
      · have := e1.1 h; omega
      · have := (e3.1 h).1; omega
      · exact e2.1 h

/-! ## lists: well-formedness and state of concatenations -/

theorem WF_append_iff {D : Nat} {a b : List Cell} :
    WF D (a ++ b) ↔ WF D a ∧ WF D b ∧ ∀ x ∈ a, ∀ y ∈ b, hi D x ≤ lo D y := by
  induction a with
  | nil => simp [WF]
  | cons c l ih =>
    simp only [List.cons_append, WF, ih, List.mem_append, List.mem_cons]
    constructor
    · rintro ⟨h1, h2, h3, h4, h5⟩
      refine ⟨⟨h1, fun c' hc' => h2 c' (Or.inl hc'), h3⟩, h4, ?_⟩
      intro x hx y hy
      rcases hx with rfl | hx
      · exact h2 y (Or.inr hy)
      · exact h5 x hx y hy
    · rintro ⟨⟨h1, h2, h3⟩, h4, h5⟩
      refine ⟨h1, ?_, h3, h4, fun x hx y hy => h5 x (Or.inr hx) y hy⟩
      intro c' hc'
      rcases hc' with hc' | hc'
      · exact h2 c' hc'
      · exact h5 c (Or.inl rfl) c' hc'

theorem stOf_append_of_ge {D : Nat} {l1 l2 : List Cell} {x : Nat} (h : ∀ c ∈ l1, hi D c ≤ x) :
    stOf D (l1 ++ l2) x = stOf D l2 x := by
  rw [stOf_append, stOf_absent_of_ge h]; rfl

theorem stOf_append_of_lt {D : Nat} {l1 l2 : List Cell} {x : Nat} (h : ∀ c ∈ l2, x < lo D c) :
    stOf D (l1 ++ l2) x = stOf D l1 x := by
  rw [stOf_append, stOf_absent_of_lt h]
  split
  · rename_i h1; exact h1.symm
  · rfl

theorem stOf_ne_full {D : Nat} {l : List Cell} (h : ∀ c ∈ l, c.full = false) (x : Nat) : stOf D l x ≠ .full := by
  induction l with
  | nil => simp [stOf]
  | cons c l ih =>
    rw [stOf_cons]
    split
    · rw [h c (by simp)]; simp [Tri.ofFlag]
    · exact ih (fun c' hc' => h c' (by simp [hc']))

/-- in a well-formed list, everything after the head starts strictly after the head's start -/
theorem WF.lo_lt {D : Nat} {c : Cell} {l : List Cell} (h : WF D (c :: l)) : ∀ c' ∈ l, lo D c < lo D c' := by
  intro c' hc'
  have := h.2.1 c' hc'
  have := lo_lt_hi D c
  omega

/-! ## `consume_while_overlapped`, `consume_while_overlapped_and_partial` -/

/-- `consume_while_overlapped(low, it)` drops the sub-cells of `low`; what is left lies after `low` -/
theorem cwo_spec {D : Nat} (low : Cell) (hl : low.depth ≤ D) : ∀ (it : List Cell), WF D it →
    (∀ c ∈ it, lo D low < lo D c) →
    ∃ sk, it = sk ++ rem (consumeWhileOverlapped low it).1 (consumeWhileOverlapped low it).2 ∧
      (∀ c ∈ sk, hi D c ≤ hi D low) ∧
      (∀ c ∈ rem (consumeWhileOverlapped low it).1 (consumeWhileOverlapped low it).2, hi D low ≤ lo D c) := by
  intro it
  induction it with
  | nil => intro _ _; exact ⟨[], by simp [consumeWhileOverlapped]⟩
  | cons c rest ih =>
    intro hw hlt
    obtain ⟨s1, s2⟩ := isIn_spec hl hw.1 (hlt c (by simp))
    simp only [consumeWhileOverlapped]
    by_cases hin : isIn low c = true
    · simp only [hin, if_true]
      obtain ⟨sk, e, k1, k2⟩ := ih hw.tail (fun c' hc' => hlt c' (by simp [hc']))
      refine ⟨c :: sk, by rw [List.cons_append, ← e], ?_, k2⟩
      intro c' hc'
      rcases List.mem_cons.1 hc' with rfl | hc'
      · exact (s1 hin).2.2
      · exact k1 c' hc'
    · have hin' : isIn low c = false := by simpa using hin
      simp only [hin', Bool.false_eq_true, if_false, rem_some]
      refine ⟨[], rfl, by simp, ?_⟩
      intro c' hc'
      rcases List.mem_cons.1 hc' with rfl | hc'
      · exact s2 hin'
      · have := hw.lo_lt c' hc'; have := s2 hin'; omega

/-- `consume_while_overlapped_and_partial(low, it)` drops partial sub-cells of `low`; it stops with the flag set on a
    full sub-cell of `low`, or with the flag cleared on what lies after `low` -/
theorem cwoap_spec {D : Nat} (low : Cell) (hl : low.depth ≤ D) : ∀ (it : List Cell), WF D it →
    (∀ c ∈ it, lo D low < lo D c) →
    ∃ sk, it = sk ++ rem (consumeWhileOverlappedAndPartial low it).1 (consumeWhileOverlappedAndPartial low it).2.1 ∧
      (∀ c ∈ sk, hi D c ≤ hi D low ∧ c.full = false) ∧
      ((consumeWhileOverlappedAndPartial low it).2.2 = false →
        ∀ c ∈ rem (consumeWhileOverlappedAndPartial low it).1 (consumeWhileOverlappedAndPartial low it).2.1,
          hi D low ≤ lo D c) ∧
      ((consumeWhileOverlappedAndPartial low it).2.2 = true →
        ∃ c, (consumeWhileOverlappedAndPartial low it).1 = some c ∧ c.full = true ∧ Inside D low c) := by
  intro it
  induction it with
  | nil => intro _ _; exact ⟨[], by simp [consumeWhileOverlappedAndPartial]⟩
  | cons c rest ih =>
    intro hw hlt
    obtain ⟨s1, s2⟩ := isIn_spec hl hw.1 (hlt c (by simp))
    simp only [consumeWhileOverlappedAndPartial]
    by_cases hin : isIn low c = true
    · simp only [hin, if_true]
      by_cases hf : c.full = true
      · simp only [hf, if_true, rem_some]
        exact ⟨[], rfl, by simp, by simp, fun _ => ⟨c, rfl, hf, s1 hin⟩⟩
      · have hf' : c.full = false := by simpa using hf
        simp only [hf', Bool.false_eq_true, if_false]
        obtain ⟨sk, e, k1, k2, k3⟩ := ih hw.tail (fun c' hc' => hlt c' (by simp [hc']))
        refine ⟨c :: sk, by rw [List.cons_append, ← e], ?_, k2, k3⟩
        intro c' hc'
        rcases List.mem_cons.1 hc' with rfl | hc'
        · exact ⟨(s1 hin).2.2, hf'⟩
        · exact k1 c' hc'
    · have hin' : isIn low c = false := by simpa using hin
      simp only [hin', Bool.false_eq_true, if_false, rem_some]
      refine ⟨[], rfl, by simp, ?_, by simp⟩
      intro _ c' hc'
      rcases List.mem_cons.1 hc' with rfl | hc'
      · exact s2 hin'
      · have := hw.lo_lt c' hc'; have := s2 hin'; omega

/-! ## `not_in_cell_4_or` -/

/-- the cells pushed between cursor `(d, h)` and the next cell `c` (`go_up` by `dd_4_go_up`, then `go_down`): everything
    from the end of `(d, h)` to the start of `c`, with flag `f` -/
theorem Seg.upDown (D : Nat) (hD : D ≤ 29) (f : Bool) (d h : Nat) (c : Cell) (hd : d ≤ D) (hh : h < 12 * 4 ^ d)
    (hcd : c.depth ≤ D) (hr : InR c) (hbefore : P D d (h + 1) ≤ lo D c) :
    Seg D ((Bmoc.goUp (dd4GoUp d h c.depth c.hash) d h f).1 ++
        Bmoc.goDown (Bmoc.goUp (dd4GoUp d h c.depth c.hash) d h f).2.1 (Bmoc.goUp (dd4GoUp d h c.depth c.hash) d h f).2.2
          c.depth c.hash f)
      (P D d (h + 1)) (lo D c) (fun _ => Tri.ofFlag f) := by
  obtain ⟨s1, s2, s3⟩ := dd4GoUp_spec D d h c.depth c.hash hD hd hcd hh hr hbefore
  set dd := dd4GoUp d h c.depth c.hash with hdd
  obtain ⟨u1, u2, u3⟩ := Seg.goUp D f dd d h s1 hd
  rw [u1, u2]
  have hdown := Seg.goDown D (d - dd) ((h >>> (2 * dd)) + 1) c.depth c.hash f s2 hcd s3
  have b1 : P D d (h + 1) ≤ P D (d - dd) ((h >>> (2 * dd)) + 1) := P_end_le_anc D d dd h s1 hd
  have b2 : P D (d - dd) ((h >>> (2 * dd)) + 1) ≤ lo D c := by
    have := P_shift_le D (d - dd) (c.depth - (d - dd)) c.hash (by omega)
    rw [show d - dd + (c.depth - (d - dd)) = c.depth by omega] at this
    exact Nat.le_trans (P_mono D (d - dd) s3) this
  exact Seg.append b1 b2 u3 hdown

theorem two_mul_eq_shl (n : Nat) : 2 * n = n <<< 1 := by rw [Nat.shiftLeft_eq]; omega

/-- the hash of the ancestor of a sub-cell -/
theorem Inside.hash_eq {D : Nat} {low c : Cell} (hc : c.depth ≤ D) (h : Inside D low c) :
    c.hash >>> (2 * (c.depth - low.depth)) = low.hash := by
  rw [two_mul_eq_shl]
  exact ((cmp_eq_iff (D := D) h.1 hc).2 ⟨h.2.1, h.2.2⟩).symm

/-- **the loop of `not_in_cell_4_or`**: cursor `(d, h)` = the last full sub-cell pushed; `it` = the rest of the
    high-resolution operand.  Never panics; consumes the sub-cells of `low`; emits partial cells around the full ones. -/
theorem or4Loop_spec (D : Nat) (hD : D ≤ 29) (low : Cell) (hlow : low.depth ≤ D) :
    ∀ (fuel : Nat) (it : List Cell) (d h : Nat), it.length < fuel → d ≤ D → h < 12 * 4 ^ d →
      Inside D low ⟨d, h, true⟩ → WF D it → (∀ c ∈ it, InR c) → (∀ c ∈ it, P D d (h + 1) ≤ lo D c) →
      ∃ tl d2 h2 cell it2, notInCell4OrLoop low fuel it d h = some (tl, d2, h2, cell, it2) ∧
        d2 ≤ D ∧ Inside D low ⟨d2, h2, true⟩ ∧ P D d (h + 1) ≤ P D d2 (h2 + 1) ∧
        (∃ sk, it = sk ++ rem cell it2 ∧ ∀ c ∈ sk, hi D c ≤ hi D low) ∧
        (∀ c ∈ rem cell it2, hi D low ≤ lo D c) ∧
        Seg D tl (P D d (h + 1)) (P D d2 (h2 + 1)) (fun x => Tri.max .part (stOf D it x)) ∧
        (∀ x, P D d2 (h2 + 1) ≤ x → x < hi D low → stOf D it x ≠ .full) := by
  intro fuel
  induction fuel with
  | zero => intro it d h hf; omega
  | succ fuel ih =>
    intro it d h hf hd hh hcur hw hr hb
    have hlt : ∀ c ∈ it, lo D low < lo D c := by
      intro c hc
      have h1 := hb c hc
      have h2 : lo D low ≤ P D d h := hcur.2.1
      have h3 : P D d h < P D d (h + 1) := lo_lt_hi D ⟨d, h, true⟩
      omega
    obtain ⟨sk, e, k1, k2, k3⟩ := cwoap_spec low hlow it hw hlt
    unfold notInCell4OrLoop
    rcases hcw : consumeWhileOverlappedAndPartial low it with ⟨cell, it', flag⟩
    rw [hcw] at e k2 k3
    simp only at e k2 k3 ⊢
    cases flag with
    | false =>
      simp only [Bool.false_eq_true, if_false]
      refine ⟨[], d, h, cell, it', rfl, hd, hcur, Nat.le_refl _, ⟨sk, e, fun c hc => (k1 c hc).1⟩, k2 rfl,
        Seg.nil D _ _, ?_⟩
      intro x hx1 hx2
      rw [e, stOf_append_of_lt (fun c hc => Nat.lt_of_lt_of_le hx2 (k2 rfl c hc))]
      exact stOf_ne_full (fun c hc => (k1 c hc).2) x
    | true =>
      obtain ⟨c, hc, hcf, hcin⟩ := k3 rfl
      subst hc
      simp only [if_true]
      rw [rem_some] at e
      have hcmem : c ∈ it := by rw [e]; simp
      have hcd : c.depth ≤ D := hw.depth_le c hcmem
      have hw2 : WF D (sk ++ c :: it') := e ▸ hw
      obtain ⟨w1, w2, w3⟩ := WF_append_iff.1 hw2
      have hlen : it'.length < fuel := by
        have := congrArg List.length e
        simp only [List.length_append, List.length_cons] at this
        omega
      obtain ⟨tl, d2, h2, cell2, it2, r0, r1, r2, r3, ⟨sk', e', k'⟩, r5, r6, r7⟩ :=
        ih it' c.depth c.hash hlen hcd (hr c hcmem) hcin w2.tail
          (fun c' hc' => hr c' (by rw [e]; simp [hc'])) (fun c' hc' => w2.2.1 c' hc')
      rw [r0]
      simp only
      have hcc : ({ c with full := true } : Cell) = c := by cases c; simp_all
      rw [hcc]
      have hlh := lo_lt_hi D c
      have hbc : P D d (h + 1) ≤ lo D c := hb c hcmem
      have hhiP : hi D c = P D c.depth (c.hash + 1) := rfl
      refine ⟨_, d2, h2, cell2, it2, rfl, r1, r2, by omega, ⟨sk ++ c :: sk', ?_, ?_⟩, r5, ?_, ?_⟩
      · rw [e, e']; simp
      · intro c' hc'
        rcases List.mem_append.1 hc' with hc' | hc'
        · exact (k1 c' hc').1
        · rcases List.mem_cons.1 hc' with rfl | hc'
          · exact hcin.2.2
          · exact k' c' hc'
      · -- the segment
        have p1 := (Seg.upDown D hD false d h c hd hh hcd (hr c hcmem) hbc).mono_g
          (g' := fun x => Tri.max .part (stOf D it x)) (by
            intro x _ hx2
            rw [e, stOf_append_of_lt (l2 := c :: it') (by
              intro c' hc'
              rcases List.mem_cons.1 hc' with rfl | hc'
              · exact hx2
              · have := w2.lo_lt c' hc'; omega)]
            rw [tri_max_part_of_ne_full (stOf_ne_full (fun c' hc' => (k1 c' hc').2) x)]; rfl)
        have p2 : Seg D [c] (lo D c) (hi D c) (fun x => Tri.max .part (stOf D it x)) := by
          have hs := Seg.single D c.depth c.hash c.full hcd
          refine hs.mono_g ?_
          intro x hx1 hx2
          rw [e, stOf_append_of_ge (fun c' hc' => Nat.le_trans (w3 c' hc' c (by simp)) hx1), stOf_cons]
          have : lo D c ≤ x ∧ x < hi D c := ⟨hx1, hx2⟩
          simp only [this, and_self, if_true, hcf]; rfl
        have p3 : Seg D tl (hi D c) (P D d2 (h2 + 1)) (fun x => Tri.max .part (stOf D it x)) := by
          refine r6.mono_g ?_
          intro x hx1 _
          have : stOf D it x = stOf D it' x := by
            rw [e, show sk ++ c :: it' = (sk ++ [c]) ++ it' by simp]
            apply stOf_append_of_ge
            intro c' hc'
            rcases List.mem_append.1 hc' with hc' | hc'
            · have := w3 c' hc' c (by simp); omega
            · simp only [List.mem_singleton] at hc'; subst hc'; exact hx1
          rw [this]
        have q := Seg.append (Nat.le_trans hbc (Nat.le_of_lt hlh)) r3
          (Seg.append hbc (Nat.le_of_lt hlh) p1 p2) p3
        simpa [List.append_assoc] using q
      · intro x hx1 hx2
        have : stOf D it x = stOf D it' x := by
          rw [e, show sk ++ c :: it' = (sk ++ [c]) ++ it' by simp]
          apply stOf_append_of_ge
          intro c' hc'
          rcases List.mem_append.1 hc' with hc' | hc'
          · have := w3 c' hc' c (by simp); omega
          · simp only [List.mem_singleton] at hc'; subst hc'; omega
        rw [this]
        exact r7 x hx1 hx2

theorem goDown_self (d h : Nat) (f : Bool) : Bmoc.goDown d h d h f = [] := by
  unfold Bmoc.goDown
  rw [Nat.sub_self]
  simp only [Bmoc.goDownAux]
  exact pushRange_empty d h h f (Nat.le_refl _)

/-- **`not_in_cell_4_or(low, c, it)`** for a full sub-cell `c` of `low` followed by `it`: never panics, consumes exactly the
    sub-cells of `low`, and pushes a well-formed tiling of `low` that is full on the full sub-cells and partial elsewhere -/
theorem or4_spec (D : Nat) (hD : D ≤ 29) (low c : Cell) (it : List Cell) (hlow : low.depth ≤ D)
    (hin : Inside D low c) (hcf : c.full = true) (hw : WF D (c :: it)) (hr : ∀ c' ∈ c :: it, InR c') :
    ∃ pushed cell it', notInCell4Or low c it = some (pushed, cell, it') ∧
      (∃ sk, it = sk ++ rem cell it' ∧ ∀ c' ∈ sk, hi D c' ≤ hi D low) ∧
      (∀ c' ∈ rem cell it', hi D low ≤ lo D c') ∧
      Seg D pushed (lo D low) (hi D low) (fun x => Tri.max .part (stOf D (c :: it) x)) := by
  have hcd : c.depth ≤ D := hw.1
  have hcin : Inside D low ⟨c.depth, c.hash, true⟩ := hin
  obtain ⟨tl, d2, h2, cell, it2, r0, r1, r2, r3, r4, r5, r6, r7⟩ :=
    or4Loop_spec D hD low hlow (it.length + 2) it c.depth c.hash (by omega) hcd (hr c (by simp)) hcin hw.tail
      (fun c' hc' => hr c' (by simp [hc'])) (fun c' hc' => hw.2.1 c' hc')
  unfold notInCell4Or
  simp only [r0]
  have hcc : ({ c with full := true } : Cell) = c := by cases c; simp_all
  rw [hcc]
  have hd2 : d2 - low.depth ≤ d2 := Nat.sub_le _ _
  obtain ⟨u1, u2, u3⟩ := Seg.goUp D false (d2 - low.depth) d2 h2 hd2 r1
  have hanc : h2 >>> (2 * (d2 - low.depth)) = low.hash := Inside.hash_eq (c := ⟨d2, h2, true⟩) r1 r2
  have hld : low.depth ≤ d2 := r2.1
  have hsub : d2 - (d2 - low.depth) = low.depth := by omega
  rw [hsub] at u1 u3
  rw [hanc] at u2 u3
  rw [u1, u2, goDown_self, List.append_nil]
  refine ⟨_, cell, it2, rfl, r4, r5, ?_⟩
  have hlh := lo_lt_hi D c
  have hhiP : hi D c = P D c.depth (c.hash + 1) := rfl
  have hhilow : hi D low = P D low.depth (low.hash + 1) := rfl
  have hstc : ∀ x, hi D c ≤ x → stOf D (c :: it) x = stOf D it x := by
    intro x hx
    rw [stOf_cons]
    have : ¬ (lo D c ≤ x ∧ x < hi D c) := by omega
    simp [this]
  have p1 : Seg D (Bmoc.goDown low.depth low.hash c.depth c.hash false) (lo D low) (lo D c)
      (fun x => Tri.max .part (stOf D (c :: it) x)) := by
    have := Seg.goDown D low.depth low.hash c.depth c.hash false hin.1 hcd
      (Nat.le_of_eq (Inside.hash_eq hcd hin).symm)
    refine this.mono_g ?_
    intro x _ hx
    rw [(st_facts hw x).1 hx]; rfl
  have p2 : Seg D [c] (lo D c) (hi D c) (fun x => Tri.max .part (stOf D (c :: it) x)) := by
    refine (Seg.single D c.depth c.hash c.full hcd).mono_g ?_
    intro x hx1 hx2
    rw [stOf_cons]
    have : lo D c ≤ x ∧ x < hi D c := ⟨hx1, hx2⟩
    simp only [this, and_self, if_true, hcf]; rfl
  have p3 : Seg D tl (hi D c) (P D d2 (h2 + 1)) (fun x => Tri.max .part (stOf D (c :: it) x)) :=
    r6.mono_g (fun x hx1 _ => by rw [hstc x hx1])
  have p4 : Seg D (Bmoc.goUp (d2 - low.depth) d2 h2 false).1 (P D d2 (h2 + 1)) (hi D low)
      (fun x => Tri.max .part (stOf D (c :: it) x)) := by
    refine u3.mono_g ?_
    intro x hx1 hx2
    rw [hstc x (by omega), tri_max_part_of_ne_full (r7 x hx1 hx2)]; rfl
  have b4 : P D d2 (h2 + 1) ≤ hi D low := r2.2.2
  have q := Seg.append (Nat.le_trans hin.2.1 (Nat.le_trans (Nat.le_of_lt hlh) r3)) b4
    (Seg.append (Nat.le_trans hin.2.1 (Nat.le_of_lt hlh)) r3 (Seg.append hin.2.1 (Nat.le_of_lt hlh) p1 p2) p3) p4
  simpa [List.append_assoc] using q

/-! ## the branch "low-resolution cell of one operand over sub-cells of the other operand" -/

/-- what the two symmetric branches `l.depth < r.depth, l.hash = hr` and `l.depth > r.depth, hl = r.hash` of `or` do with
    the low-resolution cell `low` and the other operand `c0 :: it`: `(pushed cells, new current cell, new iterator)` -/
def orCoarse (low c0 : Cell) (it : List Cell) : Option (List Cell × Option Cell × List Cell) :=
  if low.full then
    some ([low], (consumeWhileOverlapped low it).1, (consumeWhileOverlapped low it).2)
  else
    let t := if c0.full then (some c0, it, true) else consumeWhileOverlappedAndPartial low it
    if t.2.2 then
      match t.1 with
      | none => none
      | some c => notInCell4Or low c t.2.1
    else some ([{ low with full := false }], t.1, t.2.1)

theorem orLoop_coarse_left (fuel : Nat) (l r : Cell) (lit rit : List Cell) (hd : l.depth < r.depth)
    (he : l.hash = r.hash >>> ((r.depth - l.depth) <<< 1)) :
    orLoop (fuel + 1) (some l) lit (some r) rit =
      match orCoarse l r rit with
      | none => none
      | some (pushed, right', rit') => (orLoop fuel lit.head? lit.tail right' rit').map (pushed ++ ·) := by
  have h1 : ¬ (l.hash < r.hash >>> ((r.depth - l.depth) <<< 1)) := by omega
  have h2 : ¬ (l.hash > r.hash >>> ((r.depth - l.depth) <<< 1)) := by omega
  rw [orLoop]
  simp only [hd, if_true, h1, h2, if_false, orCoarse]
  by_cases hlf : l.full = true
  · simp [hlf]
  · have hlf' : l.full = false := by simpa using hlf
    simp only [hlf', Bool.false_eq_true, if_false]
    by_cases hrf : r.full = true
    · simp only [hrf, if_true]
      cases notInCell4Or l r rit with
      | none => rfl
      | some v => rfl
    · have hrf' : r.full = false := by simpa using hrf
      simp only [hrf', Bool.false_eq_true, if_false]
      rcases consumeWhileOverlappedAndPartial l rit with ⟨cell, it', flag⟩
      cases flag with
      | false => simp
      | true =>
        simp only [if_true]
        cases cell with
        | none => rfl
        | some c =>
          simp only
          cases notInCell4Or l c it' with
          | none => rfl
          | some v => rfl

theorem orLoop_coarse_right (fuel : Nat) (l r : Cell) (lit rit : List Cell) (hd : r.depth < l.depth)
    (he : r.hash = l.hash >>> ((l.depth - r.depth) <<< 1)) :
    orLoop (fuel + 1) (some l) lit (some r) rit =
      match orCoarse r l lit with
      | none => none
      | some (pushed, left', lit') => (orLoop fuel left' lit' rit.head? rit.tail).map (pushed ++ ·) := by
  have h0 : ¬ (l.depth < r.depth) := by omega
  have h1 : ¬ (l.hash >>> ((l.depth - r.depth) <<< 1) < r.hash) := by omega
  have h2 : ¬ (l.hash >>> ((l.depth - r.depth) <<< 1) > r.hash) := by omega
  rw [orLoop]
  simp only [h0, hd, gt_iff_lt, if_true, h1, h2, if_false, orCoarse]
  by_cases hrf : r.full = true
  · simp [hrf]
  · have hrf' : r.full = false := by simpa using hrf
    simp only [hrf', Bool.false_eq_true, if_false]
    by_cases hlf : l.full = true
    · simp only [hlf, if_true]
      cases notInCell4Or r l lit with
      | none => rfl
      | some v => rfl
    · have hlf' : l.full = false := by simpa using hlf
      simp only [hlf', Bool.false_eq_true, if_false]
      rcases consumeWhileOverlappedAndPartial r lit with ⟨cell, it', flag⟩
      cases flag with
      | false => simp
      | true =>
        simp only [if_true]
        cases cell with
        | none => rfl
        | some c =>
          simp only
          cases notInCell4Or r c it' with
          | none => rfl
          | some v => rfl

theorem stOf_ne_abs_covered {D : Nat} {l : List Cell} {x : Nat} (h : stOf D l x ≠ .abs) :
    ∃ c ∈ l, lo D c ≤ x ∧ x < hi D c := by
  induction l with
  | nil => exact absurd rfl h
  | cons c l ih =>
    rw [stOf_cons] at h
    by_cases hc : lo D c ≤ x ∧ x < hi D c
    · exact ⟨c, by simp, hc⟩
    · simp only [hc, if_false] at h
      obtain ⟨c', hm, h'⟩ := ih h
      exact ⟨c', by simp [hm], h'⟩

/-- partial cells in front of a list do not change `max(partial, ·)` -/
theorem tri_max_part_append {D : Nat} {pre suf : List Cell} (hw : WF D (pre ++ suf))
    (hp : ∀ c ∈ pre, c.full = false) (x : Nat) :
    Tri.max .part (stOf D (pre ++ suf) x) = Tri.max .part (stOf D suf x) := by
  rw [stOf_append]
  split
  · rfl
  · rename_i hne
    obtain ⟨c, hm, h1, h2⟩ := stOf_ne_abs_covered hne
    have hsuf : stOf D suf x = .abs := by
      apply stOf_absent_of_lt
      intro c' hc'
      have := (WF_append_iff.1 hw).2.2 c hm c' hc'
      omega
    rw [hsuf, tri_max_part_of_ne_full (stOf_ne_full hp x)]; rfl

/-- **the coarse-cell branch**: never panics, consumes (beyond `c0`) exactly the sub-cells of `low`, pushes a well-formed
    tiling of `low` denoting `max(flag of low, other operand)` -/
theorem orCoarse_spec (D : Nat) (hD : D ≤ 29) (low c0 : Cell) (it : List Cell) (hlow : low.depth ≤ D)
    (hin : Inside D low c0) (hw : WF D (c0 :: it)) (hr : ∀ c' ∈ c0 :: it, InR c') :
    ∃ pushed cell it', orCoarse low c0 it = some (pushed, cell, it') ∧
      (∃ sk, it = sk ++ rem cell it' ∧ ∀ c' ∈ sk, hi D c' ≤ hi D low) ∧
      (∀ c' ∈ rem cell it', hi D low ≤ lo D c') ∧
      Seg D pushed (lo D low) (hi D low) (fun x => Tri.max (Tri.ofFlag low.full) (stOf D (c0 :: it) x)) := by
  have hlt : ∀ c ∈ it, lo D low < lo D c := by
    intro c hc
    have := hw.lo_lt c hc
    have := hin.2.1
    omega
  unfold orCoarse
  by_cases hlf : low.full = true
  · simp only [hlf, if_true]
    obtain ⟨sk, e, k1, k2⟩ := cwo_spec low hlow it hw.tail hlt
    refine ⟨_, _, _, rfl, ⟨sk, e, k1⟩, k2, ?_⟩
    refine (Seg.single D low.depth low.hash low.full hlow).mono_g ?_
    intro x _ _
    rw [hlf]; simp [Tri.ofFlag]
  · have hlf' : low.full = false := by simpa using hlf
    have hll : ({ low with full := false } : Cell) = low := by cases low; simp_all
    simp only [hlf', Bool.false_eq_true, if_false, hll]
    have hpart : Tri.ofFlag false = .part := rfl
    rw [hpart]
    by_cases hcf : c0.full = true
    · simp only [hcf, if_true]
      exact or4_spec D hD low c0 it hlow hin hcf hw hr
    · have hcf' : c0.full = false := by simpa using hcf
      simp only [hcf', Bool.false_eq_true, if_false]
      obtain ⟨sk, e, k1, k2, k3⟩ := cwoap_spec low hlow it hw.tail hlt
      rcases hcw : consumeWhileOverlappedAndPartial low it with ⟨cell, it1, flag⟩
      rw [hcw] at e k2 k3
      simp only at e k2 k3 ⊢
      have hw' : WF D ((c0 :: sk) ++ rem cell it1) := by rw [List.cons_append, ← e]; exact hw
      have hpre : ∀ c ∈ c0 :: sk, c.full = false := by
        intro c hc
        rcases List.mem_cons.1 hc with rfl | hc
        · exact hcf'
        · exact (k1 c hc).2
      cases flag with
      | false =>
        simp only [Bool.false_eq_true, if_false]
        refine ⟨_, _, _, rfl, ⟨sk, e, fun c hc => (k1 c hc).1⟩, k2 rfl, ?_⟩
        refine (Seg.single D low.depth low.hash low.full hlow).mono_g ?_
        intro x _ hx2
        have : stOf D (c0 :: it) x = stOf D (c0 :: sk) x := by
          rw [e, ← List.cons_append]
          exact stOf_append_of_lt (fun c hc => Nat.lt_of_lt_of_le hx2 (k2 rfl c hc))
        rw [this, tri_max_part_of_ne_full (stOf_ne_full hpre x), hlf']; rfl
      | true =>
        obtain ⟨c, hc, hcfull, hcin⟩ := k3 rfl
        subst hc
        simp only [if_true]
        rw [rem_some] at e hw'
        obtain ⟨w1, w2, w3⟩ := WF_append_iff.1 hw'
        obtain ⟨pushed, cell', it', q0, ⟨sk', e', k'⟩, q2, q3⟩ := or4_spec D hD low c it1 hlow hcin hcfull w2
          (fun c' hc' => hr c' (by rw [e]; simp only [List.mem_cons, List.mem_append] at hc' ⊢; tauto))
        refine ⟨pushed, cell', it', q0, ⟨sk ++ c :: sk', ?_, ?_⟩, q2, ?_⟩
        · rw [e, e']; simp
        · intro c' hc'
          rcases List.mem_append.1 hc' with hc' | hc'
          · exact (k1 c' hc').1
          · rcases List.mem_cons.1 hc' with rfl | hc'
            · exact hcin.2.2
            · exact k' c' hc'
        · refine q3.mono_g ?_
          intro x _ _
          rw [e, ← List.cons_append]
          exact (tri_max_part_append hw' hpre x).symm

end Hpx.Bmoc
