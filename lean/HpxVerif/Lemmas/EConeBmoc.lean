import HpxVerif.Lemmas.ConeBmoc3

/-!
# C13 on the BMOC RETURNED by `elliptical_cone_coverage` (part 1: geometry, good cells, the descent)

`Lemmas/EConeEq*.lean` state the equatorial theorems of the elliptical cone on the list of cells handed to the builder.
Here they are lifted to the returned BMOC, as `Lemmas/ConeBmoc2/3.lean` do for the cone.

* `polar_lat_ge`, `edge_cell_vertex_polar`: a cell centred ON the transition latitude has a vertex whose latitude is at
  least `tl` in absolute value (Collignon branch of `unproj`), hence outside every cone with `|lat| + a < tl`;
* `econe_contains_outer_disc`, `econe_containsCone_outer_disc`: a point that passes `contains` (resp. `contains_cone`) of a
  general elliptical cone `0 < b ≤ a < π/2` is within `a` of the centre;
* `GoodCellG P V D`, `goodCellG_closure`, `packedG_good`: the invariant of `ConeBmoc2.GoodCell` with an arbitrary
  "inside" predicate `P` and an alternative `V` for the cells of the deepest depth (the elliptical descent flags a cell of
  the deepest depth full when its four VERTICES are inside);
* `ell_full_not_edge`: a cell flagged full by the elliptical descent is not centred on the transition latitude;
* `coverRec_ell_good`, `coverRec_ell_good_circular`.
-/

namespace Hpx.EConeBmoc
open Hpx Hpx.Hash Hpx.C2V Hpx.C2VReal Hpx.Proj Hpx.Cover Hpx.CellReal Hpx.EnvelopeReal Hpx.TopoLift Hpx.CellExtent
open Hpx.Sph Hpx.Bmoc Hpx.Tightness Hpx.EConeEq Hpx.ConeBmoc Real

/-! ## the latitude of a point of the polar caps of the projection plane -/

theorem tl_eq : tl = Real.arcsin (2 / 3) := by
  rw [← latOf_one]
  unfold latOf
  rw [one_mul]

/-- Collignon branch: for `1 < y ≤ 2` the latitude `2·acos((2 − y)/√6) − π/2` is in `[tl, π/2]` -/
theorem polar_lat_ge (y : ℝ) (h1 : 1 < y) (h2 : y ≤ 2) :
    tl ≤ 2 * Real.arccos ((2 - y) * (1 / Real.sqrt 6)) - π / 2 ∧
      2 * Real.arccos ((2 - y) * (1 / Real.sqrt 6)) - π / 2 ≤ π / 2 := by
  have hs6 : 0 < Real.sqrt 6 := Real.sqrt_pos.mpr (by norm_num)
  have hs6sq : Real.sqrt 6 ^ 2 = 6 := Real.sq_sqrt (by norm_num)
  set t := (2 - y) * (1 / Real.sqrt 6) with ht
  have ht0 : 0 ≤ t := mul_nonneg (by linarith) (by positivity)
  have htsq : t ^ 2 ≤ 1 / 6 := by
    rw [ht, mul_pow, div_pow, one_pow, hs6sq]
    have : (2 - y) ^ 2 ≤ 1 := by nlinarith
    nlinarith
  refine ⟨?_, ?_⟩
  · have htl0 := tl_ge
    have htl1 := tl_le
    have hpi := Real.pi_gt_three
    set θ := (tl + π / 2) / 2 with hθ
    have hθ0 : 0 ≤ θ := by rw [hθ]; linarith
    have hθ1 : θ ≤ π / 2 := by rw [hθ]; linarith
    have hcos0 : 0 ≤ cos θ := cos_nonneg_of_neg_pi_div_two_le_of_le (by linarith) hθ1
    have hcsq : cos θ ^ 2 = 1 / 6 := by
      rw [Real.cos_sq θ, show 2 * θ = tl + π / 2 by rw [hθ]; ring, Real.cos_add_pi_div_two, tl_eq,
        Real.sin_arcsin (by norm_num) (by norm_num)]
      norm_num
    have hle : t ≤ cos θ := by
      apply le_of_sq_le_sq' _ _ hcos0
      rw [hcsq]; exact htsq
    have := Real.arccos_le_arccos hle
    rw [Real.arccos_cos hθ0 (by linarith)] at this
    rw [hθ] at this
    linarith
  · have := Real.arccos_le_pi_div_two.mpr ht0
    linarith

/-- the latitude returned by `unproj` for `1 < |y| ≤ 2` is at least `tl` in absolute value (and at most `π/2`) -/
theorem unprojT_polar_lat (x y : ℝ) (hx0 : 0 ≤ x) (hx8 : x ≤ 8) (h1 : 1 < |y|) (h2 : |y| ≤ 2) :
    tl ≤ |(unprojT x y).2| ∧ |(unprojT x y).2| ≤ π / 2 := by
  obtain ⟨y1, y2⟩ := abs_le.mp h2
  have hu := unproj_eq x y y1 y2
  obtain ⟨k, hk, k1, k2⟩ := facet_exists x hx0 5 (by norm_num; linarith)
  rw [unproj_sym, abs_of_nonneg hx0, unproj_pos x |y| k (by omega) k1 k2 (abs_nonneg y) h2, if_neg (not_le.mpr h1),
    Option.map_some] at hu
  have e := congrArg Prod.snd (Option.some.inj hu)
  simp only at e
  obtain ⟨p1, p2⟩ := polar_lat_ge |y| h1 h2
  have htl := tl_ge
  rw [← e]
  unfold sgn
  split_ifs
  · rw [abs_neg, abs_abs, abs_of_nonneg (by linarith)]
    exact ⟨p1, p2⟩
  · rw [abs_of_nonneg (by linarith)]
    exact ⟨p1, p2⟩

/-- **a cell centred on the transition latitude has a vertex in a polar cap**: one of the four positions returned by
    `vertices` has a latitude `≥ tl` in absolute value -/
theorem edge_cell_vertex_polar (cfg : Cfg) (d h : ℕ) (hd : d ≤ 29) (hh : h < 12 * 4 ^ d) (hedge : |pcy d h| = 1)
    (vs : List (ℝ × ℝ)) (hvs : Hash.vertices (α := ℝ) cfg d h = some vs) :
    ∃ v ∈ vs, tl ≤ |v.2| ∧ |v.2| ≤ π / 2 := by
  obtain ⟨hb, hi, hj⟩ := partsOf_valid d h hh
  rw [vertices_plane cfg d h (partsOf d h).d0h (partsOf d h).i (partsOf d h).j (by rw [nHash_eq]; exact hh)
    (decodeHash_spec cfg d hd h hh) hb hi hj] at hvs
  have hvs' := Option.some.inj hvs
  obtain ⟨δ0, δ1⟩ := distCw_range d
  have hxr := fun k => vtx_x_range d (partsOf d h).d0h (partsOf d h).i (partsOf d h).j k hb hi hj
  change |cellCy d (partsOf d h).d0h (partsOf d h).i (partsOf d h).j| = 1 at hedge
  rcases (abs_eq (by norm_num : (0 : ℝ) ≤ 1)).mp hedge with e | e
  · refine ⟨unprojT (vtx d (partsOf d h).d0h (partsOf d h).i (partsOf d h).j 2).1
      (vtx d (partsOf d h).d0h (partsOf d h).i (partsOf d h).j 2).2, by rw [← hvs']; simp, ?_⟩
    apply unprojT_polar_lat _ _ (hxr 2).1 (hxr 2).2.1
    · simp only [vtx, e]; rw [abs_of_pos (by linarith)]; linarith
    · simp only [vtx, e]; rw [abs_of_pos (by linarith)]; linarith
  · refine ⟨unprojT (vtx d (partsOf d h).d0h (partsOf d h).i (partsOf d h).j 0).1
      (vtx d (partsOf d h).d0h (partsOf d h).i (partsOf d h).j 0).2, by rw [← hvs']; simp, ?_⟩
    apply unprojT_polar_lat _ _ (hxr 0).1 (hxr 0).2.1
    · simp only [vtx, e]; rw [abs_of_neg (by linarith)]; linarith
    · simp only [vtx, e]; rw [abs_of_neg (by linarith)]; linarith

/-- with `|lat| + a < tl`, the four vertices of a cell centred on the transition latitude are not all within `a` of
    `(lon, lat)` -/
theorem edge_cell_vertices_not_inside (cfg : Cfg) (lon lat a : ℝ) (hA : |lat| + a < tl) (d h : ℕ) (hd : d ≤ 29)
    (hh : h < 12 * 4 ^ d) (hedge : |pcy d h| = 1) (vs : List (ℝ × ℝ)) (hvs : Hash.vertices (α := ℝ) cfg d h = some vs)
    (hall : ∀ v ∈ vs, adist v (lon, lat) ≤ a) : False := by
  obtain ⟨v, hv, h1, h2⟩ := edge_cell_vertex_polar cfg d h hd hh hedge vs hvs
  have := lat_lt_of_in_cone lon lat a hA v h2 (by rw [adist_comm]; exact hall v hv)
  linarith

/-! ## a general elliptical cone lies in the disc of radius `a` -/

/-- the canonical ellipse inequality with semi-axes `0 < B ≤ A` bounds the norm by `A` -/
theorem ellipse_norm_le (A B s c x y : ℝ) (hB : 0 < B) (hBA : B ≤ A) (hsc : s * s + c * c = 1)
    (h : ((x * c + y * s) / A) ^ 2 + ((x * s - y * c) / B) ^ 2 ≤ 1) : x ^ 2 + y ^ 2 ≤ A ^ 2 := by
  have hA : 0 < A := lt_of_lt_of_le hB hBA
  have h1 : ((x * s - y * c) / A) ^ 2 ≤ ((x * s - y * c) / B) ^ 2 := by
    rw [div_pow, div_pow]
    exact div_le_div_of_nonneg_left (sq_nonneg _) (by positivity) (pow_le_pow_left₀ hB.le hBA 2)
  have h2 : ((x * c + y * s) / A) ^ 2 + ((x * s - y * c) / A) ^ 2 = (x ^ 2 + y ^ 2) / A ^ 2 := by
    field_simp
    linear_combination (x ^ 2 + y ^ 2) * hsc
  have h3 : (x ^ 2 + y ^ 2) / A ^ 2 ≤ 1 := by linarith
  rwa [div_le_one (by positivity)] at h3

/-- **a position that passes `contains` of the elliptical cone `0 < b ≤ a < π/2` is within `a` of the centre** -/
theorem econe_contains_outer_disc (lon lat a b pa l φ : ℝ) (hb : 0 < b) (hba : b ≤ a) (ha : a < π / 2)
    (h : (ECone.new (α := ℝ) lon lat a b pa).contains l φ = true) : adist (l, φ) (lon, lat) ≤ a := by
  rw [← adist_new_c0]
  unfold ECone.contains ECone.new at h
  simp only [num_sin, num_cos] at h
  rw [proj_sin_spec _ (ProjSIN.new_coherent lon lat)] at h
  have h0 := adist_nonneg (l, φ) (ProjSIN.new lon lat).c0
  have hpi := adist_le_pi (l, φ) (ProjSIN.new lon lat).c0
  have hsb : 0 < sin b := sin_pos_of_pos_of_lt_pi hb (by linarith [pi_pos])
  have hsab : sin b ≤ sin a := sin_le_sin_of_le_of_le_pi_div_two (by linarith) ha.le hba
  have hsa : 0 < sin a := lt_of_lt_of_le hsb hsab
  by_cases hc : 0 < cos (adist (l, φ) (ProjSIN.new lon lat).c0)
  · have hd : adist (l, φ) (ProjSIN.new lon lat).c0 < π / 2 := by
      by_contra hge
      have := cos_nonpos_of_pi_div_two_le_of_le (not_lt.mp hge) (by linarith)
      linarith
    simp only [if_pos hc] at h
    rw [ellipse_contains_real _ _ _ _ _ _ (ne_of_gt hsa) (ne_of_gt hsb) (theta_unit pa)] at h
    have hn := ellipse_norm_le _ _ _ _ _ _ hsb hsab (theta_unit pa) h
    rw [sinXY_norm] at hn
    exact (sin_sq_le_iff _ _ ⟨h0, hd.le⟩ ⟨by linarith, ha.le⟩).mp hn
  · simp only [if_neg hc] at h
    exact absurd h (by simp)

/-- **a centre that passes `contains_cone` (radius `0 ≤ r`) of the elliptical cone `0 < b ≤ a < π/2` is within `a − r`
    of the centre of the ellipse** -/
theorem econe_containsCone_outer_disc (lon lat a b pa l φ r : ℝ) (hba : b ≤ a) (ha : a < π / 2) (hr : 0 ≤ r)
    (h : (ECone.new (α := ℝ) lon lat a b pa).containsCone l φ r = true) : adist (l, φ) (lon, lat) + r ≤ a := by
  rw [← adist_new_c0]
  unfold ECone.containsCone ECone.new at h
  simp only [num_sin, num_cos, num_ge] at h
  by_cases hrb : b ≤ r
  · simp only [hrb, decide_true, if_true] at h
    exact absurd h (by simp)
  · simp only [hrb, decide_false, Bool.false_eq_true, if_false] at h
    have hrb' : r < b := not_le.mp hrb
    rw [proj_sin_spec _ (ProjSIN.new_coherent lon lat)] at h
    have h0 := adist_nonneg (l, φ) (ProjSIN.new lon lat).c0
    have hpi := adist_le_pi (l, φ) (ProjSIN.new lon lat).c0
    have hsb : 0 < sin (b - r) := sin_pos_of_pos_of_lt_pi (by linarith) (by linarith [pi_pos])
    have hsab : sin (b - r) ≤ sin (a - r) :=
      sin_le_sin_of_le_of_le_pi_div_two (by linarith [pi_pos]) (by linarith) (by linarith)
    have hsa : 0 < sin (a - r) := lt_of_lt_of_le hsb hsab
    by_cases hc : 0 < cos (adist (l, φ) (ProjSIN.new lon lat).c0)
    · have hd : adist (l, φ) (ProjSIN.new lon lat).c0 < π / 2 := by
        by_contra hge
        have := cos_nonpos_of_pi_div_two_le_of_le (not_lt.mp hge) (by linarith)
        linarith
      simp only [if_pos hc] at h
      rw [ellipse_contains_real _ _ _ _ _ _ (ne_of_gt hsa) (ne_of_gt hsb) (theta_unit pa)] at h
      have hn := ellipse_norm_le _ _ _ _ _ _ hsb hsab (theta_unit pa) h
      rw [sinXY_norm] at hn
      have := (sin_sq_le_iff _ _ ⟨h0, hd.le⟩ ⟨by linarith, by linarith⟩).mp hn
      linarith
    · simp only [if_neg hc] at h
      exact absurd h (by simp)

/-! ## good cells, with an arbitrary "inside" predicate and an alternative for the cells of the deepest depth -/

/-- what is known of every cell of the list handed to the builder AND of every entry of the returned BMOC of depth `D`:
    a FULL cell is not centred on the transition latitude, and each of its positions `q` (`InCellEq`) either satisfies `P`
    or lies in a cell `x` of the deepest depth `D` under it that satisfies `V`; a partial cell is at depth `D` -/
def GoodCellG (P : ℝ × ℝ → Prop) (V : ℕ → Prop) (D : ℕ) (c : Cell) : Prop :=
  (c.full = true → |pcy c.depth c.hash| ≠ 1 ∧ ∀ q, InCellEq c.depth c.hash q →
    P q ∨ ∃ x, x / 4 ^ (D - c.depth) = c.hash ∧ InCellEq D x q ∧ V x) ∧
  (c.full = false → c.depth = D)

/-- `GoodCellG` passes from four full siblings to their parent -/
theorem goodCellG_closure (P : ℝ × ℝ → Prop) (V : ℕ → Prop) (D : ℕ) (hD : D ≤ 29) :
    ∀ d h, 0 < d → d ≤ D → h % 4 = 0 → h < 12 * 4 ^ d → GoodCellG P V D ⟨d, h, true⟩ →
      GoodCellG P V D ⟨d, h + 1, true⟩ → GoodCellG P V D ⟨d, h + 2, true⟩ →
      GoodCellG P V D ⟨d, h + 3, true⟩ → GoodCellG P V D ⟨d - 1, h / 4, true⟩ := by
  intro d h hd0 hdD h4 _ g0 g1 g2 g3
  obtain ⟨d', rfl⟩ : ∃ d', d = d' + 1 := ⟨d - 1, by omega⟩
  rw [Nat.add_sub_cancel]
  have e : ∀ k, k < 4 → h + k = 4 * (h / 4) + k := by intro k _; omega
  refine ⟨fun _ => ⟨?_, ?_⟩, fun hf => by simp at hf⟩
  · have := (g1.1 rfl).1
    simp only at this
    rw [e 1 (by omega), east_child_pcy d' (h / 4) (by omega)] at this
    exact this
  · intro q hq
    have hch := inCellEq_children d' (h / 4) q (by omega) hq
    rw [shl2_or (h / 4) 1 (by omega), shl2_or (h / 4) 2 (by omega), shl2_or (h / 4) 3 (by omega),
      show (h / 4) <<< 2 = h + 0 by rw [Nat.shiftLeft_eq]; omega, ← e 1 (by omega), ← e 2 (by omega),
      ← e 3 (by omega)] at hch
    have lift : ∀ k, k < 4 → GoodCellG P V D ⟨d' + 1, h + k, true⟩ → InCellEq (d' + 1) (h + k) q →
        P q ∨ ∃ x, x / 4 ^ (D - d') = h / 4 ∧ InCellEq D x q ∧ V x := by
      intro k hk g hkq
      rcases (g.1 rfl).2 q hkq with hP | ⟨x, hx, hxq, hV⟩
      · exact Or.inl hP
      · refine Or.inr ⟨x, ?_, hxq, hV⟩
        simp only at hx
        rw [show D - d' = (D - (d' + 1)) + 1 by omega, ← div_pow_succ, Nat.div_right_comm, hx]
        omega
    rcases hch with h0 | h1 | h2 | h3
    · exact lift 0 (by omega) g0 h0
    · exact lift 1 (by omega) g1 h1
    · exact lift 2 (by omega) g2 h2
    · exact lift 3 (by omega) g3 h3

/-- a good cell that covers (cell numbers) a strictly equatorial cell `x` of depth `D` containing `q` contains `q` -/
theorem goodCellG_contains (P : ℝ × ℝ → Prop) (V : ℕ → Prop) (D : ℕ) (c : Cell) (hg : GoodCellG P V D c)
    (hcd : c.depth ≤ D) (x : ℕ) (hcov : x / 4 ^ (D - c.depth) = c.hash) (q : ℝ × ℝ) (hq : InCellEq D x q) :
    InCellEq c.depth c.hash q := by
  cases hf : c.full with
  | false =>
    have hd := hg.2 hf
    rw [hd, Nat.sub_self, Nat.pow_zero, Nat.div_one] at hcov
    rw [hd, ← hcov]
    exact hq
  | true => exact full_contains D c (hg.1 hf).1 hcd x hcov q hq

/-- **the compaction keeps the good cells good and covers what was covered** (`ConeBmoc.packed_good` for `GoodCellG`) -/
theorem packedG_good (P : ℝ × ℝ → Prop) (V : ℕ → Prop) (D : ℕ) (hD : D ≤ 29) (cells : List Cell) (hw : WF D cells)
    (hr : ∀ c ∈ cells, InRange c) (hg : ∀ c ∈ cells, GoodCellG P V D c) :
    (∀ e ∈ pack D (cells.map (encode D)), GoodCellG P V D (decode e D)) ∧
    (∀ c ∈ cells, ∀ x, x / 4 ^ (D - c.depth) = c.hash →
      ∃ e ∈ pack D (cells.map (encode D)), (decode e D).depth ≤ D ∧
        x / 4 ^ (D - (decode e D).depth) = (decode e D).hash ∧ (decode e D).full = c.full) := by
  obtain ⟨g1, g2, _, g4⟩ := packed_bmoc_wf D hD cells hw hr
  have hv : ∀ r ∈ cells.map (encode D), ValidRaw D r := by
    intro e he
    obtain ⟨c, hc, rfl⟩ := List.mem_map.1 he
    exact ⟨c, hw.depth_le c hc, hr c hc, rfl⟩
  refine ⟨?_, ?_⟩
  · refine pack_closure _ D hD (goodCellG_closure P V D hD) _ hv ?_
    intro e he
    obtain ⟨c, hc, rfl⟩ := List.mem_map.1 he
    rw [decode_encode (hw.depth_le c hc) hD (hr c hc)]
    exact hg c hc
  · intro c hc x hx
    obtain ⟨h1, h2⟩ := (covers_iff_div D c x).mpr hx
    have hst := Lower.stOf_of_mem hw hc h1 h2
    have hst' := g4 x
    rw [hst] at hst'
    obtain ⟨c', hc', k1, k2⟩ := stOf_ne_abs_covered (D := D) (l := cellsOf D (pack D (cells.map (encode D)))) (x := x)
      (by rw [hst']; exact Lower.ofFlag_ne_abs _)
    have hst2 := Lower.stOf_of_mem g2 hc' k1 k2
    rw [hst'] at hst2
    obtain ⟨e, he, rfl⟩ := List.mem_map.1 hc'
    refine ⟨e, he, g2.depth_le _ hc', (covers_iff_div D _ x).mp ⟨k1, k2⟩, ?_⟩
    revert hst2
    cases (decode e D).full <;> cases c.full <;> simp [Tri.ofFlag]

/-! ## the cells emitted by the elliptical descent -/

/-- "the four vertices of the cell `x` of depth `D` are within `a` of `(lon, lat)`" -/
def VtxInside (cfg : Cfg) (lon lat a : ℝ) (D x : ℕ) : Prop :=
  ∃ vs, Hash.vertices (α := ℝ) cfg D x = some vs ∧ ∀ v ∈ vs, adist v (lon, lat) ≤ a

/-- **a cell flagged full by the elliptical descent is not centred on the transition latitude** (general ellipse
    `0 < b ≤ a`, `|lat| + a < tl`, every starting depth): either `contains_cone` accepted its centre, which is then within
    `a` of `(lon, lat)`, or it is a cell of the deepest depth whose four vertices are within `a` of `(lon, lat)` -/
theorem ell_full_not_edge (cfg : Cfg) (lon lat a b pa : ℝ) (hb : 0 < b) (hba : b ≤ a) (hA : |lat| + a < tl)
    (ds target : ℕ) (hdt : ds ≤ target) (ht : target ≤ 29) (dists : List ℝ)
    (hdists : largestC2VsWithRadius false ds (target + 1) lon lat a = some dists) (fuel root : ℕ) (out : List Cell)
    (h : coverRec target (ellClassifier (α := ℝ) cfg target (ECone.new lon lat a b pa) dists) fuel ds root 0 = some out)
    (c : Cell) (hc : c ∈ out) (hf : c.full = true) (hcd : c.depth ≤ target) (hrange : InRange c) :
    |pcy c.depth c.hash| ≠ 1 := by
  have ha0 : 0 < a := lt_of_lt_of_le hb hba
  have ha2 := lt_halfPi_of_band lat a hA
  intro hedge
  obtain ⟨l, ⟨hds, hl⟩, hrule⟩ := coverRec_full_rule_inv (fun d l => ds ≤ d ∧ l = d - ds) target _
    (fun d l ⟨h1, h2⟩ => ⟨by omega, by omega⟩) fuel ds root 0 out ⟨Nat.le_refl _, by omega⟩ h c hc hf
  rcases hrule with hk | ⟨_, hk⟩
  · obtain ⟨ctr, D, hctr, hdl, hcc⟩ := ellClassifier_full cfg target _ dists _ _ l hk
    have hD0 : 0 ≤ D := (dists_bounds ds target hdt ht lon lat a ha0.le hA dists hdists D (List.mem_of_getElem? hdl)).1
    have hsum := econe_containsCone_outer_disc lon lat a b pa ctr.1 ctr.2 D hba ha2 hD0 hcc
    rw [Prod.mk.eta, adist_comm] at hsum
    have := band_edge_not_in_cone cfg lon lat a hA c.depth c.hash (by omega) hrange hedge ctr hctr
    linarith
  · obtain ⟨_, vs, hvs, hall⟩ := ellClassifier_descend_full cfg target _ dists _ _ l hk
    refine edge_cell_vertices_not_inside cfg lon lat a hA c.depth c.hash (by omega) hrange hedge vs hvs ?_
    intro v hv
    have := List.all_eq_true.mp hall v hv
    exact econe_contains_outer_disc lon lat a b pa v.1 v.2 hb hba ha2 this

/-- **every cell emitted by the elliptical descent is good** (general ellipse `0 < b ≤ a`, `|lat| + a < tl`; nothing is
    claimed of the positions of the full cells) -/
theorem coverRec_ell_good (cfg : Cfg) (lon lat a b pa : ℝ) (hb : 0 < b) (hba : b ≤ a) (hA : |lat| + a < tl)
    (ds target : ℕ) (hdt : ds ≤ target) (ht : target ≤ 29) (dists : List ℝ)
    (hdists : largestC2VsWithRadius false ds (target + 1) lon lat a = some dists) (fuel root : ℕ) (out : List Cell)
    (h : coverRec target (ellClassifier (α := ℝ) cfg target (ECone.new lon lat a b pa) dists) fuel ds root 0 = some out)
    (c : Cell) (hc : c ∈ out) (hcd : c.depth ≤ target) (hrange : InRange c) :
    GoodCellG (fun _ => True) (fun _ => True) target c := by
  refine ⟨fun hf => ⟨?_, fun _ _ => Or.inl trivial⟩, fun hf => ?_⟩
  · exact ell_full_not_edge cfg lon lat a b pa hb hba hA ds target hdt ht dists hdists fuel root out h c hc hf hcd hrange
  · rcases coverRec_partial_depth target _ fuel ds root 0 out h c hc with h1 | h1
    · rw [hf] at h1; cases h1
    · exact h1

/-- **every cell emitted by the CIRCULAR elliptical descent (`a = b`) is good**: every position of a full cell is within
    `a` of `(lon, lat)`, except that a full cell of the deepest depth may only have its four vertices within `a` -/
theorem coverRec_ell_good_circular (cfg : Cfg) (lon lat a pa : ℝ) (ha : 0 < a) (hA : |lat| + a < tl)
    (ds target : ℕ) (hdt : ds ≤ target) (ht : target ≤ 29) (dists : List ℝ)
    (hdists : largestC2VsWithRadius false ds (target + 1) lon lat a = some dists) (fuel root : ℕ) (out : List Cell)
    (h : coverRec target (ellClassifier (α := ℝ) cfg target (ECone.new lon lat a a pa) dists) fuel ds root 0 = some out)
    (c : Cell) (hc : c ∈ out) (hcd : c.depth ≤ target) (hrange : InRange c) :
    GoodCellG (fun q => adist q (lon, lat) ≤ a) (VtxInside cfg lon lat a target) target c := by
  refine ⟨fun hf => ⟨?_, ?_⟩, fun hf => ?_⟩
  · exact ell_full_not_edge cfg lon lat a a pa ha le_rfl hA ds target hdt ht dists hdists fuel root out h c hc hf hcd hrange
  · intro q hq
    rcases econe_circular_full_inside_equatorial cfg lon lat a pa ha hA ds target hdt ht dists hdists fuel root out h c hc hf
      with h1 | ⟨h1, vs, hvs, hall⟩
    · exact Or.inl (h1 q hq)
    · refine Or.inr ⟨c.hash, by rw [h1]; simp, by rw [← h1]; exact hq, vs, by rw [← h1]; exact hvs, hall⟩
  · rcases coverRec_partial_depth target _ fuel ds root 0 out h c hc with h1 | h1
    · rw [hf] at h1; cases h1
    · exact h1

end Hpx.EConeBmoc

#print axioms Hpx.EConeBmoc.edge_cell_vertex_polar
#print axioms Hpx.EConeBmoc.econe_contains_outer_disc
#print axioms Hpx.EConeBmoc.econe_containsCone_outer_disc
#print axioms Hpx.EConeBmoc.packedG_good
#print axioms Hpx.EConeBmoc.ell_full_not_edge
#print axioms Hpx.EConeBmoc.coverRec_ell_good_circular
