import HpxVerif.Lemmas.EConeEq2

/-!
# The equatorial elliptical-cone theorems on the output of the model, branch `depth ≤ ds` (part 3)

When the requested depth is at most the starting depth `ds = best_starting_depth(a)`, `elliptical_cone_coverage_internal`
does not descend: it keeps the neighbours `e` of the cell of the centre (depth `ds`) that pass `contains ∨ overlap_cone` with
the single radius `largest_center_to_vertex_distance_with_radius(ds, lon, lat, a)` and returns their ancestors at `depth`,
all flagged partial.

* `filter_fold_spec`, `ellInternal_shallow_branch`, `keepTest`: what the model computes in that branch;
* `bestStartingDepth_le`: `ds ≤ 29`; `dists_single`, `H1_equatorial_meet_scalar`: the envelope inequality for the single radius;
* **`ellInternal_shallow_circular_no_miss_equatorial`** (`a = b`), **`ellInternal_shallow_centre_cell_kept_equatorial`**
  (`0 < b ≤ a`), `ellInternal_shallow_no_full`;
* bonus **`cone_full_inside_equatorial_gen`**: the `full`-flag theorem of the CONE descent for every starting depth
  (`CellExtent.cone_full_inside_equatorial` has `2 ≤ ds`).
-/

namespace Hpx.EConeEq
open Hpx Hpx.Hash Hpx.C2V Hpx.C2VReal Hpx.Proj Hpx.Cover Hpx.CellReal Hpx.EnvelopeReal Hpx.TopoLift Hpx.CellExtent
open Hpx.Sph Hpx.Bmoc Real

/-! ## the filter over the neighbourhood (branch `ds ≥ depth`) -/

theorem filter_fold_spec {β : Type} (g : β → Option Bool) (t : β → ℕ) : ∀ (nm : List β) (init l : List ℕ),
    nm.foldlM (fun acc en => (g en).map fun k => if k = true then acc ++ [t en] else acc) init = some l →
    (∀ x ∈ init, x ∈ l) ∧ ∀ en ∈ nm, ∃ k, g en = some k ∧ (k = true → t en ∈ l) := by
  intro nm
  induction nm with
  | nil =>
    intro init l h
    simp only [List.foldlM_nil] at h
    cases h
    exact ⟨fun x hx => hx, fun en hen => by simp at hen⟩
  | cons e es ih =>
    intro init l h
    simp only [List.foldlM_cons] at h
    cases hg : g e with
    | none => simp [hg] at h
    | some k =>
      simp only [hg, Option.map_some, Option.bind_eq_bind, Option.bind_some] at h
      obtain ⟨g1, g2⟩ := ih _ l h
      refine ⟨fun x hx => g1 x ?_, ?_⟩
      · split
        · exact List.mem_append_left _ hx
        · exact hx
      · intro en hen
        rcases List.mem_cons.mp hen with rfl | hen
        · refine ⟨k, hg, fun hk => g1 _ ?_⟩
          rw [if_pos hk]
          exact List.mem_append_right _ (List.mem_singleton.mpr rfl)
        · exact g2 en hen

theorem bestStartingDepthTree_le {α : Type} (lt : α → α → Bool) (T : ℕ → α) (r : α) :
    Gen.bestStartingDepthTree lt T r ≤ 29 := by
  unfold Gen.bestStartingDepthTree
  split_ifs <;> omega

theorem bestStartingDepth_le (a : ℝ) (ds : ℕ) (h : bestStartingDepth a = some ds) : ds ≤ 29 := by
  unfold bestStartingDepth at h
  split at h
  · simp at h
  · rw [← Option.some.inj h]; exact bestStartingDepthTree_le _ _ _

/-- the test applied to a neighbour in the branch `ds ≥ depth` -/
noncomputable def keepTest (cfg : Cfg) (e : ECone ℝ) (ds : ℕ) (dist : ℝ) (en : MW × ℕ) : Option Bool :=
  match Hash.center (α := ℝ) cfg ds en.2 with
  | none => none
  | some c => if e.contains c.1 c.2 = true then some true else e.overlapCone c.1 c.2 dist

/-- the branch `ds ≥ depth`: the output is the list of the ancestors at `depth` of the neighbours that pass the test -/
theorem ellInternal_shallow_branch (cfg : Cfg) (depth : ℕ) (lon lat a b pa : ℝ) (ha2 : a < π / 2) (hb : b < π)
    (hbest : hasBestStartingDepth a = true) (ds : ℕ) (hds : bestStartingDepth a = some ds) (hge : depth ≤ ds)
    (cells : List Cell) (h : ellInternal cfg depth lon lat a b pa = some cells) :
    ∃ h0 nm dist l, Hash.hashV2 cfg ds lon lat = some h0 ∧ Topo.neighbours cfg ds h0 true = some nm ∧
      largestC2VWithRadius cfg.debug ds lon lat a = some dist ∧
      nm.foldlM (fun acc en => (keepTest cfg (ECone.new lon lat a b pa) ds dist en).map fun k =>
        if k = true then acc ++ [en.2 >>> ((ds - depth) <<< 1)] else acc) [] = some l ∧
      cells = (dedupAdj (sortNat l)).map fun h => { depth := depth, hash := h, full := false } := by
  unfold ellInternal at h
  have e1 : Num.ge a (Num.halfPi : ℝ) = false := by rw [num_ge, num_halfPi]; simpa using ha2
  have e2 : Num.ge b (Num.pi : ℝ) = false := by rw [num_ge, num_pi]; simpa using hb
  simp only [e1, e2, hbest, hds, Bool.false_eq_true, if_false, Bool.not_true] at h
  cases hh0 : Hash.hashV2 cfg ds lon lat with
  | none => simp [hh0] at h
  | some h0 =>
    simp only [hh0, ge_iff_le, if_pos hge] at h
    cases hdl : largestC2VWithRadius cfg.debug ds lon lat a with
    | none => simp [hdl] at h
    | some dist =>
      cases hnm : Topo.neighbours cfg ds h0 true with
      | none => simp [hdl, hnm] at h
      | some nm =>
        simp only [hdl, hnm, Option.map_eq_some_iff] at h
        obtain ⟨l, hl, hcells⟩ := h
        refine ⟨h0, nm, dist, l, rfl, hnm, rfl, ?_, hcells.symm⟩
        rw [← hl]
        congr 1
        funext acc en
        unfold keepTest
        cases Hash.center (α := ℝ) cfg ds en.2 <;> rfl

theorem dists_single (ds : ℕ) (hd : ds ≤ 29) (lon lat r : ℝ) :
    largestC2VsWithRadius false ds (ds + 1) lon lat r = some [valR ds lon lat r] := by
  rw [c2vs_with_radius_agree, depthsOf_eq_range' ds _ (by omega)]
  have hall : ∀ d' ∈ List.range' ds (ds + 1 - ds),
      largestC2VWithRadius false d' lon lat r = some (valR d' lon lat r) := by
    intro d' hd'
    rw [List.mem_range'_1] at hd'
    exact valR_spec d' (by omega) lon lat r
  rw [mapM_congr' _ _ _ hall, mapM_some_eq, show ds + 1 - ds = 1 by omega]
  rfl

/-- the scalar form of `H1_equatorial_meet`: the value of `largest_center_to_vertex_distance_with_radius(ds, lon, lat, r)`
    bounds the extent of every strictly equatorial cell of depth `ds ≤ 29` that contains a position of the cone -/
theorem H1_equatorial_meet_scalar (cfg : Cfg) (lon lat r : ℝ) (hA : |lat| + r < tl) (ds : ℕ) (hd : ds ≤ 29)
    (h : ℕ) (c q q' : ℝ × ℝ) (hc : Hash.center (α := ℝ) cfg ds h = some c) (hq : InCellEq ds h q)
    (hq' : InCellEq ds h q') (hcone : adist (lon, lat) q' ≤ r) : adist c q ≤ valR ds lon lat r :=
  H1_equatorial_meet cfg lon lat r hA ds ds le_rfl hd _ (dists_single ds hd lon lat r) ds h c _ q q' le_rfl hc
    (by simp) hq hq' hcone

theorem keepTest_false (cfg : Cfg) (e : ECone ℝ) (ds : ℕ) (dist : ℝ) (en : MW × ℕ)
    (h : keepTest cfg e ds dist en = some false) :
    ∃ c, Hash.center (α := ℝ) cfg ds en.2 = some c ∧ e.contains c.1 c.2 = false ∧ e.overlapCone c.1 c.2 dist = some false := by
  unfold keepTest at h
  cases hc : Hash.center (α := ℝ) cfg ds en.2 with
  | none => simp [hc] at h
  | some c =>
    simp only [hc] at h
    by_cases hin : e.contains c.1 c.2 = true
    · simp [hin] at h
    · rw [if_neg hin] at h
      exact ⟨c, rfl, by simpa using hin, h⟩

/-! ## the statements on the output of the model, branch `depth ≤ ds` (no descent: the neighbours of the cell of the centre at
    depth `ds = best_starting_depth(a)` are filtered and degraded to `depth`) -/

/-- **no miss, branch `depth ≤ ds`** (ℝ, release profile): circular ellipse `a = b`, `0 < a`, `|lat| + a < tl`,
    `sin a > 2^-1024`.  If `elliptical_cone_coverage_internal` returns `cells`, every strictly equatorial cell `e` of the
    neighbourhood (depth `ds`) that contains a position `q` of the disc has its ancestor at `depth` in `cells`. -/
theorem ellInternal_shallow_circular_no_miss_equatorial (cfg : Cfg) (hcfg : cfg.debug = false) (depth : ℕ)
    (lon lat a pa : ℝ) (ha : 0 < a) (hA : |lat| + a < tl) (hmin : 1 / 2 ^ 1024 < sin a) (ds : ℕ)
    (hds : bestStartingDepth a = some ds) (hge : depth ≤ ds) (cells : List Cell)
    (h : ellInternal cfg depth lon lat a a pa = some cells) :
    ∃ h0 nm, Hash.hashV2 cfg ds lon lat = some h0 ∧ Topo.neighbours cfg ds h0 true = some nm ∧
      ∀ e ∈ nm.map (·.2), ∀ q, InCellEq ds e q → adist q (lon, lat) ≤ a →
        ({ depth := depth, hash := e >>> ((ds - depth) <<< 1), full := false } : Cell) ∈ cells := by
  have ha2 := lt_halfPi_of_band lat a hA
  have hpi := Real.pi_gt_three
  have hd29 := bestStartingDepth_le a ds hds
  obtain ⟨h0, nm, dist, l, hh0, hnm, hdist, hfold, rfl⟩ := ellInternal_shallow_branch cfg depth lon lat a a pa ha2
    (by linarith) (band_has_start_depth lat a hA).1 ds hds hge cells h
  rw [hcfg, valR_spec ds hd29] at hdist
  cases Option.some.inj hdist
  refine ⟨h0, nm, hh0, hnm, ?_⟩
  intro e he q hq hin
  obtain ⟨en, hen, rfl⟩ := List.mem_map.mp he
  obtain ⟨_, g2⟩ := filter_fold_spec _ _ _ _ _ hfold
  obtain ⟨k, hk, hkl⟩ := g2 en hen
  have hktrue : k = true := by
    cases k with
    | true => rfl
    | false =>
      exfalso
      obtain ⟨c, hc, hnc, hov⟩ := keepTest_false _ _ _ _ _ hk
      have hD2 := valR_le ds lon lat a ha.le hA
      have hlt := Sph.circular_skip_sound lon lat a pa c.1 c.2 _ ⟨ha, ha2⟩ hmin (by linarith) (by linarith [tl_le, abs_nonneg lat])
        hnc hov
      rw [Prod.mk.eta] at hlt
      have hle := H1_equatorial_meet_scalar cfg lon lat a hA ds hd29 en.2 c q q hc hq hq (by rw [adist_comm]; exact hin)
      have htri := adist_triangle c q (lon, lat)
      linarith
  exact List.mem_map.mpr ⟨_, (Hpx.Sph.mem_dedup_sort _ _).mpr (hkl hktrue), rfl⟩

/-- **the cell of the centre is kept, branch `depth ≤ ds`**: general ellipse `0 < b ≤ a`, `|lat| + a < tl`,
    `sin b > 2^-1024`: every strictly equatorial cell `e` of the neighbourhood that contains the centre `(lon, lat)` has its
    ancestor at `depth` in `cells`. -/
theorem ellInternal_shallow_centre_cell_kept_equatorial (cfg : Cfg) (hcfg : cfg.debug = false) (depth : ℕ)
    (lon lat a b pa : ℝ) (hb : 0 < b) (hba : b ≤ a) (hA : |lat| + a < tl) (hmin : 1 / 2 ^ 1024 < sin b) (ds : ℕ)
    (hds : bestStartingDepth a = some ds) (hge : depth ≤ ds) (cells : List Cell)
    (h : ellInternal cfg depth lon lat a b pa = some cells) :
    ∃ h0 nm, Hash.hashV2 cfg ds lon lat = some h0 ∧ Topo.neighbours cfg ds h0 true = some nm ∧
      ∀ e ∈ nm.map (·.2), InCellEq ds e (lon, lat) →
        ({ depth := depth, hash := e >>> ((ds - depth) <<< 1), full := false } : Cell) ∈ cells := by
  have ha0 : 0 < a := lt_of_lt_of_le hb hba
  have ha2 := lt_halfPi_of_band lat a hA
  have hpi := Real.pi_gt_three
  have hd29 := bestStartingDepth_le a ds hds
  obtain ⟨h0, nm, dist, l, hh0, hnm, hdist, hfold, rfl⟩ := ellInternal_shallow_branch cfg depth lon lat a b pa ha2
    (by linarith) (band_has_start_depth lat a hA).1 ds hds hge cells h
  rw [hcfg, valR_spec ds hd29] at hdist
  cases Option.some.inj hdist
  refine ⟨h0, nm, hh0, hnm, ?_⟩
  intro e he hq
  obtain ⟨en, hen, rfl⟩ := List.mem_map.mp he
  obtain ⟨_, g2⟩ := filter_fold_spec _ _ _ _ _ hfold
  obtain ⟨k, hk, hkl⟩ := g2 en hen
  have hktrue : k = true := by
    cases k with
    | true => rfl
    | false =>
      exfalso
      obtain ⟨c, hc, hnc, hov⟩ := keepTest_false _ _ _ _ _ hk
      have hD2 := valR_le ds lon lat a ha0.le hA
      have hlt := centre_skip_sound lon lat a b pa c.1 c.2 _ hb hba ha2 hmin (by linarith) hnc hov
      rw [Prod.mk.eta] at hlt
      have hle := H1_equatorial_meet_scalar cfg lon lat a hA ds hd29 en.2 c (lon, lat) (lon, lat) hc hq hq
        (by rw [adist_self]; exact ha0.le)
      linarith
  exact List.mem_map.mpr ⟨_, (Hpx.Sph.mem_dedup_sort _ _).mpr (hkl hktrue), rfl⟩

/-- in the branch `depth ≤ ds` no cell is flagged full: the `full`-flag statement is void there -/
theorem ellInternal_shallow_no_full (cfg : Cfg) (depth : ℕ) (lon lat a b pa : ℝ) (hb : b < π) (hA : |lat| + a < tl) (ds : ℕ)
    (hds : bestStartingDepth a = some ds) (hge : depth ≤ ds) (cells : List Cell)
    (h : ellInternal cfg depth lon lat a b pa = some cells) : ∀ c ∈ cells, c.full = false ∧ c.depth = depth := by
  obtain ⟨h0, nm, dist, l, hh0, hnm, hdist, hfold, rfl⟩ := ellInternal_shallow_branch cfg depth lon lat a b pa
    (lt_halfPi_of_band lat a hA) hb (band_has_start_depth lat a hA).1 ds hds hge cells h
  intro c hc
  obtain ⟨_, _, rfl⟩ := List.mem_map.mp hc
  exact ⟨rfl, rfl⟩

/-- the branch `depth ≤ ds` on the concrete ellipse `lon = 1`, `lat = 0.2`, `a = b = 0.05` (`ds = 3`), target depth 2 -/
example (cfg : Cfg) (hcfg : cfg.debug = false) (pa : ℝ) (cells : List Cell)
    (h : ellInternal cfg 2 (1 : ℝ) (1 / 5) (1 / 20) (1 / 20) pa = some cells) :
    ∃ h0 nm, Hash.hashV2 cfg 3 (1 : ℝ) (1 / 5) = some h0 ∧ Topo.neighbours cfg 3 h0 true = some nm ∧
      ∀ e ∈ nm.map (·.2), ∀ q, InCellEq 3 e q → adist q (1, 1 / 5) ≤ 1 / 20 →
        ({ depth := 2, hash := e >>> ((3 - 2) <<< 1), full := false } : Cell) ∈ cells := by
  obtain ⟨h1, h2, h3⟩ := ex_hyps
  exact ellInternal_shallow_circular_no_miss_equatorial cfg hcfg 2 1 (1 / 5) (1 / 20) pa h1 h2 h3 3 best_starting_depth_ex
    (by decide) cells h

/-! ## bonus: the `full` flags of the CONE descent, every starting depth

`CellExtent.cone_full_inside_equatorial` needs `2 ≤ ds` because it uses `H1_equatorial` for every cell.  A `full` verdict of the
cone classifier puts the centre of the cell inside the cone, so `H1_equatorial_meet` applies and the restriction goes. -/

/-- **`cone_full_inside_equatorial_gen`** (ℝ, release profile): `CellExtent.cone_full_inside_equatorial` for EVERY starting
    depth `ds ≤ target ≤ 29` -/
theorem cone_full_inside_equatorial_gen (cfg : Cfg) (lon lat r : ℝ) (hA : |lat| + r < tl) (ds target : ℕ)
    (hdt : ds ≤ target) (ht : target ≤ 29) (dists : List ℝ)
    (hdists : largestC2VsWithRadius false ds (target + 1) lon lat r = some dists) (fuel root : ℕ)
    (out : List Cell)
    (h : coverRec target (coneClassifier (α := ℝ) cfg lon lat (Num.cos lat) (dists.map (toShsMinMax r))) fuel ds root 0
      = some out)
    (c : Cell) (hc : c ∈ out) (hf : c.full = true) (q : ℝ × ℝ) (hq : InCellEq c.depth c.hash q) :
    adist (lon, lat) q < r := by
  have hrpi : r ≤ π := by
    have := tl_le
    have := Real.pi_gt_three
    have := abs_nonneg lat
    linarith
  obtain ⟨l, ⟨hds, hl⟩, hrule⟩ := coverRec_full_rule_inv (fun d l => ds ≤ d ∧ l = d - ds) target _
    (fun d l ⟨h1, h2⟩ => ⟨by omega, by omega⟩) fuel ds root 0 out ⟨Nat.le_refl _, by omega⟩ h c hc hf
  rcases hrule with hk | ⟨_, hk⟩
  · obtain ⟨ctr, m, hctr, hm, hmin⟩ := coneClassifier_full cfg lon lat _ _ _ _ l hk
    rw [List.getElem?_map] at hm
    cases hdl : dists[l]? with
    | none => simp [hdl] at hm
    | some D =>
      simp only [hdl, Option.map_some, Option.some.injEq] at hm
      subst hm
      have hD0 : 0 ≤ D := dists_nonneg_gen ds target hdt ht lon lat r hA dists hdists D (List.mem_of_getElem? hdl)
      have hctr_in : adist (lon, lat) ctr < r :=
        cone_full_sound lon lat r D ctr hrpi hD0 hmin ctr (by rw [adist_self]; exact hD0)
      obtain ⟨c', hc', hcin⟩ := center_inCellEq cfg c.depth c.hash hq.1 hq.2.1 hq.2.2.1
      rw [hctr] at hc'
      rw [← Option.some.inj hc'] at hcin
      exact cone_full_sound lon lat r D ctr hrpi hD0 hmin q
        (H1_equatorial_meet cfg lon lat r hA ds target hdt ht dists hdists c.depth c.hash ctr D q ctr hds hctr
          (by rw [← hl]; exact hdl) hq hcin hctr_in.le)
  · exact absurd (coneClassifier_descend cfg lon lat _ _ _ _ l true hk) (by simp)

end Hpx.EConeEq

#print axioms Hpx.EConeEq.cone_full_inside_equatorial_gen
#print axioms Hpx.EConeEq.ellInternal_shallow_circular_no_miss_equatorial
#print axioms Hpx.EConeEq.ellInternal_shallow_centre_cell_kept_equatorial
#print axioms Hpx.EConeEq.ellInternal_shallow_no_full
