/-
C12, T2: what the four tested vertices of a "fully covered" cell say about the REST of the cell.

1. The CENTRE (which the code does not test).  For a strictly equatorial cell the south vertex, the centre and the north vertex
   are on one meridian: the centre is on the great-circle arc S–N, hence inside every (geodesically) convex region that contains
   S and N.  So for convex polygons "its four vertices inside" implies "its centre inside" in the equatorial region
   (`centre_inside_of_SN_inside`, `full_cells_centre_inside_convex`).  In the polar caps S, C, N are not on one meridian;
   there the centre is inside the geodesic triangle W E S (north) / W E N (south): `PolyCompose5.lean` (caps),
   `PolyCompose6.lean` (transition rings, and the statement for every cell: `centre_inside_of_vertices_inside`).
2. EVERY point of the cell: NO.  The sides of a cell are not great-circle arcs; in the northern hemisphere the two SOUTHERN sides
   (S–E, S–W) of an equatorial cell bulge out of the geodesic quadrilateral S E N W (in the southern hemisphere the two northern
   sides do).  A convex polygon edge can pass between the chord and the bulge: all four vertices strictly inside, flag "full",
   and a point of the cell side strictly outside.  `PolyCompose4.lean` gives such a polygon for the cell 23 of depth 1
   (bulge: 0.47°), proved over ℝ.
-/
import HpxVerif.Lemmas.PolyCompose
import HpxVerif.Lemmas.CellExtent3

set_option autoImplicit false

namespace Hpx.PolyCompose
open Hpx Hpx.Cover Hpx.Bmoc Hpx.Sph Real Hpx.Proj Hpx.CellReal Hpx.EnvelopeReal Hpx.TopoLift

/-! ## 1. the centre of an equatorial cell lies on the meridian arc from its south vertex to its north vertex -/

/-- a positive combination of two points strictly inside all the half-spaces is strictly inside -/
theorem insideAll_combo (o : ℝ) (vs : List (Coo ℝ)) (p u w : Coo ℝ) (a b : ℝ) (ha : 0 < a) (hb : 0 < b)
    (hx : p.x = a * u.x + b * w.x) (hy : p.y = a * u.y + b * w.y) (hz : p.z = a * u.z + b * w.z)
    (hu : InsideAll o vs u) (hw : InsideAll o vs w) : InsideAll o vs p := by
  intro e he
  have e1 : o * dot p (cross e.1 e.2) = a * (o * dot u (cross e.1 e.2)) + b * (o * dot w (cross e.1 e.2)) := by
    unfold dot; rw [hx, hy, hz]; ring
  rw [e1]
  have := hu e he
  have := hw e he
  positivity

/-- three positions on one meridian, latitudes `φs < φc < φn` less than `π` apart: the middle one is a positive combination
    of the two others (it is on the shorter great-circle arc that joins them) -/
theorem meridian_combo (l φs φc φn : ℝ) (h2 : φs < φc) (h3 : φc < φn) (h4 : φn - φs < π) :
    ∃ a b : ℝ, 0 < a ∧ 0 < b ∧
      (cooOf (l, φc)).x = a * (cooOf (l, φs)).x + b * (cooOf (l, φn)).x ∧
      (cooOf (l, φc)).y = a * (cooOf (l, φs)).y + b * (cooOf (l, φn)).y ∧
      (cooOf (l, φc)).z = a * (cooOf (l, φs)).z + b * (cooOf (l, φn)).z := by
  have hD : 0 < sin (φn - φs) := sin_pos_of_pos_of_lt_pi (by linarith) h4
  have hA : 0 < sin (φn - φc) := sin_pos_of_pos_of_lt_pi (by linarith) (by linarith)
  have hB : 0 < sin (φc - φs) := sin_pos_of_pos_of_lt_pi (by linarith) (by linarith)
  have ec : sin (φn - φs) * cos φc = sin (φn - φc) * cos φs + sin (φc - φs) * cos φn := by
    rw [sin_sub, sin_sub, sin_sub]
    have := sin_sq_add_cos_sq φc
    nlinarith [this]
  have es : sin (φn - φs) * sin φc = sin (φn - φc) * sin φs + sin (φc - φs) * sin φn := by
    rw [sin_sub, sin_sub, sin_sub]
    have := sin_sq_add_cos_sq φc
    nlinarith [this]
  refine ⟨sin (φn - φc) / sin (φn - φs), sin (φc - φs) / sin (φn - φs), div_pos hA hD, div_pos hB hD, ?_, ?_, ?_⟩
  · show cos φc * cos l = _ * (cos φs * cos l) + _ * (cos φn * cos l)
    field_simp
    linear_combination (cos l) * ec
  · show cos φc * sin l = _ * (cos φs * sin l) + _ * (cos φn * sin l)
    field_simp
    linear_combination (sin l) * ec
  · show sin φc = _ * sin φs + _ * sin φn
    field_simp
    linear_combination es


/-- `unproj` in the equatorial band, as a value of `unprojT` -/
theorem unprojT_band (x y : ℝ) (hx0 : 0 ≤ x) (hx8 : x < 8) (hy : |y| ≤ 1) :
    unprojT x y = (x * (π / 4), Real.arcsin (y * (2 / 3))) := by
  have h1 := unproj_band x y hx0 hx8.le hy
  rw [unproj_eq x y (by linarith [(abs_le.mp hy).1]) (by linarith [(abs_le.mp hy).2]), if_pos hx8] at h1
  exact Option.some.inj h1

/-- `vertices` succeeds only on a cell number of the depth (every numeric instance) -/
theorem vertices_some_lt {α : Type} [Num α] (cfg : Cfg) (d h : Nat) (vs : List (α × α))
    (hv : Hash.vertices (α := α) cfg d h = some vs) : h < Layer.nHash d := by
  unfold Hash.vertices Hash.centerOfProjectedCell at hv
  by_contra hc
  have : h ≥ Layer.nHash d := by omega
  simp [this] at hv

/-- **positions of the S and N vertices and of the centre of a strictly equatorial cell** (`|cellCy| < 1`, every depth
    `≤ 29`, every cell number): `vertices` and `center` succeed; the south vertex, the centre and the north vertex have the
    SAME longitude and increasing latitudes `arcsin(2(cy − 1/n)/3) < arcsin(2cy/3) < arcsin(2(cy + 1/n)/3)`, all in the
    closed equatorial band -/
theorem eq_cell_meridian (cfg : Cfg) (d h : ℕ) (hd : d ≤ 29) (hh : h < 12 * 4 ^ d)
    (hband : |cellCy d (partsOf d h).d0h (partsOf d h).i (partsOf d h).j| < 1) :
    ∃ (s e n w c : ℝ × ℝ), Hash.vertices (α := ℝ) cfg d h = some [s, e, n, w] ∧ Hash.center (α := ℝ) cfg d h = some c ∧
      s.1 = c.1 ∧ n.1 = c.1 ∧ s.2 < c.2 ∧ c.2 < n.2 ∧ -(π / 2) < s.2 ∧ n.2 < π / 2 := by
  obtain ⟨hb, hi, hj⟩ := partsOf_valid d h hh
  have hdec := decodeHash_spec cfg d hd h hh
  have hh' : h < Layer.nHash d := by rw [TopoLift.nHash_eq]; exact hh
  set b := (partsOf d h).d0h
  set i := (partsOf d h).i
  set j := (partsOf d h).j
  obtain ⟨n0, n8⟩ := norm8_center_range d b i j hb hi hj
  have ho : 0 < 1 / (2 : ℝ) ^ d := by positivity
  have hy := cellCy_band d b i j hband
  obtain ⟨y1, y2⟩ := abs_le.mp (show |cellCy d b i j| ≤ 1 - 1 / 2 ^ d by linarith)
  have hv := vertices_plane cfg d h b i j hh' hdec hb hi hj
  have hc := center_plane cfg d h b i j hh' hdec hb hi hj
  have x8 : norm8 (cellCx d b i j) < 8 := by linarith
  have v0 : vtx d b i j 0 = (norm8 (cellCx d b i j), cellCy d b i j - 1 / 2 ^ d) := rfl
  have v2 : vtx d b i j 2 = (norm8 (cellCx d b i j), cellCy d b i j + 1 / 2 ^ d) := rfl
  rw [v0, v2] at hv
  have eS : unprojT (norm8 (cellCx d b i j)) (cellCy d b i j - 1 / 2 ^ d) =
      (norm8 (cellCx d b i j) * (π / 4), Real.arcsin ((cellCy d b i j - 1 / 2 ^ d) * (2 / 3))) :=
    unprojT_band _ _ n0 x8 (abs_le.mpr ⟨by linarith, by linarith⟩)
  have eN : unprojT (norm8 (cellCx d b i j)) (cellCy d b i j + 1 / 2 ^ d) =
      (norm8 (cellCx d b i j) * (π / 4), Real.arcsin ((cellCy d b i j + 1 / 2 ^ d) * (2 / 3))) :=
    unprojT_band _ _ n0 x8 (abs_le.mpr ⟨by linarith, by linarith⟩)
  have eC : unprojT (norm8 (cellCx d b i j)) (cellCy d b i j) =
      (norm8 (cellCx d b i j) * (π / 4), Real.arcsin (cellCy d b i j * (2 / 3))) :=
    unprojT_band _ _ n0 x8 (abs_le.mpr ⟨by linarith, by linarith⟩)
  simp only [eS, eN] at hv
  rw [eC] at hc
  refine ⟨_, _, _, _, _, hv, hc, rfl, rfl, ?_, ?_, ?_, ?_⟩
  · exact Real.arcsin_lt_arcsin (by linarith) (by linarith) (by linarith)
  · exact Real.arcsin_lt_arcsin (by linarith) (by linarith) (by linarith)
  · exact Real.neg_pi_div_two_lt_arcsin.mpr (by linarith)
  · exact Real.arcsin_lt_pi_div_two.mpr (by linarith)

/-- **T2, the centre (equatorial cells).**  For a strictly equatorial cell the centre is on the meridian arc from the south
    vertex to the north vertex, which is a great-circle arc shorter than `π`: whatever the polygon (any vertex list `vs`, any
    winding `o`), if the south and the north vertex are strictly inside all the edge half-spaces, so is the centre. -/
theorem centre_inside_of_SN_inside (cfg : Cfg) (d h : ℕ) (hd : d ≤ 29) (hh : h < 12 * 4 ^ d)
    (hband : |cellCy d (partsOf d h).d0h (partsOf d h).i (partsOf d h).j| < 1) :
    ∃ (s e n w c : ℝ × ℝ), Hash.vertices (α := ℝ) cfg d h = some [s, e, n, w] ∧ Hash.center (α := ℝ) cfg d h = some c ∧
      ∀ (o : ℝ) (vs : List (Coo ℝ)), InsideAll o vs (cooOf s) → InsideAll o vs (cooOf n) → InsideAll o vs (cooOf c) := by
  obtain ⟨s, e, n, w, c, hv, hc, e1, e2, l1, l2, b1, b2⟩ := eq_cell_meridian cfg d h hd hh hband
  refine ⟨s, e, n, w, c, hv, hc, ?_⟩
  intro o vs hs hn
  obtain ⟨a, b, ha, hb, hx, hy, hz⟩ := meridian_combo c.1 s.2 c.2 n.2 l1 l2 (by linarith)
  have es : s = (c.1, s.2) := by rw [← e1]
  have en : n = (c.1, n.2) := by rw [← e2]
  rw [es] at hs; rw [en] at hn
  exact insideAll_combo o vs (cooOf c) _ _ a b ha hb hx hy hz hs hn


/-- **T1 + the centre**: under the hypotheses of `full_cells_inside_convex`, for every cell flagged full that is strictly
    equatorial (`|cellCy| < 1` for its parts `partsOf c.depth c.hash`): `center(c.depth, c.hash)` succeeds and, if the south
    and north vertices are not on the boundary of the polygon, the centre is strictly inside all the edge half-spaces —
    although the code never tests it. -/
theorem full_cells_centre_inside_convex (cfg : Cfg) (depth : Nat) (lls : List (ℝ × ℝ)) (exact : Bool) (b : BMOC)
    (hr : ∀ ll ∈ lls, 0 ≤ ll.1 ∧ ll.1 < 2 * π ∧ -(π / 2) ≤ ll.2 ∧ ll.2 ≤ π / 2)
    (o : ℝ) (hcv : ConvexNoPole o (lls.map cooOf))
    (h : polygonCoverage cfg depth lls exact = some b) :
    ∃ cells : List Cell, b = { dmax := depth, entries := cells.map (encode depth) } ∧
      ∀ c ∈ cells, c.full = true →
        |cellCy c.depth (partsOf c.depth c.hash).d0h (partsOf c.depth c.hash).i (partsOf c.depth c.hash).j| < 1 →
        ∃ s e n w ctr : ℝ × ℝ, Hash.vertices (α := ℝ) cfg c.depth c.hash = some [s, e, n, w] ∧
          Hash.center (α := ℝ) cfg c.depth c.hash = some ctr ∧
          (OffBoundary o (lls.map cooOf) (cooOf s) → OffBoundary o (lls.map cooOf) (cooOf n) →
            InsideAll o (lls.map cooOf) (cooOf ctr)) := by
  obtain ⟨hd, _, _, _, cells, _, _, _, _, hb, hcells⟩ := full_cells_inside_convex cfg depth lls exact b hr o hcv h
  refine ⟨cells, hb, ?_⟩
  intro c hc hfull hband
  obtain ⟨hcd, _, s, e, n, w, hv, hin⟩ := hcells c hc hfull
  have hlt : c.hash < 12 * 4 ^ c.depth := by
    have := vertices_some_lt cfg c.depth c.hash _ hv
    rwa [TopoLift.nHash_eq] at this
  obtain ⟨s', e', n', w', ctr, hv', hctr, hcomb⟩ := centre_inside_of_SN_inside cfg c.depth c.hash (by omega) hlt hband
  rw [hv] at hv'
  have hl := Option.some.inj hv'
  simp only [List.cons.injEq, and_true] at hl
  obtain ⟨rfl, rfl, rfl, rfl⟩ := hl
  refine ⟨s, e, n, w, ctr, hv, hctr, ?_⟩
  intro hs hn
  exact hcomb o _ (hin s (by simp) hs) (hin n (by simp) hn)

/-- the hypotheses of `centre_inside_of_SN_inside` are satisfiable: depth 2, cell 77 = base cell 4, `(i, j) = (3, 2)`,
    centre ordinate `1/2` -/
example : ∃ (s e n w c : ℝ × ℝ), Hash.vertices (α := ℝ) {} 2 77 = some [s, e, n, w] ∧ Hash.center (α := ℝ) {} 2 77 = some c ∧
    ∀ (o : ℝ) (vs : List (Coo ℝ)), InsideAll o vs (cooOf s) → InsideAll o vs (cooOf n) → InsideAll o vs (cooOf c) :=
  centre_inside_of_SN_inside {} 2 77 (by decide) (by decide) (by
    rw [show partsOf 2 77 = ⟨4, 3, 2⟩ by decide]; unfold cellCy baseY; norm_num [abs_lt])

#print axioms Hpx.PolyCompose.centre_inside_of_SN_inside
#print axioms Hpx.PolyCompose.full_cells_centre_inside_convex

end Hpx.PolyCompose
