import HpxVerif.Lemmas.EnvelopePolar7
import HpxVerif.Lemmas.CellExtent4

/-!
# C06 (tightness clause), part 1 — the cell-size helper never exceeds twice a TRUE centre-to-vertex distance of the depth

`Mtrue d = dE (1/2^d) 0 = π/4 · 1/2^d` is the angular distance from the centre to the east (and west) vertex of the cells of
depth `d` centred on the equator (`Mtrue_is_true_c2v`: the explicit cell `eqCell d` = base cell 4, `(i, j) = (nside − 1, 0)`,
every depth `0 … 29`; it is the largest of its four centre-to-vertex distances).

The three envelopes of `ConstantsC2V::new(d)` (`δ = 1/2^d`):
* lower equatorial parabola: `botEnv x ≤ botEnv 0 = 4/π·δ` everywhere (`botEnv_le`), and `4/π·δ ≤ 2·(π/4·δ)` (`8 ≤ π²`);
* upper equatorial line: decreasing, `topEnv x ≤ topEnv lsc = 4/π·δ·cos(lsc) < 4/π·δ` for `x ≥ lsc` (`topEnv_le`);
* polar-cap line: increasing, `npcEnv l ≤ npcEnv (π/4) = dMinP + (dMaxP − dMinP)/(1 − δ) ≤ 3/2·δ < π/2·δ` for a folded
  longitude `l ≤ π/4` (`npcEnv_le`; `dMaxP_le_half`: `dMaxP δ ≤ 1.1·δ` up to `δ = 1/2`, `dMinP_ge_lin`: `dMinP δ ≥ 0.81·δ`).

Main results: **`envelope_le_twice_true`** (`largestC2V`, folded longitude in `[0, π/4]`, i.e. every `lon ≥ 0`; the
negative longitudes are in `Tightness4.lean`: `envelope_le_twice_true_all`), **`envelope_with_radius_le_twice_true`**
(`largestC2VWithRadius`, every position, `0 ≤ r`), depth 0 included (`π/2 − tl ≤ π/2`); **`Mtrue_is_true_c2v`**.
-/

namespace Hpx.Tightness
open Hpx Hpx.Hash Hpx.Proj Hpx.Cover Hpx.C2V Hpx.C2VReal Hpx.EnvelopeReal Hpx.EnvelopePolar Hpx.CellReal Hpx.TopoLift
  Hpx.CellExtent Real

/-- the true centre → east vertex distance of a cell of depth `d` centred on the equator -/
noncomputable def Mtrue (d : ℕ) : ℝ := dE (1 / 2 ^ d) 0

theorem Mtrue_eq (d : ℕ) : Mtrue d = π / 4 * (1 / 2 ^ d) := by
  obtain ⟨h0, h1⟩ := distCw_range d
  unfold Mtrue
  rw [dE_equator _ h0.le h1]; ring

theorem Mtrue_pos (d : ℕ) : 0 < Mtrue d := by
  rw [Mtrue_eq]; have := Real.pi_pos; positivity

/-! ## `dMaxP δ ≤ 1.1·δ` up to `δ = 1/2` (depth 1 included) -/

theorem dMaxP_le_half (δ : ℝ) (h0 : 0 < δ) (h1 : δ ≤ 1 / 2) : dMaxP δ ≤ 11 / 10 * δ := by
  have hpi := Real.pi_gt_three
  by_contra hcon
  rw [not_le] at hcon
  have hM : cos (dMaxP δ) < cos (11 / 10 * δ) :=
    Real.cos_lt_cos_of_nonneg_of_le_pi (by positivity : 0 ≤ 11 / 10 * δ) (gcDist_le_pi _ _ _) hcon
  have hb := Real.cos_bound (x := 11 / 10 * δ) (by rw [abs_of_pos (by positivity)]; linarith)
  rw [abs_of_pos (by positivity : 0 < 11 / 10 * δ)] at hb
  have hb2 := (abs_le.mp hb).2
  obtain ⟨c1, c2⟩ := C0_bounds δ h0.le (by linarith)
  have ha := Real.one_sub_sq_div_two_le_cos (x := dMinP δ)
  have hx := Real.one_sub_sq_div_two_le_cos (x := π / 4 * δ)
  have ha2 := dMinP_sq_le δ h0.le (by linarith)
  have hC0 : 0 ≤ cos tl * cos (capLat (1 + δ)) := by nlinarith
  have hcos := cos_dMaxP δ
  have hx2 : (π / 4 * δ) ^ 2 = π ^ 2 * δ ^ 2 / 16 := by ring
  have hps := pi_sq_le
  have hδ2 : 0 < δ ^ 2 := by positivity
  have hδ2' : δ ^ 2 ≤ 1 / 4 := by nlinarith
  have h1c : 0 ≤ 1 - cos (π / 4 * δ) := by linarith [Real.cos_le_one (π / 4 * δ)]
  have hterm : cos tl * cos (capLat (1 + δ)) * (1 - cos (π / 4 * δ)) ≤ 5 / 9 * ((π / 4 * δ) ^ 2 / 2) :=
    mul_le_mul c2 (by linarith) h1c (by norm_num)
  have hxx : (π / 4 * δ) ^ 2 ≤ 99225 / 160000 * δ ^ 2 := by
    rw [hx2]; nlinarith
  have hδ4 : δ ^ 4 ≤ δ ^ 2 / 4 := by nlinarith
  have e4 : (11 / 10 * δ) ^ 4 = 14641 / 10000 * δ ^ 4 := by ring
  have e2 : (11 / 10 * δ) ^ 2 = 121 / 100 * δ ^ 2 := by ring
  rw [e4, e2] at hb2
  linarith

/-- `dMinP δ ≥ 0.81·δ` -/
theorem dMinP_ge_lin (δ : ℝ) (h0 : 0 ≤ δ) (h1 : δ ≤ 1) : 81 / 100 * δ ≤ dMinP δ := by
  have hge := dMinP_sq_ge δ h0 h1
  have hn := dMinP_nonneg δ h0
  apply le_of_sq_le_sq _ hn
  have : dMinP δ ^ 2 * (6 - (1 - δ) ^ 2) ≤ dMinP δ ^ 2 * 6 :=
    mul_le_mul_of_nonneg_left (by nlinarith [sq_nonneg (1 - δ)]) (by positivity)
  nlinarith [sq_nonneg δ]

/-- the polar-cap envelope at the end `π/4` of the folded-longitude range: `dMinP + (dMaxP − dMinP)/(1 − δ)` -/
theorem npcEnv_pi4 (d : ℕ) (hd : 1 ≤ d) :
    npcEnv (Csts.new d) (π / 4) = dMinP (1 / 2 ^ d) + (dMaxP (1 / 2 ^ d) - dMinP (1 / 2 ^ d)) / (1 - 1 / 2 ^ d) := by
  obtain ⟨h0, h1⟩ := half_pow_range d hd
  have hpi := Real.pi_pos
  unfold npcEnv
  rw [new_slopeNpc_eq, new_interceptNpc_eq]
  have : (1 : ℝ) - 1 / 2 ^ d ≠ 0 := by linarith
  field_simp
  ring

theorem npcEnv_pi4_le (d : ℕ) (hd : 1 ≤ d) : npcEnv (Csts.new d) (π / 4) ≤ 3 / 2 * (1 / 2 ^ d) := by
  obtain ⟨h0, h1⟩ := half_pow_range d hd
  have hgap := dMinP_lt_dMaxP d hd
  rw [npcEnv_pi4 d hd]
  generalize (1 : ℝ) / 2 ^ d = δ at *
  have hM := dMaxP_le_half δ h0 h1
  have ha := dMinP_ge_lin δ h0.le (by linarith)
  have h2 : (dMaxP δ - dMinP δ) / (1 - δ) ≤ 2 * (dMaxP δ - dMinP δ) := by
    rw [div_le_iff₀ (by linarith)]; nlinarith
  linarith

/-! ## the three envelopes are below `2·Mtrue` on their ranges -/

/-- `4/π ≤ π/2`, i.e. the equator value `dMax3 δ = 4/π·δ` of the envelope is at most `2·(π/4·δ)` (ratio `8/π² ≈ 0.81`) -/
theorem dMax3_le_twice (d : ℕ) : dMax3 (1 / 2 ^ d) ≤ 2 * Mtrue d := by
  obtain ⟨h0, _⟩ := distCw_range d
  have hpi := Real.pi_gt_three
  rw [Mtrue_eq]
  unfold dMax3
  have : 4 / π ≤ 2 * (π / 4) := by
    rw [div_le_iff₀ (by linarith)]; nlinarith
  nlinarith

/-- the parabola (lower equatorial region) is below its value on the equator, everywhere -/
theorem botEnv_le (d : ℕ) (x : ℝ) : botEnv (Csts.new d : Csts ℝ) x ≤ dMax3 (1 / 2 ^ d) := by
  have := new_coeffX2Eqr_neg d
  unfold botEnv
  rw [new_coeffCstEqr_eq]
  nlinarith [mul_self_nonneg x]

/-- the line (upper equatorial region) is below its value at `lsc`, which is below the equator value, for `x ≥ lsc` -/
theorem topEnv_le (d : ℕ) (x : ℝ) (hx : lsc ≤ x) : topEnv (Csts.new d : Csts ℝ) x ≤ dMax3 (1 / 2 ^ d) := by
  obtain ⟨h0, _⟩ := distCw_range d
  have hpi := Real.pi_pos
  have hs := new_slopeEqr_neg d
  have h1 : topEnv (Csts.new d : Csts ℝ) x ≤ topEnv (Csts.new d : Csts ℝ) lsc := by
    unfold topEnv; nlinarith
  rw [new_topEnv_lsc] at h1
  have h2 : dMin2 (1 / 2 ^ d) ≤ dMax3 (1 / 2 ^ d) := by
    unfold dMin2 dMax3
    have := cosLsc_lt_one
    have : 0 < 4 / π * (1 / 2 ^ d) := by positivity
    nlinarith
  linarith

/-- the polar-cap line is below `3/2·δ < π/2·δ` for a folded longitude `≤ π/4` -/
theorem npcEnv_le (d : ℕ) (hd : 1 ≤ d) (l : ℝ) (hl : l ≤ π / 4) : npcEnv (Csts.new d : Csts ℝ) l ≤ 2 * Mtrue d := by
  obtain ⟨h0, _⟩ := distCw_range d
  have hpi := Real.pi_gt_three
  have hs := new_slopeNpc_nonneg d
  have h1 : npcEnv (Csts.new d : Csts ℝ) l ≤ npcEnv (Csts.new d : Csts ℝ) (π / 4) := by
    unfold npcEnv; nlinarith
  have h2 := npcEnv_pi4_le d hd
  rw [Mtrue_eq]
  nlinarith

/-- **the pointwise value** (`c2v`, depth `≥ 1`) is at most `2·Mtrue d` wherever the folded longitude is in its nominal range
    `[0, π/4]` (every non-negative longitude: `fold_le`) -/
theorem c2v_le_twice (d : ℕ) (hd : 1 ≤ d) (lon lat : ℝ) (hf : fold lon ≤ π / 4) :
    c2v (Csts.new d) lon lat ≤ 2 * Mtrue d := by
  unfold c2v
  split_ifs with h1 h2
  · exact npcEnv_le d hd _ hf
  · exact (topEnv_le d _ h2).trans (dMax3_le_twice d)
  · exact (botEnv_le d _).trans (dMax3_le_twice d)

/-- **the value with radius** (`c2vR`, depth `≥ 1`, `0 ≤ r`) is at most `2·Mtrue d`: every longitude (the folded
    longitude is capped at `π/4`), every latitude -/
theorem c2vR_le_twice (d : ℕ) (hd : 1 ≤ d) (lon lat r : ℝ) (hr : 0 ≤ r) :
    c2vR (Csts.new d) lon lat r ≤ 2 * Mtrue d := by
  have hlt := lsc_lt_tl
  unfold c2vR
  split_ifs with h1 h2 h3
  · exact npcEnv_le d hd _ (min_le_right _ _)
  · exact (topEnv_le d _ (le_min (by linarith) hlt.le)).trans (dMax3_le_twice d)
  · exact (botEnv_le d _).trans (dMax3_le_twice d)
  · exact max_le ((topEnv_le d _ (le_min (not_le.mp h3).le hlt.le)).trans (dMax3_le_twice d))
      ((botEnv_le d _).trans (dMax3_le_twice d))

/-- depth 0: the helper returns `π/2 − tl ≈ 0.841`, the true value is `Mtrue 0 = π/4 ≈ 0.785` -/
theorem depth0_le_twice : π / 2 - tl ≤ 2 * Mtrue 0 := by
  rw [Mtrue_eq]; have := tl_pos; norm_num; linarith

/-- **`envelope_le_twice_true`** (ℝ, release profile): whenever `largest_center_to_vertex_distance(d, lon, lat)` returns
    (every depth `0 … 29`; it panics above), for every latitude and every longitude whose folded value
    `|π/4 − lon % (π/2)|` is in the nominal range `[0, π/4]` (every `lon ≥ 0`), the value is at most TWICE the true
    centre-to-vertex distance `Mtrue d = π/4·2^-d` of the cells of depth `d` centred on the equator. -/
theorem envelope_le_twice_true (d : ℕ) (lon lat v : ℝ) (hf : fold lon ≤ π / 4)
    (h : largestC2V false d lon lat = some v) : v ≤ 2 * Mtrue d := by
  rw [c2v_region_choice] at h
  split_ifs at h with h0 h29
  · cases h; rw [h0]; exact depth0_le_twice
  · cases h; exact c2v_le_twice d (by omega) lon lat hf

theorem envelope_le_twice_true_nonneg_lon (d : ℕ) (lon lat v : ℝ) (hlon : 0 ≤ lon)
    (h : largestC2V false d lon lat = some v) : v ≤ 2 * Mtrue d :=
  envelope_le_twice_true d lon lat v (fold_le lon hlon) h

/-- **`envelope_with_radius_le_twice_true`**: the same for `largest_center_to_vertex_distance_with_radius`, every
    longitude and latitude, every radius `r ≥ 0` -/
theorem envelope_with_radius_le_twice_true (d : ℕ) (lon lat r v : ℝ) (hr : 0 ≤ r)
    (h : largestC2VWithRadius false d lon lat r = some v) : v ≤ 2 * Mtrue d := by
  rw [c2v_with_radius_region_choice] at h
  split_ifs at h with h0 h29
  · cases h; rw [h0]; exact depth0_le_twice
  · cases h; exact c2vR_le_twice d (by omega) lon lat r hr

/-! ## `Mtrue d` is a TRUE centre-to-vertex distance: an explicit cell at every depth -/

/-- the cell `(b, i, j) = (4, nside − 1, 0)` of depth `d` (east corner of the equatorial base cell 4; `i + j = nside − 1`:
    centred on the equator): `eqCell 0 = 4`, `eqCell (d+1) = 4·eqCell d + 1` (`= 4·4^d + (4^d − 1)/3`) -/
def eqCell : ℕ → ℕ
  | 0 => 4
  | d + 1 => 4 * eqCell d + 1

theorem eqCell_lt (d : ℕ) : eqCell d < 5 * 4 ^ d := by
  induction d with
  | zero => decide
  | succ d ih => rw [Nat.pow_succ]; show 4 * eqCell d + 1 < _; omega

theorem partsOf_eqCell (d : ℕ) (hd : d ≤ 32) : partsOf d (eqCell d) = ⟨4, 2 ^ d - 1, 0⟩ := by
  induction d with
  | zero => decide +kernel
  | succ d ih =>
    show partsOf (d + 1) (4 * eqCell d + 1) = _
    rw [partsOf_child d (eqCell d) 1 (by omega) (by omega), ih (by omega)]
    have : 1 ≤ 2 ^ d := Nat.one_le_two_pow
    simp only [HashParts.mk.injEq, true_and]
    rw [Nat.pow_succ]
    refine ⟨?_, trivial⟩
    omega

theorem cellCy_eqCell (d : ℕ) : cellCy d 4 (2 ^ d - 1) 0 = 0 := by
  have h1 : 1 ≤ 2 ^ d := Nat.one_le_two_pow
  have hp : (0 : ℝ) < 2 ^ d := by positivity
  unfold cellCy baseY
  rw [Nat.cast_sub h1]
  push_cast
  norm_num

/-- `dN δ 0 = dS δ 0 = arcsin(2δ/3) ≤ δ·tl ≤ δ·π/4 = dE δ 0`: on the equator the east/west vertices are the farthest -/
theorem dN_equator_le (δ : ℝ) (h0 : 0 ≤ δ) (h1 : δ ≤ 1) : dN δ 0 ≤ dE δ 0 ∧ dS δ 0 ≤ dE δ 0 := by
  have hpi := Real.pi_gt_three
  have htl := EnvelopeReal.tl_le
  have h := arcsin_mul_le δ (2 / 3) h0 h1 (by norm_num) (by norm_num)
  have h2 : δ * Real.arcsin (2 / 3) ≤ δ * (π / 4) :=
    mul_le_mul_of_nonneg_left (by show tl ≤ π / 4; linarith) h0
  rw [dE_equator δ h0 h1]
  constructor
  · unfold dN
    rw [zero_mul, Real.arcsin_zero, sub_zero, zero_add]
    linarith
  · unfold dS
    rw [zero_mul, Real.arcsin_zero, zero_sub, show (0 - δ) * (2 / 3) = -(δ * (2 / 3)) by ring, Real.arcsin_neg,
      neg_neg]
    linarith

/-- **`Mtrue_is_true_c2v`**: at every depth `0 … 29` the cell number `eqCell d` is a cell of the NESTED scheme whose centre is
    on the equator, and the angular distances from `center` to its four `vertices` (S, E, N, W) are at most `Mtrue d`, with
    equality for the east and west vertices: `Mtrue d` is the largest true centre-to-vertex distance of that cell. -/
theorem Mtrue_is_true_c2v (cfg : Cfg) (d : ℕ) (hd : d ≤ 29) :
    eqCell d < Layer.nHash d ∧
    ∃ c s e n w : ℝ × ℝ, center (α := ℝ) cfg d (eqCell d) = some c ∧
      vertices (α := ℝ) cfg d (eqCell d) = some [s, e, n, w] ∧ c.2 = 0 ∧
      adist c e = Mtrue d ∧ adist c w = Mtrue d ∧ adist c s ≤ Mtrue d ∧ adist c n ≤ Mtrue d := by
  have hlt : eqCell d < 12 * 4 ^ d := by have := eqCell_lt d; omega
  have hh : eqCell d < Layer.nHash d := by rw [nHash_eq]; exact hlt
  have hdec := decodeHash_spec cfg d hd (eqCell d) hlt
  rw [partsOf_eqCell d (by omega)] at hdec
  have h1 : 1 ≤ 2 ^ d := Nat.one_le_two_pow
  obtain ⟨h0, hδ1⟩ := distCw_range d
  obtain ⟨c, s, e, n, w, hc, hv, hlat, aS, aE, aN, aW⟩ :=
    cell_true_c2v cfg d (eqCell d) 4 (2 ^ d - 1) 0 hh hdec (by decide) (by omega) (by omega)
      (by rw [cellCy_eqCell]; norm_num)
  rw [cellCy_eqCell] at hlat aS aE aN aW
  obtain ⟨bN, bS⟩ := dN_equator_le (1 / 2 ^ d) h0.le hδ1
  refine ⟨hh, c, s, e, n, w, hc, hv, ?_, aE, aW, ?_, ?_⟩
  · rw [hlat]; unfold latOf; simp
  · rw [aS]; exact bS
  · rw [aN]; exact bN

/-- the hypotheses are satisfiable: depth 3, position `(1, 1/2)` (upper equatorial region) -/
example : ∃ v, largestC2V false 3 (1 : ℝ) (1 / 2) = some v ∧ v ≤ 2 * Mtrue 3 := by
  refine ⟨c2v (Csts.new 3) 1 (1 / 2), ?_, c2v_le_twice 3 (by decide) 1 (1 / 2) (fold_le 1 (by norm_num))⟩
  rw [c2v_region_choice, if_neg (by decide), if_neg (by decide)]

/-- depth 2: `eqCell 2 = 69` (base cell 4, `(i, j) = (3, 0)`) -/
example : eqCell 2 = 69 ∧ partsOf 2 69 = ⟨4, 3, 0⟩ := by decide +kernel

end Hpx.Tightness

#print axioms Hpx.Tightness.envelope_le_twice_true
#print axioms Hpx.Tightness.envelope_with_radius_le_twice_true
#print axioms Hpx.Tightness.Mtrue_is_true_c2v
