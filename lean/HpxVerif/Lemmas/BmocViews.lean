/-
The views of a well-formed BMOC agree (C09): `flat_iter`, `flat_iter_cell`, `deep_size`, `to_ranges`, `into_iter`
all describe the same set of cells of depth `depth_max`, namely `{x | stOf D cells x ≠ absent}`.
-/
import HpxVerif.Lemmas.BmocPack

namespace Hpx.Bmoc

/-! ## arithmetic helpers -/

theorem shl_eq_mul (h k : Nat) : h <<< (k <<< 1) = h * 4 ^ k := by
  rw [Nat.shiftLeft_eq, Nat.shiftLeft_eq, Nat.pow_one, Nat.pow_mul']

theorem hi_eq_lo_add (D : Nat) (c : Cell) : hi D c = lo D c + 4 ^ (D - c.depth) := by
  unfold hi lo; rw [Nat.add_mul, Nat.one_mul]

/-! ## the cells of depth `D` of a cell list -/

/-- the depth-`D` cells of one cell, in order -/
def cellFlat (D : Nat) (c : Cell) : List Nat := (List.range (4 ^ (D - c.depth))).map (fun k => lo D c + k)

/-- the depth-`D` cells of a cell list -/
def flatOfCells (D : Nat) (cs : List Cell) : List Nat := cs.flatMap (cellFlat D)

theorem mem_cellFlat (D : Nat) (c : Cell) (x : Nat) : x ∈ cellFlat D c ↔ lo D c ≤ x ∧ x < hi D c := by
  unfold cellFlat
  rw [hi_eq_lo_add]
  simp only [List.mem_map, List.mem_range]
  constructor
  · rintro ⟨k, hk, rfl⟩; omega
  · intro ⟨h1, h2⟩; exact ⟨x - lo D c, by omega, by omega⟩

theorem cellFlat_sorted (D : Nat) (c : Cell) : (cellFlat D c).Pairwise (· < ·) := by
  unfold cellFlat
  rw [List.pairwise_map]
  exact List.Pairwise.imp (fun h => by omega) List.pairwise_lt_range

theorem flatOfCells_cons (D : Nat) (c : Cell) (cs : List Cell) :
    flatOfCells D (c :: cs) = cellFlat D c ++ flatOfCells D cs := by
  simp [flatOfCells]

theorem mem_flatOfCells (D : Nat) (cs : List Cell) (x : Nat) :
    x ∈ flatOfCells D cs ↔ ∃ c ∈ cs, lo D c ≤ x ∧ x < hi D c := by
  simp only [flatOfCells, List.mem_flatMap, mem_cellFlat]

theorem ofFlag_ne_abs (f : Bool) : Tri.ofFlag f ≠ .abs := by
  cases f <;> simp [Tri.ofFlag]

/-- a depth-`D` cell is present iff some cell of the list covers it -/
theorem stOf_ne_abs_iff (D : Nat) (cs : List Cell) (x : Nat) :
    stOf D cs x ≠ .abs ↔ ∃ c ∈ cs, lo D c ≤ x ∧ x < hi D c := by
  induction cs with
  | nil => simp [stOf]
  | cons c cs ih =>
    rw [stOf_cons]
    by_cases h : lo D c ≤ x ∧ x < hi D c
    · simp only [h, and_self, if_true]
      exact ⟨fun _ => ⟨c, by simp, h⟩, fun _ => ofFlag_ne_abs _⟩
    · simp only [h, if_false, ih, List.mem_cons]
      constructor
      · rintro ⟨c', hc', hx⟩; exact ⟨c', Or.inr hc', hx⟩
      · rintro ⟨c', rfl | hc', hx⟩
        · exact absurd hx h
        · exact ⟨c', hc', hx⟩

/-- in a well-formed list the covering cell is unique: the state is the flag of *any* covering cell -/
theorem stOf_of_mem_covers {D : Nat} {cs : List Cell} (hw : WF D cs) {c : Cell} (hc : c ∈ cs) {x : Nat}
    (h1 : lo D c ≤ x) (h2 : x < hi D c) : stOf D cs x = Tri.ofFlag c.full := by
  induction cs with
  | nil => simp at hc
  | cons c' cs ih =>
    rw [stOf_cons]
    rcases List.mem_cons.1 hc with rfl | hm
    · simp [h1, h2]
    · have := hw.2.1 c hm
      have hn : ¬ (lo D c' ≤ x ∧ x < hi D c') := by omega
      simp only [hn, if_false]
      exact ih hw.tail hm

theorem flatOfCells_spec (D : Nat) (cs : List Cell) (hw : WF D cs) :
    (flatOfCells D cs).Pairwise (· < ·) ∧ ∀ x, x ∈ flatOfCells D cs ↔ stOf D cs x ≠ .abs := by
  refine ⟨?_, fun x => by rw [mem_flatOfCells, stOf_ne_abs_iff]⟩
  induction cs with
  | nil => simp [flatOfCells]
  | cons c cs ih =>
    rw [flatOfCells_cons, List.pairwise_append]
    refine ⟨cellFlat_sorted D c, ih hw.tail, ?_⟩
    intro a ha b hb
    rw [mem_cellFlat] at ha
    rw [mem_flatOfCells] at hb
    obtain ⟨c', hc', hb1, _⟩ := hb
    have := hw.2.1 c' hc'
    omega

/-! ## what the views read from a valid raw value -/

/-- a valid entry is the encoding of its decoded cell, and the delta depth read by the views is `D − depth` -/
theorem entry_view {D : Nat} (hD : D ≤ 29) {raw : Nat} (hv : ValidRaw D raw) :
    (decode raw D).depth ≤ D ∧ (decode raw D).hash < 12 * 4 ^ (decode raw D).depth ∧
    raw = encode D (decode raw D) ∧ tz64 (raw >>> 1) >>> 1 = D - (decode raw D).depth := by
  obtain ⟨c, hd, hh, rfl⟩ := hv
  rw [decode_encode hd hD hh]
  exact ⟨hd, hh, rfl, tz_buildRaw c.depth c.hash c.full D (raw_fits hd hD hh)⟩

/-- the depth-`depth_max` cells that `flat_iter` produces for one entry -/
def entryFlat (raw : Nat) : List Nat :=
  let dd := tz64 (raw >>> 1) >>> 1
  let hash := raw >>> (2 + (dd <<< 1))
  (List.range (4 ^ dd)).map (fun k => (hash <<< (dd <<< 1)) + k)

theorem entryFlat_eq {D : Nat} (hD : D ≤ 29) {raw : Nat} (hv : ValidRaw D raw) :
    entryFlat raw = cellFlat D (decode raw D) := by
  obtain ⟨_, _, _, h4⟩ := entry_view hD hv
  have hh : raw >>> (2 + ((tz64 (raw >>> 1) >>> 1) <<< 1)) = (decode raw D).hash := rfl
  unfold entryFlat cellFlat lo
  simp only [hh, shl_eq_mul]
  rw [h4]

theorem flatIter_cons (D raw : Nat) (es : List Nat) :
    flatIter ⟨D, raw :: es⟩ = entryFlat raw ++ flatIter ⟨D, es⟩ := by
  simp [flatIter, entryFlat]

theorem flatIter_eq_aux (D : Nat) (hD : D ≤ 29) (es : List Nat) (hv : ∀ r ∈ es, ValidRaw D r) :
    flatIter ⟨D, es⟩ = flatOfCells D (cellsOf D es) := by
  induction es with
  | nil => simp [flatIter, flatOfCells, cellsOf]
  | cons r es ih =>
    rw [flatIter_cons, cellsOf_cons, flatOfCells_cons, entryFlat_eq hD (hv r (by simp)),
      ih (fun r' h' => hv r' (by simp [h']))]

/-- `flat_iter` lists the depth-`depth_max` cells of the decoded cells -/
theorem flatIter_eq (b : BMOC) (hD : b.dmax ≤ 29) (hv : ∀ r ∈ b.entries, ValidRaw b.dmax r) :
    flatIter b = flatOfCells b.dmax b.cells :=
  flatIter_eq_aux b.dmax hD b.entries hv

/-- **`flat_iter`** of a well-formed BMOC is strictly increasing and lists exactly the present cells -/
theorem flatIter_spec (b : BMOC) (hD : b.dmax ≤ 29) (hv : ∀ r ∈ b.entries, ValidRaw b.dmax r)
    (hw : WF b.dmax b.cells) :
    (flatIter b).Pairwise (· < ·) ∧ ∀ x, x ∈ flatIter b ↔ stOf b.dmax b.cells x ≠ .abs := by
  rw [flatIter_eq b hD hv]
  exact flatOfCells_spec b.dmax b.cells hw

/-! ## `flat_iter_cell` -/

theorem flatIterCell_cons (D raw : Nat) (es : List Nat) :
    flatIterCell ⟨D, raw :: es⟩ =
      (entryFlat raw).map (fun x => (raw, x, (decode raw D).full)) ++ flatIterCell ⟨D, es⟩ := by
  simp [flatIterCell, entryFlat, decode, Function.comp_def]

theorem flatIterCell_map_aux (D : Nat) (es : List Nat) :
    (flatIterCell ⟨D, es⟩).map (·.2.1) = flatIter ⟨D, es⟩ := by
  induction es with
  | nil => simp [flatIter, flatIterCell]
  | cons r es ih =>
    rw [flatIterCell_cons, flatIter_cons, List.map_append, ih, List.map_map]
    simp [Function.comp_def]

theorem mem_flatIterCell (D : Nat) (es : List Nat) (raw x : Nat) (f : Bool) :
    (raw, x, f) ∈ flatIterCell ⟨D, es⟩ ↔ raw ∈ es ∧ x ∈ entryFlat raw ∧ f = (decode raw D).full := by
  induction es with
  | nil => simp [flatIterCell]
  | cons r es ih =>
    rw [flatIterCell_cons, List.mem_append, ih]
    simp only [List.mem_map, Prod.mk.injEq, List.mem_cons]
    constructor
    · rintro (⟨y, hy, rfl, rfl, rfl⟩ | ⟨h1, h2, h3⟩)
      · exact ⟨Or.inl rfl, hy, rfl⟩
      · exact ⟨Or.inr h1, h2, h3⟩
    · rintro ⟨rfl | h1, h2, h3⟩
      · exact Or.inl ⟨x, h2, rfl, rfl, h3.symm⟩
      · exact Or.inr ⟨h1, h2, h3⟩

/-- **`flat_iter_cell`**: same cells as `flat_iter`, each with the raw value of the entry that covers it and
    the flag of that entry, which is the state of the cell -/
theorem flatIterCell_spec (b : BMOC) (hD : b.dmax ≤ 29) (hv : ∀ r ∈ b.entries, ValidRaw b.dmax r)
    (hw : WF b.dmax b.cells) :
    (flatIterCell b).map (·.2.1) = flatIter b ∧
    ∀ raw x f, (raw, x, f) ∈ flatIterCell b →
      raw ∈ b.entries ∧ f = (decode raw b.dmax).full ∧
      lo b.dmax (decode raw b.dmax) ≤ x ∧ x < hi b.dmax (decode raw b.dmax) ∧
      stOf b.dmax b.cells x = Tri.ofFlag f := by
  refine ⟨flatIterCell_map_aux b.dmax b.entries, ?_⟩
  intro raw x f hm
  have hm' : (raw, x, f) ∈ flatIterCell ⟨b.dmax, b.entries⟩ := hm
  rw [mem_flatIterCell, entryFlat_eq hD (hv raw hm'.1), mem_cellFlat] at hm'
  obtain ⟨h1, ⟨h2, h3⟩, rfl⟩ := hm'
  refine ⟨h1, rfl, h2, h3, ?_⟩
  exact stOf_of_mem_covers hw (List.mem_map.2 ⟨raw, h1, rfl⟩) h2 h3

/-! ## `deep_size` -/

theorem deepSize_cons (D raw : Nat) (es : List Nat) :
    deepSize ⟨D, raw :: es⟩ = 4 ^ (D - getDepthRaw raw D) + deepSize ⟨D, es⟩ := by
  simp [deepSize]

theorem entryFlat_length (raw : Nat) : (entryFlat raw).length = 4 ^ (tz64 (raw >>> 1) >>> 1) := by
  simp [entryFlat]

theorem deepSize_eq_length_aux (D : Nat) (hD : D ≤ 29) (es : List Nat) (hv : ∀ r ∈ es, ValidRaw D r) :
    deepSize ⟨D, es⟩ = (flatIter ⟨D, es⟩).length := by
  induction es with
  | nil => simp [deepSize, flatIter]
  | cons r es ih =>
    rw [deepSize_cons, flatIter_cons, List.length_append, entryFlat_length, ih (fun r' h' => hv r' (by simp [h']))]
    obtain ⟨h1, _, _, h4⟩ := entry_view hD (hv r (by simp))
    have : D - getDepthRaw r D = tz64 (r >>> 1) >>> 1 := by
      unfold getDepthRaw; omega
    rw [this]

/-- **`deep_size`** is the number of cells `flat_iter` yields (so `to_flat_array` fills its buffer exactly) -/
theorem deepSize_eq_length (b : BMOC) (hD : b.dmax ≤ 29) (hv : ∀ r ∈ b.entries, ValidRaw b.dmax r) :
    deepSize b = (flatIter b).length :=
  deepSize_eq_length_aux b.dmax hD b.entries hv

/-! ## `to_ranges` -/

theorem toRangesLoop_cons (D : Nat) (c : Cell) (rest : List Cell) (pmin pmax : Nat) (hd : c.depth ≤ D) :
    toRangesLoop D (c :: rest) pmin pmax =
      if lo D c = pmax then toRangesLoop D rest pmin (hi D c)
      else (if pmin ≠ pmax then [(pmin, pmax)] else []) ++ toRangesLoop D rest (lo D c) (hi D c) := by
  have hse : (if c.depth < D then
        (c.hash <<< ((D - c.depth) <<< 1), (c.hash + 1) <<< ((D - c.depth) <<< 1))
      else (c.hash, c.hash + 1)) = (lo D c, hi D c) := by
    unfold lo hi
    split
    · rw [shl_eq_mul, shl_eq_mul]
    · have : D - c.depth = 0 := by omega
      rw [this]; simp
  simp only [toRangesLoop, hse]
  simp

/-- the ranges pending in the state: nothing when `pmin = pmax` (only in the initial state `(0, 0)`) -/
theorem pending_spec (pmin pmax : Nat) (hle : pmin ≤ pmax) :
    (∀ p ∈ (if pmin ≠ pmax then [(pmin, pmax)] else []), p = (pmin, pmax) ∧ pmin < pmax) ∧
    ∀ x, (∃ p ∈ (if pmin ≠ pmax then [(pmin, pmax)] else []), p.1 ≤ x ∧ x < p.2) ↔ pmin ≤ x ∧ x < pmax := by
  by_cases h : pmin = pmax
  · simp only [h, ne_eq, not_true_eq_false, if_false]
    refine ⟨by simp, fun x => ?_⟩
    simp
  · simp only [ne_eq, h, not_false_eq_true, if_true]
    refine ⟨?_, fun x => by simp⟩
    intro p hp
    simp only [List.mem_singleton] at hp
    exact ⟨hp, by omega⟩

/-- loop invariant of `to_ranges`: state `[pmin, pmax)` pending, the remaining cells lie at or after `pmax` -/
theorem toRangesLoop_spec (D : Nat) (cs : List Cell) (hw : WF D cs) (pmin pmax : Nat) (hle : pmin ≤ pmax)
    (hlo : ∀ c ∈ cs, pmax ≤ lo D c) :
    (∀ p ∈ toRangesLoop D cs pmin pmax, p.1 < p.2) ∧
    (toRangesLoop D cs pmin pmax).Pairwise (fun p q => p.2 < q.1) ∧
    (∀ p ∈ toRangesLoop D cs pmin pmax, pmin ≤ p.1) ∧
    ∀ x, (∃ p ∈ toRangesLoop D cs pmin pmax, p.1 ≤ x ∧ x < p.2) ↔
      (pmin ≤ x ∧ x < pmax) ∨ ∃ c ∈ cs, lo D c ≤ x ∧ x < hi D c := by
  induction cs generalizing pmin pmax with
  | nil =>
    obtain ⟨q1, q2⟩ := pending_spec pmin pmax hle
    have e : toRangesLoop D [] pmin pmax = if pmin ≠ pmax then [(pmin, pmax)] else [] := by
      simp [toRangesLoop]
    rw [e]
    refine ⟨fun p hp => ?_, ?_, fun p hp => ?_, fun x => ?_⟩
    · obtain ⟨rfl, h⟩ := q1 p hp; exact h
    · split <;> simp
    · obtain ⟨rfl, h⟩ := q1 p hp; exact Nat.le_refl _
    · rw [q2 x]; simp
  | cons c rest ih =>
    have hlt := lo_lt_hi D c
    have hc := hlo c (by simp)
    rw [toRangesLoop_cons D c rest pmin pmax hw.1]
    by_cases hs : lo D c = pmax
    · simp only [hs, if_true]
      obtain ⟨i1, i2, i3, i4⟩ := ih hw.tail pmin (hi D c) (by omega) hw.2.1
      refine ⟨i1, i2, i3, fun x => ?_⟩
      rw [i4 x]
      simp only [List.mem_cons, exists_eq_or_imp]
      constructor
      · rintro (h | h)
        · by_cases hx : x < pmax
          · exact Or.inl ⟨h.1, hx⟩
          · exact Or.inr (Or.inl ⟨by omega, h.2⟩)
        · exact Or.inr (Or.inr h)
      · rintro (h | h | h)
        · exact Or.inl ⟨h.1, by omega⟩
        · exact Or.inl ⟨by omega, h.2⟩
        · exact Or.inr h
    · simp only [hs, if_false]
      obtain ⟨i1, i2, i3, i4⟩ := ih hw.tail (lo D c) (hi D c) (by omega) hw.2.1
      obtain ⟨q1, q2⟩ := pending_spec pmin pmax hle
      refine ⟨fun p hp => ?_, ?_, fun p hp => ?_, fun x => ?_⟩
      · rcases List.mem_append.1 hp with hp | hp
        · obtain ⟨rfl, h⟩ := q1 p hp; exact h
        · exact i1 p hp
      · rw [List.pairwise_append]
        refine ⟨?_, i2, ?_⟩
        · split <;> simp
        · intro p hp q hq
          obtain ⟨rfl, _⟩ := q1 p hp
          have := i3 q hq
          show pmax < q.1
          omega
      · rcases List.mem_append.1 hp with hp | hp
        · obtain ⟨rfl, h⟩ := q1 p hp; exact Nat.le_refl _
        · have := i3 p hp; omega
      · have : (∃ p ∈ (if pmin ≠ pmax then [(pmin, pmax)] else []) ++ toRangesLoop D rest (lo D c) (hi D c),
            p.1 ≤ x ∧ x < p.2) ↔
            (∃ p ∈ (if pmin ≠ pmax then [(pmin, pmax)] else []), p.1 ≤ x ∧ x < p.2) ∨
            (∃ p ∈ toRangesLoop D rest (lo D c) (hi D c), p.1 ≤ x ∧ x < p.2) := by
          simp only [List.mem_append, or_and_right, exists_or]
        rw [this, q2 x, i4 x]
        simp only [List.mem_cons, exists_eq_or_imp]

/-- **`to_ranges`** of a well-formed BMOC: non-empty ranges, sorted, pairwise disjoint and non adjacent
    (maximal runs), covering exactly the cells of `flat_iter`, i.e. the present cells -/
theorem toRanges_spec (b : BMOC) (hD : b.dmax ≤ 29) (hv : ∀ r ∈ b.entries, ValidRaw b.dmax r)
    (hw : WF b.dmax b.cells) :
    (∀ p ∈ toRanges b, p.1 < p.2) ∧
    (toRanges b).Pairwise (fun p q => p.2 < q.1) ∧
    (∀ x, (∃ p ∈ toRanges b, p.1 ≤ x ∧ x < p.2) ↔ x ∈ flatIter b) ∧
    (∀ x, (∃ p ∈ toRanges b, p.1 ≤ x ∧ x < p.2) ↔ stOf b.dmax b.cells x ≠ .abs) := by
  obtain ⟨h1, h2, _, h4⟩ := toRangesLoop_spec b.dmax b.cells hw 0 0 (Nat.le_refl _) (fun _ _ => Nat.zero_le _)
  have key : ∀ x, (∃ p ∈ toRanges b, p.1 ≤ x ∧ x < p.2) ↔ ∃ c ∈ b.cells, lo b.dmax c ≤ x ∧ x < hi b.dmax c := by
    intro x
    have := h4 x
    simp only [Nat.not_lt_zero, and_false, false_or] at this
    exact this
  refine ⟨h1, h2, fun x => ?_, fun x => ?_⟩
  · rw [key x, flatIter_eq b hD hv, mem_flatOfCells]
  · rw [key x, stOf_ne_abs_iff]

/-! ## no `u64` overflow in the views: everything stays below `12·4^depth_max` -/

theorem hi_le_of_inRange {D : Nat} {c : Cell} (hd : c.depth ≤ D) (hh : c.hash < 12 * 4 ^ c.depth) :
    hi D c ≤ 12 * 4 ^ D := by
  unfold hi
  have e : 4 ^ D = 4 ^ c.depth * 4 ^ (D - c.depth) := by rw [← Nat.pow_add]; congr 1; omega
  rw [e, ← Nat.mul_assoc]
  exact Nat.mul_le_mul_right _ hh

theorem toRangesLoop_bound (D B : Nat) (cs : List Cell) (hd : ∀ c ∈ cs, c.depth ≤ D) (hB : ∀ c ∈ cs, hi D c ≤ B)
    (pmin pmax : Nat) (hp : pmax ≤ B) : ∀ p ∈ toRangesLoop D cs pmin pmax, p.2 ≤ B := by
  induction cs generalizing pmin pmax with
  | nil =>
    intro p hp'
    simp only [toRangesLoop] at hp'
    split at hp'
    · simp only [List.mem_singleton] at hp'; subst hp'; exact hp
    · simp at hp'
  | cons c rest ih =>
    have ihr := ih (fun c' h' => hd c' (by simp [h'])) (fun c' h' => hB c' (by simp [h']))
    rw [toRangesLoop_cons D c rest pmin pmax (hd c (by simp))]
    intro p hp'
    split at hp'
    · exact ihr pmin (hi D c) (hB c (by simp)) p hp'
    · rcases List.mem_append.1 hp' with h | h
      · split at h
        · simp only [List.mem_singleton] at h; subst h; exact hp
        · simp at h
      · exact ihr (lo D c) (hi D c) (hB c (by simp)) p h

/-- every cell number and range bound produced by the views is at most `12·4^depth_max ≤ 12·4^29 < 2^64` -/
theorem views_bound (b : BMOC) (hD : b.dmax ≤ 29) (hv : ∀ r ∈ b.entries, ValidRaw b.dmax r) :
    (∀ x ∈ flatIter b, x < 12 * 4 ^ b.dmax) ∧ (∀ p ∈ toRanges b, p.2 ≤ 12 * 4 ^ b.dmax) := by
  have hc : ∀ c ∈ b.cells, c.depth ≤ b.dmax ∧ hi b.dmax c ≤ 12 * 4 ^ b.dmax := by
    intro c hc
    obtain ⟨r, hr, rfl⟩ := List.mem_map.1 hc
    obtain ⟨h1, h2, _, _⟩ := entry_view hD (hv r hr)
    exact ⟨h1, hi_le_of_inRange h1 h2⟩
  constructor
  · intro x hx
    rw [flatIter_eq b hD hv, mem_flatOfCells] at hx
    obtain ⟨c, hcm, _, h2⟩ := hx
    have := (hc c hcm).2
    omega
  · exact toRangesLoop_bound b.dmax _ b.cells (fun c h => (hc c h).1) (fun c h => (hc c h).2) 0 0 (Nat.zero_le _)

/-! ## `into_iter` (the decoded cells) -/

/-- decoding the entries gives back the cells they were built from -/
theorem cells_of_encoded (b : BMOC) (hD : b.dmax ≤ 29) (cs : List Cell)
    (hc : ∀ c ∈ cs, c.depth ≤ b.dmax ∧ c.hash < 12 * 4 ^ c.depth) (he : b.entries = cs.map (encode b.dmax)) :
    b.cells = cs := by
  unfold BMOC.cells
  rw [he]
  clear he
  induction cs with
  | nil => rfl
  | cons c cs ih =>
    simp only [List.map_cons]
    rw [decode_encode (hc c (by simp)).1 hD (hc c (by simp)).2, ih (fun c' h' => hc c' (by simp [h']))]

/-- **`into_iter`**: the decoded cells of valid entries are in range and re-encode to the entries -/
theorem into_iter (b : BMOC) (hD : b.dmax ≤ 29) (hv : ∀ r ∈ b.entries, ValidRaw b.dmax r) :
    (∀ c ∈ b.cells, c.depth ≤ b.dmax ∧ c.hash < 12 * 4 ^ c.depth) ∧ b.cells.map (encode b.dmax) = b.entries := by
  constructor
  · intro c hc
    obtain ⟨r, hr, rfl⟩ := List.mem_map.1 hc
    obtain ⟨h1, h2, _, _⟩ := entry_view hD (hv r hr)
    exact ⟨h1, h2⟩
  · unfold BMOC.cells
    rw [List.map_map]
    have : ∀ es : List Nat, (∀ r ∈ es, ValidRaw b.dmax r) →
        es.map (encode b.dmax ∘ fun x => decode x b.dmax) = es := by
      intro es
      induction es with
      | nil => intro _; rfl
      | cons r es ih =>
        intro h
        simp only [List.map_cons, Function.comp]
        rw [← (entry_view hD (h r (by simp))).2.2.1]
        congr 1
        exact ih (fun r' h' => h r' (by simp [h']))
    exact this b.entries hv

/-! ## a concrete 3-level BMOC (depths 0, 1, 2; a cell starting at 0; adjacent cells; gaps) -/

/-- cells `[0,16)` full, `[16,20)` partial (adjacent), `[21,22)` full, `[23,24)` partial, at `depth_max = 2` -/
def exCells : List Cell := [⟨0, 0, true⟩, ⟨1, 4, false⟩, ⟨2, 21, true⟩, ⟨2, 23, false⟩]
def exBmoc : BMOC := { dmax := 2, entries := exCells.map (encode 2) }

example : exBmoc.entries = [33, 72, 87, 94] := by decide
example : exBmoc.cells = exCells := by decide
example : flatIter exBmoc = [0, 1, 2, 3, 4, 5, 6, 7, 8, 9, 10, 11, 12, 13, 14, 15, 16, 17, 18, 19, 21, 23] := by decide
example : deepSize exBmoc = 22 := by decide
example : toRanges exBmoc = [(0, 20), (21, 22), (23, 24)] := by decide
example : (flatIterCell exBmoc).drop 14 =
    [(33, 14, true), (33, 15, true), (72, 16, false), (72, 17, false), (72, 18, false), (72, 19, false),
     (87, 21, true), (94, 23, false)] := by decide
/-- first cell not at 0, two adjacent cells, a gap: the initial state `(0, 0)` emits nothing -/
example : toRanges { dmax := 2, entries := [⟨1, 1, true⟩, ⟨1, 2, false⟩, ⟨2, 21, true⟩, ⟨2, 22, false⟩].map (encode 2) } =
    [(4, 12), (21, 23)] := by decide
example : toRanges { dmax := 2, entries := [] } = [] := by decide

/-- the hypotheses of the theorems above hold for `exBmoc` -/
example : exBmoc.dmax ≤ 29 ∧ (∀ r ∈ exBmoc.entries, ValidRaw exBmoc.dmax r) ∧ WF exBmoc.dmax exBmoc.cells := by
  refine ⟨by decide, ?_, ?_⟩
  · intro r hr
    obtain ⟨c, hc, rfl⟩ := List.mem_map.1 hr
    refine ⟨c, ?_, ?_, rfl⟩ <;>
    · simp only [exCells, List.mem_cons, List.not_mem_nil, or_false] at hc
      rcases hc with rfl | rfl | rfl | rfl <;> decide
  · have : exBmoc.cells = exCells := by decide
    rw [this]
    simp [exCells, WF, lo, hi, exBmoc]

end Hpx.Bmoc

#print axioms Hpx.Bmoc.flatIter_spec
#print axioms Hpx.Bmoc.flatIterCell_spec
#print axioms Hpx.Bmoc.deepSize_eq_length
#print axioms Hpx.Bmoc.toRanges_spec
#print axioms Hpx.Bmoc.views_bound
#print axioms Hpx.Bmoc.cells_of_encoded
#print axioms Hpx.Bmoc.into_iter
