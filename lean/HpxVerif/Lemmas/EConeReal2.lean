/-
Real-valued meaning of the elliptical-cone tests of `elliptical_cone_coverage` (C13), part 2:
`overlap_cone` never rejects a cone that contains the centre of the ellipse (general `a ≥ b`), and the consequences for
the descent, relative to the envelope hypothesis H1 (the radius of a level bounds the extent of its cells):
the cell of the centre is kept; in the circular case no point of the cone is missed and `full` verdicts are truthful.
-/
import HpxVerif.Lemmas.EConeReal

namespace Hpx.Sph
open Hpx Hpx.Cover Hpx.Bmoc Real

/-! ## positive semi-definite 2×2 matrices -/

/-- the sum of two positive semi-definite symmetric 2×2 matrices has a non-negative determinant -/
theorem psd2_add (p1 q1 r1 p2 q2 r2 : ℝ) (hp1 : 0 ≤ p1) (hr1 : 0 ≤ r1) (hp2 : 0 ≤ p2) (hr2 : 0 ≤ r2)
    (h1 : q1 * q1 ≤ p1 * r1) (h2 : q2 * q2 ≤ p2 * r2) :
    (q1 + q2) * (q1 + q2) ≤ (p1 + p2) * (r1 + r2) := by
  have hs : 0 ≤ p1 * r2 + p2 * r1 := by positivity
  have hsq : (2 * (q1 * q2)) ^ 2 ≤ (p1 * r2 + p2 * r1) ^ 2 := by
    have h3 : (q1 * q1) * (q2 * q2) ≤ (p1 * r1) * (p2 * r2) :=
      mul_le_mul h1 h2 (mul_self_nonneg _) (by positivity)
    nlinarith [sq_nonneg (p1 * r2 - p2 * r1)]
  have := abs_le_of_sq_le_sq' hsq hs
  nlinarith [this.2]

/-! ## a cone that contains the centre is never rejected -/

/-- the algebraic core, for a general covariance form `e` (positive semi-definite): if the origin lies inside the
    projected cone (`D² ≤ B²`: radial distance of its centre at most its radial semi-axis) the extended ellipse of
    `overlap` contains the centre of the projected cone -/
theorem overlap_core_general (e : Ellipse ℝ) (A B u v D : ℝ) (hSx : 0 ≤ e.sigx2) (hSy : 0 ≤ e.sigy2)
    (hdet : e.rho * e.rho ≤ e.sigx2 * e.sigy2) (hB : 0 ≤ B) (hBA : B ≤ A) (huv : u * u + v * v = 1)
    (hD : D ^ 2 ≤ B ^ 2) :
    (e.extendedGeom (Ellipse.fromOriented A B (-u) v)).contains (D * u) (D * v) = true := by
  unfold Ellipse.extendedGeom
  have hA : 0 ≤ A := le_trans hB hBA
  have hsx : √e.sigx2 * √e.sigx2 = e.sigx2 := Real.mul_self_sqrt hSx
  have hsy : √e.sigy2 * √e.sigy2 = e.sigy2 := Real.mul_self_sqrt hSy
  have hneg : -u * -u = u * u := by ring
  have hx0 : 0 ≤ A * A * (v * v) + B * B * (-u * -u) := by
    rw [hneg]; exact add_nonneg (mul_nonneg (mul_self_nonneg _) (mul_self_nonneg _)) (mul_nonneg (mul_self_nonneg _) (mul_self_nonneg _))
  have hy0 : 0 ≤ A * A * (-u * -u) + B * B * (v * v) := by
    rw [hneg]; exact add_nonneg (mul_nonneg (mul_self_nonneg _) (mul_self_nonneg _)) (mul_nonneg (mul_self_nonneg _) (mul_self_nonneg _))
  have hσx : √(A * A * (v * v) + B * B * (-u * -u)) * √(A * A * (v * v) + B * B * (-u * -u)) =
      A * A * (v * v) + B * B * (-u * -u) := Real.mul_self_sqrt hx0
  have hσy : √(A * A * (-u * -u) + B * B * (v * v)) * √(A * A * (-u * -u) + B * B * (v * v)) =
      A * A * (-u * -u) + B * B * (v * v) := Real.mul_self_sqrt hy0
  have h0sx := Real.sqrt_nonneg e.sigx2
  have h0sy := Real.sqrt_nonneg e.sigy2
  have h0σx := Real.sqrt_nonneg (A * A * (v * v) + B * B * (-u * -u))
  have h0σy := Real.sqrt_nonneg (A * A * (-u * -u) + B * B * (v * v))
  set sx := √e.sigx2
  set sy := √e.sigy2
  set σx := √(A * A * (v * v) + B * B * (-u * -u))
  set σy := √(A * A * (-u * -u) + B * B * (v * v))
  have hMx : (sx + σx) * (sx + σx) = σx * σx + (e.sigx2 + 2 * sx * σx) := by linear_combination hsx
  have hMy : (sy + σy) * (sy + σy) = σy * σy + (e.sigy2 + 2 * sy * σy) := by linear_combination hsy
  have hp2 : 0 ≤ e.sigx2 + 2 * sx * σx := by positivity
  have hr2 : 0 ≤ e.sigy2 + 2 * sy * σy := by positivity
  have hq2 : e.rho * e.rho ≤ (e.sigx2 + 2 * sx * σx) * (e.sigy2 + 2 * sy * σy) := by
    have : 0 ≤ e.sigx2 * (2 * sy * σy) + 2 * sx * σx * e.sigy2 + 2 * sx * σx * (2 * sy * σy) := by positivity
    nlinarith
  have hC : 0 ≤ B * B - D * D := by nlinarith
  apply cov_contains_of
  · simp only [Ellipse.fromOriented, Ellipse.fromCov, pow2, num_sqrt]
    have hq1 : (v * -u * (A * A - B * B)) * (v * -u * (A * A - B * B)) ≤ (σx * σx) * (σy * σy) := by
      rw [hσx, hσy]
      have hid : (A * A * (v * v) + B * B * (-u * -u)) * (A * A * (-u * -u) + B * B * (v * v)) -
          (v * -u * (A * A - B * B)) * (v * -u * (A * A - B * B)) = (A * B) ^ 2 * (u * u + v * v) ^ 2 := by ring
      have : 0 ≤ (A * B) ^ 2 * (u * u + v * v) ^ 2 := by positivity
      linarith
    have key := psd2_add (σx * σx) (v * -u * (A * A - B * B)) (σy * σy) _ e.rho _ (mul_self_nonneg _)
      (mul_self_nonneg _) hp2 hr2 hq1 hq2
    rw [hMx, hMy]
    linarith
  · simp only [Ellipse.fromOriented, Ellipse.fromCov, pow2, num_sqrt]
    have hp1 : 0 ≤ σx * σx - D * u * (D * u) := by
      rw [hσx]
      have : A * A * (v * v) + B * B * (-u * -u) - D * u * (D * u) = A * A * (v * v) + (B * B - D * D) * (u * u) := by ring
      rw [this]; exact add_nonneg (mul_nonneg (mul_self_nonneg _) (mul_self_nonneg _)) (mul_nonneg hC (mul_self_nonneg _))
    have hr1 : 0 ≤ σy * σy - D * v * (D * v) := by
      rw [hσy]
      have : A * A * (-u * -u) + B * B * (v * v) - D * v * (D * v) = A * A * (u * u) + (B * B - D * D) * (v * v) := by ring
      rw [this]; exact add_nonneg (mul_nonneg (mul_self_nonneg _) (mul_self_nonneg _)) (mul_nonneg hC (mul_self_nonneg _))
    have hq1 : (v * -u * (A * A - B * B) - D * u * (D * v)) * (v * -u * (A * A - B * B) - D * u * (D * v)) ≤
        (σx * σx - D * u * (D * u)) * (σy * σy - D * v * (D * v)) := by
      rw [hσx, hσy]
      have hid : (A * A * (v * v) + B * B * (-u * -u) - D * u * (D * u)) *
          (A * A * (-u * -u) + B * B * (v * v) - D * v * (D * v)) -
          (v * -u * (A * A - B * B) - D * u * (D * v)) * (v * -u * (A * A - B * B) - D * u * (D * v)) =
          A * A * (B * B - D * D) * (u * u + v * v) ^ 2 := by ring
      have : 0 ≤ A * A * (B * B - D * D) * (u * u + v * v) ^ 2 := by positivity
      linarith
    have key := psd2_add _ _ _ _ e.rho _ hp1 hr1 hp2 hr2 hq1 hq2
    rw [hMx, hMy]
    linarith

/-- the covariance form of an oriented ellipse is positive semi-definite, whatever the semi-axes -/
theorem fromOriented_psd (a b s c : ℝ) (hsc : s * s + c * c = 1) :
    0 ≤ (Ellipse.fromOriented (α := ℝ) a b s c).sigx2 ∧ 0 ≤ (Ellipse.fromOriented (α := ℝ) a b s c).sigy2 ∧
    (Ellipse.fromOriented (α := ℝ) a b s c).rho * (Ellipse.fromOriented (α := ℝ) a b s c).rho ≤
      (Ellipse.fromOriented (α := ℝ) a b s c).sigx2 * (Ellipse.fromOriented (α := ℝ) a b s c).sigy2 := by
  simp only [Ellipse.fromOriented, Ellipse.fromCov, pow2]
  refine ⟨add_nonneg (mul_nonneg (mul_self_nonneg _) (mul_self_nonneg _)) (mul_nonneg (mul_self_nonneg _) (mul_self_nonneg _)),
    add_nonneg (mul_nonneg (mul_self_nonneg _) (mul_self_nonneg _)) (mul_nonneg (mul_self_nonneg _) (mul_self_nonneg _)), ?_⟩
  have := fromOriented_det a b s c hsc
  nlinarith [mul_self_nonneg (a * b)]

/-- **a cone that contains the centre of the ellipse is never rejected by `overlap_cone`** — general semi-axes
    (`a ≥ 0`, any `b`, any position angle), radius `0 < r ≤ π/2`, outside the special case of the code (`2^-1024 < sin d`) -/
theorem overlap_cone_contains_centre (lon lat a b pa l φ r : ℝ) (ha : 0 ≤ a) (hr : 0 < r ∧ r ≤ π / 2)
    (hfin : 1 / 2 ^ 1024 < sin (adist (l, φ) (ProjSIN.new lon lat).c0))
    (hd : adist (l, φ) (ProjSIN.new lon lat).c0 ≤ r) :
    (ECone.new (α := ℝ) lon lat a b pa).overlapCone l φ r = some true := by
  have hn : 0 < sin (adist (l, φ) (ProjSIN.new lon lat).c0) := lt_trans (by positivity) hfin
  have h2 := (inv_finite_iff _ hn).mpr hfin
  have h1 : ¬ (a + r < adist (l, φ) (ProjSIN.new lon lat).c0) := not_lt.mpr (by linarith)
  have key := overlapCone_main (ECone.new (α := ℝ) lon lat a b pa) (ProjSIN.new_coherent lon lat) l φ r hr.1 h1 h2
  rw [key]
  simp only [ECone.new]
  congr 1
  have hd0 := adist_nonneg (l, φ) (ProjSIN.new lon lat).c0
  have hsr : 0 ≤ sin r := sin_nonneg_of_nonneg_of_le_pi hr.1.le (by linarith [pi_pos])
  have hcr : 0 ≤ cos r := cos_nonneg_of_mem_Icc ⟨by linarith [pi_pos], hr.2⟩
  have hcd : 0 ≤ cos (adist (l, φ) (ProjSIN.new lon lat).c0) :=
    cos_nonneg_of_mem_Icc ⟨by linarith [pi_pos], by linarith⟩
  have hB : 1 / 2 * |sin (adist (l, φ) (ProjSIN.new lon lat).c0 + r) - sin (adist (l, φ) (ProjSIN.new lon lat).c0 - r)|
      = cos (adist (l, φ) (ProjSIN.new lon lat).c0) * sin r := by
    rw [sin_add_sub, abs_mul, abs_mul, abs_of_nonneg hsr, abs_of_nonneg hcd, abs_of_pos (by norm_num : (0 : ℝ) < 2)]; ring
  have hDD : 1 / 2 * (sin (adist (l, φ) (ProjSIN.new lon lat).c0 + r) + sin (adist (l, φ) (ProjSIN.new lon lat).c0 - r))
      = sin (adist (l, φ) (ProjSIN.new lon lat).c0) * cos r := by
    rw [sin_add_add]; ring
  rw [hB, hDD]
  obtain ⟨p1, p2, p3⟩ := fromOriented_psd (sin a) (sin b) (sin ((Num.halfPi : ℝ) - pa)) (cos ((Num.halfPi : ℝ) - pa))
    (theta_unit pa)
  refine overlap_core_general _ _ _ _ _ _ p1 p2 p3 (mul_nonneg hcd hsr) ?_ ?_ ?_
  · calc cos (adist (l, φ) (ProjSIN.new lon lat).c0) * sin r ≤ 1 * sin r :=
          mul_le_mul_of_nonneg_right (cos_le_one _) hsr
      _ = sin r := one_mul _
  · have := sinXY_norm (ProjSIN.new lon lat).c0 (l, φ)
    field_simp
    linarith
  · have h3 : sin (adist (l, φ) (ProjSIN.new lon lat).c0 - r) ≤ 0 :=
      sin_nonpos_of_nonpos_of_neg_pi_le (by linarith) (by linarith [pi_pos])
    rw [sin_sub] at h3
    exact pow_le_pow_left₀ (mul_nonneg hn.le hcr) (by linarith) 2

/-- a point within `b` of the centre is inside the elliptical cone (`0 < b ≤ a < π/2`) -/
theorem econe_contains_inner_disc (lon lat a b pa l φ : ℝ) (hb : 0 < b) (hba : b ≤ a) (ha : a < π / 2)
    (hd : adist (l, φ) (ProjSIN.new lon lat).c0 ≤ b) :
    (ECone.new (α := ℝ) lon lat a b pa).contains l φ = true := by
  unfold ECone.contains ECone.new
  simp only [num_sin, num_cos]
  rw [proj_sin_spec _ (ProjSIN.new_coherent lon lat)]
  have h0 := adist_nonneg (l, φ) (ProjSIN.new lon lat).c0
  have hsb : 0 < sin b := sin_pos_of_pos_of_lt_pi hb (by linarith [pi_pos])
  have hsab : sin b ≤ sin a := sin_le_sin_of_le_of_le_pi_div_two (by linarith) ha.le hba
  have hsa : 0 < sin a := lt_of_lt_of_le hsb hsab
  have hc : 0 < cos (adist (l, φ) (ProjSIN.new lon lat).c0) := cos_pos_of_mem_Ioo ⟨by linarith, by linarith⟩
  simp only [if_pos hc]
  rw [ellipse_contains_real _ _ _ _ _ _ (ne_of_gt hsa) (ne_of_gt hsb) (theta_unit pa)]
  have hn := sinXY_norm (ProjSIN.new lon lat).c0 (l, φ)
  have hsd : sin (adist (l, φ) (ProjSIN.new lon lat).c0) ^ 2 ≤ sin b ^ 2 :=
    (sin_sq_le_iff _ _ ⟨h0, by linarith⟩ ⟨hb.le, by linarith⟩).mpr hd
  set x := sinX (ProjSIN.new lon lat).c0 (l, φ)
  set y := sinY (ProjSIN.new lon lat).c0 (l, φ)
  set s := sin ((Num.halfPi : ℝ) - pa)
  set c := cos ((Num.halfPi : ℝ) - pa)
  have hsc : s * s + c * c = 1 := theta_unit pa
  have h1 : ((x * c + y * s) / sin a) ^ 2 ≤ ((x * c + y * s) / sin b) ^ 2 := by
    rw [div_pow, div_pow]
    exact div_le_div_of_nonneg_left (sq_nonneg _) (by positivity) (pow_le_pow_left₀ hsb.le hsab 2)
  have h2 : ((x * c + y * s) / sin b) ^ 2 + ((x * s - y * c) / sin b) ^ 2 = (x ^ 2 + y ^ 2) / sin b ^ 2 := by
    field_simp
    linear_combination (x ^ 2 + y ^ 2) * hsc
  have h3 : (x ^ 2 + y ^ 2) / sin b ^ 2 ≤ 1 := by rw [div_le_one (by positivity)]; linarith
  linarith

/-- **the test `contains ∨ overlap_cone` of the descent never rejects a cone that contains the centre of the ellipse**:
    general `0 < b ≤ a < π/2` with `2^-1024 < sin b`, `0 < r ≤ π/2` -/
theorem centre_cone_kept (lon lat a b pa l φ r : ℝ) (hb : 0 < b) (hba : b ≤ a) (ha : a < π / 2)
    (hmin : 1 / 2 ^ 1024 < sin b) (hr : 0 < r ∧ r ≤ π / 2)
    (hd : adist (l, φ) (ProjSIN.new lon lat).c0 ≤ r) :
    (ECone.new (α := ℝ) lon lat a b pa).contains l φ = true ∨
      (ECone.new (α := ℝ) lon lat a b pa).overlapCone l φ r = some true := by
  by_cases hfin : 1 / 2 ^ 1024 < sin (adist (l, φ) (ProjSIN.new lon lat).c0)
  · exact Or.inr (overlap_cone_contains_centre lon lat a b pa l φ r (by linarith) hr hfin hd)
  · left
    apply econe_contains_inner_disc lon lat a b pa l φ hb hba ha
    have hlt : sin (adist (l, φ) (ProjSIN.new lon lat).c0) < sin b := lt_of_le_of_lt (not_lt.mp hfin) hmin
    by_contra hgt
    have := sin_le_sin_of_le_of_le_pi_div_two (x := b) (y := adist (l, φ) (ProjSIN.new lon lat).c0)
      (by linarith only [hb, pi_pos]) (by linarith only [hd, hr.2]) (not_le.mp hgt).le
    linarith only [this, hlt]

/-! ## the classifier of the descent (every numeric instance) -/

section
variable {α : Type} [Num α]

/-- a cell is skipped only if its centre is not inside the ellipse and `overlap_cone` answered `false` -/
theorem ellClassifier_skip (cfg : Cfg) (target : Nat) (e : ECone α) (dists : List α) (d h l : Nat)
    (hk : ellClassifier cfg target e dists d h l = some .skip) :
    ∃ c dist, Hash.center (α := α) cfg d h = some c ∧ dists[l]? = some dist ∧
      e.contains c.1 c.2 = false ∧ e.overlapCone c.1 c.2 dist = some false := by
  unfold ellClassifier at hk
  split at hk
  · simp at hk
  · rename_i c hc
    split at hk
    · simp at hk
    · rename_i dist hdist
      refine ⟨c, dist, hc, hdist, ?_⟩
      split at hk
      · simp at hk
      · simp only at hk
        by_cases hin : e.contains c.1 c.2 = true
        · simp only [hin, if_true] at hk
          split at hk <;> simp at hk
        · simp only [hin, Bool.false_eq_true, if_false] at hk
          refine ⟨by simpa using hin, ?_⟩
          cases ho : e.overlapCone c.1 c.2 dist with
          | none => simp [ho] at hk
          | some v =>
            cases v with
            | false => rfl
            | true =>
              simp only [ho] at hk
              split at hk <;> simp at hk

/-- a cell is declared full by the classifier only if `contains_cone` answered `true` -/
theorem ellClassifier_full (cfg : Cfg) (target : Nat) (e : ECone α) (dists : List α) (d h l : Nat)
    (hk : ellClassifier cfg target e dists d h l = some .full) :
    ∃ c dist, Hash.center (α := α) cfg d h = some c ∧ dists[l]? = some dist ∧ e.containsCone c.1 c.2 dist = true := by
  unfold ellClassifier at hk
  split at hk
  · simp at hk
  · rename_i c hc
    split at hk
    · simp at hk
    · rename_i dist hdist
      refine ⟨c, dist, hc, hdist, ?_⟩
      split at hk
      · assumption
      · simp only at hk
        split at hk
        · simp at hk
        · simp at hk
        · split at hk
          · simp at hk
          · simp at hk

/-- a `descend` verdict carries the flag `true` only at the target depth, when the four vertices are inside -/
theorem ellClassifier_descend_full (cfg : Cfg) (target : Nat) (e : ECone α) (dists : List α) (d h l : Nat)
    (hk : ellClassifier cfg target e dists d h l = some (.descend true)) :
    d = target ∧ ∃ vs, Hash.vertices (α := α) cfg d h = some vs ∧ vs.all (fun v => e.contains v.1 v.2) = true := by
  unfold ellClassifier at hk
  split at hk
  · simp at hk
  · split at hk
    · simp at hk
    · split at hk
      · simp at hk
      · simp only at hk
        split at hk
        · simp at hk
        · simp at hk
        · split at hk
          · rename_i hdt
            simp only [Option.map_eq_some_iff] at hk
            obtain ⟨vs, hvs, hfl⟩ := hk
            refine ⟨by simpa using hdt, vs, hvs, ?_⟩
            simpa using hfl
          · simp at hk
end

/-- `overlap_cone` answers (does not panic) only for a positive radius -/
theorem overlapCone_some_pos (e : ECone ℝ) (l φ r : ℝ) (v : Bool) (h : e.overlapCone l φ r = some v) : 0 < r := by
  unfold ECone.overlapCone at h
  by_contra hr
  have : Num.gt r (Num.zero : ℝ) = false := by rw [num_gt, num_zero]; simpa using hr
  simp [this] at h

/-! ## the descent over the reals, relative to the envelope hypothesis -/

/-- **the cell of the ellipse centre is kept, given the envelope hypothesis** (`H1`, needed for the centre only: a visited
    cell that contains the centre of the ellipse has its own centre within the `D` of its level of it).  General
    `0 < b ≤ a < π/2`, any position angle: if the centre of the ellipse lies in the start cell, it lies in a cell of the
    output. -/
theorem econe_scheme_centre_kept (cfg : Cfg) (lon lat a b pa : ℝ) (hb : 0 < b) (hba : b ≤ a) (ha : a < π / 2)
    (hmin : 1 / 2 ^ 1024 < sin b) (dists : List ℝ) (hD : ∀ D ∈ dists, D ≤ π / 2)
    (inCell : Nat → Nat → ℝ × ℝ → Prop) (target ds : Nat)
    (hcover : ∀ d h q, d ≠ target → inCell d h q → inCell (d + 1) (h <<< 2) q ∨ inCell (d + 1) (h <<< 2 ||| 1) q ∨
      inCell (d + 1) (h <<< 2 ||| 2) q ∨ inCell (d + 1) (h <<< 2 ||| 3) q)
    (H1 : ∀ d h c D, ds ≤ d → Hash.center (α := ℝ) cfg d h = some c → dists[d - ds]? = some D →
      inCell d h (ProjSIN.new lon lat).c0 → adist c (ProjSIN.new lon lat).c0 ≤ D)
    (fuel root : Nat) (out : List Cell)
    (h : coverRec target (ellClassifier (α := ℝ) cfg target (ECone.new lon lat a b pa) dists) fuel ds root 0 = some out)
    (hq : inCell ds root (ProjSIN.new lon lat).c0) :
    ∃ c ∈ out, inCell c.depth c.hash (ProjSIN.new lon lat).c0 := by
  refine coverRec_no_miss_inv inCell (fun q => q = (ProjSIN.new lon lat).c0) (fun d l => ds ≤ d ∧ l = d - ds) target _
    (fun d l ⟨h1, h2⟩ => ⟨by omega, by omega⟩) hcover ?_ fuel ds root 0 out ⟨Nat.le_refl _, by omega⟩ h _ hq rfl
  intro d hh l ⟨hds, hl⟩ hk q' hq' hR
  subst hR
  obtain ⟨c, D, hc, hdl, hnc, hov⟩ := ellClassifier_skip cfg target _ dists d hh l hk
  have hpos := overlapCone_some_pos _ _ _ _ _ hov
  have hle := H1 d hh c D hds hc (by rw [← hl]; exact hdl) hq'
  rcases centre_cone_kept lon lat a b pa c.1 c.2 D hb hba ha hmin ⟨hpos, hD D (List.mem_of_getElem? hdl)⟩ hle with h1 | h1
  · rw [h1] at hnc; exact absurd hnc (by simp)
  · rw [h1] at hov; exact absurd hov (by simp)

/-- **circular case: the descent misses nothing, given the envelope hypothesis** (`H1`: every point of a visited cell is
    within the `D` of its level of the cell centre): for `a = b`, every point of the cone of radius `a` around the centre
    lying in the start cell lies in a cell of the output.  (`D ≤ π/2` and `a + D ≤ 3` hold for every level: `D ≤ 0.85`.) -/
theorem econe_scheme_circular_no_miss (cfg : Cfg) (lon lat a pa : ℝ) (ha : 0 < a ∧ a < π / 2)
    (hmin : 1 / 2 ^ 1024 < sin a) (dists : List ℝ) (hD : ∀ D ∈ dists, D ≤ π / 2 ∧ a + D ≤ 3)
    (inCell : Nat → Nat → ℝ × ℝ → Prop) (target ds : Nat)
    (hcover : ∀ d h q, d ≠ target → inCell d h q → inCell (d + 1) (h <<< 2) q ∨ inCell (d + 1) (h <<< 2 ||| 1) q ∨
      inCell (d + 1) (h <<< 2 ||| 2) q ∨ inCell (d + 1) (h <<< 2 ||| 3) q)
    (H1 : ∀ d h c D q, ds ≤ d → Hash.center (α := ℝ) cfg d h = some c → dists[d - ds]? = some D → inCell d h q →
      adist c q ≤ D)
    (fuel root : Nat) (out : List Cell)
    (h : coverRec target (ellClassifier (α := ℝ) cfg target (ECone.new lon lat a a pa) dists) fuel ds root 0 = some out)
    (q : ℝ × ℝ) (hq : inCell ds root q) (hin : adist q (ProjSIN.new lon lat).c0 ≤ a) :
    ∃ c ∈ out, inCell c.depth c.hash q := by
  refine coverRec_no_miss_inv inCell (fun q => adist q (ProjSIN.new lon lat).c0 ≤ a) (fun d l => ds ≤ d ∧ l = d - ds)
    target _ (fun d l ⟨h1, h2⟩ => ⟨by omega, by omega⟩) hcover ?_ fuel ds root 0 out ⟨Nat.le_refl _, by omega⟩ h q hq hin
  intro d hh l ⟨hds, hl⟩ hk q' hq' hR
  obtain ⟨c, D, hc, hdl, hnc, hov⟩ := ellClassifier_skip cfg target _ dists d hh l hk
  have hpos := overlapCone_some_pos _ _ _ _ _ hov
  have hle := H1 d hh c D q' hds hc (by rw [← hl]; exact hdl) hq'
  have htri := adist_triangle c q' (ProjSIN.new lon lat).c0
  obtain ⟨hD1, hD2⟩ := hD D (List.mem_of_getElem? hdl)
  rcases circular_keep_sound lon lat a pa c.1 c.2 D ha hmin ⟨hpos, hD1⟩ hD2 (by show adist c _ ≤ _; linarith) with h1 | h1
  · rw [h1] at hnc; exact absurd hnc (by simp)
  · rw [h1] at hov; exact absurd hov (by simp)

/-- **circular case: `full` flags are truthful, given the envelope hypothesis**: for `a = b`, a cell of the output flagged
    full either has all its points within `a` of the centre (it passed `contains_cone`), or is at the target depth with
    its four vertices within `a` of the centre -/
theorem econe_scheme_circular_full_inside (cfg : Cfg) (lon lat a pa : ℝ) (ha : 0 < a ∧ a < π / 2)
    (dists : List ℝ) (hD : ∀ D ∈ dists, 0 ≤ D)
    (inCell : Nat → Nat → ℝ × ℝ → Prop) (target ds : Nat)
    (H1 : ∀ d h c D q, ds ≤ d → Hash.center (α := ℝ) cfg d h = some c → dists[d - ds]? = some D → inCell d h q →
      adist c q ≤ D)
    (fuel root : Nat) (out : List Cell)
    (h : coverRec target (ellClassifier (α := ℝ) cfg target (ECone.new lon lat a a pa) dists) fuel ds root 0 = some out)
    (c : Cell) (hc : c ∈ out) (hf : c.full = true) :
    (∀ q, inCell c.depth c.hash q → adist q (ProjSIN.new lon lat).c0 ≤ a) ∨
    (c.depth = target ∧ ∃ vs, Hash.vertices (α := ℝ) cfg c.depth c.hash = some vs ∧
      ∀ v ∈ vs, adist v (ProjSIN.new lon lat).c0 ≤ a) := by
  obtain ⟨l, ⟨hds, hl⟩, hrule⟩ := coverRec_full_rule_inv (fun d l => ds ≤ d ∧ l = d - ds) target _
    (fun d l ⟨h1, h2⟩ => ⟨by omega, by omega⟩) fuel ds root 0 out ⟨Nat.le_refl _, by omega⟩ h c hc hf
  rcases hrule with hk | ⟨_, hk⟩
  · left
    obtain ⟨ctr, D, hctr, hdl, hcc⟩ := ellClassifier_full cfg target _ dists _ _ l hk
    intro q hq
    have hle := H1 _ _ ctr D q hds hctr (by rw [← hl]; exact hdl) hq
    exact (contains_cone_circular_sound lon lat a pa ctr.1 ctr.2 D ha (hD D (List.mem_of_getElem? hdl)) hcc q hle).1
  · right
    obtain ⟨hdt, vs, hvs, hall⟩ := ellClassifier_descend_full cfg target _ dists _ _ l hk
    refine ⟨hdt, vs, hvs, ?_⟩
    intro v hv
    have := List.all_eq_true.mp hall v hv
    exact (econe_contains_circular' lon lat a pa v.1 v.2 ha).mp this

end Hpx.Sph
