/-
C09 for the coverage queries: **every BMOC returned by `cone_coverage_approx(_custom)`, `elliptical_cone_coverage(_custom)`
and `polygon_coverage` (both modes) is well formed** — for every input, every numeric instance `α` (whatever the
floating-point tests answer), every depth `≤ 29`, both z-order builds, debug assertions on or off.

No hypothesis on the centre cell `h0 = hash(depth_start, lon, lat)` is needed: `Layer::neighbours` checks its argument
(`check_hash`, `hash ≥ n_hash → panic`), so when the coverage returns a BMOC the centre cell was in range.
-/
import HpxVerif.Lemmas.CoverWF
import HpxVerif.Lemmas.TopoLift2
import HpxVerif.Lemmas.BmocLower
import HpxVerif.Lemmas.BmocBuilder
import HpxVerif.Model.PolyExact
import HpxVerif.Lemmas.BmocAnd
import HpxVerif.Lemmas.BmocNot
import HpxVerif.Lemmas.BmocOr2
import HpxVerif.Lemmas.BmocXor3

set_option autoImplicit false

namespace Hpx.CoverAll
open Hpx Hpx.Bmoc Hpx.Cover

/-! ## generic ingredients -/

/-- the starting depth returned by `best_starting_depth` is at most 29 (whatever the comparisons answer) -/
theorem bestTree_le {α : Type} (lt : α → α → Bool) (T : Nat → α) (r : α) : Gen.bestStartingDepthTree lt T r ≤ 29 := by
  unfold Gen.bestStartingDepthTree
  repeat' split
  all_goals omega

theorem bestDepth_le {α : Type} [Num α] (r : α) (ds : Nat) (h : C2V.bestStartingDepth r = some ds) : ds ≤ 29 := by
  unfold C2V.bestStartingDepth at h
  split at h
  · simp at h
  · simp only [Option.some.injEq] at h
    subst h
    exact bestTree_le _ _ _

/-- `Layer::neighbours` panics on a cell number out of range: a returned map means the argument was in range -/
theorem neighbours_some_lt {cfg : Cfg} {d h : Nat} {inc : Bool} {nm : List (MW × Nat)}
    (hn : Topo.neighbours cfg d h inc = some nm) : h < 12 * 4 ^ d := by
  unfold Topo.neighbours at hn
  split at hn
  · simp at hn
  · rename_i hlt
    rw [TopoLift.nHash_eq] at hlt
    omega

/-- a cell lying inside an in-range cell of depth `ds ≤ d` is in range -/
theorem inRange_of_below_root (D ds d h r : Nat) (hds : ds ≤ d) (hd : d ≤ D) (hr : r < 12 * 4 ^ ds)
    (hhi : hi D ⟨d, h, true⟩ ≤ hi D ⟨ds, r, true⟩) : h < 12 * 4 ^ d := by
  unfold hi at hhi
  simp only at hhi
  have e : 4 ^ D = 4 ^ d * 4 ^ (D - d) := by rw [← Nat.pow_add]; congr 1; omega
  have e' : 4 ^ D = 4 ^ ds * 4 ^ (D - ds) := by rw [← Nat.pow_add]; congr 1; omega
  have hp : 0 < 4 ^ (D - d) := Nat.pow_pos (by decide)
  have h1 : (h + 1) * 4 ^ (D - d) ≤ 12 * 4 ^ d * 4 ^ (D - d) := by
    calc (h + 1) * 4 ^ (D - d) ≤ (r + 1) * 4 ^ (D - ds) := hhi
      _ ≤ (12 * 4 ^ ds) * 4 ^ (D - ds) := Nat.mul_le_mul_right _ (by omega)
      _ = 12 * 4 ^ D := by rw [Nat.mul_assoc, ← e']
      _ = 12 * 4 ^ d * 4 ^ (D - d) := by rw [Nat.mul_assoc, ← e]
  have := Nat.le_of_mul_le_mul_right h1 hp
  omega

/-- **the loop over strictly increasing in-range start cells, any classifier, any fuel**: well formed and in range -/
theorem rootsFold_wf (target : Nat) (κ : Nat → Nat → Nat → Option Verdict) (fuel ds : Nat) (hds : ds ≤ target)
    (roots : List Nat) (hp : roots.Pairwise (· < ·)) (hr : ∀ r ∈ roots, r < 12 * 4 ^ ds) (out : List Cell)
    (h : roots.foldlM (fun acc r => (coverRec target κ fuel ds r 0).map (acc ++ ·)) [] = some out) :
    WF target out ∧ ∀ c ∈ out, InRange c := by
  obtain ⟨g1, g2, _, _⟩ := rootsFold target κ target (Nat.le_refl _) fuel ds hds roots [] out hp trivial (by simp) h
  refine ⟨g1, ?_⟩
  intro c hc
  rcases g2 c hc with h0 | ⟨r, hrm, o, ho, hco⟩
  · simp at h0
  · have hb := coverRec_below target κ target (Nat.le_refl _) fuel ds r 0 o hds ho
    obtain ⟨_, hhi, hdl, hdt⟩ := hb.2 c hco
    exact inRange_of_below_root target ds c.depth c.hash r hdl hdt (hr r hrm) hhi

/-- the start cells `sort(neighbours(h0, true))` -/
theorem startFold_wf (cfg : Cfg) (target : Nat) (κ : Nat → Nat → Nat → Option Verdict) (fuel ds : Nat)
    (hds : ds ≤ target) (hd : ds ≤ 29) (h0 : Nat) (nm : List (MW × Nat))
    (hnm : Topo.neighbours cfg ds h0 true = some nm) (out : List Cell)
    (h : (sortNat (nm.map (·.2))).foldlM (fun acc r => (coverRec target κ fuel ds r 0).map (acc ++ ·)) [] = some out) :
    WF target out ∧ ∀ c ∈ out, InRange c := by
  obtain ⟨s1, s2, _⟩ :=
    TopoLift.neighbours_values_sorted_distinct cfg ds hd h0 (neighbours_some_lt hnm) true nm hnm
  exact rootsFold_wf target κ fuel ds hds _ s1 s2 out h

/-- the twelve base cells as start cells -/
theorem baseFold_wf (target : Nat) (κ : Nat → Nat → Nat → Option Verdict) (fuel : Nat) (out : List Cell)
    (h : (List.range 12).foldlM (fun acc r => (coverRec target κ fuel 0 r 0).map (acc ++ ·)) [] = some out) :
    WF target out ∧ ∀ c ∈ out, InRange c :=
  baseCellsFold_wf target κ fuel out h

/-- the all-sky answer: the twelve base cells, full -/
theorem allsky_wf (depth : Nat) :
    WF depth ((List.range 12).map fun h => ({ depth := 0, hash := h, full := true } : Cell)) ∧
    ∀ c ∈ (List.range 12).map fun h => ({ depth := 0, hash := h, full := true } : Cell), InRange c := by
  refine ⟨?_, ?_⟩
  · have : ∀ (k n : Nat), WF depth ((List.range' k n).map fun h => ({ depth := 0, hash := h, full := true } : Cell)) := by
      intro k n
      induction n generalizing k with
      | zero => simp [WF]
      | succ n ih =>
        simp only [List.range'_succ, List.map_cons]
        refine ⟨Nat.zero_le _, ?_, ih (k + 1)⟩
        intro c' hc'
        simp only [List.mem_map, List.mem_range'_1] at hc'
        obtain ⟨a, ha, rfl⟩ := hc'
        show (k + 1) * 4 ^ (depth - 0) ≤ a * 4 ^ (depth - 0)
        exact Nat.mul_le_mul_right _ ha.1
    have := this 0 12
    rwa [← List.range_eq_range'] at this
  · intro c hc
    simp only [List.mem_map, List.mem_range] at hc
    obtain ⟨a, ha, rfl⟩ := hc
    show a < 12 * 4 ^ 0
    simpa using ha

/-! ## the small-region branch: neighbours at the starting depth, filtered, brought to the target depth, sorted, deduplicated -/

/-- a strictly increasing list of in-range numbers, as partial (or full) cells of one depth -/
theorem sameDepth_wf (depth : Nat) (fl : Bool) (l : List Nat) (hp : l.Pairwise (· < ·)) (hr : ∀ v ∈ l, v < 12 * 4 ^ depth) :
    WF depth (l.map fun h => ({ depth := depth, hash := h, full := fl } : Cell)) ∧
    ∀ c ∈ l.map fun h => ({ depth := depth, hash := h, full := fl } : Cell), InRange c := by
  refine ⟨?_, ?_⟩
  · induction l with
    | nil => trivial
    | cons a l ih =>
      rw [List.pairwise_cons] at hp
      simp only [List.map_cons]
      refine ⟨Nat.le_refl _, ?_, ih hp.2 (fun v hv => hr v (by simp [hv]))⟩
      intro c' hc'
      simp only [List.mem_map] at hc'
      obtain ⟨b, hb, rfl⟩ := hc'
      show (a + 1) * 4 ^ (depth - depth) ≤ b * 4 ^ (depth - depth)
      exact Nat.mul_le_mul_right _ (hp.1 b hb)
  · intro c hc
    simp only [List.mem_map] at hc
    obtain ⟨b, hb, rfl⟩ := hc
    exact hr b hb

/-- a fold whose step either keeps the accumulator or appends `g e`: every member of the result comes from the
    initial value or is some `g e` -/
theorem foldlM_members {β : Type} (g : β → Nat) (step : List Nat → β → Option (List Nat))
    (hstep : ∀ acc e acc', step acc e = some acc' → acc' = acc ∨ acc' = acc ++ [g e]) :
    ∀ (nm : List β) (init out : List Nat), nm.foldlM step init = some out →
      ∀ v ∈ out, v ∈ init ∨ ∃ e ∈ nm, v = g e := by
  intro nm
  induction nm with
  | nil =>
    intro init out h v hv
    simp only [List.foldlM_nil] at h
    cases h
    exact Or.inl hv
  | cons e nm ih =>
    intro init out h v hv
    simp only [List.foldlM_cons] at h
    cases hs : step init e with
    | none => simp [hs] at h
    | some acc' =>
      simp only [hs, Option.bind_eq_bind, Option.bind_some] at h
      rcases ih acc' out h v hv with h1 | ⟨e', he', rfl⟩
      · rcases hstep _ _ _ hs with rfl | rfl
        · exact Or.inl h1
        · rcases List.mem_append.1 h1 with h1 | h1
          · exact Or.inl h1
          · simp only [List.mem_singleton] at h1
            exact Or.inr ⟨e, by simp, h1⟩
      · exact Or.inr ⟨e', by simp [he'], rfl⟩

/-- **the small-region branch**: whatever the filter keeps, `sort; dedup` of the ancestors at the target depth of
    neighbours of an in-range cell is a well-formed in-range list of partial cells -/
theorem smallBranch_wf (cfg : Cfg) (depth ds : Nat) (hds : depth ≤ ds) (hd : ds ≤ 29) (h0 : Nat)
    (nm : List (MW × Nat)) (hnm : Topo.neighbours cfg ds h0 true = some nm)
    (step : List Nat → MW × Nat → Option (List Nat))
    (hstep : ∀ acc e acc', step acc e = some acc' → acc' = acc ∨ acc' = acc ++ [e.2 >>> ((ds - depth) <<< 1)])
    (l : List Nat) (hl : nm.foldlM step [] = some l) :
    WF depth ((dedupAdj (sortNat l)).map fun h => ({ depth := depth, hash := h, full := false } : Cell)) ∧
    ∀ c ∈ (dedupAdj (sortNat l)).map fun h => ({ depth := depth, hash := h, full := false } : Cell), InRange c := by
  obtain ⟨_, hv⟩ := TopoLift.neighbours_distinct_hash_center cfg ds hd h0 (neighbours_some_lt hnm) true nm hnm
  obtain ⟨s1, s2⟩ := Builder.sort_dedup_spec l
  refine sameDepth_wf depth false _ s1 ?_
  intro v hvm
  rcases foldlM_members (fun e : MW × Nat => e.2 >>> ((ds - depth) <<< 1)) step hstep nm [] l hl v ((s2 v).1 hvm)
    with h1 | ⟨e, he, rfl⟩
  · simp at h1
  · show e.2 >>> ((ds - depth) <<< 1) < 12 * 4 ^ depth
    rw [shr_eq_div]
    exact Lower.anc_lt hds (hv e.2 (List.mem_map.2 ⟨e, he, rfl⟩))

/-! ## the cone -/

/-- **every cell list the cone descent hands to the builder is well formed and in range**: all-sky, the twelve base
    cells, a starting depth with recursion, and the small-cone branch -/
theorem coneInternal_wf {α : Type} [Num α] (cfg : Cfg) (depth : Nat) (lon lat r : α) (cells : List Cell)
    (h : coneInternal cfg depth lon lat r = some cells) : WF depth cells ∧ ∀ c ∈ cells, InRange c := by
  unfold coneInternal at h
  split at h
  · cases h; exact allsky_wf depth
  · simp only [] at h
    split at h
    · split at h
      · simp at h
      · exact baseFold_wf depth _ (depth + 2) cells h
    · split at h
      · simp at h
      · rename_i ds hds
        have hd29 := bestDepth_le r ds hds
        split at h
        · rename_i hge
          split at h
          · simp at h
          · split at h
            · simp at h
            · split at h
              · simp at h
              · rename_i nm hnm
                simp only [Option.map_eq_some_iff] at h
                obtain ⟨l, hl, rfl⟩ := h
                refine smallBranch_wf cfg depth ds hge hd29 _ nm hnm _ ?_ l hl
                intro acc e acc' hs
                split at hs
                · simp at hs
                · split at hs
                  · cases hs; exact Or.inr rfl
                  · cases hs; exact Or.inl rfl
        · rename_i hlt
          split at h
          · simp at h
          · split at h
            · simp at h
            · split at h
              · simp at h
              · rename_i nm hnm
                exact startFold_wf cfg depth _ (depth + 2) ds (by omega) hd29 _ nm hnm cells h

/-! ## from the cell list to the BMOC: `to_bmoc_packing`, `to_lower_depth` -/

/-- the raw values of a well-formed cell list are strictly increasing -/
theorem wf_encode_increasing (dm : Nat) (l : List Cell) (h : WF dm l) : (l.map (encode dm)).Pairwise (· < ·) := by
  induction l with
  | nil => simp
  | cons c l ih =>
    simp only [List.map_cons, List.pairwise_cons]
    refine ⟨?_, ih h.tail⟩
    intro r hr
    obtain ⟨c', hc', rfl⟩ := List.mem_map.1 hr
    exact encode_lt h.1 (h.tail.depth_le c' hc') (h.2.1 c' hc')

/-- valid entries whose cells are well formed are strictly increasing as raw `u64` values -/
theorem entries_increasing (dm : Nat) (hdm : dm ≤ 29) (l : List Nat) (hv : ∀ r ∈ l, ValidRaw dm r)
    (hw : WF dm (cellsOf dm l)) : l.Pairwise (· < ·) := by
  rw [← map_encode_cellsOf dm hdm l hv]
  exact wf_encode_increasing dm _ hw

/-- what is proved of every returned BMOC -/
def WellFormed (depth : Nat) (b : BMOC) : Prop :=
  b.dmax = depth ∧ (∀ e ∈ b.entries, ValidRaw depth e) ∧ WF depth (cellsOf depth b.entries) ∧
  b.entries.Pairwise (· < ·)

theorem pack_finish (depth : Nat) (hd : depth ≤ 29) (cells : List Cell) (hw : WF depth cells)
    (hr : ∀ c ∈ cells, InRange c) :
    WellFormed depth { dmax := depth, entries := pack depth (cells.map (encode depth)) } := by
  obtain ⟨g1, g2, g3, _⟩ := packed_bmoc_wf depth hd cells hw hr
  exact ⟨rfl, g1, g2, g3⟩

theorem lower_finish (deep depth : Nat) (hdeep : deep ≤ 29) (cells : List Cell) (hw : WF deep cells)
    (hr : ∀ c ∈ cells, InRange c) (e : List Nat)
    (h : toLowerDepth deep depth (pack deep (cells.map (encode deep))) = some e) :
    WellFormed depth { dmax := depth, entries := e } := by
  obtain ⟨g1, g2, _, _⟩ := packed_bmoc_wf deep hdeep cells hw hr
  by_cases hlt : depth < deep
  · rw [(Lower.toLower_guard deep depth _).2 hlt] at h
    cases h
    obtain ⟨w1, w2⟩ := Lower.toLower_wf deep depth hdeep hlt _ g1 g2
    exact ⟨rfl, w2, w1, entries_increasing depth (by omega) _ w2 w1⟩
  · rw [(Lower.toLower_guard deep depth _).1 (by omega)] at h
    cases h

/-- no encoding step changes the list when nothing is packed (polygon coverage) -/
theorem encode_finish (depth : Nat) (hd : depth ≤ 29) (cells : List Cell) (hw : WF depth cells)
    (hr : ∀ c ∈ cells, InRange c) :
    WellFormed depth { dmax := depth, entries := cells.map (encode depth) } := by
  refine ⟨rfl, ?_, ?_, wf_encode_increasing depth cells hw⟩
  · intro e he
    obtain ⟨c, hc, rfl⟩ := List.mem_map.1 he
    exact ⟨c, hw.depth_le c hc, hr c hc, rfl⟩
  · show WF depth (cellsOf depth (cells.map (encode depth)))
    rw [cellsOf_map_encode depth hd cells hw.depth_le hr]
    exact hw

/-- **1. `cone_coverage_approx`**: every returned BMOC is well formed — all-sky, base-cell start, starting depth with
    recursion, small-cone branch; every input, every numeric instance, every build -/
theorem cone_coverage_wf {α : Type} [Num α] (cfg : Cfg) (depth : Nat) (lon lat r : α) (b : BMOC)
    (h : coneCoverageApprox cfg depth lon lat r = some b) :
    b.dmax = depth ∧ (∀ e ∈ b.entries, ValidRaw depth e) ∧ WF depth (cellsOf depth b.entries) ∧
    b.entries.Pairwise (· < ·) := by
  unfold coneCoverageApprox at h
  split at h
  · simp at h
  · simp only [Option.map_eq_some_iff] at h
    obtain ⟨cells, hcells, rfl⟩ := h
    obtain ⟨k1, k2⟩ := coneInternal_wf cfg depth lon lat r cells hcells
    exact pack_finish depth (by omega) cells k1 k2

/-- **2. `cone_coverage_approx_custom`**: descent at `depth + delta_depth`, then `to_lower_depth` and nothing else
    (`delta_depth = 0`: `cone_coverage_approx`) -/
theorem cone_coverage_custom_wf {α : Type} [Num α] (cfg : Cfg) (depth deltaDepth : Nat) (lon lat r : α) (b : BMOC)
    (h : coneCoverageApproxCustom cfg depth deltaDepth lon lat r = some b) :
    b.dmax = depth ∧ (∀ e ∈ b.entries, ValidRaw depth e) ∧ WF depth (cellsOf depth b.entries) ∧
    b.entries.Pairwise (· < ·) := by
  unfold coneCoverageApproxCustom at h
  split at h
  · simp at h
  · split at h
    · exact cone_coverage_wf cfg depth lon lat r b h
    · simp only [] at h
      split at h
      · simp at h
      · split at h
        · simp at h
        · rename_i cells hcells
          simp only [Option.map_eq_some_iff] at h
          obtain ⟨e, he, rfl⟩ := h
          obtain ⟨k1, k2⟩ := coneInternal_wf cfg _ lon lat r cells hcells
          exact lower_finish _ depth (by omega) cells k1 k2 e he

/-! ## the elliptical cone -/

open Hpx.Sph in
theorem ellInternal_wf {α : Type} [Num α] (cfg : Cfg) (depth : Nat) (lon lat a b pa : α) (cells : List Cell)
    (h : ellInternal cfg depth lon lat a b pa = some cells) : WF depth cells ∧ ∀ c ∈ cells, InRange c := by
  unfold ellInternal at h
  split at h
  · simp at h
  · split at h
    · cases h; exact allsky_wf depth
    · simp only [] at h
      split at h
      · split at h
        · simp at h
        · exact baseFold_wf depth _ (depth + 2) cells h
      · split at h
        · simp at h
        · rename_i ds hds
          have hd29 := bestDepth_le a ds hds
          split at h
          · simp at h
          · split at h
            · rename_i hge
              split at h
              · rename_i dist nm hdist hnm
                simp only [Option.map_eq_some_iff] at h
                obtain ⟨l, hl, rfl⟩ := h
                refine smallBranch_wf cfg depth ds hge hd29 _ nm hnm _ ?_ l hl
                intro acc e acc' hs
                split at hs
                · simp at hs
                · simp only [Option.map_eq_some_iff] at hs
                  obtain ⟨k, _, rfl⟩ := hs
                  cases k
                  · exact Or.inl rfl
                  · exact Or.inr rfl
              · simp at h
            · rename_i hlt
              split at h
              · rename_i dists nm hdists hnm
                exact startFold_wf cfg depth _ (depth + 2) ds (by omega) hd29 _ nm hnm cells h
              · simp at h

/-- **3. `elliptical_cone_coverage(_custom)`** (including `delta_depth = 0`): every returned BMOC is well formed -/
theorem elliptical_cone_coverage_wf {α : Type} [Num α] (cfg : Cfg) (depth deltaDepth : Nat) (lon lat a b pa : α)
    (m : BMOC) (h : Sph.ellipticalConeCoverageCustom cfg depth deltaDepth lon lat a b pa = some m) :
    m.dmax = depth ∧ (∀ e ∈ m.entries, ValidRaw depth e) ∧ WF depth (cellsOf depth m.entries) ∧
    m.entries.Pairwise (· < ·) := by
  unfold Sph.ellipticalConeCoverageCustom at h
  split at h
  · simp at h
  · split at h
    · simp only [Option.map_eq_some_iff] at h
      obtain ⟨cells, hcells, rfl⟩ := h
      obtain ⟨k1, k2⟩ := ellInternal_wf cfg depth lon lat a b pa cells hcells
      exact pack_finish depth (by omega) cells k1 k2
    · simp only [] at h
      split at h
      · simp at h
      · split at h
        · simp at h
        · rename_i cells hcells
          simp only [Option.map_eq_some_iff] at h
          obtain ⟨e, he, rfl⟩ := h
          obtain ⟨k1, k2⟩ := ellInternal_wf cfg _ lon lat a b pa cells hcells
          exact lower_finish _ depth (by omega) cells k1 k2 e he

/-! ## the polygon -/

/-- **4. `polygon_coverage`, for any extra cells in the sorted list** (none: approximate mode; the cells of the special
    points: exact mode) -/
theorem polygon_coverage_with_wf {α : Type} [Num α] (cfg : Cfg) (depth : Nat) (vertices : List (α × α))
    (extra : Sph.Polygon α → Option (List Nat)) (m : BMOC)
    (h : Sph.polygonCoverageWith cfg depth vertices extra = some m) :
    m.dmax = depth ∧ (∀ e ∈ m.entries, ValidRaw depth e) ∧ WF depth (cellsOf depth m.entries) ∧
    m.entries.Pairwise (· < ·) := by
  unfold Sph.polygonCoverageWith at h
  split at h
  · simp at h
  · rename_i hd
    split at h
    · simp at h
    · rename_i poly _
      split at h
      · simp at h
      · rename_i centre radius _
        simp only [] at h
        split at h
        · simp at h
        · rename_i ds roots hroots
          split at h
          · simp at h
          · split at h
            · simp at h
            · simp only [Option.map_eq_some_iff] at h
              obtain ⟨cells, hcells, rfl⟩ := h
              have key : WF depth cells ∧ ∀ c ∈ cells, InRange c := by
                split at hroots
                · simp only [Option.some.injEq, Prod.mk.injEq] at hroots
                  obtain ⟨rfl, rfl⟩ := hroots
                  exact baseFold_wf depth _ (depth + 2) cells hcells
                · split at hroots
                  · simp at hroots
                  · split at hroots
                    · simp at hroots
                    · rename_i h0 _
                      simp only [Option.map_eq_some_iff, Prod.mk.injEq] at hroots
                      obtain ⟨nm, hnm, rfl, rfl⟩ := hroots
                      exact startFold_wf cfg depth _ (depth + 2) _ (Nat.min_le_right _ _)
                        (Nat.le_trans (Nat.min_le_right _ _) (by omega)) h0 nm hnm cells hcells
              exact encode_finish depth (by omega) cells key.1 key.2

/-- **4. `polygon_coverage(vertices, exact_solution)`, both modes** -/
theorem polygon_coverage_wf {α : Type} [Num α] (cfg : Cfg) (depth : Nat) (vertices : List (α × α)) (exact : Bool)
    (m : BMOC) (h : Sph.polygonCoverage cfg depth vertices exact = some m) :
    m.dmax = depth ∧ (∀ e ∈ m.entries, ValidRaw depth e) ∧ WF depth (cellsOf depth m.entries) ∧
    m.entries.Pairwise (· < ·) :=
  polygon_coverage_with_wf cfg depth vertices _ m h

/-- the approximate mode as written in `Model/SphGeom.lean` -/
theorem polygon_coverage_approx_wf {α : Type} [Num α] (cfg : Cfg) (depth : Nat) (vertices : List (α × α))
    (m : BMOC) (h : Sph.polygonCoverageApprox cfg depth vertices = some m) :
    m.dmax = depth ∧ (∀ e ∈ m.entries, ValidRaw depth e) ∧ WF depth (cellsOf depth m.entries) ∧
    m.entries.Pairwise (· < ·) := by
  unfold Sph.polygonCoverageApprox at h
  split at h
  · simp at h
  · rename_i hd
    split at h
    · simp at h
    · rename_i poly _
      split at h
      · simp at h
      · rename_i centre radius _
        simp only [] at h
        split at h
        · simp at h
        · rename_i ds roots hroots
          split at h
          · simp at h
          · simp only [Option.map_eq_some_iff] at h
            obtain ⟨cells, hcells, rfl⟩ := h
            have key : WF depth cells ∧ ∀ c ∈ cells, InRange c := by
              split at hroots
              · simp only [Option.some.injEq, Prod.mk.injEq] at hroots
                obtain ⟨rfl, rfl⟩ := hroots
                exact baseFold_wf depth _ (depth + 2) cells hcells
              · split at hroots
                · simp at hroots
                · split at hroots
                  · simp at hroots
                  · rename_i h0 _
                    simp only [Option.map_eq_some_iff, Prod.mk.injEq] at hroots
                    obtain ⟨nm, hnm, rfl, rfl⟩ := hroots
                    exact startFold_wf cfg depth _ (depth + 2) _ (Nat.min_le_right _ _)
                      (Nat.le_trans (Nat.min_le_right _ _) (by omega)) h0 nm hnm cells hcells
            exact encode_finish depth (by omega) cells key.1 key.2

/-! ## 5. the returned BMOCs are `Good`; closure under the operators -/

/-- a BMOC as handed to the user: `depth_max ≤ 29`, valid raw entries, well-formed cell list
    (identical to `Hpx.C09.Good`) -/
def Good (A : BMOC) : Prop := A.dmax ≤ 29 ∧ (∀ r ∈ A.entries, ValidRaw A.dmax r) ∧ WF A.dmax A.cells

theorem good_of_wellFormed (depth : Nat) (hd : depth ≤ 29) (m : BMOC)
    (h : m.dmax = depth ∧ (∀ e ∈ m.entries, ValidRaw depth e) ∧ WF depth (cellsOf depth m.entries) ∧
      m.entries.Pairwise (· < ·)) : Good m := by
  obtain ⟨h1, h2, h3, _⟩ := h
  subst h1
  exact ⟨hd, h2, h3⟩

theorem cone_depth_le {α : Type} [Num α] {cfg : Cfg} {depth : Nat} {lon lat r : α} {b : BMOC}
    (h : coneCoverageApprox cfg depth lon lat r = some b) : depth ≤ 29 := by
  unfold coneCoverageApprox at h
  split at h
  · simp at h
  · omega

theorem cone_custom_depth_le {α : Type} [Num α] {cfg : Cfg} {depth deltaDepth : Nat} {lon lat r : α} {b : BMOC}
    (h : coneCoverageApproxCustom cfg depth deltaDepth lon lat r = some b) : depth ≤ 29 := by
  unfold coneCoverageApproxCustom at h
  split at h
  · simp at h
  · omega

theorem ell_depth_le {α : Type} [Num α] {cfg : Cfg} {depth deltaDepth : Nat} {lon lat a b pa : α} {m : BMOC}
    (h : Sph.ellipticalConeCoverageCustom cfg depth deltaDepth lon lat a b pa = some m) : depth ≤ 29 := by
  unfold Sph.ellipticalConeCoverageCustom at h
  split at h
  · simp at h
  · omega

theorem polygon_depth_le {α : Type} [Num α] {cfg : Cfg} {depth : Nat} {vertices : List (α × α)} {exact : Bool}
    {m : BMOC} (h : Sph.polygonCoverage cfg depth vertices exact = some m) : depth ≤ 29 := by
  unfold Sph.polygonCoverage Sph.polygonCoverageWith at h
  split at h
  · simp at h
  · omega

/-- **5. every BMOC returned by a coverage query is `Good`** (so `or_good`, `xor_good`, `not`, `and` apply to it) -/
theorem coverage_good {α : Type} [Num α] (cfg : Cfg) (m : BMOC) :
    (∀ depth (lon lat r : α), coneCoverageApprox cfg depth lon lat r = some m → Good m) ∧
    (∀ depth deltaDepth (lon lat r : α), coneCoverageApproxCustom cfg depth deltaDepth lon lat r = some m → Good m) ∧
    (∀ depth deltaDepth (lon lat a b pa : α),
      Sph.ellipticalConeCoverageCustom cfg depth deltaDepth lon lat a b pa = some m → Good m) ∧
    (∀ depth (vertices : List (α × α)) (exact : Bool), Sph.polygonCoverage cfg depth vertices exact = some m → Good m) :=
  ⟨fun depth lon lat r h => good_of_wellFormed depth (cone_depth_le h) m (cone_coverage_wf cfg depth lon lat r m h),
   fun depth dd lon lat r h =>
     good_of_wellFormed depth (cone_custom_depth_le h) m (cone_coverage_custom_wf cfg depth dd lon lat r m h),
   fun depth dd lon lat a b pa h =>
     good_of_wellFormed depth (ell_depth_le h) m (elliptical_cone_coverage_wf cfg depth dd lon lat a b pa m h),
   fun depth vs ex h => good_of_wellFormed depth (polygon_depth_le h) m (polygon_coverage_wf cfg depth vs ex m h)⟩

/-! ### closure: every BMOC reachable from coverage queries through `not`, `and`, `or`, `xor` is `Good` -/

theorem good_cells_inRange {A : BMOC} (g : Good A) : ∀ c ∈ A.cells, c.depth ≤ A.dmax ∧ InR c := by
  intro c hc
  obtain ⟨r, hr, rfl⟩ := List.mem_map.1 hc
  obtain ⟨_, h2, h3⟩ := raw_of_decode g.1 (g.2.1 r hr) rfl
  exact ⟨h2, h3⟩

theorem not_good (A : BMOC) (g : Good A) : Good (BMOC.not A) := by
  have hr : ∀ c ∈ cellsOf A.dmax A.entries, InR c := fun c hc => (good_cells_inRange g c hc).2
  have hcells : A.cells = cellsOf A.dmax A.entries := rfl
  obtain ⟨_, w1, r1⟩ := notCells_spec A.dmax g.1 (cellsOf A.dmax A.entries) g.2.2 hr
  have hent : (BMOC.not A).entries = (notCells (cellsOf A.dmax A.entries)).map (encode A.dmax) := rfl
  have hco := cellsOf_map_encode A.dmax g.1 _ w1.depth_le r1
  refine ⟨g.1, ?_, ?_⟩
  · intro r hr'
    rw [hent] at hr'
    obtain ⟨c, hc, rfl⟩ := List.mem_map.1 hr'
    exact ⟨c, w1.depth_le c hc, r1 c hc, rfl⟩
  · show WF A.dmax (cellsOf A.dmax (BMOC.not A).entries)
    rw [hent, hco]
    exact w1

theorem and_good (A B : BMOC) (gA : Good A) (gB : Good B) : Good (BMOC.and A B) := by
  have hD : max A.dmax B.dmax ≤ 29 := Nat.max_le.2 ⟨gA.1, gB.1⟩
  have wA : WF (max A.dmax B.dmax) A.cells := XorP.wf_mono_depth (Nat.le_max_left _ _) gA.2.2
  have wB : WF (max A.dmax B.dmax) B.cells := XorP.wf_mono_depth (Nat.le_max_right _ _) gB.2.2
  obtain ⟨w, ins⟩ := and_wf_inside (max A.dmax B.dmax) A.cells B.cells wA wB
  have hr : ∀ c ∈ andCells A.cells B.cells, InRange c := by
    intro c hc
    obtain ⟨c', hc', _, h2⟩ := (ins c hc).1
    obtain ⟨hd', hr'⟩ := good_cells_inRange gA c' hc'
    have hd'' : c'.depth ≤ max A.dmax B.dmax := Nat.le_trans hd' (Nat.le_max_left _ _)
    apply inR_of_hi (max A.dmax B.dmax) c (w.depth_le c hc)
    refine Nat.le_trans h2 ?_
    unfold hi
    have e : 4 ^ (max A.dmax B.dmax) = 4 ^ c'.depth * 4 ^ (max A.dmax B.dmax - c'.depth) := by
      rw [← Nat.pow_add]; congr 1; omega
    rw [e, ← Nat.mul_assoc]
    exact Nat.mul_le_mul_right _ hr'
  have hent : (BMOC.and A B).entries = (andCells A.cells B.cells).map (encode (max A.dmax B.dmax)) := rfl
  refine ⟨hD, ?_, ?_⟩
  · intro r hr'
    rw [hent] at hr'
    obtain ⟨c, hc, rfl⟩ := List.mem_map.1 hr'
    exact ⟨c, w.depth_le c hc, hr c hc, rfl⟩
  · show WF (max A.dmax B.dmax) (cellsOf (max A.dmax B.dmax) (BMOC.and A B).entries)
    rw [hent, cellsOf_map_encode _ hD _ w.depth_le hr]
    exact w

theorem or_good (A B : BMOC) (gA : Good A) (gB : Good B) : ∃ R, BMOC.or A B = some R ∧ Good R := by
  obtain ⟨R, h1, h2, h3, h4, _, _⟩ := bmoc_or_general A B gA.1 gB.1 ⟨gA.2.1, gA.2.2⟩ ⟨gB.2.1, gB.2.2⟩
  refine ⟨R, h1, ?_, ?_, ?_⟩
  · rw [h2]; have := gA.1; have := gB.1; omega
  · rw [h2]; exact h3
  · rw [h2]; exact h4

theorem xor_good (A B : BMOC) (gA : Good A) (gB : Good B) : ∃ R, BMOC.xor A B = some R ∧ Good R := by
  obtain ⟨R, h1, h2, h3, _, h5, _, _⟩ := bmoc_xor_valid A B gA.1 gB.1 gA.2.1 gB.2.1 gA.2.2 gB.2.2
  refine ⟨R, h1, ?_, h3, ?_⟩
  · rw [h2]; have := gA.1; have := gB.1; omega
  · rw [h2]; exact h5

/-- the BMOCs a user can obtain from the coverage queries and the four logical operators (numeric instance `α`) -/
inductive Reach (α : Type) [Num α] (cfg : Cfg) : BMOC → Prop
  | cone (depth : Nat) (lon lat r : α) (m : BMOC) : coneCoverageApprox cfg depth lon lat r = some m → Reach α cfg m
  | coneCustom (depth deltaDepth : Nat) (lon lat r : α) (m : BMOC) :
      coneCoverageApproxCustom cfg depth deltaDepth lon lat r = some m → Reach α cfg m
  | ell (depth deltaDepth : Nat) (lon lat a b pa : α) (m : BMOC) :
      Sph.ellipticalConeCoverageCustom cfg depth deltaDepth lon lat a b pa = some m → Reach α cfg m
  | poly (depth : Nat) (vertices : List (α × α)) (exact : Bool) (m : BMOC) :
      Sph.polygonCoverage cfg depth vertices exact = some m → Reach α cfg m
  | not (a : BMOC) : Reach α cfg a → Reach α cfg (BMOC.not a)
  | and (a b : BMOC) : Reach α cfg a → Reach α cfg b → Reach α cfg (BMOC.and a b)
  | or (a b m : BMOC) : Reach α cfg a → Reach α cfg b → BMOC.or a b = some m → Reach α cfg m
  | xor (a b m : BMOC) : Reach α cfg a → Reach α cfg b → BMOC.xor a b = some m → Reach α cfg m

/-- **every BMOC reachable from the coverage queries through any history of `not`/`and`/`or`/`xor` is well formed**,
    and `or`/`xor` never panic on such operands -/
theorem reach_good {α : Type} [Num α] (cfg : Cfg) (m : BMOC) (h : Reach α cfg m) : Good m := by
  induction h with
  | cone depth lon lat r m h => exact (coverage_good cfg m).1 depth lon lat r h
  | coneCustom depth dd lon lat r m h => exact (coverage_good cfg m).2.1 depth dd lon lat r h
  | ell depth dd lon lat a b pa m h => exact (coverage_good cfg m).2.2.1 depth dd lon lat a b pa h
  | poly depth vs ex m h => exact (coverage_good cfg m).2.2.2 depth vs ex h
  | not a _ ih => exact not_good a ih
  | and a b _ _ iha ihb => exact and_good a b iha ihb
  | or a b m _ _ hm iha ihb =>
    obtain ⟨R, h1, h2⟩ := or_good a b iha ihb
    rw [hm] at h1; cases h1; exact h2
  | xor a b m _ _ hm iha ihb =>
    obtain ⟨R, h1, h2⟩ := xor_good a b iha ihb
    rw [hm] at h1; cases h1; exact h2

theorem reach_or_xor_defined {α : Type} [Num α] (cfg : Cfg) (a b : BMOC) (ha : Reach α cfg a) (hb : Reach α cfg b) :
    (∃ m, BMOC.or a b = some m) ∧ ∃ m, BMOC.xor a b = some m := by
  obtain ⟨R, h1, _⟩ := or_good a b (reach_good cfg a ha) (reach_good cfg b hb)
  obtain ⟨R', h1', _⟩ := xor_good a b (reach_good cfg a ha) (reach_good cfg b hb)
  exact ⟨⟨R, h1⟩, ⟨R', h1'⟩⟩

/-! ## non-vacuity

The hypotheses `… = some b` are satisfiable in every branch.  At `Float` (`#eval`, bit-identical to the Rust code):
`coneCoverageApprox {} 3 0.3 0.2 r` returns the 12 base cells for `r = 4.0` (all-sky), 50+ entries for `r = 1.5`
(no starting depth: base-cell start) and `r = 0.5` (starting depth 0 < 3: neighbours + recursion), 9 entries for
`r = 0.05` (starting depth 3 = depth: small-cone branch) and `[1146]` for `r = 0.0001` (starting depth 12: small-cone
branch with ancestors); `coneCoverageApproxCustom {} 3 2 0.3 0.2 0.05` (descent at depth 5 from starting depth 3, then
`to_lower_depth`) returns `[1146, 1150, 1234, 1238]`; `ellipticalConeCoverageCustom {} 3 2 0.3 0.2 0.1 0.05 0.3` returns
6 entries, and `[1146]` with `deltaDepth = 0`, `a = 0.001`, `b = 0.0005` (starting depth 9: small branch);
`polygonCoverage {} 3 [(0.1,0.1),(0.4,0.1),(0.3,0.4)]` returns 7 entries in both modes.
The kernel can check the all-sky one; for the generic loops a classifier without floats is used. -/

example : (coneCoverageApprox {} 3 (0.3 : Float) 0.2 4.0).map (·.entries) =
    some [129, 385, 641, 897, 1153, 1409, 1665, 1921, 2177, 2433, 2689, 2945] := by decide +kernel

/-- a classifier that answers `full`, `descend`, `skip` according to the cell number -/
def κex (_d h _l : Nat) : Option Verdict :=
  if h % 3 = 0 then some .full else if h % 3 = 1 then some (.descend true) else some .skip

/-- `startFold_wf` applies: depth-1 start cells `[4, 5, 6, 7, 10, 11, 26, 27]` around cell 5, target depth 3:
    23 cells of depths 1, 2, 3 -/
example : ((sortNat (((Topo.neighbours {} 1 5 true).getD []).map (·.2))).foldlM
    (fun acc r => (coverRec 3 κex 5 1 r 0).map (acc ++ ·)) []).map
      (fun l => (l.length, l.take 4 |>.map fun c => (c.depth, c.hash))) =
    some (23, [(3, 64), (3, 66), (3, 67), (2, 18)]) := by decide +kernel

/-- `smallBranch_wf` applies: three kept neighbours of cell 200 at depth 3 have the same ancestor at depth 1; `dedup`
    after `sort` leaves one cell -/
example : (((Topo.neighbours {} 3 200 true).getD []).foldlM
    (fun acc (e : MW × Nat) => if e.2 % 2 = 0 then some (acc ++ [e.2 >>> ((3 - 1) <<< 1)]) else some acc)
      ([] : List Nat)).map (fun l => (l, dedupAdj (sortNat l))) = some ([12, 12, 12], [12]) := by decide +kernel

end Hpx.CoverAll

#print axioms Hpx.CoverAll.cone_coverage_wf
#print axioms Hpx.CoverAll.cone_coverage_custom_wf
#print axioms Hpx.CoverAll.elliptical_cone_coverage_wf
#print axioms Hpx.CoverAll.polygon_coverage_wf
#print axioms Hpx.CoverAll.polygon_coverage_approx_wf
#print axioms Hpx.CoverAll.coverage_good
#print axioms Hpx.CoverAll.reach_good
#print axioms Hpx.CoverAll.reach_or_xor_defined
