/-
C04 — `neighbours_complete`, `neighbourParts_symmetric`: every cell that has a vertex in common with `p` (as points of
the sphere) is returned by `neighbourParts n p dir` for some direction; the neighbour relation is symmetric.
-/
import HpxVerif.Lemmas.TopoLabel

namespace Hpx.TopoNeigh
open Hpx Hpx.Topo Hpx.TopoSpec MW

theorem zone_class (n : Nat) (a : Int) (hn : 1 ≤ n) (h0 : 0 ≤ a) (h1 : a ≤ n) :
    (a = 0 ∧ zone n (a - 1) = -1 ∧ zone n a = 0) ∨ (0 < a ∧ a < n ∧ zone n (a - 1) = 0 ∧ zone n a = 0) ∨
    (a = n ∧ zone n (a - 1) = 0 ∧ zone n a = 1) := by
  unfold zone
  omega

/-- `q` is one of the four (possibly virtual) cells of base cell `b` around its lattice corner `(a, c)` -/
def Around (n b : Nat) (a c : Int) (q : HashParts) : Prop :=
  nbAt n b (a - 1) (c - 1) = some q ∨ nbAt n b a (c - 1) = some q ∨ nbAt n b (a - 1) c = some q ∨
    nbAt n b a c = some q

/-! ## chart lemmas: a cell `(b', i', j')` one of whose vertices is glued to the corner `(a, c)` of base cell `b` is
one of the four cells that the model finds around that corner (12 base cells `b` × 12 base cells `b'` × 4 vertices ×
position of the corner: interior, on a side, at a corner of the base cell) -/

section
variable (n b' : Nat) (a c : Int) (i' j' : Nat) (w : MW) (hn : 1 ≤ n) (hn2 : n ≤ 4294967296) (hb' : b' < 12)
    (ha : 0 ≤ a) (ha' : a ≤ n) (hc : 0 ≤ c) (hc' : c ≤ n) (hi' : i' < n) (hj' : j' < n) (hw : w ∈ cardinals)
include hn hn2 hb' ha ha' hc hc' hi' hj' hw
set_option linter.unusedSimpArgs false

set_option maxHeartbeats 400000 in
theorem chart_0 : Glue n 0 b' a c (i' + dA w) (j' + dC w) → Around n 0 a c ⟨b', i', j'⟩ := by
  intro hG
  simp only [cardinals, List.mem_cons, List.not_mem_nil, or_false] at hw
  revert hG
  refine b12 (P := fun b' => Glue n 0 b' a c (i' + dA w) (j' + dC w) → Around n 0 a c ⟨b', i', j'⟩) b' hb'
    ?_ ?_ ?_ ?_ ?_ ?_ ?_ ?_ ?_ ?_ ?_ ?_ <;>
  rcases hw with rfl | rfl | rfl | rfl <;>
  simp only [Glue, dA, dC, Nat.reduceDiv, Nat.reduceMod, Nat.reduceAdd, Nat.reduceSub, false_imp_iff] <;>
  intro hG <;>
  rcases zone_class n a hn ha ha' with ⟨e1, z1, z2⟩ | ⟨e1, e1', z1, z2⟩ | ⟨e1, z1, z2⟩ <;>
  rcases zone_class n c hn hc hc' with ⟨e2, z3, z4⟩ | ⟨e2, e2', z3, z4⟩ | ⟨e2, z3, z4⟩ <;>
  (try omega) <;>
  simp only [Around, nbAt, z1, z2, z3, z4, nbZ, ofOffsets, ofIndex, seamRule, ncpRule, eqrRule, spcRule, baseCell,
    next, prev, oppo, Src.eval] <;>
  simp <;> omega

set_option maxHeartbeats 400000 in
theorem chart_1 : Glue n 1 b' a c (i' + dA w) (j' + dC w) → Around n 1 a c ⟨b', i', j'⟩ := by
  intro hG
  simp only [cardinals, List.mem_cons, List.not_mem_nil, or_false] at hw
  revert hG
  refine b12 (P := fun b' => Glue n 1 b' a c (i' + dA w) (j' + dC w) → Around n 1 a c ⟨b', i', j'⟩) b' hb'
    ?_ ?_ ?_ ?_ ?_ ?_ ?_ ?_ ?_ ?_ ?_ ?_ <;>
  rcases hw with rfl | rfl | rfl | rfl <;>
  simp only [Glue, dA, dC, Nat.reduceDiv, Nat.reduceMod, Nat.reduceAdd, Nat.reduceSub, false_imp_iff] <;>
  intro hG <;>
  rcases zone_class n a hn ha ha' with ⟨e1, z1, z2⟩ | ⟨e1, e1', z1, z2⟩ | ⟨e1, z1, z2⟩ <;>
  rcases zone_class n c hn hc hc' with ⟨e2, z3, z4⟩ | ⟨e2, e2', z3, z4⟩ | ⟨e2, z3, z4⟩ <;>
  (try omega) <;>
  simp only [Around, nbAt, z1, z2, z3, z4, nbZ, ofOffsets, ofIndex, seamRule, ncpRule, eqrRule, spcRule, baseCell,
    next, prev, oppo, Src.eval] <;>
  simp <;> omega

set_option maxHeartbeats 400000 in
theorem chart_2 : Glue n 2 b' a c (i' + dA w) (j' + dC w) → Around n 2 a c ⟨b', i', j'⟩ := by
  intro hG
  simp only [cardinals, List.mem_cons, List.not_mem_nil, or_false] at hw
  revert hG
  refine b12 (P := fun b' => Glue n 2 b' a c (i' + dA w) (j' + dC w) → Around n 2 a c ⟨b', i', j'⟩) b' hb'
    ?_ ?_ ?_ ?_ ?_ ?_ ?_ ?_ ?_ ?_ ?_ ?_ <;>
  rcases hw with rfl | rfl | rfl | rfl <;>
  simp only [Glue, dA, dC, Nat.reduceDiv, Nat.reduceMod, Nat.reduceAdd, Nat.reduceSub, false_imp_iff] <;>
  intro hG <;>
  rcases zone_class n a hn ha ha' with ⟨e1, z1, z2⟩ | ⟨e1, e1', z1, z2⟩ | ⟨e1, z1, z2⟩ <;>
  rcases zone_class n c hn hc hc' with ⟨e2, z3, z4⟩ | ⟨e2, e2', z3, z4⟩ | ⟨e2, z3, z4⟩ <;>
  (try omega) <;>
  simp only [Around, nbAt, z1, z2, z3, z4, nbZ, ofOffsets, ofIndex, seamRule, ncpRule, eqrRule, spcRule, baseCell,
    next, prev, oppo, Src.eval] <;>
  simp <;> omega

set_option maxHeartbeats 400000 in
theorem chart_3 : Glue n 3 b' a c (i' + dA w) (j' + dC w) → Around n 3 a c ⟨b', i', j'⟩ := by
  intro hG
  simp only [cardinals, List.mem_cons, List.not_mem_nil, or_false] at hw
  revert hG
  refine b12 (P := fun b' => Glue n 3 b' a c (i' + dA w) (j' + dC w) → Around n 3 a c ⟨b', i', j'⟩) b' hb'
    ?_ ?_ ?_ ?_ ?_ ?_ ?_ ?_ ?_ ?_ ?_ ?_ <;>
  rcases hw with rfl | rfl | rfl | rfl <;>
  simp only [Glue, dA, dC, Nat.reduceDiv, Nat.reduceMod, Nat.reduceAdd, Nat.reduceSub, false_imp_iff] <;>
  intro hG <;>
  rcases zone_class n a hn ha ha' with ⟨e1, z1, z2⟩ | ⟨e1, e1', z1, z2⟩ | ⟨e1, z1, z2⟩ <;>
  rcases zone_class n c hn hc hc' with ⟨e2, z3, z4⟩ | ⟨e2, e2', z3, z4⟩ | ⟨e2, z3, z4⟩ <;>
  (try omega) <;>
  simp only [Around, nbAt, z1, z2, z3, z4, nbZ, ofOffsets, ofIndex, seamRule, ncpRule, eqrRule, spcRule, baseCell,
    next, prev, oppo, Src.eval] <;>
  simp <;> omega

set_option maxHeartbeats 400000 in
theorem chart_4 : Glue n 4 b' a c (i' + dA w) (j' + dC w) → Around n 4 a c ⟨b', i', j'⟩ := by
  intro hG
  simp only [cardinals, List.mem_cons, List.not_mem_nil, or_false] at hw
  revert hG
  refine b12 (P := fun b' => Glue n 4 b' a c (i' + dA w) (j' + dC w) → Around n 4 a c ⟨b', i', j'⟩) b' hb'
    ?_ ?_ ?_ ?_ ?_ ?_ ?_ ?_ ?_ ?_ ?_ ?_ <;>
  rcases hw with rfl | rfl | rfl | rfl <;>
  simp only [Glue, dA, dC, Nat.reduceDiv, Nat.reduceMod, Nat.reduceAdd, Nat.reduceSub, false_imp_iff] <;>
  intro hG <;>
  rcases zone_class n a hn ha ha' with ⟨e1, z1, z2⟩ | ⟨e1, e1', z1, z2⟩ | ⟨e1, z1, z2⟩ <;>
  rcases zone_class n c hn hc hc' with ⟨e2, z3, z4⟩ | ⟨e2, e2', z3, z4⟩ | ⟨e2, z3, z4⟩ <;>
  (try omega) <;>
  simp only [Around, nbAt, z1, z2, z3, z4, nbZ, ofOffsets, ofIndex, seamRule, ncpRule, eqrRule, spcRule, baseCell,
    next, prev, oppo, Src.eval] <;>
  simp <;> omega

set_option maxHeartbeats 400000 in
theorem chart_5 : Glue n 5 b' a c (i' + dA w) (j' + dC w) → Around n 5 a c ⟨b', i', j'⟩ := by
  intro hG
  simp only [cardinals, List.mem_cons, List.not_mem_nil, or_false] at hw
  revert hG
  refine b12 (P := fun b' => Glue n 5 b' a c (i' + dA w) (j' + dC w) → Around n 5 a c ⟨b', i', j'⟩) b' hb'
    ?_ ?_ ?_ ?_ ?_ ?_ ?_ ?_ ?_ ?_ ?_ ?_ <;>
  rcases hw with rfl | rfl | rfl | rfl <;>
  simp only [Glue, dA, dC, Nat.reduceDiv, Nat.reduceMod, Nat.reduceAdd, Nat.reduceSub, false_imp_iff] <;>
  intro hG <;>
  rcases zone_class n a hn ha ha' with ⟨e1, z1, z2⟩ | ⟨e1, e1', z1, z2⟩ | ⟨e1, z1, z2⟩ <;>
  rcases zone_class n c hn hc hc' with ⟨e2, z3, z4⟩ | ⟨e2, e2', z3, z4⟩ | ⟨e2, z3, z4⟩ <;>
  (try omega) <;>
  simp only [Around, nbAt, z1, z2, z3, z4, nbZ, ofOffsets, ofIndex, seamRule, ncpRule, eqrRule, spcRule, baseCell,
    next, prev, oppo, Src.eval] <;>
  simp <;> omega

set_option maxHeartbeats 400000 in
theorem chart_6 : Glue n 6 b' a c (i' + dA w) (j' + dC w) → Around n 6 a c ⟨b', i', j'⟩ := by
  intro hG
  simp only [cardinals, List.mem_cons, List.not_mem_nil, or_false] at hw
  revert hG
  refine b12 (P := fun b' => Glue n 6 b' a c (i' + dA w) (j' + dC w) → Around n 6 a c ⟨b', i', j'⟩) b' hb'
    ?_ ?_ ?_ ?_ ?_ ?_ ?_ ?_ ?_ ?_ ?_ ?_ <;>
  rcases hw with rfl | rfl | rfl | rfl <;>
  simp only [Glue, dA, dC, Nat.reduceDiv, Nat.reduceMod, Nat.reduceAdd, Nat.reduceSub, false_imp_iff] <;>
  intro hG <;>
  rcases zone_class n a hn ha ha' with ⟨e1, z1, z2⟩ | ⟨e1, e1', z1, z2⟩ | ⟨e1, z1, z2⟩ <;>
  rcases zone_class n c hn hc hc' with ⟨e2, z3, z4⟩ | ⟨e2, e2', z3, z4⟩ | ⟨e2, z3, z4⟩ <;>
  (try omega) <;>
  simp only [Around, nbAt, z1, z2, z3, z4, nbZ, ofOffsets, ofIndex, seamRule, ncpRule, eqrRule, spcRule, baseCell,
    next, prev, oppo, Src.eval] <;>
  simp <;> omega

set_option maxHeartbeats 400000 in
theorem chart_7 : Glue n 7 b' a c (i' + dA w) (j' + dC w) → Around n 7 a c ⟨b', i', j'⟩ := by
  intro hG
  simp only [cardinals, List.mem_cons, List.not_mem_nil, or_false] at hw
  revert hG
  refine b12 (P := fun b' => Glue n 7 b' a c (i' + dA w) (j' + dC w) → Around n 7 a c ⟨b', i', j'⟩) b' hb'
    ?_ ?_ ?_ ?_ ?_ ?_ ?_ ?_ ?_ ?_ ?_ ?_ <;>
  rcases hw with rfl | rfl | rfl | rfl <;>
  simp only [Glue, dA, dC, Nat.reduceDiv, Nat.reduceMod, Nat.reduceAdd, Nat.reduceSub, false_imp_iff] <;>
  intro hG <;>
  rcases zone_class n a hn ha ha' with ⟨e1, z1, z2⟩ | ⟨e1, e1', z1, z2⟩ | ⟨e1, z1, z2⟩ <;>
  rcases zone_class n c hn hc hc' with ⟨e2, z3, z4⟩ | ⟨e2, e2', z3, z4⟩ | ⟨e2, z3, z4⟩ <;>
  (try omega) <;>
  simp only [Around, nbAt, z1, z2, z3, z4, nbZ, ofOffsets, ofIndex, seamRule, ncpRule, eqrRule, spcRule, baseCell,
    next, prev, oppo, Src.eval] <;>
  simp <;> omega

set_option maxHeartbeats 400000 in
theorem chart_8 : Glue n 8 b' a c (i' + dA w) (j' + dC w) → Around n 8 a c ⟨b', i', j'⟩ := by
  intro hG
  simp only [cardinals, List.mem_cons, List.not_mem_nil, or_false] at hw
  revert hG
  refine b12 (P := fun b' => Glue n 8 b' a c (i' + dA w) (j' + dC w) → Around n 8 a c ⟨b', i', j'⟩) b' hb'
    ?_ ?_ ?_ ?_ ?_ ?_ ?_ ?_ ?_ ?_ ?_ ?_ <;>
  rcases hw with rfl | rfl | rfl | rfl <;>
  simp only [Glue, dA, dC, Nat.reduceDiv, Nat.reduceMod, Nat.reduceAdd, Nat.reduceSub, false_imp_iff] <;>
  intro hG <;>
  rcases zone_class n a hn ha ha' with ⟨e1, z1, z2⟩ | ⟨e1, e1', z1, z2⟩ | ⟨e1, z1, z2⟩ <;>
  rcases zone_class n c hn hc hc' with ⟨e2, z3, z4⟩ | ⟨e2, e2', z3, z4⟩ | ⟨e2, z3, z4⟩ <;>
  (try omega) <;>
  simp only [Around, nbAt, z1, z2, z3, z4, nbZ, ofOffsets, ofIndex, seamRule, ncpRule, eqrRule, spcRule, baseCell,
    next, prev, oppo, Src.eval] <;>
  simp <;> omega

set_option maxHeartbeats 400000 in
theorem chart_9 : Glue n 9 b' a c (i' + dA w) (j' + dC w) → Around n 9 a c ⟨b', i', j'⟩ := by
  intro hG
  simp only [cardinals, List.mem_cons, List.not_mem_nil, or_false] at hw
  revert hG
  refine b12 (P := fun b' => Glue n 9 b' a c (i' + dA w) (j' + dC w) → Around n 9 a c ⟨b', i', j'⟩) b' hb'
    ?_ ?_ ?_ ?_ ?_ ?_ ?_ ?_ ?_ ?_ ?_ ?_ <;>
  rcases hw with rfl | rfl | rfl | rfl <;>
  simp only [Glue, dA, dC, Nat.reduceDiv, Nat.reduceMod, Nat.reduceAdd, Nat.reduceSub, false_imp_iff] <;>
  intro hG <;>
  rcases zone_class n a hn ha ha' with ⟨e1, z1, z2⟩ | ⟨e1, e1', z1, z2⟩ | ⟨e1, z1, z2⟩ <;>
  rcases zone_class n c hn hc hc' with ⟨e2, z3, z4⟩ | ⟨e2, e2', z3, z4⟩ | ⟨e2, z3, z4⟩ <;>
  (try omega) <;>
  simp only [Around, nbAt, z1, z2, z3, z4, nbZ, ofOffsets, ofIndex, seamRule, ncpRule, eqrRule, spcRule, baseCell,
    next, prev, oppo, Src.eval] <;>
  simp <;> omega

set_option maxHeartbeats 400000 in
theorem chart_10 : Glue n 10 b' a c (i' + dA w) (j' + dC w) → Around n 10 a c ⟨b', i', j'⟩ := by
  intro hG
  simp only [cardinals, List.mem_cons, List.not_mem_nil, or_false] at hw
  revert hG
  refine b12 (P := fun b' => Glue n 10 b' a c (i' + dA w) (j' + dC w) → Around n 10 a c ⟨b', i', j'⟩) b' hb'
    ?_ ?_ ?_ ?_ ?_ ?_ ?_ ?_ ?_ ?_ ?_ ?_ <;>
  rcases hw with rfl | rfl | rfl | rfl <;>
  simp only [Glue, dA, dC, Nat.reduceDiv, Nat.reduceMod, Nat.reduceAdd, Nat.reduceSub, false_imp_iff] <;>
  intro hG <;>
  rcases zone_class n a hn ha ha' with ⟨e1, z1, z2⟩ | ⟨e1, e1', z1, z2⟩ | ⟨e1, z1, z2⟩ <;>
  rcases zone_class n c hn hc hc' with ⟨e2, z3, z4⟩ | ⟨e2, e2', z3, z4⟩ | ⟨e2, z3, z4⟩ <;>
  (try omega) <;>
  simp only [Around, nbAt, z1, z2, z3, z4, nbZ, ofOffsets, ofIndex, seamRule, ncpRule, eqrRule, spcRule, baseCell,
    next, prev, oppo, Src.eval] <;>
  simp <;> omega

set_option maxHeartbeats 400000 in
theorem chart_11 : Glue n 11 b' a c (i' + dA w) (j' + dC w) → Around n 11 a c ⟨b', i', j'⟩ := by
  intro hG
  simp only [cardinals, List.mem_cons, List.not_mem_nil, or_false] at hw
  revert hG
  refine b12 (P := fun b' => Glue n 11 b' a c (i' + dA w) (j' + dC w) → Around n 11 a c ⟨b', i', j'⟩) b' hb'
    ?_ ?_ ?_ ?_ ?_ ?_ ?_ ?_ ?_ ?_ ?_ ?_ <;>
  rcases hw with rfl | rfl | rfl | rfl <;>
  simp only [Glue, dA, dC, Nat.reduceDiv, Nat.reduceMod, Nat.reduceAdd, Nat.reduceSub, false_imp_iff] <;>
  intro hG <;>
  rcases zone_class n a hn ha ha' with ⟨e1, z1, z2⟩ | ⟨e1, e1', z1, z2⟩ | ⟨e1, z1, z2⟩ <;>
  rcases zone_class n c hn hc hc' with ⟨e2, z3, z4⟩ | ⟨e2, e2', z3, z4⟩ | ⟨e2, z3, z4⟩ <;>
  (try omega) <;>
  simp only [Around, nbAt, z1, z2, z3, z4, nbZ, ofOffsets, ofIndex, seamRule, ncpRule, eqrRule, spcRule, baseCell,
    next, prev, oppo, Src.eval] <;>
  simp <;> omega

end

theorem chart (n b b' : Nat) (a c : Int) (i' j' : Nat) (w : MW) (hn : 1 ≤ n) (hn2 : n ≤ 4294967296) (hb : b < 12)
    (hb' : b' < 12) (ha : 0 ≤ a) (ha' : a ≤ n) (hc : 0 ≤ c) (hc' : c ≤ n) (hi' : i' < n) (hj' : j' < n)
    (hw : w ∈ cardinals) (hG : Glue n b b' a c (i' + dA w) (j' + dC w)) : Around n b a c ⟨b', i', j'⟩ := by
  revert hG
  exact b12 (P := fun b => Glue n b b' a c (i' + dA w) (j' + dC w) → Around n b a c ⟨b', i', j'⟩) b hb
    (chart_0 n b' a c i' j' w hn hn2 hb' ha ha' hc hc' hi' hj' hw)
    (chart_1 n b' a c i' j' w hn hn2 hb' ha ha' hc hc' hi' hj' hw)
    (chart_2 n b' a c i' j' w hn hn2 hb' ha ha' hc hc' hi' hj' hw)
    (chart_3 n b' a c i' j' w hn hn2 hb' ha ha' hc hc' hi' hj' hw)
    (chart_4 n b' a c i' j' w hn hn2 hb' ha ha' hc hc' hi' hj' hw)
    (chart_5 n b' a c i' j' w hn hn2 hb' ha ha' hc hc' hi' hj' hw)
    (chart_6 n b' a c i' j' w hn hn2 hb' ha ha' hc hc' hi' hj' hw)
    (chart_7 n b' a c i' j' w hn hn2 hb' ha ha' hc hc' hi' hj' hw)
    (chart_8 n b' a c i' j' w hn hn2 hb' ha ha' hc hc' hi' hj' hw)
    (chart_9 n b' a c i' j' w hn hn2 hb' ha ha' hc hc' hi' hj' hw)
    (chart_10 n b' a c i' j' w hn hn2 hb' ha ha' hc hc' hi' hj' hw)
    (chart_11 n b' a c i' j' w hn hn2 hb' ha ha' hc hc' hi' hj' hw)

theorem dir_of_offsets (x y : Int) (hx : -1 ≤ x) (hx' : x ≤ 1) (hy : -1 ≤ y) (hy' : y ≤ 1) :
    ∃ dir : MW, dir.offsetSe = x ∧ dir.offsetSw = y := by
  rcases (by omega : x = -1 ∨ x = 0 ∨ x = 1) with rfl | rfl | rfl <;>
  rcases (by omega : y = -1 ∨ y = 0 ∨ y = 1) with rfl | rfl | rfl
  · exact ⟨S, rfl, rfl⟩
  · exact ⟨SW, rfl, rfl⟩
  · exact ⟨W, rfl, rfl⟩
  · exact ⟨SE, rfl, rfl⟩
  · exact ⟨C, rfl, rfl⟩
  · exact ⟨NW, rfl, rfl⟩
  · exact ⟨E, rfl, rfl⟩
  · exact ⟨NE, rfl, rfl⟩
  · exact ⟨N, rfl, rfl⟩

theorem mem_dirs8 (dir : MW) (h : dir ≠ C) : dir ∈ dirs8 := by
  cases dir <;> first | exact absurd rfl h | decide

/-- a cell around a vertex of `p` is `neighbourParts n p dir` for some `dir` -/
theorem around_dir (n : Nat) (p q : HashParts) (v : MW)
    (h : Around n p.d0h ((p.i : Int) + dA v) ((p.j : Int) + dC v) q) : ∃ dir, neighbourParts n p dir = some q := by
  have h1 := dA_range v; have h2 := dC_range v
  have key : ∀ x y : Int, -1 ≤ x → x ≤ 1 → -1 ≤ y → y ≤ 1 →
      nbAt n p.d0h ((p.i : Int) + x) ((p.j : Int) + y) = some q → ∃ dir, neighbourParts n p dir = some q := by
    intro x y hx hx' hy hy' hxy
    obtain ⟨dir, e1, e2⟩ := dir_of_offsets x y hx hx' hy hy'
    exact ⟨dir, by rw [neighbourParts_eq_nbAt, e1, e2]; exact hxy⟩
  rcases h with h | h | h | h
  · refine key (dA v - 1) (dC v - 1) (by omega) (by omega) (by omega) (by omega) ?_
    rw [show (p.i : Int) + (dA v - 1) = p.i + dA v - 1 by omega, show (p.j : Int) + (dC v - 1) = p.j + dC v - 1 by omega]
    exact h
  · refine key (dA v) (dC v - 1) (by omega) (by omega) (by omega) (by omega) ?_
    rw [show (p.j : Int) + (dC v - 1) = p.j + dC v - 1 by omega]
    exact h
  · refine key (dA v - 1) (dC v) (by omega) (by omega) (by omega) (by omega) ?_
    rw [show (p.i : Int) + (dA v - 1) = p.i + dA v - 1 by omega]
    exact h
  · exact key (dA v) (dC v) (by omega) (by omega) (by omega) (by omega) h

/-- **C04, `neighbours_complete`**: every cell `q ≠ p` of the grid that has a vertex in common with `p` (as points of
    the sphere) is the neighbour of `p` in one of the eight directions.  Holds for every `n ≥ 1`. -/
theorem neighbours_complete (n : Nat) (p q : HashParts) (hn : 1 ≤ n) (hn2 : n ≤ 4294967296) (hp : Valid n p)
    (hq : Valid n q) (hne : q ≠ p) (ht : Touch n p q) : ∃ dir ∈ dirs8, neighbourParts n p dir = some q := by
  obtain ⟨v, hv, w, hw, e⟩ := ht
  rw [vkey_eq n p v hn hp hv, vkey_eq n q w hn hq hw] at e
  have h1 := dA_range v; have h2 := dC_range v; have h3 := dA_range w; have h4 := dC_range w
  obtain ⟨hpb, hpi, hpj⟩ := hp
  obtain ⟨hqb, hqi, hqj⟩ := hq
  have hG := (glue n _ _ _ _ _ _ (by omega) hpb hqb (by omega) (by omega) (by omega) (by omega) (by omega) (by omega)
      (by omega) (by omega)).1 e
  have hA := chart n p.d0h q.d0h _ _ q.i q.j w hn hn2 hpb hqb (by omega) (by omega) (by omega) (by omega) hqi hqj hw hG
  obtain ⟨dir, hd⟩ := around_dir n p ⟨q.d0h, q.i, q.j⟩ v hA
  refine ⟨dir, mem_dirs8 dir ?_, hd⟩
  rintro rfl
  rw [neighbourParts_C n p ⟨hpb, hpi, hpj⟩] at hd
  exact hne (Option.some.inj hd).symm

/-- the shared-vertex relation is symmetric -/
theorem touch_symm {n : Nat} {p q : HashParts} (h : Touch n p q) : Touch n q p := by
  obtain ⟨v, hv, w, hw, e⟩ := h
  exact ⟨w, hw, v, hv, e.symm⟩

/-- a neighbour touches the cell -/
theorem neighbour_touch (n : Nat) (p q : HashParts) (dir : MW) (hn : 1 ≤ n) (hn2 : n ≤ 4294967296)
    (hp : Valid n p) (h : neighbourParts n p dir = some q) : Touch n p q := by
  have hl := neighbour_labelled n p q dir hn hn2 hp h
  have hne : edgeOf dir ≠ [] := by cases dir <;> simp [edgeOf]
  obtain ⟨v, hv⟩ := List.exists_mem_of_ne_nil _ (hl ▸ hne)
  unfold shared at hv
  rw [List.mem_filter, decide_eq_true_eq, keys, List.mem_map] at hv
  obtain ⟨hv1, w, hw, e⟩ := hv
  exact ⟨v, hv1, w, hw, e.symm⟩

/-- **C04, `neighbourParts_symmetric`**: if `q` is the neighbour of `p` in a direction other than `C`, then `p` is the
    neighbour of `q` in one of the eight directions.  Holds for every `n ≥ 1`. -/
theorem neighbourParts_symmetric (n : Nat) (p q : HashParts) (dir : MW) (hn : 1 ≤ n) (hn2 : n ≤ 4294967296)
    (hp : Valid n p) (hdir : dir ≠ C) (h : neighbourParts n p dir = some q) :
    ∃ dir' ∈ dirs8, neighbourParts n q dir' = some p :=
  neighbours_complete n q p hn hn2 (neighbourParts_valid n p q dir hn hn2 hp h) hp
    (fun e => neighbour_ne_self n p q dir hn hn2 hp hdir h e.symm) (touch_symm (neighbour_touch n p q dir hn hn2 hp h))

/-- the form of the task statement: `q ≠ p` instead of `dir ≠ C` -/
theorem neighbourParts_symmetric' (n : Nat) (p q : HashParts) (dir : MW) (hn : 1 ≤ n) (hn2 : n ≤ 4294967296)
    (hp : Valid n p) (h : neighbourParts n p dir = some q) (hne : q ≠ p) :
    ∃ dir', neighbourParts n q dir' = some p := by
  have hdir : dir ≠ C := by
    rintro rfl
    rw [neighbourParts_C n p hp] at h
    exact hne (Option.some.inj h).symm
  obtain ⟨d, _, hd⟩ := neighbourParts_symmetric n p q dir hn hn2 hp hdir h
  exact ⟨d, hd⟩

/-- **C04, exact adjacency**: for two distinct cells of the grid, "`q` is a neighbour of `p` in one of the eight
    directions" is exactly "`p` and `q` have a vertex in common on the sphere".  Holds for every `n ≥ 1`. -/
theorem neighbours_exact (n : Nat) (p q : HashParts) (hn : 1 ≤ n) (hn2 : n ≤ 4294967296) (hp : Valid n p)
    (hq : Valid n q) (hne : q ≠ p) : (∃ dir ∈ dirs8, neighbourParts n p dir = some q) ↔ Touch n p q :=
  ⟨fun ⟨dir, _, h⟩ => neighbour_touch n p q dir hn hn2 hp h, neighbours_complete n p q hn hn2 hp hq hne⟩

/-! ## the 24 cells with 7 neighbours (`neighbours_count`), explicitly -/

/-- the list of the special cells: two per base cell -/
def specialCells (n : Nat) : List HashParts :=
  (List.range 12).flatMap fun b =>
    if b / 4 = 1 then [⟨b, 0, 0⟩, ⟨b, n - 1, n - 1⟩] else [⟨b, 0, n - 1⟩, ⟨b, n - 1, 0⟩]

theorem range12 : List.range 12 = [0, 1, 2, 3, 4, 5, 6, 7, 8, 9, 10, 11] := by decide

theorem specialCells_length (n : Nat) : (specialCells n).length = 24 := by
  simp [specialCells, range12]

theorem special_iff_mem (n : Nat) (p : HashParts) (hn : 1 ≤ n) (hp : Valid n p) :
    Special n p ↔ p ∈ specialCells n := by
  obtain ⟨b, i, j⟩ := p
  obtain ⟨hb, hi, hj⟩ := hp
  simp only at hb hi hj
  refine b12 (P := fun b => Special n ⟨b, i, j⟩ ↔ (⟨b, i, j⟩ : HashParts) ∈ specialCells n) b hb
    ?_ ?_ ?_ ?_ ?_ ?_ ?_ ?_ ?_ ?_ ?_ ?_ <;>
  simp [Special, specialCells, range12] <;> omega

theorem specialCells_nodup (n : Nat) (hn : 2 ≤ n) : (specialCells n).Nodup := by
  simp [specialCells, range12]
  omega

/-! ## the hypotheses are satisfiable; concrete instances (`n = 4`, depth 2) -/

example : Valid 4 ⟨3, 3, 1⟩ ∧ neighbourParts 4 ⟨3, 3, 1⟩ NE = some ⟨0, 1, 3⟩ ∧ (⟨0, 1, 3⟩ : HashParts) ≠ ⟨3, 3, 1⟩ := by
  decide
/-- across the seam between the polar facets 3 and 0 the shared side is the NE side of the first cell … -/
example : shared 4 ⟨3, 3, 1⟩ ⟨0, 1, 3⟩ = [E, N] :=
  neighbour_labelled 4 ⟨3, 3, 1⟩ ⟨0, 1, 3⟩ NE (by decide) (by decide) (by decide) (by decide)
/-- … and the way back is the NW direction (`direction_from_neighbour`: NE ↦ NW in the north polar cap) -/
example : neighbourParts 4 ⟨0, 1, 3⟩ NW = some ⟨3, 3, 1⟩ := by decide
/-- one of the 24 cells with 7 neighbours -/
example : Special 4 ⟨3, 3, 0⟩ ∧ neighbourParts 4 ⟨3, 3, 0⟩ E = none ∧ count 4 ⟨3, 3, 0⟩ = 7 :=
  ⟨by decide, by decide, by rw [neighbours_count 4 _ (by decide) (by decide)]; decide⟩
example : Touch 4 ⟨3, 3, 1⟩ ⟨0, 2, 3⟩ := ⟨N, by decide, W, by decide, by decide⟩

/-- the bound `n ≤ 2^32` of all the theorems cannot be dropped: the model, like the code, passes the shifted coordinates
    as `u32` (no `u32` nside reaches that bound: `n = 2^depth ≤ 2^29`) -/
example : neighbourParts 4294967297 ⟨0, 4294967296, 0⟩ SE = some ⟨5, 0, 4294967296⟩ ∧
    shared 4294967297 ⟨0, 4294967296, 0⟩ ⟨5, 0, 4294967296⟩ = [] := by decide

end Hpx.TopoNeigh

#print axioms Hpx.TopoNeigh.neighbourParts_valid
#print axioms Hpx.TopoNeigh.neighbour_labelled
#print axioms Hpx.TopoNeigh.neighbours_distinct
#print axioms Hpx.TopoNeigh.neighbours_count
#print axioms Hpx.TopoNeigh.neighbours_count_one
#print axioms Hpx.TopoNeigh.neighbours_complete
#print axioms Hpx.TopoNeigh.neighbourParts_symmetric
#print axioms Hpx.TopoNeigh.neighbours_exact
#print axioms Hpx.TopoNeigh.vkey_injective
#print axioms Hpx.TopoNeigh.centerXY_eq
#print axioms Hpx.TopoNeigh.special_iff_mem
#print axioms Hpx.TopoNeigh.specialCells_nodup
