/-
C04 — neighbours of the NESTED scheme: arithmetic layer.

* the model's `neighbourParts` in a form suitable for case analysis (`nbZ`: the zone of the shifted coordinates is an
  explicit argument; `nbAt`: the neighbour only depends on the base cell and on the shifted coordinates);
* `neighbourParts_valid`; `neighbourParts_none_iff` (where there is no neighbour), `neighbours_count` (8, or 7 exactly
  for the `Special` cells, `n ≥ 2`), `neighbours_count_one` (6 at `n = 1`);
* `centerXY_eq`: the centre of the specification is `Layer.centerXY`;
* the specification's `key` in linear form (no `%` by a variable): `key_eq`, `vkey_eq`, and, for every base cell, the key
  of the lattice corner `(a, c) ∈ [0, n]²` of that base cell (`Kp_0 … Kp_11`);
* `Glue`: the gluing relation of the twelve closed base cells (proved equivalent to key equality in
  `TopoGlue{N,E,S}.lean`).
Continued in `TopoLabel.lean` (`neighbour_labelled`, `neighbours_distinct`) and `TopoComplete.lean`
(`neighbours_complete`, `neighbourParts_symmetric`, `neighbours_exact`).

The statements hold for every grid side `1 ≤ n ≤ 2^32`: the model passes the shifted coordinates as `u32`
(`% 4294967296`), so for larger `n` (which no `u32` nside can reach) it would not compute the neighbour
(example at the end of `TopoComplete.lean`).
-/
import HpxVerif.Lemmas.TopoSpec

namespace Hpx.TopoNeigh
open Hpx Hpx.Topo Hpx.TopoSpec MW

/-! ## the model, with the zone made explicit -/

/-- `-1`, `0`, `1`: the shifted coordinate is below, inside, above `[0, n)` -/
def zone (n : Nat) (c : Int) : Int := if c < 0 then -1 else if c ≥ n then 1 else 0

/-- body of `neighbourParts` with the two zones as arguments -/
def nbZ (n : Nat) (b : Nat) (zi zj : Int) (i' j' : Int) : Option HashParts :=
  match MW.ofOffsets zi zj with
  | none => none
  | some C => some { d0h := b, i := i'.toNat, j := j'.toNat }
  | some bdir =>
    match seamRule b bdir with
    | none => none
    | some (b, si, sj) =>
      let iu := (i' % 4294967296).toNat
      let ju := (j' % 4294967296).toNat
      some { d0h := b, i := si.eval iu ju (n - 1), j := sj.eval iu ju (n - 1) }

/-- the neighbour only depends on the base cell and on the shifted coordinates -/
def nbAt (n : Nat) (b : Nat) (i' j' : Int) : Option HashParts := nbZ n b (zone n i') (zone n j') i' j'

theorem neighbourParts_eq_nbAt (n : Nat) (p : HashParts) (dir : MW) :
    neighbourParts n p dir = nbAt n p.d0h (p.i + dir.offsetSe) (p.j + dir.offsetSw) := rfl

theorem zone_cases (n : Nat) (c : Int) :
    (c < 0 ∧ zone n c = -1) ∨ (0 ≤ c ∧ c < n ∧ zone n c = 0) ∨ (0 ≤ c ∧ (n : Int) ≤ c ∧ zone n c = 1) := by
  unfold zone; split
  · omega
  · split <;> omega

/-- twelve-way case split -/
theorem b12 {P : Nat → Prop} (b : Nat) (hb : b < 12) (h0 : P 0) (h1 : P 1) (h2 : P 2) (h3 : P 3) (h4 : P 4)
    (h5 : P 5) (h6 : P 6) (h7 : P 7) (h8 : P 8) (h9 : P 9) (h10 : P 10) (h11 : P 11) : P b := by
  match b, hb with
  | 0, _ => exact h0 | 1, _ => exact h1 | 2, _ => exact h2 | 3, _ => exact h3 | 4, _ => exact h4 | 5, _ => exact h5
  | 6, _ => exact h6 | 7, _ => exact h7 | 8, _ => exact h8 | 9, _ => exact h9 | 10, _ => exact h10
  | 11, _ => exact h11

set_option maxHeartbeats 400000 in
theorem nbAt_valid (n : Nat) (b : Nat) (i' j' : Int) (q : HashParts) (hn : 1 ≤ n) (hn2 : n ≤ 4294967296)
    (hb : b < 12) (h : nbAt n b i' j' = some q) : Valid n q := by
  revert h
  unfold nbAt
  rcases zone_cases n i' with ⟨h1, hz⟩ | ⟨h1, h2, hz⟩ | ⟨h1, h2, hz⟩ <;>
  rcases zone_cases n j' with ⟨h3, hz'⟩ | ⟨h3, h4, hz'⟩ | ⟨h3, h4, hz'⟩ <;>
  rw [hz, hz'] <;>
  refine b12 (P := fun b => nbZ n b _ _ i' j' = some q → Valid n q) b hb ?_ ?_ ?_ ?_ ?_ ?_ ?_ ?_ ?_ ?_ ?_ ?_ <;>
  simp only [nbZ, ofOffsets, ofIndex, seamRule, ncpRule, eqrRule, spcRule, baseCell, next, prev, oppo, Src.eval,
    Valid] <;>
  simp <;> (try (rintro rfl; simp; omega))

/-- **C04, `neighbourParts_valid`**: a returned neighbour is a cell of the grid -/
theorem neighbourParts_valid (n : Nat) (p q : HashParts) (dir : MW) (hn : 1 ≤ n) (hn2 : n ≤ 4294967296)
    (hp : Valid n p) (h : neighbourParts n p dir = some q) : Valid n q :=
  nbAt_valid n p.d0h _ _ q hn hn2 hp.1 (by rw [← neighbourParts_eq_nbAt]; exact h)

/-! ## where there is no neighbour; number of neighbours -/

/-- the shifted coordinates `(i', j')` in base cell `b` designate no cell: beyond the E or W corner of a polar-cap
    base cell, beyond the S or N corner of an equatorial base cell -/
def Hole (n : Nat) (b : Nat) (i' j' : Int) : Prop :=
  (b / 4 ≠ 1 ∧ ((i' < 0 ∧ (n : Int) ≤ j') ∨ ((n : Int) ≤ i' ∧ j' < 0))) ∨
  (b / 4 = 1 ∧ ((i' < 0 ∧ j' < 0) ∨ ((n : Int) ≤ i' ∧ (n : Int) ≤ j')))

set_option maxHeartbeats 400000 in
theorem nbAt_none_iff (n : Nat) (b : Nat) (i' j' : Int) (hb : b < 12) :
    nbAt n b i' j' = none ↔ Hole n b i' j' := by
  unfold nbAt
  rcases zone_cases n i' with ⟨h1, hz⟩ | ⟨h1, h2, hz⟩ | ⟨h1, h2, hz⟩ <;>
  rcases zone_cases n j' with ⟨h3, hz'⟩ | ⟨h3, h4, hz'⟩ | ⟨h3, h4, hz'⟩ <;>
  rw [hz, hz'] <;>
  refine b12 (P := fun b => nbZ n b _ _ i' j' = none ↔ Hole n b i' j') b hb ?_ ?_ ?_ ?_ ?_ ?_ ?_ ?_ ?_ ?_ ?_ ?_ <;>
  simp only [nbZ, ofOffsets, ofIndex, seamRule, ncpRule, eqrRule, spcRule, baseCell, next, prev, oppo, Src.eval,
    Hole] <;>
  simp <;> omega

/-- `p` has no neighbour in direction `dir`: E / W of the cells at the E / W corner of a polar-cap base cell,
    S / N of the cells at the S / N corner of an equatorial base cell -/
def Missing (n : Nat) (p : HashParts) (dir : MW) : Prop :=
  (p.d0h / 4 ≠ 1 ∧ ((dir = W ∧ p.i = 0 ∧ p.j + 1 = n) ∨ (dir = E ∧ p.i + 1 = n ∧ p.j = 0))) ∨
  (p.d0h / 4 = 1 ∧ ((dir = S ∧ p.i = 0 ∧ p.j = 0) ∨ (dir = N ∧ p.i + 1 = n ∧ p.j + 1 = n)))

instance (n : Nat) (p : HashParts) (dir : MW) : Decidable (Missing n p dir) := by unfold Missing; infer_instance

theorem neighbourParts_none_iff (n : Nat) (p : HashParts) (dir : MW) (hp : Valid n p) :
    neighbourParts n p dir = none ↔ Missing n p dir := by
  obtain ⟨hb, hi, hj⟩ := hp
  rw [neighbourParts_eq_nbAt, nbAt_none_iff _ _ _ _ hb]
  cases dir <;> simp [Hole, Missing, offsetSe, offsetSw] <;> omega

theorem isSome_iff (n : Nat) (p : HashParts) (dir : MW) (hp : Valid n p) :
    (neighbourParts n p dir).isSome = !decide (Missing n p dir) := by
  have := neighbourParts_none_iff n p dir hp
  cases h : neighbourParts n p dir <;> simp_all

/-- the cells at one of the 8 points of the sphere where only three cells meet (24 cells for every `n ≥ 2`) -/
def Special (n : Nat) (p : HashParts) : Prop :=
  (p.d0h / 4 ≠ 1 ∧ ((p.i = 0 ∧ p.j + 1 = n) ∨ (p.i + 1 = n ∧ p.j = 0))) ∨
  (p.d0h / 4 = 1 ∧ ((p.i = 0 ∧ p.j = 0) ∨ (p.i + 1 = n ∧ p.j + 1 = n)))

instance (n : Nat) (p : HashParts) : Decidable (Special n p) := by unfold Special; infer_instance

/-- number of directions in which `p` has a neighbour -/
def count (n : Nat) (p : HashParts) : Nat := (dirs8.filter fun d => (neighbourParts n p d).isSome).length

theorem neighbours_count (n : Nat) (p : HashParts) (hn : 2 ≤ n) (hp : Valid n p) :
    count n p = if Special n p then 7 else 8 := by
  have e : ∀ d, (neighbourParts n p d).isSome = !decide (Missing n p d) := fun d => isSome_iff n p d hp
  have hSE : ¬ Missing n p SE := by simp [Missing]
  have hSW : ¬ Missing n p SW := by simp [Missing]
  have hNE : ¬ Missing n p NE := by simp [Missing]
  have hNW : ¬ Missing n p NW := by simp [Missing]
  simp only [count, dirs8, List.filter, e]
  by_cases hS : Missing n p S <;> by_cases hE : Missing n p E <;> by_cases hW : Missing n p W <;>
  by_cases hN : Missing n p N <;>
  simp only [hS, hE, hW, hN, hSE, hSW, hNE, hNW, decide_true, decide_false, Bool.not_true, Bool.not_false,
    List.length_cons, List.length_nil] <;>
  simp [Missing] at hS hE hW hN <;>
  by_cases hsp : Special n p <;> simp only [hsp, ↓reduceIte] <;> simp only [Special] at hsp <;> omega

theorem neighbours_count_one (p : HashParts) (hp : Valid 1 p) : count 1 p = 6 := by
  have e : ∀ d, (neighbourParts 1 p d).isSome = !decide (Missing 1 p d) := fun d => isSome_iff 1 p d hp
  have hSE : ¬ Missing 1 p SE := by simp [Missing]
  have hSW : ¬ Missing 1 p SW := by simp [Missing]
  have hNE : ¬ Missing 1 p NE := by simp [Missing]
  have hNW : ¬ Missing 1 p NW := by simp [Missing]
  obtain ⟨hb, hi, hj⟩ := hp
  simp only [count, dirs8, List.filter, e]
  by_cases hS : Missing 1 p S <;> by_cases hE : Missing 1 p E <;> by_cases hW : Missing 1 p W <;>
  by_cases hN : Missing 1 p N <;>
  simp only [hS, hE, hW, hN, hSE, hSW, hNE, hNW, decide_true, decide_false, Bool.not_true, Bool.not_false,
    List.length_cons, List.length_nil] <;>
  simp [Missing] at hS hE hW hN <;> omega

/-! ## tie with `Layer.centerXY` (the centre used by the rest of the development) -/

/-- the centre of the specification is `Layer.centerXY` (which reduces the abscissa to `[0, 8n)`) -/
theorem centerXY_eq (d : Nat) (p : HashParts) (hb : p.d0h < 12) :
    Layer.centerXY d p =
      ((if (center (Layer.nside d) p).1 < 0 then (center (Layer.nside d) p).1 + 8 * (Layer.nside d : Int)
        else (center (Layer.nside d) p).1), (center (Layer.nside d) p).2) := by
  obtain ⟨b, i, j⟩ := p
  simp only at hb
  refine b12 (P := fun b => Layer.centerXY d ⟨b, i, j⟩ =
      ((if (center (Layer.nside d) ⟨b, i, j⟩).1 < 0 then (center (Layer.nside d) ⟨b, i, j⟩).1 + 8 * (Layer.nside d : Int)
        else (center (Layer.nside d) ⟨b, i, j⟩).1), (center (Layer.nside d) ⟨b, i, j⟩).2)) b hb
    ?_ ?_ ?_ ?_ ?_ ?_ ?_ ?_ ?_ ?_ ?_ ?_ <;>
  simp [Layer.centerXY, center, baseX, baseY] <;>
  omega

/-! ## the key in linear form -/

/-- `x mod 8n` for `−8n ≤ x < 16n` -/
def wrap (n x : Int) : Int := if x < 0 then x + 8 * n else if x < 8 * n then x else x - 8 * n

/-- first component of `key` -/
def keyX (n x y : Int) : Int :=
  let xw := wrap n x
  if 2 * n ≤ y ∨ y ≤ -(2 * n) then 0
  else if n < y then (if xw - facetX n xw = 2 * n - y then wrap n (xw + 2 * (y - n)) else xw)
  else if y < -n then (if xw - facetX n xw = 2 * n + y then wrap n (xw + 2 * (-y - n)) else xw)
  else xw

theorem emod_wrap (n x : Int) (h1 : -(8 * n) ≤ x) (h2 : x < 16 * n) : x % (8 * n) = wrap n x := by
  unfold wrap
  split
  · rw [← Int.add_mul_emod_self_left x (8 * n) 1, Int.emod_eq_of_lt] <;> omega
  · split
    · rw [Int.emod_eq_of_lt] <;> omega
    · rw [← Int.add_mul_emod_self_left x (8 * n) (-1), Int.emod_eq_of_lt] <;> omega

theorem wrap_range (n x : Int) (h1 : -(8 * n) ≤ x) (h2 : x < 16 * n) : 0 ≤ wrap n x ∧ wrap n x < 8 * n := by
  unfold wrap; split
  · omega
  · split <;> omega

theorem key_eq (n x y : Int) (_hn : 0 < n) (h1 : -(8 * n) ≤ x) (h2 : x < 16 * n) :
    key n (x, y) = (keyX n x y, y) := by
  have hw := wrap_range n x h1 h2
  have e1 := emod_wrap n x h1 h2
  have e2 : ∀ d : Int, 0 ≤ d → d < 8 * n → (wrap n x + d) % (8 * n) = wrap n (wrap n x + d) :=
    fun d hd1 hd2 => emod_wrap n _ (by omega) (by omega)
  simp only [key, keyX, e1]
  split
  · rfl
  · split
    · split
      · rw [e2 _ (by omega) (by omega)]
      · rfl
    · split
      · split
        · rw [e2 _ (by omega) (by omega)]
        · rfl
      · rfl

theorem key_eq' (n x y x' y' : Int) (hn : 0 < n) (h1 : -(8 * n) ≤ x) (h2 : x < 16 * n) (ex : x = x') (ey : y = y') :
    key n (x, y) = (keyX n x' y', y') := by
  subst ex ey; exact key_eq n x y hn h1 h2

/-! ## lattice corners of a base cell

The corner `(a, c)`, `0 ≤ a, c ≤ n`, of base cell `b` is the S vertex of the (possibly virtual) cell `(b, a, c)`:
the cell `(b, i, j)` has vertices `S = (i, j)`, `E = (i+1, j)`, `N = (i+1, j+1)`, `W = (i, j+1)`. -/

def cX (n : Int) (b : Nat) (a c : Int) : Int := baseX n b + (a - c)
def cY (n : Int) (b : Nat) (a c : Int) : Int := baseY n b + (a + c) - n
def KX (n : Int) (b : Nat) (a c : Int) : Int := keyX n (cX n b a c) (cY n b a c)
/-- key of the corner `(a, c)` of base cell `b` -/
def Kp (n : Int) (b : Nat) (a c : Int) : Int × Int := (KX n b a c, cY n b a c)

/-- corner offsets of the four vertices -/
def dA : MW → Int | E | N => 1 | _ => 0
def dC : MW → Int | N | W => 1 | _ => 0

theorem baseX_range (n : Int) (b : Nat) (hn : 0 < n) (hb : b < 12) : 0 ≤ baseX n b ∧ baseX n b ≤ 7 * n := by
  refine b12 (P := fun b => 0 ≤ baseX n b ∧ baseX n b ≤ 7 * n) b hb ?_ ?_ ?_ ?_ ?_ ?_ ?_ ?_ ?_ ?_ ?_ ?_ <;>
  simp [baseX] <;> omega

theorem vkey_eq (n : Nat) (p : HashParts) (v : MW) (hn : 1 ≤ n) (hp : Valid n p) (hv : v ∈ cardinals) :
    vkey n p v = Kp n p.d0h (p.i + dA v) (p.j + dC v) := by
  obtain ⟨hb, hi, hj⟩ := hp
  have hx := baseX_range n p.d0h (by omega) hb
  simp only [cardinals, List.mem_cons, List.not_mem_nil, or_false] at hv
  rcases hv with rfl | rfl | rfl | rfl <;>
  · simp only [vkey, vertex, center, Kp, KX, cX, cY, dA, dC]
    exact key_eq' _ _ _ _ _ (by omega) (by omega) (by omega) (by omega) (by omega)

/-! ### simplified corner keys, base cell by base cell (`o = 2 (b % 4) n`) -/

def wr (n x : Int) : Int := if 8 * n ≤ x then x - 8 * n else x
def wl (n x : Int) : Int := if x < 0 then x + 8 * n else x
/-- north polar cap: `y = a + c`; pole `a = c = n`; right side of the facet `a = n` -/
def KXn (n o a c : Int) : Int :=
  if 2 * n ≤ a + c then 0 else if n < a + c ∧ a = n then wr n (o + 2 * n + c) else wr n (o + n + (a - c))
/-- equatorial base cells -/
def KXe (n o a c : Int) : Int := wl n (o + (a - c))
/-- south polar cap: `y = a + c − 2n`; pole `a = c = 0`; right side of the facet `c = 0` -/
def KXs (n o a c : Int) : Int :=
  if a + c ≤ 0 then 0 else if a + c < n ∧ c = 0 then wr n (o + 3 * n - a) else wr n (o + n + (a - c))

section
variable (n a c : Int) (hn : 0 < n) (ha : 0 ≤ a) (ha' : a ≤ n) (hc : 0 ≤ c) (hc' : c ≤ n)
include hn ha ha' hc hc'

local macro "kx_n" : tactic =>
  `(tactic| (simp only [Kp, KX, cX, cY, baseX, baseY, keyX, wrap, facetX, KXn, wr]; simp; omega))
local macro "kx_e" : tactic =>
  `(tactic| (simp only [Kp, KX, cX, cY, baseX, baseY, keyX, wrap, facetX, KXe, wl]; simp; omega))
local macro "kx_s" : tactic =>
  `(tactic| (simp only [Kp, KX, cX, cY, baseX, baseY, keyX, wrap, facetX, KXs, wr]; simp; omega))

theorem Kp_0 : Kp n 0 a c = (KXn n 0 a c, a + c) := by kx_n
theorem Kp_1 : Kp n 1 a c = (KXn n (2 * n) a c, a + c) := by kx_n
theorem Kp_2 : Kp n 2 a c = (KXn n (4 * n) a c, a + c) := by kx_n
theorem Kp_3 : Kp n 3 a c = (KXn n (6 * n) a c, a + c) := by kx_n
theorem Kp_4 : Kp n 4 a c = (KXe n 0 a c, a + c - n) := by kx_e
theorem Kp_5 : Kp n 5 a c = (KXe n (2 * n) a c, a + c - n) := by kx_e
theorem Kp_6 : Kp n 6 a c = (KXe n (4 * n) a c, a + c - n) := by kx_e
theorem Kp_7 : Kp n 7 a c = (KXe n (6 * n) a c, a + c - n) := by kx_e
theorem Kp_8 : Kp n 8 a c = (KXs n 0 a c, a + c - 2 * n) := by kx_s
theorem Kp_9 : Kp n 9 a c = (KXs n (2 * n) a c, a + c - 2 * n) := by kx_s
theorem Kp_10 : Kp n 10 a c = (KXs n (4 * n) a c, a + c - 2 * n) := by kx_s
theorem Kp_11 : Kp n 11 a c = (KXs n (6 * n) a c, a + c - 2 * n) := by kx_s

end

/-! ## gluing of the twelve closed base cells

`Glue n b b' a c a' c'`: the corner `(a, c)` of base cell `b` and the corner `(a', c')` of base cell `b'` are the same
point of the sphere.  Written by rows (`b / 4`, `b' / 4`) and column difference (`(b' − b) mod 4`); *proved* equivalent
to the equality of keys in `Lemmas/TopoGlue{N,E,S}.lean` (all 144 pairs of base cells). -/

def Glue (n : Int) (b b' : Nat) (a c a' c' : Int) : Prop :=
  match b / 4, b' / 4, (b' % 4 + 4 - b % 4) % 4 with
  | 0, 0, 0 => a = a' ∧ c = c'
  | 0, 0, 1 => a = n ∧ c' = n ∧ a' = c
  | 0, 0, 2 => a = n ∧ c = n ∧ a' = n ∧ c' = n
  | 0, 0, 3 => c = n ∧ a' = n ∧ c' = a
  | 0, 1, 0 => a = 0 ∧ a' = n ∧ c' = c
  | 0, 1, 1 => c = 0 ∧ c' = n ∧ a' = a
  | 0, 2, 0 => a = 0 ∧ c = 0 ∧ a' = n ∧ c' = n
  | 1, 0, 0 => a = n ∧ a' = 0 ∧ c' = c
  | 1, 0, 3 => c = n ∧ c' = 0 ∧ a' = a
  | 1, 1, 0 => a = a' ∧ c = c'
  | 1, 1, 1 => a = n ∧ c = 0 ∧ a' = 0 ∧ c' = n
  | 1, 1, 3 => a = 0 ∧ c = n ∧ a' = n ∧ c' = 0
  | 1, 2, 0 => c = 0 ∧ c' = n ∧ a' = a
  | 1, 2, 3 => a = 0 ∧ a' = n ∧ c' = c
  | 2, 0, 0 => a = n ∧ c = n ∧ a' = 0 ∧ c' = 0
  | 2, 1, 0 => c = n ∧ c' = 0 ∧ a' = a
  | 2, 1, 1 => a = n ∧ a' = 0 ∧ c' = c
  | 2, 2, 0 => a = a' ∧ c = c'
  | 2, 2, 1 => c = 0 ∧ a' = 0 ∧ c' = a
  | 2, 2, 2 => a = 0 ∧ c = 0 ∧ a' = 0 ∧ c' = 0
  | 2, 2, 3 => a = 0 ∧ c' = 0 ∧ a' = c
  | _, _, _ => False

end Hpx.TopoNeigh
