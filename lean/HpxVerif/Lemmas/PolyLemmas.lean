/-
Lemmas for the polygon and elliptical-cone descents (C12, C13): sorted vertex-hash list, `is_in_list`,
concatenation over the root cells.
-/
import HpxVerif.Model.SphGeom
import HpxVerif.Lemmas.CoverLemmas

namespace Hpx.Sph
open Hpx Hpx.Cover Hpx.Bmoc

/-! ## `sort_unstable(); dedup()` -/

theorem mem_insertSorted (x y : Nat) (l : List Nat) : y ∈ insertSorted x l ↔ y = x ∨ y ∈ l := by
  induction l with
  | nil => simp [insertSorted]
  | cons a l ih =>
    unfold insertSorted
    split
    · simp
    · simp [ih]; grind

theorem mem_sortNat (y : Nat) (l : List Nat) : y ∈ sortNat l ↔ y ∈ l := by
  induction l with
  | nil => simp [sortNat]
  | cons a l ih =>
    have : sortNat (a :: l) = insertSorted a (sortNat l) := rfl
    rw [this, mem_insertSorted, ih]; simp

theorem pairwise_insertSorted (x : Nat) (l : List Nat) (h : l.Pairwise (· ≤ ·)) :
    (insertSorted x l).Pairwise (· ≤ ·) := by
  induction l with
  | nil => simp [insertSorted]
  | cons a l ih =>
    unfold insertSorted
    have h' := List.pairwise_cons.mp h
    split
    · rename_i hxa
      refine List.pairwise_cons.mpr ⟨?_, h⟩
      intro b hb
      rcases List.mem_cons.mp hb with rfl | hb
      · exact hxa
      · exact Nat.le_trans hxa (h'.1 b hb)
    · rename_i hxa
      refine List.pairwise_cons.mpr ⟨?_, ih h'.2⟩
      intro b hb
      rcases (mem_insertSorted x b l).mp hb with rfl | hb
      · omega
      · exact h'.1 b hb

theorem pairwise_sortNat (l : List Nat) : (sortNat l).Pairwise (· ≤ ·) := by
  induction l with
  | nil => simp [sortNat]
  | cons a l ih => exact pairwise_insertSorted a _ ih

theorem mem_dedupAdj (y : Nat) : ∀ l : List Nat, y ∈ dedupAdj l ↔ y ∈ l
  | [] => by simp [dedupAdj]
  | [x] => by simp [dedupAdj]
  | x :: z :: rest => by
    have ih := mem_dedupAdj y (z :: rest)
    unfold dedupAdj
    split
    · rename_i hxz
      have : x = z := by simpa using hxz
      subst this
      rw [ih]; simp
    · simp only [List.mem_cons] at ih ⊢
      rw [ih]

theorem dedupAdj_sublist : ∀ l : List Nat, (dedupAdj l).Sublist l
  | [] => by simp [dedupAdj]
  | [x] => by simp [dedupAdj]
  | x :: z :: rest => by
    have ih := dedupAdj_sublist (z :: rest)
    unfold dedupAdj
    split
    · exact List.Sublist.cons _ ih
    · exact List.Sublist.cons_cons _ ih

theorem pairwise_dedup_sort (l : List Nat) : (dedupAdj (sortNat l)).Pairwise (· ≤ ·) :=
  List.Pairwise.sublist (dedupAdj_sublist _) (pairwise_sortNat l)

theorem mem_dedup_sort (y : Nat) (l : List Nat) : y ∈ dedupAdj (sortNat l) ↔ y ∈ l := by
  rw [mem_dedupAdj, mem_sortNat]

/-! ## `is_in_list` finds every ancestor of a listed hash -/

theorem sorted_split (m : Nat) : ∀ (s : List Nat), s.Pairwise (· ≤ ·) →
    s = s.filter (· < m) ++ s.filter (fun x => decide (m ≤ x))
  | [], _ => by simp
  | x :: xs, h => by
    have h' := List.pairwise_cons.mp h
    by_cases hx : x < m
    · have ih := sorted_split m xs h'.2
      have hnot : ¬ m ≤ x := by omega
      simp only [List.filter_cons, hx, decide_true, if_true, hnot, decide_false, Bool.false_eq_true, if_false,
        List.cons_append]
      exact congrArg _ ih
    · have hmx : m ≤ x := by omega
      have h1 : xs.filter (· < m) = [] := by
        apply List.filter_eq_nil_iff.mpr
        intro a ha
        have := h'.1 a ha
        simp; omega
      have h2 : xs.filter (fun x => decide (m ≤ x)) = xs := by
        apply List.filter_eq_self.mpr
        intro a ha
        have := h'.1 a ha
        simp; omega
      simp [hx, hmx, h1, h2]

/-- every `(depth, hash)` that is an ancestor (or the cell itself) of a hash of the sorted list is found -/
theorem isInList_complete (depth hash depthHashs : Nat) (s : List Nat) (hs : s.Pairwise (· ≤ ·))
    (v : Nat) (hv : v ∈ s) (hanc : v >>> ((depthHashs - depth) <<< 1) = hash) :
    isInList depth hash depthHashs s = true := by
  unfold isInList
  generalize (depthHashs - depth) <<< 1 = tdd at *
  simp only
  split
  · rfl
  · have hsplit := sorted_split (hash <<< tdd) s hs
    have hpos : 0 < 2 ^ tdd := Nat.pow_pos (by omega)
    have hlo : hash <<< tdd ≤ v := by
      rw [Nat.shiftLeft_eq, ← hanc, Nat.shiftRight_eq_div_pow]
      exact Nat.div_mul_le_self v (2 ^ tdd)
    have hhi : v < (hash + 1) * 2 ^ tdd := by
      rw [← hanc, Nat.shiftRight_eq_div_pow]
      have := Nat.lt_div_mul_add (a := v) hpos
      rw [Nat.add_mul]; omega
    -- `v` is in the second part
    have hv2 : v ∈ s.filter (fun x => decide (hash <<< tdd ≤ x)) := by
      simp [List.mem_filter, hv, hlo]
    cases hsec : s.filter (fun x => decide (hash <<< tdd ≤ x)) with
    | nil => rw [hsec] at hv2; simp at hv2
    | cons w rest =>
      have hw : w ∈ s.filter (fun x => decide (hash <<< tdd ≤ x)) := by rw [hsec]; simp
      have hwlo : hash <<< tdd ≤ w := by simpa using (List.mem_filter.mp hw).2
      have hpw : (w :: rest).Pairwise (· ≤ ·) := by
        rw [← hsec]; exact List.Pairwise.sublist List.filter_sublist hs
      have hwv : w ≤ v := by
        rw [hsec] at hv2
        rcases List.mem_cons.mp hv2 with rfl | hr
        · exact Nat.le_refl _
        · exact (List.pairwise_cons.mp hpw).1 v hr
      have hidx : s[(s.filter (· < hash <<< tdd)).length]? = some w := by
        have : ∀ (a b : List Nat), (a ++ b)[a.length]? = b[0]? := by
          intro a b; rw [List.getElem?_append_right (Nat.le_refl _)]; simp
        have h3 := this (s.filter (· < hash <<< tdd)) (s.filter (fun x => decide (hash <<< tdd ≤ x)))
        rw [← hsplit, hsec] at h3
        simpa using h3
      have hwsh : w >>> tdd = hash := by
        rw [Nat.shiftRight_eq_div_pow]
        apply Nat.div_eq_of_lt_le
        · rw [Nat.shiftLeft_eq] at hwlo; exact hwlo
        · omega
      simp [hidx, hwsh]

end Hpx.Sph
