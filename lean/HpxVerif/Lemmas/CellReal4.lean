/-
C03 over the reals, fourth part: the round trip `hash_with_dxdy ∘ sph_coo` in the plane (every position `(dx, dy)`,
`0 ≤ dx, dy < 1`, of every cell is sent back to that cell with the same offsets; in particular the centre), and summary
statements on the branches of `depth0_bits`.
-/
import HpxVerif.Lemmas.CellReal3

namespace Hpx.CellReal
open Hpx Hpx.Hash Hpx.Proj

/-! ## `hash_with_dxdy ∘ sph_coo` in the plane -/

theorem uv_of_coo (N I0 J0 i j dx dy : ℝ) (hN : 0 < N) :
    (((I0 - J0 + 4) + (i - j) / N + (dx - dy) / N) + ((I0 + J0 - 4) + (i + j + 1 - N) / N + (dx + dy - 1) / N) + 1) * N / 2
      = N * I0 + i + dx ∧
    (((I0 + J0 - 4) + (i + j + 1 - N) / N + (dx + dy - 1) / N) - ((I0 - J0 + 4) + (i - j) / N + (dx - dy) / N) + 9) * N / 2
      = N * J0 + j + dy := by
  have hne : N ≠ 0 := ne_of_gt hN
  constructor <;> (field_simp; ring)

theorem floor_parts (d I i : ℕ) (u dx : ℝ) (hi : i < 2 ^ d) (h0 : 0 ≤ dx) (h1 : dx < 1)
    (hu : u = 2 ^ d * (I : ℝ) + (i : ℝ) + dx) :
    ⌊u⌋₊ / 2 ^ d = I ∧ ⌊u⌋₊ % 2 ^ d = i ∧ u - (⌊u⌋₊ : ℝ) = dx := by
  have hpn : 0 < 2 ^ d := Nat.pos_of_ne_zero (by simp)
  have hfl : ⌊u⌋₊ = 2 ^ d * I + i := by
    have : u = dx + ((2 ^ d * I + i : ℕ) : ℝ) := by rw [hu]; push_cast; ring
    rw [this, Nat.floor_add_natCast h0, Nat.floor_eq_zero.mpr h1, Nat.zero_add]
  refine ⟨?_, ?_, ?_⟩
  · rw [hfl, Nat.mul_add_div hpn, Nat.div_eq_of_lt hi, Nat.add_zero]
  · rw [hfl, Nat.mul_add_mod, Nat.mod_eq_of_lt hi]
  · rw [hfl, hu]; push_cast; ring

theorem u_bounds (N I i dx : ℝ) (hN : 0 < N) (hI0 : 0 ≤ I) (hI : I ≤ 5) (hi0 : 0 ≤ i) (hi : i ≤ N - 1) (h0 : 0 ≤ dx)
    (h1 : dx < 1) : 0 ≤ N * I + i + dx ∧ N * I + i + dx < 6 * N := by
  have := mul_le_mul_of_nonneg_left hI hN.le
  have := mul_nonneg hN.le hI0
  constructor <;> linarith

/-- **round trip in the plane**: for every valid cell `(b, i, j)` and every position `(dx, dy) ∈ [0, 1)²`, the back end
    of `hash_with_dxdy` applied to the plane point of `sph_coo` returns the number built from `(b, i, j)` and the same
    offsets, for both z-order implementations.  With `dx = dy = 1/2` this is `hash(center) = h` in the plane. -/
theorem hash_back_coo (cfg : Cfg) (d : ℕ) (c : ZocClass) (hz : Layer.zoc cfg d = some c) (hd : d ≤ 29)
    (b i j : ℕ) (dx dy : ℝ) (hb : b < 12) (hi : i < 2 ^ d) (hj : j < 2 ^ d)
    (hx0 : 0 ≤ dx) (hx1 : dx < 1) (hy0 : 0 ≤ dy) (hy1 : dy < 1) :
    hashBack (α := ℝ) cfg d (cooPt d b i j dx dy) = some ((b <<< (d <<< 1)) ||| Layer.ij2h cfg c i j, dx, dy) := by
  have hp := pow_pos' d
  obtain ⟨eX, eY⟩ := base_center_sq b hb
  obtain ⟨t0, t1, t2⟩ := sqOf_table b hb
  obtain ⟨c1, c2, c3, c4, c5⟩ := center_ranges d b i j hb hi hj
  have ho : 0 < 1 / (2 : ℝ) ^ d := by positivity
  -- the un-reduced abscissa and the ordinate
  set x' := cellCx d b i j + (dx - dy) / 2 ^ d with hx'
  set Y := cellCy d b i j + (dx + dy - 1) / 2 ^ d with hY
  have hl : |(dx - dy) / 2 ^ d| < 1 / 2 ^ d := by
    rw [abs_div, abs_of_pos hp, div_lt_div_iff_of_pos_right hp, abs_lt]; constructor <;> linarith
  obtain ⟨hl1, hl2⟩ := abs_lt.mp hl
  have hdia := abs_diamond_unit dx dy hx0 hx1.le hy0 hy1.le
  have hh' : |(dx + dy - 1) / 2 ^ d| ≤ 1 / 2 ^ d := by
    rw [abs_div, abs_of_pos hp, div_le_div_iff_of_pos_right hp, abs_le]; constructor <;> linarith
  obtain ⟨hh1, hh2⟩ := abs_le.mp hh'
  obtain ⟨eu, ev⟩ := uv_of_coo (2 ^ d) ((sqOf b).1) ((sqOf b).2) i j dx dy hp
  have hxe : x' = (((sqOf b).1 : ℝ) - (sqOf b).2 + 4) + ((i : ℝ) - j) / 2 ^ d + (dx - dy) / 2 ^ d := by
    rw [hx']; unfold cellCx; rw [eX]
  have hYe : Y = (((sqOf b).1 : ℝ) + (sqOf b).2 - 4) + ((i : ℝ) + j + 1 - 2 ^ d) / 2 ^ d + (dx + dy - 1) / 2 ^ d := by
    rw [hY]; unfold cellCy; rw [eY]
  rw [← hxe, ← hYe] at eu ev
  have hcoo : cooPt d b i j dx dy = (norm8 x', Y) := rfl
  rw [hcoo]
  -- the square actually hit, and the coordinates `u`, `v`
  obtain ⟨I, J, hsum3, hsum5, hbase, hX0, hu, hv⟩ :
      ∃ I J : ℕ, 3 ≤ I + J ∧ I + J ≤ 5 ∧ baseOf I J = b ∧ 0 ≤ norm8 x' ∧
        uOf d (norm8 x') Y = 2 ^ d * (I : ℝ) + (i : ℝ) + dx ∧ vOf d (norm8 x') Y = 2 ^ d * (J : ℝ) + (j : ℝ) + dy := by
    by_cases hneg : x' < 0
    · -- only base cell 4 reaches negative abscissas
      have hb4 : b = 4 := by
        rcases baseX_cases b hb with ⟨h4, _⟩ | ⟨h1, _⟩
        · exact h4
        · exfalso
          have hi' := cast_lt_pow hi
          have hj' := cast_lt_pow hj
          have hi0 : (0 : ℝ) ≤ i := Nat.cast_nonneg i
          obtain ⟨fx1, _⟩ := frac_bounds d ((i : ℝ) - j) (by linarith) (by linarith)
          have : 0 < cellCx d b i j := by unfold cellCx; linarith
          linarith
      subst hb4
      have hsq : sqOf 4 = (0, 4) := by decide
      rw [hsq] at eu ev
      have hn : norm8 x' = x' + 8 := by unfold norm8; simp [hneg]
      refine ⟨4, 0, by norm_num, by norm_num, by decide, by rw [hn]; linarith, ?_, ?_⟩
      · rw [hn]; unfold uOf
        have : (x' + 8 + Y + 1) * 2 ^ d / 2 = (x' + Y + 1) * 2 ^ d / 2 + 4 * 2 ^ d := by ring
        rw [this, eu]; push_cast; ring
      · rw [hn]; unfold vOf
        have : (Y - (x' + 8) + 9) * 2 ^ d / 2 = (Y - x' + 9) * 2 ^ d / 2 - 4 * 2 ^ d := by ring
        rw [this, ev]; push_cast; ring
    · have hn : norm8 x' = x' := by unfold norm8; simp [hneg]
      have h4 : b / 4 ≤ 2 := by omega
      refine ⟨(sqOf b).1, (sqOf b).2, by omega, by omega, t0, by rw [hn]; exact not_lt.mp hneg, ?_, ?_⟩
      · rw [hn]; exact eu
      · rw [hn]; exact ev
  obtain ⟨fI, fi, fdx⟩ := floor_parts d I i _ dx hi hx0 hx1 hu
  obtain ⟨fJ, fj, fdy⟩ := floor_parts d J j _ dy hj hy0 hy1 hv
  have hi' := cast_lt_pow hi
  have hj' := cast_lt_pow hj
  have hI5 : (I : ℝ) ≤ 5 := by
    have : I ≤ 5 := by omega
    exact_mod_cast this
  have hJ5 : (J : ℝ) ≤ 5 := by
    have : J ≤ 5 := by omega
    exact_mod_cast this
  obtain ⟨hu0, hu6⟩ := u_bounds (2 ^ d) I i dx hp (Nat.cast_nonneg I) hI5 (Nat.cast_nonneg i) hi' hx0 hx1
  obtain ⟨hv0, hv6⟩ := u_bounds (2 ^ d) J j dy hp (Nat.cast_nonneg J) hJ5 (Nat.cast_nonneg j) hj' hy0 hy1
  rw [← hu] at hu0 hu6
  rw [← hv] at hv0 hv6
  rw [hashBack_real cfg d c _ _ hz hd hX0 hu0 hv0 hu6 hv6, fI, fJ, fi, fj, fdx, fdy,
    depth0Bits_normal d 2 I J _ _ hsum3 hsum5, hbase]
  rfl

/-- `hash_with_dxdy` of the projected centre of a cell, in the plane: the same cell, offsets `(1/2, 1/2)` -/
theorem hash_back_center (cfg : Cfg) (d : ℕ) (c : ZocClass) (hz : Layer.zoc cfg d = some c) (hd : d ≤ 29)
    (b i j : ℕ) (hb : b < 12) (hi : i < 2 ^ d) (hj : j < 2 ^ d) :
    hashBack (α := ℝ) cfg d (norm8 (cellCx d b i j), cellCy d b i j)
      = some ((b <<< (d <<< 1)) ||| Layer.ij2h cfg c i j, 1 / 2, 1 / 2) := by
  have h := hash_back_coo cfg d c hz hd b i j (1 / 2) (1 / 2) hb hi hj (by norm_num) (by norm_num) (by norm_num)
    (by norm_num)
  have e : cooPt d b i j (1 / 2) (1 / 2) = (norm8 (cellCx d b i j), cellCy d b i j) := by
    unfold cooPt; norm_num
  rw [e] at h; exact h

/-- **`hash_center_real` in the plane (LUT curve)**: for the cell number `h` built from valid parts `(b, i, j)`,
    `center_of_projected_cell(h)` succeeds and the back end of `hash_with_dxdy` sends it back to `(h, 1/2, 1/2)`;
    more generally the plane point of `sph_coo(h, dx, dy)` is sent back to `(h, dx, dy)`. -/
theorem hash_center_plane (cfg : Cfg) (hbmi : cfg.bmi = false) (d : ℕ) (hd : d ≤ 29) (b i j : ℕ) (hb : b < 12)
    (hi : i < 2 ^ d) (hj : j < 2 ^ d) :
    let h := (b <<< (d <<< 1)) ||| interleave i j
    h < Layer.nHash d ∧ Layer.decodeHash cfg d h = some ⟨b, i, j⟩ ∧
    (∃ p, centerOfProjectedCell (α := ℝ) cfg d h = some p ∧ hashBack (α := ℝ) cfg d p = some (h, 1 / 2, 1 / 2)) ∧
    (∀ dx dy : ℝ, 0 ≤ dx → dx < 1 → 0 ≤ dy → dy < 1 →
      sphCoo (α := ℝ) cfg d h dx dy = unproj (cooPt d b i j dx dy).1 (cooPt d b i j dx dy).2 ∧
      hashBack (α := ℝ) cfg d (cooPt d b i j dx dy) = some (h, dx, dy)) := by
  intro h
  obtain ⟨hdec, hlt⟩ := decode_build cfg hbmi d b i j hd (by omega) hi hj
  obtain ⟨c, hz, hij⟩ := ij2h_lut cfg hbmi d i j hd hi hj
  refine ⟨hlt hb, hdec, ⟨_, center_eq cfg d h b i j (hlt hb) hdec hb, ?_⟩, ?_⟩
  · rw [hash_back_center cfg d c hz hd b i j hb hi hj, hij]
  · intro dx dy hx0 hx1 hy0 hy1
    obtain ⟨s1, s2, s3, s4⟩ := sph_coo_plane cfg d h b i j dx dy (hlt hb) hdec hb hi hj hx0 hx1 hy0 hy1
    obtain ⟨c1, c2, c3, c4, c5⟩ := center_ranges d b i j hb hi hj
    have hp := pow_pos' d
    have hdia := abs_diamond_unit dx dy hx0 hx1.le hy0 hy1.le
    have hh' : |(dx + dy - 1) / 2 ^ d| ≤ 1 / 2 ^ d := by
      rw [abs_div, abs_of_pos hp, div_le_div_iff_of_pos_right hp, abs_le]; constructor <;> linarith
    obtain ⟨hh1, hh2⟩ := abs_le.mp hh'
    refine ⟨?_, ?_⟩
    · rw [s1, unproj_eq _ _ (by unfold cooPt; simp only; linarith) (by unfold cooPt; simp only; linarith)]
    · rw [hash_back_coo cfg d c hz hd b i j dx dy hb hi hj hx0 hx1 hy0 hy1, hij]

/-! ## summary on the branches -/

/-- for every point `(X, Y)`, `0 ≤ X < 8`, of the closed diamond of a base cell `b`, the branch index of `depth0_bits`
    is `k = 5 − (I + J)` with `I + J = 5 − b/4 + [north-east border] + [north-west border] ∈ 3..7`: the branches
    `k = 3`, `k = 4` and the final `None` are unreachable in exact arithmetic (they exist for rounding errors);
    `I + J ≥ 6` needs `b < 4` (a border `|X − Xb| = 2 − Y` of a polar-cap triangle, i.e. a seam `lon = k·π/2`) or
    `b < 8` with both borders (north vertex of an equatorial base cell). -/
theorem branch_sum (d b : ℕ) (X Y : ℝ) (hb : b < 12) (hX0 : 0 ≤ X) (hX8 : X < 8)
    (hin : InDiamond (baseX b) (baseY b) 1 X Y) :
    hbI d X Y + hbJ d X Y + b / 4 = 5 + (if X + Y = baseX b + baseY b + 1 then 1 else 0)
      + (if Y - X = baseY b - baseX b + 1 then 1 else 0) ∧
    3 ≤ hbI d X Y + hbJ d X Y ∧ hbI d X Y + hbJ d X Y ≤ 7 ∧
    (6 ≤ hbI d X Y + hbJ d X Y → b < 8 ∧ 1 ≤ Y ∧ (b < 4 → |X - baseX b| = 2 - Y)) := by
  obtain ⟨_, eI, eJ⟩ := inBase_branch d b X Y hb hX0 hX8 hin
  obtain ⟨_, t1, _⟩ := sqOf_table b hb
  have h4 : b / 4 ≤ 2 := by omega
  obtain ⟨bY1, bY2⟩ := baseY_cases b hb
  refine ⟨by rw [eI, eJ]; omega, by rw [eI, eJ]; omega, ?_, ?_⟩
  · rw [eI, eJ]; split_ifs <;> omega
  · intro h6
    rw [eI, eJ] at h6
    unfold InDiamond at hin
    have hbY : baseY b = 1 - ((b / 4 : ℕ) : ℝ) := rfl
    by_cases hne : X + Y = baseX b + baseY b + 1 <;> by_cases hnw : Y - X = baseY b - baseX b + 1 <;>
      simp only [hne, hnw, if_true, if_false] at h6
    · -- both borders: the north vertex
      have hb8 : b < 8 := by omega
      have hX : X = baseX b := by linarith
      have hYv : Y = baseY b + 1 := by linarith
      have hq : (b / 4 = 0 ∨ b / 4 = 1) := by omega
      refine ⟨hb8, ?_, fun hb4 => ?_⟩
      · rcases hq with h | h <;> rw [hYv, hbY, h] <;> norm_num
      · have : b / 4 = 0 := by omega
        rw [hX, hYv, hbY, this]; norm_num
    · have hb4 : b < 4 := by omega
      have h0 : b / 4 = 0 := by omega
      rw [h0] at hbY
      have hYb : baseY b = 1 := by rw [hbY]; norm_num
      rw [hYb] at hin hne
      have hY1 : 1 ≤ Y := by
        by_contra hlt
        have hlt := not_le.mp hlt
        rw [abs_of_neg (by linarith : Y - 1 < 0)] at hin
        have := le_abs_self (X - baseX b)
        linarith
      refine ⟨by omega, hY1, fun _ => ?_⟩
      have : X - baseX b = 2 - Y := by linarith
      rw [this, abs_of_nonneg]
      rw [abs_of_nonneg (by linarith : (0 : ℝ) ≤ Y - 1)] at hin
      have := abs_nonneg (X - baseX b)
      linarith
    · have hb4 : b < 4 := by omega
      have h0 : b / 4 = 0 := by omega
      rw [h0] at hbY
      have hYb : baseY b = 1 := by rw [hbY]; norm_num
      rw [hYb] at hin hnw
      have hY1 : 1 ≤ Y := by
        by_contra hlt
        have hlt := not_le.mp hlt
        rw [abs_of_neg (by linarith : Y - 1 < 0)] at hin
        have := neg_abs_le (X - baseX b)
        linarith
      refine ⟨by omega, hY1, fun _ => ?_⟩
      have : X - baseX b = -(2 - Y) := by linarith
      rw [this, abs_neg, abs_of_nonneg]
      rw [abs_of_nonneg (by linarith : (0 : ℝ) ≤ Y - 1)] at hin
      have := abs_nonneg (X - baseX b)
      linarith
    · omega

/-- depths above 29 are rejected (`get_zoc` panics), for every numeric instance and both configurations: the bound
    `d ≤ 29` of the theorems on `hashBack` is the whole domain of `hash_with_dxdy` -/
theorem hashBack_deep {α : Type} [Num α] (cfg : Cfg) (d : ℕ) (hd : d > 29) (xy : α × α) : hashBack cfg d xy = none := by
  have hz : Layer.zoc cfg d = none := by
    unfold Layer.zoc getZocBmi getZoc getZocFrom
    simp [hd]
  unfold hashBack
  simp only [hz]
  split <;> rfl

/-! ## examples -/

/-- depth 2, cell 73 = `(4, 1, 2)` (centre abscissa `−1/4`, reduced to `7.75`): the round trip holds -/
example : ∃ p, centerOfProjectedCell (α := ℝ) {} 2 73 = some p ∧ hashBack (α := ℝ) {} 2 p = some (73, 1 / 2, 1 / 2) := by
  have h := (hash_center_plane {} rfl 2 (by decide) 4 1 2 (by decide) (by decide) (by decide)).2.2.1
  have e : (4 <<< (2 <<< 1)) ||| interleave 1 2 = 73 := by decide +kernel
  rw [e] at h; exact h

/-- depth 1, the point `(5/4, 7/4)` of the north-east border of base cell 0 (seam `lon = π/2`): hypotheses of
    `f11_north_east` hold; the right cell `(0, 1, j)` is returned with `dx = 0` instead of `1` -/
example : ∃ hash j dy, hashBack (α := ℝ) {} 1 (5 / 4, 7 / 4) = some (hash, 0, dy) ∧
    Layer.decodeHash {} 1 hash = some ⟨0, 2 ^ 1 - 1, j⟩ ∧
    cellCx 1 0 (2 ^ 1 - 1) j + (1 - dy) / 2 ^ 1 = 5 / 4 := by
  have hin : InDiamond (baseX 0) (baseY 0) 1 (5 / 4) (7 / 4) := by
    unfold InDiamond baseX baseY; norm_num [abs_of_nonneg]
  obtain ⟨hash, j, dy, h1, _, h2, _, _, _, h3, _⟩ :=
    f11_north_east {} rfl 1 (by decide) 0 (by decide) (5 / 4) (7 / 4) (by norm_num) (by norm_num) hin
      (by unfold baseX baseY; norm_num) (by unfold baseX baseY; norm_num)
  exact ⟨hash, j, dy, h1, h2, h3⟩

/-- the north pole seen from base cell 2, depth 3 -/
example : ∃ hash, hashBack (α := ℝ) {} 3 (2 * ((2 : ℕ) : ℝ) + 1, 2) = some (hash, 0, 0) ∧
    Layer.decodeHash {} 3 hash = some ⟨2, 2 ^ 3 - 1, 2 ^ 3 - 1⟩ := by
  obtain ⟨hash, h1, _, h2, _⟩ := f11_north_pole {} rfl 3 (by decide) 2 (by decide)
  exact ⟨hash, h1, h2⟩

#print axioms hash_back_coo
#print axioms hash_back_center
#print axioms hash_center_plane
#print axioms branch_sum
#print axioms hashBack_deep

end Hpx.CellReal
