/-
C03 over the reals, fourth part: the round trip `hash_with_dxdy ∘ sph_coo` in the plane (every position `(dx, dy)`,
`0 ≤ dx, dy < 1`, of every cell is sent back to that cell with the same offsets; in particular the centre), and summary
statements on the branches of `depth0_bits`.
-/
import HpxVerif.Lemmas.CellReal3

namespace Hpx.CellReal
open Hpx Hpx.Hash Hpx.Proj

/-! ## `hash_with_dxdy ∘ sph_coo` in the plane -/

theorem uv_of_coo (N I0 J0 i j dx dy : ℝ) (hN : 0 < N) :
    (((I0 - J0 + 4) + (i - j) / N + (dx - dy) / N) + ((I0 + J0 - 4) + (i + j + 1 - N) / N + (dx + dy - 1) / N) + 1) * N / 2
      = N * I0 + i + dx ∧
    (((I0 + J0 - 4) + (i + j + 1 - N) / N + (dx + dy - 1) / N) - ((I0 - J0 + 4) + (i - j) / N + (dx - dy) / N) + 9) * N / 2
      = N * J0 + j + dy := by
  have hne : N ≠ 0 := ne_of_gt hN
  constructor <;> (field_simp; ring)

theorem floor_parts (d I i : ℕ) (u dx : ℝ) (hi : i < 2 ^ d) (h0 : 0 ≤ dx) (h1 : dx < 1)
    (hu : u = 2 ^ d * (I : ℝ) + (i : ℝ) + dx) :
    ⌊u⌋₊ / 2 ^ d = I ∧ ⌊u⌋₊ % 2 ^ d = i ∧ u - (⌊u⌋₊ : ℝ) = dx := by
  have hpn : 0 < 2 ^ d := Nat.pos_of_ne_zero (by simp)
  have hfl : ⌊u⌋₊ = 2 ^ d * I + i := by
    have : u = dx + ((2 ^ d * I + i : ℕ) : ℝ) := by rw [hu]; push_cast; ring
    rw [this, Nat.floor_add_natCast h0, Nat.floor_eq_zero.mpr h1, Nat.zero_add]
  refine ⟨?_, ?_, ?_⟩
  · rw [hfl, Nat.mul_add_div hpn, Nat.div_eq_of_lt hi, Nat.add_zero]
  · rw [hfl, Nat.mul_add_mod, Nat.mod_eq_of_lt hi]
  · rw [hfl, hu]; push_cast; ring

/-- **round trip in the plane**: for every valid cell `(b, i, j)` and every position `(dx, dy) ∈ [0, 1)²`, the back end
    of `hash_with_dxdy` applied to the plane point of `sph_coo` returns the number built from `(b, i, j)` and the same
    offsets, for both z-order implementations.  With `dx = dy = 1/2` this is `hash(center) = h` in the plane. -/
theorem hash_back_coo (cfg : Cfg) (d : ℕ) (c : ZocClass) (hz : Layer.zoc cfg d = some c) (hd : d ≤ 29)
    (b i j : ℕ) (dx dy : ℝ) (hb : b < 12) (hi : i < 2 ^ d) (hj : j < 2 ^ d)
    (hx0 : 0 ≤ dx) (hx1 : dx < 1) (hy0 : 0 ≤ dy) (hy1 : dy < 1) :
    hashBack (α := ℝ) cfg d (cooPt d b i j dx dy) = some ((b <<< (d <<< 1)) ||| Layer.ij2h cfg c i j, dx, dy) := by
  have hp := pow_pos' d
  obtain ⟨eX, eY⟩ := base_center_sq b hb
  obtain ⟨t0, t1, t2⟩ := sqOf_table b hb
  obtain ⟨c1, c2, c3, c4, c5⟩ := center_ranges d b i j hb hi hj
  have ho : 0 < 1 / (2 : ℝ) ^ d := by positivity
  -- the un-reduced abscissa and the ordinate
  set x' := cellCx d b i j + (dx - dy) / 2 ^ d with hx'
  set Y := cellCy d b i j + (dx + dy - 1) / 2 ^ d with hY
  have hl : |(dx - dy) / 2 ^ d| < 1 / 2 ^ d := by
    rw [abs_div, abs_of_pos hp, div_lt_div_iff_of_pos_right hp, abs_lt]; constructor <;> linarith
  obtain ⟨hl1, hl2⟩ := abs_lt.mp hl
  have hdia := abs_diamond_unit dx dy hx0 hx1.le hy0 hy1.le
  have hh' : |(dx + dy - 1) / 2 ^ d| ≤ 1 / 2 ^ d := by
    rw [abs_div, abs_of_pos hp, div_le_div_iff_of_pos_right hp, abs_le]; constructor <;> linarith
  obtain ⟨hh1, hh2⟩ := abs_le.mp hh'
  obtain ⟨eu, ev⟩ := uv_of_coo (2 ^ d) ((sqOf b).1) ((sqOf b).2) i j dx dy hp
  have hxe : x' = (((sqOf b).1 : ℝ) - (sqOf b).2 + 4) + ((i : ℝ) - j) / 2 ^ d + (dx - dy) / 2 ^ d := by
    rw [hx']; unfold cellCx; rw [eX]
  have hYe : Y = (((sqOf b).1 : ℝ) + (sqOf b).2 - 4) + ((i : ℝ) + j + 1 - 2 ^ d) / 2 ^ d + (dx + dy - 1) / 2 ^ d := by
    rw [hY]; unfold cellCy; rw [eY]
  rw [← hxe, ← hYe] at eu ev
  have hcoo : cooPt d b i j dx dy = (norm8 x', Y) := rfl
  rw [hcoo]
  -- the square actually hit, and the coordinates `u`, `v`
  obtain ⟨I, J, hsum3, hsum5, hbase, hX0, hu, hv⟩ :
      ∃ I J : ℕ, 3 ≤ I + J ∧ I + J ≤ 5 ∧ baseOf I J = b ∧ 0 ≤ norm8 x' ∧
        uOf d (norm8 x') Y = 2 ^ d * (I : ℝ) + (i : ℝ) + dx ∧ vOf d (norm8 x') Y = 2 ^ d * (J : ℝ) + (j : ℝ) + dy := by
    by_cases hneg : x' < 0
    · -- only base cell 4 reaches negative abscissas
      have hb4 : b = 4 := by
        rcases baseX_cases b hb with ⟨h4, _⟩ | ⟨h1, _⟩
        · exact h4
        · exfalso
          have hi' := cast_lt_pow hi
          have hj' := cast_lt_pow hj
          have hi0 : (0 : ℝ) ≤ i := Nat.cast_nonneg i
          obtain ⟨fx1, _⟩ := frac_bounds d ((i : ℝ) - j) (by linarith) (by linarith)
          have : 0 < cellCx d b i j := by unfold cellCx; linarith
          linarith
      subst hb4
      have hsq : sqOf 4 = (0, 4) := by decide
      rw [hsq] at eu ev
      have hn : norm8 x' = x' + 8 := by unfold norm8; simp [hneg]
      refine ⟨4, 0, by norm_num, by norm_num, by decide, by rw [hn]; linarith, ?_, ?_⟩
      · rw [hn]; unfold uOf
        have : (x' + 8 + Y + 1) * 2 ^ d / 2 = (x' + Y + 1) * 2 ^ d / 2 + 4 * 2 ^ d := by ring
        rw [this, eu]; push_cast; ring
      · rw [hn]; unfold vOf
        have : (Y - (x' + 8) + 9) * 2 ^ d / 2 = (Y - x' + 9) * 2 ^ d / 2 - 4 * 2 ^ d := by ring
        rw [this, ev]; push_cast; ring
    · have hn : norm8 x' = x' := by unfold norm8; simp [hneg]
      have h4 : b / 4 ≤ 2 := by omega
      refine ⟨(sqOf b).1, (sqOf b).2, by omega, by omega, t0, by rw [hn]; exact not_lt.mp hneg, ?_, ?_⟩
      · rw [hn]; exact eu
      · rw [hn]; exact ev
  obtain ⟨fI, fi, fdx⟩ := floor_parts d I i _ dx hi hx0 hx1 hu
  obtain ⟨fJ, fj, fdy⟩ := floor_parts d J j _ dy hj hy0 hy1 hv
  have hi' := cast_lt_pow hi
  have hj' := cast_lt_pow hj
  have hI5 : (I : ℝ) ≤ 5 := by
    have : I ≤ 5 := by omega
    exact_mod_cast this
  have hJ5 : (J : ℝ) ≤ 5 := by
    have : J ≤ 5 := by omega
    exact_mod_cast this
  have hu0 : 0 ≤ uOf d (norm8 x') Y := by rw [hu]; positivity
  have hv0 : 0 ≤ vOf d (norm8 x') Y := by rw [hv]; positivity
  have hu6 : uOf d (norm8 x') Y < 6 * 2 ^ d := by rw [hu]; nlinarith
  have hv6 : vOf d (norm8 x') Y < 6 * 2 ^ d := by rw [hv]; nlinarith
  rw [hashBack_real cfg d c _ _ hz hd hX0 hu0 hv0 hu6 hv6, fI, fJ, fi, fj, fdx, fdy,
    depth0Bits_normal d 2 I J _ _ hsum3 hsum5, hbase]
  rfl

end Hpx.CellReal
