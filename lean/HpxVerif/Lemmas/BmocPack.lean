/-
`pack` (compaction of four full siblings): semantics and well-formedness are preserved, the result has no four
full siblings left (C15, C09, C07).
-/
import HpxVerif.Lemmas.BmocEnc
import Mathlib.Tactic.Ring

namespace Hpx.Bmoc

/-- a raw value that encodes a cell of a BMOC of depth `dm` -/
def ValidRaw (dm raw : Nat) : Prop := ∃ c : Cell, c.depth ≤ dm ∧ c.hash < 12 * 4 ^ c.depth ∧ raw = encode dm c

theorem tz_buildRaw (d h : Nat) (f : Bool) (dm : Nat)
    (hfit : (2 * h + 1) * 2 ^ (1 + 2 * (dm - d)) < 2 ^ 64) :
    tz64 (buildRaw d h f dm >>> 1) >>> 1 = dm - d := by
  have hk : 1 + 2 * (dm - d) = (2 * (dm - d)) + 1 := by omega
  have hraw := buildRaw_eq d h f dm
  have hfb : (if f then 1 else 0) < 2 := by split <;> omega
  have h1 : buildRaw d h f dm >>> 1 = (2 * h + 1) * 2 ^ (2 * (dm - d)) := by
    rw [hraw, Nat.shiftRight_eq_div_pow, Nat.pow_one, hk, Nat.pow_succ]
    have : (2 * h + 1) * (2 ^ (2 * (dm - d)) * 2) = 2 * ((2 * h + 1) * 2 ^ (2 * (dm - d))) := by ac_rfl
    rw [this]; omega
  have hfit2 : (2 * h + 1) * 2 ^ (2 * (dm - d)) < 2 ^ 64 := by
    have : (2 * h + 1) * 2 ^ (2 * (dm - d)) ≤ (2 * h + 1) * 2 ^ (1 + 2 * (dm - d)) :=
      Nat.mul_le_mul_left _ (Nat.pow_le_pow_right (by decide) (by omega))
    omega
  rw [h1, tz64_odd_mul _ _ (by omega) hfit2, Nat.shiftRight_eq_div_pow]; omega

/-- what `pack` reads from a valid raw value -/
theorem raw_parts {dm : Nat} (hdm : dm ≤ 29) {c : Cell} (hd : c.depth ≤ dm) (hh : c.hash < 12 * 4 ^ c.depth) :
    getDepthRaw (encode dm c) dm = c.depth ∧ hashFromDeltaDepth (encode dm c) (dm - c.depth) = c.hash ∧
    isPartialRaw (encode dm c) = !c.full ∧ decode (encode dm c) dm = c := by
  have hdec := decode_encode hd hdm hh
  have htz := tz_buildRaw c.depth c.hash c.full dm (raw_fits hd hdm hh)
  have hdec' := hdec
  unfold decode at hdec'
  simp only at hdec'
  unfold encode at hdec' ⊢
  rw [htz] at hdec'
  have e1 := congrArg Cell.depth hdec'
  have e2 := congrArg Cell.hash hdec'
  have e3 := congrArg Cell.full hdec'
  simp only at e1 e2 e3
  refine ⟨?_, ?_, ?_, hdec⟩
  · unfold getDepthRaw; rw [htz]; omega
  · unfold hashFromDeltaDepth; exact e2
  · unfold isPartialRaw
    have hm : buildRaw c.depth c.hash c.full dm &&& 1 = buildRaw c.depth c.hash c.full dm % 2 := Nat.and_one_is_mod _
    rw [hm] at e3 ⊢
    have : buildRaw c.depth c.hash c.full dm % 2 < 2 := Nat.mod_lt _ (by omega)
    cases hf : c.full <;> simp [hf] at e3 ⊢ <;> omega

theorem validRaw_buildRaw {dm d h : Nat} (f : Bool) (hd : d ≤ dm) (hh : h < 12 * 4 ^ d) : ValidRaw dm (buildRaw d h f dm) :=
  ⟨⟨d, h, f⟩, hd, hh, rfl⟩

theorem or_eq_add_of_and3 (h k : Nat) (h0 : h &&& 3 = 0) (hk : k < 4) : h ||| k = h + k := by
  have hm : h % 4 = 0 := by
    have := Nat.and_two_pow_sub_one_eq_mod h 2
    simpa [h0] using this.symm
  have e : h = (h / 4) <<< 2 := by rw [Nat.shiftLeft_eq]; omega
  rw [e, Nat.shiftLeft_eq]
  have := Nat.shiftLeft_add_eq_or_of_lt (i := 2) (b := k) (by omega) (h / 4)
  rw [Nat.shiftLeft_eq] at this
  omega

/-- four full siblings and their parent have the same state function -/
theorem stOf_four_siblings (D d h : Nat) (hd : 0 < d) (hdD : d ≤ D) (h4 : h % 4 = 0) (R : List Cell) (x : Nat) :
    stOf D (⟨d, h, true⟩ :: ⟨d, h + 1, true⟩ :: ⟨d, h + 2, true⟩ :: ⟨d, h + 3, true⟩ :: R) x =
    stOf D (⟨d - 1, h / 4, true⟩ :: R) x := by
  have e : 4 ^ (D - (d - 1)) = 4 * 4 ^ (D - d) := by
    rw [show D - (d - 1) = (D - d) + 1 by omega, Nat.pow_succ]; omega
  have hp : 0 < 4 ^ (D - d) := Nat.pow_pos (by decide)
  have hq : h = 4 * (h / 4) := by omega
  -- the five intervals in terms of `B = lo parent` and `W = 4^(D-d)`
  have l0 : lo D ⟨d, h, true⟩ = lo D ⟨d - 1, h / 4, true⟩ := by
    show h * 4 ^ (D - d) = h / 4 * 4 ^ (D - (d - 1)); rw [e]; conv => lhs; rw [hq]
    ring
  have hW : ∀ k, lo D ⟨d, h + k, true⟩ = lo D ⟨d - 1, h / 4, true⟩ + k * 4 ^ (D - d) ∧
      hi D ⟨d, h + k, true⟩ = lo D ⟨d - 1, h / 4, true⟩ + (k + 1) * 4 ^ (D - d) := by
    intro k
    have : lo D ⟨d - 1, h / 4, true⟩ = h * 4 ^ (D - d) := l0.symm
    rw [this]
    constructor
    · show (h + k) * 4 ^ (D - d) = _; ring
    · show (h + k + 1) * 4 ^ (D - d) = _; ring
  have hP : hi D ⟨d - 1, h / 4, true⟩ = lo D ⟨d - 1, h / 4, true⟩ + 4 * 4 ^ (D - d) := by
    show (h / 4 + 1) * 4 ^ (D - (d - 1)) = h / 4 * 4 ^ (D - (d - 1)) + _; rw [e]; ring
  have h0 := hW 0; have h1 := hW 1; have h2 := hW 2; have h3 := hW 3
  simp only [Nat.add_zero, Nat.zero_mul, Nat.zero_add, Nat.one_mul] at h0
  simp only [Nat.one_mul, Nat.reduceAdd] at h1 h2 h3
  simp only [stOf_cons]
  rw [h0.1, h0.2, h1.1, h1.2, h2.1, h2.2, h3.1, h3.2, hP]
  generalize lo D ⟨d - 1, h / 4, true⟩ = B
  generalize 4 ^ (D - d) = W at *
  split_ifs <;> first | rfl | (exfalso; omega)

def cellsOf (dm : Nat) (l : List Nat) : List Cell := l.map (decode · dm)

theorem cellsOf_cons (dm r : Nat) (l : List Nat) : cellsOf dm (r :: l) = decode r dm :: cellsOf dm l := rfl

theorem siblingsFollow_spec (dm d h : Nat) (rest : List Nat) (hs : siblingsFollow dm d h rest = true) :
    ∃ rest', rest = buildRaw d (h ||| 1) true dm :: buildRaw d (h ||| 2) true dm :: buildRaw d (h ||| 3) true dm :: rest' := by
  match rest, hs with
  | s1 :: s2 :: s3 :: rest', hs =>
    simp only [siblingsFollow, Bool.and_eq_true, beq_iff_eq] at hs
    exact ⟨rest', by rw [hs.1.1, hs.1.2, hs.2]⟩

/-- one compaction pass preserves the state function and the validity of the entries -/
theorem packPass_sem (dm : Nat) (hdm : dm ≤ 29) (l : List Nat) (hv : ∀ r ∈ l, ValidRaw dm r) :
    (∀ x, stOf dm (cellsOf dm (packPass dm l)) x = stOf dm (cellsOf dm l) x) ∧ (∀ r ∈ packPass dm l, ValidRaw dm r) := by
  fun_induction packPass dm l with
  | case1 => exact ⟨fun _ => rfl, by simp⟩
  | case2 c rest d h hc ih =>
    obtain ⟨i1, i2⟩ := ih (fun r hr => hv r (by simp [hr]))
    refine ⟨fun x => ?_, ?_⟩
    · rw [cellsOf_cons, cellsOf_cons, stOf_cons, stOf_cons, i1 x]
    · intro r hr
      rcases List.mem_cons.mp hr with rfl | hr
      · exact hv _ (by simp)
      · exact i2 r hr
  | case3 c rest d h hc hs ih =>
    obtain ⟨rest', hrest⟩ := siblingsFollow_spec dm d h rest hs
    subst hrest
    obtain ⟨c0, hc0d, hc0h, hc0⟩ := hv c (by simp)
    obtain ⟨p1, p2, p3, p4⟩ := raw_parts hdm hc0d hc0h
    rw [← hc0] at p1 p2 p3 p4
    have hd : d = c0.depth := p1
    have hh : h = c0.hash := by show hashFromDeltaDepth c (dm - d) = _; rw [hd]; exact p2
    simp only [Bool.or_eq_true, beq_iff_eq, bne_iff_ne, ne_eq, not_or, Decidable.not_not] at hc
    have hfull : c0.full = true := by
      have := hc.1.2; rw [p3] at this; simpa using this
    have hd0 : 0 < d := Nat.pos_of_ne_zero hc.1.1
    have h3 : h &&& 3 = 0 := hc.2
    have hm4 : h % 4 = 0 := by
      have := Nat.and_two_pow_sub_one_eq_mod h 2
      simpa [h3] using this.symm
    have hdle : d ≤ dm := hd ▸ hc0d
    have hhlt : h < 12 * 4 ^ d := by rw [hd, hh]; exact hc0h
    have hpow : 12 * 4 ^ d = 4 * (12 * 4 ^ (d - 1)) := by
      rw [show d = (d - 1) + 1 by omega, Nat.pow_succ]; simp; ring
    have hk : ∀ k, k < 4 → h + k < 12 * 4 ^ d := by intro k hk; omega
    have hpar : h >>> 2 < 12 * 4 ^ (d - 1) := by rw [Nat.shiftRight_eq_div_pow]; omega
    have hdrop : (buildRaw d (h ||| 1) true dm :: buildRaw d (h ||| 2) true dm :: buildRaw d (h ||| 3) true dm :: rest').drop 3 = rest' := rfl
    rw [hdrop] at ih ⊢
    obtain ⟨i1, i2⟩ := ih (fun r hr => hv r (by simp [hr]))
    have e1 := or_eq_add_of_and3 h 1 h3 (by omega)
    have e2 := or_eq_add_of_and3 h 2 h3 (by omega)
    have e3 := or_eq_add_of_and3 h 3 h3 (by omega)
    have dc : decode c dm = ⟨d, h, true⟩ := by rw [p4, hd, hh, ← hfull]
    have ds : ∀ k, k < 4 → decode (buildRaw d (h + k) true dm) dm = ⟨d, h + k, true⟩ := fun k hk4 =>
      decode_buildRaw d (h + k) true dm hdle (raw_fits hdle hdm (hk k hk4))
    have dp : decode (buildRaw (d - 1) (h >>> 2) true dm) dm = ⟨d - 1, h / 4, true⟩ := by
      rw [decode_buildRaw (d - 1) (h >>> 2) true dm (by omega) (raw_fits (by omega) hdm hpar), Nat.shiftRight_eq_div_pow]
    refine ⟨fun x => ?_, ?_⟩
    · rw [e1, e2, e3]
      simp only [cellsOf_cons]
      rw [dc, ds 1 (by omega), ds 2 (by omega), ds 3 (by omega), dp,
        stOf_four_siblings dm d h hd0 hdle hm4, stOf_cons, stOf_cons, i1 x]
    · intro r hr
      rcases List.mem_cons.mp hr with rfl | hr
      · exact validRaw_buildRaw true (by omega) hpar
      · exact i2 r hr
  | case4 c rest d h hc hs ih =>
    obtain ⟨i1, i2⟩ := ih (fun r hr => hv r (by simp [hr]))
    refine ⟨fun x => ?_, ?_⟩
    · rw [cellsOf_cons, cellsOf_cons, stOf_cons, stOf_cons, i1 x]
    · intro r hr
      rcases List.mem_cons.mp hr with rfl | hr
      · exact hv _ (by simp)
      · exact i2 r hr

theorem parent_bounds (D d h : Nat) (hd : 0 < d) (hdD : d ≤ D) (h4 : h % 4 = 0) :
    lo D ⟨d - 1, h / 4, true⟩ = lo D ⟨d, h, true⟩ ∧ hi D ⟨d - 1, h / 4, true⟩ = hi D ⟨d, h + 3, true⟩ := by
  have e : 4 ^ (D - (d - 1)) = 4 * 4 ^ (D - d) := by
    rw [show D - (d - 1) = (D - d) + 1 by omega, Nat.pow_succ]; omega
  have hq : h = 4 * (h / 4) := by omega
  constructor
  · show h / 4 * 4 ^ (D - (d - 1)) = h * 4 ^ (D - d)
    rw [e]; conv => rhs; rw [hq]
    ring
  · show (h / 4 + 1) * 4 ^ (D - (d - 1)) = (h + 3 + 1) * 4 ^ (D - d)
    rw [e]; conv => rhs; rw [hq]
    ring

/-- one compaction pass preserves well-formedness (and every lower bound on the cells) -/
theorem packPass_wf (dm : Nat) (hdm : dm ≤ 29) (l : List Nat) (hv : ∀ r ∈ l, ValidRaw dm r) (hw : WF dm (cellsOf dm l)) :
    WF dm (cellsOf dm (packPass dm l)) ∧
    ∀ B, (∀ c ∈ cellsOf dm l, B ≤ lo dm c) → ∀ c ∈ cellsOf dm (packPass dm l), B ≤ lo dm c := by
  fun_induction packPass dm l with
  | case1 => exact ⟨trivial, fun B _ c hc => by simp [cellsOf] at hc⟩
  | case2 c rest d h hc ih =>
    rw [cellsOf_cons] at hw
    obtain ⟨i1, i2⟩ := ih (fun r hr => hv r (by simp [hr])) hw.tail
    refine ⟨?_, ?_⟩
    · rw [cellsOf_cons]
      exact ⟨hw.1, i2 _ hw.2.1, i1⟩
    · intro B hB c' hc'
      rw [cellsOf_cons] at hc' hB
      rcases List.mem_cons.mp hc' with rfl | hc'
      · exact hB _ (by simp)
      · exact i2 B (fun c'' h'' => hB c'' (by simp [h''])) c' hc'
  | case3 c rest d h hc hs ih =>
    obtain ⟨rest', hrest⟩ := siblingsFollow_spec dm d h rest hs
    subst hrest
    obtain ⟨c0, hc0d, hc0h, hc0⟩ := hv c (by simp)
    obtain ⟨p1, p2, p3, p4⟩ := raw_parts hdm hc0d hc0h
    rw [← hc0] at p1 p2 p3 p4
    have hd : d = c0.depth := p1
    have hh : h = c0.hash := by show hashFromDeltaDepth c (dm - d) = _; rw [hd]; exact p2
    simp only [Bool.or_eq_true, beq_iff_eq, bne_iff_ne, ne_eq, not_or, Decidable.not_not] at hc
    have hfull : c0.full = true := by
      have := hc.1.2; rw [p3] at this; simpa using this
    have hd0 : 0 < d := Nat.pos_of_ne_zero hc.1.1
    have h3 : h &&& 3 = 0 := hc.2
    have hm4 : h % 4 = 0 := by
      have := Nat.and_two_pow_sub_one_eq_mod h 2
      simpa [h3] using this.symm
    have hdle : d ≤ dm := hd ▸ hc0d
    have hhlt : h < 12 * 4 ^ d := by rw [hd, hh]; exact hc0h
    have hpow : 12 * 4 ^ d = 4 * (12 * 4 ^ (d - 1)) := by
      rw [show d = (d - 1) + 1 by omega, Nat.pow_succ]; simp; ring
    have hk : ∀ k, k < 4 → h + k < 12 * 4 ^ d := by intro k hk; omega
    have hpar : h >>> 2 < 12 * 4 ^ (d - 1) := by rw [Nat.shiftRight_eq_div_pow]; omega
    have hdrop : (buildRaw d (h ||| 1) true dm :: buildRaw d (h ||| 2) true dm :: buildRaw d (h ||| 3) true dm :: rest').drop 3 = rest' := rfl
    rw [hdrop] at ih ⊢
    have e1 := or_eq_add_of_and3 h 1 h3 (by omega)
    have e2 := or_eq_add_of_and3 h 2 h3 (by omega)
    have e3 := or_eq_add_of_and3 h 3 h3 (by omega)
    have dc : decode c dm = ⟨d, h, true⟩ := by rw [p4, hd, hh, ← hfull]
    have ds : ∀ k, k < 4 → decode (buildRaw d (h + k) true dm) dm = ⟨d, h + k, true⟩ := fun k hk4 =>
      decode_buildRaw d (h + k) true dm hdle (raw_fits hdle hdm (hk k hk4))
    have dp : decode (buildRaw (d - 1) (h >>> 2) true dm) dm = ⟨d - 1, h / 4, true⟩ := by
      rw [decode_buildRaw (d - 1) (h >>> 2) true dm (by omega) (raw_fits (by omega) hdm hpar), Nat.shiftRight_eq_div_pow]
    rw [e1, e2, e3] at hw
    simp only [cellsOf_cons] at hw
    rw [dc, ds 1 (by omega), ds 2 (by omega), ds 3 (by omega)] at hw
    have hw3 := hw.tail.tail.tail
    obtain ⟨i1, i2⟩ := ih (fun r hr => hv r (by simp [hr])) hw3.tail
    obtain ⟨pb1, pb2⟩ := parent_bounds dm d h hd0 hdle hm4
    refine ⟨?_, ?_⟩
    · rw [cellsOf_cons, dp]
      refine ⟨by show d - 1 ≤ dm; omega, ?_, i1⟩
      rw [pb2]
      exact i2 _ hw3.2.1
    · intro B hB c' hc'
      rw [cellsOf_cons, dp] at hc'
      rcases List.mem_cons.mp hc' with rfl | hc'
      · rw [pb1]
        have := hB (decode c dm) (by simp [cellsOf])
        rwa [dc] at this
      · exact i2 B (fun c'' h'' => hB c'' (by simp only [cellsOf, List.map_cons, List.mem_cons]; right; right; right; right; exact h'')) c' hc'
  | case4 c rest d h hc hs ih =>
    rw [cellsOf_cons] at hw
    obtain ⟨i1, i2⟩ := ih (fun r hr => hv r (by simp [hr])) hw.tail
    refine ⟨?_, ?_⟩
    · rw [cellsOf_cons]
      exact ⟨hw.1, i2 _ hw.2.1, i1⟩
    · intro B hB c' hc'
      rw [cellsOf_cons] at hc' hB
      rcases List.mem_cons.mp hc' with rfl | hc'
      · exact hB _ (by simp)
      · exact i2 B (fun c'' h'' => hB c'' (by simp [h''])) c' hc'

/-- `pack` = passes until the length is stable: semantics, validity and well-formedness are preserved -/
theorem packFuel_sem (dm : Nat) (hdm : dm ≤ 29) (fuel : Nat) (l : List Nat) (hv : ∀ r ∈ l, ValidRaw dm r) :
    (∀ x, stOf dm (cellsOf dm (packFuel dm fuel l)) x = stOf dm (cellsOf dm l) x) ∧
    (∀ r ∈ packFuel dm fuel l, ValidRaw dm r) ∧
    (WF dm (cellsOf dm l) → WF dm (cellsOf dm (packFuel dm fuel l))) := by
  induction fuel generalizing l with
  | zero => exact ⟨fun _ => rfl, hv, id⟩
  | succ f ih =>
    simp only [packFuel]
    obtain ⟨s1, s2⟩ := packPass_sem dm hdm l hv
    split
    · exact ⟨s1, s2, fun hw => (packPass_wf dm hdm l hv hw).1⟩
    · obtain ⟨j1, j2, j3⟩ := ih (packPass dm l) s2
      exact ⟨fun x => by rw [j1 x, s1 x], j2, fun hw => j3 (packPass_wf dm hdm l hv hw).1⟩

theorem pack_sem (dm : Nat) (hdm : dm ≤ 29) (l : List Nat) (hv : ∀ r ∈ l, ValidRaw dm r) :
    (∀ x, stOf dm (cellsOf dm (pack dm l)) x = stOf dm (cellsOf dm l) x) ∧
    (∀ r ∈ pack dm l, ValidRaw dm r) ∧
    (WF dm (cellsOf dm l) → WF dm (cellsOf dm (pack dm l))) :=
  packFuel_sem dm hdm _ l hv

/-- the merge condition of `pack` at an entry `c` followed by `rest` -/
def Mergeable (dm c : Nat) (rest : List Nat) : Prop :=
  (getDepthRaw c dm == 0 || isPartialRaw c ||
    (hashFromDeltaDepth c (dm - getDepthRaw c dm) &&& 3 != 0)) = false ∧
  siblingsFollow dm (getDepthRaw c dm) (hashFromDeltaDepth c (dm - getDepthRaw c dm)) rest = true

/-- a fixed point of the pass has no mergeable position -/
theorem packPass_fix_no_merge (dm : Nat) (l : List Nat) (hfix : packPass dm l = l) :
    ∀ pre c rest, l = pre ++ c :: rest → ¬ Mergeable dm c rest := by
  fun_induction packPass dm l with
  | case1 => intro pre c rest h; simp at h
  | case2 c0 rest0 d h hc ih =>
    have hrest : packPass dm rest0 = rest0 := by simpa using hfix
    intro pre c rest hl
    cases pre with
    | nil =>
      simp only [List.nil_append, List.cons.injEq] at hl
      obtain ⟨rfl, rfl⟩ := hl
      intro hm
      exact Bool.noConfusion (hm.1.symm.trans hc)
    | cons p pre' =>
      simp only [List.cons_append, List.cons.injEq] at hl
      exact ih hrest pre' c rest hl.2
  | case3 c0 rest0 d h hc hs ih =>
    exfalso
    have h1 := congrArg List.length hfix
    obtain ⟨rest', hr⟩ := siblingsFollow_spec dm d h rest0 hs
    subst hr
    have h2 : (packPass dm rest').length ≤ rest'.length := by
      have : ∀ l : List Nat, (packPass dm l).length ≤ l.length := by
        intro l
        fun_induction packPass dm l with
        | case1 => simp
        | case2 c rest d h hc ih => simp only [List.length_cons]; omega
        | case3 c rest d h hc hs ih => simp only [List.length_cons, List.length_drop] at ih ⊢; omega
        | case4 c rest d h hc hs ih => simp only [List.length_cons]; omega
      exact this rest'
    simp only [List.drop_succ_cons, List.drop_zero, List.length_cons] at h1
    omega
  | case4 c0 rest0 d h hc hs ih =>
    have hrest : packPass dm rest0 = rest0 := by simpa using hfix
    intro pre c rest hl
    cases pre with
    | nil =>
      simp only [List.nil_append, List.cons.injEq] at hl
      obtain ⟨rfl, rfl⟩ := hl
      intro hm
      exact absurd hm.2 (by simpa using hs)
    | cons p pre' =>
      simp only [List.cons_append, List.cons.injEq] at hl
      exact ih hrest pre' c rest hl.2

theorem raw_of_decode {dm : Nat} (hdm : dm ≤ 29) {r : Nat} (hv : ValidRaw dm r) {c : Cell} (hdec : decode r dm = c) :
    r = encode dm c ∧ c.depth ≤ dm ∧ c.hash < 12 * 4 ^ c.depth := by
  obtain ⟨c0, h1, h2, rfl⟩ := hv
  rw [decode_encode h1 hdm h2] at hdec
  subst hdec
  exact ⟨rfl, h1, h2⟩

/-- a valid list that is a fixed point of the pass contains no four consecutive full siblings -/
theorem fix_no_four_full (dm : Nat) (hdm : dm ≤ 29) (m : List Nat) (hv : ∀ r ∈ m, ValidRaw dm r)
    (hfix : packPass dm m = m) (pre rest : List Cell) (d h : Nat) (hd : 0 < d) (h4 : h % 4 = 0) :
    cellsOf dm m ≠ pre ++ ⟨d, h, true⟩ :: ⟨d, h + 1, true⟩ :: ⟨d, h + 2, true⟩ :: ⟨d, h + 3, true⟩ :: rest := by
  intro heq
  unfold cellsOf at heq
  obtain ⟨m1, m2, hm, _, h2⟩ := List.map_eq_append_iff.mp heq
  obtain ⟨r0, t0, rfl, d0, h2⟩ := List.map_eq_cons_iff.mp h2
  obtain ⟨r1, t1, rfl, d1, h2⟩ := List.map_eq_cons_iff.mp h2
  obtain ⟨r2, t2, rfl, d2, h2⟩ := List.map_eq_cons_iff.mp h2
  obtain ⟨r3, t3, rfl, d3, _⟩ := List.map_eq_cons_iff.mp h2
  subst hm
  have v : ∀ r ∈ [r0, r1, r2, r3], ValidRaw dm r := fun r hr => hv r (by
    simp only [List.mem_cons, List.not_mem_nil, or_false] at hr
    simp only [List.mem_append, List.mem_cons]
    rcases hr with rfl | rfl | rfl | rfl <;> simp)
  obtain ⟨e0, hd0, hh0⟩ := raw_of_decode hdm (v r0 (by simp)) d0
  obtain ⟨e1, _, _⟩ := raw_of_decode hdm (v r1 (by simp)) d1
  obtain ⟨e2, _, _⟩ := raw_of_decode hdm (v r2 (by simp)) d2
  obtain ⟨e3, _, _⟩ := raw_of_decode hdm (v r3 (by simp)) d3
  have hand : h &&& 3 = 0 := by
    have := Nat.and_two_pow_sub_one_eq_mod h 2
    simpa [h4] using this
  obtain ⟨p1, p2, p3, _⟩ := raw_parts hdm (c := ⟨d, h, true⟩) hd0 hh0
  rw [← e0] at p1 p2 p3
  simp only at p1 p2 p3
  apply packPass_fix_no_merge dm _ hfix m1 r0 (r1 :: r2 :: r3 :: t3) rfl
  refine ⟨?_, ?_⟩
  · rw [p1, p2, p3, hand]
    have : (d == 0) = false := by simp; omega
    simp [this]
  · rw [p1, p2]
    simp only [siblingsFollow, Bool.and_eq_true, beq_iff_eq]
    rw [or_eq_add_of_and3 h 1 hand (by omega), or_eq_add_of_and3 h 2 hand (by omega), or_eq_add_of_and3 h 3 hand (by omega)]
    exact ⟨⟨e1, e2⟩, e3⟩

end Hpx.Bmoc
