import HpxVerif.Lemmas.EnvelopeReal4

/-!
# C16 — positions inside a cell, every depth (part 5): the special case of depth 1

`c2v_uniform_eqr` (depth `≥ 2`) bounds the true distances of every equatorial cell by the value of
`largest_center_to_vertex_distance` at any equatorial position.  At depth 1 this fails by 0.7 %
(`dMax2_half_lt`, `c2v_not_uniform_depth1`: positions just below the transition latitude against the cell centred on
the equator), but the statement that matters — the position lies in the cell — holds at every depth:

**`c2v_dominates_in_cell`**: for every depth `d ≥ 1`, every cell centre ordinate `y` with `|y| + 1/2^d ≤ 1` and every
position whose plane ordinate `yp` satisfies `|yp − y| ≤ 1/2^d` (every point of the cell), `|yp| < 1`:
`c2v (ConstantsC2V::new(d)) lon (arcsin(2·yp/3)) ≥ max(dN, dS, dE)` of the cell.
-/

namespace Hpx.EnvelopeReal
open Hpx Hpx.C2V Hpx.C2VReal Hpx.Proj Real

/-! ## numerical bounds -/

theorem tl_ge : 72 / 100 ≤ tl := by
  have hpi := Real.pi_gt_three
  show 72 / 100 ≤ Real.arcsin (2 / 3)
  rw [Real.le_arcsin_iff_sin_le ⟨by linarith, by linarith⟩ ⟨by norm_num, by norm_num⟩]
  have h := Real.sin_bound (x := 72 / 100) (by rw [abs_of_pos] <;> norm_num)
  rw [abs_le] at h
  have e : |(72 / 100 : ℝ)| = 72 / 100 := abs_of_pos (by norm_num)
  rw [e] at h
  norm_num at h
  linarith [h.2]

theorem arcsin_le_of_le_sub_cube (u x : ℝ) (hu : -1 ≤ u) (hx0 : 0 ≤ x) (hx1 : x ≤ π / 2) (h : u ≤ x - x ^ 3 / 6) :
    Real.arcsin u ≤ x := by
  have hpi := Real.pi_pos
  rcases le_or_gt u 1 with hu1 | hu1
  · rw [Real.arcsin_le_iff_le_sin ⟨hu, hu1⟩ ⟨by linarith, hx1⟩]
    exact h.trans (Real.sin_ge_sub_cube hx0)
  · have := Real.sin_ge_sub_cube hx0
    have := Real.sin_le_one x
    linarith

theorem tl_le : tl ≤ 74 / 100 := by
  have hpi := Real.pi_gt_three
  exact arcsin_le_of_le_sub_cube (2 / 3) (74 / 100) (by norm_num) (by norm_num) (by linarith) (by norm_num)

theorem arcsin_three_fifths_le : Real.arcsin (3 / 5) ≤ 65 / 100 := by
  have hpi := Real.pi_gt_three
  exact arcsin_le_of_le_sub_cube (3 / 5) (65 / 100) (by norm_num) (by norm_num) (by linarith) (by norm_num)

theorem cos_052_le : cos (52 / 100) ≤ 8687 / 10000 := by
  have h := Real.cos_bound (x := 52 / 100) (by rw [abs_of_pos] <;> norm_num)
  rw [abs_le] at h
  have e : |(52 / 100 : ℝ)| = 52 / 100 := abs_of_pos (by norm_num)
  rw [e] at h
  norm_num at h
  linarith [h.2]

/-- `dMax2(1/2) = arcsin(2/3) − arcsin(1/3) ≥ 0.3837` -/
theorem dMax2_half_ge : 3837 / 10000 ≤ dMax2 (1 / 2) := by
  have hpi := Real.pi_pos
  unfold dMax2
  show _ ≤ Real.arcsin (2 / 3) - _
  rw [show (1 - 1 / 2 : ℝ) * (2 / 3) = 1 / 3 by norm_num]
  set a := Real.arcsin (2 / 3) with ha
  set b := Real.arcsin (1 / 3) with hb
  have hb0 : 1 / 3 ≤ b := le_arcsin (1 / 3) (by norm_num) (by norm_num)
  have ha0 : 72 / 100 ≤ a := tl_ge
  have hba : b ≤ a := Real.arcsin_le_arcsin (by norm_num)
  have ha2 : a ≤ π / 2 := Real.arcsin_le_pi_div_two _
  have hsa : sin a = 2 / 3 := Real.sin_arcsin (by norm_num) (by norm_num)
  have hsb : sin b = 1 / 3 := Real.sin_arcsin (by norm_num) (by norm_num)
  have hkey : sin a - sin b = 2 * sin ((a - b) / 2) * cos ((a + b) / 2) := Real.sin_sub_sin _ _
  rw [hsa, hsb] at hkey
  have hc : cos ((a + b) / 2) ≤ 8687 / 10000 :=
    (Real.cos_le_cos_of_nonneg_of_le_pi (by norm_num) (by linarith) (by linarith)).trans cos_052_le
  have hc0 : 0 ≤ cos ((a + b) / 2) :=
    Real.cos_nonneg_of_neg_pi_div_two_le_of_le (by linarith) (by linarith)
  have hs : sin ((a - b) / 2) ≤ (a - b) / 2 := Real.sin_le (by linarith)
  have hprod : sin ((a - b) / 2) * cos ((a + b) / 2) ≤ (a - b) / 2 * (8687 / 10000) :=
    mul_le_mul hs hc hc0 (by linarith)
  nlinarith

/-- `dMax2(1/2) < π/8 = dE(1/2, 0)`: at depth 1 the anchor at the transition latitude is below the centre-to-east
    distance of the cells centred on the equator (`sin(a − b) = (2√8 − √5)/9 ≈ 0.38009`) -/
theorem dMax2_half_lt : dMax2 (1 / 2) < 392 / 1000 := by
  have hpi := Real.pi_gt_three
  unfold dMax2
  show Real.arcsin (2 / 3) - _ < _
  rw [show (1 - 1 / 2 : ℝ) * (2 / 3) = 1 / 3 by norm_num]
  set a := Real.arcsin (2 / 3) with ha
  set b := Real.arcsin (1 / 3) with hb
  have hb0 : 0 ≤ b := Real.arcsin_nonneg.mpr (by norm_num)
  have hba : b ≤ a := Real.arcsin_le_arcsin (by norm_num)
  have ha2 : a ≤ π / 2 := Real.arcsin_le_pi_div_two _
  have hsa : sin a = 2 / 3 := Real.sin_arcsin (by norm_num) (by norm_num)
  have hsb : sin b = 1 / 3 := Real.sin_arcsin (by norm_num) (by norm_num)
  have hca : cos a = Real.sqrt 5 / 3 := by
    rw [ha, Real.cos_arcsin, show (1 : ℝ) - (2 / 3) ^ 2 = 5 / 9 by norm_num,
      show (5 : ℝ) / 9 = 5 / 3 ^ 2 by norm_num, Real.sqrt_div (by norm_num), Real.sqrt_sq (by norm_num)]
  have hcb : cos b = Real.sqrt 8 / 3 := by
    rw [hb, Real.cos_arcsin, show (1 : ℝ) - (1 / 3) ^ 2 = 8 / 9 by norm_num,
      show (8 : ℝ) / 9 = 8 / 3 ^ 2 by norm_num, Real.sqrt_div (by norm_num), Real.sqrt_sq (by norm_num)]
  have h8 : Real.sqrt 8 ≤ 28285 / 10000 := by
    rw [Real.sqrt_le_left (by norm_num)]; norm_num
  have h5 : 2236 / 1000 ≤ Real.sqrt 5 := Real.le_sqrt_of_sq_le (by norm_num)
  have hsin : sin (a - b) ≤ 3802 / 10000 := by
    rw [Real.sin_sub, hsa, hsb, hca, hcb]; linarith
  by_contra hcon
  rw [not_lt] at hcon
  -- `sin` is increasing on `[0, π/2]`
  have hmono : sin (392 / 1000) ≤ sin (a - b) :=
    Real.sin_le_sin_of_le_of_le_pi_div_two (by linarith) (by linarith) hcon
  have hlow := Real.sin_ge_sub_cube (x := 392 / 1000) (by norm_num)
  norm_num at hlow
  linarith

/-! ## the line at depth 1 -/

/-- the line in barycentric form: `topEnv x = dMax2 + (dMin2 − dMax2)·(tl − x)/(tl − lsc)` -/
theorem new_topEnv_bary (d : Nat) (x : ℝ) :
    topEnv (Csts.new d : Csts ℝ) x =
      dMax2 (1 / 2 ^ d) + (dMin2 (1 / 2 ^ d) - dMax2 (1 / 2 ^ d)) * ((tl - x) / (tl - lsc)) := by
  have h : tl - lsc ≠ 0 := by linarith [lsc_lt_tl]
  unfold topEnv
  rw [new_interceptEqr_eq, new_slopeEqr_eq']
  field_simp
  ring

theorem pow_one_half : (1 : ℝ) / 2 ^ 1 = 1 / 2 := by norm_num

/-- depth 1: the line is above `π/8` up to the latitude `arcsin(3/5)` (ordinate `9/10`) -/
theorem topEnv_one_ge (x : ℝ) (hx : x ≤ Real.arcsin (3 / 5)) : π / 8 ≤ topEnv (Csts.new 1 : Csts ℝ) x := by
  have hpi2 := Real.pi_lt_d2
  norm_num at hpi2
  have h1 := tl_ge
  have h2 := tl_le
  have h3 := arcsin_three_fifths_le
  have h4 := lsc_pos
  have h5 := lsc_lt_tl
  have hA := dMax2_half_ge
  have hB := dMin2_gt (1 / 2) (by norm_num)
  rw [new_topEnv_bary, pow_one_half]
  have hρ : 9 / 100 ≤ (tl - x) / (tl - lsc) := by
    rw [le_div_iff₀ (by linarith)]; nlinarith
  have hA2 := dMax2_half_lt
  have hD : 18 / 100 ≤ dMin2 (1 / 2) - dMax2 (1 / 2) := by linarith
  have hprod : 18 / 100 * (9 / 100) ≤ (dMin2 (1 / 2) - dMax2 (1 / 2)) * ((tl - x) / (tl - lsc)) :=
    mul_le_mul hD hρ (by norm_num) (by linarith)
  linarith

/-! ## the uniform statement fails at depth 1 -/

/-- **depth 1, not uniform**: some positions of the equatorial region (just below the transition latitude) get a value
    smaller than the centre-to-east distance `π/8` of the depth-1 cells centred on the equator.  These positions are
    not in those cells (`c2v_dominates_in_cell`): this delimits `c2v_uniform_eqr`, it is not a defect. -/
theorem c2v_not_uniform_depth1 (lon : ℝ) :
    ∃ lat : ℝ, |lat| < tl ∧ |(0 : ℝ)| + 1 / 2 ^ 1 ≤ 1 ∧ c2v (Csts.new 1) lon lat < dE (1 / 2 ^ 1) 0 := by
  have hpi2 := Real.pi_gt_d2
  have h4 := lsc_pos
  have h5 := lsc_lt_tl
  have hA := dMax2_half_lt
  have hB : dMin2 (1 / 2) ≤ 1 := by
    have hpi := Real.pi_gt_three
    unfold dMin2
    have := cosLsc_lt_one
    have h43 : 4 / π ≤ 4 / 3 := by
      rw [div_le_div_iff₀ (by linarith) (by norm_num)]; linarith
    have hc := cosLsc_pos
    nlinarith
  -- the position at 1/10000 of the way from `tl` down to `lsc`
  refine ⟨tl - (tl - lsc) / 10000, ?_, by norm_num, ?_⟩
  · rw [abs_of_pos (by linarith)]; linarith
  · rw [pow_one_half, dE_equator _ (by norm_num) (by norm_num)]
    unfold c2v
    rw [abs_of_pos (by linarith), if_neg (by linarith), if_pos (by linarith), new_topEnv_bary, pow_one_half]
    have e : (tl - (tl - (tl - lsc) / 10000)) / (tl - lsc) = 1 / 10000 := by
      have h : tl - lsc ≠ 0 := by linarith
      field_simp; ring
    rw [e]
    have hA' := dMax2_half_ge
    nlinarith

/-! ## positions inside the cell, every depth -/

/-- below `lsc` the envelope is at least `dMin2` -/
theorem c2v_ge_dMin2 (d : Nat) (lon lat : ℝ) (hlat : |lat| < lsc) : dMin2 (1 / 2 ^ d) ≤ c2v (Csts.new d) lon lat := by
  unfold c2v
  rw [if_neg (not_le.mpr (hlat.trans lsc_lt_tl)), if_neg (not_le.mpr hlat)]
  exact new_botEnv_ge d |lat| (abs_nonneg lat) hlat.le

theorem cos_latOf_le (y : ℝ) (hy0 : 2 / 5 ≤ y) : cos (latOf y) ≤ 964 / 1000 := by
  unfold latOf
  rw [Real.cos_arcsin, Real.sqrt_le_left (by norm_num)]
  nlinarith

/-- depth 1, northern hemisphere: `dE` of the cell is below the envelope at every position of the cell -/
theorem dE_le_c2v_depth1 (lon yp y : ℝ) (hp0 : 0 ≤ yp) (hp : |yp - y| ≤ 1 / 2)
    (hp1 : yp < 1) : dE (1 / 2) y ≤ c2v (Csts.new 1) lon (latOf yp) := by
  have hpi2 := Real.pi_lt_d2
  norm_num at hpi2
  have hpi := Real.pi_pos
  obtain ⟨p1, p2⟩ := abs_le.mp hp
  have hlp0 := latOf_nonneg yp hp0
  have hlt := latOf_lt_tl yp hp0 hp1
  rcases lt_or_ge (latOf yp) lsc with h | h
  · have := c2v_ge_dMin2 1 lon (latOf yp) (by rw [abs_of_nonneg hlp0]; exact h)
    rw [pow_one_half] at this
    exact (dE_le_dMin2 _ y (by norm_num) (by norm_num)).trans this
  · have hval : c2v (Csts.new 1) lon (latOf yp) = topEnv (Csts.new 1 : Csts ℝ) (latOf yp) := by
      unfold c2v
      rw [abs_of_nonneg hlp0, if_neg (not_le.mpr hlt), if_pos h]
    rcases le_or_gt lsc (latOf y) with hc | hc
    · have h1 := dE_le_dMax2 (1 / 2) y (by norm_num) le_rfl hc
      have h2 := c2v_ge_dMax2 1 lon (latOf yp) (by rw [abs_of_nonneg hlp0]; exact hlt)
      rw [pow_one_half] at h2
      exact h1.trans h2
    · rw [hval]
      rcases le_or_gt yp (9 / 10) with h9 | h9
      · have hx : latOf yp ≤ Real.arcsin (3 / 5) := by
          unfold latOf; exact Real.arcsin_le_arcsin (by linarith)
        exact (dE_le_step _ y (by norm_num) (by norm_num)).trans
          (le_trans (by linarith) (topEnv_one_ge (latOf yp) hx))
      · have hc1 := cos_latOf_le y (by linarith)
        have h1 := dE_le (1 / 2) y (by norm_num) (by norm_num)
        have h2 : cos (latOf y) * (1 / 2 * (π / 4)) ≤ 964 / 1000 * (1 / 2 * (π / 4)) :=
          mul_le_mul_of_nonneg_right hc1 (by positivity)
        have h3 := dMax2_half_ge
        have h4 := new_topEnv_ge 1 (latOf yp) hlt.le
        rw [pow_one_half] at h4
        nlinarith

/-- **`c2v_dominates_in_cell`** (ℝ, every depth `d ≥ 1`, `δ = 1/2^d`): let `y` be the plane ordinate of a cell centre
    with `|y| + δ ≤ 1` (four vertices in the equatorial region) and `yp` the plane ordinate of any point of the cell
    (`|yp − y| ≤ δ`) with `|yp| < 1`.  Then the value of `largest_center_to_vertex_distance` at that point
    (latitude `arcsin(2·yp/3)`, any longitude) is at least the three true centre-to-vertex distances of the cell. -/
theorem c2v_dominates_in_cell (d : Nat) (hd : 1 ≤ d) (lon yp y : ℝ) (hy : |y| + 1 / 2 ^ d ≤ 1)
    (hp : |yp - y| ≤ 1 / 2 ^ d) (hp1 : |yp| < 1) :
    max (dN (1 / 2 ^ d) y) (max (dS (1 / 2 ^ d) y) (dE (1 / 2 ^ d) y)) ≤ c2v (Csts.new d) lon (latOf yp) := by
  have hlat : |latOf yp| < tl := by rw [abs_latOf]; exact latOf_lt_tl |yp| (abs_nonneg yp) hp1
  rcases Nat.lt_or_ge d 2 with h | h
  · have hd1 : d = 1 := by omega
    subst hd1
    obtain ⟨hN, hS⟩ := dN_dS_le_dMax2 _ y (by norm_num) hy
    have h1 := c2v_ge_dMax2 1 lon (latOf yp) hlat
    refine max_le (hN.trans h1) (max_le (hS.trans h1) ?_)
    rw [pow_one_half] at hy hp ⊢
    have hc : c2v (Csts.new 1) lon (latOf yp) = c2v (Csts.new 1) lon (latOf |yp|) := by
      unfold c2v; rw [abs_latOf, abs_of_nonneg (latOf_nonneg |yp| (abs_nonneg yp))]
    have hE : dE (1 / 2) y = dE (1 / 2) |y| := by
      rcases le_or_gt 0 y with h0 | h0
      · rw [abs_of_nonneg h0]
      · rw [abs_of_neg h0, dE_neg]
    rw [hc, hE]
    exact dE_le_c2v_depth1 lon |yp| |y| (abs_nonneg yp)
      ((abs_abs_sub_abs_le_abs_sub yp y).trans hp) hp1
  · exact c2v_uniform_eqr d h lon (latOf yp) hlat y hy

/-- the model function (release), depth `1 … 29` -/
theorem largestC2V_dominates_in_cell (d : Nat) (hd1 : 1 ≤ d) (hd2 : d ≤ 29) (lon yp y : ℝ) (hy : |y| + 1 / 2 ^ d ≤ 1)
    (hp : |yp - y| ≤ 1 / 2 ^ d) (hp1 : |yp| < 1) :
    ∃ v, largestC2V false d lon (latOf yp) = some v ∧
      dN (1 / 2 ^ d) y ≤ v ∧ dS (1 / 2 ^ d) y ≤ v ∧ dE (1 / 2 ^ d) y ≤ v := by
  refine ⟨c2v (Csts.new d) lon (latOf yp), ?_, ?_⟩
  · rw [c2v_region_choice, if_neg (by omega), if_neg (by omega)]
  · have := c2v_dominates_in_cell d hd1 lon yp y hy hp hp1
    simp only [max_le_iff] at this
    exact ⟨this.1, this.2.1, this.2.2⟩

/-- depth 1, the cell of centre ordinate `1/2` and its point of ordinate `19/20` -/
example : |(1 / 2 : ℝ)| + 1 / 2 ^ 1 ≤ 1 ∧ |(19 / 20 : ℝ) - 1 / 2| ≤ 1 / 2 ^ 1 ∧ |(19 / 20 : ℝ)| < 1 := by
  refine ⟨?_, ?_, ?_⟩ <;> norm_num [abs_of_pos, abs_lt, abs_le]

end Hpx.EnvelopeReal

#print axioms Hpx.EnvelopeReal.dMax2_half_lt
#print axioms Hpx.EnvelopeReal.c2v_not_uniform_depth1
#print axioms Hpx.EnvelopeReal.c2v_dominates_in_cell
#print axioms Hpx.EnvelopeReal.largestC2V_dominates_in_cell
