/-
The fixed-depth BMOC builder (C15): `sort; dedup`, `largest_lower_cell_sequence_len`, `buff_to_bmoc`, and the whole
`push … to_bmoc` state machine: the result covers exactly the pushed hashes, with the builder's flag.
-/
import HpxVerif.Lemmas.BmocPack
import Mathlib.Tactic.Ring
import Mathlib.Tactic.Linarith

namespace Hpx.Bmoc.Builder

/-! ## 1. `sort_unstable(); dedup()`

The membership / `≤`-sortedness lemmas are those of `Lemmas/PolyLemmas.lean` (namespace `Hpx.Sph`), restated here with the
same proofs: that module had no compiled `.olean` when this file was written (so it could not be imported) and it pulls
in the whole spherical-geometry model.  The strictness lemma `dedupAdj_strict` is new. -/

theorem mem_insertSorted (x y : Nat) (l : List Nat) : y ∈ insertSorted x l ↔ y = x ∨ y ∈ l := by
  induction l with
  | nil => simp [insertSorted]
  | cons a l ih =>
    unfold insertSorted
    split
    · simp
    · simp [ih]; grind

theorem mem_sortNat (y : Nat) (l : List Nat) : y ∈ sortNat l ↔ y ∈ l := by
  induction l with
  | nil => simp [sortNat]
  | cons a l ih =>
    have : sortNat (a :: l) = insertSorted a (sortNat l) := rfl
    rw [this, mem_insertSorted, ih]; simp

theorem pairwise_insertSorted (x : Nat) (l : List Nat) (h : l.Pairwise (· ≤ ·)) :
    (insertSorted x l).Pairwise (· ≤ ·) := by
  induction l with
  | nil => simp [insertSorted]
  | cons a l ih =>
    unfold insertSorted
    have h' := List.pairwise_cons.mp h
    split
    · rename_i hxa
      refine List.pairwise_cons.mpr ⟨?_, h⟩
      intro b hb
      rcases List.mem_cons.mp hb with rfl | hb
      · exact hxa
      · exact Nat.le_trans hxa (h'.1 b hb)
    · rename_i hxa
      refine List.pairwise_cons.mpr ⟨?_, ih h'.2⟩
      intro b hb
      rcases (mem_insertSorted x b l).mp hb with rfl | hb
      · omega
      · exact h'.1 b hb

theorem pairwise_sortNat (l : List Nat) : (sortNat l).Pairwise (· ≤ ·) := by
  induction l with
  | nil => simp [sortNat]
  | cons a l ih => exact pairwise_insertSorted a _ ih

theorem mem_dedupAdj (y : Nat) : ∀ l : List Nat, y ∈ dedupAdj l ↔ y ∈ l
  | [] => by simp [dedupAdj]
  | [x] => by simp [dedupAdj]
  | x :: z :: rest => by
    have ih := mem_dedupAdj y (z :: rest)
    unfold dedupAdj
    split
    · rename_i hxz
      have : x = z := by simpa using hxz
      subst this
      rw [ih]; simp
    · simp only [List.mem_cons] at ih ⊢
      rw [ih]

theorem mem_dedup_sort (y : Nat) (l : List Nat) : y ∈ dedupAdj (sortNat l) ↔ y ∈ l := by
  rw [mem_dedupAdj, mem_sortNat]

theorem dedupAdj_strict : ∀ l : List Nat, l.Pairwise (· ≤ ·) → (dedupAdj l).Pairwise (· < ·)
  | [], _ => by simp [dedupAdj]
  | [x], _ => by simp [dedupAdj]
  | x :: z :: rest, h => by
    have h' := List.pairwise_cons.mp h
    have ih := dedupAdj_strict (z :: rest) h'.2
    unfold dedupAdj
    split
    · exact ih
    · rename_i hne
      refine List.pairwise_cons.mpr ⟨?_, ih⟩
      intro b hb
      have hb' := (mem_dedupAdj b (z :: rest)).mp hb
      have hxz : x ≤ z := h'.1 z (by simp)
      have hzb : z ≤ b := by
        rcases List.mem_cons.mp hb' with rfl | hb''
        · exact Nat.le_refl _
        · exact (List.pairwise_cons.mp h'.2).1 b hb''
      have : x ≠ z := by simpa using hne
      omega

/-- **`dedupAdj (sortNat l)` is strictly increasing and has the same members as `l`** -/
theorem sort_dedup_spec (l : List Nat) :
    (dedupAdj (sortNat l)).Pairwise (· < ·) ∧ ∀ y, y ∈ dedupAdj (sortNat l) ↔ y ∈ l :=
  ⟨dedupAdj_strict _ (pairwise_sortNat l), fun y => mem_dedup_sort y l⟩

/-! ## 2. `largest_lower_cell_sequence_len` -/

theorem seqLenAux_spec : ∀ (n i h : Nat) (es : List Nat),
    i ≤ seqLenAux n i h es ∧ seqLenAux n i h es ≤ i + n ∧ seqLenAux n i h es - i ≤ es.length ∧
    es.take (seqLenAux n i h es - i) = List.range' (h + 1) (seqLenAux n i h es - i) := by
  intro n
  induction n with
  | zero => intro i h es; simp [seqLenAux]
  | succ n ih =>
    intro i h es
    cases es with
    | nil => simp [seqLenAux]
    | cons e es =>
      simp only [seqLenAux]
      split
      · simp
      · rename_i he
        have he' : e = h + 1 := by simpa using he
        obtain ⟨i1, i2, i3, i4⟩ := ih (i + 1) (h + 1) es
        generalize seqLenAux n (i + 1) (h + 1) es = r at *
        have hr : r - i = (r - (i + 1)) + 1 := by omega
        refine ⟨by omega, by omega, by simp only [List.length_cons]; omega, ?_⟩
        rw [hr, List.take_succ_cons, i4, he', List.range'_succ]

theorem one_shl_eq (dd : Nat) : 1 <<< (dd <<< 1) = 4 ^ dd := by
  rw [Nat.shiftLeft_eq, Nat.one_mul, Nat.shiftLeft_eq, Nat.pow_one, Nat.mul_comm, Nat.pow_mul]

/-- **`seqLen_spec`**: the returned length is at least 1, at most the size of the largest cell `h` may start
    (`4^min(tz h / 2, depth)`), at most the number of entries, and the first `sl` entries are `h, h+1, …, h+sl-1` -/
theorem seqLen_spec (depth h : Nat) (rest : List Nat) :
    1 ≤ largestLowerCellSequenceLen depth h (h :: rest) ∧
    largestLowerCellSequenceLen depth h (h :: rest) ≤ 4 ^ (min (tz64 h / 2) depth) ∧
    largestLowerCellSequenceLen depth h (h :: rest) ≤ (h :: rest).length ∧
    (h :: rest).take (largestLowerCellSequenceLen depth h (h :: rest)) =
      List.range' h (largestLowerCellSequenceLen depth h (h :: rest)) := by
  unfold largestLowerCellSequenceLen
  simp only [one_shl_eq, List.length_cons, List.tail_cons]
  rw [show tz64 h >>> 1 = tz64 h / 2 by rw [Nat.shiftRight_eq_div_pow]]
  have hp : 1 ≤ 4 ^ (min (tz64 h / 2) depth) := Nat.pow_pos (by decide)
  generalize 4 ^ (min (tz64 h / 2) depth) = M at *
  split
  · rename_i hn
    have hn1 : min M (rest.length + 1) = 1 := by omega
    rw [hn1]
    refine ⟨by omega, by omega, by omega, by simp⟩
  · rename_i hn
    obtain ⟨s1, s2, s3, s4⟩ := seqLenAux_spec (min M (rest.length + 1) - 1) 1 h rest
    generalize seqLenAux (min M (rest.length + 1) - 1) 1 h rest = r at *
    refine ⟨s1, by omega, by omega, ?_⟩
    have hr : r = (r - 1) + 1 := by omega
    rw [hr, List.take_succ_cons, s4, List.range'_succ]

/-! ## 3. `buff_to_bmoc` -/

theorem tzAux_dvd : ∀ (f x : Nat), 2 ^ tzAux f x ∣ x := by
  intro f
  induction f with
  | zero => intro x; simp [tzAux]
  | succ f ih =>
    intro x
    simp only [tzAux]
    split
    · simp
    · rename_i hx
      obtain ⟨k, hk⟩ := ih (x / 2)
      refine ⟨k, ?_⟩
      rw [Nat.pow_add, Nat.pow_one, Nat.mul_assoc, ← hk]; omega

/-- `2^trailing_zeros(h)` divides `h` (trivially for `h = 0`, where `trailing_zeros = 64`) -/
theorem two_pow_tz64_dvd (h : Nat) (hlt : h < 2 ^ 64) : 2 ^ tz64 h ∣ h := by
  unfold tz64
  rw [Nat.mod_eq_of_lt hlt]
  split
  · rename_i h0; rw [h0]; exact Nat.dvd_zero _
  · exact tzAux_dvd 64 h

/-- any `dd ≤ tz h / 2` gives an aligned cell -/
theorem four_pow_dvd_of_le_tz {h dd : Nat} (hlt : h < 2 ^ 64) (hdd : dd ≤ tz64 h / 2) : 4 ^ dd ∣ h := by
  have h1 : (4 : Nat) ^ dd = 2 ^ (2 * dd) := by rw [Nat.pow_mul]
  rw [h1]
  exact Nat.dvd_trans (Nat.pow_dvd_pow 2 (by omega)) (two_pow_tz64_dvd h hlt)

/-- `usize::next_power_of_two`: the smallest power of two that is `≥ n` -/
theorem nextPow2_spec (n : Nat) (hn : 1 ≤ n) :
    ∃ e, nextPow2 n = 2 ^ e ∧ n ≤ 2 ^ e ∧ (n < 2 ^ e → 1 ≤ e ∧ 2 ^ (e - 1) < n) := by
  unfold nextPow2
  split
  · exact ⟨0, rfl, by omega, by intro h; omega⟩
  · rename_i h1
    refine ⟨(n - 1).log2 + 1, rfl, ?_, ?_⟩
    · have := Nat.lt_log2_self (n := n - 1); omega
    · intro _
      have := Nat.log2_self_le (n := n - 1) (by omega)
      refine ⟨by omega, ?_⟩
      rw [Nat.add_sub_cancel]; omega

theorem tz64_two_pow (e : Nat) (he : e < 64) : tz64 (2 ^ e) = e := by
  have := tz64_odd_mul e 1 (by decide) (by rw [Nat.one_mul]; exact Nat.pow_lt_pow_right (by decide) he)
  rwa [Nat.one_mul] at this

theorem two_pow_le_four_pow29 {e : Nat} (h : 2 ^ e ≤ 4 ^ 29) : e ≤ 58 := by
  have : (4 : Nat) ^ 29 = 2 ^ 58 := by decide
  rw [this] at h
  exact (Nat.pow_le_pow_iff_right (by decide)).1 h

/-- the `delta_depth` chosen by `buff_to_bmoc` for a run of length `sl`: its cell is not longer than the run
    (both arms of the `next_power_of_two` trick) -/
theorem dd_choice (sl : Nat) (h1 : 1 ≤ sl) (h2 : sl ≤ 4 ^ 29) :
    4 ^ (if nextPow2 sl > sl then tz64 (nextPow2 sl) >>> 2 else tz64 (nextPow2 sl) >>> 1) ≤ sl := by
  obtain ⟨e, he, hle, hlt⟩ := nextPow2_spec sl h1
  rw [he]
  have h4 : ∀ k : Nat, (4 : Nat) ^ k = 2 ^ (2 * k) := fun k => by rw [Nat.pow_mul]
  split
  · rename_i hgt
    obtain ⟨e1, e2⟩ := hlt hgt
    have he58 : e - 1 < 58 := by
      have : 2 ^ (e - 1) < 4 ^ 29 := by omega
      have h29 : (4 : Nat) ^ 29 = 2 ^ 58 := by decide
      rw [h29] at this
      exact (Nat.pow_lt_pow_iff_right (by decide)).1 this
    rw [tz64_two_pow e (by omega), Nat.shiftRight_eq_div_pow, h4]
    have : 2 ^ (2 * (e / 2 ^ 2)) ≤ 2 ^ (e - 1) := Nat.pow_le_pow_right (by decide) (by omega)
    omega
  · rename_i hng
    have heq : sl = 2 ^ e := by omega
    have he58 : e ≤ 58 := two_pow_le_four_pow29 (by omega)
    rw [tz64_two_pow e (by omega), Nat.shiftRight_eq_div_pow, h4, heq]
    exact Nat.pow_le_pow_right (by decide) (by omega)

theorem twelve_four_lt (depth : Nat) (hd : depth ≤ 29) : 12 * 4 ^ depth < 2 ^ 64 := by
  have : 4 ^ depth ≤ 4 ^ 29 := Nat.pow_le_pow_right (by decide) hd
  calc 12 * 4 ^ depth ≤ 12 * 4 ^ 29 := Nat.mul_le_mul_left _ this
    _ < 2 ^ 64 := by decide

/-- one step of `buff_to_bmoc`: the emitted cell `(depth - dd, h >> 2dd)` is aligned on `h`, has at most `sl` cells of
    depth `depth`, and is a valid cell -/
theorem step_facts (depth h : Nat) (rest : List Nat) (hd : depth ≤ 29) (hh : h < 12 * 4 ^ depth)
    (sl : Nat) (hsl : sl = largestLowerCellSequenceLen depth h (h :: rest))
    (dd : Nat) (hdd : dd = if nextPow2 sl > sl then tz64 (nextPow2 sl) >>> 2 else tz64 (nextPow2 sl) >>> 1) :
    dd ≤ depth ∧ 4 ^ dd ∣ h ∧ 4 ^ dd ≤ sl ∧ sl ≤ (h :: rest).length ∧ (h :: rest).take sl = List.range' h sl ∧
    h / 4 ^ dd < 12 * 4 ^ (depth - dd) := by
  obtain ⟨s1, s2, s3, s4⟩ := seqLen_spec depth h rest
  rw [← hsl] at s1 s2 s3 s4
  have hm : 4 ^ (min (tz64 h / 2) depth) ≤ 4 ^ 29 := Nat.pow_le_pow_right (by decide) (by omega)
  have hc := dd_choice sl s1 (by omega)
  rw [← hdd] at hc
  have hle : dd ≤ min (tz64 h / 2) depth := (Nat.pow_le_pow_iff_right (by decide)).1 (Nat.le_trans hc s2)
  have hdvd : 4 ^ dd ∣ h := four_pow_dvd_of_le_tz (Nat.lt_trans hh (twelve_four_lt depth hd)) (by omega)
  refine ⟨by omega, hdvd, hc, s3, s4, ?_⟩
  apply Nat.div_lt_of_lt_mul
  have e : 4 ^ depth = 4 ^ dd * 4 ^ (depth - dd) := by rw [← Nat.pow_add]; congr 1; omega
  rw [e] at hh
  calc h < 12 * (4 ^ dd * 4 ^ (depth - dd)) := hh
    _ = 4 ^ dd * (12 * 4 ^ (depth - dd)) := by ring

theorem ofFlag_ne_abs (f : Bool) : Tri.ofFlag f ≠ .abs := by cases f <;> simp [Tri.ofFlag]

/-- **the loop of `buff_to_bmoc`** on a strictly increasing buffer of valid hashes, with enough fuel -/
theorem buffLoop_spec (depth : Nat) (flag : Bool) (hd : depth ≤ 29) : ∀ (fuel : Nat) (buf : List Nat),
    buf.length < fuel → buf.Pairwise (· < ·) → (∀ x ∈ buf, x < 12 * 4 ^ depth) →
    (∀ r ∈ buffToBmocLoop depth flag fuel buf, ValidRaw depth r) ∧
    WF depth (cellsOf depth (buffToBmocLoop depth flag fuel buf)) ∧
    (∀ B, (∀ x ∈ buf, B ≤ x) → ∀ c ∈ cellsOf depth (buffToBmocLoop depth flag fuel buf), B ≤ lo depth c) ∧
    (∀ c ∈ cellsOf depth (buffToBmocLoop depth flag fuel buf), c.full = flag) ∧
    ∀ x, stOf depth (cellsOf depth (buffToBmocLoop depth flag fuel buf)) x =
      if x ∈ buf then Tri.ofFlag flag else .abs := by
  intro fuel
  induction fuel with
  | zero => intro buf h; omega
  | succ fuel ih =>
    intro buf hlen hpw hlt
    cases buf with
    | nil => simp [buffToBmocLoop, cellsOf, WF, stOf]
    | cons h rest =>
      simp only [buffToBmocLoop]
      generalize hsl : largestLowerCellSequenceLen depth h (h :: rest) = sl
      generalize hdd : (if nextPow2 sl > sl then tz64 (nextPow2 sl) >>> 2 else tz64 (nextPow2 sl) >>> 1) = dd
      obtain ⟨f1, f2, f3, f4, f5, f6⟩ := step_facts depth h rest hd (hlt h (by simp)) sl hsl.symm dd hdd.symm
      rw [one_shl_eq, shr_eq_div]
      have hpos : 1 ≤ 4 ^ dd := Nat.pow_pos (by decide)
      -- the buffer is `h, h+1, …, h+4^dd-1` followed by the rest
      have htake : (h :: rest).take (4 ^ dd) = List.range' h (4 ^ dd) := by
        have : (h :: rest).take (4 ^ dd) = ((h :: rest).take sl).take (4 ^ dd) := by
          rw [List.take_take, Nat.min_eq_left f3]
        rw [this, f5, List.take_range'_of_length_ge f3]
      have hsplit : h :: rest = List.range' h (4 ^ dd) ++ (h :: rest).drop (4 ^ dd) := by
        rw [← htake, List.take_append_drop]
      generalize hR : (h :: rest).drop (4 ^ dd) = R at hsplit ⊢
      have hRlen : R.length < fuel := by
        rw [← hR, List.length_drop]; simp only [List.length_cons] at hlen ⊢; omega
      rw [hsplit] at hpw hlt
      obtain ⟨_, hpwR, hcross⟩ := List.pairwise_append.1 hpw
      have hRge : ∀ x ∈ R, h + 4 ^ dd ≤ x := by
        intro x hx
        have := hcross (h + 4 ^ dd - 1) (by rw [List.mem_range'_1]; omega) x hx
        omega
      obtain ⟨i1, i2, i3, i4, i5⟩ := ih R hRlen hpwR (fun x hx => hlt x (by simp [hx]))
      -- the emitted cell
      have hdec : decode (buildRaw (depth - dd) (h / 4 ^ dd) flag depth) depth = ⟨depth - dd, h / 4 ^ dd, flag⟩ :=
        decode_buildRaw _ _ _ _ (by omega) (raw_fits (by omega) hd f6)
      have hlo : lo depth ⟨depth - dd, h / 4 ^ dd, flag⟩ = h := by
        show h / 4 ^ dd * 4 ^ (depth - (depth - dd)) = h
        rw [show depth - (depth - dd) = dd by omega]; exact Nat.div_mul_cancel f2
      have hhi : hi depth ⟨depth - dd, h / 4 ^ dd, flag⟩ = h + 4 ^ dd := by
        show (h / 4 ^ dd + 1) * 4 ^ (depth - (depth - dd)) = h + 4 ^ dd
        rw [show depth - (depth - dd) = dd by omega, Nat.add_mul, Nat.div_mul_cancel f2, Nat.one_mul]
      rw [cellsOf_cons, hdec]
      refine ⟨?_, ?_, ?_, ?_, ?_⟩
      · intro r hr
        rcases List.mem_cons.1 hr with rfl | hr
        · exact validRaw_buildRaw flag (by omega) f6
        · exact i1 r hr
      · refine ⟨by show depth - dd ≤ depth; omega, ?_, i2⟩
        rw [hhi]; exact i3 _ hRge
      · intro B hB c hc
        rcases List.mem_cons.1 hc with rfl | hc
        · rw [hlo]; exact hB h (by rw [hsplit, List.mem_append, List.mem_range'_1]; left; omega)
        · exact i3 B (fun x hx => hB x (by rw [hsplit]; simp [hx])) c hc
      · intro c hc
        rcases List.mem_cons.1 hc with rfl | hc
        · rfl
        · exact i4 c hc
      · intro x
        rw [stOf_cons, hlo, hhi, i5 x, hsplit]
        by_cases hx : h ≤ x ∧ x < h + 4 ^ dd
        · have : x ∈ List.range' h (4 ^ dd) ++ R := by rw [List.mem_append, List.mem_range'_1]; left; exact hx
          rw [if_pos hx, if_pos this]
        · rw [if_neg hx]
          have : x ∈ List.range' h (4 ^ dd) ++ R ↔ x ∈ R := by
            rw [List.mem_append, List.mem_range'_1]
            exact ⟨fun h' => h'.resolve_left hx, Or.inr⟩
          simp only [this]

/-- the BMOCs the builder manipulates: valid raw entries, well-formed cell list -/
def GoodBmoc (D : Nat) (A : BMOC) : Prop := (∀ r ∈ A.entries, ValidRaw D r) ∧ WF D A.cells

/-- **`buffToBmoc_sem`**: for a strictly increasing buffer of hashes `< 12·4^depth`, `depth ≤ 29`, the BMOC built by
    `buff_to_bmoc` has valid entries, is well formed, all its cells carry the builder's flag, and it covers exactly the
    buffer -/
theorem buffToBmoc_sem (depth : Nat) (flag : Bool) (hd : depth ≤ 29) (buf : List Nat) (hpw : buf.Pairwise (· < ·))
    (hlt : ∀ x ∈ buf, x < 12 * 4 ^ depth) :
    (buffToBmoc depth flag buf).dmax = depth ∧
    (∀ r ∈ (buffToBmoc depth flag buf).entries, ValidRaw depth r) ∧
    WF depth (buffToBmoc depth flag buf).cells ∧
    (∀ c ∈ (buffToBmoc depth flag buf).cells, c.full = flag) ∧
    ∀ x, stOf depth (buffToBmoc depth flag buf).cells x = if x ∈ buf then Tri.ofFlag flag else .abs := by
  obtain ⟨h1, h2, _, h4, h5⟩ := buffLoop_spec depth flag hd (buf.length + 1) buf (Nat.lt_succ_self _) hpw hlt
  exact ⟨rfl, h1, h2, h4, h5⟩

theorem buffToBmoc_good (depth : Nat) (flag : Bool) (hd : depth ≤ 29) (buf : List Nat) (hpw : buf.Pairwise (· < ·))
    (hlt : ∀ x ∈ buf, x < 12 * 4 ^ depth) : GoodBmoc depth (buffToBmoc depth flag buf) :=
  ⟨(buffToBmoc_sem depth flag hd buf hpw hlt).2.1, (buffToBmoc_sem depth flag hd buf hpw hlt).2.2.1⟩

/-! ## 4. the builder as a state machine -/

/-- **the specification of `or` assumed by `fixed_builder_sem`** (proved separately): on two BMOCs of the same depth
    `D ≤ 29` with valid entries and well-formed cell lists, `or` does not panic, returns a BMOC of depth `D` with valid
    entries and a well-formed cell list, whose state function is the pointwise maximum on the cells of depth `D` -/
def OrSpec : Prop :=
  ∀ (A B : BMOC) (D : Nat), D ≤ 29 → A.dmax = D → B.dmax = D → GoodBmoc D A → GoodBmoc D B →
    ∃ R, BMOC.or A B = some R ∧ R.dmax = D ∧ GoodBmoc D R ∧
      ∀ x, x < 12 * 4 ^ D → stOf D R.cells x = Tri.max (stOf D A.cells x) (stOf D B.cells x)

/-- run a sequence of `push(hash)` calls; the Boolean says whether `len == capacity` held after that push -/
def runPushes : FixedBuilder → List (Nat × Bool) → Option FixedBuilder
  | s, [] => some s
  | s, (h, d) :: ps => (s.push h d).bind (fun s' => runPushes s' ps)

/-- `BMOCBuilderFixedDepth::with_capacity(depth, flag, _)`, the pushes, then `to_bmoc()`;
    `none` = panic, `some none` = `None` returned -/
def runBuilder (depth : Nat) (flag : Bool) (ps : List (Nat × Bool)) : Option (Option BMOC) :=
  (runPushes (FixedBuilder.init depth flag) ps).bind FixedBuilder.toBmoc

/-- state of cell `x` in the BMOC accumulated so far -/
def stB (depth : Nat) (s : FixedBuilder) (x : Nat) : Tri :=
  match s.bmoc with | none => .abs | some m => stOf depth m.cells x

/-- outside `[0, 12·4^D)` a BMOC with valid entries has nothing -/
theorem stOf_abs_of_ge {D : Nat} (hD : D ≤ 29) {l : List Nat} (hv : ∀ r ∈ l, ValidRaw D r) {x : Nat}
    (hx : 12 * 4 ^ D ≤ x) : stOf D (cellsOf D l) x = .abs := by
  apply stOf_absent_of_ge
  intro c hc
  obtain ⟨r, hr, rfl⟩ := List.mem_map.1 hc
  obtain ⟨c0, h1, h2, rfl⟩ := hv r hr
  rw [decode_encode h1 hD h2]
  unfold hi
  have e : 4 ^ D = 4 ^ c0.depth * 4 ^ (D - c0.depth) := by rw [← Nat.pow_add]; congr 1; omega
  have : (c0.hash + 1) * 4 ^ (D - c0.depth) ≤ (12 * 4 ^ c0.depth) * 4 ^ (D - c0.depth) :=
    Nat.mul_le_mul_right _ h2
  rw [Nat.mul_assoc, ← e] at this
  omega

theorem tri_max_ne_abs (a b : Tri) : Tri.max a b ≠ .abs ↔ (a ≠ .abs ∨ b ≠ .abs) := by
  cases a <;> cases b <;> simp [Tri.max]

theorem tri_max_flag (f : Bool) (a b : Tri) (ha : a = .abs ∨ a = Tri.ofFlag f) (hb : b = .abs ∨ b = Tri.ofFlag f) :
    Tri.max a b = .abs ∨ Tri.max a b = Tri.ofFlag f := by
  cases f <;> rcases ha with rfl | rfl <;> rcases hb with rfl | rfl <;> simp [Tri.max, Tri.ofFlag]

/-- the invariant of the builder after pushing the hashes `S` -/
structure Inv (depth : Nat) (flag : Bool) (s : FixedBuilder) (S : List Nat) : Prop where
  hdepth : s.depth = depth
  hfull : s.full = flag
  hbuf : ∀ x ∈ s.buffer, x < 12 * 4 ^ depth
  /-- while `sorted` is set the buffer is strictly increasing (so it may be used without `sort; dedup`) -/
  hsorted : s.sorted = true → s.buffer.Pairwise (· < ·)
  hbmoc : ∀ m, s.bmoc = some m → m.dmax = depth ∧ GoodBmoc depth m
  hsem : ∀ x, x ∈ S ↔ (x ∈ s.buffer ∨ stB depth s x ≠ .abs)
  hflag : ∀ x, stB depth s x = .abs ∨ stB depth s x = Tri.ofFlag flag
  hne : S ≠ [] → (s.buffer ≠ [] ∨ s.bmoc ≠ none)

theorem Inv.init (depth : Nat) (flag : Bool) : Inv depth flag (FixedBuilder.init depth flag) [] where
  hdepth := rfl
  hfull := rfl
  hbuf := by intro x hx; simp [FixedBuilder.init] at hx
  hsorted := by intro _; simp [FixedBuilder.init]
  hbmoc := by intro m hm; simp [FixedBuilder.init] at hm
  hsem := by intro x; simp [FixedBuilder.init, stB]
  hflag := by intro x; left; rfl
  hne := by intro h; exact absurd rfl h

/-- `drain_buffer` keeps the invariant, empties the buffer and leaves a BMOC -/
theorem Inv.drain (hor : OrSpec) {depth : Nat} {flag : Bool} (hd : depth ≤ 29) {s : FixedBuilder} {S : List Nat}
    (inv : Inv depth flag s S) :
    ∃ s', s.drain = some s' ∧ Inv depth flag s' S ∧ s'.buffer = [] ∧ s'.bmoc ≠ none := by
  obtain ⟨hdepth, hfull, hbuf, hsorted, hbmoc, hsem, hflag, hne⟩ := inv
  -- the buffer handed to `buff_to_bmoc`
  generalize hB : (if s.sorted = true then s.buffer else dedupAdj (sortNat s.buffer)) = buf
  have hbufP : buf.Pairwise (· < ·) ∧ ∀ y, y ∈ buf ↔ y ∈ s.buffer := by
    by_cases hs : s.sorted = true
    · rw [if_pos hs] at hB; subst hB; exact ⟨hsorted hs, fun _ => Iff.rfl⟩
    · rw [if_neg hs] at hB; subst hB; exact sort_dedup_spec s.buffer
  obtain ⟨hpw, hmem⟩ := hbufP
  have hlt : ∀ x ∈ buf, x < 12 * 4 ^ depth := fun x hx => hbuf x ((hmem x).1 hx)
  obtain ⟨n1, n2, n3, n4, n5⟩ := buffToBmoc_sem depth flag hd buf hpw hlt
  have ngood := buffToBmoc_good depth flag hd buf hpw hlt
  unfold FixedBuilder.drain
  simp only [hB, hdepth, hfull]
  cases hb : s.bmoc with
  | none =>
    refine ⟨_, rfl, ?_, rfl, by simp⟩
    have hst : ∀ x, stB depth s x = .abs := by intro x; simp [stB, hb]
    refine ⟨rfl, rfl, by intro x hx; simp at hx, by intro _; simp, ?_, ?_, ?_, ?_⟩
    · intro m hm
      simp only [Option.some.injEq] at hm
      subst hm; exact ⟨n1, ngood⟩
    · intro x
      rw [hsem x, hst x]
      show _ ↔ (x ∈ [] ∨ stOf depth (buffToBmoc depth flag buf).cells x ≠ .abs)
      rw [n5 x]
      by_cases hx : x ∈ buf
      · have := (hmem x).1 hx; simp [hx, this, ofFlag_ne_abs]
      · have : x ∉ s.buffer := fun h => hx ((hmem x).2 h)
        simp [hx, this]
    · intro x
      show stOf depth (buffToBmoc depth flag buf).cells x = .abs ∨ stOf depth (buffToBmoc depth flag buf).cells x = _
      rw [n5 x]; split
      · right; rfl
      · left; rfl
    · intro _; right; simp
  | some prev =>
    obtain ⟨pd, pgood⟩ := hbmoc prev hb
    obtain ⟨R, hR, Rd, Rgood, Rsem⟩ := hor prev (buffToBmoc depth flag buf) depth hd pd n1 pgood ngood
    simp only [hR, Option.map_some]
    refine ⟨_, rfl, ?_, rfl, by simp⟩
    have hst : ∀ x, stB depth s x = stOf depth prev.cells x := by intro x; simp [stB, hb]
    -- the state function of the union, for every `x`
    have hRall : ∀ x, stOf depth R.cells x =
        Tri.max (stOf depth prev.cells x) (if x ∈ buf then Tri.ofFlag flag else .abs) := by
      intro x
      by_cases hx : x < 12 * 4 ^ depth
      · rw [Rsem x hx, n5 x]
      · have hxb : x ∉ buf := fun h => hx (hlt x h)
        have e1 : stOf depth R.cells x = .abs := by
          have := stOf_abs_of_ge hd Rgood.1 (x := x) (by omega)
          unfold BMOC.cells; rw [Rd]; exact this
        have e2 : stOf depth prev.cells x = .abs := by
          have := stOf_abs_of_ge hd pgood.1 (x := x) (by omega)
          unfold BMOC.cells; rw [pd]; exact this
        rw [e1, e2, if_neg hxb]; rfl
    refine ⟨rfl, rfl, by intro x hx; simp at hx, by intro _; simp, ?_, ?_, ?_, ?_⟩
    · intro m hm
      simp only [Option.some.injEq] at hm
      subst hm; exact ⟨Rd, Rgood⟩
    · intro x
      rw [hsem x, hst x]
      show _ ↔ (x ∈ [] ∨ stOf depth R.cells x ≠ .abs)
      rw [hRall x, tri_max_ne_abs]
      by_cases hx : x ∈ buf
      · have := (hmem x).1 hx; simp [hx, this, ofFlag_ne_abs]
      · have : x ∉ s.buffer := fun h => hx ((hmem x).2 h)
        simp [hx, this]
    · intro x
      show stOf depth R.cells x = .abs ∨ stOf depth R.cells x = _
      rw [hRall x]
      apply tri_max_flag
      · rw [← hst x]; exact hflag x
      · split
        · right; rfl
        · left; rfl
    · intro _; right; simp

theorem le_last_of_pairwise {l : List Nat} {h : Nat} (hp : l.Pairwise (· < ·)) (hl : l.getLast? = some h) :
    ∀ a ∈ l, a ≤ h := by
  obtain ⟨ys, rfl⟩ := List.getLast?_eq_some_iff.1 hl
  obtain ⟨_, _, hc⟩ := List.pairwise_append.1 hp
  intro a ha
  rcases List.mem_append.1 ha with h1 | h1
  · exact Nat.le_of_lt (hc a h1 h (by simp))
  · simp only [List.mem_singleton] at h1; omega

theorem Inv.finish (hor : OrSpec) {depth : Nat} {flag : Bool} (hd : depth ≤ 29) {s : FixedBuilder} {S : List Nat}
    (inv : Inv depth flag s S) (d : Bool) :
    ∃ s', (if d = true then s.drain else some s) = some s' ∧ Inv depth flag s' S := by
  cases d
  · exact ⟨s, by simp, inv⟩
  · obtain ⟨s', h1, h2, _, _⟩ := inv.drain hor hd
    exact ⟨s', by simp [h1], h2⟩

/-- `push` keeps the invariant (a hash equal to the last buffered one is dropped; `sorted` is cleared as soon as a
    hash smaller than the last buffered one arrives, so a buffer with `sorted` set is strictly increasing) -/
theorem Inv.push (hor : OrSpec) {depth : Nat} {flag : Bool} (hd : depth ≤ 29) {s : FixedBuilder} {S : List Nat}
    (inv : Inv depth flag s S) (hash : Nat) (hh : hash < 12 * 4 ^ depth) (d : Bool) :
    ∃ s', s.push hash d = some s' ∧ Inv depth flag s' (S ++ [hash]) := by
  unfold FixedBuilder.push
  cases hl : s.buffer.getLast? with
  | some h =>
    simp only
    obtain ⟨ys, hys⟩ := List.getLast?_eq_some_iff.1 hl
    by_cases he : h = hash
    · have : (h == hash) = true := by simp [he]
      rw [if_pos this]
      refine ⟨s, rfl, ?_⟩
      have hin : hash ∈ s.buffer := by rw [hys, ← he]; simp
      refine ⟨inv.hdepth, inv.hfull, inv.hbuf, inv.hsorted, inv.hbmoc, ?_, inv.hflag, ?_⟩
      · intro x
        rw [List.mem_append, inv.hsem x, List.mem_singleton]
        constructor
        · rintro (h1 | rfl)
          · exact h1
          · exact Or.inl hin
        · intro h1; exact Or.inl h1
      · intro _; left; intro h0; rw [h0] at hin; simp at hin
    · have : ¬ ((h == hash) = true) := by simp [he]
      rw [if_neg this]
      apply Inv.finish hor hd
      refine ⟨inv.hdepth, inv.hfull, ?_, ?_, inv.hbmoc, ?_, inv.hflag, ?_⟩
      · intro x hx
        rcases List.mem_append.1 hx with h1 | h1
        · exact inv.hbuf x h1
        · simp only [List.mem_singleton] at h1; rw [h1]; exact hh
      · intro hs
        simp only [Bool.and_eq_true, Bool.not_eq_true', decide_eq_false_iff_not] at hs
        have hp := inv.hsorted hs.1
        refine List.pairwise_append.2 ⟨hp, by simp, ?_⟩
        intro a ha b hb
        simp only [List.mem_singleton] at hb
        have := le_last_of_pairwise hp hl a ha
        omega
      · intro x
        show _ ↔ (x ∈ s.buffer ++ [hash] ∨ stB depth s x ≠ .abs)
        rw [List.mem_append, List.mem_append, inv.hsem x]
        constructor
        · rintro ((h1 | h1) | h1)
          · exact Or.inl (Or.inl h1)
          · exact Or.inr h1
          · exact Or.inl (Or.inr h1)
        · rintro ((h1 | h1) | h1)
          · exact Or.inl (Or.inl h1)
          · exact Or.inr h1
          · exact Or.inl (Or.inr h1)
      · intro _; left; simp
  | none =>
    simp only
    have hnil : s.buffer = [] := List.getLast?_eq_none_iff.1 hl
    apply Inv.finish hor hd
    refine ⟨inv.hdepth, inv.hfull, ?_, ?_, inv.hbmoc, ?_, inv.hflag, ?_⟩
    · intro x hx
      rw [hnil] at hx
      simp only [List.nil_append, List.mem_singleton] at hx; rw [hx]; exact hh
    · intro _; show (s.buffer ++ [hash]).Pairwise (· < ·); rw [hnil]; simp
    · intro x
      show _ ↔ (x ∈ s.buffer ++ [hash] ∨ stB depth s x ≠ .abs)
      rw [List.mem_append, List.mem_append, inv.hsem x]
      constructor
      · rintro ((h1 | h1) | h1)
        · exact Or.inl (Or.inl h1)
        · exact Or.inr h1
        · exact Or.inl (Or.inr h1)
      · rintro ((h1 | h1) | h1)
        · exact Or.inl (Or.inl h1)
        · exact Or.inr h1
        · exact Or.inl (Or.inr h1)
    · intro _; left; simp

theorem Inv.run (hor : OrSpec) {depth : Nat} {flag : Bool} (hd : depth ≤ 29) : ∀ (ps : List (Nat × Bool)) (s : FixedBuilder)
    (S : List Nat), Inv depth flag s S → (∀ p ∈ ps, p.1 < 12 * 4 ^ depth) →
    ∃ s', runPushes s ps = some s' ∧ Inv depth flag s' (S ++ ps.map (·.1)) := by
  intro ps
  induction ps with
  | nil => intro s S inv _; exact ⟨s, rfl, by simpa using inv⟩
  | cons p ps ih =>
    intro s S inv hlt
    obtain ⟨h, d⟩ := p
    obtain ⟨s1, e1, inv1⟩ := inv.push hor hd h (hlt (h, d) (by simp)) d
    obtain ⟨s2, e2, inv2⟩ := ih s1 (S ++ [h]) inv1 (fun p hp => hlt p (by simp [hp]))
    refine ⟨s2, by simp [runPushes, e1, e2], ?_⟩
    simpa [List.append_assoc] using inv2

/-- **`fixed_builder_sem`**: for every `depth ≤ 29`, flag, and sequence of pushes `(hash, drainNow)` with all hashes
    `< 12·4^depth` (`drainNow` = "the buffer reached its capacity after this push", arbitrary), and provided `or`
    satisfies `OrSpec`: the run `with_capacity; push*; to_bmoc` does not panic; it returns `None` iff nothing was pushed;
    otherwise it returns a BMOC of depth `depth` with valid entries and a well-formed cell list in which every pushed
    hash has the builder's flag and every other cell of depth `depth` is absent -/
theorem fixed_builder_sem (hor : OrSpec) (depth : Nat) (flag : Bool) (hd : depth ≤ 29) (ps : List (Nat × Bool))
    (hlt : ∀ p ∈ ps, p.1 < 12 * 4 ^ depth) :
    ∃ r, runBuilder depth flag ps = some r ∧ (r = none ↔ ps = []) ∧
      ∀ m, r = some m → m.dmax = depth ∧ (∀ e ∈ m.entries, ValidRaw depth e) ∧ WF depth m.cells ∧
        ∀ x, stOf depth m.cells x = if x ∈ ps.map (·.1) then Tri.ofFlag flag else .abs := by
  cases hps : ps with
  | nil =>
    refine ⟨none, by simp [runBuilder, runPushes, FixedBuilder.init, FixedBuilder.toBmoc], by simp, ?_⟩
    intro m hm; cases hm
  | cons p0 ps0 =>
    rw [← hps]
    have hne : ps.map (·.1) ≠ [] := by rw [hps]; simp
    obtain ⟨s, e, inv⟩ := Inv.run hor hd ps _ [] (Inv.init depth flag) hlt
    rw [List.nil_append] at inv
    -- a state with an empty buffer
    have final : ∀ s' : FixedBuilder, Inv depth flag s' (ps.map (·.1)) → s'.buffer = [] →
        s'.bmoc ≠ none ∧
        ∀ m, s'.bmoc = some m → m.dmax = depth ∧ (∀ e ∈ m.entries, ValidRaw depth e) ∧ WF depth m.cells ∧
          ∀ x, stOf depth m.cells x = if x ∈ ps.map (·.1) then Tri.ofFlag flag else .abs := by
      intro s' inv' hb
      refine ⟨?_, ?_⟩
      · intro hn
        rcases inv'.hne hne with h | h
        · exact h hb
        · exact h hn
      · intro m hm
        obtain ⟨md, good⟩ := inv'.hbmoc m hm
        refine ⟨md, good.1, good.2, ?_⟩
        intro x
        have h1 := inv'.hsem x
        have h2 := inv'.hflag x
        simp only [stB, hm, hb, List.not_mem_nil, false_or] at h1 h2
        by_cases hx : x ∈ ps.map (·.1)
        · rw [if_pos hx]
          rcases h2 with h2 | h2
          · exact absurd h2 (h1.1 hx)
          · exact h2
        · rw [if_neg hx]
          by_contra hne'
          exact hx (h1.2 hne')
    have hpsne : ¬ (ps = []) := by rw [hps]; simp
    unfold runBuilder
    rw [e, Option.bind_some]
    unfold FixedBuilder.toBmoc
    by_cases hlen : s.buffer.length > 0
    · rw [if_pos hlen]
      obtain ⟨s', e', inv', hb', _⟩ := inv.drain hor hd
      obtain ⟨f1, f2⟩ := final s' inv' hb'
      rw [e', Option.map_some]
      refine ⟨s'.bmoc, rfl, ?_, f2⟩
      exact ⟨fun h => absurd h f1, fun h => absurd h hpsne⟩
    · rw [if_neg hlen]
      have hb : s.buffer = [] := List.eq_nil_of_length_eq_zero (by omega)
      obtain ⟨f1, f2⟩ := final s inv hb
      refine ⟨s.bmoc, rfl, ?_, f2⟩
      exact ⟨fun h => absurd h f1, fun h => absurd h hpsne⟩

/-! ## examples (concrete push sequences; `(hash, drainNow)`) -/

-- `sort; dedup`
example : dedupAdj (sortNat [7, 5, 5, 6, 5]) = [5, 6, 7] := by decide
-- run lengths: `16` may start a depth-0 cell (16 = 4^2) but only 5 consecutive hashes follow
example : largestLowerCellSequenceLen 2 16 [16, 17, 18, 19, 20] = 5 := by decide
example : largestLowerCellSequenceLen 2 17 [17, 18, 19, 20] = 1 := by decide
-- both arms of the `next_power_of_two` trick: a run of 4 gives one cell of depth 1, a run of 5..7 gives `dd = 0`
-- (`tz(8) >> 2`: single cells, nothing is lost), a run of 16 gives one cell of depth 0
example : (buffToBmoc 2 true [16, 17, 18, 19]).cells = [⟨1, 4, true⟩] := by decide
example : (buffToBmoc 2 true [16, 17, 18, 19, 20, 21]).cells =
    [⟨2, 16, true⟩, ⟨2, 17, true⟩, ⟨2, 18, true⟩, ⟨2, 19, true⟩, ⟨2, 20, true⟩, ⟨2, 21, true⟩] := by decide
example : (runBuilder 2 true ((List.range 16).map (fun k => (32 + k, false)))).map (·.map (·.cells)) =
    some (some [⟨0, 2, true⟩]) := by decide
-- nothing pushed: `None`
example : runBuilder 2 true [] = some none := by decide
-- unsorted pushes with repetitions, no intermediate drain
example : (runBuilder 2 true [(7, false), (5, false), (5, false), (6, false), (5, false)]).map (·.map (·.cells)) =
    some (some [⟨2, 5, true⟩, ⟨2, 6, true⟩, ⟨2, 7, true⟩]) := by decide
-- drains in the middle (capacity 2): the partial results are combined by `or` (and packed)
example : (runBuilder 2 true [(16, false), (17, true), (19, false), (18, true)]).map (·.map (·.cells)) =
    some (some [⟨1, 4, true⟩]) := by decide +kernel
example : (runBuilder 2 false [(16, false), (17, true), (19, false), (18, true), (3, false)]).map (·.map (·.cells)) =
    some (some [⟨2, 3, false⟩, ⟨2, 16, false⟩, ⟨2, 17, false⟩, ⟨2, 18, false⟩, ⟨2, 19, false⟩]) := by decide +kernel
-- the hypotheses of `fixed_builder_sem` / `buffToBmoc_sem` are satisfiable by these values
example : ∀ p ∈ [(16, false), (17, true), (19, false), (18, true), (3, false)], p.1 < 12 * 4 ^ 2 := by decide
example : [3, 16, 17, 18, 19].Pairwise (· < ·) ∧ ∀ x ∈ [3, 16, 17, 18, 19], x < 12 * 4 ^ 2 := by decide

#print axioms sort_dedup_spec
#print axioms seqLen_spec
#print axioms buffToBmoc_sem
#print axioms fixed_builder_sem

end Hpx.Bmoc.Builder
