/-
Every top-level model function is independent of the flag `cfg.bmi` (LUT tables vs BMI2 `pdep/pext`): lemmas of the
shape `f cfg … = f (noBmi cfg) …`, resting on `LayerBmi.lean`.  Used by the Props files to state their theorems for every
build (`…_any_build`): the theorem at `noBmi cfg` rewrites back to `cfg`.
-/
import HpxVerif.Model.Hash
import HpxVerif.Lemmas.LayerBmi
import HpxVerif.Lemmas.EdgeInternal3

set_option autoImplicit false

namespace Hpx.BmiTransfer
open Hpx Hpx.Hash Hpx.LayerBmi

theorem noBmi_debug (cfg : Cfg) : (noBmi cfg).debug = cfg.debug := rfl

/-! ## the functions of `Model/Hash.lean` -/

section HashFns
variable {α : Type} [Num α]

theorem hashV2_noBmi (cfg : Cfg) (d : Nat) (lon lat : α) : hashV2 cfg d lon lat = hashV2 (noBmi cfg) d lon lat := by
  unfold hashV2
  simp only [buildHashFromParts_eq cfg]

theorem hashWithDxDy_noBmi (cfg : Cfg) (d : Nat) (lon lat : α) :
    hashWithDxDy cfg d lon lat = hashWithDxDy (noBmi cfg) d lon lat := by
  unfold hashWithDxDy
  simp only [zoc_eq cfg, ij2h_eq cfg]
  rfl


theorem centerOfProjectedCell_noBmi (cfg : Cfg) (d h : Nat) :
    centerOfProjectedCell (α := α) cfg d h = centerOfProjectedCell (noBmi cfg) d h := by
  unfold centerOfProjectedCell
  simp only [decodeHash_eq cfg]

theorem center_noBmi (cfg : Cfg) (d h : Nat) : center (α := α) cfg d h = center (noBmi cfg) d h := by
  unfold center; rw [centerOfProjectedCell_noBmi]

theorem sphCoo_noBmi (cfg : Cfg) (d h : Nat) (dx dy : α) : sphCoo cfg d h dx dy = sphCoo (noBmi cfg) d h dx dy := by
  unfold sphCoo; rw [centerOfProjectedCell_noBmi]

theorem vertex_noBmi (cfg : Cfg) (d h k : Nat) : vertex (α := α) cfg d h k = vertex (noBmi cfg) d h k := by
  unfold vertex; rw [centerOfProjectedCell_noBmi]

theorem vertices_noBmi (cfg : Cfg) (d h : Nat) : vertices (α := α) cfg d h = vertices (noBmi cfg) d h := by
  unfold vertices; rw [centerOfProjectedCell_noBmi]

theorem pathAlongCellSide_noBmi (cfg : Cfg) (d h f g : Nat) (inc : Bool) (n : Nat) :
    pathAlongCellSide (α := α) cfg d h f g inc n = pathAlongCellSide (noBmi cfg) d h f g inc n := by
  unfold pathAlongCellSide; rw [centerOfProjectedCell_noBmi]

theorem pathAlongCellEdge_noBmi (cfg : Cfg) (d h s : Nat) (cw : Bool) (n : Nat) :
    pathAlongCellEdge (α := α) cfg d h s cw n = pathAlongCellEdge (noBmi cfg) d h s cw n := by
  unfold pathAlongCellEdge; rw [centerOfProjectedCell_noBmi]

theorem grid_noBmi (cfg : Cfg) (d h n : Nat) : grid (α := α) cfg d h n = grid (noBmi cfg) d h n := by
  unfold grid; rw [centerOfProjectedCell_noBmi]

end HashFns

section TopoFns
open Hpx.Topo Hpx.EdgeInternal
/-! ## the functions of `Model/Topo.lean` (internal edges) -/

theorem i02hDD_noBmi (cfg : Cfg) (dd k : Nat) : i02hDD cfg dd k = i02hDD (noBmi cfg) dd k := by
  unfold i02hDD
  rw [zoc_eq]
  by_cases h : cfg.bmi = true
  · simp [h, noBmi, bmi_eq_lut_i02h]
  · simp [h, noBmi]

theorem oj2hDD_noBmi (cfg : Cfg) (dd k : Nat) : oj2hDD cfg dd k = oj2hDD (noBmi cfg) dd k := by
  unfold oj2hDD
  rw [zoc_eq]
  by_cases h : cfg.bmi = true
  · simp [h, noBmi, bmi_eq_lut_oj2h]
  · simp [h, noBmi]

theorem xMaskFn_noBmi (cfg : Cfg) (dd : Nat) : xMaskFn cfg dd = xMaskFn (noBmi cfg) dd := rfl
theorem yMaskFn_noBmi (cfg : Cfg) (dd : Nat) : yMaskFn cfg dd = yMaskFn (noBmi cfg) dd := rfl
theorem xyMaskFn_noBmi (cfg : Cfg) (dd : Nat) : xyMaskFn cfg dd = xyMaskFn (noBmi cfg) dd := rfl

theorem internalEdge_noBmi (cfg : Cfg) (hash dd : Nat) : internalEdge cfg hash dd = internalEdge (noBmi cfg) hash dd := by
  unfold internalEdge
  simp only [zoc_eq cfg, i02hDD_noBmi cfg, oj2hDD_noBmi cfg, xMaskFn_noBmi cfg]

theorem internalCorner_noBmi (cfg : Cfg) (hash dd : Nat) (dir : MW) :
    internalCorner cfg hash dd dir = internalCorner (noBmi cfg) hash dd dir := rfl

theorem internalEdgePart_noBmi (cfg : Cfg) (hash dd : Nat) (dir : MW) :
    internalEdgePart cfg hash dd dir = internalEdgePart (noBmi cfg) hash dd dir := by
  unfold internalEdgePart
  simp only [zoc_eq cfg, i02hDD_noBmi cfg, oj2hDD_noBmi cfg]

theorem internalEdgeSorted_loop_noBmi (cfg : Cfg) (c : ZocClass) (xm ym h am1 nhalf size : Nat)
    (set : Array Nat → Nat → Nat → Option (Array Nat)) (fuel : Nat) (st : IesSt) :
    internalEdgeSorted.loop cfg c xm ym h am1 nhalf size set fuel st =
      internalEdgeSorted.loop (noBmi cfg) c xm ym h am1 nhalf size set fuel st := by
  induction fuel generalizing st with
  | zero => rw [internalEdgeSorted.loop, internalEdgeSorted.loop]
  | succ n ih =>
    rw [internalEdgeSorted.loop, internalEdgeSorted.loop]
    simp only [ij2h_eq cfg, ih]

theorem internalEdgeSorted_noBmi (cfg : Cfg) (hash dd : Nat) :
    internalEdgeSorted cfg hash dd = internalEdgeSorted (noBmi cfg) hash dd := by
  unfold internalEdgeSorted
  simp only [zoc_eq cfg, xMaskFn_noBmi cfg, internalEdgeSorted_loop_noBmi cfg]

theorem internalEdgeTop_noBmi (cfg : Cfg) (depthMax d hash dd : Nat) :
    internalEdgeTop cfg depthMax d hash dd = internalEdgeTop (noBmi cfg) depthMax d hash dd := by
  unfold internalEdgeTop; rw [internalEdge_noBmi]

theorem internalEdgeSortedTop_noBmi (cfg : Cfg) (depthMax d hash dd : Nat) :
    internalEdgeSortedTop cfg depthMax d hash dd = internalEdgeSortedTop (noBmi cfg) depthMax d hash dd := by
  unfold internalEdgeSortedTop; rw [internalEdgeSorted_noBmi]

end TopoFns

end Hpx.BmiTransfer
