import HpxVerif.Lemmas.EnvelopePolar3

/-!
# C16 — polar caps: the meaning of `slope_npc`, and the polar side of the transition-ring corner cells (polar part 4)

* `squaredHalfSegment_real`, `spheDist_real`: the haversine helpers of `ConstantsC2V::new` over ℝ;
* `dMaxP`, **`new_slopeNpc_eq`**: `slope_npc = (dMaxP δ − dMinP δ)/(π/4·(1 − δ))` where `dMaxP δ` is the great-circle distance
  between the positions `(lon, tl)` and `(lon ± δ·π/4, capLat(1 + δ))`: the distance centre → north vertex of the
  transition-ring cell next to the seam (the east/west corner cell of the base cell);
* **`c2v_exact_at_transition_corner`**: for the cell `(i, j) = (nside − 1, 0)` of a north base cell (centre ON the transition
  latitude, at `1/nside` of the seam) the value of `largest_center_to_vertex_distance` at `center` is EXACTLY the
  angular distance from `center` to the north vertex (ratio 1.0000: the envelope is tight there);
* **`c2v_below_true_on_transition_corner_polar_side`**: consequently, at every position of that cell lying in the polar cap
  whose folded longitude is smaller than the one of the centre (`0 ≤ t'`, `t' < (1 − δ)·σ'`), the function returns
  STRICTLY LESS than the distance centre → north vertex (relative shortfall `O(1/nside)`).  This complements
  `EnvelopeReal.c2v_below_true_on_transition_ring` (positions of the equatorial side of the transition-ring cells).
-/

namespace Hpx.EnvelopePolar
open Hpx Hpx.Hash Hpx.Proj Hpx.Cover Hpx.C2V Hpx.C2VReal Hpx.EnvelopeReal Hpx.CellReal Real

/-! ## the haversine helpers over ℝ -/

theorem squaredHalfSegment_real (Δ φ₁ φ₂ : ℝ) :
    squaredHalfSegment (α := ℝ) Δ (φ₂ - φ₁) (Num.cos φ₂) (Num.cos φ₁) = sin (gcDist φ₁ φ₂ Δ / 2) ^ 2 := by
  unfold squaredHalfSegment pow2
  rw [r_half, r_cos, r_cos, r_sin, r_sin, sin_sq_half, cos_gcDist]
  have e1 : sin (1 / 2 * (φ₂ - φ₁)) * sin (1 / 2 * (φ₂ - φ₁)) = (1 - cos (φ₂ - φ₁)) / 2 := by
    rw [← sin_sq_half]; ring_nf
  have e2 : sin (1 / 2 * Δ) * sin (1 / 2 * Δ) = (1 - cos Δ) / 2 := by
    rw [← sin_sq_half]; ring_nf
  rw [e1, e2, cos_sub]
  ring

theorem spheDist_real (g : ℝ) (h0 : 0 ≤ g) (h1 : g ≤ π) : spheDist (α := ℝ) (sin (g / 2) ^ 2) = g := by
  have hpi := Real.pi_pos
  unfold spheDist
  rw [r_two, r_asin]
  show 2 * Real.arcsin (Real.sqrt (sin (g / 2) ^ 2)) = g
  rw [Real.sqrt_sq (Real.sin_nonneg_of_nonneg_of_le_pi (by linarith) (by linarith)),
    Real.arcsin_sin (by linarith) (by linarith)]
  ring

/-- `d_max` of `ConstantsC2V::new` as a function of `δ = 1/nside` -/
noncomputable def dMaxP (δ : ℝ) : ℝ := gcDist tl (capLat (1 + δ)) (π / 4 * δ)

/-- **`slope_npc`**: the line through `(0, dMinP)` and `((1 − δ)·π/4, dMaxP)` -/
theorem new_slopeNpc_eq (d : Nat) :
    (Csts.new d : Csts ℝ).slopeNpc = (dMaxP (1 / 2 ^ d) - dMinP (1 / 2 ^ d)) / (π / 4 * (1 - 1 / 2 ^ d)) := by
  obtain ⟨h0, h1⟩ := distCw_range d
  have hL : Num.asin ((Num.one : ℝ) - pow2 (Num.one - Num.one / Num.ofNat (1 <<< d)) / Num.ofNat 3)
      = capLat (1 + 1 / 2 ^ d) := by
    rw [r_nside, r_one, r_asin, r_ofNat]
    unfold pow2
    rw [capLat_eq_arcsin_sin _ (by linarith) (by linarith)]
    congr 1
    push_cast; ring
  show (spheDist (squaredHalfSegment ((Num.piOverFour : ℝ) * (Num.one / Num.ofNat (1 <<< d)))
      (Num.asin ((Num.one : ℝ) - pow2 (Num.one - Num.one / Num.ofNat (1 <<< d)) / Num.ofNat 3) - Num.transitionLat)
      (Num.cos (Num.asin ((Num.one : ℝ) - pow2 (Num.one - Num.one / Num.ofNat (1 <<< d)) / Num.ofNat 3)))
      (Num.cos (Num.transitionLat : ℝ))) -
      (Num.asin ((Num.one : ℝ) - pow2 (Num.one - Num.one / Num.ofNat (1 <<< d)) / Num.ofNat 3) - Num.transitionLat)) /
      ((Num.piOverFour : ℝ) * (Num.one - Num.one / Num.ofNat (1 <<< d))) = _
  rw [hL, r_nside, r_one, r_pi4, squaredHalfSegment_real, spheDist_real _ (gcDist_nonneg _ _ _) (gcDist_le_pi _ _ _)]
  rfl

theorem dMinP_lt_dMaxP (d : ℕ) (hd : 1 ≤ d) : dMinP (1 / 2 ^ d) < dMaxP (1 / 2 ^ d) := by
  have hpi := Real.pi_pos
  obtain ⟨h0, h1⟩ := half_pow_range d hd
  have hs := new_slopeNpc_pos d hd
  rw [new_slopeNpc_eq, div_pos_iff_of_pos_right (by nlinarith)] at hs
  linarith

/-! ## the corner cell of the transition ring -/

/-- plane centre of the cell `(i, j) = (nside − 1, 0)` of the north base cell `b`: `(2b + 2 − 1/nside, 1)` -/
theorem transition_corner_center (d b i : ℕ) (hb : b < 4) (hi : i + 1 = 2 ^ d) :
    norm8 (cellCx d b i 0) = 2 * (b : ℝ) + 2 - 1 / 2 ^ d ∧ cellCy d b i 0 = 1 := by
  obtain ⟨bx, by1⟩ := baseX_north b hb
  have hp := pow_pos' d
  have hi' : (i : ℝ) + 1 = 2 ^ d := by exact_mod_cast hi
  have hδ1 : (1 : ℝ) / 2 ^ d ≤ 1 := (distCw_range d).2
  have hb0 : (0 : ℝ) ≤ b := Nat.cast_nonneg b
  have hx : cellCx d b i 0 = 2 * (b : ℝ) + 2 - 1 / 2 ^ d := by
    unfold cellCx
    rw [bx, show (i : ℝ) = 2 ^ d - 1 by linarith]
    field_simp; ring
  constructor
  · rw [hx, norm8_of_nonneg _ (by linarith)]
  · unfold cellCy
    rw [by1, show (i : ℝ) + (0 : ℕ) + 1 - 2 ^ d = 0 by push_cast; linarith]
    simp

/-- common part: centre, north vertex, their distance, and the value of the function at a polar position of the cell -/
theorem transition_corner_facts (cfg : Cfg) (d hash b i : ℕ) (hd1 : 1 ≤ d)
    (hh : hash < Layer.nHash d) (hdec : Layer.decodeHash cfg d hash = some ⟨b, i, 0⟩) (hb : b < 4)
    (hi : i + 1 = 2 ^ d) :
    ∃ n : ℝ × ℝ, center (α := ℝ) cfg d hash = some (capLon b (1 - 1 / 2 ^ d) 1, tl) ∧
      vertex (α := ℝ) cfg d hash 2 = some n ∧
      adist (capLon b (1 - 1 / 2 ^ d) 1, tl) n = dMaxP (1 / 2 ^ d) := by
  have hpi := Real.pi_pos
  have hi2 : i < 2 ^ d := by omega
  have hj2 : 0 < 2 ^ d := by positivity
  have hb12 : b < 12 := by omega
  obtain ⟨hδ0, hδ1⟩ := half_pow_range d hd1
  obtain ⟨hX, hY⟩ := transition_corner_center d b i hb hi
  have heps := epsPole_lt_small
  have hb0 : (0 : ℝ) ≤ b := Nat.cast_nonneg b
  set δ : ℝ := 1 / 2 ^ d with hδ
  have uc := unproj_cap b hb (2 * (b : ℝ) + 2 - δ) 1 le_rfl (by norm_num)
    (by rw [abs_le]; constructor <;> linarith) (by linarith) (Or.inl (by linarith))
  have uN := unproj_cap b hb (2 * (b : ℝ) + 2 - δ) (1 + δ) (by linarith) (by linarith)
    (by rw [abs_le]; constructor <;> linarith) (by linarith) (Or.inl (by linarith))
  rw [capLat_one] at uc
  have e1 : ((2 * (b : ℝ) + 2 - δ - (2 * b + 1)) / (2 - 1) + (2 * b + 1)) * (π / 4) = capLon b (1 - δ) 1 := by
    unfold capLon; ring
  rw [e1] at uc
  refine ⟨(((2 * (b : ℝ) + 2 - δ - (2 * b + 1)) / (2 - (1 + δ)) + (2 * b + 1)) * (π / 4), capLat (1 + δ)), ?_, ?_, ?_⟩
  · rw [center_plane cfg d hash b i 0 hh hdec hb12 hi2 hj2, hX, hY, ← uc]
    exact (unproj_eq _ _ (by norm_num) (by norm_num)).symm
  · rw [vertex_plane cfg d hash b i 0 2 hh hdec hb12 hi2 hj2 (by decide)]
    simp only [vtx]
    rw [hX, hY, ← uN]
    exact (unproj_eq _ _ (by linarith) (by linarith)).symm
  · rw [adist_eq_gcDist]
    unfold dMaxP
    have hne : (1 : ℝ) - δ ≠ 0 := by linarith
    have : capLon b (1 - δ) 1 - ((2 * (b : ℝ) + 2 - δ - (2 * b + 1)) / (2 - (1 + δ)) + (2 * b + 1)) * (π / 4)
        = -(π / 4 * δ) := by
      unfold capLon
      rw [show 2 * (b : ℝ) + 2 - δ - (2 * b + 1) = 1 - δ by ring, show (2 : ℝ) - (1 + δ) = 1 - δ by ring, div_self hne]
      ring
    rw [this, gcDist_neg]

/-- **the envelope is exact at the transition-ring corner cell**: `largest_center_to_vertex_distance` at the centre of the
    cell `(nside − 1, 0)` of a north base cell equals the angular distance from that centre to the north vertex -/
theorem c2v_exact_at_transition_corner (cfg : Cfg) (d hash b i : ℕ) (hd1 : 1 ≤ d) (hd2 : d ≤ 29)
    (hh : hash < Layer.nHash d) (hdec : Layer.decodeHash cfg d hash = some ⟨b, i, 0⟩) (hb : b < 4)
    (hi : i + 1 = 2 ^ d) :
    ∃ c n : ℝ × ℝ, center (α := ℝ) cfg d hash = some c ∧ vertex (α := ℝ) cfg d hash 2 = some n ∧ c.2 = tl ∧
      largestC2V false d c.1 c.2 = some (adist c n) := by
  have hpi := Real.pi_pos
  obtain ⟨hδ0, hδ1⟩ := half_pow_range d hd1
  obtain ⟨n, ec, en, hdist⟩ := transition_corner_facts cfg d hash b i hd1 hh hdec hb hi
  have htl := tl_pos
  refine ⟨_, n, ec, en, rfl, ?_⟩
  rw [c2v_region_choice, if_neg (by omega), if_neg (by omega), hdist]
  congr 1
  show c2v (Csts.new d) (capLon b (1 - 1 / 2 ^ d) 1) tl = _
  rw [c2v_cap_eq d b (1 - 1 / 2 ^ d) 1 tl (by norm_num) (by rw [abs_le]; constructor <;> linarith)
    (by rw [abs_of_pos htl]), new_slopeNpc_eq, div_one, abs_of_nonneg (by linarith)]
  have hne : π / 4 * (1 - 1 / 2 ^ d) ≠ 0 := by
    have : 0 < π / 4 * (1 - 1 / 2 ^ d) := mul_pos (by positivity) (by linarith)
    exact this.ne'
  rw [mul_comm (1 - 1 / 2 ^ d) (π / 4), div_mul_cancel₀ _ hne]
  ring

/-- **`c2v_below_true_on_transition_corner_polar_side`** (ℝ, release profile, every depth `1 … 29`, north base cells, the
    cell `(i, j) = (nside − 1, 0)`).  For every plane point `(xp, yp)` of the closed diamond of the cell that lies in the
    polar cap (`1 < yp`), east of the central meridian of the base cell (`2b + 1 ≤ xp`) and whose ratio
    `(xp − (2b+1))/(2 − yp)` is smaller than the ratio `1 − 1/nside` of the centre, the position `p = unproj (xp, yp)` is in
    the polar cap and `largest_center_to_vertex_distance(d, p)` is STRICTLY SMALLER than the angular distance from
    `center` to the north vertex. -/
theorem c2v_below_true_on_transition_corner_polar_side (cfg : Cfg) (d hash b i : ℕ) (hd1 : 1 ≤ d) (hd2 : d ≤ 29)
    (hh : hash < Layer.nHash d) (hdec : Layer.decodeHash cfg d hash = some ⟨b, i, 0⟩) (hb : b < 4)
    (hi : i + 1 = 2 ^ d) :
    ∃ c n : ℝ × ℝ, center (α := ℝ) cfg d hash = some c ∧ vertex (α := ℝ) cfg d hash 2 = some n ∧
      ∀ xp yp : ℝ, 1 < yp → InDiamond (norm8 (cellCx d b i 0)) (cellCy d b i 0) (1 / 2 ^ d) xp yp →
        2 * (b : ℝ) + 1 ≤ xp → xp - (2 * (b : ℝ) + 1) < (1 - 1 / 2 ^ d) * (2 - yp) →
        ∃ (p : ℝ × ℝ) (v : ℝ), unproj (α := ℝ) xp yp = some p ∧ tl ≤ |p.2| ∧
          largestC2V false d p.1 p.2 = some v ∧ v < adist c n := by
  have hpi := Real.pi_pos
  obtain ⟨hδ0, hδ1⟩ := half_pow_range d hd1
  obtain ⟨n, ec, en, hdist⟩ := transition_corner_facts cfg d hash b i hd1 hh hdec hb hi
  obtain ⟨hX, hY⟩ := transition_corner_center d b i hb hi
  have heps := epsPole_lt_small
  have htl := tl_pos
  have hgap := dMinP_lt_dMaxP d hd1
  refine ⟨_, n, ec, en, ?_⟩
  intro xp yp hy1 hin hx0 hratio
  unfold InDiamond at hin
  rw [hX, hY, abs_of_pos (by linarith : 0 < yp - 1)] at hin
  obtain ⟨a1, a2⟩ := abs_le.mp (show |xp - (2 * (b : ℝ) + 2 - 1 / 2 ^ d)| ≤ 1 / 2 ^ d - (yp - 1) by linarith)
  have hσ : 0 < 2 - yp := by linarith
  have up := unproj_cap b hb xp yp hy1.le (by linarith) (by rw [abs_le]; constructor <;> linarith) (by linarith)
    (Or.inl (by linarith))
  obtain ⟨hr1, hr2⟩ := capLat_range yp hy1.le (by linarith)
  have hlat : tl ≤ |capLat yp| := by rw [abs_of_pos (by linarith)]; exact hr1
  refine ⟨(capLon b (xp - (2 * (b : ℝ) + 1)) (2 - yp), capLat yp),
    c2v (Csts.new d) (capLon b (xp - (2 * (b : ℝ) + 1)) (2 - yp)) (capLat yp), up, hlat, ?_, ?_⟩
  · rw [c2v_region_choice, if_neg (by omega), if_neg (by omega)]
  · rw [hdist, c2v_cap_eq d b _ (2 - yp) _ hσ.le (by rw [abs_le]; constructor <;> linarith) hlat, new_slopeNpc_eq,
      abs_of_nonneg (div_nonneg (by linarith) hσ.le)]
    have hρ : (xp - (2 * (b : ℝ) + 1)) / (2 - yp) < 1 - 1 / 2 ^ d := by rw [div_lt_iff₀ hσ]; exact hratio
    have h1δ : 0 < 1 - 1 / (2 : ℝ) ^ d := by linarith
    have e : (dMaxP (1 / 2 ^ d) - dMinP (1 / 2 ^ d)) / (π / 4 * (1 - 1 / 2 ^ d)) *
        ((xp - (2 * (b : ℝ) + 1)) / (2 - yp) * (π / 4)) =
        (dMaxP (1 / 2 ^ d) - dMinP (1 / 2 ^ d)) * (((xp - (2 * (b : ℝ) + 1)) / (2 - yp)) / (1 - 1 / 2 ^ d)) := by
      field_simp
    rw [e]
    have hq : ((xp - (2 * (b : ℝ) + 1)) / (2 - yp)) / (1 - 1 / 2 ^ d) < 1 := by rw [div_lt_one h1δ]; exact hρ
    have : (dMaxP (1 / 2 ^ d) - dMinP (1 / 2 ^ d)) * (((xp - (2 * (b : ℝ) + 1)) / (2 - yp)) / (1 - 1 / 2 ^ d))
        < (dMaxP (1 / 2 ^ d) - dMinP (1 / 2 ^ d)) * 1 := mul_lt_mul_of_pos_left hq (by linarith)
    linarith

/-! ## examples -/

/-- depth 2, cell 5 = base cell 0, `(i, j) = (3, 0)`; the point `(2 − 1/4 − 1/8, 1 + 1/16)` satisfies the hypotheses -/
example : ∃ c n : ℝ × ℝ, center (α := ℝ) {} 2 5 = some c ∧ vertex (α := ℝ) {} 2 5 2 = some n ∧ c.2 = tl ∧
      largestC2V false 2 c.1 c.2 = some (adist c n) :=
  c2v_exact_at_transition_corner {} 2 5 0 3 (by decide) (by decide) (by decide) (by decide +kernel) (by decide)
    (by decide)

example : (1 : ℝ) < 1 + 1 / 16 ∧ |(2 - 1 / 4 - 1 / 8 : ℝ) - (2 - 1 / 4)| + |(1 + 1 / 16 : ℝ) - 1| ≤ 1 / 4 ∧
    2 * ((0 : ℕ) : ℝ) + 1 ≤ 2 - 1 / 4 - 1 / 8 ∧
    (2 - 1 / 4 - 1 / 8 : ℝ) - (2 * ((0 : ℕ) : ℝ) + 1) < (1 - 1 / 4) * (2 - (1 + 1 / 16)) := by
  refine ⟨by norm_num, ?_, by norm_num, by norm_num⟩
  rw [abs_of_neg (by norm_num), abs_of_pos (by norm_num)]; norm_num

end Hpx.EnvelopePolar

#print axioms Hpx.EnvelopePolar.new_slopeNpc_eq
#print axioms Hpx.EnvelopePolar.c2v_exact_at_transition_corner
#print axioms Hpx.EnvelopePolar.c2v_below_true_on_transition_corner_polar_side
