/-
C14 — external edges, part 4: the result of `external_edge` / `external_edge_sorted` (`externalList`,
`external_edge_spec` in `EdgeExternal3.lean`) as a set, without duplicates, in order, and its length.

* `external_edge_set` (Target 3, both directions): the members are exactly the cell numbers of depth `d + dd` lying outside
  `hash` and sharing a vertex (as points of the sphere, `TopoSpec.Touch`) with a descendant of `hash`;
* `external_edge_nodup` (Target 4), `external_edge_sorted_spec` (Target 5: strictly increasing, a permutation of the
  unsorted result), `external_edge_length` (`4·2^dd +` number of cardinal neighbours: `4·2^dd + 4`, `+ 3` for the 24
  cells with 7 neighbours, `+ 2` at depth 0).
-/
import HpxVerif.Lemmas.EdgeExternal3

namespace Hpx.EdgeExternal
open Hpx Hpx.Topo Hpx.TopoSpec Hpx.TopoNeigh Hpx.TopoLift Hpx.EdgeInternal MW

/-! ## membership -/

theorem mem_sideList (hv dd : Nat) (f : MW) (h' : Nat) :
    h' ∈ sideList hv dd f ↔ ∃ x y, (x, y) ∈ sideCoords dd f ∧ h' = cellVal hv dd (x, y) := by
  unfold sideList
  rw [List.mem_map]
  constructor
  · rintro ⟨⟨x, y⟩, hm, rfl⟩; exact ⟨x, y, hm, rfl⟩
  · rintro ⟨x, y, hm, rfl⟩; exact ⟨(x, y), hm, rfl⟩

theorem mem_externalList (d hash dd : Nat) (s : Bool) (h' : Nat) :
    h' ∈ externalList d hash dd s ↔
      ∃ dir hv, (dir, hv) ∈ nbList d hash false ∧ h' ∈ sideList hv dd (fromD d hash dir) := by
  unfold externalList
  rw [List.mem_flatMap]
  constructor
  · rintro ⟨⟨dir, hv⟩, hm, hx⟩; exact ⟨dir, hv, (mem_orderOf s _ _).1 hm, hx⟩
  · rintro ⟨dir, hv, hm, hx⟩; exact ⟨(dir, hv), (mem_orderOf s _ _).2 hm, hx⟩

theorem cellVal_div (hv dd x y : Nat) (hd : dd ≤ 32) (hx : x < 2 ^ dd) (hy : y < 2 ^ dd) :
    cellVal hv dd (x, y) / 4 ^ dd = hv ∧ hv * 4 ^ dd ≤ cellVal hv dd (x, y) ∧
      cellVal hv dd (x, y) < (hv + 1) * 4 ^ dd := by
  have hz := interleave_lt hd hx hy
  have hpos : 0 < 4 ^ dd := Nat.pow_pos (by decide)
  unfold cellVal
  simp only
  refine ⟨?_, by omega, by rw [Nat.add_mul]; omega⟩
  rw [Nat.add_comm, Nat.add_mul_div_right _ _ hpos, Nat.div_eq_of_lt hz, Nat.zero_add]

/-- the members of a piece lie in the range of the descendants of the neighbour -/
theorem sideList_range (hv dd : Nat) (f : MW) (hf : f ≠ C) (hd : dd ≤ 32) (h' : Nat) (hm : h' ∈ sideList hv dd f) :
    h' / 4 ^ dd = hv ∧ hv * 4 ^ dd ≤ h' ∧ h' < (hv + 1) * 4 ^ dd := by
  obtain ⟨x, y, hxy, rfl⟩ := (mem_sideList hv dd f h').1 hm
  obtain ⟨hx, hy, _⟩ := (mem_sideCoords dd f hf x y).1 hxy
  exact cellVal_div hv dd x y hd hx hy

theorem pow_split (d dd : Nat) : 2 ^ (d + dd) = 2 ^ d * 2 ^ dd := Nat.pow_add 2 d dd

theorem pow_u32 (d dd : Nat) (hsum : d + dd ≤ 29) : 2 ^ d * 2 ^ dd ≤ 4294967296 := by
  rw [← pow_split]; exact pow_le_u32 (d + dd) hsum

/-- a number whose ancestor is a cell number of depth `d` is a cell number of depth `d + dd` -/
theorem lt_of_div_lt (d dd h : Nat) (hh : h / 4 ^ dd < 12 * 4 ^ d) : h < 12 * 4 ^ (d + dd) := by
  have hpos : 0 < 4 ^ dd := Nat.pow_pos (by decide)
  rw [Nat.div_lt_iff_lt_mul hpos, Nat.mul_assoc, ← Nat.pow_add] at hh
  exact hh

/-- **C14, `external_edge_set`** (Target 3, soundness and completeness): the members of the external edge are exactly
    the cell numbers `h'` of depth `d + dd` that lie outside `hash` (their ancestor at depth `d` is not `hash`) and share
    a vertex, as points of the sphere, with some descendant `h''` of `hash` at depth `d + dd`.  Both orders, any build,
    every `d`, `dd ≥ 1`, `d + dd ≤ 29`. -/
theorem external_edge_set (cfg : Cfg) (d dd : Nat) (h1 : 1 ≤ dd) (hsum : d + dd ≤ 29) (hash : Nat)
    (hh : hash < 12 * 4 ^ d) (s : Bool) :
    ∃ l, externalEdge cfg d hash dd s = some l ∧ ∀ h', h' ∈ l ↔
      (h' < 12 * 4 ^ (d + dd) ∧ h' / 4 ^ dd ≠ hash ∧
        ∃ h'', h'' / 4 ^ dd = hash ∧ Touch (2 ^ (d + dd)) (partsOf (d + dd) h') (partsOf (d + dd) h'')) := by
  refine ⟨_, external_edge_spec cfg d dd h1 hsum hash hh s, ?_⟩
  intro h'
  have hd : d ≤ 29 := by omega
  have hp := partsOf_valid d hash hh
  have hn1 := one_le_pow d
  have hM : 1 ≤ 2 ^ d * 2 ^ dd := Nat.mul_pos hn1 (Nat.two_pow_pos dd)
  have hM2 := pow_u32 d dd hsum
  have hpos2 : 0 < 2 ^ dd := Nat.two_pow_pos dd
  rw [mem_externalList]
  constructor
  · rintro ⟨dir, hv, hm, hx⟩
    obtain ⟨_, hfC, hvlt, hvne, _, hback, _⟩ := fromD_spec d hd hash hh dir hv hm
    obtain ⟨x, y, hxy, rfl⟩ := (mem_sideList hv dd _ h').1 hx
    obtain ⟨hx, hy, hs⟩ := (mem_sideCoords dd _ hfC x y).1 hxy
    obtain ⟨hlt, hQ⟩ := partsOf_child d dd hv x y hsum hvlt hx hy
    have hQv := partsOf_valid (d + dd) _ hlt
    rw [pow_split] at hQv
    have hanc : anc dd (partsOf (d + dd) (cellVal hv dd (x, y))) = partsOf d hv := by
      rw [hQ]
      simp only [anc]
      rw [Nat.add_comm, Nat.add_mul_div_right _ _ hpos2, Nat.div_eq_of_lt hx, Nat.zero_add,
        Nat.add_comm, Nat.add_mul_div_right _ _ hpos2, Nat.div_eq_of_lt hy, Nat.zero_add]
    have hside : OnSide (2 ^ dd) (fromD d hash dir) ((partsOf (d + dd) (cellVal hv dd (x, y))).i % 2 ^ dd)
        ((partsOf (d + dd) (cellVal hv dd (x, y))).j % 2 ^ dd) := by
      rw [hQ]
      simp only
      rw [Nat.add_comm, Nat.add_mul_mod_self_right, Nat.mod_eq_of_lt hx,
        Nat.add_comm ((partsOf d hv).j * 2 ^ dd), Nat.add_mul_mod_self_right, Nat.mod_eq_of_lt hy]
      exact hs
    obtain ⟨P, hP, hPa⟩ := facing_sound (2 ^ d) dd _ _ _ _ hn1 hM2 hQv hanc hback hside
    have hPv := neighbourParts_valid _ _ P _ hM hM2 hQv hP
    have hPv' : Valid (2 ^ (d + dd)) P := by rw [pow_split]; exact hPv
    have hPlt := numberOf_lt (d + dd) hsum P hPv'
    refine ⟨hlt, ?_, numberOf (d + dd) P, ?_, ?_⟩
    · rw [(cellVal_div hv dd x y (by omega) hx hy).1]; exact hvne
    · obtain ⟨hlt2, ha2, _⟩ := child_decomp d dd _ hsum hPlt
      rw [partsOf_numberOf (d + dd) hsum P hPv', hPa] at ha2
      exact (partsOf_injective d hd _ _ ha2).symm
    · rw [partsOf_numberOf (d + dd) hsum P hPv', pow_split]
      exact neighbour_touch _ _ P _ hM hM2 hQv hP
  · rintro ⟨hlt, hne, h'', hh'', ht⟩
    have hlt'' : h'' < 12 * 4 ^ (d + dd) := lt_of_div_lt d dd h'' (by rw [hh'']; exact hh)
    obtain ⟨hq1, hqa, hqc⟩ := child_decomp d dd h' hsum hlt
    obtain ⟨_, hpa, _⟩ := child_decomp d dd h'' hsum hlt''
    rw [hh''] at hpa
    have hQv := partsOf_valid (d + dd) h' hlt
    have hPv := partsOf_valid (d + dd) h'' hlt''
    rw [pow_split] at hQv hPv ht
    have hqne : anc dd (partsOf (d + dd) h') ≠ partsOf d hash := by
      rw [hqa]; intro e; exact hne (partsOf_injective d hd _ _ e)
    have hne' : partsOf (d + dd) h' ≠ partsOf (d + dd) h'' := by
      intro e; rw [e, hpa] at hqne; exact hqne rfl
    obtain ⟨g, _, hg⟩ := neighbours_complete _ _ _ hM hM2 hPv hQv hne' (touch_symm ht)
    obtain ⟨⟨G, hGC, hG⟩, hon⟩ := facing_complete (2 ^ d) dd _ _ _ g hn1 hM2 hPv hpa hg hqne
    rw [hqa] at hG hon
    have hmem : (G, h' / 4 ^ dd) ∈ nbList d hash false :=
      (mem_nbList d hash false G _).2 ⟨Or.inl hGC, _, hG, (numberOf_partsOf d _ hd).symm⟩
    obtain ⟨_, hfC, _, _, _, hback, _⟩ := fromD_spec d hd hash hh G _ hmem
    refine ⟨G, h' / 4 ^ dd, hmem, ?_⟩
    rw [mem_sideList]
    refine ⟨_, _, ?_, hqc⟩
    rw [mem_sideCoords dd _ hfC]
    exact ⟨Nat.mod_lt _ hpos2, Nat.mod_lt _ hpos2, hon _ hback⟩

/-! ## order and duplicates -/

/-- each piece is strictly increasing -/
theorem sideList_sorted (hv dd : Nat) (f : MW) (hd : dd ≤ 32) : (sideList hv dd f).Pairwise (· < ·) := by
  have mono : ∀ a b, a < b → b < 2 ^ dd → sp a < sp b := fun a b h hb => sp_mono h (pow_le_32 hd hb)
  have hr : ∀ g : Nat → Nat × Nat, (∀ a b, a < b → b < 2 ^ dd → cellVal hv dd (g a) < cellVal hv dd (g b)) →
      (((List.range (2 ^ dd)).map g).map (cellVal hv dd)).Pairwise (· < ·) := by
    intro g hg
    rw [List.map_map, List.pairwise_map]
    exact List.Pairwise.imp_of_mem (fun {a b} _ hb h => hg a b h (List.mem_range.1 hb)) List.pairwise_lt_range
  unfold sideList
  cases f
  case S | E | W | N | C => simp [sideCoords]
  case SE => exact hr _ fun a b h hb => by rw [cellVal_eq, cellVal_eq]; have := mono a b h hb; omega
  case SW => exact hr _ fun a b h hb => by rw [cellVal_eq, cellVal_eq]; have := mono a b h hb; omega
  case NE => exact hr _ fun a b h hb => by rw [cellVal_eq, cellVal_eq]; have := mono a b h hb; omega
  case NW => exact hr _ fun a b h hb => by rw [cellVal_eq, cellVal_eq]; have := mono a b h hb; omega

theorem insertEntry_strict (e : MW × Nat) (l : List (MW × Nat)) (h : l.Pairwise (fun a b => a.2 < b.2))
    (he : ∀ x ∈ l, x.2 ≠ e.2) : (insertEntry e l).Pairwise (fun a b => a.2 < b.2) := by
  induction l with
  | nil => simp [insertEntry]
  | cons a l ih =>
    rw [List.pairwise_cons] at h
    have hea : a.2 ≠ e.2 := he a (by simp)
    have hel : ∀ x ∈ l, x.2 ≠ e.2 := fun x hx => he x (by simp [hx])
    unfold insertEntry
    split
    · rename_i hle
      rw [List.pairwise_cons]
      refine ⟨?_, List.pairwise_cons.2 h⟩
      intro z hz
      rcases List.mem_cons.1 hz with rfl | hz
      · omega
      · have := h.1 z hz; omega
    · rename_i hle
      rw [List.pairwise_cons]
      refine ⟨?_, ih h.2 hel⟩
      intro z hz
      rcases (mem_insertEntry e z l).1 hz with rfl | hz
      · omega
      · exact h.1 z hz

/-- sorting entries with distinct values gives strictly increasing values -/
theorem sortEntries_strict (l : List (MW × Nat)) (h : (l.map (·.2)).Nodup) :
    (sortEntries l).Pairwise (fun a b => a.2 < b.2) := by
  induction l with
  | nil => simp [sortEntries]
  | cons a l ih =>
    rw [List.map_cons, List.nodup_cons] at h
    have : sortEntries (a :: l) = insertEntry a (sortEntries l) := rfl
    rw [this]
    refine insertEntry_strict a _ (ih h.2) ?_
    intro x hx e
    exact h.1 (List.mem_map.2 ⟨x, (mem_sortEntries x l).1 hx, e⟩)

theorem insertEntry_perm (e : MW × Nat) (l : List (MW × Nat)) : (insertEntry e l).Perm (e :: l) := by
  induction l with
  | nil => simp [insertEntry]
  | cons a l ih =>
    unfold insertEntry
    split
    · exact List.Perm.refl _
    · exact (List.Perm.cons a ih).trans (List.Perm.swap e a l)

theorem sortEntries_perm (l : List (MW × Nat)) : (sortEntries l).Perm l := by
  induction l with
  | nil => simp [sortEntries]
  | cons a l ih =>
    have : sortEntries (a :: l) = insertEntry a (sortEntries l) := rfl
    rw [this]
    exact (insertEntry_perm a _).trans (List.Perm.cons a ih)

/-- the neighbours have pairwise different numbers, in any of the two orders -/
theorem order_values_ne (d : Nat) (hd : d ≤ 29) (hash : Nat) (hh : hash < 12 * 4 ^ d) (s : Bool) :
    (orderOf s (nbList d hash false)).Pairwise (fun a b => a.2 ≠ b.2) := by
  have h0 : (nbList d hash false).Pairwise (fun a b => a.2 ≠ b.2) :=
    List.pairwise_map.1 (nbList_values_nodup d hd hash hh false)
  unfold orderOf
  split
  · exact (sortEntries_strict _ (nbList_values_nodup d hd hash hh false)).imp (fun h => Nat.ne_of_lt h)
  · exact h0

/-- **C14, `external_edge_nodup`** (Target 4): no duplicates, both orders -/
theorem external_edge_nodup (cfg : Cfg) (d dd : Nat) (h1 : 1 ≤ dd) (hsum : d + dd ≤ 29) (hash : Nat)
    (hh : hash < 12 * 4 ^ d) (s : Bool) :
    ∃ l, externalEdge cfg d hash dd s = some l ∧ l.Nodup := by
  refine ⟨_, external_edge_spec cfg d dd h1 hsum hash hh s, ?_⟩
  have hd : d ≤ 29 := by omega
  unfold externalList List.Nodup
  rw [List.pairwise_flatMap]
  constructor
  · intro e _
    exact (sideList_sorted e.2 dd _ (by omega)).imp (fun h => Nat.ne_of_lt h)
  · refine List.Pairwise.imp_of_mem ?_ (order_values_ne d hd hash hh s)
    intro a b ha hb hab x hx y hy exy
    rw [mem_orderOf] at ha hb
    obtain ⟨_, fa, _⟩ := fromD_spec d hd hash hh a.1 a.2 ha
    obtain ⟨_, fb, _⟩ := fromD_spec d hd hash hh b.1 b.2 hb
    have r1 := (sideList_range a.2 dd _ fa (by omega) x hx).1
    have r2 := (sideList_range b.2 dd _ fb (by omega) y hy).1
    rw [exy, r2] at r1
    exact hab r1.symm

/-- **C14, `external_edge_sorted_spec`** (Target 5): `external_edge_sorted` returns a strictly increasing list, which
    is a permutation of the result of `external_edge` (same members, same length): the neighbours are visited by
    increasing number `hv`, the pieces of different neighbours lie in the disjoint increasing ranges
    `[hv·4^dd, (hv+1)·4^dd)`, and each piece is increasing -/
theorem external_edge_sorted_spec (cfg : Cfg) (d dd : Nat) (h1 : 1 ≤ dd) (hsum : d + dd ≤ 29) (hash : Nat)
    (hh : hash < 12 * 4 ^ d) :
    ∃ ls lu, externalEdge cfg d hash dd true = some ls ∧ externalEdge cfg d hash dd false = some lu ∧
      ls.Pairwise (· < ·) ∧ ls.Perm lu ∧ (∀ h', h' ∈ ls ↔ h' ∈ lu) ∧ ls.length = lu.length := by
  have hd : d ≤ 29 := by omega
  have hperm : (externalList d hash dd true).Perm (externalList d hash dd false) := by
    unfold externalList orderOf
    exact List.Perm.flatMap_right _ (sortEntries_perm _)
  refine ⟨_, _, external_edge_spec cfg d dd h1 hsum hash hh true, external_edge_spec cfg d dd h1 hsum hash hh false,
    ?_, hperm, fun h' => hperm.mem_iff, hperm.length_eq⟩
  unfold externalList
  rw [List.pairwise_flatMap]
  constructor
  · intro e _
    exact sideList_sorted e.2 dd _ (by omega)
  · have hs : (orderOf true (nbList d hash false)).Pairwise (fun a b => a.2 < b.2) :=
      sortEntries_strict _ (nbList_values_nodup d hd hash hh false)
    refine List.Pairwise.imp_of_mem ?_ hs
    intro a b ha hb hab x hx y hy
    rw [mem_orderOf] at ha hb
    obtain ⟨_, fa, _⟩ := fromD_spec d hd hash hh a.1 a.2 ha
    obtain ⟨_, fb, _⟩ := fromD_spec d hd hash hh b.1 b.2 hb
    have r1 := (sideList_range a.2 dd _ fa (by omega) x hx).2.2
    have r2 := (sideList_range b.2 dd _ fb (by omega) y hy).2.1
    have : (a.2 + 1) * 4 ^ dd ≤ b.2 * 4 ^ dd := Nat.mul_le_mul_right _ hab
    omega

/-- the order of the sorted variant: the neighbours are visited by strictly increasing number -/
theorem sorted_order (d : Nat) (hd : d ≤ 29) (hash : Nat) (hh : hash < 12 * 4 ^ d) :
    (orderOf true (nbList d hash false)).Pairwise (fun a b => a.2 < b.2) ∧
    (orderOf true (nbList d hash false)).Perm (nbList d hash false) :=
  ⟨sortEntries_strict _ (nbList_values_nodup d hd hash hh false), sortEntries_perm _⟩

/-! ## length -/

theorem sum_card (N : Nat) (L : List (MW × Nat)) :
    (L.map fun e => if e.1.isCardinal = true then 1 else N).sum =
      (L.filter fun e => e.1.isCardinal).length + N * (L.filter fun e => !e.1.isCardinal).length := by
  induction L with
  | nil => simp
  | cons a L ih =>
    rw [List.map_cons, List.sum_cons, ih, List.filter_cons, List.filter_cons]
    by_cases h : a.1.isCardinal = true
    · simp [h]; omega
    · simp [h, Nat.mul_add]; omega

/-- the four ordinal neighbours always exist: exactly four entries of `neighbours(hash)` are not cardinal -/
theorem ordinal_count (d : Nat) (_hd : d ≤ 29) (hash : Nat) (hh : hash < 12 * 4 ^ d) :
    ((nbList d hash false).filter fun e => !e.1.isCardinal).length = 4 := by
  have hp := partsOf_valid d hash hh
  obtain ⟨q1, e1⟩ := ordinal_parts_exist (2 ^ d) _ hp SE rfl
  obtain ⟨q2, e2⟩ := ordinal_parts_exist (2 ^ d) _ hp SW rfl
  obtain ⟨q3, e3⟩ := ordinal_parts_exist (2 ^ d) _ hp NE rfl
  obtain ⟨q4, e4⟩ := ordinal_parts_exist (2 ^ d) _ hp NW rfl
  rw [nbList_false_eq]
  simp only [dirs8, List.filterMap_cons, List.filterMap_nil, e1, e2, e3, e4, Option.map_some]
  cases neighbourParts (2 ^ d) (partsOf d hash) S <;> cases neighbourParts (2 ^ d) (partsOf d hash) E <;>
  cases neighbourParts (2 ^ d) (partsOf d hash) W <;> cases neighbourParts (2 ^ d) (partsOf d hash) N <;>
  simp [isCardinal]

/-- **C14, `external_edge_length`**: the external edge has `4·2^dd` cells along the four sides plus one corner cell per
    cardinal neighbour: `4·2^dd + 4` in general, `4·2^dd + 3` for the 24 cells with 7 neighbours (`Special`),
    `4·2^dd + 2` at depth 0 (both orders) -/
theorem external_edge_length (cfg : Cfg) (d dd : Nat) (h1 : 1 ≤ dd) (hsum : d + dd ≤ 29) (hash : Nat)
    (hh : hash < 12 * 4 ^ d) (s : Bool) :
    ∃ l, externalEdge cfg d hash dd s = some l ∧
      l.length = 4 * 2 ^ dd + ((nbList d hash false).filter fun e => e.1.isCardinal).length ∧
      l.length = 4 * 2 ^ dd + (if d = 0 then 2 else if Special (2 ^ d) (partsOf d hash) then 3 else 4) := by
  have hd : d ≤ 29 := by omega
  have hp := partsOf_valid d hash hh
  refine ⟨_, external_edge_spec cfg d dd h1 hsum hash hh s, ?_⟩
  have hlen : (externalList d hash dd s).length = (externalList d hash dd false).length := by
    cases s
    · rfl
    · unfold externalList orderOf
      exact (List.Perm.flatMap_right _ (sortEntries_perm _)).length_eq
  have hf : (externalList d hash dd false).length =
      4 * 2 ^ dd + ((nbList d hash false).filter fun e => e.1.isCardinal).length := by
    unfold externalList orderOf
    simp only [Bool.false_eq_true, if_false]
    rw [List.length_flatMap]
    have : (nbList d hash false).map (fun e => (sideList e.2 dd (fromD d hash e.1)).length) =
        (nbList d hash false).map (fun e => if e.1.isCardinal = true then 1 else 2 ^ dd) := by
      apply List.map_congr_left
      rintro ⟨dir, hv⟩ hm
      exact ((external_edge_struct_spec cfg d dd h1 hsum hash hh).2 dir hv hm).1
    rw [this, sum_card, ordinal_count d hd hash hh]
    omega
  have hc : ((nbList d hash false).filter fun e => e.1.isCardinal).length + 4 = count (2 ^ d) (partsOf d hash) := by
    rw [← nbList_false_length, ← ordinal_count d hd hash hh]
    have := List.length_eq_length_filter_add (l := nbList d hash false) (fun e => e.1.isCardinal)
    omega
  refine ⟨by rw [hlen, hf], ?_⟩
  rw [hlen, hf]
  by_cases h0 : d = 0
  · subst h0
    rw [if_pos rfl]
    have : count (2 ^ 0) (partsOf 0 hash) = 6 := neighbours_count_one _ hp
    omega
  · rw [if_neg h0]
    have := neighbours_count (2 ^ d) _ (EdgeInternal.two_le_pow (by omega)) hp
    split <;> simp_all

/-! ## the geometric fact, in one statement -/

/-- **the facing side / corner** (parts level, every `1 ≤ n`, `n·2^k ≤ 2^32`): let `p` be the neighbour of `q` in
    direction `f` (equivalently — `from_dir_spec`, `from_dir_unique` — `q` is a neighbour of `p` and `f` is the direction
    `from_` computed by the code).  A descendant `Q` of `q`, `k` levels down, shares a vertex (as points of the sphere)
    with some descendant of `p` iff it lies on the side `f` of `q` (`f` ordinal: the `2^k` sub-cells along the shared
    edge), at the corner `f` of `q` (`f` cardinal: one sub-cell at the shared vertex) -/
theorem facing_iff (n k : Nat) (p q Q : HashParts) (f : MW) (hn : 1 ≤ n) (hn2 : n * 2 ^ k ≤ 4294967296)
    (hQ : Valid (n * 2 ^ k) Q) (hq : anc k Q = q) (hf : neighbourParts n q f = some p) (hne : q ≠ p) :
    (∃ P, Valid (n * 2 ^ k) P ∧ anc k P = p ∧ Touch (n * 2 ^ k) Q P) ↔ OnSide (2 ^ k) f (Q.i % 2 ^ k) (Q.j % 2 ^ k) := by
  have hM : 1 ≤ n * 2 ^ k := Nat.mul_pos hn (Nat.two_pow_pos k)
  constructor
  · rintro ⟨P, hP, hPa, ht⟩
    have hne' : Q ≠ P := by
      intro e; rw [e, hPa] at hq; exact hne hq.symm
    obtain ⟨g, _, hg⟩ := neighbours_complete _ P Q hM hn2 hP hQ hne' (touch_symm ht)
    have := (facing_complete n k p P Q g hn hn2 hP hPa hg (by rw [hq]; exact hne)).2 f
    rw [hq] at this
    exact this hf
  · intro hs
    obtain ⟨P, hP, hPa⟩ := facing_sound n k p q Q f hn hn2 hQ hq hf hs
    exact ⟨P, neighbourParts_valid _ Q P f hM hn2 hQ hP, hPa, neighbour_touch _ Q P f hM hn2 hQ hP⟩

/-! ## `delta_depth = 0` -/

/-- with `delta_depth = 0` the external edge is the list of the neighbours (in both profiles), since the repair
    `fix: x_mask, y_mask and xy_mask at depth 0`; before it the masks `x_mask(0)`, `y_mask(0)`, `xy_mask(0)` shifted by 64
    bits: `external_edge(depth 1, cell 10, 0)` panicked in a debug build and returned
    `[18446744073709551615, 8, 12297829382473034411, 27, 11, 5, 6148914691236517207]` in a release build (found by this
    proof development: the hypothesis `1 ≤ dd` could not be dropped) -/
example : externalEdge { debug := true, bmi := false } 1 10 0 false = some [25, 8, 9, 27, 11, 5, 7] ∧
    externalEdge { debug := false, bmi := false } 1 10 0 false = some [25, 8, 9, 27, 11, 5, 7] ∧
    (nbList 1 10 false).map (·.2) = [25, 8, 9, 27, 11, 5, 7] := by decide +kernel

/-! ## tests by kernel evaluation -/

/-- **test** of `external_edge_set` by evaluation (independent of the proofs): the sorted external edge is the list, in
    increasing order, of the cell numbers outside `hash` touching a descendant of `hash` -/
def specSet (d dd hash : Nat) : List Nat :=
  (List.range (12 * 4 ^ (d + dd))).filter fun h' =>
    h' / 4 ^ dd != hash && (List.range (4 ^ dd)).any fun k =>
      decide (Touch (2 ^ (d + dd)) (partsOf (d + dd) h') (partsOf (d + dd) (hash * 4 ^ dd + k)))

def chkSet (cfg : Cfg) (d dd : Nat) : Bool :=
  (List.range (12 * 4 ^ d)).all fun h => externalEdge cfg d h dd true == some (specSet d dd h)

/-- `dd = 1` at depth 0 by kernel evaluation; `#eval` confirms `(d, dd) = (0, 2), (1, 1), (1, 2), (2, 1)` -/
example : chkSet {} 0 1 = true := by decide +kernel

/-- the three lengths: depth 0; a cell with 7 neighbours (depth 2, cell 5); an ordinary cell -/
example : (externalList 0 3 2 false).length = 4 * 2 ^ 2 + 2 ∧ (externalList 2 5 1 false).length = 4 * 2 ^ 1 + 3 ∧
    (externalList 2 6 1 true).length = 4 * 2 ^ 1 + 4 := by decide +kernel

end Hpx.EdgeExternal

#print axioms Hpx.EdgeExternal.facing_iff
#print axioms Hpx.EdgeExternal.external_edge_length
#print axioms Hpx.EdgeExternal.external_edge_set
#print axioms Hpx.EdgeExternal.external_edge_nodup
#print axioms Hpx.EdgeExternal.external_edge_sorted_spec
